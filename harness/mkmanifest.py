#!/usr/bin/env python3
"""Regenerates MANIFEST.json from harness/manifest_src.json (claimed checks) + properties.jsonl."""
import json, os
HERE = os.path.dirname(os.path.dirname(os.path.abspath(__file__)))
src = json.load(open(os.path.join(HERE, "harness", "manifest_src.json")))
props = [json.loads(l)["id"] for l in open(os.path.join(HERE, "properties.jsonl"))]
checks = []
for pid in props:
    c = src["checks"].get(pid)
    if not c:
        continue
    checks.append({
        "property_id": pid,
        "quick_cmd": f"./check {pid} --tier quick",
        "thorough_cmd": f"./check {pid} --tier thorough",
        "evidence_file": f"evidence/{pid}.json",
        "replay_cmd_template": f"./check {pid} --replay {{path}}",
        "engine": "pqverif",
        "level_claimed": {"category": c.get("category", "proof"), "text": c["text"], "design_ref": c.get("design_ref", f"DESIGN.md §2 {pid}")},
        "level_note": c["note"],
        "technique": c["technique"],
    })
na = [{"property_id": p, "reason": src["not_applicable"].get(p, "check not built yet in this round (technique applies; see DESIGN.md §2)")}
      for p in props if p not in src["checks"]]
m = {
    "version": 1,
    "setup_cmd": "cd lean && lake build",
    "hooks": src["hooks"],
    "engines": [{"name": "pqverif", "path": "check", "serves_properties": [c["property_id"] for c in checks],
                 "kind_free_text": "Lean 4 proofs about executable models (lean/PqVerif) + translator/correspondence harness (harness/pqv) driven by ./check"}],
    "checks": checks,
    "notes": src.get("notes", ""),
    "not_applicable": na,
}
json.dump(m, open(os.path.join(HERE, "MANIFEST.json"), "w"), indent=1)
print("checks:", [c["property_id"] for c in checks], "not claimed:", [x["property_id"] for x in na])
