#!/usr/bin/env python3
"""Writes seeded/<id>/meta.json from an evaluation log produced by harness/seeded_eval.sh.
usage: seeded_meta.py <id> <log> <summary text> [--tier quick|thorough]"""
import json, os, re, sys
sid, log, summary = sys.argv[1], sys.argv[2], sys.argv[3]
tier = sys.argv[sys.argv.index("--tier") + 1] if "--tier" in sys.argv else "quick"
txt = open(log).read()
HERE = os.path.dirname(os.path.dirname(os.path.abspath(__file__)))
demo_exit = re.search(r"demo exit (\d+)", txt)
checks = {}
for m in re.finditer(r"== check (C\d\d) \((\w+)\)\n(.*?)check \1 exit (\d+)", txt, re.S):
    body = m.group(3)
    viol = re.findall(r"VIOLATION property=(C\d\d) replay=(\S+)( no-failing-input-found)?\n\s*(.*)", body)
    line = re.search(r"(C\d\d \w+: obligations \d+/\d+.*)", body)
    mech = re.search(r"mechanism " + m.group(1) + r": obligations (\S+)/(\S+) correspondence_mismatches (\S+) first (.*)", body)
    checks[m.group(1)] = {"proof_obligations": f"{mech.group(1)}/{mech.group(2)}" if mech else None,
                          "correspondence_mismatches": (None if not mech or mech.group(3) == "None" else int(mech.group(3))),
                          "first_mismatch": (mech.group(4)[:300] if mech and mech.group(4) != "null" else None), **{"tier": m.group(2), "exit": int(m.group(4)), "violations": [{"replay": v[1], "no_failing_input": bool(v[2]), "message": v[3][:300]} for v in viol],
                          "summary_line": line.group(1) if line else None,
                          "obligations_broken": bool(line and re.search(r"obligations (\d+)/(\d+)", line.group(1)) and (lambda a: a.group(1) != a.group(2))(re.search(r"obligations (\d+)/(\d+)", line.group(1))))}}
patch = open(os.path.join(HERE, "seeded", sid, "patch.diff")).read()
meta = {"id": sid, "property": sid[:3], "files": re.findall(r"^diff --git a/(\S+)", patch, re.M), "summary": summary,
        "demo_exit_on_changed_tree": int(demo_exit.group(1)) if demo_exit else None,
        "detected": any(c["exit"] == 1 for c in checks.values()), "checks": checks,
        "source": "proposed by a sub-agent that saw only the text of the property and its own worktree of /repo; confirmed by applying the patch to /repo, running the demo and the checks, and undoing it"}
json.dump(meta, open(os.path.join(HERE, "seeded", sid, "meta.json"), "w"), indent=1)
print(sid, "detected" if meta["detected"] else "MISSED", {k: (v["exit"], len(v["violations"])) for k, v in checks.items()})
