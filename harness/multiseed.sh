#!/bin/bash
# run every claimed check with several seeds; print any non-zero exit (false-alarm hunting on a clean tree)
cd "$(dirname "$0")/.."
TIER=${1:-quick}; shift
SEEDS=${@:-"1 2 3 4 5"}
(cd lean && lake build >/dev/null 2>&1)
for p in $(python3 -c "import json;print(' '.join(c['property_id'] for c in json.load(open('MANIFEST.json'))['checks']))"); do
  for s in $SEEDS; do
    out=$(VERIF_SEED=$s ./check $p --tier $TIER 2>&1); rc=$?
    echo "$p seed=$s rc=$rc $(echo "$out" | tail -1)"
    if [ $rc -ne 0 ]; then echo "$out" | grep -A1 "VIOLATION\|Error\|Traceback" | head -12; fi
  done
done
