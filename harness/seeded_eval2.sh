#!/bin/bash
# usage: harness/seeded_eval2.sh <dir with patch.diff + demo.py> <tier> <check> [<check> ...]
# Like seeded_eval.sh but WITHOUT touching /repo or /verif: the patch is applied to a scratch git worktree of /repo, the
# checks run from a scratch copy of /verif (so the regenerated Gen/*.lean and the evidence files of the evaluation stay
# there) with PQ_REPO pointing at the worktree (harness/redirect/sitecustomize.py re-points the editable install).
# Several evaluations can run side by side.  Both scratch directories are removed at the end.
set -u
SD=$(realpath "$1"); TIER=$2; shift 2
VERIF=$(dirname "$(dirname "$(realpath "$0")")")
ID=$(basename "$SD")
VE=$(mktemp -d /tmp/ve-$ID-XXXX); WT=/tmp/wr-$ID-$$
trap 'git -C /repo worktree remove --force "$WT" 2>/dev/null; rm -rf "$VE" "$WT"' EXIT
rsync -a --exclude replays --exclude .git "$VERIF"/ "$VE"/
git -C /repo worktree add -q --detach "$WT" HEAD || exit 2
git -C "$WT" apply "$SD/patch.diff" || { echo "patch does not apply"; exit 2; }
DEMO=$(ls "$SD"/demo.* | head -1)
NC=$(mktemp -d)
for tree in "$WT" /repo; do
  cp "$DEMO" "$VE/seed_demo_tmp.py"
  (cd "$tree" && PQ_REPO=$tree PYTHONPATH=$VE/harness/redirect NUMBA_CACHE_DIR=$NC/$(basename $tree) timeout 1800 /venv/bin/python "$VE/seed_demo_tmp.py" > "$VE/demo.out" 2>&1; rc=$?; echo "demo exit on $([ $tree = /repo ] && echo original || echo changed) tree: $rc"; grep -v "^WARNING\|^I0000\|^W0000" "$VE/demo.out" | grep -i "piquasso imported\|__file__" | head -1)
done
rm -rf "$NC"
cd "$VE"
for c in "$@"; do
  echo "== check $c ($TIER)"
  PQ_REPO=$WT timeout 14400 ./check "$c" --tier "$TIER" 2>&1 | grep -v "^WARNING\|^I0000\|^W0000\|cuda\|TF_ENABLE" | cut -c1-300 | tail -8
  rc=${PIPESTATUS[0]}
  /venv/bin/python - "$c" <<'PY'
import json, sys
try:
    e = json.load(open(f"evidence/{sys.argv[1]}.json"))["coverage"]
    print(f"mechanism {sys.argv[1]}: obligations {e.get('discharged')}/{e.get('obligations')} correspondence_mismatches {e.get('correspondence_mismatches')} first {json.dumps(e.get('first_mismatches'))[:400]}")
except Exception as ex:
    print("mechanism", sys.argv[1], "unavailable", ex)
PY
  echo "check $c exit $rc"
done
