"""Makes `import piquasso` honour PQ_REPO.  The editable (scikit-build-core) install redirects every piquasso module
to an absolute path under /repo whatever PYTHONPATH says; when PQ_REPO names another checkout (a scratch worktree used
to evaluate a seeded change without touching /repo) the finder's tables are re-pointed to it.  `./check` puts this
directory on PYTHONPATH, so the subprocesses it starts (pinned regressions, bounds-checked passes) follow too.
The pre-built extension modules are shared (they cannot be rebuilt in this sandbox)."""
import os
import sys

_T = os.environ.get("PQ_REPO", "/repo").rstrip("/")
if _T != "/repo" and os.path.isdir(os.path.join(_T, "piquasso")) and "piquasso" not in sys.modules:
    def _m(p):
        return _T + p[len("/repo"):] if p == "/repo" or p.startswith("/repo/") else p
    for _f in sys.meta_path:
        if hasattr(_f, "known_source_files") and hasattr(_f, "submodule_search_locations"):
            _f.known_source_files = {k: _m(v) for k, v in _f.known_source_files.items()}
            _f.submodule_search_locations = {k: {_m(p) for p in v} for k, v in _f.submodule_search_locations.items()}
