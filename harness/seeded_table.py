#!/usr/bin/env python3
"""Prints the markdown table of the seeded corpus from seeded/*/meta.json (used for DESIGN.md section 8)."""
import glob, json, os
HERE = os.path.dirname(os.path.dirname(os.path.abspath(__file__)))
rows = []
for f in sorted(glob.glob(os.path.join(HERE, "seeded", "C*", "meta.json")), key=lambda p: (os.path.basename(os.path.dirname(p))[:3], len(os.path.basename(os.path.dirname(p))), p)):
    m = json.load(open(f))
    det = ", ".join(f"{c}:{'detected' if v['exit'] == 1 else 'missed'}" + (" (proof obligations broken)" if v.get("obligations_broken") else "")
                    + (f" (correspondence: {v['correspondence_mismatches']} mismatches)" if v.get("correspondence_mismatches") else "") for c, v in m["checks"].items())
    note = "strengthened after a first miss" if m.get("history") else ""
    rows.append(f"| {m['id']} | {m['summary'][:170]} | {det} | {note} |")
print("| id | change | reported by (quick tier) | note |\n|---|---|---|---|")
print("\n".join(rows))
