#!/bin/bash
# usage: [TESTS="tests/a tests/b"] harness/seeded_eval.sh <seeded-dir> <tier> <check> [<check> ...]
# applies <seeded-dir>/patch.diff to /repo, runs the demo (fresh numba cache), optionally the given repo tests, and the
# listed checks; always undoes the change.
set -u
SD=$(realpath "$1"); TIER=$2; shift 2
VERIF=$(dirname "$(dirname "$(realpath "$0")")")
cd "$VERIF"
if [ -n "$(git -C /repo status --porcelain)" ]; then echo "/repo is not clean"; exit 2; fi
git -C /repo apply "$SD/patch.diff" || { echo "patch does not apply"; exit 2; }
trap 'git -C /repo checkout -- . ; rm -f /repo/seed_demo_tmp.py; git -C "$VERIF" checkout -- lean/PqVerif/Gen 2>/dev/null' EXIT
NC=$(mktemp -d)
echo "== demo"
# the demos re-point the editable-install finder to their own directory unless that directory is /repo: run a copy there
cp "$(ls "$SD"/demo.* | head -1)" /repo/seed_demo_tmp.py
(cd /repo && NUMBA_CACHE_DIR=$NC timeout 3600 /venv/bin/python /repo/seed_demo_tmp.py 2>&1 | grep -v "^WARNING\|^I0000\|^W0000" | tail -6; echo "demo exit ${PIPESTATUS[0]}")
if [ -n "${TESTS:-}" ]; then
  echo "== repo tests: $TESTS"
  (cd /repo && NUMBA_CACHE_DIR=$NC timeout 7200 /venv/bin/python -m pytest -q -p no:cacheprovider --timeout=900 $TESTS 2>&1 | tail -3)
fi
rm -rf "$NC"
for c in "$@"; do
  echo "== check $c ($TIER)"
  timeout 14400 ./check "$c" --tier "$TIER" 2>&1 | grep -v "^WARNING\|^I0000\|^W0000\|cuda\|TF_ENABLE" | cut -c1-300 | tail -8
  rc=${PIPESTATUS[0]}
  /venv/bin/python - "$c" <<'PY'
import json, sys
try:
    e = json.load(open(f"evidence/{sys.argv[1]}.json"))["coverage"]
    print(f"mechanism {sys.argv[1]}: obligations {e.get('discharged')}/{e.get('obligations')} correspondence_mismatches {e.get('correspondence_mismatches')} first {json.dumps(e.get('first_mismatches'))[:400]}")
except Exception as ex:
    print("mechanism", sys.argv[1], "unavailable", ex)
PY
  echo "check $c exit $rc"
done
