#!/bin/bash
# usage: harness/seeded_eval.sh <seeded-dir> <tier> <check> [<check> ...]
# applies <seeded-dir>/patch.diff to /repo, runs the demo and the listed checks, undoes the change.
set -u
SD=$(realpath "$1"); TIER=$2; shift 2
VERIF=$(dirname "$(dirname "$(realpath "$0")")")
cd "$VERIF"
if [ -n "$(git -C /repo status --porcelain)" ]; then echo "/repo is not clean"; exit 2; fi
git -C /repo apply "$SD/patch.diff" || { echo "patch does not apply"; exit 2; }
trap 'git -C /repo checkout -- . ; git -C "$VERIF" checkout -- lean/PqVerif/Gen 2>/dev/null' EXIT
echo "== demo"
DEMO=$(ls "$SD"/demo.* | head -1)
(cd /repo && timeout 1800 /venv/bin/python "$DEMO" 2>&1 | grep -v "^WARNING\|^I0000\|^W0000" | tail -5; echo "demo exit ${PIPESTATUS[0]}")
for c in "$@"; do
  echo "== check $c ($TIER)"
  timeout 7200 ./check "$c" --tier "$TIER" 2>&1 | grep -v "^WARNING\|^I0000\|^W0000\|cuda\|TF_ENABLE" | cut -c1-300 | tail -8
  echo "check $c exit ${PIPESTATUS[0]}"
done
