"""C03: shot accounting and the chain rule of measurement.
proof: PqVerif.Props.C03 (FreqInv for every program/oracle within the step contract; chain rule on
finitely supported amplitudes); tie (i): scripted engine — the REAL Simulator.execute driven by fake
instructions vs the Lean engine model on the same script; tie (ii)/search: the real simulators."""
import os
from fractions import Fraction

THEOREMS = [
    "Pq.C03.shots_invariant", "Pq.C03.int_frequency_times_shots_exact", "Pq.C03.samples_length",
    "Pq.C03.frequencies_sum_to_one", "Pq.C03.counts_sum",
    "Pq.C03Chain.weights_sum", "Pq.C03Chain.post_normalised", "Pq.C03Chain.sequential_eq_joint", "Pq.C03Chain.joint_zero_of_first_zero", "Pq.C03Chain.final_branch_state"]
FILES = ["PqVerif/Model/Engine.lean", "PqVerif/Lemmas/EngineInv.lean", "PqVerif/Lemmas/MeasureChain.lean", "PqVerif/Props/C03Chain.lean", "PqVerif/Props/C03.lean"]


def check_result_invariants(result, shots):
    """the property's finite-shots clause on a real Result; returns message or None"""
    bs = result.branches
    if shots is None:
        return None
    fr = [Fraction(b.frequency) for b in bs]
    for f in fr:
        k = f * shots
        if k.denominator != 1 or k <= 0:
            return f"branch frequency {f} is not k/{shots} with positive integer k"
    if sum(fr) != 1:
        return f"frequencies sum to {sum(fr)}"
    if len(result.samples) != shots:
        return f"{len(result.samples)} samples for shots={shots}"
    try:
        c = result.get_counts()
    except NotImplementedError:
        return None
    if sum(c.values()) != shots:
        return f"counts sum to {sum(c.values())} for shots={shots}"
    return None


def scripted(ctx, n_programs):
    from pqv import engine, enginegen
    reqs, lines, reals = [], [], []
    for _ in range(n_programs):
        req = enginegen.gen_valid(ctx.rng)
        line, extra = engine.run_real(req, use_callables=ctx.rng.random() < 0.3)
        reqs.append(req); reals.append((line, extra)); lines.append(engine.ser_request(req))
    outs = ctx.lean_run(lines)
    mism = []
    dist = {"ok": 0, "err": 0, "branches>=2": 0, "shots_none": 0, "instr": 0, "measurements": 0, "conditions": 0, "expr_params": 0}
    for req, (line, extra), got, pl in zip(reqs, reals, outs, lines):
        nmeas = sum(1 for i in req["program"] if i["cls"] in (4, 5, 6))
        nb = len(extra["result"].branches) if "result" in extra else 0
        dist["ok" if "result" in extra else "err"] += 1
        dist["branches>=2"] += nb >= 2
        dist["shots_none"] += req["shots"] is None
        dist["instr"] += len(req["program"]); dist["measurements"] += nmeas
        dist["conditions"] += sum(1 for i in req["program"] if i["cond"]); dist["expr_params"] += sum(1 for i in req["program"] for p in i["params"] if p[1] == "e")
        ctx.count(pl, nontrivial=nb >= 2 and nmeas >= 2,
                  sample={"request": pl[:300], "real": line[:300]} if nb >= 2 and nmeas >= 2 else None)
        if line != got:
            mism.append((pl, line, got))
        if "result" in extra:
            msg = check_result_invariants(extra["result"], req["shots"])
            if msg:
                ctx.fail("scripted:" + pl, "scripted engine: " + msg, {"request": pl, "real": line})
    return mism, dist


def shot_arithmetic(ctx, n_max):
    """directed: the shot budget handed to a branch is EXACTLY frequency * shots for every (count, shots) pair: a first
    measurement splits N shots into (k, N - k) (explicit `counts` of the scripted oracle), a second measurement then has
    to receive k and N - k shots; every 1 <= k < N <= n_max"""
    from pqv import engine
    reqs, lines, reals = [], [], []
    for N in range(2, n_max + 1):
        for k in range(1, N):
            req = {"simd": 2, "shots": N, "shots_tag": str(N), "init_tag": "absent", "init_d": None, "d": 2, "program": [
                {"cls": 0, "modes": (), "cond": None, "params": [("k", "c", 0)]},
                {"cls": 4, "modes": (0,), "cond": None, "params": [("outs", "c", ((0,), (1,))), ("counts", "c", (k, N - k))]},
                {"cls": 4, "modes": (1,), "cond": None, "params": [("outs", "c", ((0,), (1,), (2,)))]}]}
            line, extra = engine.run_real(req)
            reqs.append(req); reals.append((line, extra)); lines.append(engine.ser_request(req))
    outs = ctx.lean_run(lines)
    mism = []
    for req, (line, extra), got, pl in zip(reqs, reals, outs, lines):
        ctx.count(pl, nontrivial=True)
        if line != got:
            mism.append((pl, line, got))
        if "result" in extra:
            msg = check_result_invariants(extra["result"], req["shots"])
            if msg:
                ctx.fail("shot-arithmetic:" + pl[:60], "scripted engine, explicit split: " + msg, {"request": pl, "real": line})
    return mism


def real_simulators(ctx, n):
    """search/tie (ii): the finite-shot clause and the shots=None chain rule on the real simulators"""
    import numpy as np
    import piquasso as pq
    rng = ctx.rng
    fails = []
    kinds = {}
    for it in range(n):
        d = rng.randint(2, 3)
        sim_name = rng.choice(["purefock", "purefock", "fock", "gaussian", "passive"])
        shots = rng.choice([1, 2, 5, 9, 20])
        seed = rng.randint(1, 10 ** 6)
        theta, phi, r1 = rng.uniform(0.1, 1.4), rng.uniform(0, 3), rng.uniform(0.1, 0.5)
        split = rng.randint(1, d - 1)
        order = list(range(d)); rng.shuffle(order)
        first, second = tuple(order[:split]), tuple(order[split:])
        with pq.Program() as p:
            if sim_name == "gaussian":
                pq.Q(0) | pq.Squeezing(r=r1)
                pq.Q(1) | pq.Displacement(r=0.4, phi=phi)
            elif sim_name == "fock":
                pq.Q() | pq.Vacuum()
                pq.Q(0) | pq.Squeezing(r=r1)
            elif sim_name == "passive":
                pq.Q(*range(d)) | pq.StateVector([1] + [1] * (d - 2) + [0])
            else:
                pq.Q(*range(d)) | pq.StateVector([1] + [0] * (d - 2) + [1]) * np.sqrt(0.5)
                pq.Q(*range(d)) | pq.StateVector([0] + [0] * (d - 2) + [2]) * np.sqrt(0.5)
            pq.Q(0, 1) | pq.Beamsplitter(theta=theta, phi=phi)
            if d == 3:
                pq.Q(1, 2) | pq.Beamsplitter(theta=phi / 3, phi=theta)
            two_step = sim_name in ("purefock", "passive") and rng.random() < 0.6
            if two_step:
                pq.Q(*first) | pq.ParticleNumberMeasurement()
                if rng.random() < 0.5 and sim_name == "purefock":
                    pq.Q(second[0]) | pq.Phaseshifter(phi="x[0] * 0.3").when("x[0] >= 0")
                pq.Q(*second) | pq.ParticleNumberMeasurement()
            else:
                pq.Q() | pq.ParticleNumberMeasurement()
        cfg = pq.Config(cutoff=4, seed_sequence=seed, measurement_cutoff=4)
        sim = {"purefock": pq.PureFockSimulator, "fock": pq.FockSimulator, "gaussian": pq.GaussianSimulator,
               "passive": pq.PassiveSimulator}[sim_name](d=d, config=cfg)
        kinds[sim_name] = kinds.get(sim_name, 0) + 1
        key = f"real:{sim_name}:d{d}:shots{shots}:two_step{two_step}"
        try:
            res = sim.execute(p, shots=shots)
        except Exception as e:
            fails.append((key + ":raise", f"{sim_name} adaptive program with shots={shots} raised {type(e).__name__}: {e}",
                          {"sim": sim_name, "d": d, "shots": shots, "seed": seed, "first": first, "second": second}))
            continue
        ctx.count(key + str(seed), nontrivial=two_step)
        msg = check_result_invariants(res, shots)
        if msg:
            fails.append((key, f"{sim_name} d={d} shots={shots}: {msg}",
                          {"sim": sim_name, "d": d, "shots": shots, "seed": seed, "theta": theta, "phi": phi,
                           "first": first, "second": second, "two_step": two_step}))
    ctx.notes["real_simulator_runs"] = kinds
    return fails


def branch_isolation(ctx, n):
    """chain rule across branches on the real simulators: the instructions after a mid-circuit measurement act on every branch
    separately.  (a) right after the measurement no two branches hold the same state object / share array memory (the engine
    evolves branch states in place); (b) a gate conditioned on the outcome changes exactly the branches whose outcome meets
    the condition: the joint shots=None distribution equals the one obtained by finishing every branch on its own copy."""
    import numpy as np
    import piquasso as pq
    rng = np.random.default_rng(ctx.seed + 303)
    fails = []
    for it in range(n):
        kind = ["passive-imperfect", "passive-pnm", "purefock-pnm"][it % 3]
        th1, ph1, th2, ph2 = (float(x) for x in rng.uniform(0.2, 1.3, size=4))
        D = np.triu(rng.uniform(0.1, 1.0, size=(3, 3))); D = D / D.sum(axis=0)
        cls = pq.PureFockSimulator if kind == "purefock-pnm" else pq.PassiveSimulator
        meas = (lambda: pq.ImperfectParticleNumberMeasurement(D)) if kind == "passive-imperfect" else (lambda: pq.ParticleNumberMeasurement())
        head = lambda: [pq.StateVector([1, 1, 0]).on_modes(0, 1, 2), pq.Beamsplitter(theta=th1, phi=ph1).on_modes(0, 1),
                        pq.Beamsplitter(theta=th2, phi=ph2).on_modes(1, 2), meas().on_modes(0)]
        gate = lambda: pq.Beamsplitter(theta=0.9, phi=0.4)
        desc = {"kind": kind, "angles": [th1, ph1, th2, ph2], "detector_efficiency_matrix": D.tolist() if kind == "passive-imperfect" else None}
        ctx.count(("isolation", it), nontrivial=True)
        try:
            mk = lambda: cls(d=3, config=pq.Config(cutoff=4))
            # (a) aliasing right after the measurement
            r0 = mk().execute(pq.Program(instructions=head()), shots=None)
            states = [b.state for b in r0.branches if b.state is not None]
            if len({id(x) for x in states}) != len(states):
                fails.append((f"branch-aliasing:{kind}", f"{kind}: {len(states) - len({id(x) for x in states})} branch(es) share their state object with another branch after the mid-circuit measurement", desc)); continue
            # (b) joint run vs every branch finished on its own copy
            joint = mk().execute(pq.Program(instructions=head() + [gate().on_modes(1, 2).when("x[0] == 1"), pq.ParticleNumberMeasurement().on_modes(1, 2)]), shots=None)
            got = {}
            for b in joint.branches:
                k = tuple(int(x) for x in b.outcome); got[k] = got.get(k, 0.0) + float(b.frequency)
            want = {}
            for b in r0.branches:
                if b.state is None or float(b.frequency) == 0.0:
                    continue
                x0 = int(b.outcome[0])
                tail = ([gate().on_modes(0, 1)] if x0 == 1 else []) + [pq.ParticleNumberMeasurement().on_modes(0, 1)]
                rb = cls(d=2, config=pq.Config(cutoff=4)).execute(pq.Program(instructions=tail), shots=None, initial_state=b.state.copy())
                for bb in rb.branches:
                    k = (x0,) + tuple(int(x) for x in bb.outcome); want[k] = want.get(k, 0.0) + float(b.frequency) * float(bb.frequency)
            keys = set(got) | set(want)
            worst = max(abs(got.get(k, 0.0) - want.get(k, 0.0)) for k in keys)
            if worst > 1e-9:
                kk = max(keys, key=lambda k: abs(got.get(k, 0.0) - want.get(k, 0.0)))
                fails.append((f"branch-isolation:{kind}", f"{kind}: joint shots=None weight of outcome {kk} is {got.get(kk, 0.0):.9f}, finishing every branch on its own copy gives {want.get(kk, 0.0):.9f}", desc))
        except Exception as e:
            fails.append((f"branch-isolation-raise:{kind}:{type(e).__name__}", f"{kind}: {type(e).__name__}: {str(e)[:140]}", desc))
    return fails


def run(ctx):
    quick = ctx.tier == "quick"
    n_prog, n_real = (400, 60) if quick else (6000, 600)
    ctx.rule = ("scripted adaptive programs (<=8 instructions, partial measurements anywhere, string and callable "
                "conditions / parameters over earlier outcomes, shots in 1..50 and None) through the real "
                "Simulator.execute and the Lean engine model; non-trivial = >=2 measurements and >=2 final branches; "
                "plus real simulators with sequential vs joint particle-number measurements")
    ctx.assumptions = ["fractions.Fraction = exact rationals", "random.Random.shuffle only permutes the samples",
                       "simulation steps honour the step contract StepOK (checked on the real steps by the real-simulator runs)"]
    ctx.prove("PqVerif.Props.C03", THEOREMS, FILES)
    # pinned regressions first
    import subprocess, glob, sys
    for f in sorted(glob.glob(os.path.join(os.path.dirname(__file__), "..", "..", "..", "corpus", "repro", "c03_*.py"))):
        p = subprocess.run([sys.executable, f], capture_output=True, text=True, cwd=os.environ.get("PQ_REPO", "/repo"))
        ctx.count("repro:" + os.path.basename(f), True)
        if p.returncode != 0:
            ctx.fail("repro:" + os.path.basename(f), "pinned regression fails: " + p.stdout[-300:], {"script": f, "stdout": p.stdout[-1000:]})
    mism, dist = scripted(ctx, n_prog)
    mism += shot_arithmetic(ctx, 60 if quick else 260)
    ctx.notes["input_distribution"] = dist
    ctx.notes["correspondence_mismatches"] = len(mism)
    fails = real_simulators(ctx, n_real) + branch_isolation(ctx, 6 if quick else 90)
    for key, msg, inp in fails[:5]:
        ctx.fail(key, msg, inp)
    if mism:
        ctx.notes["first_mismatches"] = [dict(request=m[0][:400], real=m[1][:400], model=m[2][:400]) for m in mism[:5]]
        ctx.broken.append("correspondence:Model/Engine vs Simulator.execute (scripted)")
        if not ctx.violations:
            m = mism[0]
            ctx.fail("correspondence:engine", f"engine model and Simulator.execute differ: real `{m[1][:200]}` model `{m[2][:200]}`", None)
