"""C04: matrix-function kernels equal their combinatorial definitions.
proof (partial): PqVerif.Props.C04 — the algorithm model of permanent_cpp: binomialCoeff = choose, the
incremental binomial update is exact, every job equals the direct summands, one-thread value = plain BBFG sum,
thread independence; the `int` weight overflows from multiplicity (18,18) (witness) and is exact below.
Not proved: BBFG sum = permanent (Glynn), hafnian / torontonian / pfaffian algorithms (correspondence only).
tie: recompiled C++ kernels (harness/native) + the Python entry points (prebuilt extension modules) vs the exact
ℚ[i] algorithm model and vs exact definitions (permanent by contingency tables / expansion, hafnian and
Pfaffian by matchings, torontonian by subset determinants), float64 + float32, contiguous + strided."""
import itertools
import math
import os
import numpy as np
from fractions import Fraction
from pqv.props.c11 import build_native, native_run, qi

THEOREMS = ["Pq.C04.binomialCoeff_eq_choose", "Pq.C04.binomUpdate_exact", "Pq.C04.runJob_eq_sum",
            "Pq.C04.permanent_one_thread_sum", "Pq.C04.permanent_threads_independent", "Pq.C04.wrap32_of_small",
            "Pq.C04.int32_overflow_witness", "Pq.C04.permanent_eq_permSpec", "Pq.C04.permanent_none_of_ne",
            "Pq.C04.match_edges_cover", "Pq.C04.match_edges_cover_odd", "Pq.C04.match_round_decreases", "Pq.C04.match_single_vertex",
            "Pq.C04.kept_edges_bounded", "Pq.C04.kept_edges_injective", "Pq.C04.kept_edges_complement", "Pq.C04.pattern_weights_total"]
FILES = ["PqVerif/Model/Kernel.lean", "PqVerif/Lemmas/GrayLaws.lean", "PqVerif/Lemmas/PermLaws.lean", "PqVerif/Lemmas/Glynn.lean", "PqVerif/Lemmas/PermSpec.lean", "PqVerif/Model/HafEdges.lean", "PqVerif/Lemmas/HafEdgesLaws.lean", "PqVerif/Props/C04.lean"]


# ------------------------------------------------------------------ exact definitions
def cfrac(z):
    z = complex(z)
    return (Fraction(z.real), Fraction(z.imag))


def cmul(a, b):
    return (a[0] * b[0] - a[1] * b[1], a[0] * b[1] + a[1] * b[0])


def cadd(a, b):
    return (a[0] + b[0], a[1] + b[1])


def cpow(a, n):
    r = (Fraction(1), Fraction(0))
    for _ in range(n):
        r = cmul(r, a)
    return r


def perm_def(A, rows, cols):
    """permanent of the matrix with row i repeated rows[i] times and column j cols[j] times, exactly:
    prod(r_i!) prod(c_j!) * sum over contingency tables T (row sums r, column sums c) prod a_ij^T_ij / T_ij!"""
    n, m = len(rows), len(cols)
    if sum(rows) != sum(cols):
        return None
    F = [[cfrac(A[i][j]) for j in range(m)] for i in range(n)]
    from functools import lru_cache

    def row_tables(r, caps):
        # all ways to distribute r over columns with caps
        if len(caps) == 1:
            if r <= caps[0]:
                yield (r,)
            return
        for t in range(min(r, caps[0]) + 1):
            for rest in row_tables(r - t, caps[1:]):
                yield (t,) + rest

    @lru_cache(maxsize=None)
    def go(i, remaining):
        if i == n:
            return (Fraction(1), Fraction(0)) if all(x == 0 for x in remaining) else (Fraction(0), Fraction(0))
        tot = (Fraction(0), Fraction(0))
        for t in row_tables(rows[i], remaining):
            term = (Fraction(1), Fraction(0))
            for j, tj in enumerate(t):
                if tj:
                    term = cmul(term, cpow(F[i][j], tj))
                    term = (term[0] / math.factorial(tj), term[1] / math.factorial(tj))
            sub = go(i + 1, tuple(r - tj for r, tj in zip(remaining, t)))
            tot = cadd(tot, cmul(term, sub))
        return tot
    v = go(0, tuple(cols))
    f = Fraction(1)
    for r in rows:
        f *= math.factorial(r)
    for c in cols:
        f *= math.factorial(c)
    return complex(float(v[0] * f), float(v[1] * f))


def expand(A, occ):
    idx = [i for i, k in enumerate(occ) for _ in range(k)]
    return [[A[i][j] for j in idx] for i in idx], idx


def haf_def(M, diag=None):
    """(loop) hafnian by the defining sum over perfect matchings (with loops when diag is given)"""
    n = len(M)
    F = [[cfrac(M[i][j]) for j in range(n)] for i in range(n)]
    D = [cfrac(x) for x in diag] if diag is not None else None
    from functools import lru_cache

    @lru_cache(maxsize=None)
    def go(rem):
        if not rem:
            return (Fraction(1), Fraction(0))
        i = rem[0]
        rest = rem[1:]
        tot = (Fraction(0), Fraction(0))
        if D is not None:
            tot = cadd(tot, cmul(D[i], go(rest)))
        for k, j in enumerate(rest):
            tot = cadd(tot, cmul(F[i][j], go(rest[:k] + rest[k + 1:])))
        return tot
    if D is None and n % 2:
        return 0j
    v = go(tuple(range(n)))
    return complex(float(v[0]), float(v[1]))


def pf_def(M):
    n = len(M)
    if n % 2:
        return 0.0
    F = [[Fraction(float(M[i][j])) for j in range(n)] for i in range(n)]
    from functools import lru_cache

    @lru_cache(maxsize=None)
    def go(rem):
        if not rem:
            return Fraction(1)
        i = rem[0]; rest = rem[1:]
        tot = Fraction(0)
        for k, j in enumerate(rest):
            tot += (-1) ** k * F[i][j] * go(rest[:k] + rest[k + 1:])
        return tot
    return float(go(tuple(range(n))))


def tor_def(A, gamma=None):
    """(loop) torontonian in the xpxp ordering used by the kernel: sum over mode subsets"""
    n = len(A) // 2
    tot = 0.0
    for k in range(n + 1):
        for S in itertools.combinations(range(n), k):
            idx = [x for s in S for x in (2 * s, 2 * s + 1)]
            sub = np.asarray(A)[np.ix_(idx, idx)]
            X = np.eye(len(idx)) - sub
            det = np.linalg.det(X) if idx else 1.0
            term = 1.0 / np.sqrt(det)
            if gamma is not None and idx:
                g = np.asarray(gamma)[idx]
                term *= np.exp(0.5 * g @ np.linalg.solve(X, g))
            tot += (-1) ** (n - k) * term
    return tot


# ------------------------------------------------------------------ generators
def gen_matrix(rng, n, m, kind):
    if kind == "dyadic":
        return (rng.integers(-8, 9, size=(n, m)) + 1j * rng.integers(-8, 9, size=(n, m))) / 8.0
    if kind == "real":
        return (rng.integers(-8, 9, size=(n, m)) / 4.0).astype(complex)
    if kind == "zero-row":
        A = (rng.integers(-8, 9, size=(n, m)) + 1j * rng.integers(-8, 9, size=(n, m))) / 8.0
        A[int(rng.integers(0, n))] = 0
        return A
    if kind == "identity":
        return np.eye(n, m, dtype=complex)
    if kind == "permutation":
        P = np.zeros((n, m), dtype=complex)
        for i, j in enumerate(rng.permutation(min(n, m))):
            P[i, j] = 1
        return P
    return rng.normal(size=(n, m)) + 1j * rng.normal(size=(n, m))


def gen_mults(rng, n, total):
    r = [0] * n
    for _ in range(total):
        r[int(rng.integers(0, n))] += 1
    return r


def bbfg_abs_sum(A, rows, cols):
    """sum of the absolute values of the BBFG summands / 2^(n-1): the magnitude against which the kernel's
    floating-point cancellation error has to be judged (the summands are huge and cancel for sparse matrices)"""
    import itertools
    from math import comb
    A = np.asarray(A, dtype=complex)
    nz = [i for i, r in enumerate(rows) if r > 0]
    if not nz:
        return 1.0
    k = min(nz, key=lambda i: rows[i])
    mults = list(rows); mults[k] -= 1
    tot = 0.0
    for g in itertools.product(*[range(m + 1) for m in mults]):
        w = 1.0
        for m, gi in zip(mults, g):
            w *= comb(m, gi)
        colsum = A[k].copy()
        for i, (m, gi) in enumerate(zip(mults, g)):
            colsum = colsum + A[i] * (m - 2 * gi)
        tot += w * float(np.prod(np.abs(colsum) ** np.array(cols, dtype=float)))
    return tot / 2.0 ** (sum(rows) - 1)


def flatc(A):
    return " ".join(f"{float(z.real)!r} {float(z.imag)!r}" for z in np.asarray(A).reshape(-1))


def permanents(ctx, binary, n_cases, fails, mism):
    from piquasso._math.permanent import permanent, permanent_laplace
    rng = np.random.default_rng(ctx.seed + 4)
    cases = []
    kinds = ["dyadic", "dyadic", "real", "zero-row", "identity", "permutation", "normal"]
    for it in range(n_cases):
        big = rng.random() < 0.3
        if big:
            n = int(rng.integers(1, 4)); tot = int(rng.integers(5, 41))
            rows = gen_mults(rng, n, tot)
            if rng.random() < 0.3:
                rows = [0] * n; rows[int(rng.integers(0, n))] = tot
            cols = gen_mults(rng, n, tot)
        else:
            n = int(rng.integers(1, 7)); tot = int(rng.integers(0, 9))
            rows, cols = gen_mults(rng, n, tot), gen_mults(rng, n, tot)
        A = gen_matrix(rng, n, n, str(rng.choice(kinds)))
        if big:
            A = A / max(1.0, np.abs(A).max())
        cases.append((A, rows, cols, big))
    # pinned: the int-overflow family and boundary multiplicities
    for mlt in (17, 18, 19, 20):
        U = np.array([[0.6, 0.8j], [0.8j, 0.6]])
        cases.append((U, [mlt, mlt], [mlt, mlt], True))
    lines = [f"perm64 {len(r)} {len(c)} {flatc(A)} " + " ".join(map(str, r)) + " " + " ".join(map(str, c)) for A, r, c, _ in cases]
    lines32 = [l.replace("perm64", "perm32", 1) for l in lines]
    n64, _ = native_run(binary, lines, 1)
    n32, _ = native_run(binary, lines32, 1)
    mlines = [f"perm 0 1 {len(r)} {len(c)} " + ",".join(qi(z) for z in A.reshape(-1)) + " " + ",".join(map(str, r)) + " " + ",".join(map(str, c)) for A, r, c, _ in cases]
    exact = ctx.lean_run(mlines)
    # largest value a C `int` would have to hold (exact model); >= 2^31 means undefined behaviour in the kernel
    maxint = [int(x) for x in ctx.lean_run(["permmaxint " + (",".join(map(str, r)) or "-") for _, r, _, _ in cases])]

    def val(s):
        a, b = s.split(";"); return complex(float(Fraction(a)), float(Fraction(b)))

    def parse_native(s):
        try:
            a, b = s.split(); return complex(float(a), float(b))
        except Exception:
            return None
    dist = {"total<=8": 0, "total>8": 0, "overflow_explained": 0}
    for (A, rows, cols, big), l, o64, o32, ex, mxi in zip(cases, lines, n64, n32, exact, maxint):
        spec = perm_def(A.tolist(), rows, cols)
        dist["total>8" if sum(rows) > 8 else "total<=8"] += 1
        ctx.count(("perm", l[:120]), nontrivial=max(rows + [0]) >= 2,
                  sample={"rows": rows, "cols": cols, "native": o64} if max(rows + [0]) >= 2 and len(ctx.samples) < 4 else None)
        e = val(ex) if ex not in ("none", "bad-op") else None
        # model vs definition: exact algorithm model must equal the defining sum
        scale = bbfg_abs_sum(A, rows, cols) if (len(rows) and sum(rows) == sum(cols)) else 1.0
        if e is not None and spec is not None and abs(e - spec) > 1e-9 * max(1.0, abs(spec)):
            mism.append((l[:200], f"algorithm model {e} != definition {spec}", ""))
        ref = spec if spec is not None else e
        if ref is None:
            continue
        for tag, out, tol in (("float64", o64, 1e-10), ("float32", o32, 1e-3)):
            if tag == "float32" and sum(rows) > 12:
                continue
            v = parse_native(out)
            if v is None:
                fails.append((f"perm-native-output:{tag}", f"permanent_cpp<{tag}> printed `{out[:60]}`", {"rows": rows, "cols": cols})); continue
            if abs(v - ref) > tol * max(abs(ref), 1e-300) + (1e-12 if tag == "float64" else 1e-4) * scale:
                if mxi >= 2 ** 31:
                    dist["overflow_explained"] += 1
                    fails.append(("perm:int32-binomial-overflow", f"permanent_cpp<{tag}>(rows {rows}, cols {cols}) = {v}, definition {ref}: the `int` binomial weight overflows (exact model: intermediate value {mxi} >= 2^31)",
                                  {"rows": rows, "cols": cols, "matrix": repr(A.tolist()), "native": [v.real, v.imag], "exact": [ref.real, ref.imag], "max_int_needed": mxi}))
                else:
                    fails.append((f"perm-native:{tag}:{rows}:{cols}", f"permanent_cpp<{tag}>(rows {rows}, cols {cols}) = {v}, definition {ref}",
                                  {"rows": rows, "cols": cols, "matrix": repr(A.tolist()), "native": [v.real, v.imag], "exact": [ref.real, ref.imag]}))
        # Python entry point (prebuilt extension), contiguous and strided
        if sum(rows) <= 12:
            for strided in (False, True):
                big_ = np.zeros((2 * len(rows), 2 * len(cols)), dtype=complex); big_[::2, ::2] = A
                Ain = big_[::2, ::2] if strided else A.copy()
                try:
                    v = complex(permanent(Ain, np.array(rows, dtype=np.int32), np.array(cols, dtype=np.int32)))
                except Exception as exc:
                    if spec is not None:
                        fails.append(("perm-python-raise", f"permanent raised {type(exc).__name__}: {exc}", {"rows": rows, "cols": cols}))
                    continue
                if spec is not None and abs(v - spec) > 1e-10 * abs(spec) + 1e-12 * scale:
                    fails.append((f"perm-python:{'strided' if strided else 'contiguous'}", f"piquasso._math.permanent.permanent(rows {rows}, cols {cols}) = {v}, definition {spec}", {"rows": rows, "cols": cols, "matrix": repr(A.tolist())}))
        # Laplace variant: one more column particle; entry j = permanent with column j removed once
        if 0 < sum(rows) <= 7 and len(rows) >= 1:
            c2 = list(cols); j0 = int(rng.integers(0, len(c2))); c2[j0] += 1
            try:
                lap = permanent_laplace(A.copy(), np.array(rows, dtype=np.int32), np.array(c2, dtype=np.int32))
                for j in range(len(c2)):
                    if c2[j] == 0:
                        continue
                    c3 = list(c2); c3[j] -= 1
                    s = perm_def(A.tolist(), rows, c3)
                    if abs(complex(lap[j]) - s) > 1e-10 * abs(s) + 1e-11 * max(scale, 1.0) * max(1, sum(rows)):
                        fails.append(("perm-laplace", f"permanent_laplace(rows {rows}, cols {c2})[{j}] = {complex(lap[j])}, sub-permanent {s}", {"rows": rows, "cols": c2, "matrix": repr(A.tolist())}))
                        break
            except Exception as exc:
                fails.append(("perm-laplace-raise", f"permanent_laplace raised {type(exc).__name__}: {exc}", {"rows": rows, "cols": c2}))
    ctx.notes["permanent_distribution"] = dist


def others(ctx, binary, n_cases, fails):
    from piquasso._math.hafnian import (hafnian_with_reduction, loop_hafnian_with_reduction,
                                        hafnian_with_reduction_batch, loop_hafnian_with_reduction_batch)
    from piquasso._math.torontonian import torontonian, loop_torontonian
    from piquasso._math.pfaffian import pfaffian
    rng = np.random.default_rng(ctx.seed + 44)
    for it in range(n_cases):
        n = int(rng.integers(1, 6))
        occ = gen_mults(rng, n, int(rng.integers(0, 9)))
        A = (rng.integers(-8, 9, size=(n, n)) + 1j * rng.integers(-8, 9, size=(n, n))) / 8.0
        A = A + A.T
        diag = (rng.integers(-8, 9, size=n) + 1j * rng.integers(-8, 9, size=n)) / 8.0
        M, idx = expand(A.tolist(), occ)
        ctx.count(("haf", it), nontrivial=max(occ + [0]) >= 2)
        h = haf_def(M)
        lh = haf_def(M, [diag[i] for i in idx])
        try:
            v = complex(hafnian_with_reduction(A.copy(), np.array(occ)))
            if abs(v - h) > 1e-9 * max(1.0, abs(h)):
                fails.append(("hafnian", f"hafnian_with_reduction(occ {occ}) = {v}, definition {h}", {"occ": occ, "matrix": repr(A.tolist())}))
            # homogeneity / small entries (weak squeezing): the hafnian is homogeneous of degree N/2, so the error bound
            # must be relative to the size of the terms, not absolute
            N = sum(occ)
            if N % 2 == 0 and N >= 4:
                habs = abs(haf_def([[abs(x) for x in r] for r in M]))
                for sc in (1e-2, 1e-3, 1e-4, 1e-6):
                    vs = complex(hafnian_with_reduction(A.copy() * sc, np.array(occ)))
                    if abs(vs - h * sc ** (N // 2)) > 1e-7 * habs * sc ** (N // 2):
                        fails.append(("hafnian-scaled", f"hafnian_with_reduction({sc} * A, occ {occ}) = {vs}, definition {h * sc ** (N // 2)} (relative error {abs(vs - h * sc ** (N // 2)) / max(abs(h) * sc ** (N // 2), 1e-300):.2e})",
                                      {"occ": occ, "scale": sc, "matrix": repr(A.tolist())})); break
            v = complex(loop_hafnian_with_reduction(A.copy(), diag.copy(), np.array(occ)))
            if abs(v - lh) > 1e-9 * max(1.0, abs(lh)):
                fails.append(("loop-hafnian", f"loop_hafnian_with_reduction(occ {occ}) = {v}, definition {lh}", {"occ": occ, "matrix": repr(A.tolist()), "diag": repr(diag.tolist())}))
            # the JAX version of the loop hafnian (its own algorithm: padding for odd sizes, Glynn-type iteration)
            if it % 3 == 0 and 1 <= sum(occ) <= 6:
                from piquasso._math.jax.hafnian import loop_hafnian_with_reduction as jax_lhaf
                import jax.numpy as jnp
                vj = complex(np.asarray(jax_lhaf(jnp.asarray(A), jnp.asarray(diag), np.array(occ))))
                if abs(vj - lh) > 5e-5 * max(1.0, abs(lh)):      # single precision unless x64 is enabled
                    fails.append(("loop-hafnian-jax", f"JAX loop_hafnian_with_reduction(occ {occ}) = {vj}, definition {lh}", {"occ": occ, "matrix": repr(A.tolist()), "diag": repr(diag.tolist())}))
            if n >= 1 and sum(occ[:-1]) <= 5:
                cutoff = int(rng.integers(2, 6))
                o0 = list(occ); o0[-1] = 0
                hb = hafnian_with_reduction_batch(A.copy(), np.array(o0), cutoff)
                lb = loop_hafnian_with_reduction_batch(A.copy(), diag.copy(), np.array(o0), cutoff)
                for k in range(cutoff):
                    ok_ = list(o0); ok_[-1] = k
                    Mk, ik = expand(A.tolist(), ok_)
                    if abs(complex(hb[k]) - haf_def(Mk)) > 1e-8 * max(1.0, abs(haf_def(Mk))):
                        fails.append(("hafnian-batch", f"hafnian_with_reduction_batch(occ {o0}, cutoff {cutoff})[{k}] = {complex(hb[k])}, definition {haf_def(Mk)}", {"occ": o0, "cutoff": cutoff, "matrix": repr(A.tolist())})); break
                    lk = haf_def(Mk, [diag[i] for i in ik])
                    if abs(complex(lb[k]) - lk) > 1e-8 * max(1.0, abs(lk)):
                        fails.append(("loop-hafnian-batch", f"loop_hafnian_with_reduction_batch(occ {o0}, cutoff {cutoff})[{k}] = {complex(lb[k])}, definition {lk}", {"occ": o0, "cutoff": cutoff, "matrix": repr(A.tolist()), "diag": repr(diag.tolist())})); break
        except Exception as exc:
            fails.append((f"hafnian-raise:{type(exc).__name__}", f"hafnian entry point raised {type(exc).__name__}: {str(exc)[:100]} (occ {occ})", {"occ": occ}))
        # pfaffian
        m = 2 * int(rng.integers(1, 5))
        R = rng.integers(-8, 9, size=(m, m)) / 4.0
        R = R - R.T
        p = pf_def(R.tolist())
        try:
            v = float(pfaffian(R.copy()))
            if abs(v - p) > 1e-9 * max(1.0, abs(p)):
                fails.append(("pfaffian", f"pfaffian = {v}, definition {p}", {"matrix": repr(R.tolist())}))
            v32 = float(pfaffian(R.astype(np.float32)))
            if abs(v32 - p) > 2e-3 * max(1.0, abs(p)):
                fails.append(("pfaffian-float32", f"pfaffian<float> = {v32}, definition {p}", {"matrix": repr(R.tolist())}))
        except Exception as exc:
            fails.append(("pfaffian-raise", f"pfaffian raised {type(exc).__name__}: {exc}", {}))
        # torontonian: a valid (xpxp) input has spectrum in [0,1)
        k = int(rng.integers(1, 4))
        X = rng.normal(size=(2 * k, 2 * k)); X = X @ X.T
        X = X / (np.linalg.eigvalsh(X).max() * float(rng.uniform(1.2, 4)))
        g = rng.normal(size=2 * k) * 0.3
        t, lt = tor_def(X), tor_def(X, g)
        try:
            v = float(torontonian(X.copy()))
            if abs(v - t) > 1e-8 * max(1.0, abs(t)):
                fails.append(("torontonian", f"torontonian = {v}, definition {t}", {"matrix": repr(X.tolist())}))
            v = float(loop_torontonian(X.copy(), g.copy()))
            if abs(v - lt) > 1e-8 * max(1.0, abs(lt)):
                fails.append(("loop-torontonian", f"loop_torontonian = {v}, definition {lt}", {"matrix": repr(X.tolist()), "displacement": repr(g.tolist())}))
            v32 = float(torontonian(X.astype(np.float32)))
            if abs(v32 - t) > 5e-3 * max(1.0, abs(t)):
                fails.append(("torontonian-float32", f"torontonian<float> = {v32}, definition {t}", {"matrix": repr(X.tolist())}))
        except Exception as exc:
            fails.append(("torontonian-raise", f"torontonian raised {type(exc).__name__}: {exc}", {}))
    # recompiled kernels (current sources) for torontonian / pfaffian
    lines, refs = [], []
    for it in range(max(5, n_cases // 4)):
        k = int(rng.integers(1, 4))
        X = rng.normal(size=(2 * k, 2 * k)); X = X @ X.T
        X = X / (np.linalg.eigvalsh(X).max() * 2.0)
        lines.append(f"tor {2 * k} " + " ".join(repr(float(x)) for x in X.reshape(-1))); refs.append(tor_def(X))
        m = 2 * int(rng.integers(1, 4))
        R = rng.integers(-8, 9, size=(m, m)) / 4.0; R = R - R.T
        lines.append(f"pf {m} " + " ".join(repr(float(x)) for x in R.reshape(-1))); refs.append(pf_def(R.tolist()))
    outs, _ = native_run(binary, lines, 1)
    for l, o, r in zip(lines, outs, refs):
        ctx.count(("native-other", l[:40]), nontrivial=True)
        try:
            v = float(o)
        except Exception:
            fails.append(("native-other-output", f"`{l[:30]}` printed `{o[:60]}`", {})); continue
        if abs(v - r) > 1e-8 * max(1.0, abs(r)):
            fails.append((f"native-{l.split()[0]}", f"recompiled {l.split()[0]} kernel = {v}, definition {r}", {"line": l[:300]}))


def jax_perm(ctx, n_cases, fails):
    try:
        import jax
        jax.config.update("jax_enable_x64", True)
        from piquasso.jax_extensions import perm
    except Exception as e:
        ctx.notes["jax_perm"] = f"not available: {type(e).__name__}"
        return
    rng = np.random.default_rng(ctx.seed + 444)
    for it in range(n_cases):
        n = int(rng.integers(1, 5)); tot = int(rng.integers(0, 7))
        rows, cols = gen_mults(rng, n, tot), gen_mults(rng, n, tot)
        A = gen_matrix(rng, n, n, "dyadic")
        s = perm_def(A.tolist(), rows, cols)
        try:
            v = complex(perm(A, np.array(rows, dtype=np.uint64), np.array(cols, dtype=np.uint64)))
        except Exception as e:
            fails.append(("jax-perm-raise", f"jax perm raised {type(e).__name__}: {str(e)[:100]}", {"rows": rows, "cols": cols})); continue
        ctx.count(("jaxperm", it), nontrivial=max(rows + [0]) >= 2)
        if abs(v - s) > 1e-9 * max(1.0, abs(s)):
            fails.append(("jax-perm", f"jax_extensions.perm(rows {rows}, cols {cols}) = {v}, definition {s}", {"rows": rows, "cols": cols, "matrix": repr(A.tolist())}))


def sanitizer(ctx, fails):
    """thorough tier: the same kernels under ASan+UBSan (no undefined behaviour)"""
    binary, err = build_native(sanitize=True)
    if binary is None:
        ctx.notes["sanitizer_build"] = (err or "")[-500:]
        return
    U = "0.6 0 0 0.8 0 0.8 0.6 0"
    lines = [f"perm64 2 2 {U} {m} {m} {m} {m}" for m in (3, 10, 17, 18, 20)] + ["perm64 3 3 " + " ".join(["0.5 0.25"] * 9) + " 2 1 3 1 3 2",
             "lap64 2 2 " + U + " 1 1 2 1", "pf 4 0 1 2 3 -1 0 4 5 -2 -4 0 6 -3 -5 -6 0", "tor 2 0.1 0.02 0.02 0.1"]
    for l in lines:
        out, errs = native_run(binary, [l], 2)
        ctx.count(("san", l[:30]), nontrivial=True)
        if "runtime error" in errs or "AddressSanitizer" in errs:
            first = [x for x in errs.split("\n") if "runtime error" in x or "ERROR: AddressSanitizer" in x][0]
            key = "perm:int32-binomial-overflow" if "signed integer overflow" in first and "permanent" in first else "sanitizer:" + first[:80]
            if key == "perm:int32-binomial-overflow" and int(l.split()[-1]) < 17:
                key = "sanitizer:" + first[:80]
            fails.append((key, f"sanitizer report on `{l[:40]}`: {first[:200]}", {"line": l, "report": first}))


def haf_edges(ctx, quick, fails, mism):
    """repeated-edge compression of the power-trace hafnian: every run of the REAL match_occupation_numbers must be an
    admissible run of the relational model (Model/HafEdges.replay; the theorems then give coverage and termination),
    get_kept_edges must equal the model digit by digit, and the hafnian re-assembled from the MODEL's sign patterns
    (delta, sign, weight, half range) with the real numerical pieces must equal the real hafnian_with_reduction."""
    import numpy as np
    from piquasso._math.hafnian.utils import match_occupation_numbers, get_kept_edges, ix_
    from piquasso._math.hafnian import plain_hafnian as ph
    from piquasso._math.hafnian.powtrace import calc_power_traces
    rng = np.random.default_rng(ctx.seed + 404)
    top = 4 if quick else 6
    vecs = [list(v) for n in (1, 2, 3, 4) for v in itertools.product(range(top + 1), repeat=n) if sum(v) >= 2 or n == 1]
    vecs += [[17, 3], [40], [9, 9, 9], [1] * 8, [2] * 6, [12, 5, 0, 1], [0, 0, 6], [31, 30]]
    vecs += [list(rng.integers(0, 9, size=int(rng.integers(2, 7)))) for _ in range(40 if quick else 400)]
    lines, recs = [], []
    for v in vecs:
        reps, idx = match_occupation_numbers(np.array(v, dtype=np.int64))
        reps, idx = [int(x) for x in reps], [int(x) for x in idx]
        lines.append(f"hafmatch {fl(v)} {fl(reps)} {fl(idx[0::2])} {fl(idx[1::2])}")
        recs.append((v, reps, idx))
    outs = ctx.lean_run(lines)
    klines, krecs = [], []
    for (v, reps, idx), l, o in zip(recs, lines, outs):
        ctx.count(("hafmatch", tuple(v)), nontrivial=max(v) >= 2 and len(v) >= 2)
        good = o.startswith("ok")
        if good and sum(v) % 2 == 0 and len(v) > 1:
            good = o.split("deg=")[1] == fl(v)
        if not good:
            mism.append((l, f"real run of match_occupation_numbers is not an admissible run of the model: {o}", ""))
            # the property itself: do the edge classes reproduce the occupation numbers?
            deg = [0] * len(v)
            for r, a, b in zip(reps, idx[0::2], idx[1::2]):
                deg[a] += r; deg[b] += r
            if sum(v) % 2 == 0 and deg != list(v):
                fails.append((f"hafedges:{v}", f"match_occupation_numbers({v}) -> reps {reps}, edges {idx}: vertex degrees {deg} != occupation numbers", dict(nvec=v)))
        if reps and np.prod([r + 1 for r in reps]) <= 400:
            P = int(np.prod([r + 1 for r in reps]))
            for i in sorted(set(list(range(min(P, 12))) + [P - 1, P // 2] + [int(x) for x in rng.integers(0, P, size=4)])):
                klines.append(f"hafkept {fl(reps)} {i}")
                krecs.append((reps, i, [int(x) for x in get_kept_edges(np.array(reps, dtype=np.int64), i)]))
    kouts = ctx.lean_run(klines) if klines else []
    for (reps, i, real), l, o in zip(krecs, klines, kouts):
        ctx.count(("hafkept", tuple(reps), i), nontrivial=max(reps) >= 2)
        if o != fl(real):
            mism.append((l, f"get_kept_edges real {real} != model {o}", ""))
            if any(k > r for k, r in zip(real, reps)):
                fails.append((f"hafkept:{reps}:{i}", f"get_kept_edges({reps}, {i}) = {real} keeps more edges than exist", dict(reps=reps, index=i)))
    # hafnian re-assembled from the model's patterns
    plines, precs = [], []
    for _ in range(12 if quick else 120):
        n = int(rng.integers(2, 5))
        occ = [int(x) for x in rng.integers(0, 4, size=n)]
        if sum(occ) % 2 or sum(occ) == 0:
            occ[0] += 1
        if sum(occ) % 2:
            continue
        A = rng.normal(size=(n, n)) + 1j * rng.normal(size=(n, n)); A = A + A.T
        reps, idx = match_occupation_numbers(np.array(occ, dtype=np.int64))
        P = int(np.prod(reps + 1))
        precs.append((occ, A, reps, idx, P, len(plines)))
        plines += [f"hafpattern {fl([int(r) for r in reps])} {i}" for i in range(P // 2)]
    pouts = ctx.lean_run(plines) if plines else []
    for occ, A, reps, idx, P, off in precs:
        real = complex(ph.hafnian_with_reduction(A.copy(), np.array(occ, dtype=np.int64)))
        M = ix_(A, idx, idx)
        m2 = int(np.sum(reps))
        sc = 1.0
        if M.shape[0] > 10:
            sc = np.sum(np.abs(M)) / M.shape[0] ** 2 / np.sqrt(2.0); M = M / sc
        tot = 0j
        for i in range(P // 2):
            d, sg, w, _ = pouts[off + i].split()
            delta = np.array([int(x) for x in d.split(",")], dtype=reps.dtype)
            red, s2 = ph._scale_matrix(ph._calc_reduced_matrix(M, delta))
            tr = calc_power_traces(red, m2)
            tot += (-1 if sg == "1" else 1) * int(w) * ph._calc_f(tr, s2)[m2]
        tot = tot * sc ** m2 / (1 << (m2 - 1))
        ctx.count(("hafpattern", tuple(occ)), nontrivial=max(occ) >= 2)
        ref = haf_def(*[x for x in [expand(A.tolist(), occ)[0]]])
        tol = 1e-9 * (1 + abs(ref))
        if abs(tot - real) > tol:
            mism.append((f"hafpattern occ={occ}", f"hafnian re-assembled from the model's sign patterns {tot} != hafnian_with_reduction {real}", ""))
        if abs(real - ref) > 1e-7 * (1 + abs(ref)):
            fails.append((f"hafred:{occ}", f"hafnian_with_reduction(occ={occ}) = {real}, defining sum over perfect matchings = {ref}", dict(occ=occ, A=[[str(z) for z in r] for r in A.tolist()])))


def fl(v):
    v = [int(x) for x in v]
    return ",".join(map(str, v)) if v else "-"


def run(ctx):
    quick = ctx.tier == "quick"
    n_perm, n_other = (60, 25) if quick else (1500, 600)
    ctx.rule = ("matrices up to 6x6 (dyadic complex, real, zero rows, identity, permutation, gaussian), multiplicity vectors with total<=8 "
                "on <=6 modes and total<=40 on <=3 modes incl. zeros and single large entries, pinned (17..20)x2 rows; recompiled C++ "
                "kernel in float64/float32 + Python entry points contiguous/strided + Laplace variant vs the exact ℚ[i] algorithm model and "
                "the exact definition; hafnian / loop hafnian / batched, pfaffian, (loop) torontonian vs definitions; non-trivial = some multiplicity >= 2")
    ctx.assumptions = ["numpy.linalg.det/solve as oracle inside the torontonian definition",
                       "the Python entry points run the pre-built extension modules (pybind11 unavailable); source edits are seen through harness/native"]
    ctx.prove("PqVerif.Props.C04", THEOREMS, FILES)
    fails, mism = [], []
    binary, err = build_native()
    if binary is None:
        ctx.broken.append("native-harness-build"); ctx.notes["native_build_error"] = err
    else:
        permanents(ctx, binary, n_perm, fails, mism)
        others(ctx, binary, n_other, fails)
    jax_perm(ctx, 10 if quick else 200, fails)
    hmism = []
    haf_edges(ctx, quick, fails, hmism)
    ctx.notes["hafedges_mismatches"] = len(hmism)
    if hmism:
        ctx.notes["first_hafedges_mismatches"] = [dict(op=m[0][:200], what=m[1][:300]) for m in hmism[:5]]
        ctx.broken.append("correspondence:Model/HafEdges (match_occupation_numbers / get_kept_edges / sign patterns) vs real code")
    if not quick:
        sanitizer(ctx, fails)
    ctx.notes["correspondence_mismatches"] = len(mism) + len(hmism)
    seen = set()
    for key, msg, inp in fails:
        if key not in seen:
            seen.add(key)
            ctx.fail(key, msg, inp)
    if mism:
        ctx.notes["first_mismatches"] = [dict(op=m[0], what=m[1]) for m in mism[:5]]
        ctx.broken.append("correspondence:Model/Kernel.permanent vs definition")
        if not ctx.violations:
            ctx.fail("correspondence:kernel", f"{mism[0][1]} on {mism[0][0]}", None)
