"""C10: automatic derivatives equal the true derivatives (partial).
proof: PqVerif.Props.C10 — the gradient RULES that are mathematical statements: the permanent rule of grad_perm
(d perm/dA_ij = rows_i cols_j perm(rows-e_i, cols-e_j), every shape and multiplicity pattern), the displacement-matrix
rules of _math/gradients.py for every entry, the Sylvester cotangent of the matrix square root.
tie: the closed form `dispEntry` vs the displacement matrix the code builds, the real gradient function vs the proved
rule; grad_perm compiled from /repo/src (native harness, ASan in the thorough tier) vs the proved rule with an exact
oracle for the reduced permanents; the JAX FFI permanent vs the same rule.
search: random circuits of differentiable gates on d<=3 (TensorFlow eager and tf.function, JAX eager and jit, batched
TensorFlow states) against central finite differences of the NumPy simulation at random parameter points; every
gate kind separately and in composition; permanent Jacobians."""
import math
import os
import warnings
import numpy as np

THEOREMS = ["Pq.C10.perm_grad", "Pq.C10.disp_grad_r", "Pq.C10.disp_grad_phi", "Pq.C10.disp_loop_closed_form",
            "Pq.C10.sq_loop_closed_form", "Pq.C10.sq_grad_r", "Pq.C10.sq_grad_phi", "Pq.C10.sqrtm_vjp"]
FILES = ["PqVerif/Lemmas/GradLaws.lean", "PqVerif/Lemmas/ShimLaws.lean", "PqVerif/Lemmas/DispRec.lean", "PqVerif/Lemmas/SqueezeRec.lean", "PqVerif/Props/C10.lean"]

os.environ.setdefault("TF_CPP_MIN_LOG_LEVEL", "3")


def gates_table(pq):
    # name: (n_modes, ctor(params), ranges, euler_degenerate)
    return {
        "Displacement": (1, lambda p: pq.Displacement(r=p[0], phi=p[1]), [(0.05, 0.8), (-3, 3)], False),
        "Squeezing": (1, lambda p: pq.Squeezing(r=p[0], phi=p[1]), [(0.05, 0.6), (-3, 3)], False),
        "Phaseshifter": (1, lambda p: pq.Phaseshifter(phi=p[0]), [(-3, 3)], False),
        "Beamsplitter": (2, lambda p: pq.Beamsplitter(theta=p[0], phi=p[1]), [(-3, 3), (-3, 3)], False),
        "Kerr": (1, lambda p: pq.Kerr(xi=p[0]), [(-1, 1)], False),
        "CrossKerr": (2, lambda p: pq.CrossKerr(xi=p[0]), [(-1, 1)], False),
        "CubicPhase": (1, lambda p: pq.CubicPhase(gamma=p[0]), [(-0.2, 0.2)], False),
        "PositionDisplacement": (1, lambda p: pq.PositionDisplacement(x=p[0]), [(-0.6, 0.6)], False),
        "MomentumDisplacement": (1, lambda p: pq.MomentumDisplacement(p=p[0]), [(-0.6, 0.6)], False),
        "QuadraticPhase": (1, lambda p: pq.QuadraticPhase(s=p[0]), [(-0.5, 0.5)], False),
        "MachZehnder": (2, lambda p: pq.MachZehnder(int_=p[0], ext=p[1]), [(-3, 3), (-3, 3)], False),
        # two-mode squeezing goes through the Euler decomposition with EQUAL squeezings: in a truncated Fock space
        # the result depends on the (arbitrary) basis chosen in the degenerate subspace unless it acts on the vacuum
        "Squeezing2": (2, lambda p: pq.Squeezing2(r=p[0], phi=p[1]), [(0.05, 0.4), (-3, 3)], True),
    }


def build(pq, G, d, spec, params, occ):
    ins = [pq.StateVector(tuple(occ)).on_modes(*range(d))]
    for name, modes, sl in spec:
        ins.append(G[name][1](params[sl[0]:sl[1]]).on_modes(*modes))
    return pq.Program(instructions=ins)


def out_of(state, kind):
    return state.fock_probabilities if kind == "prob" else state.mean_photon_number()


def numpy_loss(pq, G, d, cutoff, spec, x, occ, w, kind):
    st = pq.PureFockSimulator(d=d, config=pq.Config(cutoff=cutoff)).execute(build(pq, G, d, spec, list(x), occ)).state
    o = np.asarray(out_of(st, kind))
    return float(np.real(np.sum(w * o))) if kind == "prob" else float(np.real(o))


def fd_grad(pq, G, d, cutoff, spec, x, occ, w, kind):
    """central differences with two step sizes; returns (gradient, estimated error)"""
    gs = []
    for h in (1e-5, 2e-5):
        g = np.zeros(len(x))
        for i in range(len(x)):
            xp, xm = x.copy(), x.copy()
            xp[i] += h; xm[i] -= h
            g[i] = (numpy_loss(pq, G, d, cutoff, spec, xp, occ, w, kind) - numpy_loss(pq, G, d, cutoff, spec, xm, occ, w, kind)) / (2 * h)
        gs.append(g)
    return gs[0], float(np.abs(gs[0] - gs[1]).max())


def tf_grad(pq, tf, G, d, cutoff, spec, x, occ, w, kind, compiled):
    conn = pq.TensorflowConnector(decorate_with=tf.function) if compiled else pq.TensorflowConnector()
    vs = [tf.Variable(float(v), dtype=tf.float64) for v in x]
    with tf.GradientTape() as tape:
        st = pq.PureFockSimulator(d=d, config=pq.Config(cutoff=cutoff, dtype=np.float64), connector=conn).execute(build(pq, G, d, spec, vs, occ)).state
        o = out_of(st, kind)
        loss = tf.math.real(tf.reduce_sum(tf.cast(w, o.dtype) * o)) if kind == "prob" else tf.math.real(o)
    g = tape.gradient(loss, vs)
    return float(loss), np.array([0.0 if gi is None else float(gi) for gi in g])


def jax_grad(pq, jax, jnp, G, d, cutoff, spec, x, occ, w, kind, jit):
    conn = pq.JaxConnector()

    def loss(xs):
        st = pq.PureFockSimulator(d=d, config=pq.Config(cutoff=cutoff), connector=conn).execute(build(pq, G, d, spec, [xs[i] for i in range(len(x))], occ)).state
        o = out_of(st, kind)
        return jnp.real(jnp.sum(w * o)) if kind == "prob" else jnp.real(o)
    f = jax.value_and_grad(loss)
    if jit:
        f = jax.jit(f)
    l, g = f(jnp.array(x))
    return float(l), np.array(g)


def circuits(ctx, n):
    import piquasso as pq
    import tensorflow as tf
    import jax
    import jax.numpy as jnp
    from piquasso._math.fock import cutoff_fock_space_dim
    jax.config.update("jax_enable_x64", True)
    G = gates_table(pq)
    names = list(G)
    rng = np.random.default_rng(ctx.seed + 10)
    fails = []
    skipped_jax = {}
    for it in range(n):
        d = int(rng.integers(1, 4)); cutoff = int(rng.integers(3, 7))
        spec, x = [], []
        ng = 1 if it % 3 == 0 else int(rng.integers(2, 4))
        vacuum_so_far = True
        occ = [0] * d
        if rng.random() < 0.6:
            for _ in range(int(rng.integers(1, 3))):
                occ[int(rng.integers(0, d))] += 1
        if sum(occ) >= cutoff:
            continue
        vacuum_so_far = sum(occ) == 0
        for _ in range(ng):
            name = names[int(rng.integers(0, len(names)))] if it >= 2 * len(names) else names[it % len(names)]
            k, _, ranges, degenerate = G[name]
            if k > d or (degenerate and not vacuum_so_far):
                continue
            modes = tuple(int(m) for m in rng.choice(d, size=k, replace=False))
            spec.append((name, modes, (len(x), len(x) + len(ranges))))
            x += [float(rng.uniform(a, b)) for a, b in ranges]
            vacuum_so_far = False
        if not spec:
            continue
        x = np.array(x)
        kind = "prob" if rng.random() < 0.7 else "mean"
        w = rng.normal(size=cutoff_fock_space_dim(d=d, cutoff=cutoff))
        desc = {"d": d, "cutoff": cutoff, "occ": occ, "output": kind, "gates": [(s[0], s[1]) for s in spec], "x": x.tolist(), "weights_seed": int(ctx.seed + 10), "case": it}
        with warnings.catch_warnings():
            warnings.simplefilter("ignore")
            try:
                ref, fderr = fd_grad(pq, G, d, cutoff, spec, x, occ, w, kind)
            except Exception as e:
                fails.append((f"numpy-raise:{type(e).__name__}", f"NumPy simulation raised {type(e).__name__}: {str(e)[:120]}", desc)); continue
            tol = 1e-5 * (1 + np.abs(ref).max()) + 20 * fderr
            ctx.count(("circ", it), nontrivial=len(spec) >= 2 or d >= 2)
            gate_key = "+".join(sorted({s[0] for s in spec}))
            for label, fn in (("tf", lambda: tf_grad(pq, tf, G, d, cutoff, spec, x, occ, w, kind, False)),
                              ("tf.function", lambda: tf_grad(pq, tf, G, d, cutoff, spec, x, occ, w, kind, True)),
                              ("jax", lambda: jax_grad(pq, jax, jnp, G, d, cutoff, spec, x, occ, w, kind, False)),
                              ("jax.jit", lambda: jax_grad(pq, jax, jnp, G, d, cutoff, spec, x, occ, w, kind, True))):
                if label in ("tf.function", "jax.jit") and it % 4:
                    continue
                try:
                    l, g = fn()
                except NotImplementedError as e:
                    # JAX has no differentiation rule for `schur`: gates that go through the Euler decomposition are loudly
                    # unsupported there (not a wrong derivative)
                    skipped_jax[gate_key] = skipped_jax.get(gate_key, 0) + 1
                    continue
                except Exception as e:
                    fails.append((f"raise:{label}:{type(e).__name__}:{gate_key}", f"{label}: gradient of {gate_key} raised {type(e).__name__}: {str(e)[:140]}", desc)); continue
                e_ = float(np.abs(g - ref).max())
                if not np.isfinite(e_) or e_ > tol:
                    i = int(np.argmax(np.abs(g - ref))) if np.isfinite(e_) else 0
                    gname = next(s[0] for s in spec if s[2][0] <= i < s[2][1])
                    fails.append((f"gradient:{label}:{gname}", f"{label}: d/d(parameter {i} of {gname}) = {g[i]:.8g}, finite differences of the NumPy simulation give {ref[i]:.8g} (tolerance {tol:.1e})", desc))
    ctx.notes["jax_not_implemented"] = skipped_jax
    return fails


def batched(ctx, n):
    """batched TensorFlow states: the Jacobian of a batch equals the gradients of its members"""
    import piquasso as pq
    import tensorflow as tf
    rng = np.random.default_rng(ctx.seed + 1010)
    fails = []
    for it in range(n):
        d = 2
        u = lambda a, b: float(rng.uniform(a, b))
        preps = []
        for _ in range(2):
            ins = [pq.Vacuum()]
            if rng.random() < 0.7:
                ins.append(pq.Squeezing(r=u(0.05, 0.3), phi=u(-3, 3)).on_modes(int(rng.integers(0, 2))))
            ins.append(pq.Displacement(r=u(0.1, 0.8), phi=u(-3, 3)).on_modes(int(rng.integers(0, 2))))
            preps.append(ins)
        kind = int(rng.integers(0, 3))
        x0 = u(-1.5, 1.5) if kind != 1 else u(0.05, 0.4)
        mk = [lambda v: pq.Beamsplitter(theta=v, phi=0.7).on_modes(0, 1), lambda v: pq.Squeezing(r=v, phi=0.4).on_modes(1), lambda v: pq.Phaseshifter(phi=v).on_modes(0)][kind]
        # a fixed active gate with a COMPLEX Fock matrix after the trainable gate: the upstream gradient then flows through the
        # state-vector argument of `_apply_active_gate_matrix_to_state` (batch and single-state branches)
        tphi, tmode, tk = u(0.5, 2.6), int(rng.integers(0, 2)), int(rng.integers(0, 3))
        tail = [[], [lambda: pq.Displacement(r=0.4, phi=tphi).on_modes(tmode)], [lambda: pq.Squeezing(r=0.25, phi=tphi).on_modes(tmode)]][tk]
        desc = {"kind": ["Beamsplitter", "Squeezing", "Phaseshifter"][kind], "x": x0, "case": it, "tail": ["none", "Displacement", "Squeezing"][tk], "tail_phi": tphi, "tail_mode": tmode}
        ctx.count(("batch", it), nontrivial=True)

        def member(i, v, conn):
            prog = pq.Program(instructions=[type(g)(**g.params).on_modes(*g.modes) if g.modes else type(g)() for g in preps[i]] + [mk(v)] + [t() for t in tail])
            return pq.PureFockSimulator(d=d, config=pq.Config(cutoff=6), connector=conn).execute(prog).state.mean_position(0)
        try:
            with warnings.catch_warnings():
                warnings.simplefilter("ignore")
                for compiled in (False, True):
                    conn = pq.TensorflowConnector(decorate_with=tf.function) if compiled else pq.TensorflowConnector()
                    v = tf.Variable(x0, dtype=tf.float64)
                    with tf.GradientTape() as tape:
                        prog = pq.Program(instructions=[pq.BatchPrepare([pq.Program(instructions=[type(g)(**g.params).on_modes(*g.modes) if g.modes else type(g)() for g in p]) for p in preps]), mk(v)] + [t() for t in tail])
                        out = pq.PureFockSimulator(d=d, config=pq.Config(cutoff=6), connector=conn).execute(prog).state.mean_position(0)
                    jac = np.asarray(tape.jacobian(out, v))
                    h = 1e-5
                    npc = pq.NumpyConnector()
                    ref = np.array([(float(member(i, x0 + h, npc)) - float(member(i, x0 - h, npc))) / (2 * h) for i in range(2)])
                    if np.abs(jac - ref).max() > 1e-5 * (1 + np.abs(ref).max()):
                        fails.append((f"batch-gradient:{desc['kind']}:{desc['tail']}", f"batched {'tf.function' if compiled else 'eager'} Jacobian {jac.tolist()} vs finite differences of the members {ref.tolist()}", desc))
        except Exception as e:
            fails.append((f"batch-raise:{type(e).__name__}", f"{type(e).__name__}: {str(e)[:160]}", desc))
    return fails


KNOWN_EIG = "jax-eig-vjp-regularisation"


def gaussian_jax(ctx, n):
    """JAX gradients of Gaussian-simulator outputs vs finite differences of the NumPy simulation.  Outputs that do not
    pass through an eigendecomposition (moments, mean photon number) must agree to 1e-7; particle detection probabilities
    go through `_math/jax/utils.py:eig`, whose VJP is deliberately regularised (Lorentzian broadening eps = 1e-6): a
    relative deviation up to 1e-3 there is the recorded known finding, anything larger a violation"""
    import piquasso as pq
    import jax
    import jax.numpy as jnp
    jax.config.update("jax_enable_x64", True)
    rng = np.random.default_rng(ctx.seed + 100001)
    fails = []
    u = lambda a, b: float(rng.uniform(a, b))
    for it in range(n):
        d = int(rng.integers(1, 4))
        spec = []
        x = []
        for _ in range(int(rng.integers(2, 5))):
            c = int(rng.integers(0, 5))
            a, b = (int(t) for t in rng.choice(d, size=2, replace=False)) if d >= 2 else (0, 0)
            if c == 0 or d == 1 and c in (2, 4):
                spec.append(("Squeezing", (a,), len(x))); x += [u(0.1, 0.5), u(-3, 3)]
            elif c == 1:
                spec.append(("Displacement", (a,), len(x))); x += [u(0.1, 0.6), u(-3, 3)]
            elif c == 2:
                spec.append(("Beamsplitter", (a, b), len(x))); x += [u(-3, 3), u(-3, 3)]
            elif c == 3:
                spec.append(("Phaseshifter", (a,), len(x))); x += [u(-3, 3)]
            else:
                spec.append(("Squeezing2", (a, b), len(x))); x += [u(0.1, 0.4), u(-3, 3)]
        x = np.array(x)

        def prog(xs):
            ins = [pq.Vacuum()]
            for name, modes, k in spec:
                if name == "Phaseshifter":
                    ins.append(pq.Phaseshifter(phi=xs[k]).on_modes(*modes))
                elif name == "Beamsplitter":
                    ins.append(pq.Beamsplitter(theta=xs[k], phi=xs[k + 1]).on_modes(*modes))
                else:
                    ins.append(getattr(pq, name)(r=xs[k], phi=xs[k + 1]).on_modes(*modes))
            return pq.Program(instructions=ins)
        occ = tuple(int(t) for t in rng.integers(0, 2, size=d))
        i0, j0 = int(rng.integers(0, 2 * d)), int(rng.integers(0, 2 * d))
        outs = {"covariance": (lambda st, lib: st.xpxp_covariance_matrix[i0, j0], 1e-7, False),
                "mean_photon_number": (lambda st, lib: lib.real(st.mean_photon_number()), 1e-7, False),
                "detection_probability": (lambda st, lib: lib.real(st.get_particle_detection_probability(occ)), 1e-7, True)}
        desc = {"d": d, "gates": [(n_, m) for n_, m, _ in spec], "x": x.tolist(), "occupation": occ, "cov_entry": (i0, j0)}
        ctx.count(("gaussian-jax", it), nontrivial=len(spec) >= 3)
        for oname, (fn, tol, through_eig) in outs.items():
            try:
                f_np = lambda xs: float(np.real(fn(pq.GaussianSimulator(d=d, config=pq.Config(cutoff=4)).execute(prog(list(xs))).state, np)))
                h = 1e-5
                fd = np.array([(f_np(x + e) - f_np(x - e)) / (2 * h) for e in np.eye(len(x)) * h])
                jc = pq.JaxConnector()
                g = np.asarray(jax.grad(lambda xs: jnp.real(fn(pq.GaussianSimulator(d=d, config=pq.Config(cutoff=4), connector=jc).execute(prog([xs[i] for i in range(len(x))])).state, jnp)))(jnp.array(x)))
            except Exception as e:
                fails.append((f"gaussian-jax-raise:{oname}:{type(e).__name__}", f"{oname}: {type(e).__name__}: {str(e)[:140]}", desc)); continue
            err = float(np.abs(g - fd).max())
            scale = 1e-9 + float(np.abs(fd).max())
            if err > tol * (1 + scale):
                if through_eig and err <= 1e-3 * scale:
                    fails.append((KNOWN_EIG, f"JAX gradient of {oname} deviates from finite differences by {err:.2e} (relative {err / scale:.1e})", desc))
                else:
                    i = int(np.argmax(np.abs(g - fd)))
                    fails.append((f"gradient:jax:Gaussian:{oname}", f"JAX gradient of the Gaussian {oname} w.r.t. parameter {i}: {g[i]:.8g}, finite differences {fd[i]:.8g}", desc))
    return fails


def pinned_eig_finding(ctx):
    """the input the known finding is recorded with"""
    import piquasso as pq
    import jax
    import jax.numpy as jnp
    jax.config.update("jax_enable_x64", True)

    def prog(x):
        with pq.Program() as p:
            pq.Q() | pq.Vacuum()
            pq.Q(0) | pq.Squeezing(r=x[0], phi=x[1])
            pq.Q(1) | pq.Displacement(r=x[2], phi=0.3)
            pq.Q(0, 1) | pq.Beamsplitter(theta=x[3], phi=0.4)
        return p
    x0 = np.array([0.3, 0.7, 0.4, 0.9])
    f_np = lambda x: float(pq.GaussianSimulator(d=2, config=pq.Config(cutoff=4)).execute(prog(list(x))).state.get_particle_detection_probability((1, 1)))
    fd = np.array([(f_np(x0 + e) - f_np(x0 - e)) / 2e-5 for e in np.eye(4) * 1e-5])
    jc = pq.JaxConnector()
    g = np.asarray(jax.grad(lambda x: jnp.real(pq.GaussianSimulator(d=2, config=pq.Config(cutoff=4), connector=jc).execute(prog([x[i] for i in range(4)])).state.get_particle_detection_probability((1, 1))))(jnp.array(x0)))
    err = float(np.abs(g - fd).max()); scale = float(np.abs(fd).max())
    ctx.count("pinned:" + KNOWN_EIG, True)
    ctx.notes["pinned_eig_finding"] = {"abs_error": err, "relative": err / scale}
    if err > 1e-7 * (1 + scale):
        key = KNOWN_EIG if err <= 1e-3 * scale else "gradient:jax:Gaussian:detection_probability:pinned"
        ctx.fail(key, f"JAX gradient of P(1,1) deviates from finite differences by {err:.2e} (relative {err / scale:.1e})", {"program": "Vacuum; Squeezing(0.3,0.7) on 0; Displacement(0.4,0.3) on 1; Beamsplitter(0.9,0.4)", "fd": fd.tolist(), "jax": g.tolist()})


# ------------------------------------------------------------------ rule correspondences
def disp_entry(m, n, r, phi):
    if m < 0 or n < 0:
        return 0.0
    s = sum((-1) ** (n - k) / (math.factorial(k) * math.factorial(m - k) * math.factorial(n - k)) * r ** (m + n - 2 * k) for k in range(min(m, n) + 1))
    return np.exp(-r * r / 2) * math.sqrt(math.factorial(m) * math.factorial(n)) * s * np.exp(1j * phi * (m - n))


def displacement_rule(ctx, n):
    """the code's displacement matrix == the closed form of the theorem; the code's gradient function == the proved rule"""
    import piquasso as pq
    import tensorflow as tf
    from piquasso._math import fock, gradients
    rng = np.random.default_rng(ctx.seed + 101)
    mism = []
    npc, tfc = pq.NumpyConnector(), pq.TensorflowConnector()
    for it in range(n):
        r, phi, c = float(rng.uniform(0.01, 1.5)), float(rng.uniform(-3.2, 3.2)), int(rng.integers(1, 9))
        D = np.asarray(fock.get_single_mode_displacement_operator(r=r, phi=phi, cutoff=c, complex_dtype=np.complex128, connector=npc))
        M = np.array([[disp_entry(m, k, r, phi) for k in range(c)] for m in range(c)])
        ctx.count(("disp", it), nontrivial=c >= 3)
        if np.abs(D - M).max() > 1e-10 * (1 + np.abs(M).max()):
            mism.append((f"displacement r={r} phi={phi} cutoff={c}", f"displacement matrix differs from the closed form by {np.abs(D - M).max():.2e}")); continue
        rule_r = np.array([[-r * M[m, k] + np.exp(1j * phi) * math.sqrt(m) * disp_entry(m - 1, k, r, phi) - np.exp(-1j * phi) * math.sqrt(k) * disp_entry(m, k - 1, r, phi) for k in range(c)] for m in range(c)])
        rule_p = np.array([[1j * r * (np.exp(1j * phi) * math.sqrt(m) * disp_entry(m - 1, k, r, phi) + np.exp(-1j * phi) * math.sqrt(k) * disp_entry(m, k - 1, r, phi)) for k in range(c)] for m in range(c)])
        up = rng.normal(size=(c, c)) + 1j * rng.normal(size=(c, c))
        gfun = gradients.create_single_mode_displacement_gradient(r, phi, c, D, tfc)
        gr, gp = gfun(tf.constant(up))
        er, ep = float(np.real(np.sum(up * np.conj(rule_r)))), float(np.real(np.sum(up * np.conj(rule_p))))
        if abs(float(gr) - er) > 1e-9 * (1 + abs(er)) or abs(float(gp) - ep) > 1e-9 * (1 + abs(ep)):
            mism.append((f"displacement gradient r={r} phi={phi} cutoff={c}", f"gradient function returns ({float(gr):.9g}, {float(gp):.9g}), the proved rule gives ({er:.9g}, {ep:.9g})"))
    return mism


def sq_entry(m, n, r, phi):
    """closed form `Pq.SqueezeRec.sqEntry`"""
    if m < 0 or n < 0 or (m - n) % 2:
        return 0j
    t, s = math.tanh(r), 1 / math.cosh(r)
    tot = 0j
    for k in range(min(m, n) + 1):
        if (m - k) % 2:
            continue
        a, b = (m - k) // 2, (n - k) // 2
        tot += (-np.exp(1j * phi) * t / 2) ** a * (np.exp(-1j * phi) * t / 2) ** b * s ** k / (math.factorial(k) * math.factorial(a) * math.factorial(b))
    return math.sqrt(s) * math.sqrt(math.factorial(m) * math.factorial(n)) * tot


def squeezing_rule(ctx, n):
    """the code's squeezing matrix == the closed form of the theorem; the code's gradient function == the proved rules"""
    import piquasso as pq
    import tensorflow as tf
    from piquasso._math import fock, gradients
    rng = np.random.default_rng(ctx.seed + 102)
    mism = []
    npc, tfc = pq.NumpyConnector(), pq.TensorflowConnector()
    for it in range(n):
        r, phi, c = float(rng.uniform(-1.2, 1.2)), float(rng.uniform(-3.2, 3.2)), int(rng.integers(2, 10))
        S = np.asarray(fock.get_single_mode_squeezing_operator(r=r, phi=phi, cutoff=c, complex_dtype=np.complex128, connector=npc))
        M = np.array([[sq_entry(m, k, r, phi) for k in range(c)] for m in range(c)])
        ctx.count(("squeeze", it), nontrivial=c >= 3)
        if S.shape != M.shape or np.abs(S - M).max() > 1e-10 * (1 + np.abs(M).max()):
            mism.append((f"squeezing r={r} phi={phi} cutoff={c}", f"squeezing matrix differs from the closed form by {np.abs(S - M).max() if S.shape == M.shape else S.shape}")); continue
        t, s, e = math.tanh(r), 1 / math.cosh(r), np.exp(1j * phi)
        E = lambda m, k: sq_entry(m, k, r, phi)
        rule_r = np.array([[-(t / 2) * E(m, k) - s * t * math.sqrt(m * k) * E(m - 1, k - 1)
                            - (s * s / 2) * (e * math.sqrt(m * max(m - 1, 0)) * E(m - 2, k) - np.conj(e) * math.sqrt(k * max(k - 1, 0)) * E(m, k - 2)) for k in range(c)] for m in range(c)])
        rule_p = np.array([[-0.5j * t * (e * math.sqrt(m * max(m - 1, 0)) * E(m - 2, k) + np.conj(e) * math.sqrt(k * max(k - 1, 0)) * E(m, k - 2)) for k in range(c)] for m in range(c)])
        up = rng.normal(size=(c, c)) + 1j * rng.normal(size=(c, c))
        gfun = gradients.create_single_mode_squeezing_gradient(r, phi, c, S, tfc)
        gr, gp = gfun(tf.constant(up))
        er, ep = float(np.real(np.sum(up * np.conj(rule_r)))), float(np.real(np.sum(up * np.conj(rule_p))))
        if abs(float(gr) - er) > 1e-9 * (1 + abs(er)) or abs(float(gp) - ep) > 1e-9 * (1 + abs(ep)):
            mism.append((f"squeezing gradient r={r} phi={phi} cutoff={c}", f"gradient function returns ({float(gr):.9g}, {float(gp):.9g}), the proved rules give ({er:.9g}, {ep:.9g})"))
    return mism


def perm_rule(A, rows, cols):
    from pqv.props.c04 import perm_def
    n, m = A.shape
    R = np.zeros((n, m), dtype=complex)
    for i in range(n):
        for j in range(m):
            if rows[i] and cols[j]:
                r2, c2 = list(rows), list(cols)
                r2[i] -= 1; c2[j] -= 1
                R[i, j] = rows[i] * cols[j] * perm_def(A.tolist(), r2, c2)
    return R


def random_perm_case(rng, square):
    n = int(rng.integers(1, 5))
    m = n if square else int(rng.integers(1, 5))
    tot = int(rng.integers(0, 6))
    rows = np.zeros(n, dtype=int); cols = np.zeros(m, dtype=int)
    for _ in range(tot):
        rows[int(rng.integers(0, n))] += 1; cols[int(rng.integers(0, m))] += 1
    A = rng.normal(size=(n, m)) + 1j * rng.normal(size=(n, m))
    return A, rows, cols


def native_grad_perm(ctx, n, sanitize):
    from pqv.props.c11 import build_native, native_run
    from pqv.core import CheckError
    b, err = build_native(sanitize=sanitize)
    if b is None:
        raise CheckError("native harness does not build: " + (err or "")[:500])
    rng = np.random.default_rng(ctx.seed + 1001 + int(sanitize))
    lines, metas = [], []
    for it in range(n):
        A, rows, cols = random_perm_case(rng, square=rng.random() < 0.5)
        lines.append(f"gperm {A.shape[0]} {A.shape[1]} " + " ".join(f"{float(z.real)!r} {float(z.imag)!r}" for z in A.reshape(-1)) + " " + " ".join(map(str, rows)) + " " + " ".join(map(str, cols)))
        metas.append((A, rows, cols))
    outs, stderr = native_run(b, lines)
    fails = []
    if sanitize and ("ERROR: AddressSanitizer" in stderr or "runtime error" in stderr):
        fails.append(("grad_perm:sanitizer", "grad_perm triggers a sanitizer report: " + stderr[-300:], {"stderr": stderr[-1500:]}))
    for (A, rows, cols), o in zip(metas, outs + [""] * (len(metas) - len(outs))):
        ctx.count(("gperm", sanitize, str(rows), str(cols), A.shape), nontrivial=A.shape[0] != A.shape[1] or max(list(rows) + [0]) >= 2)
        t = o.split()
        desc = {"A": str(A.tolist()), "rows": rows.tolist(), "cols": cols.tolist()}
        shape_key = "nonsquare" if A.shape[0] != A.shape[1] else "square"
        if len(t) < 2 or not t[0].isdigit() or (int(t[0]), int(t[1])) != A.shape:
            fails.append((f"grad_perm:shape:{shape_key}", f"grad_perm returns a {' x '.join(t[:2]) if len(t) >= 2 else o[:40]} gradient for a {A.shape[0]} x {A.shape[1]} matrix", desc)); continue
        Gm = np.array([complex(float(t[2 + 2 * k]), float(t[3 + 2 * k])) for k in range(A.size)]).reshape(A.shape)
        R = perm_rule(A, rows, cols)
        if np.abs(Gm - R).max() > 1e-9 * (1 + np.abs(R).max()):
            fails.append((f"grad_perm:value:{shape_key}", f"grad_perm differs from rows_i cols_j perm(rows-e_i, cols-e_j) by {np.abs(Gm - R).max():.2e}", desc))
    return fails


def jax_perm(ctx, n):
    """the installed JAX FFI permanent: value, gradient (eager, jit) and Jacobian vs the proved rule, square matrices
    (the extension module cannot be rebuilt in this sandbox: non-square shapes are exercised through the native harness)"""
    import jax
    import jax.numpy as jnp
    from pqv.props.c04 import perm_def
    jax.config.update("jax_enable_x64", True)
    from piquasso.jax_extensions.permanent import perm
    rng = np.random.default_rng(ctx.seed + 10001)
    fails = []
    for it in range(n):
        A, rows, cols = random_perm_case(rng, square=True)
        w = complex(rng.normal(), rng.normal())
        ru, cu = jnp.asarray(rows, dtype=jnp.uint64), jnp.asarray(cols, dtype=jnp.uint64)
        f = lambda M: jnp.real(jnp.conj(w) * perm(M, ru, cu))
        desc = {"A": str(A.tolist()), "rows": rows.tolist(), "cols": cols.tolist(), "w": str(w)}
        ctx.count(("jaxperm", it), nontrivial=max(list(rows) + [0]) >= 2 or (rows == 0).any())
        try:
            val = complex(perm(jnp.asarray(A), ru, cu))
            g = np.asarray(jax.grad(f)(jnp.asarray(A)))
            gj = np.asarray(jax.jit(jax.grad(f))(jnp.asarray(A)))
        except Exception as e:
            fails.append((f"jax-perm-raise:{type(e).__name__}", f"{type(e).__name__}: {str(e)[:150]}", desc)); continue
        ref = perm_def(A.tolist(), list(rows), list(cols))
        if abs(val - ref) > 1e-9 * (1 + abs(ref)):
            fails.append(("jax-perm-value", f"perm = {val}, definition {ref}", desc))
        # real loss L = Re(conj(w) P(A)); finite differences in the real and imaginary directions of every entry
        R = perm_rule(A, rows, cols)
        dLdx = np.real(np.conj(w) * R)           # dL/d Re A_ij
        dLdy = np.real(np.conj(w) * 1j * R)      # dL/d Im A_ij
        # JAX convention for real-valued functions of complex arguments: grad = dL/dx - i dL/dy
        expect = dLdx - 1j * dLdy
        if np.abs(g - expect).max() > 1e-8 * (1 + np.abs(R).max()):
            fails.append(("jax-perm-gradient", f"jax.grad differs from the rule by {np.abs(g - expect).max():.2e}", desc))
        if np.abs(g - gj).max() > 1e-10 * (1 + np.abs(g).max()):
            fails.append(("jax-perm-gradient-jit", f"jit(grad) differs from grad by {np.abs(g - gj).max():.2e}", desc))
    return fails


def run(ctx):
    quick = ctx.tier == "quick"
    ctx.rule = ("circuits of 1..3 gates among Displacement, Squeezing, Phaseshifter, Beamsplitter, Kerr, CrossKerr, CubicPhase, Position/Momentum"
                "Displacement, QuadraticPhase, MachZehnder, Squeezing2 (on the vacuum) on d<=3, cutoff 3..6, number-state inputs, outputs = random "
                "linear functional of the Fock probabilities or the mean photon number; TensorFlow eager / tf.function, JAX eager / jit vs central "
                "finite differences (two step sizes) of the NumPy simulation; every gate kind first alone; batched TensorFlow states; permanent "
                "gradients with multiplicities (zero rows, bunching), square through the JAX FFI, any shape through grad_perm compiled from source")
    ctx.assumptions = ["finite differences of the NumPy simulation are the reference derivative (error estimated from two step sizes)",
                       "Squeezing2 is only differentiated on the vacuum: on other states the truncated result depends on the basis the Euler decomposition "
                       "picks in the degenerate subspace (known finding of C09), so its derivative is not defined",
                       "gates that need the Euler decomposition raise NotImplementedError under JAX (no differentiation rule for schur): counted, not compared",
                       "the JAX FFI extension module is the pre-built one (pybind11 is not available to rebuild it); grad_perm itself is compiled from /repo/src"]
    ctx.prove("PqVerif.Props.C10", THEOREMS, FILES)
    import glob, subprocess, sys
    for f in sorted(glob.glob(os.path.join(os.path.dirname(__file__), "..", "..", "..", "corpus", "repro", "c10_*.py"))):
        p = subprocess.run([sys.executable, f], capture_output=True, text=True, cwd=os.environ.get("PQ_REPO", "/repo"))
        ctx.count("repro:" + os.path.basename(f), True)
        if p.returncode != 0:
            ctx.fail("repro:" + os.path.basename(f), "pinned regression fails: " + (p.stdout + p.stderr)[-400:], {"script": f})
    with warnings.catch_warnings():
        warnings.simplefilter("ignore")
        mism = displacement_rule(ctx, 20 if quick else 300) + squeezing_rule(ctx, 20 if quick else 300)
        fails = native_grad_perm(ctx, 40 if quick else 400, False)
        if not quick:
            fails += native_grad_perm(ctx, 200, True)
        fails += jax_perm(ctx, 25 if quick else 300)
        pinned_eig_finding(ctx)
        fails += gaussian_jax(ctx, 6 if quick else 80)
        fails += circuits(ctx, 45 if quick else 600)
        fails += batched(ctx, 4 if quick else 40)
    seen = set()
    for key, msg, inp in fails:
        if key not in seen:
            seen.add(key)
            ctx.fail(key, msg, inp)
    ctx.notes["correspondence_mismatches"] = len(mism)
    if mism:
        ctx.notes["first_mismatches"] = [dict(op=m[0][:200], what=m[1][:300]) for m in mism[:4]]
        ctx.broken.append("correspondence:dispEntry, sqEntry / displacement and squeezing rules vs _math/fock.py, _math/gradients.py")
