"""C14: Gaussian states are hbar-invariant and representation-consistent.
proof: PqVerif.Props.C14 (setters/getters mutually inverse, xpxp/xxpp permutations inverse, reduction and
rotation commute with the representations, covariance ∝ hbar, means ∝ sqrt(hbar), the normalised covariance
every dimensionless observable is computed from is hbar-free) over any field of characteristic 0;
tie: exact ℚ run of Model/GaussRep vs the real getters/setters on random physical states;
search: the same statements and the hbar-invariance of every dimensionless observable on the real class."""
import numpy as np
from fractions import Fraction
from pqv.props.c07 import qs, haar

THEOREMS = ["Pq.C14.get_set_cov", "Pq.C14.set_get_cov", "Pq.C14.get_set_mean", "Pq.C14.set_get_mean",
            "Pq.C14.cov_scaling", "Pq.C14.mean_scaling", "Pq.C14.normalised_cov_hbar_free", "Pq.C14.reduced_cov",
            "Pq.C14.reduced_mean", "Pq.C14.rotated_cov", "Pq.C14.rotated_mean", "Pq.C14.complexCov_injective",
            "Pq.C14.xpxp_xxpp_inverse", "Pq.C14.purity_hbar_free"]
FILES = ["PqVerif/Model/GaussRep.lean", "PqVerif/Lemmas/GaussRepLaws.lean", "PqVerif/Props/C14.lean"]
HBARS = [0.5, 1.0, 2.0, 3.7, 10.0]
EXTREME_HBARS = [1e-20, 1.0546e-34, 1e12]


def fl(a):
    return ",".join(qs(x) for x in np.asarray(a, dtype=float).reshape(-1))


def parse_nums(s):
    return np.array([float(Fraction(t)) for t in s.split(",")])


def random_state(pq, rng, d, hbar, mixed):
    cfg = pq.Config(hbar=hbar, cutoff=4)
    sim = pq.GaussianSimulator(d=d, config=cfg)
    with pq.Program() as prep:
        if mixed:
            pq.Q() | pq.Thermal([float(rng.uniform(0, 0.6)) for _ in range(d)])
        else:
            pq.Q() | pq.Vacuum()
        for i in range(d):
            pq.Q(i) | pq.Squeezing(r=float(rng.uniform(-0.5, 0.5)), phi=float(rng.uniform(-3, 3)))
        if d >= 2:
            pq.Q(*range(d)) | pq.Interferometer(haar(rng, d))
        for i in range(d):
            if rng.random() < 0.7:
                pq.Q(i) | pq.Displacement(r=float(rng.uniform(0, 0.8)), phi=float(rng.uniform(-3, 3)))
    return sim.execute(prep).state


def clone(pq, st, hbar):
    from piquasso._simulators.gaussian.state import GaussianState
    return GaussianState._from_representation(m=st._m.copy(), G=st._G.copy(), C=st._C.copy(),
                                              config=pq.Config(hbar=hbar, cutoff=st._config.cutoff), connector=st._connector)


def correspondence(ctx, n):
    import piquasso as pq
    rng = np.random.default_rng(ctx.seed + 14)
    lines, checks = [], []
    for it in range(n):
        d = int(rng.integers(1, 5))
        hbar = float(rng.choice(HBARS))
        st = random_state(pq, rng, d, hbar, rng.random() < 0.4)
        r = float(np.sqrt(2) * np.sqrt(hbar))
        m, C, G = st._m, st._C, st._G
        lines.append(f"grepget {d} {qs(hbar)} {qs(r)} {fl(m.real)} {fl(m.imag)} {fl(C.real)} {fl(C.imag)} {fl(G.real)} {fl(G.imag)}")
        cc = st.complex_covariance
        checks.append(("get", d, dict(cov=st.xxpp_covariance_matrix, mean=st.xxpp_mean_vector, ccre=cc.real, ccim=cc.imag), hbar))
        # setter: put the covariance and mean of another state into a fresh state
        other = random_state(pq, rng, d, hbar, rng.random() < 0.4)
        cov, mean = other.xxpp_covariance_matrix, other.xxpp_mean_vector
        tgt = pq.GaussianSimulator(d=d, config=pq.Config(hbar=hbar)).create_initial_state(d)
        tgt.xxpp_covariance_matrix = cov
        tgt.xxpp_mean_vector = mean
        lines.append(f"grepset {d} {qs(hbar)} {qs(float(np.sqrt(2 * hbar)))} {fl(cov)} {fl(mean)}")
        checks.append(("set", d, dict(mr=tgt._m.real, mi=tgt._m.imag, Cr=tgt._C.real, Ci=tgt._C.imag, Gr=tgt._G.real, Gi=tgt._G.imag), hbar))
    from piquasso._math.transformations import xxpp_to_xpxp_indices, xpxp_to_xxpp_indices
    for d in range(1, 7):
        lines.append(f"grepidx {d}")
        checks.append(("idx", d, " ".join(",".join(str(int(x)) for x in f(d)) for f in (xxpp_to_xpxp_indices, xpxp_to_xxpp_indices)), None))
    outs = ctx.lean_run(lines)
    mism = []
    for (kind, d, exp, hbar), line, got in zip(checks, lines, outs):
        ctx.count((kind, d, hbar, line[:60]), nontrivial=d >= 2, sample={"op": line[:160]} if d >= 2 and len(ctx.samples) < 4 else None)
        if kind == "idx":
            if got != exp:
                mism.append((line, exp, got))
            continue
        toks = got.split(" ")
        if len(toks) < 2:
            mism.append((line[:100], "model failed", got)); continue
        parts = dict(zip(toks[0::2], toks[1::2]))
        for key, val in exp.items():
            mv = parse_nums(parts[key])
            rv = np.asarray(val, dtype=float).reshape(-1)
            if mv.shape != rv.shape or np.abs(mv - rv).max() > 1e-11 * (1 + np.abs(rv).max()):
                mism.append((line[:100], f"{kind}:{key} differs by {np.abs(mv - rv).max() if mv.shape == rv.shape else 'shape'}", ""))
                break
    return mism


def search(ctx, n):
    import piquasso as pq
    from piquasso._math.transformations import xxpp_to_xpxp_indices
    rng = np.random.default_rng(ctx.seed + 141)
    fails = []
    close = lambda a, b, tol=1e-9: np.allclose(np.asarray(a), np.asarray(b), rtol=tol, atol=tol)
    for it in range(n):
        d = int(rng.integers(1, 4))
        mixed = rng.random() < 0.5
        st = random_state(pq, rng, d, 2.0, mixed)
        st2 = random_state(pq, rng, d, 2.0, rng.random() < 0.5)
        desc = {"d": d, "mixed": bool(mixed), "m": [complex(x) for x in st._m]}
        ctx.count(("search", it), nontrivial=d >= 2)
        # representation consistency on the real object
        idx = xxpp_to_xpxp_indices(d)
        if not close(st.xpxp_covariance_matrix, st.xxpp_covariance_matrix[np.ix_(idx, idx)]) or not close(st.xpxp_mean_vector, st.xxpp_mean_vector[idx]):
            fails.append(("xpxp-xxpp-permutation", "xpxp and xxpp representations are not permutations of each other", desc))
        t = clone(pq, st, 2.0)
        t.xpxp_covariance_matrix = st.xpxp_covariance_matrix; t.xpxp_mean_vector = st.xpxp_mean_vector
        if not (close(t._C, st._C) and close(t._G, st._G) and close(t._m, st._m)):
            fails.append(("set-get", "setting the xpxp moments read from a state does not reproduce (m, C, G)", desc))
        t = clone(pq, st, 2.0)
        t.xxpp_covariance_matrix = st2.xxpp_covariance_matrix; t.xxpp_mean_vector = st2.xxpp_mean_vector
        if not (close(t.xxpp_covariance_matrix, st2.xxpp_covariance_matrix) and close(t.xxpp_mean_vector, st2.xxpp_mean_vector)):
            fails.append(("get-set", "getter after setter does not return the covariance / mean that was set", desc))
        W = np.block([[np.eye(d), 1j * np.eye(d)], [np.eye(d), -1j * np.eye(d)]]) / np.sqrt(2)
        if not close(st.complex_covariance, W @ st.xxpp_covariance_matrix @ W.conj().T / 2.0):
            fails.append(("complex-covariance", "complex_covariance is not W sigma_xxpp W^dagger / hbar", desc))
        if d >= 2:
            k = int(rng.integers(1, d + 1))
            modes = tuple(int(x) for x in rng.choice(d, size=k, replace=False))
            red = st.reduced(modes)
            sel = list(modes) + [d + m for m in modes]
            if not close(red.xxpp_covariance_matrix, st.xxpp_covariance_matrix[np.ix_(sel, sel)]) or not close(red.xxpp_mean_vector, st.xxpp_mean_vector[sel]):
                fails.append(("reduced", f"reduced({modes}) does not commute with the xxpp representation", dict(desc, modes=modes)))
        phi = float(rng.uniform(-3, 3))
        c, s = np.cos(phi), np.sin(phi)
        R = np.block([[c * np.eye(d), s * np.eye(d)], [-s * np.eye(d), c * np.eye(d)]])
        rt = st.rotated(phi)
        if not close(rt.xxpp_covariance_matrix, R @ st.xxpp_covariance_matrix @ R.T) or not close(rt.xxpp_mean_vector, R @ st.xxpp_mean_vector):
            fails.append(("rotated", "rotated(phi) does not commute with the xxpp representation", dict(desc, phi=phi)))
        # hbar invariance of dimensionless observables, scaling of the dimensionful ones
        ref = None
        for hbar in HBARS:
            a, b = clone(pq, st, hbar), clone(pq, st2, hbar)
            obs = {}
            obs["purity"] = float(a.get_purity())
            obs["is_pure"] = bool(a.is_pure())
            obs["fidelity"] = float(np.real(a.fidelity(b)))
            obs["mean_photon_number"] = float(np.real(a.mean_photon_number()))
            obs["variance_photon_number"] = float(np.real(a.variance_photon_number()))
            occ = tuple(int(x) for x in rng.integers(0, 2, size=d)) if ref is None else ref["_occ"]
            obs["_occ"] = occ
            obs["particle_detection"] = float(np.real(a.get_particle_detection_probability(occ)))
            obs["threshold_detection"] = float(np.real(a.get_threshold_detection_probability(tuple(min(o, 1) for o in occ))))
            try:
                obs["parity"] = float(np.real(a.get_parity_operator_expectation_value()))
            except Exception as e:
                obs["parity"] = "raised " + type(e).__name__
            angles = [0.3 * (i + 1) for i in range(d)]
            try:
                obs["phaseshifter_expectation"] = complex(a.get_phaseshifter_expectation_value(angles))
            except Exception as e:
                obs["phaseshifter_expectation"] = "raised " + type(e).__name__
            obs["density_matrix"] = np.asarray(a.density_matrix)
            obs["fock_probabilities"] = np.asarray(a.fock_probabilities)
            obs["mean/sqrt(hbar)"] = a.xxpp_mean_vector / np.sqrt(hbar)
            obs["cov/hbar"] = a.xxpp_covariance_matrix / hbar
            obs["correlation/hbar"] = a.xxpp_correlation_matrix / hbar
            obs["wigner(scaled point)"] = None
            # derived representations at THIS hbar: correlation = <Y_i Y_j + Y_j Y_i> = covariance + 2 mu mu^T in both orders,
            # the representation tuples are (mean, correlation)
            for order in ("xxpp", "xpxp"):
                mu = np.asarray(getattr(a, order + "_mean_vector")); cv = np.asarray(getattr(a, order + "_covariance_matrix"))
                corr = np.asarray(getattr(a, order + "_correlation_matrix"))
                if not close(corr, cv + 2 * np.outer(mu, mu), 1e-9):
                    fails.append((f"correlation:{order}", f"{order}_correlation_matrix is not covariance + 2 mean mean^T at hbar={hbar} (max deviation {np.abs(corr - cv - 2 * np.outer(mu, mu)).max():.3g})", dict(desc, hbar=hbar)))
                rep = getattr(a, order + "_representation")
                if not (close(rep[0], mu) and close(rep[1], corr)):
                    fails.append((f"representation:{order}", f"{order}_representation is not (mean, correlation) at hbar={hbar}", dict(desc, hbar=hbar)))
            del obs["wigner(scaled point)"]
            if ref is None:
                ref = obs; ref["_hbar"] = hbar
                continue
            for kname, v in obs.items():
                if kname.startswith("_"):
                    continue
                rv = ref[kname]
                same = (v == rv) if isinstance(v, (str, bool)) or isinstance(rv, (str, bool)) else close(v, rv, 1e-7)
                if not same:
                    fails.append((f"hbar:{kname}", f"{kname} depends on hbar: {np.round(rv, 6) if not isinstance(rv, str) else rv} at hbar={ref['_hbar']}, "
                                  f"{np.round(v, 6) if not isinstance(v, str) else v} at hbar={hbar} (same m, C, G)", dict(desc, hbar=[ref["_hbar"], hbar], observable=kname)))
        # extreme hbar (SI-like units; seed C14-5: an absolute tolerance applied to an hbar-scaled quantity): the Fock-space
        # observables are functions of the dimensionless (m, C, G) only
        for hbar in EXTREME_HBARS:
            a = clone(pq, st, hbar)
            ext = {"particle_detection": float(np.real(a.get_particle_detection_probability(ref["_occ"]))),
                   "threshold_detection": float(np.real(a.get_threshold_detection_probability(tuple(min(o, 1) for o in ref["_occ"])))),
                   "density_matrix": np.asarray(a.density_matrix), "fock_probabilities": np.asarray(a.fock_probabilities)}
            for kname, v in ext.items():
                if not close(v, ref[kname], 1e-7):
                    fails.append((f"hbar-extreme:{kname}", f"{kname} depends on hbar: differs by {np.abs(np.asarray(v) - np.asarray(ref[kname])).max():.3g} between hbar={ref['_hbar']} and hbar={hbar} (same m, C, G)",
                                  dict(desc, hbar=[ref["_hbar"], hbar], observable=kname)))
    return fails


def run(ctx):
    import glob, os, subprocess, sys
    quick = ctx.tier == "quick"
    n_corr, n_search = (60, 25) if quick else (1200, 500)
    ctx.rule = ("random physical Gaussian states (pure, thermal-mixed, displaced; d<=4) built by the simulator; getters, setters, "
                "complex covariance and index permutations vs the exact ℚ model (1e-11); on the real class: set/get inverses, xpxp/xxpp, "
                "reduced, rotated, and 13 observables of states holding the same (m,C,G) under hbar in {0.5,1,2,3.7,10}; "
                "non-trivial = d>=2")
    ctx.assumptions = ["det, inv, eigvals, hafnian-based density matrix are hbar-free functions of the normalised moments (checked numerically on the real class, not proved)"]
    ctx.prove("PqVerif.Props.C14", THEOREMS, FILES)
    for f in sorted(glob.glob(os.path.join(os.path.dirname(__file__), "..", "..", "..", "corpus", "repro", "c14_*.py"))):
        p = subprocess.run([sys.executable, f], capture_output=True, text=True, cwd=os.environ.get("PQ_REPO", "/repo"))
        ctx.count("repro:" + os.path.basename(f), True)
        if p.returncode != 0:
            ctx.fail("repro:" + os.path.basename(f), "pinned regression fails: " + p.stdout[-300:], {"script": f, "stdout": p.stdout[-1000:]})
    mism = correspondence(ctx, n_corr)
    fails = search(ctx, n_search)
    ctx.notes["correspondence_mismatches"] = len(mism)
    seen = set()
    for key, msg, inp in fails:
        if key not in seen:
            seen.add(key)
            ctx.fail(key, msg, inp)
    if mism:
        ctx.notes["first_mismatches"] = [dict(op=m[0], what=m[1]) for m in mism[:5]]
        ctx.broken.append("correspondence:Model/GaussRep vs GaussianState getters/setters")
        if not ctx.violations:
            ctx.fail("correspondence:gaussrep", f"GaussRep model and GaussianState differ: {mism[0][1]} on {mism[0][0]}", None)
