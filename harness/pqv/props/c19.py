"""C19: dual-rail translation preserves qubit-circuit statistics.
proof + translator: Gen/DualRail.lean and Gen/DualRailShapes.lean are regenerated from dual_rail_encoding.py (the real
`_map_qiskit_instr_to_pq` run on fake Qiskit instructions with symbolic angles); Props/C19 re-proves, for all angles,
that every emitted instruction list is exactly its qubit gate on the two rails, that the KLM block is CZ on the
heralded subspace for Knill's angles (amplitudes via the simulators' own recurrence, model FockRep), that a layer of
single-qubit gates acts as the tensor product, and — for the encoder model DualRailEnc — that auxiliary modes are
fresh, gates stay on their rails and the condition of an if_test block evaluates to the qubit circuit's condition.
tie: the real encoder's instruction list (names, modes, conditions probed on every outcome tuple) vs the exact
model on random circuits; search: random circuits (<=3 qubits, <=8 gates, measurements in any order into any
classical bit, conditioned blocks with else-branches) executed on the real PureFockSimulator with shots=None and
post-selected on the code space vs an independent qubit simulator (records and final states)."""
import itertools
import math
import warnings
import numpy as np
from pqv import dualrail as dr
from pqv import gendualrail as gdr

THEOREMS = ["Pq.C19." + t for t in (
    "h_exact", "x_exact", "y_exact", "z_exact", "rx_exact", "ry_exact", "rz_exact", "u_exact", "p_exact",
    "cz_block_is_czMat", "knill_angles", "klm_cz", "klm_cz_at_knill_angles", "klm_success_probability", "single_qubit_layer",
    "condition_reads_clbit", "ifElse_emits", "g1_local", "g2_modes", "aux_fresh", "counters")]
FILES = ["PqVerif/Gen/DualRail.lean", "PqVerif/Gen/DualRailShapes.lean", "PqVerif/Model/DualRailOps.lean", "PqVerif/Model/DualRailEnc.lean",
         "PqVerif/Lemmas/DualRailLaws.lean", "PqVerif/Lemmas/DualRailEncLaws.lean", "PqVerif/Props/C19.lean"]
ONE = {"h", "x", "y", "z", "rx", "ry", "rz", "u", "p"}


# ------------------------------------------------------------------ encoder correspondence
def g1name(op):
    """a phase gate whose angle `np.isclose` treats as 0 emits nothing: table entry `p0`"""
    return "p0" if op[1] == "p" and bool(np.isclose(op[2][0], 0.0)) else op[1]


def ops_to_line(n, ops):
    toks = []
    for op in ops:
        if op[0] == "g":
            toks.append(f"g1:{g1name(op)}:{op[3][0]}" if op[1] in ONE else f"g2:{op[1]}:{op[3][0]}:{op[3][1]}")
        elif op[0] == "m":
            toks.append(f"m:{op[1]}:{op[2]}")
        else:
            _, c, val, body, els = op
            qs = sorted({g[3][0] for g in body + els})
            blk = lambda l: ";".join(f"{g1name(g)}.{qs.index(g[3][0])}" for g in l) if l else "-"
            toks.append(f"if:{c}:{val}:{','.join(map(str, qs)) if qs else '-'}:{blk(body)}:{blk(els)}")
    return f"drenc {n} " + ("|".join(toks) if toks else "-")


def encoder_correspondence(ctx, n_circ):
    from piquasso.dual_rail_encoding import dual_rail_encode_from_qiskit
    rng = np.random.default_rng(ctx.seed + 19)
    lines, metas = [], []
    for it in range(n_circ):
        n = int(rng.integers(1, 4))
        ops = dr.random_circuit(rng, n, max_gates=8)
        with warnings.catch_warnings():
            warnings.simplefilter("ignore")
            prog = dual_rail_encode_from_qiskit(dr.to_qiskit(n, ops))
        lines.append(ops_to_line(n, ops))
        metas.append((n, ops, prog.instructions))
    outs = ctx.lean_run(lines)
    mism = []
    cond_lines, cond_meta = [], []
    for l, (n, ops, instrs), o in zip(lines, metas, outs):
        has_if = any(op[0] == "if" for op in ops)
        ctx.count(l, nontrivial=has_if or dr.count_two_qubit(ops) > 0)
        model = [t.split(":") for t in o.split(" ")] if o else []
        real = [(type(i).__name__, ",".join(map(str, i.modes)) if i.modes else "-") for i in instrs]
        if [(m[0], m[1]) for m in model] != real:
            mism.append((l, f"instruction list differs: real {real[:12]} vs model {[(m[0], m[1]) for m in model][:12]}")); continue
        # conditions: probe the real callable on every well-formed outcome tuple of the measurements made so far
        nmeas = 0
        for ins, m in zip(instrs, model):
            cond = getattr(ins, "_condition", None) or getattr(ins, "condition", None)
            if (cond is None) != (m[2] == "-"):
                mism.append((l, f"{m[0]} on {m[1]}: conditional in one of real/model only")); break
            if cond is not None:
                pos, val, neg = m[2].split(".")
                for rec in itertools.product((0, 1), repeat=nmeas):
                    outs_ = [x for b in rec for x in ((1, 0) if b == 0 else (0, 1))]
                    try:
                        rv = bool(cond(tuple(outs_)))
                    except Exception as e:
                        rv = "error"
                    cond_lines.append(f"drcond {pos} {val} {neg} {','.join(map(str, outs_)) if outs_ else '-'}")
                    cond_meta.append((l, m, rec, rv))
            if type(ins).__name__ == "ParticleNumberMeasurement":
                nmeas += 1
    if cond_lines:
        couts = ctx.lean_run(cond_lines)
        for (l, m, rec, rv), co in zip(cond_meta, couts):
            mv = {"true": True, "false": False}.get(co, "error")
            ctx.count(None)
            if mv != rv:
                mism.append((l, f"condition of {m[0]} on {m[1]} for record {rec}: real {rv}, model {mv}")); break
    return mism


# ------------------------------------------------------------------ numeric gate blocks
def gate_blocks(ctx, n_points):
    """product of the real blocks of the emitted instructions == the independent qubit gate"""
    import piquasso as pq
    import piquasso.dual_rail_encoding as dre
    from piquasso._simulators.connectors import NumpyConnector
    rng = np.random.default_rng(ctx.seed + 191)
    conn, cfg = NumpyConnector(), pq.Config()
    fails = []

    def unitary(instrs, d):
        U = np.eye(d, dtype=complex)
        for ins in instrs:
            if not hasattr(ins, "_get_passive_block"):
                continue
            E = np.eye(d, dtype=complex)
            E[np.ix_(ins.modes, ins.modes)] = np.asarray(ins._get_passive_block(conn, cfg))
            U = E @ U
        return U
    for name, params in gdr.ONE:
        for _ in range(n_points):
            vals = [float(rng.uniform(-7, 7)) if rng.random() < 0.8 else float(rng.choice([0.0, math.pi, -math.pi, 2 * math.pi, 1e-9])) for _ in params]
            if len(vals) >= 2 and rng.random() < 0.35:
                vals[-1] = -vals[-2] + float(rng.choice([0.0, 2 * math.pi, -2 * math.pi]))      # cancelling phases (how transpilers write rx / ry as u)
            U = unitary(dre._map_qiskit_instr_to_pq(gdr.FakeInstr(name, vals), [0, 1], []), 2)
            ctx.count(("block", name, tuple(vals)), nontrivial=len(params) > 0)
            err = np.abs(U - dr.gate_matrix(name, vals)).max()
            if err > 1e-7:
                fails.append((f"gate-block:{name}", f"dual-rail {name}{tuple(vals)} is {np.round(U, 6).tolist()} on the two rails, the qubit gate is {np.round(dr.gate_matrix(name, vals), 6).tolist()}", {"gate": name, "params": vals}))
                break
    cz = [p for k, m, p in gdr._ops_of(dre._map_qiskit_instr_to_pq(gdr.FakeInstr("cz", []), [0, 1], [2, 3]), {i: i for i in range(4)}) if k == "bs"]
    th = sorted({abs(float(p[0])) for p in cz}, reverse=True)
    if len(th) == 2:
        t1, t2 = th
        ctx.notes["klm_angles"] = {"t1": t1, "t2": t2, "t1_exact": math.acos(1 / math.sqrt(3)), "t2_exact": math.pi / 4 - math.acos(1 / math.sqrt(3)) / 2}
        if abs(t1 - math.acos(1 / math.sqrt(3))) > 2e-4 or abs(t2 - (math.pi / 4 - t1 / 2)) > 2e-4:
            fails.append(("klm-angles", f"KLM beamsplitter angles {t1}, {t2} are not Knill's (acos(1/sqrt 3), pi/4 - t1/2) within 2e-4", {"t1": t1, "t2": t2}))
    return fails


# ------------------------------------------------------------------ semantic search
def run_pq(n, ops, shots=None):
    import piquasso as pq
    from piquasso.dual_rail_encoding import dual_rail_encode_from_qiskit
    prog = dual_rail_encode_from_qiskit(dr.to_qiskit(n, ops))
    k = dr.count_two_qubit(ops)
    d = 2 * n + 2 * k
    sim = pq.PureFockSimulator(d=d, config=pq.Config(cutoff=n + 2 * k + 1))
    return sim.execute(prog, shots=shots)


def records_of(res, n, ops):
    measured = [op[1] for op in ops if op[0] == "m"]
    rest = [q for q in range(n) if q not in measured]
    out = {}
    for b in res.branches:
        oc = [int(x) for x in b.outcome]
        pairs = [tuple(oc[i:i + 2]) for i in range(0, len(oc), 2)]
        if any(p not in ((1, 0), (0, 1)) for p in pairs):
            continue
        rec = tuple(0 if p == (1, 0) else 1 for p in pairs)
        amp = b.state.fock_amplitudes_map if b.state is not None else {}
        vec = np.zeros(2 ** len(rest), dtype=complex)
        for bits in itertools.product((0, 1), repeat=len(rest)):
            occ = tuple(x for bt in bits for x in ((1, 0) if bt == 0 else (0, 1)))
            vec[int("".join(map(str, bits)), 2) if bits else 0] = complex(amp.get(occ, 0.0)) if rest else 1.0
        w = float(b.frequency) * float(np.vdot(vec, vec).real)
        out[rec] = (out.get(rec, (0.0, None))[0] + w, vec)
    return out, measured, rest


def compare(n, ops, tol):
    exp = dr.exact_records(n, ops)
    with warnings.catch_warnings():
        warnings.simplefilter("ignore")
        got, measured, rest = records_of(run_pq(n, ops), n, ops)
    tot = sum(w for w, _ in got.values())
    msgs = []
    if tot <= 0:
        return ["no outcome in the dual-rail code space"], tot
    for rec in sorted(set(exp) | set(got)):
        pe = exp.get(rec, (0.0, None))[0]
        pg = got.get(rec, (0.0, None))[0] / tot
        if abs(pe - pg) > tol:
            msgs.append(f"record {rec}: qubit circuit {pe:.6f}, dual rail {pg:.6f}")
    for rec in exp:
        if rec in got and exp[rec][0] > 1e-4 and rest:
            psi = exp[rec][1].reshape((2,) * n)
            idx = [slice(None)] * n
            for q, v in zip(measured, rec):
                idx[q] = v
            a = psi[tuple(idx)].reshape(-1)
            b = got[rec][1]
            na, nb = np.vdot(a, a).real, np.vdot(b, b).real
            if nb <= 0 or abs(np.vdot(a, b)) ** 2 / (na * nb) < 1 - 10 * tol:
                msgs.append(f"record {rec}: final state of the unmeasured qubits differs (fidelity {abs(np.vdot(a, b)) ** 2 / (na * nb) if nb > 0 else 0:.6f})")
    return msgs, tot


def oracle_selfcheck():
    """the independent gate matrices agree with Qiskit's own definition of the gates"""
    from qiskit import QuantumCircuit
    from qiskit.quantum_info import Operator
    bad = []
    rng = np.random.default_rng(5)
    for name, params in gdr.ONE:
        vals = [float(rng.uniform(-3, 3)) for _ in params]
        qc = QuantumCircuit(1)
        getattr(qc, name)(*vals, 0)
        if np.abs(Operator(qc).data - dr.gate_matrix(name, vals)).max() > 1e-12:
            bad.append(name)
    return bad


def semantic_search(ctx, n_circ):
    rng = np.random.default_rng(ctx.seed + 1919)
    fails = []
    for it in range(n_circ):
        n = int(rng.integers(1, 4))
        ops = dr.random_circuit(rng, n, max_gates=8)
        k = dr.count_two_qubit(ops)
        if k > 2 or (n == 3 and k > 1 and ctx.tier == "quick"):
            continue
        has_if = any(op[0] == "if" for op in ops)
        ctx.count(("circ", it), nontrivial=has_if or k > 0, sample={"n": n, "ops": repr(ops)[:300]} if has_if and k and len(ctx.samples) < 2 else None)
        try:
            msgs, tot = compare(n, ops, 1e-9 if k == 0 else 2e-3)
        except Exception as e:
            msgs = [f"{type(e).__name__}: {str(e)[:160]}"]
            fails.append((f"raise:{type(e).__name__}", f"supported circuit raised {msgs[0]}", {"n": n, "ops": repr(ops)})); continue
        if msgs:
            kind = "conditional" if has_if else ("two-qubit" if k else "single-qubit")
            fails.append((f"statistics:{kind}", msgs[0], {"n": n, "ops": repr(ops), "all": msgs[:4]}))
        if k and abs(tot - (2 / 27) ** k) > 5e-3 * (2 / 27) ** k * 10:
            fails.append(("success-probability", f"total weight on the code space {tot:.6g}, expected (2/27)^{k}", {"n": n, "ops": repr(ops)}))
    return fails


def entangle_measure_condition(ctx):
    """directed: two-qubit gate, measurement of one of its qubits, block conditioned on the result (with and without else),
    for both gates, both measured qubits, both condition values — the exact simulation carries branches outside the code
    space (rounded KLM angles), which must not break the conditioned block"""
    fails = []
    for gate, meas, val, with_else, pre in itertools.product(("cx", "cz"), (0, 1), (0, 1), (False, True), ("h", "x")):
        other = 1 - meas
        ops = [("g", pre, (), (0,)), ("g", "h", (), (1,)), ("g", gate, (), (0, 1)), ("m", meas, meas),
               ("if", meas, val, [("g", "x", (), (other,))], [("g", "ry", (0.7,), (other,))] if with_else else []),
               ("g", "h", (), (other,))]
        ctx.count(("emc", gate, meas, val, with_else, pre), nontrivial=True)
        try:
            msgs, tot = compare(2, ops, 2e-3)
        except Exception as e:
            fails.append((f"raise:{type(e).__name__}", f"supported circuit raised {type(e).__name__}: {str(e)[:160]}", {"n": 2, "ops": repr(ops)})); continue
        if msgs:
            fails.append(("statistics:conditional", msgs[0], {"n": 2, "ops": repr(ops), "all": msgs[:4]}))
    return fails


def sampling(ctx, n_circ):
    """shots mode: samples decode to qubit records in the support of the exact distribution"""
    from piquasso.dual_rail_encoding import get_bosonic_qubit_samples
    rng = np.random.default_rng(ctx.seed + 191919)
    fails = []
    for it in range(n_circ):
        n = int(rng.integers(1, 4))
        ops = [o for o in dr.random_circuit(rng, n, max_gates=5, with_conditionals=False) if o[0] != "m"]
        if dr.count_two_qubit(ops) > 1:
            continue
        ops += [("m", q, q) for q in range(n)]
        exp = dr.exact_records(n, ops)
        try:
            with warnings.catch_warnings():
                warnings.simplefilter("ignore")
                res = run_pq(n, ops, shots=60)
            recs = get_bosonic_qubit_samples([tuple(int(x) for x in s) for s in res.samples])
        except Exception as e:
            fails.append((f"sampling-raise:{type(e).__name__}", f"{type(e).__name__}: {str(e)[:160]}", {"n": n, "ops": repr(ops)})); continue
        ctx.count(("samp", it), nontrivial=n >= 2)
        for r in recs:
            if exp.get(tuple(r), (0.0,))[0] < 1e-6:
                fails.append(("sample-outside-support", f"sampled qubit record {r} has probability {exp.get(tuple(r), (0.0,))[0]:.2g} in the qubit circuit", {"n": n, "ops": repr(ops)})); break
    return fails


def run(ctx):
    quick = ctx.tier == "quick"
    ctx.rule = ("random circuits on 1..3 qubits, up to 8 gates from h,x,y,z,rx,ry,rz,u,p,cz,cx (<=2 two-qubit gates), angles uniform or special "
                "(0, ±pi/2, pi, 2pi), mid-circuit measurements in any order into a random permutation of the classical bits, if_test blocks (1-2 gates, "
                "optional else) on written or unwritten bits; exact branches (shots=None) post-selected on the code space vs an independent qubit "
                "simulator: record probabilities (1e-9 without, 2e-3 with KLM blocks) and final states; non-trivial = has a conditional or a two-qubit gate")
    ctx.assumptions = ["measured qubits are not reused (the photonic program removes measured modes)",
                       "two-qubit gates inside if_test blocks are not supported by the encoder and are not generated",
                       "the KLM angles in the code are 4-digit approximations: statistics of circuits with cz/cx are compared to 2e-3"]
    # translator
    try:
        with warnings.catch_warnings():
            warnings.simplefilter("ignore")
            gates, cz, cx, meas = gdr.trace()
            notes = gdr.emit(gates, cz, cx, meas)
            bad, npts = gdr.self_check(gates, cz, 6 if quick else 60, ctx.seed)
        ctx.notes["translator"] = {"self_check_points": npts, "self_check_bad": len(bad), **{k: str(v) for k, v in notes.items()}}
        if bad:
            ctx.broken.append("translator-self-check:dual_rail_encoding")
            ctx.notes["translator_bad"] = [str(b)[:200] for b in bad[:3]]
    except Exception as e:
        # the encoder can no longer be executed on symbolic angles (e.g. a new data-dependent branch): the regenerated definitions
        # are not available, so the theorems no longer speak about today's code — a broken obligation, and the search decides
        ctx.broken.append(f"translator:dual_rail_encoding cannot be traced symbolically ({type(e).__name__}: {str(e)[:100]})")
        ctx.notes["translator"] = {"error": f"{type(e).__name__}: {str(e)[:200]}"}
    ctx.prove("PqVerif.Props.C19", THEOREMS, FILES)
    import glob, os, subprocess, sys
    for f in sorted(glob.glob(os.path.join(os.path.dirname(__file__), "..", "..", "..", "corpus", "repro", "c19_*.py"))):
        p = subprocess.run([sys.executable, f], capture_output=True, text=True, cwd=os.environ.get("PQ_REPO", "/repo"))
        ctx.count("repro:" + os.path.basename(f), True)
        if p.returncode != 0:
            ctx.fail("repro:" + os.path.basename(f), "pinned regression fails: " + (p.stdout + p.stderr)[-400:], {"script": f})
    ob = oracle_selfcheck()
    if ob:
        from pqv.core import CheckError
        raise CheckError(f"the independent gate matrices disagree with qiskit for {ob}")
    mism = encoder_correspondence(ctx, 40 if quick else 600)
    fails = gate_blocks(ctx, 8 if quick else 200) + entangle_measure_condition(ctx) + semantic_search(ctx, 70 if quick else 1500) + sampling(ctx, 8 if quick else 100)
    seen = set()
    for key, msg, inp in fails:
        if key not in seen:
            seen.add(key)
            ctx.fail(key, msg, inp)
    ctx.notes["correspondence_mismatches"] = len(mism)
    if mism:
        ctx.notes["first_mismatches"] = [dict(op=m[0][:200], what=m[1][:300]) for m in mism[:4]]
        ctx.broken.append("correspondence:Model/DualRailEnc vs _encode_dual_rail_from_qiskit")
