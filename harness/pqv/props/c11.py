"""C11: seeded runs are reproducible and independent of parallel scheduling.
proof: PqVerif.Props.C11 — (a) generator ownership: a fresh simulator's draws are the first values of the
stream of its seed under every interleaving; (b) native permanent kernel: jobs partition the Gray-code range
for every hardware_concurrency()>=1, the n-ary Gray code is a bijection with unit steps, next() = initialize(+1),
and the exact value is the same for every thread count.
tie: (a) random op sequences on the real Config/Simulator objects vs the model: generator sharing, which
generator advances, stream positions (samples replayed from an independent random.Random), global `random`
untouched; (b) the C++ kernel compiled from /repo/src with forced job counts vs the exact ℚ[i] model, Gray
sequences digit for digit.  search: same seed / interference / different seeds / dask / thread env on every
sampling path."""
import hashlib
import os
import random
import subprocess
import sys
import numpy as np
from fractions import Fraction
from pqv.core import VERIF, REPO

THEOREMS = ["Pq.C11.fresh_simulator_draws", "Pq.C11.same_seed_same_samples", "Pq.C11.different_seed_different_stream",
            "Pq.C11.reseed_replays", "Pq.C11.reseed_same_seed_same_samples",
            "Pq.C11.jobRanges_partition", "Pq.C11.jobRanges_zero_threads", "Pq.C11.grayOf_injective", "Pq.C11.gray_adjacent",
            "Pq.C11.next_eq_init", "Pq.C11.runJob_eq_sum", "Pq.C11.permanent_threads_independent",
            "Pq.C11.permanent_zero_threads"]
FILES = ["PqVerif/Model/Rng.lean", "PqVerif/Model/Kernel.lean", "PqVerif/Lemmas/GrayLaws.lean", "PqVerif/Lemmas/PermLaws.lean",
         "PqVerif/Props/C11Rng.lean", "PqVerif/Props/C11.lean"]
NATIVE = os.path.join(VERIF, "harness", "native", "pqnative")


def build_native(sanitize=False):
    out = NATIVE + ("_san" if sanitize else "")
    src = os.path.join(VERIF, "harness", "native", "harness.cpp")
    deps = [src] + [os.path.join(REPO, "src", f) for f in os.listdir(os.path.join(REPO, "src")) if f.endswith((".cpp", ".hpp"))]
    stamp = hashlib.sha1(b"".join(open(d, "rb").read() for d in sorted(deps))).hexdigest()
    sf = out + ".stamp"
    if os.path.exists(out) and os.path.exists(sf) and open(sf).read() == stamp:
        return out, None
    if sanitize:
        cmd = ["clang++", "-O1", "-g", "-fsanitize=address,undefined", "-fno-omit-frame-pointer", "-std=c++17", f"-I{REPO}/src", "-o", out, src]
    else:
        cmd = ["g++", "-O2", "-fopenmp", "-std=c++17", f"-I{REPO}/src", "-o", out, src]
    p = subprocess.run(cmd, capture_output=True, text=True)
    if p.returncode != 0:
        return None, p.stderr[-3000:]
    open(sf, "w").write(stamp)
    return out, None


def native_run(binary, lines, hc=1, env_extra=None):
    env = dict(os.environ, VERIF_HC=str(hc), ASAN_OPTIONS="detect_leaks=0", UBSAN_OPTIONS="print_stacktrace=0")
    env.update(env_extra or {})
    p = subprocess.run([binary], input="\n".join(lines) + "\n", capture_output=True, text=True, env=env, timeout=1800)
    return p.stdout.split("\n")[:len(lines)], p.stderr


# ------------------------------------------------------------------ (a) generator ownership
def rng_state_hash(cfg):
    return (hashlib.sha1(repr(cfg.rng.bit_generator.state).encode()).hexdigest(),
            hashlib.sha1(repr(cfg.python_rng.getstate()).encode()).hexdigest())


def ownership(ctx, n_seq):
    import piquasso as pq
    rng = ctx.rng
    lines, reals = [], []
    fails = []
    def prog():
        with pq.Program() as p:
            pq.Q(0, 1) | pq.StateVector([1, 1])
            pq.Q(0, 1) | pq.Beamsplitter(theta=0.6, phi=0.2)
            pq.Q() | pq.ParticleNumberMeasurement()
        return p
    for it in range(n_seq):
        random.seed(0)
        cfgs, sims, simpy, ops = [], [], [], []
        outs = []
        model_like = []
        for _ in range(rng.randint(3, 12)):
            r = rng.random()
            before = [rng_state_hash(c) for c in cfgs]
            gbefore = random.getstate()
            op = None
            if r < 0.25 or not cfgs:
                seed = rng.choice([0, 1, 5, 7, 12345, None])
                cfgs.append(pq.Config(seed_sequence=seed, cutoff=3)); op = f"cfg:{'none' if seed is None else seed}"
                outs.append(None)
            elif r < 0.35:
                c = rng.randrange(len(cfgs)); cfgs.append(cfgs[c].copy()); op = f"copy:{c}"; outs.append(None)
            elif r < 0.55:
                c = rng.randrange(len(cfgs)); py = rng.random() < 0.6
                sim = (pq.PureFockSimulator if py else pq.PassiveSimulator)(d=2, config=cfgs[c])
                sims.append(sim); simpy.append(py); cfgs.append(sim.config); op = f"sim:{c}"; outs.append(None)
            elif r < 0.8 and sims:
                s = rng.randrange(len(sims)); k = rng.randint(1, 6)
                res = sims[s].execute(prog(), shots=k)
                op = f"exec:{s}:{k}:{int(simpy[s])}"
                # unshuffled sample multiset in branch order
                outs.append(sorted((tuple(int(x) for x in b.outcome), int(b.frequency * k)) for b in res.branches) if simpy[s] else "np")
            elif r < 0.86:
                # seeding by assignment: the setter rebinds THIS config object to two new generators
                c = rng.randrange(len(cfgs)); seed = rng.choice([0, 1, 5, 7, 12345])
                cfgs[c].seed_sequence = seed; op = f"reseed:{c}:{seed}"; outs.append(None)
            elif r < 0.93:
                n = rng.randint(1, 4)
                for _ in range(n):
                    random.random()
                op = f"frand:{n}"; outs.append(None)
            else:
                s = rng.randint(0, 50); random.seed(s); op = f"fseed:{s}"; outs.append(None)
            ops.append(op)
            # piquasso operations must leave the global module alone
            if not op.startswith(("frand", "fseed")) and random.getstate() != gbefore:
                fails.append((f"global-random:{op.split(':')[0]}", f"`{op}` changed the state of the process-global random module", {"ops": ops}))
            model_like.append(([i for i, (b, c) in enumerate(zip(before, cfgs)) if rng_state_hash(c) != b]))
        # canonical description of the real world
        def canon(ids):
            m = {}
            return [m.setdefault(i, len(m)) for i in ids]
        gen_ids = canon([x for c in cfgs for x in (id(c.rng), id(c.python_rng))])
        sharing = " ".join(f"{gen_ids[2 * i]},{gen_ids[2 * i + 1]}" for i in range(len(cfgs))) or "-"
        lines.append("rng " + " ".join(ops))
        reals.append((sharing, ops, outs, model_like, [c.seed_sequence for c in cfgs], random.getstate()))
    outs_model = ctx.lean_run(lines)
    mism = []
    for line, (sharing, ops, outs, changed, seeds, gstate), got in zip(lines, reals, outs_model):
        ctx.count(line, nontrivial=any(o.startswith("exec") for o in ops) and any(o.startswith(("frand", "fseed", "cfg")) for o in ops[1:]),
                  sample={"ops": line} if len(ctx.samples) < 4 else None)
        try:
            m_cfgs = got.split(" gens ")[0][len("cfgs "):]
            m_glob = got.split(" glob ")[1].split(" sims ")[0]
            m_out = got.split(" out ")[1].split(" | ")
        except Exception:
            mism.append((line, "unparsable model output", got)); continue
        # sharing partition
        def canon_pairs(s):
            if s == "-":
                return "-"
            ids = [int(x) for p in s.split(" ") for x in p.split(",")]
            m = {}
            c = [m.setdefault(i, len(m)) for i in ids]
            return " ".join(f"{c[2 * i]},{c[2 * i + 1]}" for i in range(len(c) // 2))
        if canon_pairs(m_cfgs) != sharing:
            mism.append((line, f"generator sharing: real {sharing}", canon_pairs(m_cfgs))); continue
        # global module: model's (seed, pos) replayed on an independent Random
        gs, gp = (int(x) for x in m_glob.split("@"))
        ref = random.Random(gs)
        for _ in range(gp):
            ref.random()
        if ref.getstate() != gstate:
            mism.append((line, "global random state differs from the model's stream position", m_glob)); continue
        # python-path executions: the samples are the model's stream positions of the model's seed
        import piquasso as pq
        for op, o, mo in zip(ops, outs, m_out):
            if op.startswith("exec") and o != "np":
                k = int(op.split(":")[2])
                draws = [tuple(int(x) for x in d.split("@")) for d in mo.split(" ")] if mo != "-" else []
                if len(draws) != k:
                    mism.append((line, f"{op}: model drew {len(draws)}", mo)); break
                seed, pos = draws[0]
                if seed >= 1000000007:
                    continue   # urandom-seeded config: the stream is unknown by design
                ref = random.Random(seed)
                for _ in range(pos):
                    ref.random()
                st = pq.PureFockSimulator(d=2, config=pq.Config(cutoff=3, seed_sequence=99))
                with pq.Program() as p:
                    pq.Q(0, 1) | pq.StateVector([1, 1]); pq.Q(0, 1) | pq.Beamsplitter(theta=0.6, phi=0.2)
                pm = st.execute(p).state.fock_probabilities_map
                smp = ref.choices(population=list(pm.keys()), weights=list(pm.values()), k=k)
                want = {}
                for s_ in smp:
                    want[tuple(int(x) for x in s_)] = want.get(tuple(int(x) for x in s_), 0) + 1
                if sorted(want.items()) != o:
                    mism.append((line, f"{op}: real samples {o}", f"replay of stream {seed}@{pos}: {sorted(want.items())}")); break
    return mism, fails


# ------------------------------------------------------------------ search on the real sampling paths
def sampling_paths(pq):
    def bs(d=3):
        return [(pq.Beamsplitter(theta=0.6, phi=0.2), (0, 1)), (pq.Beamsplitter(theta=0.9, phi=0.1), (1, 2))]
    paths = {}
    def mk(sim, prep, meas, **cfg):
        def build(seed):
            with pq.Program() as p:
                for ins, m in prep():
                    pq.Q(*m) | ins
                for ins, m in bs():
                    pq.Q(*m) | ins
                for ins, m in meas():
                    pq.Q(*m) | ins
            return sim(d=3, config=pq.Config(seed_sequence=seed, cutoff=4, measurement_cutoff=3, **cfg)), p
        return build
    sv = lambda: [(pq.StateVector([1, 1, 0]), (0, 1, 2))]
    sq = lambda: [(pq.Squeezing(r=0.5), (0,)), (pq.Squeezing(r=0.4), (1,)), (pq.Displacement(r=0.3), (2,))]
    pnm = lambda: [(pq.ParticleNumberMeasurement(), ())]
    paths["purefock-pnm"] = mk(pq.PureFockSimulator, sv, pnm)
    paths["purefock-midcircuit"] = mk(pq.PureFockSimulator, sv, lambda: [(pq.ParticleNumberMeasurement(), (0,)), (pq.ParticleNumberMeasurement(), (1, 2))])
    paths["purefock-homodyne"] = mk(pq.PureFockSimulator, sv, lambda: [(pq.HomodyneMeasurement(), (0,))])
    paths["fock-pnm"] = mk(pq.FockSimulator, lambda: [(pq.Vacuum(), ())] + sq()[:2], pnm)
    paths["passive-pnm"] = mk(pq.PassiveSimulator, sv, pnm)
    paths["passive-marginal"] = mk(pq.PassiveSimulator, sv, lambda: [(pq.ParticleNumberMeasurement(), (1,))])
    paths["gaussian-pnm"] = mk(pq.GaussianSimulator, sq, pnm)
    paths["gaussian-pnm-dask"] = mk(pq.GaussianSimulator, sq, pnm, use_dask=True)
    paths["gaussian-threshold"] = mk(pq.GaussianSimulator, sq, lambda: [(pq.ThresholdMeasurement(), ())])
    paths["gaussian-threshold-torontonian"] = mk(pq.GaussianSimulator, sq, lambda: [(pq.ThresholdMeasurement(), ())], use_torontonian=True)
    paths["gaussian-homodyne"] = mk(pq.GaussianSimulator, sq, lambda: [(pq.HomodyneMeasurement(), (0, 1))])
    paths["gaussian-heterodyne"] = mk(pq.GaussianSimulator, sq, lambda: [(pq.HeterodyneMeasurement(), (0,))])
    return paths


def canon_samples(samples):
    return [tuple(round(float(x), 12) for x in s) for s in samples]


def real_seeding(ctx, shots):
    import piquasso as pq
    fails = []
    try:
        import dask  # noqa
        have_dask = True
    except Exception:
        have_dask = False
    for name, build in sampling_paths(pq).items():
        if "dask" in name and not have_dask:
            continue
        for seed in (0, 3, ctx.rng.randint(10, 10 ** 6)):
            def run(interfere, seed=seed):
                sim, p = build(seed)
                if interfere:
                    pq.Config(seed_sequence=999); pq.Config()
                    random.random(); random.seed(5); np.random.seed(1); np.random.random()
                    other, po = build(4242)
                    other.execute(po, shots=3)
                    sim.config.copy()
                return canon_samples(sim.execute(p, shots=shots).samples)
            def run_assigned(via_sim, seed=seed):
                # the seed is set by assignment (`config.seed_sequence = seed`), on the user's config before the simulator is
                # created or on the simulator's own config afterwards
                sim, p = build(None)
                if via_sim:
                    sim.config.seed_sequence = seed
                else:
                    cfg = sim.config.copy(); cfg.seed_sequence = seed
                    sim = type(sim)(d=3, config=cfg)
                return canon_samples(sim.execute(p, shots=shots).samples)
            def run_many(interfere, seed=seed):
                # many shots (some samplers switch algorithm with the shot count): same seed, same samples, and the process-global
                # generators are neither read nor advanced
                sim, p = build(seed)
                if interfere:
                    np.random.seed(int(ctx.rng.randint(0, 10 ** 6))); np.random.random(3); random.seed(11); random.random()
                g_np, g_py = np.random.get_state()[1].tobytes(), random.getstate()
                out = canon_samples(sim.execute(p, shots=700).samples)
                touched = np.random.get_state()[1].tobytes() != g_np or random.getstate() != g_py
                return out, touched
            try:
                a, b, c = run(False), run(True), run(False)
                e1, e2, e3 = run_assigned(False), run_assigned(True), run_assigned(False)
                if seed == 3 and ("pnm" in name or "midcircuit" in name) and "dask" not in name:
                    (m1, t1), (m2, t2) = run_many(False), run_many(True)
                    ctx.count(("seeding-many", name), nontrivial=True)
                    if sorted(m1) != sorted(m2):
                        fails.append((f"seeding-many-shots:{name}", f"{name}: two fresh simulators with seed {seed} and 700 shots gave different samples", {"path": name, "seed": seed, "shots": 700}))
                    if t1 or t2:
                        fails.append((f"global-rng-consumed:{name}", f"{name}: sampling 700 shots read or advanced the process-global numpy / random generator", {"path": name, "seed": seed, "shots": 700}))
            except Exception as e:
                fails.append((f"seeding-raise:{name}", f"{name}: {type(e).__name__}: {str(e)[:120]}", {"path": name, "seed": seed}))
                break
            ctx.count(("seeding", name, seed), nontrivial=True)
            if not (e1 == e2 == e3):
                fails.append((f"seeding-assigned:{name}", f"{name}: fresh simulators whose seed {seed} was set by assigning config.seed_sequence gave different samples",
                              {"path": name, "seed": seed, "config_assigned": e1[:5], "simulator_config_assigned": e2[:5], "config_assigned_again": e3[:5]}))
            elif e1 != a:
                fails.append((f"seeding-assigned-vs-constructor:{name}", f"{name}: seed {seed} set by assignment gives other samples than the same seed passed to Config(...)",
                              {"path": name, "seed": seed, "constructor": a[:5], "assigned": e1[:5]}))
            if a != c:
                fails.append((f"seeding-repeat:{name}", f"{name}: two fresh simulators with seed {seed} gave different samples", {"path": name, "seed": seed, "first": a[:5], "second": c[:5]}))
            if a != b:
                fails.append((f"seeding-interference:{name}", f"{name}: samples with seed {seed} changed when unrelated Configs / random / another simulator were used in between",
                              {"path": name, "seed": seed, "clean": a[:5], "interfered": b[:5]}))
        s1 = canon_samples(build(101)[0].execute(build(101)[1], shots=max(shots, 64)).samples)
        s2 = canon_samples(build(202)[0].execute(build(202)[1], shots=max(shots, 64)).samples)
        if s1 == s2:
            fails.append((f"seeding-different:{name}", f"{name}: seeds 101 and 202 give identical sample sequences", {"path": name}))
    return fails


def dask_equivalence(ctx, shot_counts):
    """seeded samples are the same with and without dask, for every number of shots (per-shot seeding must not depend
    on how shots are grouped into tasks)"""
    import piquasso as pq
    try:
        import dask  # noqa
    except Exception:
        return []
    fails = []

    def passive(seed, use_dask, lossy):
        with pq.Program() as p:
            pq.Q(0, 1, 2, 3) | pq.StateVector([1, 1, 1, 0])
            pq.Q(0, 1) | pq.Beamsplitter(theta=0.6, phi=0.2)
            pq.Q(1, 2) | pq.Beamsplitter(theta=0.9, phi=0.1)
            pq.Q(2, 3) | pq.Beamsplitter(theta=0.4, phi=0.7)
            if lossy:
                for m in range(4):
                    pq.Q(m) | pq.Loss(transmissivity=0.8)
            pq.Q() | pq.ParticleNumberMeasurement()
        return pq.PassiveSimulator(d=4, config=pq.Config(seed_sequence=seed, use_dask=use_dask)), p

    def gaussian(seed, use_dask, lossy):
        with pq.Program() as p:
            pq.Q(0) | pq.Squeezing(r=0.5)
            pq.Q(1) | pq.Squeezing(r=0.4)
            pq.Q(0, 1) | pq.Beamsplitter(theta=0.6, phi=0.2)
            pq.Q(1, 2) | pq.Beamsplitter(theta=0.9, phi=0.1)
            pq.Q() | pq.ParticleNumberMeasurement()
        return pq.GaussianSimulator(d=3, config=pq.Config(seed_sequence=seed, use_dask=use_dask, measurement_cutoff=3)), p
    for name, build, lossy in (("passive", passive, False), ("passive-uniform-loss", passive, True), ("gaussian", gaussian, False)):
        for shots in shot_counts:
            seed = ctx.rng.randint(0, 10 ** 6)
            try:
                a = canon_samples((lambda sp: sp[0].execute(sp[1], shots=shots).samples)(build(seed, False, lossy)))
                b = canon_samples((lambda sp: sp[0].execute(sp[1], shots=shots).samples)(build(seed, True, lossy)))
            except Exception as e:
                fails.append((f"dask-raise:{name}", f"{name}: {type(e).__name__}: {str(e)[:120]}", {"path": name, "seed": seed, "shots": shots})); break
            ctx.count(("dask", name, shots), nontrivial=shots > 32)
            if a != b:
                k = next(i for i, (x, y) in enumerate(zip(a, b)) if x != y) if len(a) == len(b) else -1
                fails.append((f"dask-equivalence:{name}", f"{name}: seed {seed}, {shots} shots: samples with use_dask=True differ from use_dask=False (first at shot {k})",
                              {"path": name, "seed": seed, "shots": shots, "first_difference": k}))
                break
    return fails


THREAD_SCRIPT = r'''
import warnings; warnings.filterwarnings("ignore")
import numpy as np, piquasso as pq, json
from piquasso._math.permanent import permanent
from piquasso._math.hafnian import hafnian_with_reduction, loop_hafnian_with_reduction
rng = np.random.default_rng(5)
out = {}
A = rng.normal(size=(4, 4)) + 1j * rng.normal(size=(4, 4))
out["permanent"] = [complex(permanent(A, np.array([2, 1, 0, 3]), np.array([1, 2, 2, 1]))).real, complex(permanent(A, np.array([2, 1, 0, 3]), np.array([1, 2, 2, 1]))).imag]
S = A + A.T
out["hafnian"] = [complex(hafnian_with_reduction(S, np.array([1, 2, 1, 2]))).real, complex(loop_hafnian_with_reduction(S, np.diag(S).copy(), np.array([1, 2, 1, 2]))).real]
with pq.Program() as p:
    pq.Q(0) | pq.Squeezing(r=0.5); pq.Q(1) | pq.Squeezing(r=0.3)
    pq.Q(0, 1) | pq.Beamsplitter(theta=0.7, phi=0.3); pq.Q(1, 2) | pq.Beamsplitter(theta=0.2, phi=0.9)
    pq.Q() | pq.ParticleNumberMeasurement()
r = pq.GaussianSimulator(d=3, config=pq.Config(seed_sequence=11, measurement_cutoff=4)).execute(p, shots=30)
out["gaussian_samples"] = [[int(x) for x in s] for s in r.samples]
with pq.Program() as q:
    pq.Q(0, 1, 2) | pq.StateVector([1, 1, 1]); pq.Q(0, 1) | pq.Beamsplitter(theta=0.7, phi=0.3); pq.Q(1, 2) | pq.Beamsplitter(theta=0.2, phi=0.9)
st = pq.PureFockSimulator(d=3, config=pq.Config(cutoff=4)).execute(q).state
out["fock_probabilities"] = [float(x) for x in st.fock_probabilities]
print(json.dumps(out))
'''


def thread_env(ctx, counts):
    import json
    fails, ref = [], None
    for n in counts:
        env = dict(os.environ, NUMBA_NUM_THREADS=str(n), OMP_NUM_THREADS=str(n), PYTHONPATH=REPO + os.pathsep + os.environ.get("PYTHONPATH", ""))
        p = subprocess.run([sys.executable, "-c", THREAD_SCRIPT], capture_output=True, text=True, env=env, cwd=REPO, timeout=1200)
        if p.returncode != 0:
            fails.append((f"threads-raise:{n}", f"run with {n} threads failed: {p.stderr[-200:]}", {"threads": n})); continue
        out = json.loads(p.stdout.strip().split("\n")[-1])
        ctx.count(("threads", n), nontrivial=True)
        if ref is None:
            ref = out; continue
        for k in out:
            a, b = np.asarray(ref[k], dtype=float), np.asarray(out[k], dtype=float)
            if a.shape != b.shape or not np.allclose(a, b, rtol=1e-10, atol=1e-12):
                fails.append((f"threads:{k}", f"{k} depends on the thread count ({counts[0]} vs {n} threads)", {"quantity": k, "threads": [counts[0], n]}))
    return fails


# ------------------------------------------------------------------ (b) native kernel partition
def qi(z):
    z = complex(z)
    f = lambda x: (lambda q: f"{q.numerator}/{q.denominator}" if q.denominator != 1 else str(q.numerator))(Fraction(float(x)))
    return f(z.real) + ";" + f(z.imag)


def native_partition(ctx, binary, hcs, n_cases):
    rng = np.random.default_rng(ctx.seed + 11)
    fails, mism = [], []
    # Gray-code sequences, digit for digit
    lim_sets = [[3, 2], [1, 4, 2], [2, 2, 2], [5], [1, 1, 3], [4, 1, 2], [2, 3, 4], [19, 19]] + [list(rng.integers(1, 5, size=int(rng.integers(1, 5)))) for _ in range(6)]
    nl, ml = [], []
    for lim in lim_sets:
        tot = int(np.prod(lim))
        lo = int(rng.integers(0, tot)); hi = int(rng.integers(lo, tot))
        for (a, b) in ((0, tot - 1), (lo, hi)):
            nl.append(f"gray {len(lim)} " + " ".join(map(str, lim)) + f" {a} {b}")
            ml.append(("graynext " + ",".join(map(str, lim)) + f" {a} {b}", "graycodes " + ",".join(map(str, lim)), a))
    nout, _ = native_run(binary, nl, 1)
    m1 = ctx.lean_run([m[0] for m in ml])
    m2 = ctx.lean_run([m[1] for m in ml])
    for l, no, a, b, (_, _, lo) in zip(nl, nout, m1, m2, ml):
        codes = b.split(";")
        model = codes[lo] + ("" if a == "empty" else " " + a)
        ctx.count(l, nontrivial=True, sample={"op": l, "native": no[:100]} if len(ctx.samples) < 3 else None)
        if no.strip() != model:
            mism.append((l, no.strip()[:300], model[:300]))
    # job ranges for every value the concurrency query could return are implied by the results below:
    # the kernel with forced job counts vs the exact model (which is proved thread-independent)
    lines, mlines, metas = [], [], []
    for it in range(n_cases):
        n = int(rng.integers(2, 5)); m = n
        rows = [int(x) for x in rng.integers(0, 4, size=n)]
        cols = list(rows); rng.shuffle(cols)
        if sum(rows) == 0:
            rows[0] = cols[0] = 2
        A = (rng.integers(-8, 9, size=(n, m)) + 1j * rng.integers(-8, 9, size=(n, m))) / 8.0
        flat = " ".join(f"{float(z.real)!r} {float(z.imag)!r}" for z in A.reshape(-1))
        lines.append(f"perm64 {n} {m} {flat} " + " ".join(map(str, rows)) + " " + " ".join(map(str, cols)))
        mlines.append(f"perm 0 1 {n} {m} " + ",".join(qi(z) for z in A.reshape(-1)) + " " + ",".join(map(str, rows)) + " " + ",".join(map(str, cols)))
        metas.append((rows, cols))
    exact = ctx.lean_run(mlines)
    def val(s):
        a, b = s.split(";"); return complex(float(Fraction(a)), float(Fraction(b)))
    results = {}
    for hc in hcs:
        out, _ = native_run(binary, lines, hc)
        results[hc] = out
    for i, (l, ex) in enumerate(zip(lines, exact)):
        if ex in ("none", "bad-op"):
            continue
        e = val(ex)
        for hc in hcs:
            try:
                re_, im_ = results[hc][i].split()
                v = complex(float(re_), float(im_))
            except Exception:
                fails.append((f"native-perm-output:hc{hc}", f"kernel produced `{results[hc][i][:80]}`", {"line": l, "hc": hc})); continue
            ctx.count(("perm", i, hc), nontrivial=max(metas[i][0]) >= 2)
            if abs(v - e) > 1e-10 * (1 + abs(e)):
                key = "native-perm:hc0-zero-jobs" if hc == 0 and v == 0 else f"native-perm:hc{hc}"
                fails.append((key, f"permanent_cpp with hardware_concurrency()={hc}: {v} instead of {e} (rows {metas[i][0]}, cols {metas[i][1]})",
                              {"line": l, "hc": hc, "native": [v.real, v.imag], "exact": [e.real, e.imag]}))
    return mism, fails


def run(ctx):
    import glob
    quick = ctx.tier == "quick"
    n_seq, shots, n_cases = (20, 16, 20) if quick else (600, 80, 300)
    hcs = [1, 2, 3, 5, 16] if quick else list(range(1, 33)) + [64, 128]
    ctx.rule = ("(a) random sequences of Config / copy / Simulator / execute / random.seed / random.random operations on the real objects "
                "vs the ownership model (sharing, stream positions, global module); 12 sampling paths x seeds x interference; thread "
                "environment sweep; (b) C++ kernel from /repo/src with forced job counts vs exact model, Gray sequences digit for digit; "
                "non-trivial = an execution interleaved with foreign activity / multiplicity >= 2")
    ctx.assumptions = ["numpy and random generators are pure functions of their seed and position",
                       "floating-point reassociation between jobs is bounded by the 1e-10 tolerance",
                       "the pybind11 wrappers cannot be rebuilt here: the kernel is exercised through harness/native/harness.cpp"]
    ctx.prove("PqVerif.Props.C11", THEOREMS, FILES)
    for f in sorted(glob.glob(os.path.join(VERIF, "corpus", "repro", "c11_*.py"))):
        p = subprocess.run([sys.executable, f], capture_output=True, text=True, cwd=REPO)
        ctx.count("repro:" + os.path.basename(f), True)
        if p.returncode != 0:
            ctx.fail("repro:" + os.path.basename(f), "pinned regression fails: " + p.stdout[-300:], {"script": f, "stdout": p.stdout[-1000:]})
    mism, fails = ownership(ctx, n_seq)
    fails += real_seeding(ctx, shots)
    fails += dask_equivalence(ctx, (5, 33, 70) if quick else (1, 20, 32, 33, 64, 65, 100, 150))
    fails += thread_env(ctx, [1, 4] if quick else [1, 2, 4, 16])
    binary, err = build_native()
    if binary is None:
        ctx.broken.append("native-harness-build")
        ctx.notes["native_build_error"] = err
    else:
        m2, f2 = native_partition(ctx, binary, hcs + [0], n_cases)
        mism += m2; fails += f2
    ctx.notes["correspondence_mismatches"] = len(mism)
    seen = set()
    for key, msg, inp in fails:
        if key not in seen:
            seen.add(key)
            ctx.fail(key, msg, inp)
    if mism:
        ctx.notes["first_mismatches"] = [dict(op=m[0][:300], real=str(m[1])[:300], model=str(m[2])[:300]) for m in mism[:5]]
        ctx.broken.append("correspondence:Model/Rng+Kernel vs Config/Simulator and src/*.cpp")
        if not ctx.violations:
            m = mism[0]
            ctx.fail("correspondence:c11", f"model/implementation differ on `{m[0][:150]}`: real `{str(m[1])[:150]}` model `{str(m[2])[:150]}`", None)
