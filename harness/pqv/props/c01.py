"""C01: all bosonic simulators agree on photon-number statistics (partial).
proof: PqVerif.Props.C01 — the particle-number-block recurrence of the Fock simulators (model FockRep) equals the
permanent formula (Laplace expansion with multiplicities), i.e. PureFock / Fock / Passive agree on every passive
circuit; Gaussian updates are symplectic congruences (C07); number-conserving gates never mix represented and
unrepresented sectors.  Not proved: agreement of ACTIVE gates in Fock space with the Gaussian picture (metaplectic
representation) — correspondence only.
tie: real simulators vs the exact permanent spec on passive programs; search: direct cross-simulator comparison
on the exactly represented fragment (passive programs with number-state inputs; one layer of active gates on the
vacuum followed by passive gates; Kerr-type gates; attenuation), every hbar, cutoffs 1..6."""
import numpy as np
from pqv.props.c07 import haar
from pqv.props.c04 import perm_def

THEOREMS = ["Pq.C01.fockRep_eq_permSpec", "Pq.C01.passive_amplitude_formula", "Pq.C01.gauss_passive_is_congruence",
            "Pq.C01.number_conserving_block_structure", "Pq.C01.displacement_loop", "Pq.C01.squeezing_loop",
            "Pq.C01.displacement_heisenberg", "Pq.C01.squeezing_heisenberg"]
FILES = ["PqVerif/Model/FockRep.lean", "PqVerif/Lemmas/FockRepLaws.lean", "PqVerif/Lemmas/PermSpec.lean", "PqVerif/Lemmas/Glynn.lean",
         "PqVerif/Lemmas/GradLaws.lean", "PqVerif/Lemmas/DispRec.lean", "PqVerif/Lemmas/SqueezeRec.lean", "PqVerif/Lemmas/Intertwine.lean",
         "PqVerif/Gen/Gates.lean", "PqVerif/Props/C01.lean"]
HBARS = [0.5, 1.0, 2.0, 3.7]


def passive_gate(pq, rng, d):
    u = lambda a, b: float(rng.uniform(a, b))
    k2 = d >= 2 and rng.random() < 0.6
    if k2:
        modes = tuple(int(x) for x in rng.choice(d, size=2, replace=False))
        c = int(rng.integers(0, 4))
        return [lambda: pq.Beamsplitter(theta=u(0, 1.5), phi=u(0, 3)), lambda: pq.Beamsplitter5050(),
                lambda: pq.MachZehnder(int_=u(0, 3), ext=u(0, 3)), lambda: pq.Interferometer(haar(rng, 2))][c](), modes
    if d >= 3 and rng.random() < 0.2:
        modes = tuple(int(x) for x in rng.choice(d, size=3, replace=False))
        return pq.Interferometer(haar(rng, 3)), modes
    modes = (int(rng.integers(0, d)),)
    return (pq.Phaseshifter(phi=u(0, 3)) if rng.random() < 0.7 else pq.Fourier()), modes


def unitary_of(pq, gates, d):
    from piquasso._simulators.connectors import NumpyConnector
    conn, cfg = NumpyConnector(), pq.Config()
    U = np.eye(d, dtype=complex)
    for g, modes in gates:
        E = np.eye(d, dtype=complex)
        E[np.ix_(modes, modes)] = np.asarray(g._get_passive_block(conn, cfg))
        U = E @ U
    return U


def passive_family(ctx, n):
    import piquasso as pq
    from piquasso._math.fock import get_fock_space_basis
    from math import factorial
    rng = np.random.default_rng(ctx.seed + 1)
    fails = []
    for it in range(n):
        d = int(rng.integers(1, 5))
        cutoff = int(rng.integers(1, 7))
        occ = [0] * d
        for _ in range(int(rng.integers(0, cutoff))):
            occ[int(rng.integers(0, d))] += 1
        ntot = sum(occ)
        if ntot >= cutoff:
            continue
        hbar = float(rng.choice(HBARS))
        gates = [passive_gate(pq, rng, d) for _ in range(int(rng.integers(1, 5)))]
        kerr = []
        desc = {"d": d, "cutoff": cutoff, "occ": occ, "hbar": hbar, "gates": [(type(g).__name__, m) for g, m in gates]}
        nontriv = any(list(m) != sorted(m) for _, m in gates) or max(occ + [0]) >= 2

        def prog(sim):
            ins = []
            if sim == "Fock":
                ins.append(pq.Vacuum())
                for m, k in enumerate(occ):
                    for _ in range(k):
                        ins.append(pq.Create().on_modes(m))
            else:
                ins.append(pq.StateVector(tuple(occ)).on_modes(*range(d)))
            for g, modes in gates:
                ins.append(type(g)(**g.params).on_modes(*modes))
            return pq.Program(instructions=ins)
        cfg = lambda: pq.Config(cutoff=cutoff, hbar=hbar)
        res = {}
        try:
            res["PureFock"] = pq.PureFockSimulator(d=d, config=cfg()).execute(prog("PureFock")).state
            res["Fock"] = pq.FockSimulator(d=d, config=cfg()).execute(prog("Fock")).state
            res["Passive"] = pq.PassiveSimulator(d=d, config=cfg()).execute(prog("Passive")).state
        except Exception as e:
            fails.append((f"passive-raise:{type(e).__name__}", f"passive program raised {type(e).__name__}: {str(e)[:120]}", desc)); continue
        ctx.count(("passive", it), nontrivial=nontriv, sample=desc if nontriv and len(ctx.samples) < 3 else None)
        basis = [tuple(int(x) for x in b) for b in get_fock_space_basis(d=d, cutoff=cutoff)]
        # specification: amplitude(out) = perm(U[out, in]) / sqrt(out! in!)
        U = unitary_of(pq, gates, d)
        spec = np.zeros(len(basis), dtype=complex)
        norm_in = np.prod([factorial(k) for k in occ])
        if ntot <= 4 and d <= 4:
            for i, out in enumerate(basis):
                if sum(out) == ntot:
                    spec[i] = perm_def(U.tolist(), list(out), occ) / np.sqrt(norm_in * np.prod([factorial(k) for k in out]))
            sv = np.asarray(res["PureFock"].state_vector)
            if np.abs(sv - spec).max() > 1e-9:
                fails.append(("purefock-vs-permanent", f"PureFock state vector differs from perm(U[out,in])/sqrt(out! in!) by {np.abs(sv - spec).max():.2e}", desc))
        p_pure = np.asarray(res["PureFock"].fock_probabilities)
        p_fock = np.asarray(res["Fock"].fock_probabilities)
        p_pass = np.asarray(res["Passive"].fock_probabilities)
        for a, b, nm in ((p_pure, p_fock, "PureFock vs Fock"), (p_pure, p_pass, "PureFock vs Passive")):
            if a.shape != b.shape or np.abs(a - b).max() > 1e-9:
                fails.append((f"passive-probabilities:{nm}", f"{nm}: photon-number probabilities differ by {np.abs(a - b).max() if a.shape == b.shape else 'shape'} on a passive program", desc))
        try:
            sv_pass = np.asarray(res["Passive"].state_vector)
            sv = np.asarray(res["PureFock"].state_vector)
            if sv_pass.shape == sv.shape and np.abs(sv_pass - sv).max() > 1e-9:
                fails.append(("passive-state-vector", f"PassiveState.state_vector differs from PureFock's by {np.abs(sv_pass - sv).max():.2e}", desc))
        except Exception:
            pass
        dm = np.asarray(res["Fock"].density_matrix)
        sv = np.asarray(res["PureFock"].state_vector)
        if dm.shape == (len(sv), len(sv)) and np.abs(dm - np.outer(sv, sv.conj())).max() > 1e-9:
            fails.append(("fock-density-matrix", "FockSimulator density matrix differs from |psi><psi| of PureFock", desc))
        for occ_probe in basis[:: max(1, len(basis) // 5)]:
            vals = [float(np.real(res[s].get_particle_detection_probability(occ_probe))) for s in res]
            if max(vals) - min(vals) > 1e-9:
                fails.append(("particle-detection-probability", f"get_particle_detection_probability({occ_probe}) differs between simulators: {vals}", desc)); break
    return fails


def active_family(ctx, n):
    import piquasso as pq
    rng = np.random.default_rng(ctx.seed + 101)
    fails = []
    for it in range(n):
        d = int(rng.integers(1, 4))
        cutoff = int(rng.integers(1, 7))
        hbar = float(rng.choice(HBARS))
        u = lambda a, b: float(rng.uniform(a, b))
        layer = []
        free = list(range(d))
        rng.shuffle(free)
        while free:
            c = int(rng.integers(0, 5))
            if c == 4 and len(free) >= 2:
                a, b = free.pop(), free.pop()
                layer.append((pq.Squeezing2(r=u(0.05, 0.4), phi=u(0, 3)), (a, b)))
            else:
                m = free.pop()
                g = [lambda: pq.Squeezing(r=u(0.05, 0.5), phi=u(0, 3)), lambda: pq.Displacement(r=u(0.05, 0.6), phi=u(0, 3)),
                     lambda: pq.QuadraticPhase(s=u(0.05, 0.4)), lambda: pq.PositionDisplacement(x=u(0.05, 0.5)), lambda: None][c % 5]()
                if g is not None:
                    layer.append((g, (m,)))
        gates = [passive_gate(pq, rng, d) for _ in range(int(rng.integers(0, 4)))]
        desc = {"d": d, "cutoff": cutoff, "hbar": hbar, "layer": [(type(g).__name__, m) for g, m in layer], "gates": [(type(g).__name__, m) for g, m in gates]}

        def prog():
            ins = [pq.Vacuum()]
            for g, modes in layer + gates:
                ins.append(type(g)(**g.params).on_modes(*modes))
            return pq.Program(instructions=ins)
        try:
            states = {nm: cls(d=d, config=pq.Config(cutoff=cutoff, hbar=hbar)).execute(prog()).state
                      for nm, cls in (("Gaussian", pq.GaussianSimulator), ("PureFock", pq.PureFockSimulator), ("Fock", pq.FockSimulator))}
        except Exception as e:
            fails.append((f"active-raise:{type(e).__name__}", f"{type(e).__name__}: {str(e)[:120]}", desc)); continue
        ctx.count(("active", it), nontrivial=len(layer) >= 1 and len(gates) >= 1)
        pg = np.asarray(states["Gaussian"].fock_probabilities)
        for nm in ("PureFock", "Fock"):
            pf = np.asarray(states[nm].fock_probabilities)
            if pg.shape != pf.shape or np.abs(pg - pf).max() > 1e-8:
                fails.append((f"active-probabilities:Gaussian vs {nm}", f"Gaussian vs {nm}: photon-number probabilities differ by {np.abs(pg - pf).max() if pg.shape == pf.shape else 'shape'} (one layer of active gates on the vacuum, then passive gates)", desc))
        try:
            dg = np.asarray(states["Gaussian"].density_matrix)
            df = np.asarray(states["Fock"].density_matrix)
            if dg.shape == df.shape and np.abs(dg - df).max() > 1e-8:
                fails.append(("active-density-matrix", f"Gaussian vs Fock density matrix differ by {np.abs(dg - df).max():.2e}", desc))
        except Exception as e:
            fails.append((f"density-matrix-raise:{type(e).__name__}", f"density_matrix raised {type(e).__name__}: {str(e)[:100]}", desc))
    return fails


def entangled_active_family(ctx, n):
    """active gates (also with complex blocks) acting on modes that are already correlated with spectator modes:
    the Gaussian simulator is exact on every sector; the pure Fock simulator is run with a cutoff so large that the
    truncation error on the compared low sectors is negligible (weak squeezing)"""
    import piquasso as pq
    from piquasso._math.fock import get_fock_space_basis
    rng = np.random.default_rng(ctx.seed + 10101)
    fails = []
    for it in range(n):
        d = int(rng.integers(2, 4))
        hbar = float(rng.choice(HBARS))
        u = lambda a, b: float(rng.uniform(a, b))
        gates = []
        for _ in range(int(rng.integers(3, 6))):
            c = int(rng.integers(0, 6))
            a, b = (int(x) for x in rng.choice(d, size=2, replace=False))
            gates.append([lambda: (pq.Squeezing(r=u(0.05, 0.22), phi=u(0, 6.2)), (a,)), lambda: (pq.Beamsplitter(theta=u(0.2, 1.4), phi=u(0, 6.2)), (a, b)),
                          lambda: (pq.Squeezing2(r=u(0.05, 0.18), phi=u(0, 6.2)), (a, b)), lambda: (pq.QuadraticPhase(s=u(-0.25, 0.25)), (a,)),
                          lambda: (pq.Displacement(r=u(0.05, 0.25), phi=u(0, 6.2)), (a,)), lambda: (pq.Phaseshifter(phi=u(0, 6.2)), (a,))][c]())
        desc = {"d": d, "hbar": hbar, "gates": [(type(g).__name__, {k: float(v) for k, v in g.params.items()}, m) for g, m in gates]}

        def prog():
            return pq.Program(instructions=[pq.Vacuum()] + [type(g)(**g.params).on_modes(*m) for g, m in gates])
        low, big = 4, 13 if d == 2 else 11
        try:
            sg = pq.GaussianSimulator(d=d, config=pq.Config(cutoff=low, hbar=hbar)).execute(prog()).state
            sf = pq.PureFockSimulator(d=d, config=pq.Config(cutoff=big, hbar=hbar)).execute(prog()).state
        except Exception as e:
            fails.append((f"entangled-active-raise:{type(e).__name__}", f"{type(e).__name__}: {str(e)[:120]}", desc)); continue
        active_after_entangling = any(type(g).__name__ in ("Squeezing", "Squeezing2", "QuadraticPhase") for g, _ in gates[2:]) and any(len(m) == 2 for _, m in gates[:-1])
        ctx.count(("entangled-active", it), nontrivial=active_after_entangling)
        deficit = 1.0 - float(np.real(sf.norm))
        worst, where = 0.0, None
        for occ in get_fock_space_basis(d=d, cutoff=low):
            pg = float(np.real(sg.get_particle_detection_probability(tuple(int(x) for x in occ))))
            pf = float(np.real(sf.get_particle_detection_probability(tuple(int(x) for x in occ))))
            if abs(pg - pf) > worst:
                worst, where = abs(pg - pf), (tuple(int(x) for x in occ), pg, pf)
        if worst > 1e-6 + 10 * abs(deficit):
            fails.append(("entangled-active-probabilities", f"Gaussian vs PureFock (cutoff {big}) on the low sectors: P{where[0]} = {where[1]:.8f} vs {where[2]:.8f} (norm deficit of the Fock state {deficit:.1e})", desc))
    return fails


def kerr_family(ctx, n):
    """Kerr-type gates and attenuation: PureFock vs Fock (and Passive for Kerr on number states)"""
    import piquasso as pq
    rng = np.random.default_rng(ctx.seed + 1001)
    fails = []
    for it in range(n):
        d = int(rng.integers(1, 4)); cutoff = int(rng.integers(2, 6))
        occ = [0] * d
        for _ in range(int(rng.integers(0, cutoff))):
            occ[int(rng.integers(0, d))] += 1
        if sum(occ) >= cutoff:
            continue
        u = lambda a, b: float(rng.uniform(a, b))
        gates = []
        for _ in range(int(rng.integers(1, 5))):
            c = int(rng.integers(0, 3))
            if c == 0:
                gates.append((pq.Kerr(xi=u(0, 2)), (int(rng.integers(0, d)),)))
            elif c == 1 and d >= 2:
                gates.append((pq.CrossKerr(xi=u(0, 2)), tuple(int(x) for x in rng.choice(d, size=2, replace=False))))
            else:
                gates.append(passive_gate(pq, rng, d))
        desc = {"d": d, "cutoff": cutoff, "occ": occ, "gates": [(type(g).__name__, m) for g, m in gates]}

        def prog(sim):
            ins = [pq.Vacuum()] + [pq.Create().on_modes(m) for m, k in enumerate(occ) for _ in range(k)] if sim == "Fock" else [pq.StateVector(tuple(occ)).on_modes(*range(d))]
            for g, modes in gates:
                ins.append(type(g)(**g.params).on_modes(*modes))
            return pq.Program(instructions=ins)
        try:
            a = pq.PureFockSimulator(d=d, config=pq.Config(cutoff=cutoff)).execute(prog("PureFock")).state
            b = pq.FockSimulator(d=d, config=pq.Config(cutoff=cutoff)).execute(prog("Fock")).state
            c_ = pq.PassiveSimulator(d=d, config=pq.Config(cutoff=cutoff)).execute(prog("Passive")).state
        except Exception as e:
            fails.append((f"kerr-raise:{type(e).__name__}", f"{type(e).__name__}: {str(e)[:120]}", desc)); continue
        ctx.count(("kerr", it), nontrivial=True)
        sv = np.asarray(a.state_vector)
        if np.abs(np.asarray(b.density_matrix) - np.outer(sv, sv.conj())).max() > 1e-9:
            fails.append(("kerr:PureFock vs Fock", "Kerr-type program: Fock density matrix differs from |psi><psi| of PureFock", desc))
        if np.abs(np.asarray(c_.fock_probabilities) - np.asarray(a.fock_probabilities)).max() > 1e-9:
            fails.append(("kerr:PureFock vs Passive", "Kerr-type program: Passive probabilities differ from PureFock", desc))
    return fails


def fockrep_correspondence(ctx, n):
    """real calculate_interferometer_on_fock_space (numba version and the generic connector version) vs Model/FockRep"""
    from math import factorial
    from fractions import Fraction
    from piquasso._simulators.fock.simulation_steps import calculate_interferometer_helper_indices
    from piquasso._simulators.connectors import NumpyConnector
    from piquasso._simulators.connectors.connector import BuiltinConnector
    from piquasso._math.combinatorics import partitions
    from pqv.props.c07 import qi
    rng = np.random.default_rng(ctx.seed + 10001)
    conn = NumpyConnector()
    lines, metas = [], []
    for it in range(n):
        d = int(rng.integers(1, 4)); cutoff = int(rng.integers(1, 6))
        U = (rng.integers(-4, 5, size=(d, d)) + 1j * rng.integers(-4, 5, size=(d, d))) / 4.0
        idx = calculate_interferometer_helper_indices(d=d, cutoff=cutoff)
        reps = conn.calculate_interferometer_on_fock_space(U.copy(), idx)
        reps2 = BuiltinConnector.calculate_interferometer_on_fock_space(conn, U.copy(), idx)
        for nn in range(min(cutoff, len(reps))):
            sector = [tuple(int(x) for x in r) for r in partitions(d, nn)]
            norm = np.array([[np.sqrt(np.prod([factorial(k) for k in m]) * np.prod([factorial(k) for k in v])) for v in sector] for m in sector])
            lines.append(f"fockrep {d} {nn} " + ",".join(qi(z) for z in U.reshape(-1)))
            metas.append((np.asarray(reps[nn]) * norm, np.asarray(reps2[nn]) * norm, d, nn))
    outs = ctx.lean_run(lines)
    mism = []
    for l, (r1, r2, d, nn), o in zip(lines, metas, outs):
        ctx.count(l[:120], nontrivial=nn >= 2 and d >= 2)
        try:
            M = np.array([[complex(float(Fraction(t.split(";")[0])), float(Fraction(t.split(";")[1]))) for t in row.split(",")] for row in o.split(" ")])
        except Exception:
            mism.append((l[:100], "unparsable", o[:80])); continue
        for nm, r in (("numba", r1), ("generic", r2)):
            if M.shape != r.shape or np.abs(M - r).max() > 1e-9 * (1 + np.abs(M).max()):
                mism.append((l[:100], f"{nm} recurrence block n={nn} differs from the model by {np.abs(M - r).max() if M.shape == r.shape else 'shape'}", "")); break
    return mism


def run(ctx):
    quick = ctx.tier == "quick"
    n_p, n_a, n_k = (60, 40, 25) if quick else (1500, 1000, 500)
    ctx.rule = ("passive programs (all passive gates, any mode subset/order, d<=4, cutoff 1..6, bunched number-state inputs) on PureFock, "
                "Fock, Passive vs each other and vs perm(U[out,in])/sqrt(out! in!); one layer of active gates on the vacuum + passive gates "
                "on Gaussian, PureFock, Fock (probabilities, density matrix) for hbar in {0.5,1,2,3.7}; Kerr-type programs; "
                "non-trivial = non-ascending mode tuple or bunched input / active layer followed by passive gates")
    ctx.assumptions = ["agreement of active gates beyond one layer on the vacuum is limited by truncation and is not claimed",
                       "the metaplectic representation theorem (active gates in Fock space = symplectic action) is not formalised"]
    from pqv import gengates
    gengates.regenerate(ctx)      # Props/C01 mentions the blocks of Gen/Gates.lean
    ctx.prove("PqVerif.Props.C01", THEOREMS, FILES)
    import glob, os, subprocess, sys
    for f in sorted(glob.glob(os.path.join(os.path.dirname(__file__), "..", "..", "..", "corpus", "repro", "c16_passive*.py"))):
        p = subprocess.run([sys.executable, f], capture_output=True, text=True, cwd=os.environ.get("PQ_REPO", "/repo"))
        ctx.count("repro:" + os.path.basename(f), True)
        if p.returncode != 0:
            ctx.fail("repro:" + os.path.basename(f), "pinned regression fails: " + p.stdout[-300:], {"script": f})
    mism = fockrep_correspondence(ctx, 25 if quick else 400)
    fails = passive_family(ctx, n_p) + active_family(ctx, n_a) + kerr_family(ctx, n_k) + entangled_active_family(ctx, 30 if quick else 600)
    ctx.notes["correspondence_mismatches"] = len(mism)
    seen = set()
    for key, msg, inp in fails:
        if key not in seen:
            seen.add(key)
            ctx.fail(key, msg, inp)
    if mism:
        ctx.notes["first_mismatches"] = [dict(op=m[0], what=m[1]) for m in mism[:5]]
        ctx.broken.append("correspondence:Model/FockRep vs calculate_interferometer_on_fock_space")
        if not ctx.violations:
            ctx.fail("correspondence:fockrep", f"{mism[0][1]} on `{mism[0][0]}`", None)
