"""C12: execution never modifies what the caller passed in, even on failure.
proof: PqVerif.Props.C12 (execute_frame for every oracle = every fault schedule; idempotence);
tie: scripted engine with a fault injected at every instruction position x stage, heap compared with the
Lean model; search: real simulators with injected exceptions, repeated executions, array arguments."""
import copy
import os
import random
import numpy as np

THEOREMS = ["Pq.C12.execute_frame", "Pq.C12.execute_idempotent", "Pq.C12.rejected_request_frame"]
FILES = ["PqVerif/Model/Engine.lean", "PqVerif/Lemmas/EngineInv.lean", "PqVerif/Props/C12.lean"]


def heap_is_pristine(line):
    """`heap [..]{a=U,..} ...`: every parameter still the user's object (modes are compared by the caller)"""
    h = line.split(" | heap ")[1].split(" | calls")[0]
    return "=R" not in h


def scripted(ctx, n_programs):
    from pqv import engine, enginegen
    items = []
    for _ in range(n_programs):
        base = enginegen.gen_valid(ctx.rng)
        variants = [base]
        # a fault at every instruction position x stage
        for pos in range(len(base["program"])):
            for stage in ("step", "resolve", "cond", "validate"):
                q = copy.deepcopy(base)
                ins = q["program"][pos]
                if stage == "step":
                    ins["params"] = ins["params"] + [("fault", "c", pos + 1)]
                elif stage == "validate":
                    ins["params"] = ins["params"] + [("invalid", "e", "1")]
                elif stage == "resolve":
                    ins["params"] = ins["params"] + [("z", "e", ctx.rng.choice(["x[99]", "1 / 0", "x[0][0][0]"]))]
                else:
                    if ins["cond"] is not None:
                        continue
                    ins["cond"] = ctx.rng.choice(["x[99] == 1", "1 / 0", "x < 1"])
                q["fault"] = (pos, stage)
                variants.append(q)
        # an invalid request (validation failure) must not touch anything either
        m = enginegen.mutate_request(ctx.rng, base, ctx.rng.choice(enginegen.MUTATIONS))
        if m is not None:
            variants.append(m)
        items += variants
    lines, reals = [], []
    for req in items:
        uc = ctx.rng.random() < 0.3
        line, extra = engine.run_real(req, use_callables=uc)
        # direct statement on the real objects: modes and params are the caller's
        prog = extra["program"]
        for ins, orig in zip(prog.instructions, extra["originals"]):
            same_modes = tuple(ins.modes) == tuple(orig["modes"])
            same_params = list(ins.params.keys()) == list(orig["params"].keys()) and all(
                ins.params[k] is orig["params"][k] or (type(ins.params[k]) is type(orig["params"][k]) and not callable(ins.params[k]) and ins.params[k] == orig["params"][k])
                for k in orig["params"])
            if not (same_modes and same_params):
                ctx.fail("scripted-heap:" + engine.ser_request(req),
                         f"after execute ({'raised' if 'exception' in extra else 'returned'}) instruction {type(ins).__name__} has modes "
                         f"{ins.modes} params {ins.params}; caller passed modes {orig['modes']} params {orig['params']}",
                         {"request": engine.ser_request(req), "real": line})
                break
        # re-execution gives the same outcome
        if "fault" not in req and "mutation" not in req:
            sim = engine.FakeSim(d=req["simd"], config=engine.Config(seed_sequence=123))
            try:
                r2 = sim.execute(prog, shots=req["shots"])
                line2 = "ok " + " ; ".join(engine.show_branch(b) for b in r2.branches)
            except Exception as e:
                line2 = "err " + engine.canon_exc(e)
            if line2 != line.split(" | heap")[0]:
                ctx.fail("scripted-reexec:" + engine.ser_request(req), "re-executing the same Program object gives a different outcome",
                         {"request": engine.ser_request(req), "first": line, "second": line2})
        lines.append(engine.ser_request(req)); reals.append(line)
    outs = ctx.lean_run(lines)
    mism = []
    dist = {"faults": 0, "mutations": 0, "plain": 0, "raised": 0}
    for req, pl, line, got in zip(items, lines, reals, outs):
        dist["faults" if "fault" in req else "mutations" if "mutation" in req else "plain"] += 1
        dist["raised"] += line.startswith("err")
        ctx.count(pl, nontrivial=("fault" in req and line.startswith("err")),
                  sample={"request": pl[:300], "real": line[:200]} if "fault" in req and len(ctx.samples) < 4 else None)
        if line != got:
            mism.append((pl, line, got))
    return mism, dist


def snapshot_program(program):
    return [(type(i).__name__, tuple(i.modes),
             [(k, type(v).__name__, v.tobytes() if isinstance(v, np.ndarray) else (id(v) if callable(v) else repr(v)))
              for k, v in i.params.items()],
             id(i._condition) if i._condition is not None else None) for i in program.instructions], [id(i) for i in program.instructions]


def snapshot_state(state):
    out = {}
    for k, v in state.__dict__.items():
        if isinstance(v, np.ndarray):
            out[k] = v.tobytes()
        elif isinstance(v, (int, float, complex, tuple, str, type(None))):
            out[k] = v
    return out


def snapshot_config(c):
    return {k: (repr(v) if k != "rng" else "rng") for k, v in c.__dict__.items()}


def real_simulators(ctx, n):
    import piquasso as pq
    rng = ctx.rng
    fails = []
    for it in range(n):
        d = 3
        sim_name = rng.choice(["purefock", "fock", "gaussian", "passive"])
        arr = np.array([[0.6, 0.8j], [0.8j, 0.6]])
        with pq.Program() as p:
            if sim_name == "gaussian":
                pq.Q(0) | pq.Squeezing(r=0.2)
            else:
                pq.Q(0, 1, 2) | pq.StateVector([1, 1, 0])
            pq.Q(2, 0) | pq.Beamsplitter(theta=rng.uniform(0, 1), phi=0.3)
            pq.Q(1, 2) | pq.Interferometer(arr)
            if sim_name != "gaussian":
                pq.Q(1) | pq.ParticleNumberMeasurement()
                if sim_name != "passive":
                    pq.Q(2) | pq.Phaseshifter(phi="x[0] * 0.25")
                    pq.Q(0, 2) | pq.Beamsplitter(theta=lambda x: 0.1 + x[-1]).when("x[0] < 2")
            pq.Q() | pq.ParticleNumberMeasurement()
        user_config = pq.Config(cutoff=4, seed_sequence=rng.randint(1, 10 ** 6), measurement_cutoff=3)
        cls = {"purefock": pq.PureFockSimulator, "fock": pq.FockSimulator, "gaussian": pq.GaussianSimulator,
               "passive": pq.PassiveSimulator}[sim_name]
        sim = cls(d=d, config=user_config)
        init = sim.create_initial_state(d)
        n_instr = len(p.instructions)
        fault_at = rng.randint(0, n_instr)  # n_instr = no fault
        orig_map = dict(cls._instruction_map)
        counter = {"n": 0}

        def wrap(f):
            def g(*a, **k):
                counter["n"] += 1
                if counter["n"] - 1 == fault_at:
                    raise RuntimeError("injected")
                return f(*a, **k)
            return g
        before = (snapshot_program(p), snapshot_state(init), snapshot_config(user_config), arr.tobytes())
        cls._instruction_map = {k: wrap(v) for k, v in orig_map.items()}
        raised = None
        try:
            try:
                sim.execute(p, shots=rng.choice([1, 4]), initial_state=init)
            except Exception as e:
                raised = type(e).__name__
        finally:
            cls._instruction_map = orig_map
        after = (snapshot_program(p), snapshot_state(init), snapshot_config(user_config), arr.tobytes())
        ctx.count(f"real:{sim_name}:{fault_at}:{it}", nontrivial=raised is not None)
        names = ["program instructions", "initial_state", "user Config", "array argument"]
        for nm, b, a in zip(names, before, after):
            if a != b:
                fails.append((f"real-frame:{sim_name}:{nm}:fault{fault_at if raised else 'none'}",
                              f"{sim_name}: {nm} changed by execute ({'raised ' + raised if raised else 'returned'})",
                              {"sim": sim_name, "fault_at_step": fault_at, "what": nm, "before": repr(b)[:400], "after": repr(a)[:400]}))
        # validate / copy / export leave the program alone
        b2 = snapshot_program(p)
        try:
            sim.validate(p); p.copy(); pq.as_code(p, sim) if all(i._condition is None and not i._unresolved_params for i in p.instructions) else None
        except Exception:
            pass
        if snapshot_program(p) != b2:
            fails.append((f"real-frame:{sim_name}:validate-copy-export", "validate/copy/as_code modified the program", {"sim": sim_name}))
    return fails


def array_params(ctx, rounds):
    """every instruction that takes an array: the caller's ndarray is bitwise the same after execute (shots or exact), on
    every simulator that supports the instruction; arrays are random, in the simulator's own dtype (so that no conversion
    hides an in-place write) and deliberately NOT pretty: column-stochastic matrices are `M / M.sum(0)` (sums off by an ulp)"""
    import warnings
    import piquasso as pq
    from pqv.props.c07 import haar
    fails = []
    skipped = {}
    rng = np.random.default_rng(ctx.seed + 1212)

    def stochastic(k):
        M = np.triu(rng.uniform(0.05, 1.0, size=(k, k)))      # detected <= actual photon number
        return M / M.sum(axis=0)

    def rounded_stochastic(k):
        return np.round(stochastic(k), 9)      # column sums 1 +- 1e-9: accepted by the validation

    def sympl(d):
        r = rng.uniform(0.1, 0.4, size=d); U, V = haar(rng, d), haar(rng, d)
        return U @ np.diag(np.cosh(r)) @ V, U @ np.diag(np.sinh(r)) @ V.conj()

    def cases():
        d = 3
        U = haar(rng, d)
        sv = lambda: pq.StateVector([1, 1, 0])
        for simname, cls in (("purefock", pq.PureFockSimulator), ("fock", pq.FockSimulator), ("passive", pq.PassiveSimulator), ("gaussian", pq.GaussianSimulator)):
            prep = (lambda: [(pq.Vacuum(), ()), (pq.Squeezing(r=0.3), (0,)), (pq.Displacement(r=0.4, phi=0.3), (1,))]) if simname == "gaussian" else \
                   (lambda: [(pq.DensityMatrix(ket=(1, 1, 0), bra=(1, 1, 0)), (0, 1, 2))]) if simname == "fock" else (lambda: [(sv(), (0, 1, 2))])
            yield simname, cls, "Interferometer", prep, lambda: ([U.copy()], lambda a: [(pq.Interferometer(a[0]), (0, 1, 2))]), (None, 5)
            for nm, mk in (("ImperfectPNM", stochastic), ("ImperfectPNM-rounded", rounded_stochastic)):
                yield simname, cls, nm, prep, (lambda mk=mk: ([mk(4)], lambda a: [(pq.ImperfectParticleNumberMeasurement(a[0]), (0, 1))])), (7, 30)
            if simname in ("purefock", "fock", "gaussian"):
                yield simname, cls, "GaussianTransform", prep, lambda: (list(sympl(2)), lambda a: [(pq.GaussianTransform(passive=a[0], active=a[1]), (0, 2))]), (None, 4)
            if simname == "gaussian":
                A = rng.integers(0, 2, size=(3, 3)).astype(float); A = np.triu(A, 1); A = A + A.T
                A[0, 1] = A[1, 0] = 1.0
                yield simname, cls, "Graph", (lambda: []), lambda A=A: ([A.copy()], lambda a: [(pq.Graph(a[0]), (0, 1, 2))]), (None, 4)
                yield simname, cls, "Mean+Covariance", (lambda: [(pq.Vacuum(), ())]), lambda: ([rng.normal(size=6), (lambda B: B @ B.T + 2 * np.eye(6))(rng.normal(size=(6, 6)) * 0.3)],
                                                                             lambda a: [(pq.Mean(a[0]), ()), (pq.Covariance(a[1]), ())]), (None, 4)
                yield simname, cls, "DeterministicGaussianChannel", prep, lambda: ([np.eye(2) * 0.5, np.eye(2) * 1.5], lambda a: [(pq.DeterministicGaussianChannel(X=a[0], Y=a[1]), (1,))]), (None, 4)
                yield simname, cls, "Generaldyne", prep, lambda: ([np.array([[1.3, 0.2], [0.2, 0.9]])], lambda a: [(pq.GeneraldyneMeasurement(detection_covariance=a[0]), (0,))]), (6,)
            if simname == "passive":
                yield simname, cls, "Loss", prep, lambda: ([rng.uniform(0.3, 0.95, size=1), rng.uniform(0.3, 0.95, size=1)], lambda a: [(pq.Loss(transmissivity=a[0]), (0,)), (pq.Loss(transmissivity=a[1]), (2,)), (pq.ParticleNumberMeasurement(), ())]), (6,)
                yield simname, cls, "LossyInterferometer", prep, lambda: ([haar(rng, 3) @ np.diag(rng.uniform(0.3, 0.95, size=3)) @ haar(rng, 3)],
                                                                         lambda a: [(pq.LossyInterferometer(a[0]), (0, 1, 2)), (pq.ParticleNumberMeasurement(), ())]), (6,)
                yield simname, cls, "ImperfectPostSelect", prep, lambda: ([stochastic(4)], lambda a: [(pq.Interferometer(U), (0, 1, 2)), (pq.ImperfectPostSelectPhotons(photon_counts=(1,), detector_efficiency_matrix=a[0]), (2,))]), (6,)
            if simname == "fock":
                yield simname, cls, "Kerr-array-free", prep, lambda: ([U.copy()], lambda a: [(pq.Interferometer(a[0]), (0, 1, 2)), (pq.Kerr(xi=0.2), (1,))]), (None, 3)

    for r in range(rounds):
        for simname, cls, name, prep, mk, shot_list in cases():
            for shots in shot_list:
                arrays, build = mk()
                try:
                    ins = build(arrays)
                    with warnings.catch_warnings():
                        warnings.simplefilter("ignore")
                        prog = pq.Program(instructions=[i.on_modes(*m) for i, m in prep()] + [i.on_modes(*m) for i, m in ins])
                        sim = cls(d=3, config=pq.Config(cutoff=4, measurement_cutoff=4, seed_sequence=int(rng.integers(1, 10 ** 6))))
                        before = [a.tobytes() for a in arrays]
                        sim.execute(prog, shots=shots)
                        mid = [a.tobytes() for a in arrays]
                        sim.execute(prog, shots=shots)      # the same instruction objects once more
                        after = [a.tobytes() for a in arrays]
                except Exception as e:
                    skipped[f"{simname}:{name}:{shots}"] = f"{type(e).__name__}: {str(e)[:80]}"
                    continue
                ctx.count(("array", simname, name, shots, r), nontrivial=True)
                for k, (b, m, a) in enumerate(zip(before, mid, after)):
                    if b != m or b != a:
                        old = np.frombuffer(b, dtype=arrays[k].dtype).reshape(arrays[k].shape)
                        delta = float(np.abs(arrays[k] - old).max())
                        fails.append((f"array-argument:{simname}:{name}", f"{simname}: the caller's array #{k} of {name} was modified by execute(shots={shots}) (max change {delta:.3g})",
                                      {"sim": simname, "instruction": name, "shots": shots, "array_index": k, "before": old.tolist(), "after": arrays[k].tolist()}))
                        break
    ctx.notes["array_params_skipped"] = skipped
    return fails


def native_arrays(ctx):
    """array arguments handed to the matrix functions stay bit-identical"""
    from piquasso._math.permanent import permanent, permanent_laplace
    from piquasso._math.torontonian import torontonian, loop_torontonian
    from piquasso._math.pfaffian import pfaffian
    from piquasso._math.hafnian import hafnian_with_reduction, loop_hafnian_with_reduction
    rng = np.random.default_rng(ctx.seed + 5)
    fails = []

    def chk(name, f, *arrs):
        copies = [a.copy() for a in arrs]
        try:
            f(*arrs)
        except Exception as e:
            return
        for i, (a, c) in enumerate(zip(arrs, copies)):
            ctx.count(f"native:{name}:{i}:{a.shape}:{a.flags['C_CONTIGUOUS']}", nontrivial=True)
            if a.tobytes() != c.tobytes():
                fails.append((f"native-array:{name}:arg{i}", f"{name} modified its argument {i} in place",
                              {"function": name, "arg": i, "shape": a.shape, "contiguous": bool(a.flags['C_CONTIGUOUS']),
                               "before": c.tolist(), "after": a.tolist()}))
    for n in (2, 3, 4):
        for strided in (False, True):
            A = rng.normal(size=(n, n)) + 1j * rng.normal(size=(n, n))
            big = np.zeros((2 * n, 2 * n), dtype=complex); big[::2, ::2] = A
            Ac = big[::2, ::2] if strided else A
            rows = rng.integers(0, 3, size=n).astype(np.int64); cols = rows.copy(); rng.shuffle(cols)
            chk("permanent", permanent, Ac, rows, cols)
            chk("permanent_laplace", permanent_laplace, Ac, rows, cols)
            S = A + A.T
            chk("hafnian_with_reduction", hafnian_with_reduction, S, rows)
            chk("loop_hafnian_with_reduction", loop_hafnian_with_reduction, S, np.diag(S).copy(), rows)
            m = 2 * (n // 2) or 2
            R = rng.normal(size=(2 * m, 2 * m)); R = R - R.T
            chk("pfaffian", pfaffian, R)
            X = rng.normal(size=(2 * n, 2 * n)); X = 0.05 * (X + X.T)
            chk("torontonian", torontonian, X)
            chk("loop_torontonian", loop_torontonian, X, rng.normal(size=2 * n))
    return fails


def run(ctx):
    quick = ctx.tier == "quick"
    n_prog, n_real = (25, 40) if quick else (400, 400)
    ctx.rule = ("scripted programs x a fault injected at every instruction position x stage (step / parameter "
                "resolution / condition) + one invalid request each, through the real Simulator.execute and the Lean "
                "model; real simulators with an exception injected at a random step; native kernels' array arguments; "
                "non-trivial = the run raised and the heap was compared")
    ctx.assumptions = ["Python object identity modelled as heap cells (modes, params)",
                       "the shared Config.rng state advances by design and is not part of the frame"]
    ctx.prove("PqVerif.Props.C12", THEOREMS, FILES)
    import subprocess, glob, sys
    for f in sorted(glob.glob(os.path.join(os.path.dirname(__file__), "..", "..", "..", "corpus", "repro", "c12_*.py"))):
        p = subprocess.run([sys.executable, f], capture_output=True, text=True, cwd=os.environ.get("PQ_REPO", "/repo"))
        ctx.count("repro:" + os.path.basename(f), True)
        if p.returncode != 0:
            ctx.fail("repro:" + os.path.basename(f), "pinned regression fails: " + p.stdout[-300:], {"script": f, "stdout": p.stdout[-1000:]})
    mism, dist = scripted(ctx, n_prog)
    ctx.notes["input_distribution"] = dist
    ctx.notes["correspondence_mismatches"] = len(mism)
    fails = real_simulators(ctx, n_real) + array_params(ctx, 1 if quick else 12) + native_arrays(ctx)
    seen = set()
    for key, msg, inp in fails:
        if key not in seen:
            seen.add(key)
            ctx.fail(key, msg, inp)
    if mism:
        ctx.notes["first_mismatches"] = [dict(request=m[0][:400], real=m[1][:400], model=m[2][:400]) for m in mism[:5]]
        ctx.broken.append("correspondence:Model/Engine vs Simulator.execute (scripted, faults)")
        if not ctx.violations:
            m = mism[0]
            ctx.fail("correspondence:engine-faults", f"engine model and Simulator.execute differ: real `{m[1][:200]}` model `{m[2][:200]}`", None)
