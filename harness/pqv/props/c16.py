"""C16: relabelling modes relabels the result; disjoint gates commute.
proof: PqVerif.Props.C16 — the index tables through which the Fock simulators address a subset of modes
enumerate every basis vector exactly once for any injective mode tuple in any order; applying a
number-conserving gate through them is the label-level action, which is equivariant under relabelling and
commutes for disjoint supports; for the Gaussian simulator the block update is equivariant and disjoint
gates commute (via the congruence theorem); the engine's active-mode remap is inverse to its inverse.
tie: exhaustive correspondence of the index functions (all injective mode tuples, d<=4, cutoff<=5) and of
the state-vector application with random blocks; search: every real simulator, random programs x label
permutations x swaps of adjacent disjoint instructions."""
import itertools
import numpy as np
from fractions import Fraction
from pqv.core import fmt_list, fmt_rows
from pqv.props.c07 import qi, haar

THEOREMS = ["Pq.C16.indexList_perm", "Pq.C16.projectionIndices_spec", "Pq.C16.applyIndexed_eq_labelled",
            "Pq.C16.applyLabelled_equivariant", "Pq.C16.applyLabelled_comm", "Pq.C16.gauss_equivariant",
            "Pq.C16.gauss_comm_of_disjoint", "Pq.C16.remap_inverse"]
FILES = ["PqVerif/Model/Index.lean", "PqVerif/Model/Comb.lean", "PqVerif/Model/Gauss.lean", "PqVerif/Lemmas/IndexLaws.lean",
         "PqVerif/Lemmas/GaussSym.lean", "PqVerif/Props/C16.lean"]


def table(t):
    return " | ".join(fmt_rows(np.asarray(m).tolist()) if np.asarray(m).size else ("empty" if np.asarray(m).shape[0] == 0 else ";".join("-" for _ in range(np.asarray(m).shape[0]))) for m in t) if len(t) else "none"


def index_functions(ctx, dmax, cmax):
    from piquasso._simulators.fock import simulation_steps as ss
    from piquasso._math.indices import get_auxiliary_modes
    lines, exp = [], []
    for d in range(1, dmax + 1):
        for c in range(1, cmax + 1):
            if ctx.tier == "quick" and d + c > dmax + cmax - 2:
                continue
            for k in range(1, d + 1):
                for modes in itertools.permutations(range(d), k):
                    il = ss.nb_calculate_index_list_for_appling_interferometer(tuple(modes), d, c)
                    lines.append(f"indexlist {fmt_list(modes)} {d} {c}"); exp.append((table(il), list(modes) != sorted(modes)))
                    if k <= 2 and c >= 2:
                        for bv in itertools.product(range(min(c, 3)), repeat=k):
                            if sum(bv) < c:
                                pi = ss.get_projection_operator_indices(d, c, tuple(modes), tuple(bv))
                                lines.append(f"projidx {d} {c} {fmt_list(modes)} {fmt_list(bv)}"); exp.append((fmt_list(pi), list(modes) != sorted(modes)))
            for mode in range(d):
                sl = ss.nb_calculate_state_index_matrix_list(d, c, mode)
                lines.append(f"stateindex {d} {c} {mode}"); exp.append((table(sl), mode != 0))
    outs = ctx.lean_run(lines)
    mism = []
    for l, (e, nt), o in zip(lines, exp, outs):
        ctx.count(l, nontrivial=nt, sample={"op": l, "real": e[:80]} if nt and len(ctx.samples) < 3 else None)
        if e != o:
            mism.append((l, e[:300], o[:300]))
    return mism


def apply_indexed(ctx, n):
    """real `_calculate_state_vector_after_interferometer` with arbitrary (not necessarily unitary) blocks"""
    from piquasso._simulators.fock.pure.simulation_steps.passive_linear import _calculate_state_vector_after_interferometer
    from piquasso._simulators.fock import simulation_steps as ss
    from piquasso._math.fock import cutoff_fock_space_dim, symmetric_subspace_cardinality
    from piquasso._simulators.connectors import NumpyConnector
    rng = np.random.default_rng(ctx.seed + 16)
    conn = NumpyConnector()
    lines, reals = [], []
    for it in range(n):
        d = int(rng.integers(1, 5)); c = int(rng.integers(1, 5))
        k = int(rng.integers(1, d + 1))
        modes = tuple(int(x) for x in rng.permutation(d)[:k])
        dim = int(cutoff_fock_space_dim(cutoff=c, d=d))
        state = (rng.integers(-4, 5, size=dim) + 1j * rng.integers(-4, 5, size=dim)) / 4.0
        blocks = []
        for nn in range(c):
            s = int(symmetric_subspace_cardinality(k, nn))
            blocks.append((rng.integers(-4, 5, size=(s, s)) + 1j * rng.integers(-4, 5, size=(s, s))) / 2.0)
        il = ss.nb_calculate_index_list_for_appling_interferometer(modes, d, c)
        new = _calculate_state_vector_after_interferometer(state.copy(), blocks, il, conn)
        bl = " ".join(":".join(",".join(qi(z) for z in row) for row in b) for b in blocks)
        lines.append(f"applyindexed {fmt_list(modes)} {d} {c} " + ",".join(qi(z) for z in state) + " " + bl)
        reals.append((new, list(modes) != sorted(modes)))
    outs = ctx.lean_run(lines)
    mism = []
    for l, (new, nt), o in zip(lines, reals, outs):
        ctx.count(l[:200], nontrivial=nt)
        try:
            got = np.array([complex(float(Fraction(t.split(";")[0])), float(Fraction(t.split(";")[1]))) for t in o.split(",")])
        except Exception:
            mism.append((l[:120], "model output unparsable", o[:100])); continue
        if got.shape != new.shape or np.abs(got - new).max() > 1e-9 * (1 + np.abs(new).max()):
            mism.append((l[:160], f"real {np.round(new[:6], 4)}", f"model {np.round(got[:6], 4)}"))
    return mism


# ------------------------------------------------------------------ search on the real simulators
def build_program(pq, rng, sim, d):
    """list of (factory, modes); gates only, then a final measurement"""
    prog = []
    def gate(pool):
        name = str(rng.choice(pool))
        u = lambda a, b: float(rng.uniform(a, b))
        if name == "BS":
            t, p = u(0, 1.5), u(0, 3); return (lambda: pq.Beamsplitter(theta=t, phi=p)), 2, True
        if name == "PS":
            p = u(0, 3); return (lambda: pq.Phaseshifter(phi=p)), 1, True
        if name == "IF":
            U = haar(rng, 2); return (lambda: pq.Interferometer(U)), 2, True
        if name == "SQ":
            r, p = u(0.05, 0.4), u(0, 3); return (lambda: pq.Squeezing(r=r, phi=p)), 1, False
        if name == "DP":
            r, p = u(0.05, 0.5), u(0, 3); return (lambda: pq.Displacement(r=r, phi=p)), 1, False
        if name == "S2":
            r, p = u(0.05, 0.3), u(0, 3); return (lambda: pq.Squeezing2(r=r, phi=p)), 2, False
        if name == "QP":
            sv = u(-0.4, 0.4); return (lambda: pq.QuadraticPhase(s=sv)), 1, False
        if name == "KR":
            x = u(0, 1); return (lambda: pq.Kerr(xi=x)), 1, True
        if name == "CK":
            x = u(0, 1); return (lambda: pq.CrossKerr(xi=x)), 2, True
        if name == "FX":
            t = u(0, 1.5); return (lambda: pq.Beamsplitter(theta=t, phi=0.1)), 2, True
        if name == "IX":
            p = u(0, 1.5); return (lambda: pq.fermionic.IsingXX(phi=p) if hasattr(pq.fermionic, "IsingXX") else pq.IsingXX(phi=p)), 2, True
    pools = {"Gaussian": ["BS", "PS", "IF", "SQ", "DP", "S2"], "PureFock": ["BS", "PS", "IF", "KR", "CK", "SQ", "DP", "S2", "QP"],
             "Fock": ["BS", "PS", "KR", "SQ", "S2", "QP"], "Passive": ["BS", "PS", "IF"], "FermionicGaussian": ["BS", "PS"]}
    for _ in range(int(rng.integers(2, 6))):
        f, k, conserving = gate(pools[sim])
        if k > d:
            continue
        if sim.startswith("Fermionic") and k == 2:
            a = int(rng.integers(0, d - 1)); modes = (a, a + 1)
        else:
            modes = tuple(int(x) for x in rng.choice(d, size=k, replace=False))
        prog.append((f, modes, conserving))
    return prog


def final_state_signature(pq, sim_name, result_state, d, cutoff):
    """a relabelling-covariant description: dict occupation -> probability, plus Gaussian moments"""
    st = result_state
    if sim_name == "Gaussian":
        return ("gauss", st._m.copy(), st._C.copy(), st._G.copy())
    if sim_name == "FermionicGaussian":
        return ("fgauss", np.asarray(st.covariance_matrix).copy())
    if sim_name == "Passive":
        return ("probs", dict(st.fock_probabilities_map))
    if sim_name == "PureFock":
        from piquasso._math.fock import get_fock_space_basis
        basis = get_fock_space_basis(d=d, cutoff=cutoff)
        return ("amps", {tuple(int(x) for x in b): complex(a) for b, a in zip(basis, st.state_vector)})
    from piquasso._math.fock import get_fock_space_basis
    basis = [tuple(int(x) for x in b) for b in get_fock_space_basis(d=d, cutoff=cutoff)]
    dm = np.asarray(st.density_matrix)
    return ("dm", {(a, b): complex(dm[i, j]) for i, a in enumerate(basis) for j, b in enumerate(basis) if abs(dm[i, j]) > 1e-14})


def relabel_signature(sig, perm, d):
    """what the signature becomes when mode m is renamed perm[m]"""
    kind = sig[0]
    inv = [0] * d
    for m, pm in enumerate(perm):
        inv[pm] = m
    pv = lambda occ: tuple(occ[inv[j]] for j in range(d))     # new vector: entry at new label j = old entry at inv[j]
    if kind == "gauss":
        _, m, C, G = sig
        idx = np.array(inv)
        return ("gauss", m[idx], C[np.ix_(idx, idx)], G[np.ix_(idx, idx)])
    if kind == "fgauss":
        cov = sig[1]
        idx = np.array([2 * inv[j] + b for j in range(d) for b in (0, 1)]) if cov.shape[0] == 2 * d else None
        return ("fgauss", cov[np.ix_(idx, idx)]) if idx is not None else sig
    if kind in ("probs", "amps"):
        return (kind, {pv(k): v for k, v in sig[1].items()})
    return ("dm", {(pv(a), pv(b)): v for (a, b), v in sig[1].items()})


def sig_close(a, b, tol=1e-8):
    if a[0] != b[0]:
        return False
    if a[0] in ("gauss", "fgauss"):
        return all(np.allclose(x, y, atol=tol) for x, y in zip(a[1:], b[1:]))
    keys = set(a[1]) | set(b[1])
    return all(abs(a[1].get(k, 0) - b[1].get(k, 0)) <= tol for k in keys)


def real_simulators(ctx, n):
    import piquasso as pq
    rng = np.random.default_rng(ctx.seed + 161)
    fails = []
    sims = {"Gaussian": pq.GaussianSimulator, "PureFock": pq.PureFockSimulator, "Fock": pq.FockSimulator,
            "Passive": pq.PassiveSimulator}
    dist = {}
    for it in range(n):
        name = list(sims)[it % len(sims)]
        d = int(rng.integers(2, 5)) if name != "Fock" else int(rng.integers(2, 4))
        cutoff = int(rng.integers(3, 5))
        prog = build_program(pq, rng, name, d)
        if not prog:
            continue
        occ = [0] * d
        for _ in range(min(cutoff - 1, 2)):
            occ[int(rng.integers(0, d))] += 1
        def run(prog_, perm=None, measure=None, shots=None, seed=5):
            ins = []
            if name in ("PureFock", "Passive"):
                # the preparation is relabelled through its mode tuple (any order is allowed), not its data
                ins.append(pq.StateVector(tuple(occ)).on_modes(*(range(d) if perm is None else [perm[m] for m in range(d)])))
            else:
                ins.append(pq.Vacuum())
            for f, modes, _ in prog_:
                m2 = modes if perm is None else tuple(perm[m] for m in modes)
                ins.append(f().on_modes(*m2))
            if measure is not None:
                mm = measure if perm is None else tuple(perm[m] for m in measure)
                ins.append(pq.ParticleNumberMeasurement().on_modes(*mm))
            sim = sims[name](d=d, config=pq.Config(cutoff=cutoff, seed_sequence=seed, measurement_cutoff=3))
            return sim.execute(pq.Program(instructions=ins), shots=shots)
        desc = {"sim": name, "d": d, "cutoff": cutoff, "occ": occ, "program": [(type(f()).__name__, m) for f, m, _ in prog]}
        try:
            base = final_state_signature(pq, name, run(prog).state, d, cutoff)
        except Exception as e:
            fails.append((f"c16-raise:{name}:{type(e).__name__}", f"{name}: {type(e).__name__}: {str(e)[:120]}", desc)); continue
        # (1) relabelling
        perm = tuple(int(x) for x in rng.permutation(d))
        try:
            rel = final_state_signature(pq, name, run(prog, perm).state, d, cutoff)
            ctx.count(("relabel", it), nontrivial=list(perm) != sorted(perm))
            dist["relabel:" + name] = dist.get("relabel:" + name, 0) + 1
            if not sig_close(rel, relabel_signature(base, perm, d)):
                fails.append((f"relabel:{name}", f"{name}: renaming the modes by {perm} does not give the correspondingly permuted final state", dict(desc, perm=perm)))
        except Exception as e:
            fails.append((f"relabel-raise:{name}:{type(e).__name__}", f"{name} relabelled program raised {type(e).__name__}: {str(e)[:120]}", dict(desc, perm=perm)))
        # (2) outcome tuples follow the measured-mode order (shots=None where available)
        if name in ("PureFock", "Passive"):
            k = int(rng.integers(1, d + 1))
            meas = tuple(int(x) for x in rng.permutation(d)[:k])
            try:
                r1 = run(prog, None, meas, None)
                r2 = run(prog, perm, meas, None)
                d1 = {tuple(int(x) for x in b.outcome): float(b.frequency) for b in r1.branches if float(b.frequency) > 1e-13}
                d2 = {tuple(int(x) for x in b.outcome): float(b.frequency) for b in r2.branches if float(b.frequency) > 1e-13}
                ctx.count(("outcomes", it), nontrivial=list(meas) != sorted(meas))
                if set(d1) != set(d2) or any(abs(d1[k_] - d2[k_]) > 1e-8 for k_ in d1):
                    fails.append((f"relabel-outcomes:{name}", f"{name}: measuring modes {meas} (relabelled by {perm}) does not give the same outcome distribution", dict(desc, perm=perm, measure=meas)))
            except Exception as e:
                fails.append((f"outcomes-raise:{name}:{type(e).__name__}", f"{name}: {type(e).__name__}: {str(e)[:120]}", dict(desc, measure=meas)))
        # (2b) Gaussian dyne measurements of a mode tuple in ANY order: the same seed gives the same outcomes for the relabelled
        #      program, and the post-measurement state of the remaining modes is the correspondingly relabelled one
        if name == "Gaussian" and d >= 3:
            k = int(rng.integers(2, d))
            meas = tuple(int(x) for x in rng.permutation(d)[:k])
            mk = [lambda: pq.HomodyneMeasurement(), lambda: pq.HeterodyneMeasurement(),
                  lambda: pq.GeneraldyneMeasurement(detection_covariance=np.array([[1.3, 0.2], [0.2, 0.9]]))][it // len(sims) % 3]
            def run_dyne(perm_=None):
                ins = [pq.Vacuum(), pq.Displacement(r=0.7, phi=0.4).on_modes(0 if perm_ is None else perm_[0]),
                       pq.Displacement(r=0.3, phi=-1.1).on_modes(d - 1 if perm_ is None else perm_[d - 1])]
                for f, modes, _ in prog:
                    ins.append(f().on_modes(*(modes if perm_ is None else tuple(perm_[m] for m in modes))))
                ins.append(mk().on_modes(*(meas if perm_ is None else tuple(perm_[m] for m in meas))))
                sim = sims[name](d=d, config=pq.Config(cutoff=cutoff, seed_sequence=11))
                return sim.execute(pq.Program(instructions=ins), shots=3)
            try:
                r1, r2 = run_dyne(None), run_dyne(perm)
                ctx.count(("dyne-relabel", it), nontrivial=list(meas) != sorted(meas))
                R1 = sorted(set(range(d)) - set(meas)); R2 = sorted(perm[m] for m in R1)
                pr = [R2.index(perm[m]) for m in R1]
                worst = 0.0
                for b1, b2 in zip(r1.branches, r2.branches):
                    worst = max(worst, float(np.abs(np.asarray(b1.outcome, dtype=float) - np.asarray(b2.outcome, dtype=float)).max()))
                    m1_, c1_ = np.asarray(b1.state.xpxp_mean_vector), np.asarray(b1.state.xpxp_covariance_matrix)
                    m2_, c2_ = np.asarray(b2.state.xpxp_mean_vector), np.asarray(b2.state.xpxp_covariance_matrix)
                    idx = [2 * pr[i] + q for i in range(len(R1)) for q in (0, 1)]
                    worst = max(worst, float(np.abs(m2_[idx] - m1_).max()), float(np.abs(c2_[np.ix_(idx, idx)] - c1_).max()))
                if worst > 1e-7:
                    fails.append((f"relabel-dyne:{name}", f"Gaussian: a dyne measurement of modes {meas} and the same program with modes renamed by {perm} differ by {worst:.3g} in outcomes / post-measurement state (same seed)",
                                  dict(desc, perm=perm, measure=meas)))
            except Exception as e:
                fails.append((f"dyne-raise:{name}:{type(e).__name__}", f"{name}: {type(e).__name__}: {str(e)[:120]}", dict(desc, measure=meas)))
        # (3) swapping adjacent instructions with disjoint supports
        for i in range(len(prog) - 1):
            (f1, m1, c1), (f2, m2, c2) = prog[i], prog[i + 1]
            if set(m1) & set(m2):
                continue
            exact = name in ("Gaussian", "Passive") or (c1 and c2)
            if not exact:
                continue
            swapped = prog[:i] + [prog[i + 1], prog[i]] + prog[i + 2:]
            try:
                sw = final_state_signature(pq, name, run(swapped).state, d, cutoff)
                ctx.count(("swap", it, i), nontrivial=True)
                dist["swap:" + name] = dist.get("swap:" + name, 0) + 1
                if not sig_close(sw, base):
                    fails.append((f"disjoint-commute:{name}", f"{name}: exchanging {type(f1()).__name__}{m1} and {type(f2()).__name__}{m2} (disjoint modes) changes the final state", dict(desc, swap=i)))
            except Exception as e:
                fails.append((f"swap-raise:{name}:{type(e).__name__}", f"{name}: {type(e).__name__}: {str(e)[:120]}", desc))
    ctx.notes["real_distribution"] = dist
    return fails


def run(ctx):
    quick = ctx.tier == "quick"
    dmax, cmax, n_apply, n_real = (4, 5, 60, 60) if quick else (5, 6, 1500, 1200)
    ctx.rule = ("all injective mode tuples (any order) for d<=%d, cutoff<=%d through the three index-table functions; random blocks and "
                "states through the real state-vector application; on Gaussian/PureFock/Fock/Passive simulators: random programs x a random "
                "label permutation, sequential outcome order, swaps of adjacent disjoint instructions; non-trivial = non-ascending mode tuple / "
                "non-identity permutation / a swap" % (dmax, cmax))
    ctx.assumptions = ["Fock-space disjoint commutation is claimed only for number-conserving gates (exact in the truncated space)"]
    ctx.prove("PqVerif.Props.C16", THEOREMS, FILES)
    mism = index_functions(ctx, dmax, cmax)
    mism += apply_indexed(ctx, n_apply)
    fails = real_simulators(ctx, n_real)
    ctx.notes["correspondence_mismatches"] = len(mism)
    seen = set()
    for key, msg, inp in fails:
        if key not in seen:
            seen.add(key)
            ctx.fail(key, msg, inp)
    if mism:
        ctx.notes["first_mismatches"] = [dict(op=m[0], real=m[1], model=m[2]) for m in mism[:5]]
        ctx.broken.append("correspondence:Model/Index vs fock/simulation_steps index tables")
        if not ctx.violations:
            m = mism[0]
            ctx.fail("correspondence:index", f"model/implementation differ on `{m[0][:150]}`: real `{m[1][:150]}` model `{m[2][:150]}`", None)
