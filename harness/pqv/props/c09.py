"""C09: results do not depend on the numerical connector (partial).
proof: PqVerif.Props.C09 — the linear-algebra shims a connector re-implements are correct constructions given the
contracts of the primitives they call (polar from a matrix square root, SVD re-ordering, logm/expm/powm through an
eigendecomposition, lazy Schur of a normal matrix); the connector-specific Fock representations are tied to one
specification each (C01 permanent, C17 minors).
tie: every shim of the TensorFlow and JAX connectors vs SciPy/NumPy on random and degenerate matrices, with the theorem
hypotheses checked on the recorded intermediates (TensorFlow polar: P Hermitian, P^2 = A^dagger A / A A^dagger);
the JAX fermionic representation vs the exact model of C17.
search: random programs on the PureFock (NumPy / TensorFlow eager / tf.function / JAX eager / jit), Gaussian, Passive and
fermionic simulators (NumPy / JAX eager / jit): state vectors (phases, not only probabilities), means, covariances,
probabilities, density matrices."""
import os
import warnings
import numpy as np
from pqv.props.c07 import haar, qi
from fractions import Fraction

THEOREMS = ["Pq.C09." + t for t in ("polar_right", "polar_left", "conj_sqrt_is_not_polar", "svd_reorder", "funm_exp_log", "funm_pow",
                                      "lazy_schur", "bosonic_representation_spec", "fermionic_representation_spec")]
FILES = ["PqVerif/Lemmas/ShimLaws.lean", "PqVerif/Props/C09.lean"]
os.environ.setdefault("TF_CPP_MIN_LOG_LEVEL", "3")
KNOWN_TRUNCATION = "fock-truncation:degenerate-euler-basis"
DEGENERATE_EULER = ("Squeezing2",)


def test_matrix(rng, n):
    from scipy.stats import unitary_group
    kind = int(rng.integers(0, 7))
    G = rng.normal(size=(n, n)) + 1j * rng.normal(size=(n, n))
    U = unitary_group.rvs(n, random_state=rng) if n > 1 else np.array([[np.exp(1j * rng.uniform(0, 6))]])
    if kind == 0:
        return G, "general"
    if kind == 1:
        return G @ G.conj().T + 0.1 * np.eye(n), "hpd"
    if kind == 2:
        return U, "unitary"
    if kind == 3:
        return np.diag(rng.choice([1.0, 2.0], n)).astype(complex), "degenerate-diag"
    if kind == 4:
        return rng.normal(size=(n, n)).astype(complex), "real"
    if kind == 5:
        return U @ np.diag(rng.choice([1.0, 2.0, 3.0], n)) @ U.conj().T, "degenerate-herm"
    r = rng.uniform(0.1, 1.0)
    return np.cosh(r) * np.eye(n) + np.sinh(r) * (U @ U.T if n > 1 else np.eye(1)) * 0.5, "near-symplectic"


def shims(ctx, n):
    import piquasso as pq
    import scipy.linalg
    import tensorflow as tf
    rng = np.random.default_rng(ctx.seed + 9)
    npc = pq.NumpyConnector()

    class RecTF(pq.TensorflowConnector):
        def sqrtm(self, m):
            r = super().sqrtm(m)
            self.rec = (np.asarray(m), np.asarray(r))
            return r
    conns = {"tf": RecTF(), "jax": pq.JaxConnector()}
    fails = []
    for it in range(n):
        d = int(rng.integers(1, 5))
        M, kind = test_matrix(rng, d)
        if np.linalg.cond(M) > 1e6:
            continue
        desc = {"kind": kind, "M": str(np.round(M, 8).tolist())}
        for nm, c in conns.items():
            cv = (lambda X: tf.constant(X)) if nm == "tf" else (lambda X: X)
            ctx.count((nm, it), nontrivial=kind.startswith("degenerate") or kind == "general")
            for side in ("right", "left"):
                try:
                    U, P = c.polar(cv(M), side=side)
                    U, P = np.asarray(U), np.asarray(P)
                    Un, Pn = npc.polar(M, side=side)
                    e = max(np.abs(U - Un).max(), np.abs(P - Pn).max())
                    if e > 1e-7:
                        fails.append((f"shim:{nm}:polar-{side}", f"{nm} polar(side={side}) differs from scipy.linalg.polar by {e:.2e} ({kind} matrix)", desc))
                    if nm == "tf":
                        Min, Pr = c.rec
                        target = M.conj().T @ M if side == "right" else M @ M.conj().T
                        contracts = {"P^2 = A^dagger A (right) / A A^dagger (left)": np.abs(Pr @ Pr - target).max(), "P Hermitian": np.abs(Pr - Pr.conj().T).max()}
                        worst = max(contracts, key=contracts.get)
                        if contracts[worst] > 1e-7 * (1 + np.abs(target).max()):
                            fails.append((f"contract:tf:polar-{side}:{worst}", f"TensorFlow polar(side={side}): the square root it takes violates `{worst}` by {contracts[worst]:.2e}", desc))
                except Exception as e:
                    fails.append((f"shim-raise:{nm}:polar:{type(e).__name__}", f"{type(e).__name__}: {str(e)[:120]}", desc))
            checks = [("expm", lambda: (np.asarray(c.expm(cv(M * 0.3))), scipy.linalg.expm(M * 0.3)), True),
                      ("powm", lambda: (np.asarray(c.powm(cv(M), 3)), np.linalg.matrix_power(M, 3)), True),
                      ("logm", lambda: (np.asarray(c.logm(cv(M))), scipy.linalg.logm(M)), kind in ("hpd", "degenerate-herm", "degenerate-diag", "near-symplectic")),
                      ("sqrtm", lambda: (np.asarray(c.sqrtm(cv(M))), scipy.linalg.sqrtm(M)), kind in ("hpd", "degenerate-herm", "degenerate-diag"))]
            for fname, fn, applicable in checks:
                if not applicable:
                    continue
                try:
                    a, b = fn()
                    e = np.abs(a - b).max()
                    if e > 1e-6 * (1 + np.abs(b).max()):
                        fails.append((f"shim:{nm}:{fname}", f"{nm} {fname} differs from SciPy/NumPy by {e:.2e} ({kind} matrix)", desc))
                except Exception as e:
                    fails.append((f"shim-raise:{nm}:{fname}:{type(e).__name__}", f"{type(e).__name__}: {str(e)[:120]}", desc))
            try:
                V, s, Wh = c.svd(cv(M))
                V, s, Wh = np.asarray(V), np.asarray(s), np.asarray(Wh)
                if np.abs(V @ np.diag(s) @ Wh - M).max() > 1e-8 * (1 + np.abs(M).max()) or np.abs(V.conj().T @ V - np.eye(d)).max() > 1e-8 or \
                        np.abs(np.sort(s) - np.sort(np.linalg.svd(M)[1])).max() > 1e-8 * (1 + np.abs(M).max()):
                    fails.append((f"shim:{nm}:svd", f"{nm} svd does not satisfy A = V diag(s) W^dagger with unitary V ({kind} matrix)", desc))
            except Exception as e:
                fails.append((f"shim-raise:{nm}:svd:{type(e).__name__}", f"{type(e).__name__}: {str(e)[:120]}", desc))
            if kind in ("hpd", "unitary", "degenerate-herm", "degenerate-diag"):
                try:
                    D, Q = c.schur(cv(M))
                    D, Q = np.asarray(D), np.asarray(Q)
                    if np.abs(Q @ D @ Q.conj().T - M).max() > 1e-8 * (1 + np.abs(M).max()) or np.abs(Q.conj().T @ Q - np.eye(d)).max() > 1e-8 or np.abs(np.tril(D, -1)).max() > 1e-8 * (1 + np.abs(M).max()):
                        fails.append((f"shim:{nm}:schur", f"{nm} schur of a normal matrix is not a unitary triangularisation ({kind} matrix)", desc))
                except Exception as e:
                    fails.append((f"shim-raise:{nm}:schur:{type(e).__name__}", f"{type(e).__name__}: {str(e)[:120]}", desc))
    return fails


def fermionic_rep_jax(ctx, n, fails=None):
    """JAX version of the fermionic representation vs the exact model of C17; a block the connector does not return is a
    correspondence mismatch (not a harness error), and the same call on the NumPy connector is the failing-input search:
    the list of sector blocks must not depend on the connector"""
    import piquasso as pq
    jc = pq.JaxConnector()
    nc = pq.NumpyConnector()
    fails = [] if fails is None else fails
    rng = np.random.default_rng(ctx.seed + 99)
    lines, metas = [], []
    for it in range(n):
        d = int(rng.integers(1, 5)); cutoff = int(rng.integers(1, d + 2))
        U = (rng.integers(-4, 5, size=(d, d)) + 1j * rng.integers(-4, 5, size=(d, d))) / 4.0
        reps = jc.calculate_interferometer_on_fermionic_fock_space(jc.np.array(U), cutoff)
        nreps = nc.calculate_interferometer_on_fermionic_fock_space(np.array(U), cutoff)
        if len(reps) != len(nreps) or any(np.asarray(a).shape != np.asarray(b).shape or np.abs(np.asarray(a) - np.asarray(b)).max() > 1e-9 * (1 + np.abs(U).max() ** d)
                                          for a, b in zip(reps, nreps)):
            fails.append((f"fermirep-connectors:{d}:{cutoff}", f"calculate_interferometer_on_fermionic_fock_space(d={d}, cutoff={cutoff}): JAX returns {len(reps)} sector blocks, NumPy {len(nreps)} (or their values differ)",
                          dict(d=d, cutoff=cutoff, U=[[str(z) for z in r] for r in U.tolist()])))
        for nn in range(cutoff):
            lines.append(f"fermirep {d} {nn} " + ",".join(qi(z) for z in U.reshape(-1)))
            metas.append(np.asarray(reps[nn]) if nn < len(reps) else np.zeros((0, 0)))
    outs = ctx.lean_run(lines)
    mism = []
    for l, r, o in zip(lines, metas, outs):
        ctx.count(l[:80], nontrivial=True)
        try:
            M = np.array([[complex(float(Fraction(t.split(";")[0])), float(Fraction(t.split(";")[1]))) for t in row.split(",")] for row in o.split(" ")])
        except Exception:
            mism.append((l[:100], "unparsable model output")); continue
        if M.shape != r.shape or np.abs(M - r).max() > 1e-9 * (1 + np.abs(M).max()):
            mism.append((l[:100], f"JAX fermionic representation differs from the model by {np.abs(M - r).max() if M.shape == r.shape else 'shape'}"))
    return mism


def fermionic_jax_states(ctx, n):
    """fermionic PureFock simulator, NumPy vs JAX: passive gates with det(U) != 1 on superpositions that contain the fully
    occupied sector of the gate's modes (the 1x1 block det U) next to other sectors"""
    import piquasso as pq
    from piquasso.fermionic import PureFockSimulator as FS
    rng = np.random.default_rng(ctx.seed + 977)
    fails = []
    for it in range(n):
        d = int(rng.integers(2, 4))
        cutoff = d + 1
        U = haar(rng, d)
        occ_full = [1] * d
        occ_other = [0] * d
        if rng.random() < 0.5:
            occ_other[int(rng.integers(0, d))] = 1
        res = {}
        for nm, conn in (("numpy", pq.NumpyConnector()), ("jax", pq.JaxConnector())):
            try:
                with pq.Program() as prog:
                    pq.Q() | pq.StateVector(occ_full, coefficient=0.6) | pq.StateVector(occ_other, coefficient=0.8)
                    pq.Q() | pq.Interferometer(U)
                st = FS(d=d, config=pq.Config(cutoff=cutoff), connector=conn).execute(prog).state
                res[nm] = np.asarray(st.state_vector)
            except Exception as e:
                res[nm] = e
        ctx.count(("fermi-jax-state", it), nontrivial=True)
        a, b = res["numpy"], res["jax"]
        if isinstance(a, Exception) and isinstance(b, Exception):
            continue
        if isinstance(a, Exception) or isinstance(b, Exception) or a.shape != b.shape or np.abs(a - b).max() > 1e-8:
            fails.append((f"fermi-jax-state:{d}", f"fermionic PureFock state after an interferometer on 0.6|{occ_full}> + 0.8|{occ_other}> differs between NumPy and JAX: "
                          + (repr(a)[:80] if isinstance(a, Exception) else repr(b)[:80] if isinstance(b, Exception) else f"max diff {np.abs(a - b).max():.3g}"),
                          dict(d=d, U=[[str(z) for z in r] for r in U.tolist()], occ=[occ_full, occ_other])))
    return fails


# ------------------------------------------------------------------ program search
def make_gate(pq, rng, d, kinds):
    u = lambda a, b: float(rng.uniform(a, b))
    two_mode = {"Beamsplitter", "Squeezing2", "CrossKerr", "MachZehnder", "ControlledX", "ControlledZ", "Beamsplitter5050", "Interferometer2"}
    while True:
        k = kinds[int(rng.integers(0, len(kinds)))]
        if k in two_mode and d < 2:
            continue
        modes = tuple(int(x) for x in rng.choice(d, size=2 if k in two_mode else 1, replace=False))
        mk = {"Displacement": lambda: pq.Displacement(r=u(0.05, 0.6), phi=u(-3, 3)), "Squeezing": lambda: pq.Squeezing(r=u(0.05, 0.5), phi=u(-3, 3)),
              "Phaseshifter": lambda: pq.Phaseshifter(phi=u(-3, 3)), "Beamsplitter": lambda: pq.Beamsplitter(theta=u(-3, 3), phi=u(-3, 3)),
              "Kerr": lambda: pq.Kerr(xi=u(-1, 1)), "CrossKerr": lambda: pq.CrossKerr(xi=u(-1, 1)), "Squeezing2": lambda: pq.Squeezing2(r=u(0.05, 0.4), phi=u(-3, 3)),
              "CubicPhase": lambda: pq.CubicPhase(gamma=u(-0.2, 0.2)), "PositionDisplacement": lambda: pq.PositionDisplacement(x=u(-0.6, 0.6)),
              "MomentumDisplacement": lambda: pq.MomentumDisplacement(p=u(-0.6, 0.6)), "QuadraticPhase": lambda: pq.QuadraticPhase(s=u(-0.5, 0.5)),
              "MachZehnder": lambda: pq.MachZehnder(int_=u(-3, 3), ext=u(-3, 3)), "Fourier": lambda: pq.Fourier(), "Beamsplitter5050": lambda: pq.Beamsplitter5050(),
              "ControlledX": lambda: pq.ControlledX(s=u(-0.4, 0.4)), "ControlledZ": lambda: pq.ControlledZ(s=u(-0.4, 0.4)),
              "Interferometer2": lambda: pq.Interferometer(haar(rng, 2))}
        return k, mk[k](), modes


PF = ["Displacement", "Squeezing", "Phaseshifter", "Beamsplitter", "Kerr", "CrossKerr", "Squeezing2", "CubicPhase", "PositionDisplacement", "MomentumDisplacement",
      "QuadraticPhase", "MachZehnder", "Fourier", "Beamsplitter5050", "Interferometer2"]
GA = ["Displacement", "Squeezing", "Phaseshifter", "Beamsplitter", "Squeezing2", "PositionDisplacement", "MomentumDisplacement", "QuadraticPhase", "MachZehnder",
      "Fourier", "Beamsplitter5050", "ControlledX", "ControlledZ", "Interferometer2"]
PA = ["Phaseshifter", "Beamsplitter", "MachZehnder", "Fourier", "Beamsplitter5050", "Interferometer2"]


def clone(g):
    return type(g)(**g.params)


def euler_contract(pq, gs, conn):
    """worst violation of the Bloch-Messiah contract by `conn`'s euler on the degenerate-Euler gates of the program:
    unitary factors, real squeezings, and  blockdiag(U_l, conj U_l) [[cosh r, -sinh r], [-sinh r, cosh r]] blockdiag(U_f, conj U_f) = S"""
    from piquasso._math.decompositions import euler
    cfg = pq.Config()
    worst = 0.0
    for k, g, m in gs:
        if k not in DEGENERATE_EULER:
            continue
        P = np.asarray(g._get_passive_block(conn, cfg)); A = np.asarray(g._get_active_block(conn, cfg))
        S = np.block([[P, A], [A.conj(), P.conj()]])
        ul, sq, uf = [np.asarray(x) for x in euler(S, conn)]
        bd = lambda U: np.block([[U, 0 * U], [0 * U, U.conj()]])
        D = np.block([[np.diag(np.cosh(sq)), -np.diag(np.sinh(sq))], [-np.diag(np.sinh(sq)), np.diag(np.cosh(sq))]])
        n = len(sq)
        worst = max(worst, float(np.abs(bd(ul) @ D @ bd(uf) - S).max()), float(np.abs(ul @ ul.conj().T - np.eye(n)).max()),
                    float(np.abs(uf @ uf.conj().T - np.eye(n)).max()), float(np.abs(np.imag(sq)).max()))
    return worst


def explicit_euler(pq, gs):
    """the gate list with every degenerate-Euler gate written out with NumPy's Bloch-Messiah factors, exactly as
    fock/pure/simulation_steps `linear` applies it: passive(unitary_first); squeezings; passive(unitary_last)"""
    from piquasso._math.decompositions import euler
    conn, cfg = pq.NumpyConnector(), pq.Config()
    out = []
    for k, g, m in gs:
        if k not in DEGENERATE_EULER:
            out.append((g, m)); continue
        P = np.asarray(g._get_passive_block(conn, cfg)); A = np.asarray(g._get_active_block(conn, cfg))
        S = np.block([[P, A], [A.conj(), P.conj()]])
        u_last, sq, u_first = euler(S, conn)
        out.append((pq.Interferometer(np.asarray(u_first)), m))
        for mode, r in zip(m, sq):
            out.append((pq.Squeezing(r=float(r), phi=0.0), (mode,)))
        out.append((pq.Interferometer(np.asarray(u_last)), m))
    return out


def purefock(ctx, n):
    import piquasso as pq
    import tensorflow as tf
    import jax
    rng = np.random.default_rng(ctx.seed + 909)
    fails = []
    for it in range(n):
        d = int(rng.integers(1, 4)); cutoff = int(rng.integers(3, 7))
        occ = [0] * d
        for _ in range(int(rng.integers(0, 3))):
            occ[int(rng.integers(0, d))] += 1
        if sum(occ) >= cutoff:
            continue
        gs = [make_gate(pq, rng, d, PF) for _ in range(int(rng.integers(1, 5)))]
        desc = {"simulator": "PureFock", "d": d, "cutoff": cutoff, "occ": occ, "gates": [(k, {p: (v if isinstance(v, float) else str(np.asarray(v).tolist())) for p, v in g.params.items()}, m) for k, g, m in gs]}

        def prog():
            return pq.Program(instructions=[pq.StateVector(tuple(occ)).on_modes(*range(d))] + [clone(g).on_modes(*m) for _, g, m in gs])

        def run(conn, c=cutoff):
            return np.asarray(pq.PureFockSimulator(d=d, config=pq.Config(cutoff=c), connector=conn).execute(prog()).state.state_vector)
        try:
            ref = run(pq.NumpyConnector())
        except Exception as e:
            fails.append((f"numpy-raise:{type(e).__name__}", f"{type(e).__name__}: {str(e)[:120]}", desc)); continue
        # is a degenerate-Euler gate applied to a non-vacuum state?
        nonvac = sum(occ) > 0
        degenerate_on_nonvacuum = False
        for k, g, m in gs:
            if k in DEGENERATE_EULER and nonvac:
                degenerate_on_nonvacuum = True
            nonvac = True
        ctx.count(("purefock", it), nontrivial=len(gs) >= 2 and d >= 2)
        targets = [("tf", lambda: pq.TensorflowConnector()), ("jax", lambda: pq.JaxConnector())]
        if it % 3 == 0:
            targets.append(("tf.function", lambda: pq.TensorflowConnector(decorate_with=tf.function)))
        for nm, mk in targets:
            try:
                sv = run(mk())
            except Exception as e:
                fails.append((f"raise:PureFock:{nm}:{type(e).__name__}", f"PureFock with {nm} raised {type(e).__name__}: {str(e)[:140]}", desc)); continue
            e = float(np.abs(sv - ref).max())
            if e > 1e-8:
                if degenerate_on_nonvacuum:
                    # known truncation artefact?  (a) with the Bloch-Messiah factors FIXED (NumPy's euler of the gate,
                    # written out as Interferometer; Squeezing; Squeezing; Interferometer) the connectors agree, so the
                    # only difference is the connector's choice of basis in the degenerate decomposition; or
                    # (b) the difference shrinks when the cutoff grows
                    try:
                        ex = explicit_euler(pq, gs)
                        def run_ex(conn):
                            pr = pq.Program(instructions=[pq.StateVector(tuple(occ)).on_modes(*range(d))] + [clone(g).on_modes(*m) for g, m in ex])
                            return np.asarray(pq.PureFockSimulator(d=d, config=pq.Config(cutoff=cutoff), connector=conn).execute(pr).state.state_vector)
                        ref_ex = run_ex(pq.NumpyConnector())
                        if float(np.abs(ref_ex - ref).max()) <= 1e-8 and euler_contract(pq, gs, mk()) <= 1e-8:
                            e_ex = float(np.abs(run_ex(mk()) - ref_ex).max())
                            if e_ex <= 1e-8:
                                fails.append((KNOWN_TRUNCATION, f"{nm}: state differs from NumPy by {e:.2e} at cutoff {cutoff}, and by {e_ex:.1e} once the Bloch-Messiah factors of Squeezing2 are fixed", desc)); continue
                    except Exception:
                        pass
                    try:
                        e2 = float(np.abs(run(mk(), cutoff + 4) - run(pq.NumpyConnector(), cutoff + 4)).max())
                    except Exception:
                        e2 = e
                    if e2 < e / 2:
                        fails.append((KNOWN_TRUNCATION, f"{nm}: state differs from NumPy by {e:.2e} at cutoff {cutoff} and {e2:.2e} at cutoff {cutoff + 4}", desc)); continue
                fails.append((f"state:PureFock:{nm}", f"PureFock state vector with {nm} differs from NumPy by {e:.2e}", desc))
    return fails


def others(ctx, n):
    import piquasso as pq
    import jax
    rng = np.random.default_rng(ctx.seed + 9090)
    fails = []
    for it in range(n):
        d = int(rng.integers(1, 4)); cutoff = int(rng.integers(3, 6))
        # Gaussian
        gs = [make_gate(pq, rng, d, GA) for _ in range(int(rng.integers(1, 5)))]
        desc = {"simulator": "Gaussian", "d": d, "cutoff": cutoff, "gates": [(k, {p: (v if isinstance(v, float) else str(np.asarray(v).tolist())) for p, v in g.params.items()}, m) for k, g, m in gs]}
        prog = lambda: pq.Program(instructions=[pq.Vacuum()] + [clone(g).on_modes(*m) for _, g, m in gs])
        ctx.count(("gaussian", it), nontrivial=len(gs) >= 2)
        try:
            a = pq.GaussianSimulator(d=d, config=pq.Config(cutoff=cutoff)).execute(prog()).state
            b = pq.GaussianSimulator(d=d, config=pq.Config(cutoff=cutoff), connector=pq.JaxConnector()).execute(prog()).state
            errs = {"mean": np.abs(np.asarray(a.xpxp_mean_vector) - np.asarray(b.xpxp_mean_vector)).max(),
                    "covariance": np.abs(np.asarray(a.xpxp_covariance_matrix) - np.asarray(b.xpxp_covariance_matrix)).max(),
                    "fock_probabilities": np.abs(np.asarray(a.fock_probabilities) - np.asarray(b.fock_probabilities)).max()}
            if d <= 2:
                errs["density_matrix"] = np.abs(np.asarray(a.density_matrix) - np.asarray(b.density_matrix)).max()
            worst = max(errs, key=errs.get)
            if errs[worst] > 1e-8:
                fails.append((f"state:Gaussian:jax:{worst}", f"Gaussian {worst} with JAX differs from NumPy by {errs[worst]:.2e}", desc))
        except Exception as e:
            fails.append((f"raise:Gaussian:jax:{type(e).__name__}", f"{type(e).__name__}: {str(e)[:140]}", desc))
        # Passive
        occ = [0] * d
        for _ in range(int(rng.integers(0, 3))):
            occ[int(rng.integers(0, d))] += 1
        gs = [make_gate(pq, rng, d, PA) for _ in range(int(rng.integers(1, 5)))]
        if d >= 3 and rng.random() < 0.6:
            gs.append(("InterferometerFull", pq.Interferometer(haar(rng, d)), tuple(range(d))))
        desc = {"simulator": "Passive", "d": d, "occ": occ, "gates": [(k, {p: (v if isinstance(v, float) else str(np.asarray(v).tolist())) for p, v in g.params.items()}, m) for k, g, m in gs]}
        prog = lambda: pq.Program(instructions=[pq.StateVector(tuple(occ)).on_modes(*range(d))] + [clone(g).on_modes(*m) for _, g, m in gs])
        ctx.count(("passive", it), nontrivial=sum(occ) >= 2)
        try:
            c = max(cutoff, sum(occ) + 1)
            a = pq.PassiveSimulator(d=d, config=pq.Config(cutoff=c)).execute(prog()).state
            b = pq.PassiveSimulator(d=d, config=pq.Config(cutoff=c), connector=pq.JaxConnector()).execute(prog()).state
            e = float(np.abs(np.asarray(a.fock_probabilities) - np.asarray(b.fock_probabilities)).max())
            if e > 1e-8:
                fails.append(("state:Passive:jax", f"Passive Fock probabilities with JAX differ from NumPy by {e:.2e}", desc))
            # single-outcome probabilities go through connector.permanent(U, rows=output, cols=input): every output pattern
            if sum(occ) >= 1:
                import itertools as _it
                outs = [o for o in _it.product(range(sum(occ) + 1), repeat=d) if sum(o) == sum(occ)][:12]
                pa = np.array([float(a.get_particle_detection_probability(o)) for o in outs])
                pb = np.array([float(b.get_particle_detection_probability(o)) for o in outs])
                e2 = float(np.abs(pa - pb).max())
                if e2 > 1e-8:
                    fails.append(("detection-probability:Passive:jax", f"Passive get_particle_detection_probability with JAX differs from NumPy by {e2:.2e} (output {outs[int(np.abs(pa - pb).argmax())]})", desc))
        except Exception as e:
            fails.append((f"raise:Passive:jax:{type(e).__name__}", f"{type(e).__name__}: {str(e)[:140]}", desc))
        # fermionic
        df = int(rng.integers(1, 5))
        occf = [int(x) for x in rng.integers(0, 2, size=df)]
        from pqv.props.c17 import random_program, build
        gates = random_program(pq, rng, df, passive_only=False)
        desc = {"simulator": "fermionic", "d": df, "occ": occf, "gates": [(nm, m) for nm, p, m in gates]}
        ctx.count(("fermionic", it), nontrivial=df >= 3)
        try:
            for cls, cfg in ((pq.fermionic.GaussianSimulator, lambda: None), (pq.fermionic.PureFockSimulator, lambda: pq.Config(cutoff=df + 1))):
                a = cls(d=df, config=cfg()).execute(build(pq, occf, gates)).state
                b = cls(d=df, config=cfg(), connector=pq.JaxConnector()).execute(build(pq, occf, gates)).state
                e = float(np.abs(np.asarray(a.covariance_matrix) - np.asarray(b.covariance_matrix)).max())
                if cls is pq.fermionic.PureFockSimulator:
                    e = max(e, float(np.abs(np.asarray(a.state_vector) - np.asarray(b.state_vector)).max()))
                if e > 1e-8:
                    fails.append((f"state:fermionic:{cls.__name__}:jax", f"fermionic {cls.__name__} with JAX differs from NumPy by {e:.2e}", desc))
        except Exception as e:
            fails.append((f"raise:fermionic:jax:{type(e).__name__}", f"{type(e).__name__}: {str(e)[:140]}", desc))
    return fails


def jitted(ctx, n):
    """jax.jit of whole simulations vs NumPy"""
    import piquasso as pq
    import jax
    import jax.numpy as jnp
    rng = np.random.default_rng(ctx.seed + 90909)
    fails = []
    for it in range(n):
        d = 2; cutoff = int(rng.integers(3, 6))
        r, phi, theta, xi = float(rng.uniform(0.05, 0.5)), float(rng.uniform(-3, 3)), float(rng.uniform(-3, 3)), float(rng.uniform(-1, 1))

        def f(r, phi, theta, xi, conn):
            with pq.Program() as p:
                pq.Q() | pq.Vacuum()
                pq.Q(0) | pq.Displacement(r=r, phi=phi)
                pq.Q(1) | pq.Squeezing(r=r, phi=phi)
                pq.Q(0, 1) | pq.Beamsplitter(theta=theta, phi=phi)
                pq.Q(0) | pq.Kerr(xi=xi)
            return pq.PureFockSimulator(d=d, config=pq.Config(cutoff=cutoff), connector=conn).execute(p).state.state_vector
        ctx.count(("jit", it), nontrivial=True)
        try:
            ref = np.asarray(f(r, phi, theta, xi, pq.NumpyConnector()))
            jc = pq.JaxConnector()
            got = np.asarray(jax.jit(lambda a, b, c, e: f(a, b, c, e, jc))(r, phi, theta, xi))
            e = float(np.abs(ref - got).max())
            if e > 1e-8:
                fails.append(("state:PureFock:jax.jit", f"jit-compiled PureFock state differs from NumPy by {e:.2e}", {"r": r, "phi": phi, "theta": theta, "xi": xi, "cutoff": cutoff}))
        except Exception as e:
            fails.append((f"raise:PureFock:jax.jit:{type(e).__name__}", f"{type(e).__name__}: {str(e)[:140]}", {"r": r, "phi": phi, "theta": theta, "xi": xi, "cutoff": cutoff}))
    return fails


def pinned_known_finding(ctx):
    """the input the known finding is recorded with: reported while it still fails"""
    import piquasso as pq

    def run(conn, cutoff):
        with pq.Program() as p:
            pq.Q() | pq.Vacuum()
            pq.Q(0) | pq.Displacement(r=0.4)
            pq.Q(0, 1) | pq.Squeezing2(r=0.3, phi=0.9)
        return np.asarray(pq.PureFockSimulator(d=2, config=pq.Config(cutoff=cutoff), connector=conn).execute(p).state.state_vector)
    e5 = float(np.abs(run(pq.NumpyConnector(), 5) - run(pq.JaxConnector(), 5)).max())
    e10 = float(np.abs(run(pq.NumpyConnector(), 10) - run(pq.JaxConnector(), 10)).max())
    ctx.count("pinned:" + KNOWN_TRUNCATION, True)
    ctx.notes["pinned_truncation_finding"] = {"cutoff5": e5, "cutoff10": e10}
    if e5 > 1e-8:
        if e10 < e5 / 2:
            ctx.fail(KNOWN_TRUNCATION, f"NumPy vs JAX state differs by {e5:.2e} at cutoff 5 and {e10:.2e} at cutoff 10", {"program": "Vacuum; Displacement(r=0.4) on 0; Squeezing2(r=0.3, phi=0.9) on (0,1)"})
        else:
            ctx.fail("state:PureFock:jax:pinned", f"NumPy vs JAX state differs by {e5:.2e} at cutoff 5 and does not shrink with the cutoff ({e10:.2e} at 10)", {"program": "Vacuum; Displacement(r=0.4) on 0; Squeezing2(r=0.3, phi=0.9) on (0,1)"})


def run(ctx):
    quick = ctx.tier == "quick"
    ctx.rule = ("random programs: PureFock (d<=3, cutoff 3..6, number-state inputs, 1..4 gates among 15 kinds) on NumPy / TensorFlow eager / tf.function / "
                "JAX — full state vectors; Gaussian (14 gate kinds) and Passive NumPy vs JAX — means, covariances, probabilities, density matrices; "
                "fermionic Gaussian and Fock NumPy vs JAX; jit-compiled PureFock; every linear-algebra shim of both connectors vs SciPy on general, "
                "Hermitian positive, unitary, real, degenerate matrices")
    ctx.assumptions = ["NumPy/SciPy results are the reference", "the Fock (general) simulator only supports the NumPy connector",
                       "tolerance 1e-8 on state vectors and moments"]
    ctx.prove("PqVerif.Props.C09", THEOREMS, FILES)
    import glob, subprocess, sys
    for f in sorted(glob.glob(os.path.join(os.path.dirname(__file__), "..", "..", "..", "corpus", "repro", "c09_*.py"))):
        p = subprocess.run([sys.executable, f], capture_output=True, text=True, cwd=os.environ.get("PQ_REPO", "/repo"))
        ctx.count("repro:" + os.path.basename(f), True)
        if p.returncode != 0:
            ctx.fail("repro:" + os.path.basename(f), "pinned regression fails: " + (p.stdout + p.stderr)[-400:], {"script": f})
    with warnings.catch_warnings():
        warnings.simplefilter("ignore")
        pinned_known_finding(ctx)
        ffails = []
        mism = fermionic_rep_jax(ctx, 6 if quick else 60, ffails)
        fails = ffails + fermionic_jax_states(ctx, 6 if quick else 60) + shims(ctx, 40 if quick else 600) + purefock(ctx, 40 if quick else 700) + others(ctx, 20 if quick else 400) + jitted(ctx, 3 if quick else 25)
    seen = set()
    for key, msg, inp in fails:
        if key not in seen:
            seen.add(key)
            ctx.fail(key, msg, inp)
    ctx.notes["correspondence_mismatches"] = len(mism)
    if mism:
        ctx.notes["first_mismatches"] = [dict(op=m[0][:200], what=m[1][:300]) for m in mism[:4]]
        ctx.broken.append("correspondence:Model/FermiRep vs JAX calculate_interferometer_on_fermionic_fock_space")
