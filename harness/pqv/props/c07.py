"""C07: built-in linear gates are physical and act as documented.
proof + translator: Gen/Gates.lean is regenerated from gates.py (real block methods run on symbolic
parameters) and Props/C07 re-proves, for all real parameters, symplecticity/unitarity of every gate and the
documented identities; Lemmas/GaussCongr proves that the simulator's block update (Model/Gauss) is the
congruence by the embedded symplectic matrix for every d, every mode tuple.
tie: exact ℚ[i] run of Model/Gauss vs the real GaussianSimulator's (m, C, G) on random states and gate
sequences; search: numerical symplecticity of the real blocks and congruence on real states."""
import numpy as np
from fractions import Fraction

THEOREMS = [
    "Pq.C07.beamsplitter_unitary", "Pq.C07.beamsplitter5050_unitary", "Pq.C07.phaseshifter_unitary",
    "Pq.C07.machzehnder_unitary", "Pq.C07.fourier_unitary", "Pq.C07.squeezing_symplectic",
    "Pq.C07.quadraticphase_symplectic", "Pq.C07.squeezing2_symplectic", "Pq.C07.controlledx_symplectic",
    "Pq.C07.controlledz_symplectic", "Pq.C07.fourier_eq_phaseshifter", "Pq.C07.beamsplitter5050_eq",
    "Pq.C07.machzehnder_decomposition", "Pq.C07.squeezing2_decomposition", "Pq.C07.position_displacement",
    "Pq.C07.momentum_displacement", "Pq.C07.displacement_shift", "Pq.C07.applyLinear_mean", "Pq.C07.applyLinear_C",
    "Pq.C07.applyLinear_G", "Pq.C07.applyLinear_hermitian", "Pq.C07.applyLinear_eq_congr", "Pq.C07.applyPassive_eq",
    "Pq.C07.builtin_gate_congruence",
]
FILES = ["PqVerif/Gen/Gates.lean", "PqVerif/Model/Gauss.lean", "PqVerif/Lemmas/GateLaws.lean",
         "PqVerif/Lemmas/GaussCongr.lean", "PqVerif/Props/C07.lean"]


def qs(x):
    f = Fraction(float(x))
    return f"{f.numerator}/{f.denominator}" if f.denominator != 1 else str(f.numerator)


def qi(z):
    z = complex(z)
    return qs(z.real) + ";" + qs(z.imag)


def flat(M):
    return ",".join(qi(z) for z in np.asarray(M).reshape(-1))


def parse_state(line, d):
    toks = line.split(" ")
    def val(t):
        a, b = t.split(";")
        return complex(float(Fraction(a)), float(Fraction(b)))
    assert toks[0] == "m"
    m = np.array([val(t) for t in toks[1:1 + d]])
    assert toks[1 + d] == "C"
    C = np.array([val(t) for t in toks[2 + d:2 + d + d * d]]).reshape(d, d)
    G = np.array([val(t) for t in toks[3 + d + d * d:3 + d + 2 * d * d]]).reshape(d, d)
    return m, C, G


def random_gate(pq, rng, d):
    """returns (instruction, modes, kind, blocks-getter)"""
    k2 = d >= 2 and rng.random() < 0.55
    u = lambda a, b: float(rng.uniform(a, b))
    if k2:
        modes = tuple(int(x) for x in rng.choice(d, size=2, replace=False))
        c = int(rng.integers(0, 7))
        g = [lambda: pq.Beamsplitter(theta=u(-3, 3), phi=u(-3, 3)), lambda: pq.Beamsplitter5050(),
             lambda: pq.MachZehnder(int_=u(-3, 3), ext=u(-3, 3)), lambda: pq.Squeezing2(r=u(-0.8, 0.8), phi=u(-3, 3)),
             lambda: pq.ControlledX(s=u(-1, 1)), lambda: pq.ControlledZ(s=u(-1, 1)),
             lambda: pq.Interferometer(haar(rng, 2))][c]()
    else:
        modes = (int(rng.integers(0, d)),)
        c = int(rng.integers(0, 5))
        g = [lambda: pq.Phaseshifter(phi=u(-3, 3)), lambda: pq.Fourier(), lambda: pq.Squeezing(r=u(-0.8, 0.8), phi=u(-3, 3)),
             lambda: pq.QuadraticPhase(s=u(-1, 1)), lambda: pq.Displacement(r=u(0, 1), phi=u(-3, 3))][c]()
    if rng.random() < 0.15 and d >= 3:
        k = int(rng.integers(2, min(d, 3) + 1))
        modes = tuple(int(x) for x in rng.choice(d, size=k, replace=False))
        if rng.random() < 0.5:
            g = pq.Interferometer(haar(rng, k))
        else:
            U, V = haar(rng, k), haar(rng, k)
            r = rng.uniform(-0.5, 0.5, size=k)
            P = U @ np.diag(np.cosh(r)) @ V
            A = U @ np.diag(np.sinh(r)) @ V.conj()
            g = pq.GaussianTransform(passive=P, active=A)
    return g, modes


def haar(rng, n):
    a = rng.normal(size=(n, n)) + 1j * rng.normal(size=(n, n))
    q, r = np.linalg.qr(a)
    return q * (np.diag(r) / np.abs(np.diag(r)))


def run_sequences(ctx, n_seq):
    import piquasso as pq
    from piquasso._simulators.connectors import NumpyConnector
    rng = np.random.default_rng(ctx.seed + 7)
    conn = NumpyConnector()
    lines, metas = [], []
    fails = []
    for it in range(n_seq):
        d = int(rng.integers(1, 6))
        hbar = float(rng.choice([0.5, 1.0, 2.0, 3.7]))
        cfg = pq.Config(hbar=hbar)
        sim = pq.GaussianSimulator(d=d, config=cfg)
        # a random physical starting state made by the simulator itself
        with pq.Program() as prep:
            pq.Q() | pq.Vacuum()
            for i in range(d):
                pq.Q(i) | pq.Squeezing(r=float(rng.uniform(-0.5, 0.5)), phi=float(rng.uniform(-3, 3)))
            for i in range(d - 1):
                pq.Q(i, i + 1) | pq.Beamsplitter(theta=float(rng.uniform(0, 3)), phi=float(rng.uniform(0, 3)))
            for i in range(d):
                pq.Q(i) | pq.Displacement(r=float(rng.uniform(0, 1)), phi=float(rng.uniform(-3, 3)))
        st0 = sim.execute(prep).state
        m0, C0, G0 = st0._m.copy(), st0._C.copy(), st0._G.copy()
        ops = []
        instrs = []
        nontriv = False
        for _ in range(int(rng.integers(1, 7))):
            g, modes = random_gate(pq, rng, d)
            instrs.append((g, modes))
            if list(modes) != sorted(modes) or (len(modes) >= 2 and max(modes) - min(modes) >= len(modes)):
                nontriv = True
            if isinstance(g, pq.Displacement):
                al = g.params["r"] * np.exp(1j * g.params["phi"])
                ops += ["D", ",".join(map(str, modes)), qi(al)]
            else:
                P = np.asarray(g._get_passive_block(conn, cfg), dtype=complex)
                if hasattr(g, "_get_active_block") and g._get_active_block(conn, cfg) is not None:
                    A = np.asarray(g._get_active_block(conn, cfg), dtype=complex)
                    ops += ["L", ",".join(map(str, modes)), flat(P), flat(A)]
                    # search side: the real blocks are symplectic
                    e1 = np.abs(P @ P.conj().T - A @ A.conj().T - np.eye(len(P))).max()
                    e2 = np.abs(P @ A.T - A @ P.T).max()
                    if max(e1, e2) > 1e-9:
                        fails.append((f"nonsymplectic:{type(g).__name__}", f"{type(g).__name__}{g.params}: (P,A) not symplectic (residual {max(e1, e2):.2e})",
                                      {"gate": type(g).__name__, "params": {k: repr(v) for k, v in g.params.items()}}))
                else:
                    ops += ["P", ",".join(map(str, modes)), flat(P)]
                    e1 = np.abs(P @ P.conj().T - np.eye(len(P))).max()
                    if e1 > 1e-9:
                        fails.append((f"nonunitary:{type(g).__name__}", f"{type(g).__name__}{g.params}: passive block not unitary (residual {e1:.2e})",
                                      {"gate": type(g).__name__, "params": {k: repr(v) for k, v in g.params.items()}}))
        with pq.Program() as p:
            for g, modes in instrs:
                pq.Q(*modes) | g
        st = sim.execute(p, initial_state=st0).state
        lines.append(f"gauss {d} {flat(m0)} {flat(C0)} {flat(G0)} " + " ".join(ops))
        metas.append((d, st._m.copy(), st._C.copy(), st._G.copy(), [(type(g).__name__, modes) for g, modes in instrs], hbar, nontriv))
        # search side: congruence on the real state, Γ' = S Γ S^H accumulated over the sequence
        Gam = np.block([[C0.T + np.eye(d), G0], [G0.conj(), C0]])
        mean = m0.copy()
        for g, modes in instrs:
            Ph = np.eye(d, dtype=complex); Ah = np.zeros((d, d), dtype=complex)
            if isinstance(g, pq.Displacement):
                mean[list(modes)] += g.params["r"] * np.exp(1j * g.params["phi"])
                continue
            Ph[np.ix_(modes, modes)] = np.asarray(g._get_passive_block(conn, cfg))
            if hasattr(g, "_get_active_block") and g._get_active_block(conn, cfg) is not None:
                Ah[np.ix_(modes, modes)] = np.asarray(g._get_active_block(conn, cfg))
            S = np.block([[Ph, Ah], [Ah.conj(), Ph.conj()]])
            Gam = S @ Gam @ S.conj().T
            mean = Ph @ mean + Ah @ mean.conj()
        err = max(np.abs(Gam[d:, d:] - st._C).max(), np.abs(Gam[:d, d:] - st._G).max(), np.abs(mean - st._m).max())
        if err > 1e-8:
            fails.append((f"congruence:{[(n, m) for n, m in metas[-1][4]]}", f"GaussianSimulator result differs from the symplectic congruence by {err:.2e}",
                          {"d": d, "hbar": hbar, "sequence": metas[-1][4]}))
    outs = ctx.lean_run(lines)
    mism = []
    for (d, m, C, G, seq, hbar, nontriv), line, got in zip(metas, lines, outs):
        ctx.count(("seq", tuple(seq), d), nontrivial=nontriv, sample={"d": d, "hbar": hbar, "sequence": seq} if nontriv and len(ctx.samples) < 5 else None)
        if got == "bad-op":
            mism.append((seq, "model could not run", 0)); continue
        mm, CC, GG = parse_state(got, d)
        err = max(np.abs(mm - m).max(), np.abs(CC - C).max(), np.abs(GG - G).max())
        scale = 1 + max(np.abs(C).max(), np.abs(G).max(), np.abs(m).max())
        if err > 1e-9 * scale:
            mism.append((seq, f"max abs difference {err:.3e} (d={d})", err))
    return mism, fails


def run(ctx):
    from pqv import gengates
    quick = ctx.tier == "quick"
    n_seq, n_pts = (120, 20) if quick else (2500, 200)
    ctx.rule = ("gate matrices regenerated symbolically from gates.py (self-check: traced tree = real numpy block at random "
                "points, float64 and float32); random Gaussian states x sequences (<=6) of all linear gates, Interferometer, "
                "GaussianTransform, Displacement on any mode subset/order, d<=5, hbar in {0.5,1,2,3.7}: exact ℚ[i] model vs real "
                "(m,C,G) at 1e-9; non-trivial = some mode tuple not ascending or not adjacent")
    ctx.assumptions = ["the tracing shim (checked by the self-check)", "np.pi is emitted as Real.pi (k*pi/n recognised exactly)",
                       "Mathlib's Real/Complex cos, sin, cosh, sinh, exp vs libm within the self-check tolerance"]
    traced = gengates.trace_all()
    bad, npts = gengates.self_check(traced, n_pts, ctx.seed)
    ctx.notes["translator_selfcheck_points"] = npts
    gengates.emit(traced)
    if bad:
        ctx.broken.append("translator-selfcheck")
        ctx.notes["selfcheck_failures"] = [repr(b)[:300] for b in bad[:5]]
    ctx.prove("PqVerif.Props.C07", THEOREMS, FILES)
    mism, fails = run_sequences(ctx, n_seq)
    ctx.notes["correspondence_mismatches"] = len(mism)
    seen = set()
    for key, msg, inp in fails:
        if key not in seen:
            seen.add(key)
            ctx.fail(key, msg, inp)
    if mism:
        ctx.notes["first_mismatches"] = [dict(sequence=repr(m[0])[:300], what=m[1]) for m in mism[:5]]
        ctx.broken.append("correspondence:Model/Gauss vs GaussianSimulator")
    if (mism or ctx.broken) and not ctx.violations:
        what = mism[0] if mism else None
        ctx.fail("correspondence:gauss" if mism else "broken:c07", (f"Gauss model and GaussianSimulator differ on {what[0]}: {what[1]}" if what else "proof/translator obligations broken"), None)
