"""C17: the fermionic simulators agree with each other and with exclusion (partial).
proof: PqVerif.Props.C17 — the Laplace recursion of the Fock simulator computes minors (Slater determinants);
Cauchy–Binet: blocks multiply and blocks of a unitary are unitary; label-level action of Ising-XX / two-mode
squeezing / controlled phase / passive gates conserves parity resp. particle number and keeps labels 0/1;
Gaussian side: (D,E) <-> covariance round trip, passive gate = orthogonal congruence, gates keep the covariance
matrix skew and pure, number states.
tie: exact runs of Model/FermiRep, FermiGates, FermiGauss against the real code (numba and generic recursion,
basis-vector supports of the real gates, dyadic (D,E)/covariance round trips, passive and SO updates).
search: random programs on d<=5 (occupation inputs; interferometers, beamsplitters, phase shifters, two-mode
squeezers, Ising-XX on consecutive modes) run on both real simulators: covariance matrices, all 2^d occupation
probabilities, sums, parity, number conservation, samples; quadratic Hamiltonians on the Gaussian simulator."""
import itertools
import numpy as np
from fractions import Fraction
from pqv.props.c07 import haar, qi, qs

THEOREMS = ["Pq.C17." + t for t in (
    "fermiRep_eq_det", "fermiRep_eq_compound", "number_conserved", "exclusion", "cauchy_binet", "blocks_multiplicative",
    "blocks_unitary", "ising_parity", "sq2_parity", "passive_number", "isingPair_norm", "sq2Pair_norm",
    "representation_roundtrip", "passive_is_congruence", "gate_keeps_valid", "number_state")]
FILES = ["PqVerif/Model/FermiRep.lean", "PqVerif/Model/FermiGates.lean", "PqVerif/Model/FermiGauss.lean",
         "PqVerif/Lemmas/FermiRepLaws.lean", "PqVerif/Lemmas/CauchyBinet.lean", "PqVerif/Lemmas/FermiGatesLaws.lean",
         "PqVerif/Lemmas/FermiGaussLaws.lean", "PqVerif/Props/C17.lean"]


def dyadic(rng, shape, complex_=True, den=8, lo=-8, hi=9):
    a = rng.integers(lo, hi, size=shape) / den
    if complex_:
        a = a + 1j * rng.integers(lo, hi, size=shape) / den
    return a


def flatq(M):
    return ",".join(qs(x) for x in np.asarray(M, dtype=float).reshape(-1))


def parse_frep(line, d):
    toks = line.split(" ")
    out = {}
    for i in range(0, 8, 2):
        out[toks[i]] = np.array([float(Fraction(t)) for t in toks[i + 1].split(",")]).reshape(d, d)
    return out["Dr"] + 1j * out["Di"], out["Er"] + 1j * out["Ei"]


# ------------------------------------------------------------------ correspondences
def rep_correspondence(ctx, n):
    from piquasso._simulators.connectors import NumpyConnector
    from piquasso._simulators.connectors.connector import BuiltinConnector
    from piquasso.fermionic._utils import next_first_quantized
    from math import comb
    rng = np.random.default_rng(ctx.seed + 17)
    conn = NumpyConnector()
    lines, metas = [], []
    for it in range(n):
        d = int(rng.integers(1, 6))
        cutoff = int(rng.integers(1, d + 2))
        U = dyadic(rng, (d, d), den=4, lo=-4, hi=5)
        reps = conn.calculate_interferometer_on_fermionic_fock_space(U.copy(), cutoff)
        reps2 = BuiltinConnector.calculate_interferometer_on_fermionic_fock_space(conn, U.copy(), cutoff)
        for nn in range(cutoff):
            # independent oracle: determinants of submatrices in the code's subset order
            subs = []
            fq = np.arange(nn)
            for _ in range(comb(d, nn)):
                subs.append(tuple(int(x) for x in fq))
                fq = next_first_quantized(fq.copy(), d)
            orc = np.array([[np.linalg.det(U[np.ix_(r, c)]) if nn else 1.0 for c in subs] for r in subs]).reshape(len(subs), len(subs))
            lines.append(f"fermirep {d} {nn} " + ",".join(qi(z) for z in U.reshape(-1)))
            # a representation list that stops early (a missing sector) is a mismatch, not a harness error
            r1 = np.asarray(reps[nn]) if nn < len(reps) else np.zeros((0, 0))
            r2 = np.asarray(reps2[nn]) if nn < len(reps2) else np.zeros((0, 0))
            metas.append((r1, r2, orc, d, nn, sorted(subs) == sorted(itertools.combinations(range(d), nn))))
    outs = ctx.lean_run(lines)
    mism = []
    for l, (r1, r2, orc, d, nn, subs_ok), o in zip(lines, metas, outs):
        ctx.count(l[:100], nontrivial=nn >= 2 and d >= 3)
        try:
            M = np.array([[complex(float(Fraction(t.split(";")[0])), float(Fraction(t.split(";")[1]))) for t in row.split(",")] for row in o.split(" ")])
        except Exception:
            mism.append((l[:100], "unparsable model output " + o[:60])); continue
        if not subs_ok:
            mism.append((l[:100], "next_first_quantized does not enumerate the n-subsets")); continue
        for nm, r in (("numba", r1), ("generic", r2), ("determinant oracle", orc)):
            if M.shape != r.shape or np.abs(M - r).max() > 1e-9 * (1 + np.abs(M).max()):
                mism.append((l[:100], f"{nm} block n={nn} differs from the model by {np.abs(M - r).max() if M.shape == r.shape else ('a missing block' if r.size == 0 else 'shape ' + str(r.shape))}")); break
    return mism


class FakeGate:
    def __init__(self, block, modes, params=None):
        self._block, self.modes, self.params = block, tuple(modes), params or {}

    def _get_passive_block(self, connector, config):
        return self._block


def targets_correspondence(ctx, n):
    """support of the real gates on every basis vector vs Model/FermiGates targets"""
    import piquasso as pq
    from piquasso.fermionic.fock.simulation_steps import passive_linear, squeezing2, controlled_phase, ising_XX
    from piquasso.fermionic.fock.state import PureFockState
    from piquasso.fermionic._utils import get_fock_space_basis
    from piquasso._simulators.connectors import NumpyConnector
    rng = np.random.default_rng(ctx.seed + 171)
    conn = NumpyConnector()
    lines, metas = [], []
    for it in range(n):
        d = int(rng.integers(2, 6))
        cfg = pq.Config(cutoff=d + 1)
        basis = [tuple(int(x) for x in b) for b in get_fock_space_basis(d, d + 1)]
        kind = ["ising", "sq2", "cphase", "passive"][it % 4]
        a = int(rng.integers(0, d - 1))
        if kind == "passive":
            k = int(rng.integers(1, d - a + 1))
            modes = tuple(range(a, a + k))
            inst = FakeGate(haar(rng, k), modes)
        else:
            modes = (a, a + 1)
            inst = FakeGate(None, modes, {"phi": float(rng.uniform(0.3, 1.2)), "r": float(rng.uniform(0.3, 1.2))})
        for s in basis:
            st = PureFockState(d=d, connector=conn, config=cfg)
            st._state_vector[basis.index(s)] = 1.0
            {"ising": ising_XX, "sq2": squeezing2, "cphase": controlled_phase, "passive": passive_linear}[kind](st, inst, None)
            sup = sorted(basis[i] for i in np.nonzero(np.abs(st._state_vector) > 1e-12)[0])
            lines.append(f"fermitargets {kind} {','.join(map(str, s))} {','.join(map(str, modes))}")
            metas.append((sup, float(np.sum(np.abs(st._state_vector) ** 2)), kind, s, modes))
    outs = ctx.lean_run(lines)
    mism, fails = [], []
    for l, (sup, norm, kind, s, modes), o in zip(lines, metas, outs):
        ctx.count(l, nontrivial=len(sup) >= 2)
        model = sorted(tuple(int(x) for x in r.split(",")) for r in o.split(";")) if o not in ("empty", "bad-op") else o
        model = sorted(set(model)) if isinstance(model, list) else model
        if model != sup:
            mism.append((l, f"support of the real {kind} gate on |{s}> is {sup}, model targets {model}"))
        if abs(norm - 1) > 1e-9:
            fails.append((f"norm:{kind}", f"{kind} gate on modes {modes} maps |{s}> to a vector of squared norm {norm}", {"gate": kind, "modes": modes, "input": s}))
        for t in sup:
            if (sum(t) - sum(s)) % 2 or any(x not in (0, 1) for x in t) or (kind in ("passive", "cphase") and sum(t) != sum(s)):
                fails.append((f"selection-rule:{kind}", f"{kind} gate on modes {modes} moves amplitude from |{s}> to |{t}>", {"gate": kind, "modes": modes, "input": s, "output": t}))
    return mism, fails


def gauss_correspondence(ctx, n):
    """exact (dyadic) comparison of the (D,E) representation code with Model/FermiGauss"""
    import piquasso as pq
    from piquasso.fermionic.gaussian.state import GaussianState
    from piquasso.fermionic.gaussian import simulation_steps as gs
    from piquasso._simulators.connectors import NumpyConnector
    rng = np.random.default_rng(ctx.seed + 1717)
    lines, metas = [], []

    class FixedExpm(NumpyConnector):
        def expm(self, m):
            return self._fixed

    for it in range(n):
        d = int(rng.integers(1, 5))
        conn = FixedExpm()
        st = GaussianState(d=d, connector=conn, config=pq.Config(validate=False))
        D, E = dyadic(rng, (d, d)), dyadic(rng, (d, d))
        st._D, st._E = D.copy(), E.copy()
        rep = f"{flatq(D.real)} {flatq(D.imag)} {flatq(E.real)} {flatq(E.imag)}"
        kind = it % 5
        if kind == 0:
            lines.append(f"fgget {d} {rep}")
            metas.append(("get", d, np.asarray(st.covariance_matrix)))
        elif kind == 1:
            cov = dyadic(rng, (2 * d, 2 * d), complex_=False)
            st.covariance_matrix = cov.copy()
            lines.append(f"fgset {d} {flatq(cov)}")
            metas.append(("set", d, (np.asarray(st._D), np.asarray(st._E))))
        elif kind == 2:
            k = int(rng.integers(1, d + 1))
            modes = tuple(int(x) for x in rng.permutation(d)[:k])
            U = dyadic(rng, (k, k), den=4, lo=-4, hi=5)
            gs.passive_linear_gate(st, FakeGate(U, modes), None)
            Ue = np.eye(d, dtype=complex)
            Ue[np.ix_(modes, modes)] = U
            lines.append(f"fgpassive {d} {flatq(Ue.real)} {flatq(Ue.imag)} {rep}")
            metas.append(("passive", d, (np.asarray(st._D), np.asarray(st._E))))
        elif kind == 3:
            k = int(rng.integers(1, d + 1))
            modes = tuple(int(x) for x in rng.permutation(d)[:k])
            O = dyadic(rng, (2 * k, 2 * k), complex_=False, den=2, lo=-2, hi=3)
            conn._fixed = O
            gs._do_apply_gaussian_hamiltonian(st, np.zeros((2 * k, 2 * k)), modes)
            dm = [x for m in modes for x in (2 * m, 2 * m + 1)]
            Oe = np.eye(2 * d)
            Oe[np.ix_(dm, dm)] = O
            lines.append(f"fgso {d} {flatq(Oe)} {rep}")
            metas.append(("so", d, (np.asarray(st._D), np.asarray(st._E))))
        else:
            occ = rng.integers(0, 2, size=d)
            st._set_occupation_numbers(occ)
            lines.append(f"fgocc {d} {','.join(map(str, occ))}")
            metas.append(("occ", d, (np.asarray(st._D), np.asarray(st._E))))
    outs = ctx.lean_run(lines)
    mism = []
    for l, (kind, d, real), o in zip(lines, metas, outs):
        ctx.count(l[:60] + str(hash(l)), nontrivial=d >= 2)
        try:
            if kind == "get":
                M = np.array([float(Fraction(t)) for t in o.split(",")]).reshape(2 * d, 2 * d)
                bad = np.abs(M - real).max()
            else:
                Dm, Em = parse_frep(o, d)
                bad = max(np.abs(Dm - real[0]).max(), np.abs(Em - real[1]).max())
        except Exception:
            mism.append((l[:160], "unparsable model output " + o[:60])); continue
        if bad > 1e-12:
            mism.append((l[:160], f"fermionic Gaussian `{kind}` differs from Model/FermiGauss by {bad}"))
    return mism


# ------------------------------------------------------------------ cross-simulator search
def all_occ(d):
    return list(itertools.product((0, 1), repeat=d))


def random_program(pq, rng, d, passive_only):
    u = lambda a, b: float(rng.uniform(a, b))
    gates = []
    for _ in range(int(rng.integers(1, 6))):
        c = int(rng.integers(0, 3 if passive_only else 5))
        if d == 1:
            c = 1
        a = int(rng.integers(0, max(1, d - 1)))
        if c == 0:
            k = int(rng.integers(1, d - a + 1))
            gates.append(("Interferometer", dict(matrix=haar(rng, k)), tuple(range(a, a + k))))
        elif c == 1:
            gates.append(("Phaseshifter", dict(phi=u(-3, 3)), (int(rng.integers(0, d)),)))
        elif c == 2:
            gates.append(("Beamsplitter", dict(theta=u(-3, 3), phi=u(-3, 3)), (a, a + 1)))
        elif c == 3:
            gates.append(("Squeezing2", dict(r=u(-1.5, 1.5), phi=u(-3, 3)), (a, a + 1)))
        else:
            gates.append(("IsingXX", dict(phi=u(-3, 3)), (a, a + 1)))
    return gates


def build(pq, occ, gates):
    ins = [pq.StateVector(tuple(occ)).on_modes(*range(len(occ)))]
    for nm, params, modes in gates:
        cls = getattr(pq, nm, None) or getattr(pq.fermionic, nm)
        ins.append(cls(**params).on_modes(*modes))
    return pq.Program(instructions=ins)


def cross_simulator(ctx, n):
    import piquasso as pq
    import warnings
    from pqv.pathrng import exact_law
    rng = np.random.default_rng(ctx.seed + 5)
    fails = []
    for it in range(n):
        d = int(rng.integers(1, 6))
        occ = [int(x) for x in rng.integers(0, 2, size=d)]
        passive_only = rng.random() < 0.3
        gates = random_program(pq, rng, d, passive_only)
        passive_only = all(g[0] in ("Interferometer", "Phaseshifter", "Beamsplitter") for g in gates)
        desc = {"d": d, "occ": occ, "gates": [(nm, {k: (np.asarray(v).tolist() if not isinstance(v, float) else v) for k, v in p.items()} if nm != "Interferometer" else "haar", m) for nm, p, m in gates]}
        replay = {"d": d, "occ": occ, "gates": [(nm, {k: (str(np.asarray(v).tolist())) for k, v in p.items()}, m) for nm, p, m in gates]}
        try:
            with warnings.catch_warnings():
                warnings.simplefilter("ignore")
                sg = pq.fermionic.GaussianSimulator(d=d).execute(build(pq, occ, gates)).state
                sf = pq.fermionic.PureFockSimulator(d=d, config=pq.Config(cutoff=d + 1)).execute(build(pq, occ, gates)).state
        except Exception as e:
            fails.append((f"raise:{type(e).__name__}", f"supported fermionic program raised {type(e).__name__}: {str(e)[:150]}", replay)); continue
        nontriv = d >= 3 and len(gates) >= 2 and 0 < sum(occ) < d
        ctx.count(("cross", it), nontrivial=nontriv, sample=desc if nontriv and len(ctx.samples) < 3 else None)
        cg, cf = np.asarray(sg.covariance_matrix), np.asarray(sf.covariance_matrix)
        if cg.shape != cf.shape or np.abs(cg - cf).max() > 1e-8:
            fails.append(("covariance", f"Gaussian and Fock covariance matrices differ by {np.abs(cg - cf).max() if cg.shape == cf.shape else 'shape'}", replay))
        if np.abs(cg + cg.T).max() > 1e-9 or np.abs(cg @ cg.T - np.eye(2 * d)).max() > 1e-8:
            fails.append(("gaussian-covariance-invalid", "Gaussian covariance matrix is not skew-symmetric and orthogonal after unitary gates on a number state", replay))
        occs = all_occ(d)
        pg = np.array([float(np.real(sg.get_particle_detection_probability(np.array(o)))) for o in occs])
        pf = np.array([float(np.real(sf.get_particle_detection_probability(np.array(o)))) for o in occs])
        if np.abs(pg - pf).max() > 1e-8:
            i = int(np.argmax(np.abs(pg - pf)))
            fails.append(("occupation-probabilities", f"occupation probabilities differ: {occs[i]} Gaussian {pg[i]:.6g} vs Fock {pf[i]:.6g}", replay))
        # the array / map interfaces
        fpg = np.asarray(sg.fock_probabilities)
        if fpg.shape != (2 ** d,) or np.abs(fpg - pg).max() > 1e-9:
            fails.append(("gaussian-fock_probabilities-order", "GaussianState.fock_probabilities is not the lexicographic list of get_particle_detection_probability", replay))
        fmap = sf.fock_probabilities_map
        keys = [tuple(int(x) for x in k) for k in fmap]
        if sorted(keys) != sorted(occs):
            fails.append(("fock-map-keys", f"fock_probabilities_map keys are not the 2^d occupation vectors with entries 0/1 ({len(keys)} keys)", replay))
        else:
            vals = np.array([float(np.real(fmap[k])) for k in fmap])
            if np.abs(vals - np.array([pf[occs.index(k)] for k in keys])).max() > 1e-9:
                fails.append(("fock-map-values", "fock_probabilities_map disagrees with get_particle_detection_probability", replay))
        for nm, p in (("Gaussian", pg), ("Fock", pf)):
            if abs(p.sum() - 1) > 1e-8:
                fails.append((f"sum:{nm}", f"{nm} occupation probabilities sum to {p.sum():.9g}", replay))
            par = sum(occ) % 2
            wrong = sum(p[i] for i, o in enumerate(occs) if sum(o) % 2 != par)
            if wrong > 1e-8:
                fails.append((f"parity:{nm}", f"{nm}: probability {wrong:.3g} on the wrong parity sector", replay))
            if passive_only:
                wrong = sum(p[i] for i, o in enumerate(occs) if sum(o) != sum(occ))
                if wrong > 1e-8:
                    fails.append((f"number:{nm}", f"{nm}: passive program moved probability {wrong:.3g} to another particle number", replay))
        # mean particle numbers
        mg = np.asarray(sg.mean_particle_numbers(tuple(range(d))))
        mf = np.array([sum(pf[i] for i, o in enumerate(occs) if o[m] == 1) for m in range(d)])
        if np.abs(mg - mf).max() > 1e-8:
            fails.append(("mean-particle-numbers", f"mean_particle_numbers {mg} vs Fock marginals {mf}", replay))
        # sampling law of the Gaussian chain-rule sampler on a subset of modes (exact by path enumeration)
        if it % 4 == 0 and d <= 4:
            k = int(rng.integers(1, d + 1))
            modes = tuple(sorted(int(x) for x in rng.permutation(d)[:k]))
            from piquasso.fermionic.gaussian.simulation_steps import _generate_particle_number_samples

            def runner(r):
                sg._config.rng = r
                return _generate_particle_number_samples(sg, FakeGate(None, modes), 1)[0]
            keep = sg._config.rng
            try:
                law = exact_law(runner)
            finally:
                sg._config.rng = keep
            marg = {}
            for i, o in enumerate(occs):
                key = tuple(o[m] for m in modes)
                marg[key] = marg.get(key, 0.0) + pf[i]
            for key in set(marg) | set(law):
                if abs(marg.get(key, 0.0) - law.get(key, 0.0)) > 1e-7:
                    fails.append(("gaussian-sampler-law", f"chain-rule sampler on modes {modes}: P({key}) = {law.get(key, 0.0):.6g}, Fock marginal {marg.get(key, 0.0):.6g}", dict(replay, modes=modes))); break
            ctx.count(("sampler", it), nontrivial=k >= 2)
        # truncated cutoff for passive programs: amplitudes of represented sectors are unaffected
        if passive_only and sum(occ) + 1 < d + 1:
            try:
                with warnings.catch_warnings():
                    warnings.simplefilter("ignore")
                    st = pq.fermionic.PureFockSimulator(d=d, config=pq.Config(cutoff=sum(occ) + 1)).execute(build(pq, occ, gates)).state
                pt = np.array([float(np.real(st.get_particle_detection_probability(np.array(o)))) if sum(o) <= sum(occ) else 0.0 for o in occs])
                if np.abs(pt - pf).max() > 1e-8:
                    fails.append(("truncated-cutoff", f"passive program with cutoff {sum(occ) + 1} differs from the full-space result by {np.abs(pt - pf).max():.3g}", replay))
            except Exception as e:
                fails.append((f"raise-truncated:{type(e).__name__}", f"passive program with cutoff n+1 raised {type(e).__name__}: {str(e)[:120]}", replay))
    return fails


def hamiltonian_family(ctx, n):
    """quadratic Hamiltonians on the Gaussian simulator: validity, parity, agreement with exp(iH) in Fock space"""
    import piquasso as pq
    import warnings
    from scipy.linalg import expm
    from piquasso.fermionic._utils import get_fermionic_hamiltonian, binary_to_fock_indices
    from piquasso._simulators.connectors import NumpyConnector
    rng = np.random.default_rng(ctx.seed + 55)
    fails = []
    for it in range(n):
        d = int(rng.integers(1, 5))
        occ = [int(x) for x in rng.integers(0, 2, size=d)]
        k = int(rng.integers(1, d + 1))
        a = int(rng.integers(0, d - k + 1))
        modes = tuple(range(a, a + k))
        A = rng.normal(size=(k, k)) + 1j * rng.normal(size=(k, k)); A = (A + A.conj().T) / 2
        B = rng.normal(size=(k, k)) + 1j * rng.normal(size=(k, k)); B = (B - B.T) / 2
        if rng.random() < 0.3:
            B = B * 0
        H = np.block([[-A.conj(), B], [-B.conj(), A]]) * 0.4
        replay = {"d": d, "occ": occ, "modes": modes, "H": str(H.tolist())}
        try:
            with warnings.catch_warnings():
                warnings.simplefilter("ignore")
                prog = pq.Program(instructions=[pq.StateVector(tuple(occ)).on_modes(*range(d)), pq.fermionic.GaussianHamiltonian(H).on_modes(*modes)])
                sg = pq.fermionic.GaussianSimulator(d=d).execute(prog).state
        except Exception as e:
            fails.append((f"hamiltonian-raise:{type(e).__name__}", f"GaussianHamiltonian raised {type(e).__name__}: {str(e)[:120]}", replay)); continue
        ctx.count(("ham", it), nontrivial=k >= 2 and np.abs(B).max() > 0)
        occs = all_occ(d)
        pg = np.array([float(np.real(sg.get_particle_detection_probability(np.array(o)))) for o in occs])
        cg = np.asarray(sg.covariance_matrix)
        if np.abs(cg + cg.T).max() > 1e-9 or np.abs(cg @ cg.T - np.eye(2 * d)).max() > 1e-8:
            fails.append(("hamiltonian-covariance-invalid", "covariance matrix not skew/orthogonal after GaussianHamiltonian", replay))
        if abs(pg.sum() - 1) > 1e-8:
            fails.append(("hamiltonian-sum", f"probabilities sum to {pg.sum():.9g} after GaussianHamiltonian", replay))
        wrong = sum(pg[i] for i, o in enumerate(occs) if sum(o) % 2 != sum(occ) % 2)
        if wrong > 1e-8:
            fails.append(("hamiltonian-parity", f"probability {wrong:.3g} on the wrong parity after GaussianHamiltonian", replay))
        if np.abs(B).max() == 0 and sum(pg[i] for i, o in enumerate(occs) if sum(o) != sum(occ)) > 1e-8:
            fails.append(("hamiltonian-number", "number-conserving Hamiltonian (B=0) changed the particle number", replay))
        # independent oracle: exp(i Ĥ) on the 2^d-dimensional space (the documented definition), embedded Hamiltonian
        Hfull = np.zeros((2 * d, 2 * d), dtype=complex)
        idx = list(modes) + [d + m for m in modes]
        Hfull[np.ix_(idx, idx)] = H
        big = get_fermionic_hamiltonian(Hfull, NumpyConnector())
        psi = np.zeros(2 ** d, dtype=complex)
        psi[int("".join(map(str, occ)), 2)] = 1.0
        out = expm(1j * big) @ psi
        po = np.abs(out) ** 2
        if np.abs(po - pg).max() > 1e-7:
            i = int(np.argmax(np.abs(po - pg)))
            fails.append(("hamiltonian-vs-exponential", f"GaussianHamiltonian probabilities differ from exp(i f H f†)|n>: {occs[i]} {pg[i]:.6g} vs {po[i]:.6g}", replay))
    return fails


def run(ctx):
    quick = ctx.tier == "quick"
    ctx.rule = ("random fermionic programs, d in 1..5, occupation-number inputs, 1..5 gates among Interferometer (Haar, 1..d consecutive modes), "
                "Phaseshifter, Beamsplitter, Squeezing2, IsingXX on consecutive modes, on both real simulators (cutoff d+1): covariance matrices, all 2^d "
                "occupation probabilities, sums, parity, number conservation for passive programs, mean numbers, exact law of the Gaussian chain-rule sampler; "
                "GaussianHamiltonian vs exp(iH) in the 2^d space; non-trivial = d>=3, >=2 gates, 0<n<d")
    ctx.assumptions = ["the overlap formula sqrt det((1-ΓΓ_n)/2) = Fock probability and expm(-4h) = spin representation of exp(iH) are compared numerically, not proved",
                       "Fock simulator with cutoff < d+1 and number-changing gates is outside the compared domain (truncation)"]
    ctx.prove("PqVerif.Props.C17", THEOREMS, FILES)
    m1 = rep_correspondence(ctx, 12 if quick else 150)
    m2, f2 = targets_correspondence(ctx, 12 if quick else 120)
    m3 = gauss_correspondence(ctx, 60 if quick else 1500)
    fails = f2 + cross_simulator(ctx, 80 if quick else 2500) + hamiltonian_family(ctx, 40 if quick else 800)
    seen = set()
    for key, msg, inp in fails:
        if key not in seen:
            seen.add(key)
            ctx.fail(key, msg, inp)
    for nm, mm in (("Model/FermiRep vs calculate_interferometer_on_fermionic_fock_space", m1), ("Model/FermiGates vs fermionic Fock gates", m2),
                   ("Model/FermiGauss vs fermionic GaussianState", m3)):
        if mm:
            ctx.notes.setdefault("first_mismatches", []).extend(dict(op=m[0], what=m[1]) for m in mm[:3])
            ctx.broken.append("correspondence:" + nm)
    ctx.notes["correspondence_mismatches"] = len(m1) + len(m2) + len(m3)
