"""C02: measurement samples follow the Born rule of the measured state (partial).
proof: PqVerif.Props.C02 — inverse-CDF pick hits outcome i with probability w_i/Σw; a chain-rule sampler whose
conditional tables are consistent marginals samples the joint law; rejection with early abort does not change
the accepted law; shot bookkeeping (C03).  Not proved: the Clifford–Clifford marginal identity and the
Gaussian (hafnian / torontonian) conditional probabilities — their exact laws are computed, not proved.
tie: no statistics for the discrete samplers: the REAL sampling functions are run with a scripted generator that
enumerates every random-choice path with its probability, giving the exact law of the implementation, which is
compared with the Born distribution of an independent oracle (dilation + permanents, C05); continuous outcomes:
the (mean, cov) handed to multivariate_normal vs the quantum mean and (sigma+sigma_m)/2; sample shapes on all
simulators; Gaussian photon-number sampling statistically (6-sigma, fixed seeds)."""
import itertools
import warnings
import math
import numpy as np
from pqv.pathrng import exact_law, PathRng
from pqv.props.c05 import reference_table, halmos, gram
from pqv.props.c07 import haar

THEOREMS = ["Pq.C02.pick_law", "Pq.C02.chain_sampler_law", "Pq.C02.chain_total", "Pq.C02.early_abort_sound", "Pq.C02.early_abort_never_bad",
            "Pq.C02.cc_pmf_numerator", "Pq.C02.cc_pmf_normalisation"]
FILES = ["PqVerif/Model/Sampler.lean", "PqVerif/Lemmas/PermSpec.lean", "PqVerif/Lemmas/FockRepLaws.lean", "PqVerif/Lemmas/CliffordClifford.lean", "PqVerif/Props/C02.lean"]


def born_table(T, occ, G=None):
    n = sum(occ)
    Gm = np.ones((n, n), dtype=complex) if G is None else G
    return reference_table(T, occ, Gm, n + 1)


def compare(law, ref, tol=1e-9):
    keys = set(law) | set(k for k, v in ref.items() if v > 1e-15)
    worst, wk = 0.0, None
    for k in keys:
        dlt = abs(law.get(k, 0.0) - ref.get(k, 0.0))
        if dlt > worst:
            worst, wk = dlt, k
    return worst, wk


def passive_samplers(ctx, n_cases):
    from piquasso._simulators.passive import sampling
    from piquasso._math.permanent import permanent_laplace
    from piquasso._math.indices import to_first_quantized
    rng = np.random.default_rng(ctx.seed + 2)
    fails = []
    dist = {}
    for it in range(n_cases):
        d = int(rng.integers(1, 4)); n = int(rng.integers(1, 4))
        occ = np.zeros(d, dtype=int)
        for _ in range(n):
            occ[int(rng.integers(0, d))] += 1
        U = haar(rng, d)
        fq = to_first_quantized(occ)
        kind = str(rng.choice(["ideal", "uniform-loss", "postselect", "postselect-loss", "overlap", "postselect-overlap", "marginal", "lossy-general"]))
        desc = {"kind": kind, "d": d, "occ": occ.tolist(), "U": repr(np.round(U, 6).tolist())}
        dist[kind] = dist.get(kind, 0) + 1
        try:
            if kind == "ideal":
                law = exact_law(lambda r: tuple(int(x) for x in sampling._generate_sample(d, n, permanent_laplace, U, fq, rng=r, reject_condition=lambda: False)))
                ref = born_table(U, occ.tolist())
            elif kind == "uniform-loss":
                t = float(rng.uniform(0.3, 0.9))      # transmission PROBABILITY of each photon
                law = exact_law(lambda r: tuple(int(x) for x in sampling._generate_sample(
                    d, n, permanent_laplace, U, fq, rng=r, reject_condition=lambda: r.random() > t)))
                ref = born_table(np.sqrt(t) * U, occ.tolist())
                desc["transmission_probability"] = t
            elif kind == "postselect":
                pm = int(rng.integers(0, d)); pc = int(rng.integers(0, n + 1))
                def run_ps(r):
                    try:
                        out = sampling._generate_sample_with_postselect(d, n, permanent_laplace, U, fq, rng=r, reject_condition=lambda: False,
                                                                        postselect_data=((pm,), (pc,), 1))
                        return tuple(int(x) for x in out)
                    except Exception as e:
                        if type(e).__name__ == "InvalidSimulation":
                            return ("__rejected__",)
                        raise
                law = exact_law(run_ps)
                full = born_table(U, occ.tolist())
                acc = {k: v for k, v in full.items() if k[pm] == pc}
                ref = {tuple(x for i, x in enumerate(k) if i != pm): v for k, v in acc.items()}
                ref[("__rejected__",)] = 1.0 - sum(acc.values())
                desc.update(postselect_mode=pm, postselect_count=pc)
            elif kind == "postselect-loss":
                # uniform loss AND post-selection: accepted samples follow the lossy Born rule conditioned on the count
                t = float(rng.uniform(0.3, 0.9))
                pm = int(rng.integers(0, d)); pc = int(rng.integers(0, n + 1))
                def run_psl(r):
                    try:
                        out = sampling._generate_sample_with_postselect(d, n, permanent_laplace, U, fq, rng=r, reject_condition=lambda: r.random() > t,
                                                                        postselect_data=((pm,), (pc,), 1))
                        return tuple(int(x) for x in out)
                    except Exception as e:
                        if type(e).__name__ == "InvalidSimulation":
                            return ("__rejected__",)
                        raise
                law = exact_law(run_psl)
                full = born_table(np.sqrt(t) * U, occ.tolist())
                acc = {k: v for k, v in full.items() if k[pm] == pc}
                ref = {}
                for k, v in acc.items():
                    kk = tuple(x for i, x in enumerate(k) if i != pm)
                    ref[kk] = ref.get(kk, 0.0) + v
                ref[("__rejected__",)] = 1.0 - sum(acc.values())
                desc.update(postselect_mode=pm, postselect_count=pc, transmission_probability=t)
            elif kind == "overlap":
                x = float(rng.choice([0.0, 1 / 3, 0.7, 1.0]))
                law = exact_law(lambda r: tuple(int(v) for v in sampling._generate_sample_with_uniform_overlap(
                    d, n, permanent_laplace, U, fq, rng=r, reject_condition=lambda: False, uniform_particle_overlap=x)))
                Gm = (1 - x) * np.eye(n) + x * np.ones((n, n)) + 0j
                ref = born_table(U, occ.tolist(), Gm)
                desc["overlap"] = x
            elif kind == "postselect-overlap":
                x = float(rng.choice([0.0, 0.5, 1.0]))
                pm = int(rng.integers(0, d)); pc = int(rng.integers(0, n + 1))
                def run_pso(r):
                    try:
                        out = sampling._generate_sample_with_postselect_and_uniform_overlap(
                            d, n, permanent_laplace, U, fq, rng=r, reject_condition=lambda: False,
                            postselect_data=((pm,), (pc,), 1), uniform_particle_overlap=x)
                        return tuple(int(v) for v in out)
                    except Exception as e:
                        if type(e).__name__ == "InvalidSimulation":
                            return ("__rejected__",)
                        raise
                law = exact_law(run_pso)
                Gm = (1 - x) * np.eye(n) + x * np.ones((n, n)) + 0j
                full = born_table(U, occ.tolist(), Gm)
                acc = {k: v for k, v in full.items() if k[pm] == pc}
                tot = sum(acc.values())
                # this sampler may condition internally instead of rejecting: compare the conditional law
                law_acc = {k: v for k, v in law.items() if k != ("__rejected__",)}
                s = sum(law_acc.values())
                law = {k: v / s for k, v in law_acc.items()} if s > 0 else {}
                ref = {tuple(xv for i, xv in enumerate(k) if i != pm): v / tot for k, v in acc.items()} if tot > 1e-12 else {}
                desc.update(postselect_mode=pm, postselect_count=pc, overlap=x)
                if tot <= 1e-12:
                    continue
            elif kind == "marginal":
                if d < 2:
                    continue
                k = int(rng.integers(1, d))
                modes = tuple(int(v) for v in rng.choice(d, size=k, replace=False))
                import piquasso as pq

                class Cfg:
                    pass
                def run_m(r):
                    cfg = Cfg(); cfg.rng = r
                    return tuple(int(v) for v in sampling.generate_marginal_samples(occ, U, modes, 1, cfg, ((), (), 1))[0])
                law = exact_law(run_m)
                full = born_table(U, occ.tolist())
                ref = {}
                for kk, v in full.items():
                    key = tuple(kk[m] for m in modes)
                    ref[key] = ref.get(key, 0.0) + v
                desc["modes"] = modes
            else:  # lossy-general: dilation inside the real code
                V2 = haar(rng, d); sv = rng.uniform(0.2, 1.0, size=d)
                T = U @ np.diag(sv) @ V2
                svd = np.linalg.svd(T)
                expanded = sampling._prepare_interferometer_matrix_in_expanded_space(svd)
                fq2 = to_first_quantized(np.concatenate([occ, np.zeros(d, dtype=int)]))
                law2 = exact_law(lambda r: tuple(int(v) for v in sampling._generate_sample(2 * d, n, permanent_laplace, expanded, fq2, rng=r, reject_condition=lambda: False)))
                law = {}
                for kk, v in law2.items():
                    law[kk[:d]] = law.get(kk[:d], 0.0) + v
                ref = born_table(T, occ.tolist())
                desc["T"] = repr(np.round(T, 6).tolist())
        except RuntimeError as e:
            continue
        except Exception as e:
            fails.append((f"sampler-raise:{kind}:{type(e).__name__}", f"{kind}: {type(e).__name__}: {str(e)[:120]}", desc)); continue
        ctx.count(("sampler", it), nontrivial=n >= 2, sample=dict(desc, outcomes=len(law)) if n >= 2 and len(ctx.samples) < 4 else None)
        worst, wk = compare(law, ref)
        if worst > 1e-8:
            fails.append((f"law:{kind}", f"{kind}: exact law of the real sampler gives P{wk} = {law.get(wk, 0.0):.8f}, Born rule {ref.get(wk, 0.0):.8f} (input {occ.tolist()})", desc))
    ctx.notes["sampler_kinds"] = dist
    return fails


def chain_model_correspondence(ctx, n_cases):
    """Model/Sampler.chain with the REAL conditional tables of the marginal sampler vs the exact law of the real loop"""
    from functools import partial
    from fractions import Fraction
    from piquasso._simulators.passive import sampling
    from piquasso._simulators.passive.marginal import get_binomial_moments, get_single_marginal_probability_from_binomial_moments
    from piquasso._math.fock import get_fock_space_basis
    rng = np.random.default_rng(ctx.seed + 2222)
    lines, laws = [], []
    for it in range(n_cases):
        d = int(rng.integers(2, 4)); n = int(rng.integers(1, 4))
        occ = np.zeros(d, dtype=int)
        for _ in range(n):
            occ[int(rng.integers(0, d))] += 1
        U = haar(rng, d)
        k = int(rng.integers(1, d))
        modes = tuple(int(v) for v in rng.choice(d, size=k, replace=False))
        bm = get_binomial_moments(input_photons=occ, interferometer=U, all_modes=np.array(modes), compositions=get_fock_space_basis(len(modes), n + 1))
        getp = partial(get_single_marginal_probability_from_binomial_moments, n=n, binomial_moments=bm, d=len(modes))
        toks = []
        for plen in range(k):
            for pre in itertools.product(range(n + 1), repeat=plen):
                if sum(pre) > n:
                    continue
                ws = []
                for a in range(n + 1):
                    ws.append(float(getp(particles=np.array(list(pre) + [a]))) if sum(pre) + a <= n else 0.0)
                q = lambda x: (lambda f: f"{f.numerator}/{f.denominator}")(Fraction(max(x, 0.0)))
                toks.append((".".join(map(str, pre)) or "-") + "=" + ",".join(q(x) for x in ws))
        lines.append(f"chainlaw {n + 1} {k} " + " ".join(toks))

        class Cfg:
            pass
        def run_m(r, occ=occ, U=U, modes=modes):
            cfg = Cfg(); cfg.rng = r
            return tuple(int(v) for v in sampling.generate_marginal_samples(occ, U, modes, 1, cfg, ((), (), 1))[0])
        laws.append(exact_law(run_m))
    outs = ctx.lean_run(lines)
    mism = []
    for l, law, o in zip(lines, laws, outs):
        ctx.count(("chainmodel", l[:60]), nontrivial=True)
        try:
            model = {tuple(int(x) for x in t.split("=")[0].split(".")): float(Fraction(t.split("=")[1])) for t in o.split(" ") if t}
        except Exception:
            mism.append((l[:100], "unparsable model output", o[:80])); continue
        worst, wk = compare(law, model)
        if worst > 1e-9:
            mism.append((l[:100], f"real marginal sampler law P{wk} = {law.get(wk, 0.0):.10f}", f"model chain {model.get(wk, 0.0):.10f}"))
    return mism


def continuous(ctx, n_cases):
    """(mean, cov) handed to multivariate_normal by the Gaussian dyne measurements vs the quantum values"""
    import piquasso as pq
    rng = np.random.default_rng(ctx.seed + 22)
    fails = []
    for it in range(n_cases):
        d = int(rng.integers(1, 4)); hbar = float(rng.choice([0.5, 1.0, 2.0, 3.7]))
        k = int(rng.integers(1, d + 1))
        modes = tuple(int(v) for v in rng.choice(d, size=k, replace=False))
        kind = str(rng.choice(["homodyne", "heterodyne", "generaldyne"]))
        phi = float(rng.uniform(0, 3))
        if kind == "homodyne":
            meas = pq.HomodyneMeasurement(phi=phi)
        elif kind == "heterodyne":
            meas = pq.HeterodyneMeasurement()
        else:
            r_ = float(rng.uniform(0, 0.8))
            S = np.array([[np.exp(-r_), 0], [0, np.exp(r_)]])
            meas = pq.GeneraldyneMeasurement(detection_covariance=S)
        with pq.Program() as p:
            pq.Q() | pq.Vacuum()
            for i in range(d):
                pq.Q(i) | pq.Squeezing(r=float(rng.uniform(0, 0.5)), phi=float(rng.uniform(0, 3)))
                pq.Q(i) | pq.Displacement(r=float(rng.uniform(0, 1)), phi=float(rng.uniform(0, 3)))
            if d >= 2:
                pq.Q(0, 1) | pq.Beamsplitter(theta=0.6, phi=0.3)
        sim = pq.GaussianSimulator(d=d, config=pq.Config(hbar=hbar, seed_sequence=int(rng.integers(1, 10 ** 6))))
        st = sim.execute(p).state
        captured = {}
        class Spy:
            def __init__(self, real): self.real = real
            def multivariate_normal(self, mean, cov, size=None, **kw):
                captured["mean"] = np.array(mean); captured["cov"] = np.array(cov)
                return self.real.multivariate_normal(mean=mean, cov=cov, size=size, **kw)
            def __deepcopy__(self, memo): return self
            def __getattr__(self, a):
                if a == "real":
                    raise AttributeError(a)
                return getattr(self.real, a)
        st2 = st.copy()
        st2._config.rng = Spy(st._config.rng)
        with pq.Program() as q:
            pq.Q(*modes) | meas
        try:
            res = pq.GaussianSimulator(d=d, config=st2._config).execute(q, shots=3, initial_state=st2)
        except Exception as e:
            fails.append((f"dyne-raise:{kind}:{type(e).__name__}", f"{kind}: {type(e).__name__}: {str(e)[:120]}", {"kind": kind})); continue
        ctx.count(("dyne", it), nontrivial=list(modes) != sorted(modes) or k >= 2)
        desc = {"kind": kind, "d": d, "modes": modes, "hbar": hbar, "phi": phi}
        idx = [x for m in modes for x in (2 * m, 2 * m + 1)]
        sigma = st.xpxp_covariance_matrix[np.ix_(idx, idx)]
        mu = st.xpxp_mean_vector[idx]
        if "cov" in captured:
            if kind == "heterodyne":
                sm = hbar * np.eye(2 * k)
                want_cov, want_mean = (sigma + sm) / 2, mu
                if captured["cov"].shape != want_cov.shape or np.abs(captured["cov"] - want_cov).max() > 1e-9:
                    fails.append((f"dyne-cov:{kind}", f"{kind}: samples drawn with covariance differing from (sigma+sigma_m)/2 by {np.abs(captured['cov'] - want_cov).max() if captured['cov'].shape == want_cov.shape else 'shape'}", desc))
                if np.abs(captured["mean"] - want_mean).max() > 1e-9:
                    fails.append((f"dyne-mean:{kind}", f"{kind}: samples drawn with a mean differing from the quantum mean", desc))
            elif kind == "generaldyne":
                sm = hbar * np.kron(np.eye(k), S)
                want_cov = (sigma + sm) / 2
                if captured["cov"].shape != want_cov.shape or np.abs(captured["cov"] - want_cov).max() > 1e-9:
                    fails.append((f"dyne-cov:{kind}", f"{kind}: samples drawn with covariance differing from (sigma+sigma_m)/2", desc))
        # one entry per measured quantity, in program order
        per_mode = {"homodyne": 1, "heterodyne": 2, "generaldyne": 2}[kind]
        for s in res.samples:
            if len(s) != per_mode * k:
                fails.append((f"dyne-shape:{kind}", f"{kind} on {k} mode(s): a sample has {len(s)} entries, expected {per_mode * k} (one per measured quantity)", desc)); break
    return fails


def shapes_and_discrete(ctx, n_cases):
    """sample shape / order on all simulators, threshold and photon-number measurement of Gaussian states (statistical)"""
    import piquasso as pq
    rng = np.random.default_rng(ctx.seed + 222)
    fails = []
    for it in range(n_cases):
        d = 3
        k = int(rng.integers(1, d + 1))
        modes = tuple(int(v) for v in rng.choice(d, size=k, replace=False))
        seed = int(rng.integers(1, 10 ** 6))
        shots = 4000
        with pq.Program() as p:
            pq.Q(0) | pq.Squeezing(r=0.5, phi=0.3); pq.Q(1) | pq.Squeezing(r=0.3, phi=1.0)
            pq.Q(0, 1) | pq.Beamsplitter(theta=0.7, phi=0.2); pq.Q(1, 2) | pq.Beamsplitter(theta=0.4, phi=0.9)
        cfg = pq.Config(seed_sequence=seed, cutoff=6, measurement_cutoff=5)
        st = pq.GaussianSimulator(d=d, config=cfg).execute(p).state
        for meas_name in ("ParticleNumberMeasurement", "ThresholdMeasurement"):
            for tor in ((False, True) if meas_name == "ThresholdMeasurement" else (False,)):
                cfg2 = pq.Config(seed_sequence=seed, cutoff=6, measurement_cutoff=5, use_torontonian=tor)
                with pq.Program() as q:
                    pq.Q(*modes) | getattr(pq, meas_name)()
                try:
                    res = pq.GaussianSimulator(d=d, config=cfg2).execute(q, shots=shots, initial_state=st)
                except Exception as e:
                    fails.append((f"gauss-{meas_name}-raise:{type(e).__name__}", f"{meas_name}: {type(e).__name__}: {str(e)[:100]}", {"modes": modes})); continue
                ctx.count(("gauss-discrete", it, meas_name, tor), nontrivial=list(modes) != sorted(modes))
                red = st.reduced(modes)
                counts = {}
                for s in res.samples:
                    if len(s) != k:
                        fails.append((f"shape:{meas_name}", f"{meas_name} on modes {modes}: sample with {len(s)} entries", {"modes": modes})); break
                    counts[tuple(int(x) for x in s)] = counts.get(tuple(int(x) for x in s), 0) + 1
                for occ, c in sorted(counts.items(), key=lambda kv: -kv[1])[:6]:
                    if meas_name == "ParticleNumberMeasurement":
                        if sum(occ) >= 5:
                            continue
                        pth = float(np.real(red.get_particle_detection_probability(occ)))
                    else:
                        pth = float(np.real(red.get_threshold_detection_probability(occ)))
                    sd = math.sqrt(max(pth * (1 - pth), 1e-12) / shots)
                    # the particle number sampler renormalises below measurement_cutoff: allow that bias
                    slack = 0.02 if meas_name == "ParticleNumberMeasurement" else 0.0
                    if abs(c / shots - pth) > 6 * sd + slack:
                        fails.append((f"gauss-law:{meas_name}{':torontonian' if tor else ''}", f"{meas_name} on modes {modes}: outcome {occ} has frequency {c / shots:.4f}, probability {pth:.4f} ({abs(c / shots - pth) / sd:.1f} sigma)",
                                      {"modes": modes, "seed": seed, "outcome": occ})); break
    return fails


def pmf_correspondence(ctx, n):
    """tie of Lemmas/CliffordClifford.lean to `_calculate_pmf`: the real conditional pmf of the chain-rule sampler equals
    |perm(U; r + e_i, v)|^2 / sum_c v_c^2 |perm(U; r, v - e_c)|^2 (permanents with multiplicities by the definition oracle),
    for random isometries, bunched partial samples r and bunched column multiplicities v"""
    from piquasso._simulators.passive import sampling
    from piquasso._math.permanent import permanent_laplace
    from pqv.props.c04 import perm_def
    rng = np.random.default_rng(ctx.seed + 222)
    mism = []
    for it in range(n):
        d = int(rng.integers(2, 5)); k = int(rng.integers(1, 5))
        U = haar(rng, d)
        v = np.zeros(d, dtype=int)
        for _ in range(k):
            v[int(rng.integers(0, d))] += 1
        r = np.zeros(d, dtype=int)
        for _ in range(k - 1):
            r[int(rng.integers(0, d))] += 1
        pmf = np.asarray(sampling._calculate_pmf(v.copy(), r.copy(), permanent_laplace, U))
        e = np.eye(d, dtype=int)
        num = np.array([abs(perm_def(U, r + e[i], v)) ** 2 for i in range(d)])
        den = sum(v[c] ** 2 * abs(perm_def(U, r, v - e[c])) ** 2 for c in range(d) if v[c] > 0)
        ctx.count(("pmf", it), nontrivial=k >= 2 and (v.max() >= 2 or r.max() >= 2))
        if den <= 1e-14:
            continue
        err = float(np.abs(pmf - num / den).max())
        if err > 1e-9:
            mism.append((f"pmf d={d} v={v.tolist()} r={r.tolist()}", f"_calculate_pmf differs from |perm(U; r+e_i, v)|^2 / sum_c v_c^2 |perm(U; r, v-e_c)|^2 by {err:.2e}"))
    return mism


KNOWN_HOMODYNE = "purefock-homodyne:multimode-conditional"


def pinned_purefock_homodyne(ctx):
    """PureFock HomodyneMeasurement on two modes of (|10>+|01>)/sqrt2: exact second moments (hbar = 2) are Var x0 = Var x1 = 2,
    Cov = 1.  The unchanged code weights the conditional density matrix of the second mode with un-normalised Hermite
    polynomials (factor 1/sqrt(2^n n!) missing), so only the first mode's marginal is right (20000 seeded shots:
    Var x1 = 1.79, Cov = 0.87, i.e. 13 and 8 standard errors)."""
    import piquasso as pq
    ctx.count("pinned:purefock-homodyne", True)
    with pq.Program() as p:
        pq.Q(0, 1) | pq.StateVector([1, 0])
        pq.Q(0, 1) | pq.Beamsplitter(theta=np.pi / 4, phi=0)
        pq.Q(0, 1) | pq.HomodyneMeasurement()
    shots = 20000
    with warnings.catch_warnings():
        warnings.simplefilter("ignore")
        res = pq.PureFockSimulator(d=2, config=pq.Config(cutoff=4, seed_sequence=3)).execute(p, shots=shots)
    smp = np.array(res.samples, dtype=float)
    cov = np.cov(smp.T)
    dev = {"Var x0": abs(cov[0, 0] - 2.0), "Var x1": abs(cov[1, 1] - 2.0), "Cov": abs(cov[0, 1] - 1.0)}
    ctx.notes["purefock_homodyne_cov"] = np.round(cov, 4).tolist()
    desc = {"program": "StateVector([1,0]); Beamsplitter(pi/4, 0); HomodyneMeasurement() on (0,1); PureFock cutoff 4, seed 3, 20000 shots",
            "sample_covariance": np.round(cov, 4).tolist(), "exact": [[2.0, 1.0], [1.0, 2.0]]}
    if max(dev.values()) <= 0.1:        # > 6 standard errors of each estimate
        return
    if dev["Var x0"] <= 0.1 and (dev["Var x1"] > 0.1 or dev["Cov"] > 0.1):
        ctx.fail(KNOWN_HOMODYNE, f"second moments of the samples {np.round(cov, 3).tolist()} instead of [[2, 1], [1, 2]]", desc)
    else:
        ctx.fail("purefock-homodyne:first-mode", f"second moments of the samples {np.round(cov, 3).tolist()} instead of [[2, 1], [1, 2]]", desc)


def imperfect_detector_law(ctx, n):
    """exact law of `_sample_detected_outcomes` (every random-choice path): the detected outcomes of `multiplicity` shots with the
    same actual outcome are independent draws from prod_modes D[:, actual_mode] — independent ACROSS MODES as well, also when two
    modes hold the same actual photon number"""
    from piquasso._simulators import simulation_steps as ss
    rng = np.random.default_rng(ctx.seed + 2222)
    fails = []
    for it in range(n):
        k = int(rng.integers(2, 4)); nd = int(rng.integers(2, 4)); mult = int(rng.integers(1, 3))
        D = np.triu(rng.uniform(0.05, 1.0, size=(nd, nd)))
        if rng.random() < 0.5:
            D[1:, 0] = rng.uniform(0.02, 0.2, size=nd - 1)            # dark counts
        D = D / D.sum(axis=0)
        actual = tuple(int(x) for x in rng.integers(0, nd, size=k))
        if it % 2 == 0:
            actual = (actual[0],) * k                                    # equal actual counts on all modes
        desc = {"actual_outcome": actual, "multiplicity": mult, "detector_efficiency_matrix": D.tolist()}
        def run(r):
            out = ss._sample_detected_outcomes(actual, mult, D, r)
            return tuple(sorted(out.items()))
        try:
            law = exact_law(run)
        except Exception as e:
            fails.append((f"imperfect-raise:{type(e).__name__}", f"{type(e).__name__}: {str(e)[:120]}", desc)); continue
        single = {}
        for o in itertools.product(range(nd), repeat=k):
            single[o] = float(np.prod([D[o[m], actual[m]] for m in range(k)]))
        ref = {}
        for shots in itertools.product(single.items(), repeat=mult):
            cnt = {}
            p = 1.0
            for o, pr in shots:
                cnt[o] = cnt.get(o, 0) + 1; p *= pr
            if p > 0:
                key = tuple(sorted(cnt.items()))
                ref[key] = ref.get(key, 0.0) + p
        ctx.count(("imperfect", it), nontrivial=len(set(actual)) < k)
        worst, wk = compare(law, ref)
        if worst > 1e-9:
            fails.append(("law:imperfect-detector", f"imperfect detector: exact law of the real sampler gives P{wk} = {law.get(wk, 0.0):.6f}, independent detectors give {ref.get(wk, 0.0):.6f} (actual outcome {actual})", desc))
    return fails


def run(ctx):
    quick = ctx.tier == "quick"
    n_s, n_c, n_d = (60, 30, 4) if quick else (1200, 400, 40)
    ctx.rule = ("every discrete passive sampler (ideal, uniform loss, post-selection, uniform overlap, both, marginal, general loss via dilation) "
                "on random interferometers, d<=3, n<=3, bunched inputs: exact law by enumeration of all random-choice paths vs the Born rule of an "
                "independent oracle; Gaussian dyne measurements: captured (mean, cov) of the normal draw and sample shapes for random modes/orders/hbar; "
                "Gaussian photon-number/threshold sampling: 4000-shot frequencies at 6 sigma; non-trivial = n>=2 / permuted or multi-mode measurement")
    ctx.assumptions = ["numpy Generator.choice / multivariate_normal / random implement their documented laws",
                       "the Born oracle of C05 (dilation + Gram-matrix formula)"]
    ctx.prove("PqVerif.Props.C02", THEOREMS, FILES)
    import glob, os, subprocess, sys
    for f in sorted(glob.glob(os.path.join(os.path.dirname(__file__), "..", "..", "..", "corpus", "repro", "c02_*.py"))):
        p = subprocess.run([sys.executable, f], capture_output=True, text=True, cwd=os.environ.get("PQ_REPO", "/repo"))
        ctx.count("repro:" + os.path.basename(f), True)
        if p.returncode != 0:
            ctx.fail("repro:" + os.path.basename(f), "pinned regression fails: " + p.stdout[-300:], {"script": f})
    pinned_purefock_homodyne(ctx)
    mism = chain_model_correspondence(ctx, 12 if quick else 200)
    m_pmf = pmf_correspondence(ctx, 40 if quick else 600)
    if m_pmf:
        ctx.broken.append("correspondence:Lemmas/CliffordClifford (conditional pmf) vs _calculate_pmf")
        ctx.notes.setdefault("first_mismatches", []).extend(dict(op=m[0], real=m[1], model="") for m in m_pmf[:3])
    fails = passive_samplers(ctx, n_s) + imperfect_detector_law(ctx, 12 if quick else 200) + continuous(ctx, n_c) + shapes_and_discrete(ctx, n_d)
    ctx.notes["correspondence_mismatches"] = len(mism) + len(m_pmf)
    seen = set()
    for key, msg, inp in fails:
        if key not in seen:
            seen.add(key)
            ctx.fail(key, msg, inp)
    if mism:
        ctx.notes["first_mismatches"] = [dict(op=m[0], real=m[1], model=m[2]) for m in mism[:5]]
        ctx.broken.append("correspondence:Model/Sampler.chain vs generate_marginal_samples")
        if not ctx.violations:
            ctx.fail("correspondence:sampler", f"{mism[0][1]} vs {mism[0][2]}", None)
