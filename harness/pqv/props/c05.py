"""C05: passive-state probability interfaces agree with a unitary dilation (partial).
proof: PqVerif.Props.C05 — (list of theorems below) the permanent of the dilated circuit is what the ideal formula
computes (C01/C04 chain), the Halmos dilation of a contraction is unitary ..., marginal = sum of the table.
tie/search: every probability interface of PassiveState (single outcome, full table, marginals, state vector, norm)
against (a) an independent reference: lossless unitary dilation (Halmos) + exact permanents, with partial
distinguishability by the Gram-matrix (Tichy) formula, and (b) the PureFockSimulator run of the dilated circuit."""
import itertools
import math
import numpy as np
from pqv.props.c07 import haar

THEOREMS = ["Pq.C05.dilation_isometry", "Pq.C05.expanded_not_unitary_witness", "Pq.C05.indistinguishable_limit",
            "Pq.C05.classical_limit", "Pq.C05.gramProb_real"]
FILES = ["PqVerif/Model/PassiveProb.lean", "PqVerif/Props/C05.lean"]


def halmos(T):
    V, s, Uh = np.linalg.svd(T)
    s = np.clip(s, 0, 1)
    c = np.sqrt(1 - s ** 2)
    A = V @ np.diag(c) @ V.conj().T
    B = Uh.conj().T @ np.diag(c) @ Uh
    W = np.block([[T, A], [B, -T.conj().T]])
    assert np.allclose(W @ W.conj().T, np.eye(len(W)), atol=1e-9)
    return W


def perm(M):
    n = len(M)
    if n == 0:
        return 1.0
    # Ryser is fine for n <= 6 here
    tot = 0
    for S in range(1, 1 << n):
        cols = [j for j in range(n) if S >> j & 1]
        tot += (-1) ** (n - len(cols)) * np.prod([sum(M[i][j] for j in cols) for i in range(n)])
    return tot


def tichy(W, in_modes, out_modes, G):
    """probability that photons entering in `in_modes` (internal Gram matrix G) exit in the multiset `out_modes`"""
    n = len(in_modes)
    if n == 0:
        return 1.0
    M = np.array([[W[o, i] for i in in_modes] for o in out_modes])
    tot = 0
    for sig in itertools.permutations(range(n)):
        for rho in itertools.permutations(range(n)):
            t = 1
            for j in range(n):
                t *= M[j, sig[j]] * np.conj(M[j, rho[j]]) * G[rho[j], sig[j]]
            tot += t
    mu = np.prod([math.factorial(out_modes.count(m)) for m in set(out_modes)])
    norm = 1.0
    for m in set(in_modes):
        grp = [k for k in range(n) if in_modes[k] == m]
        norm *= perm([[G[a, b] for b in grp] for a in grp])
    return float(np.real(tot / (mu * norm)))


def reference_table(T, occ, G, cutoff):
    """dict out-occupation (on the d physical modes, total < cutoff) -> probability, via the dilation"""
    d = len(occ)
    n = sum(occ)
    W = halmos(T) if not np.allclose(T @ T.conj().T, np.eye(d), atol=1e-12) else None
    in_modes = [m for m, k in enumerate(occ) for _ in range(k)]
    table = {}
    for out in itertools.product(range(n + 1), repeat=d):
        k = sum(out)
        if k > n or k >= cutoff:
            continue
        out_modes = [m for m, c in enumerate(out) for _ in range(c)]
        if W is None:
            table[out] = tichy(T, in_modes, out_modes, G) if k == n else 0.0
            continue
        p = 0.0
        for anc in itertools.product(range(n - k + 1), repeat=d):
            if sum(anc) != n - k:
                continue
            om = out_modes + [d + m for m, c in enumerate(anc) for _ in range(c)]
            p += tichy(W, in_modes, om, G)
        table[out] = p
    return table


def gram(rng, n, kind):
    if kind == "one":
        return np.ones((n, n), dtype=complex), 1.0
    if kind == "zero":
        return np.eye(n, dtype=complex), 0.0
    if kind == "uniform":
        x = float(rng.choice([1 / 3, 0.5, 0.8]))
        return (1 - x) * np.eye(n) + x * np.ones((n, n)) + 0j, x
    # random valid Gram matrix: normalised internal states
    V = rng.normal(size=(n, max(n, 2))) + 1j * rng.normal(size=(n, max(n, 2)))
    V = V / np.linalg.norm(V, axis=1, keepdims=True)
    Gm = V.conj() @ V.T
    return Gm, Gm


class _SwappedOuterNP:
    """numpy with `outer(a, b)` returning `outer(b, a)`: what the general lossy formula needs
    (`B_m = G * outer(conj v, v)`, consistent with its loss kernel `I - T^dagger T`)"""
    def __getattr__(self, name):
        import numpy
        if name == "outer":
            return lambda a, b: numpy.outer(b, a)
        return getattr(numpy, name)


def explained_by_conj_defect(st, ref, basis):
    """True iff piquasso's general lossy/distinguishable formula, evaluated on this state with the two
    arguments of its single `np.outer` call exchanged, reproduces the dilation reference: then the observed
    discrepancy is exactly the recorded finding (conjugation order in B_m), nothing else."""
    from piquasso._simulators.passive.probabilities import get_lossy_partially_distinguishable_detection_probabilities
    from piquasso._simulators.connectors import NumpyConnector

    class Patched(NumpyConnector):
        np = _SwappedOuterNP()
    try:
        po = 1.0 if st._particle_overlap is None else st._particle_overlap
        tab = get_lossy_partially_distinguishable_detection_probabilities(
            occupation_numbers=np.array(basis), transmission_matrix=st.interferometer,
            input_occupation=st._occupation_numbers[0], particle_overlap=po, connector=Patched())
    except Exception:
        return False
    return all(abs(float(t) - ref.get(b, 0.0)) <= 1e-8 for b, t in zip(basis, tab))


KNOWN_KEY = "lossy-table:conjugation-order-in-B_m"


def scenarios(ctx, n_cases):
    import piquasso as pq
    from piquasso._math.fock import get_fock_space_basis
    rng = np.random.default_rng(ctx.seed + 5)
    fails = []
    dist = {}
    for it in range(n_cases):
        d = int(rng.integers(1, 4)) if it % 3 else int(rng.integers(2, 5))
        n = int(rng.integers(1, 4)) if d >= 3 else int(rng.integers(1, 5))
        occ = [0] * d
        for _ in range(n):
            occ[int(rng.integers(0, d))] += 1
        loss_kind = str(rng.choice(["none", "none", "uniform", "per-mode", "matrix"]))
        dis_kind = str(rng.choice(["one", "one", "zero", "uniform", "gram"]))
        if loss_kind == "matrix" and dis_kind == "gram" and n > 3:
            dis_kind = "uniform"
        U = haar(rng, d)
        ins = []
        Gm, overlap = gram(rng, n, dis_kind)
        if dis_kind == "one":
            ins.append(pq.StateVector(tuple(occ)).on_modes(*range(d)))
        else:
            ins.append(pq.DistinguishableNumberState(tuple(occ), particle_overlap=overlap).on_modes(*range(d)))
        ins.append(pq.Interferometer(U).on_modes(*range(d)))
        T = U.copy()
        if loss_kind == "uniform":
            t = float(rng.uniform(0.3, 0.95))
            ins.append(pq.UniformLoss(transmissivity=t).on_modes(*range(d)) if hasattr(pq, "UniformLoss") else pq.Loss(transmissivity=t).on_modes(0))
            T = t * T
        elif loss_kind == "per-mode":
            ts = rng.uniform(0.2, 1.0, size=d)
            for m in range(d):
                ins.append(pq.Loss(transmissivity=float(ts[m])).on_modes(m))
            T = np.diag(ts) @ T
        elif loss_kind == "matrix":
            V2 = haar(rng, d)
            sv = rng.uniform(0.1, 1.0, size=d)
            T = U @ np.diag(sv) @ V2
            ins = ins[:1] + [pq.LossyInterferometer(T).on_modes(*range(d))]
        cutoff = n + 1
        desc = {"d": d, "occ": occ, "loss": loss_kind, "distinguishability": dis_kind, "overlap": repr(overlap)[:80], "T": repr(np.round(T, 6).tolist())}
        key_base = f"{loss_kind}/{dis_kind}"
        dist[key_base] = dist.get(key_base, 0) + 1
        try:
            st = pq.PassiveSimulator(d=d, config=pq.Config(cutoff=cutoff)).execute(pq.Program(instructions=ins)).state
        except Exception as e:
            # a feature combination the simulator refuses is not a violation; anything else is
            if type(e).__name__ in ("NotImplementedCalculation", "InvalidSimulation", "InvalidParameter", "InvalidState"):
                dist["refused:" + key_base] = dist.get("refused:" + key_base, 0) + 1
                continue
            fails.append((f"c05-raise:{key_base}:{type(e).__name__}", f"{key_base}: {type(e).__name__}: {str(e)[:120]}", desc)); continue
        ref = reference_table(T, occ, Gm, cutoff)
        basis = [tuple(int(x) for x in b) for b in get_fock_space_basis(d=d, cutoff=cutoff)]
        n_before = len(fails)
        ctx.count(("c05", it), nontrivial=(loss_kind != "none" or dis_kind != "one") and max(occ) >= 1,
                  sample=desc if loss_kind != "none" and dis_kind != "one" and len(ctx.samples) < 3 else None)
        # (1) single-outcome interface
        try:
            single = {b: float(np.real(st.get_particle_detection_probability(np.array(b)))) for b in basis}
            bad = max(basis, key=lambda b: abs(single[b] - ref.get(b, 0.0)))
            if abs(single[bad] - ref.get(bad, 0.0)) > 1e-8:
                fails.append((f"single:{key_base}", f"get_particle_detection_probability({bad}) = {single[bad]:.10f}, dilation reference {ref.get(bad, 0.0):.10f} [{key_base}]", desc))
            if min(single.values()) < -1e-12 or max(single.values()) > 1 + 1e-9:
                fails.append((f"single-range:{key_base}", f"a detection probability lies outside [0,1]: {min(single.values())}, {max(single.values())}", desc))
        except Exception as e:
            if type(e).__name__ != "NotImplementedCalculation":
                fails.append((f"single-raise:{key_base}:{type(e).__name__}", f"get_particle_detection_probability raised {type(e).__name__}: {str(e)[:100]}", desc))
            single = None
        # (2) the table
        try:
            tab = np.asarray(st.fock_probabilities, dtype=float)
            tabd = dict(zip(basis, tab))
            bad = max(basis, key=lambda b: abs(tabd[b] - ref.get(b, 0.0)))
            if abs(tabd[bad] - ref.get(bad, 0.0)) > 1e-8:
                fails.append((f"table:{key_base}", f"fock_probabilities[{bad}] = {tabd[bad]:.10f}, dilation reference {ref.get(bad, 0.0):.10f} (table sum {tab.sum():.6f}) [{key_base}]", desc))
            if abs(tab.sum() - 1.0) > 1e-8 or tab.min() < -1e-12:
                fails.append((f"table-sum:{key_base}", f"fock_probabilities sums to {tab.sum():.8f} (min {tab.min():.2e}) [{key_base}]", desc))
            if single is not None and max(abs(tabd[b] - single[b]) for b in basis) > 1e-8:
                fails.append((f"table-vs-single:{key_base}", f"fock_probabilities and get_particle_detection_probability disagree by {max(abs(tabd[b] - single[b]) for b in basis):.2e} [{key_base}]", desc))
            if abs(float(np.real(st.norm)) - 1.0) > 1e-8:
                fails.append((f"norm:{key_base}", f"norm = {st.norm}", desc))
        except Exception as e:
            if type(e).__name__ != "NotImplementedCalculation":
                fails.append((f"table-raise:{key_base}:{type(e).__name__}", f"fock_probabilities raised {type(e).__name__}: {str(e)[:100]}", desc))
        # (3) marginals = sums of the reference table
        if d >= 2:
            k = int(rng.integers(1, d))
            modes = tuple(int(x) for x in rng.choice(d, size=k, replace=False))
            try:
                marg = st.get_marginal_fock_probabilities(modes)
                want = {}
                for b, p in ref.items():
                    kk = tuple(b[m] for m in modes)
                    want[kk] = want.get(kk, 0.0) + p
                for kk, v in marg.items():
                    kk2 = tuple(int(x) for x in kk)
                    if abs(float(v) - want.get(kk2, 0.0)) > 1e-8:
                        fails.append((f"marginal:{key_base}", f"get_marginal_fock_probabilities({modes})[{kk2}] = {float(v):.10f}, sum of the table {want.get(kk2, 0.0):.10f}", dict(desc, modes=modes))); break
                if abs(sum(float(v) for v in marg.values()) - 1.0) > 1e-8:
                    fails.append((f"marginal-sum:{key_base}", f"marginals over {modes} sum to {sum(float(v) for v in marg.values()):.8f}", dict(desc, modes=modes)))
            except Exception as e:
                if type(e).__name__ != "NotImplementedCalculation":
                    fails.append((f"marginal-raise:{key_base}:{type(e).__name__}", f"get_marginal_fock_probabilities raised {type(e).__name__}: {str(e)[:100]}", desc))
        # failures of the interfaces that go through the general lossy formula are attributed to the recorded
        # finding only if that very formula with the conjugation exchanged reproduces the reference
        if len(fails) > n_before and (loss_kind in ("per-mode", "matrix") or dis_kind == "gram"):
            # the single-outcome interface of an INDISTINGUISHABLE lossy state does not use the general formula (it goes through
            # the loop-hafnian loss-channel matrix): its failures are never attributed to the recorded finding
            absorb = ("table", "table-sum", "table-vs-single") + (("single", "single-range") if dis_kind != "one" else ())
            general_path = [f for f in fails[n_before:] if f[0].split(":")[0] in absorb]
            if general_path and explained_by_conj_defect(st, ref, basis):
                rest = [f for f in fails[n_before:] if f not in general_path]
                del fails[n_before:]
                fails.extend(rest)
                fails.append((KNOWN_KEY, general_path[0][1], desc))
        n_mid = len(fails)
        # (4) state vector for the ideal case, (5) the PureFock simulation of the dilation
        if loss_kind == "none" and dis_kind == "one":
            sv = np.asarray(st.state_vector)
            pr = np.abs(sv) ** 2
            if max(abs(pr[i] - ref.get(b, 0.0)) for i, b in enumerate(basis)) > 1e-8:
                fails.append(("state-vector", "|state_vector|^2 differs from the reference probabilities", desc))
        if dis_kind == "one" and loss_kind != "none" and 2 * d <= 6:
            W = halmos(T)
            with pq.Program() as q:
                pq.Q(*range(2 * d)) | pq.StateVector(tuple(occ) + (0,) * d)
                pq.Q(*range(2 * d)) | pq.Interferometer(W)
            big = pq.PureFockSimulator(d=2 * d, config=pq.Config(cutoff=n + 1)).execute(q).state
            pm = {}
            for b, p in big.fock_probabilities_map.items():
                kk = tuple(int(x) for x in b[:d])
                pm[kk] = pm.get(kk, 0.0) + float(p)
            try:
                tabd = dict(zip(basis, np.asarray(st.fock_probabilities, dtype=float)))
                bad = max(basis, key=lambda b: abs(tabd[b] - pm.get(b, 0.0)))
                if abs(tabd[bad] - pm.get(bad, 0.0)) > 1e-8:
                    fails.append((f"table-vs-purefock-dilation:{loss_kind}", f"fock_probabilities[{bad}] = {tabd[bad]:.10f}, PureFock simulation of the dilation {pm.get(bad, 0.0):.10f}", desc))
            except Exception:
                pass
        if len(fails) > n_mid and loss_kind in ("per-mode", "matrix") and explained_by_conj_defect(st, ref, basis):
            del fails[n_mid:]
            if not any(f[0] == KNOWN_KEY for f in fails):
                fails.append((KNOWN_KEY, "fock_probabilities differs from the PureFock simulation of the dilation", desc))
        n_post = len(fails)
        # (6) post-selection: the table of the post-selected state sums to the success probability
        if d >= 2 and dis_kind == "one":
            m = int(rng.integers(0, d)); cnt = int(rng.integers(0, n + 1))
            try:
                ps = pq.PassiveSimulator(d=d, config=pq.Config(cutoff=cutoff)).execute(
                    pq.Program(instructions=ins + [pq.PostSelectPhotons(photon_counts=(cnt,)).on_modes(m)]), shots=None)
                states = [b.state for b in ps.branches if b.state is not None]
                if states:
                    pst = states[0]
                    succ = sum(p for b, p in ref.items() if b[m] == cnt)
                    got = float(np.real(np.sum(pst.fock_probabilities)))
                    if abs(got - succ) > 1e-8:
                        fails.append((f"postselect-sum:{loss_kind}", f"post-selecting {cnt} photon(s) on mode {m}: the table sums to {got:.10f}, success probability {succ:.10f}", dict(desc, mode=m, count=cnt)))
            except Exception as e:
                if type(e).__name__ not in ("NotImplementedCalculation", "InvalidState", "InvalidParameter"):
                    fails.append((f"postselect-raise:{type(e).__name__}", f"post-selection raised {type(e).__name__}: {str(e)[:100]}", desc))
        if len(fails) > n_post and loss_kind in ("per-mode", "matrix") and explained_by_conj_defect(st, ref, basis):
            del fails[n_post:]
            if not any(f[0] == KNOWN_KEY for f in fails):
                fails.append((KNOWN_KEY, "post-selected lossy table differs from the success probability", desc))
    ctx.notes["input_distribution"] = dist
    return fails


def run(ctx):
    quick = ctx.tier == "quick"
    n_cases = 60 if quick else 1500
    ctx.rule = ("random number-state inputs (n<=4, d<=4, bunched), Haar interferometers, loss in {none, uniform, per-mode, full "
                "transmission matrix with singular values in [0.1,1]}, distinguishability in {indistinguishable, classical, uniform "
                "overlap, random Gram matrix}, random marginal modes and post-selection; every interface vs the Halmos dilation + exact "
                "permanent / Gram-matrix formula and vs the PureFock simulation of the dilation; non-trivial = loss or distinguishability present")
    ctx.assumptions = ["the Gram-matrix (Tichy) formula and the Halmos dilation are the independent oracle (implemented in the harness)",
                       "feature combinations the state refuses with NotImplementedCalculation are counted, not failed"]
    ctx.prove("PqVerif.Props.C05", THEOREMS, FILES)
    import glob, os, subprocess, sys
    for f in sorted(glob.glob(os.path.join(os.path.dirname(__file__), "..", "..", "..", "corpus", "repro", "c05_*.py"))):
        p = subprocess.run([sys.executable, f], capture_output=True, text=True, cwd=os.environ.get("PQ_REPO", "/repo"))
        ctx.count("repro:" + os.path.basename(f), True)
        if p.returncode != 0:
            ctx.fail("repro:" + os.path.basename(f), "pinned regression fails: " + p.stdout[-300:], {"script": f})
    fails = scenarios(ctx, n_cases)
    seen = set()
    for key, msg, inp in fails:
        if key not in seen:
            seen.add(key)
            ctx.fail(key, msg, inp)
