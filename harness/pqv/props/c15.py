"""C15: matrix decompositions reconstruct their input (partial).
proof: PqVerif.Props.C15 — Clements: the elimination schedule (model ClementsSched) keeps its zeros and nulls the whole
strict lower triangle of EVERY input matrix (kernel-evaluated soundness of the schedule for d<=8 + a general
elimination theorem), the nulling angles null, BS is unitary, the phase-commutation identity and its list-level
bookkeeping (`_commute`), inverse_clements(clements(U)) = U, unitary + lower-zero => diagonal; Takagi / Williamson /
Euler: the glue code is correct for every output of SVD / Schur / sqrtm / polar that satisfies its contract, whichever
basis the routine picks in a degenerate subspace; graph embedding: sinh^2(artanh x) = x^2/(1-x^2).
tie: schedule and `_commute` of the real code vs the exact models; the contracts (theorem hypotheses) are checked on the
intermediates of the real runs through a recording connector.
search: random and structured/degenerate inputs (identity, permutations, diagonal phases, block-diagonal, embedded 2x2,
repeated / zero / near-degenerate singular and symplectic values, d=1) up to dimension 6 (12 for real forms)."""
import math
import warnings
from fractions import Fraction
import numpy as np
from pqv.props.c07 import haar, qs

THEOREMS = ["Pq.C15." + t for t in (
    "schedule_sound", "elimination", "bs_unitary", "nulling_row", "nulling_col", "commute_cast", "commute_identity",
    "commute_correct", "clements_roundtrip", "unitary_lower_zero_diagonal", "takagi_Z_commutes", "takagi_reconstructs",
    "williamson_reconstructs", "euler_reconstructs", "graph_mean_photon")]
FILES = ["PqVerif/Model/ClementsSched.lean", "PqVerif/Model/ClementsMat.lean", "PqVerif/Lemmas/ClementsLaws.lean",
         "PqVerif/Lemmas/DecompAlgebra.lean", "PqVerif/Props/C15.lean"]
TOL = 1e-8


def structured_unitary(rng, d):
    from scipy.linalg import block_diag
    c = int(rng.integers(0, 8))
    if d == 1:
        return np.array([[np.exp(1j * rng.uniform(0, 6))]]) if c % 2 else np.eye(1, dtype=complex)
    if c == 0:
        return np.eye(d, dtype=complex)
    if c == 1:
        return np.eye(d)[rng.permutation(d)].astype(complex)
    if c == 2:
        return np.diag(np.exp(1j * rng.uniform(0, 6, d)))
    if c == 3:
        k = int(rng.integers(1, d))
        return block_diag(haar(rng, k), haar(rng, d - k))
    if c == 4:
        return np.eye(d)[rng.permutation(d)] @ np.diag(np.exp(1j * rng.choice([0, np.pi / 2, np.pi], d)))
    if c == 5:
        U = np.eye(d, dtype=complex)
        i = int(rng.integers(0, d - 1))
        U[i:i + 2, i:i + 2] = haar(rng, 2)
        return U
    if c == 6:
        F = np.array([[np.exp(2j * np.pi * a * b / d) for b in range(d)] for a in range(d)]) / np.sqrt(d)
        return F
    return haar(rng, d)


def degenerate_values(rng, d, lo, hi):
    c = int(rng.integers(0, 7))
    if c == 0:
        return rng.uniform(lo, hi, d)
    if c == 1:
        return np.ones(d) * rng.uniform(lo, hi)
    if c == 2:
        return rng.choice([lo, (lo + hi) / 2, hi], d)
    if c == 3:
        return np.repeat(rng.uniform(lo, hi, (d + 1) // 2), 2)[:d]
    if c == 4:
        s = np.sort(rng.uniform(lo, hi, d)); s[: d // 2 + 1] = s[0]; return s
    if c == 5:
        s = np.ones(d) * rng.uniform(lo, hi); s[1:] += 10.0 ** rng.uniform(-14, -7) * rng.integers(0, 2, d - 1); return s
    return np.round(rng.uniform(lo, hi, d), 1)


# ------------------------------------------------------------------ recording connector
def recorder():
    import scipy.linalg
    from piquasso._simulators.connectors import NumpyConnector

    class Rec(NumpyConnector):
        def __init__(self):
            super().__init__()
            self.log = []

        def svd(self, m, *a, **k):
            r = np.linalg.svd(m, *a, **k); self.log.append(("svd", np.array(m), r)); return r

        def schur(self, m, *a, **k):
            r = scipy.linalg.schur(m, *a, **k); self.log.append(("schur", np.array(m), r)); return r

        def sqrtm(self, m):
            r = scipy.linalg.sqrtm(m).astype(np.complex128); self.log.append(("sqrtm", np.array(m), r)); return r

        def polar(self, m, *a, **k):
            r = scipy.linalg.polar(m, *a, **k); self.log.append(("polar", np.array(m), r)); return r

        def logm(self, m, *a, **k):
            r = scipy.linalg.logm(m, *a, **k); self.log.append(("logm", np.array(m), r)); return r
    return Rec()


def err(a, b):
    a, b = np.asarray(a), np.asarray(b)
    return float(np.abs(a - b).max()) if a.shape == b.shape and a.size else (0.0 if a.shape == b.shape else float("inf"))


# ------------------------------------------------------------------ correspondences
def schedule_correspondence(ctx):
    from piquasso.decompositions import clements as cl
    from piquasso._simulators.connectors import NumpyConnector
    conn = NumpyConnector()
    rng = np.random.default_rng(ctx.seed + 15)
    ds = list(range(0, 9))
    outs = ctx.lean_run([f"clsched {d}" for d in ds] + [f"clok {d}" for d in ds])
    mism = []
    for d, o, ok in zip(ds, outs[:len(ds)], outs[len(ds):]):
        steps = [] if o == "-" else [t.split(":") for t in o.split(" ")]
        steps = [(s[0], int(s[1]), int(s[2]), int(s[3])) for s in steps]
        ctx.count(f"sched{d}", nontrivial=d >= 3)
        if ok != "true":
            mism.append((f"clok {d}", "model schedule is not zero-preserving")); continue
        if d == 0:
            continue
        U = haar(rng, d) if d > 1 else np.array([[1j]])
        dec = cl.clements(U.copy(), conn)
        model_modes = [(m, m + 1) for k, m, _, _ in steps if k == "col"] + [(m, m + 1) for k, m, _, _ in reversed(steps) if k == "row"]
        real_modes = [tuple(int(x) for x in b.modes) for b in dec.beamsplitters]
        if real_modes != model_modes:
            mism.append((f"clsched {d}", f"beamsplitter modes of clements(): {real_modes} vs model {model_modes}")); continue
        # replay the column loop with the real per-column functions and compare the newly nulled positions
        V = U.copy()
        it = iter(steps)
        for column in reversed(range(0, d - 1)):
            before = np.abs(V) < 1e-10
            if column % 2 == 0:
                ops, V = cl._apply_direct_beamsplitters(column, V, conn)
            else:
                ops, V = cl._apply_inverse_beamsplitters(column, V, conn)
            newz = {(int(i), int(j)) for i, j in zip(*np.nonzero((np.abs(V) < 1e-10) & ~before))}
            exp = {(s[2], s[3]) for s in [next(it) for _ in ops]}
            if not exp <= newz or any(i > j for i, j in newz - exp):
                mism.append((f"clsched {d}", f"column {column}: newly nulled entries {sorted(newz)} vs model targets {sorted(exp)}")); break
    return mism


def commute_correspondence(ctx, n):
    from piquasso.decompositions import clements as cl
    from piquasso._simulators.connectors import NumpyConnector
    conn = NumpyConnector()
    rng = np.random.default_rng(ctx.seed + 151)
    lines, metas = [], []
    for it in range(n):
        d = int(rng.integers(2, 7))
        q = lambda: Fraction(int(rng.integers(-24, 25)), int(rng.choice([1, 2, 3, 4, 6, 8])))
        ph = [q() for _ in range(d)]
        bss = [(int(rng.integers(0, d - 1)), q(), q()) for _ in range(int(rng.integers(0, 6)))]
        mids = [cl.PS(mode=i, phi=np.float64(float(p) * math.pi)) for i, p in enumerate(ph)]
        last = [cl.BS(modes=(m, m + 1), params=(np.float64(float(t) * math.pi), np.float64(float(p) * math.pi))) for m, t, p in bss]
        com, phs = cl._commute(mids, last, conn)
        lines.append("clcommute " + ",".join(str(p) for p in ph) + " " + ("|".join(f"{m}:{t}:{p}" for m, t, p in bss) if bss else "-"))
        metas.append(([(int(b.modes[0]), float(b.params[0]) / math.pi, float(b.params[1]) / math.pi) for b in com], [float(p.phi) / math.pi for p in phs]))
    outs = ctx.lean_run(lines)
    mism = []
    for l, (rb, rp), o in zip(lines, metas, outs):
        ctx.count(l, nontrivial=len(rb) >= 2)
        try:
            b_s, p_s = o.split(" ")
            mb = [] if b_s == "-" else [(int(t.split(":")[0]), float(Fraction(t.split(":")[1])), float(Fraction(t.split(":")[2]))) for t in b_s.split("|")]
            mp = [float(Fraction(t)) for t in p_s.split(",")]
        except Exception:
            mism.append((l, "unparsable model output " + o[:80])); continue
        close = lambda a, b: abs(a - b) < 1e-9 or abs(abs(a - b) - 2) < 1e-9   # mod 2 at the boundary
        if len(mb) != len(rb) or any(x[0] != y[0] or not close(x[1], y[1]) or not close(x[2], y[2]) for x, y in zip(mb, rb)) or \
                len(mp) != len(rp) or any(not close(x, y) for x, y in zip(mp, rp)):
            mism.append((l, f"_commute: real {rb} {rp} vs model {mb} {mp}"))
    return mism


# ------------------------------------------------------------------ search
def clements_family(ctx, n):
    import piquasso as pq
    from piquasso.decompositions import clements as cl
    from piquasso._simulators.connectors import NumpyConnector
    conn = NumpyConnector()
    rng = np.random.default_rng(ctx.seed + 1515)
    fails = []
    for it in range(n):
        d = int(rng.integers(1, 7))
        U = structured_unitary(rng, d)
        desc = {"d": d, "U": str(np.round(U, 6).tolist())}
        ctx.count(("clements", it), nontrivial=d >= 3)
        try:
            dec = cl.clements(U.copy(), conn)
            R = cl.inverse_clements(dec, conn, U.dtype)
            if err(R, U) > TOL:
                fails.append(("clements-inverse", f"inverse_clements(clements(U)) differs from U by {err(R, U):.2e}", desc))
            V = np.eye(d, dtype=complex)
            for ins in cl.instructions_from_decomposition(dec):
                E = np.eye(d, dtype=complex)
                E[np.ix_(ins.modes, ins.modes)] = ins._get_passive_block(conn, pq.Config())
                V = E @ V
            if err(V, U) > TOL:
                fails.append(("clements-instructions", f"the instruction list of the decomposition implements a unitary differing from U by {err(V, U):.2e}", desc))
            w = cl.get_weights_from_interferometer(U.copy(), conn)
            R2 = cl.get_interferometer_from_weights(w, d, conn, U.dtype)
            if len(w) != d * d or err(R2, U) > TOL:
                fails.append(("clements-weights", f"weight-vector round trip differs from U by {err(R2, U):.2e} (len {len(w)})", desc))
            if len(dec.beamsplitters) != d * (d - 1) // 2 or len(dec.phaseshifters) != d:
                fails.append(("clements-count", f"{len(dec.beamsplitters)} beamsplitters, {len(dec.phaseshifters)} phase shifters for d={d}", desc))
            # the hypothesis of clements_roundtrip: the eliminated matrix is a phase layer
            W = U.copy()
            for column in reversed(range(0, d - 1)):
                W = (cl._apply_direct_beamsplitters if column % 2 == 0 else cl._apply_inverse_beamsplitters)(column, W, conn)[1]
            if err(W, np.diag(np.diag(W))) > TOL or err(np.abs(np.diag(W)), np.ones(d)) > TOL:
                fails.append(("clements-elimination", f"the eliminated matrix is not a phase layer (off-diagonal {err(W, np.diag(np.diag(W))):.2e})", desc))
        except Exception as e:
            fails.append((f"clements-raise:{type(e).__name__}", f"{type(e).__name__}: {str(e)[:120]}", desc))
    return fails


def takagi_family(ctx, n):
    from piquasso._math.decompositions import takagi
    rng = np.random.default_rng(ctx.seed + 15151)
    fails = []
    for it in range(n):
        d = int(rng.integers(1, 7))
        W0 = structured_unitary(rng, d)
        s = degenerate_values(rng, d, 0.0, 2.0)
        if rng.random() < 0.15:
            s = np.zeros(d)
        A = W0 @ np.diag(s) @ W0.T
        A = (A + A.T) / 2
        kind = "complex"
        u = rng.random()
        if u < 0.2 and d >= 2:
            # REAL dtype, low rank (kernel of dimension >= 2 when d >= 3), signed eigenvalues
            kind = "real-lowrank"
            k = int(rng.integers(1, max(2, d - 1)))
            B = rng.normal(size=(d, k))
            A = B @ np.diag(rng.choice([-1.0, 1.0], size=k) * rng.uniform(0.3, 2.0, size=k)) @ B.T
            A = (A + A.T) / 2
            s = np.linalg.svd(A, compute_uv=False)
        elif u < 0.4 and d >= 2:
            # adjacency matrix of a graph (int or float dtype): complete multipartite graphs have large kernels
            kind = "adjacency"
            part = rng.integers(0, int(rng.integers(2, 4)), size=d)
            A = (part[:, None] != part[None, :]).astype(int if rng.random() < 0.5 else float)
            if rng.random() < 0.3:
                i, j = rng.choice(d, size=2, replace=False)
                A[i, j] = A[j, i] = 1 - A[i, j]
            s = np.linalg.svd(A.astype(float), compute_uv=False)
        desc = {"d": d, "kind": kind, "dtype": str(A.dtype), "singular_values": np.asarray(s).tolist(), "A": str(np.round(A, 8).tolist())}
        conn = recorder()
        ctx.count(("takagi", it), nontrivial=d >= 2 and len(set(np.round(s, 9))) < d)
        try:
            sv, T = takagi(A.copy(), conn)
        except Exception as e:
            fails.append((f"takagi-raise:{type(e).__name__}", f"{type(e).__name__}: {str(e)[:120]}", desc)); continue
        sv = np.asarray(sv)
        S = np.diag(sv).astype(complex)
        if err(T @ S @ T.T, A) > TOL * (1 + np.abs(A).max()):
            fails.append(("takagi-reconstruct", f"U diag(s) U^T differs from the input by {err(T @ S @ T.T, A):.2e}", desc))
        if err(T.conj().T @ T, np.eye(d)) > TOL:
            fails.append(("takagi-unitary", f"the Takagi factor is not unitary ({err(T.conj().T @ T, np.eye(d)):.2e})", desc))
        if (sv < -1e-12).any() or np.abs(np.imag(sv)).max() > 1e-12:
            fails.append(("takagi-negative", f"singular values not non-negative reals: {sv}", desc))
        # contracts of takagi_reconstructs on the recorded intermediates
        rec = [r for r in conn.log if r[0] == "svd"]
        if rec:
            V, sig, Wh = rec[0][2]
            Wm = Wh.conj().T
            Q = (V.conj().T @ T).conj()
            Sg = np.diag(sig).astype(complex)
            contracts = {"svd": err(V @ Sg @ Wh, A), "V unitary": err(V.conj().T @ V, np.eye(d)), "W unitary": err(Wm.conj().T @ Wm, np.eye(d)),
                         "Q unitary": err(Q.conj().T @ Q, np.eye(d)), "Q commutes with S": err(Q @ Sg, Sg @ Q), "S Q^T = S Q": err(Sg @ Q.T, Sg @ Q),
                         "S Q Q = S V^T W": err(Sg @ Q @ Q, Sg @ V.T @ Wm)}
            worst = max(contracts, key=contracts.get)
            ctx.notes["takagi_contract_worst"] = max(ctx.notes.get("takagi_contract_worst", 0.0), contracts[worst])
            if contracts[worst] > 1e-7 * (1 + np.abs(A).max()):
                fails.append((f"takagi-contract:{worst}", f"intermediate of takagi violates the contract `{worst}` of the theorem by {contracts[worst]:.2e}", desc))
    return fails


def rand_symplectic(rng, d):
    def pas(U):
        X, Y = U.real, U.imag
        return np.block([[X, -Y], [Y, X]])
    r = rng.uniform(-1, 1, d) * rng.integers(0, 2, d)
    return pas(structured_unitary(rng, d)) @ np.diag(np.concatenate([np.exp(-r), np.exp(r)])) @ pas(structured_unitary(rng, d))


def williamson_family(ctx, n):
    from piquasso._math.decompositions import williamson
    from piquasso._math.symplectic import xp_symplectic_form
    rng = np.random.default_rng(ctx.seed + 151515)
    fails = []
    for it in range(n):
        d = int(rng.integers(1, 7))
        S0 = rand_symplectic(rng, d)
        nu = degenerate_values(rng, d, 1.0, 3.0)
        M = S0 @ np.diag(np.concatenate([nu, nu])) @ S0.T
        M = (M + M.T) / 2
        desc = {"d": d, "symplectic_values": nu.tolist(), "M": str(np.round(M, 8).tolist())}
        conn = recorder()
        ctx.count(("williamson", it), nontrivial=d >= 2 and len(set(np.round(nu, 9))) < d)
        try:
            S, D = williamson(M.copy(), conn)
        except Exception as e:
            fails.append((f"williamson-raise:{type(e).__name__}", f"{type(e).__name__}: {str(e)[:120]}", desc)); continue
        Om = xp_symplectic_form(d)
        scale = 1 + np.abs(M).max()
        if np.iscomplexobj(S) and np.abs(np.imag(S)).max() > 1e-9:
            fails.append(("williamson-complex", "the symplectic factor is not real", desc))
        S = np.real(S)
        if err(S @ D @ S.T, M) > TOL * scale:
            fails.append(("williamson-reconstruct", f"S D S^T differs from the input by {err(S @ D @ S.T, M):.2e}", desc))
        if err(S.T @ Om @ S, Om) > TOL * scale:
            fails.append(("williamson-symplectic", f"S is not symplectic ({err(S.T @ Om @ S, Om):.2e})", desc))
        dd = np.diag(D)
        if (dd <= 0).any() or err(D, np.diag(dd)) > 1e-9 or err(dd[:d], dd[d:]) > 1e-7:
            fails.append(("williamson-diagonal", f"D is not a positive diagonal paired per mode: {dd.tolist()}", desc))
        elif err(np.sort(dd[:d]), np.sort(nu)) > 1e-6:
            fails.append(("williamson-values", f"symplectic values {np.sort(dd[:d]).tolist()} instead of {np.sort(nu).tolist()}", desc))
        # contracts of williamson_reconstructs
        sq = [r for r in conn.log if r[0] == "sqrtm"]
        sc = [r for r in conn.log if r[0] == "schur"]
        if sq and sc and (dd > 0).all():
            R = np.real(sq[0][2]); Tm, K = sc[0][2]
            Rinv = np.linalg.inv(R)
            E = np.diag(np.sqrt(1 / dd))
            B = K.T @ Rinv @ S @ np.linalg.inv(E)
            delta = 1 / dd[:d]
            J = np.block([[np.zeros((d, d)), np.diag(delta)], [-np.diag(delta), np.zeros((d, d))]])
            contracts = {"R R = M": err(R @ R, M) / scale, "R symmetric": err(R, R.T) / scale, "K orthogonal": err(K.T @ K, np.eye(2 * d)),
                         "B orthogonal": err(B.T @ B, np.eye(2 * d)), "schur form": err(B.T @ K.T @ (Rinv @ Om @ Rinv) @ K @ B, J) / (1 + np.abs(J).max())}
            worst = max(contracts, key=contracts.get)
            ctx.notes["williamson_contract_worst"] = max(ctx.notes.get("williamson_contract_worst", 0.0), contracts[worst])
            if contracts[worst] > 1e-6:
                fails.append((f"williamson-contract:{worst}", f"intermediate of williamson violates the contract `{worst}` of the theorem by {contracts[worst]:.2e}", desc))
    return fails


def euler_family(ctx, n):
    from piquasso._math.decompositions import euler
    rng = np.random.default_rng(ctx.seed + 1515151)
    fails = []
    cf = lambda U: np.block([[U, np.zeros_like(U)], [np.zeros_like(U), U.conj()]])
    sq = lambda r: np.block([[np.diag(np.cosh(r)), -np.diag(np.sinh(r))], [-np.diag(np.sinh(r)), np.diag(np.cosh(r))]])
    for it in range(n):
        d = int(rng.integers(1, 7))
        U1, U2 = structured_unitary(rng, d), structured_unitary(rng, d)
        r = degenerate_values(rng, d, 0.0, 1.2)
        S = cf(U1) @ sq(r) @ cf(U2)
        desc = {"d": d, "squeezings": r.tolist(), "S": str(np.round(S, 8).tolist())}
        conn = recorder()
        ctx.count(("euler", it), nontrivial=d >= 2 and len(set(np.round(r, 9))) < d)
        try:
            Ul, D, Uf = euler(S.copy(), conn)
        except Exception as e:
            fails.append((f"euler-raise:{type(e).__name__}", f"{type(e).__name__}: {str(e)[:120]}", desc)); continue
        D = np.real_if_close(np.asarray(D))
        scale = 1 + np.abs(S).max()
        if np.iscomplexobj(D) or (D < -1e-9).any():
            fails.append(("euler-squeezings", f"squeezing parameters not non-negative reals: {D}", desc)); continue
        if err(cf(Ul) @ sq(D) @ cf(Uf), S) > TOL * scale:
            fails.append(("euler-reconstruct", f"the Euler factors recompose a matrix differing from S by {err(cf(Ul) @ sq(D) @ cf(Uf), S):.2e}", desc))
        if err(Ul.conj().T @ Ul, np.eye(d)) > TOL or err(Uf.conj().T @ Uf, np.eye(d)) > TOL:
            fails.append(("euler-unitary", "an Euler factor is not unitary", desc))
        if err(np.sort(D), np.sort(np.abs(r))) > 1e-6:
            fails.append(("euler-values", f"squeezings {np.sort(D).tolist()} instead of {np.sort(np.abs(r)).tolist()}", desc))
        po = [x for x in conn.log if x[0] == "polar"]
        if po:
            U0f, P = po[0][2]
            contracts = {"polar": err(P @ U0f, S) / scale, "U0 block form": max(err(U0f[:d, d:], 0 * U0f[:d, d:]), err(U0f[d:, d:], U0f[:d, :d].conj())),
                         "P = cf(U) Sq(r) cf(U)^dagger": err(P, cf(Ul) @ sq(D) @ cf(Ul).conj().T) / scale}
            worst = max(contracts, key=contracts.get)
            ctx.notes["euler_contract_worst"] = max(ctx.notes.get("euler_contract_worst", 0.0), contracts[worst])
            if contracts[worst] > 1e-6:
                fails.append((f"euler-contract:{worst}", f"intermediate of euler violates the contract `{worst}` of the theorem by {contracts[worst]:.2e}", desc))
    return fails


def graph_family(ctx, n):
    import piquasso as pq
    rng = np.random.default_rng(ctx.seed + 15151515)
    fails = []
    for it in range(n):
        d = int(rng.integers(2, 7))
        c = int(rng.integers(0, 5))
        A = np.triu(rng.integers(0, 2, (d, d)).astype(float), 1)
        A = A + A.T
        if c == 1:
            A = np.ones((d, d)) - np.eye(d)
        if c == 2:
            A = np.zeros((d, d))
            for i in range(0, d - 1, 2):
                A[i, i + 1] = A[i + 1, i] = 1
        if c == 3:
            A = A * rng.uniform(0.2, 2)
        if np.abs(A).max() == 0:
            continue
        mpn = float(rng.uniform(0.05, 2))
        desc = {"d": d, "A": A.tolist(), "mean_photon_number": mpn}
        ctx.count(("graph", it), nontrivial=np.linalg.matrix_rank(A) < d or c in (1, 2))
        try:
            with warnings.catch_warnings():
                warnings.simplefilter("ignore")
                st = pq.GaussianSimulator(d=d).execute(pq.Program(instructions=[pq.Graph(A, mean_photon_number=mpn).on_modes(*range(d))])).state
                mean = sum(float(st.reduced((m,)).mean_photon_number()) for m in range(d)) / d
        except Exception as e:
            fails.append((f"graph-raise:{type(e).__name__}", f"{type(e).__name__}: {str(e)[:140]}", desc)); continue
        if abs(mean - mpn) > 1e-6 * (1 + mpn):
            fails.append(("graph-mean-photon", f"the embedded graph state has mean photon number {mean:.9g} per mode instead of {mpn:.9g}", desc))
    return fails


def run(ctx):
    quick = ctx.tier == "quick"
    n = 60 if quick else 2000
    ctx.rule = ("structured/degenerate inputs up to dimension 6 (12 for real forms): identity, permutations, diagonal phases, block-diagonal, "
                "embedded 2x2, signed permutations, DFT, Haar; singular / symplectic / squeezing values generic, all equal, from a 3-point set, "
                "paired, half-degenerate, near-degenerate (gap 1e-14..1e-7), one decimal, all zero; d=1; non-trivial = d>=2 with repeated values")
    ctx.assumptions = ["SVD / Schur / sqrtm / polar / logm of SciPy are trusted to satisfy the contracts stated as theorem hypotheses; the contracts are "
                       "re-checked numerically on every recorded intermediate",
                       "floating-point accuracy of the nulling (np.isclose branch, arctan/angle) is compared with tolerance 1e-8, not proved"]
    ctx.prove("PqVerif.Props.C15", THEOREMS, FILES)
    import subprocess, glob, sys, os
    for f in sorted(glob.glob(os.path.join(os.path.dirname(__file__), "..", "..", "..", "corpus", "repro", "c15_*.py"))):
        p = subprocess.run([sys.executable, f], capture_output=True, text=True, cwd=os.environ.get("PQ_REPO", "/repo"))
        ctx.count("repro:" + os.path.basename(f), True)
        if p.returncode != 0:
            ctx.fail("repro:" + os.path.basename(f), "pinned regression fails: " + p.stdout[-300:], {"script": f})
    m1 = schedule_correspondence(ctx)
    m2 = commute_correspondence(ctx, 40 if quick else 600)
    fails = clements_family(ctx, n) + takagi_family(ctx, n) + williamson_family(ctx, n) + euler_family(ctx, n) + graph_family(ctx, 25 if quick else 500)
    seen = set()
    for key, msg, inp in fails:
        if key not in seen:
            seen.add(key)
            ctx.fail(key, msg, inp)
    for nm, mm in (("Model/ClementsSched.schedule vs clements()", m1), ("Model/ClementsSched.commute vs _commute", m2)):
        if mm:
            ctx.notes.setdefault("first_mismatches", []).extend(dict(op=m[0][:200], what=m[1][:300]) for m in mm[:3])
            ctx.broken.append("correspondence:" + nm)
    ctx.notes["correspondence_mismatches"] = len(m1) + len(m2)
