"""C06: Fock-basis enumeration and index functions are mutually inverse.
proof: PqVerif.Props.C06 ; tie: exhaustive correspondence of the Lean models with the real
functions ; search: the bijection evaluated directly on the real functions."""
import itertools
import os
import numpy as np
from pqv.core import fmt_list, fmt_rows

THEOREMS = [
    "Pq.C06.fockBasis_eq_basis", "Pq.C06.mem_fockBasis", "Pq.C06.fockBasis_nodup",
    "Pq.C06.index_basis", "Pq.C06.basis_index", "Pq.C06.map_index_fockBasis",
    "Pq.C06.cutoffDim_eq_length", "Pq.C06.subspaceCard_eq_length",
    "Pq.C06.fockBasis_sorted_by_number", "Pq.C06.partitions_antilex",
    "Pq.C06.index_eq_offset_add_subindex", "Pq.C06.indexArr_eq", "Pq.C06.subindexArr_eq",
    "Pq.C06.wrap32_exact", "Pq.C06.wrap32_witness", "Pq.C06.comb_spec",
    "Pq.C06.fermi_index_basis", "Pq.C06.fermi_basis_spec",
]
FILES = ["PqVerif/Model/Comb.lean", "PqVerif/Lemmas/Comb.lean", "PqVerif/Lemmas/CombIndex.lean",
         "PqVerif/Lemmas/CombLoop.lean", "PqVerif/Lemmas/Fermi.lean", "PqVerif/Props/C06.lean"]


def real_ops(ctx, dmax, cmax, fdmax, nrandom):
    """yield (line, expected, tag, nontrivial) computed by the real code"""
    from piquasso._math import fock, indices, combinatorics as cb
    from piquasso.fermionic import _utils as fu
    rng = ctx.rng
    for n in range(-2, 14):
        for k in range(-2, 14):
            yield f"comb {n} {k}", str(int(cb.comb(n, k))), "comb", n > k > 1
    for n in range(0, 12):
        for k in range(0, 8):
            v = cb.arr_comb(np.array([n], dtype=np.int32), k)
            yield f"arrcomb {n} {k}", str(int(v[0])), "arr_comb", n > k > 1
    for d in range(1, dmax + 1):
        for c in range(0, cmax + 1):
            # keep the biggest table affordable
            if d + c > dmax + cmax - 1 and ctx.tier == "quick":
                continue
            basis = fock.get_fock_space_basis(d=d, cutoff=c)
            yield f"basis {d} {c}", fmt_rows(basis), "basis", c >= 2 and d >= 2
            yield f"cutoffdim {c} {d}", str(int(fock.cutoff_fock_space_dim(cutoff=c, d=d))), "dim", c >= 2
            arr = fock.cutoff_fock_space_dim_array(np.array([c], dtype=np.int64), d)
            yield f"cutoffdim {c} {d}", str(int(arr[0])), "dim_array", c >= 2
            yield f"subcard {d} {c}", str(int(fock.symmetric_subspace_cardinality(d, c))), "subcard", c >= 2
            yield f"partitions {d} {c}", fmt_rows(cb.partitions(d, c)), "partitions", c >= 2 and d >= 2
            if len(basis):
                idx = [int(indices.get_index_in_fock_space(tuple(int(x) for x in r))) for r in basis]
                yield f"basisindex {d} {c}", fmt_list(idx), "index_scalar_all", c >= 2 and d >= 2
                ia = indices.get_index_in_fock_space_array(np.asarray(basis, dtype=np.int32))
                yield (f"basisindex {d} {c}", fmt_list(ia), "index_array_all", c >= 2 and d >= 2)
    # sub-space indices, scalar and array, on every vector of moderate bases
    for d in range(1, min(dmax, 5) + 1):
        basis = fock.get_fock_space_basis(d=d, cutoff=min(cmax, 6))
        for r in basis:
            t = tuple(int(x) for x in r)
            yield f"subindex {fmt_list(t)}", str(int(indices.get_index_in_fock_subspace(t))), "subindex", sum(t) >= 2
        sa = indices.get_index_in_fock_subspace_array(np.asarray(basis, dtype=np.int32))
        for r, v in zip(basis, sa):
            yield f"subindexarr {fmt_list(r)}", str(int(v)), "subindex_array", int(sum(r)) >= 2
    # random large occupation vectors (indices up to and beyond 2^31: int32 wrap included)
    for _ in range(nrandom):
        d = rng.randint(1, 9)
        big = rng.random() < 0.5
        v = [rng.randint(0, 60 if big else 6) if rng.random() < 0.7 else 0 for _ in range(d)]
        t = tuple(v)
        yield f"index {fmt_list(t)}", str(int(indices.get_index_in_fock_space(t))), "index_random", sum(v) > 3
        exact = int(indices.get_index_in_fock_space(t))
        if exact < 2 ** 31:
            ia = indices.get_index_in_fock_space_array(np.asarray([v], dtype=np.int32))
            yield f"indexarr {fmt_list(t)}", str(int(ia[0])), "index_array_random", sum(v) > 3
    # fermionic
    for d in range(1, fdmax + 1):
        for c in sorted({0, 1, 2, d, d + 1} | set(range(0, d + 2) if d <= 6 else [])):
            if c > d + 1:
                continue
            b = fu.get_fock_space_basis(d, c)
            yield f"fbasis {d} {c}", fmt_rows(b), "fermi_basis", c >= 2
            yield f"fdim {d} {c}", str(int(fu.get_cutoff_fock_space_dimension(d, c))), "fermi_dim", c >= 2
        b = fu.get_fock_space_basis(d, d + 1)
        for r in b:
            occ = np.asarray(r, dtype=np.int64)
            yield f"findex {fmt_list(r)}", str(int(fu.get_fock_space_index(occ))), "fermi_index", int(sum(r)) >= 2
            yield f"fsubindex {fmt_list(r)}", str(int(fu.get_fock_subspace_index(occ))), "fermi_subindex", int(sum(r)) >= 2
            fq = fu._to_first_quantized(occ)
            if len(fq) <= d and d <= 7:
                nxt = fu.next_first_quantized(fq.copy(), d)
                yield f"nextfirst {fmt_list(fq)} {d}", fmt_list(nxt), "next_first_quantized", len(fq) >= 2
        if d <= 8:
            yield f"b2f {d}", fmt_list(fu.binary_to_fock_indices(d)), "binary_to_fock", d >= 2


def direct_search(ctx, dmax, cmax, fdmax):
    """The property itself on the real functions: returns list of (key, msg, input)."""
    from piquasso._math import fock, indices
    from piquasso.fermionic import _utils as fu
    from math import comb as C
    out = []
    for d in range(1, dmax + 1):
        for c in range(0, cmax + 1):
            b = fock.get_fock_space_basis(d=d, cutoff=c)
            rows = [tuple(int(x) for x in r) for r in b]
            want = sorted((t for t in itertools.product(range(max(c, 1)), repeat=d) if sum(t) < c),
                          key=lambda t: (sum(t), tuple(-x for x in t))) if d <= 5 and c <= 6 else None
            if want is not None and rows != want:
                out.append((f"basis:{d}:{c}", f"get_fock_space_basis(d={d},cutoff={c}) is not the ordered "
                            f"list of all occupation vectors below the cutoff", {"d": d, "cutoff": c, "got": rows[:40]}))
                continue
            if len(set(rows)) != len(rows) or any(sum(t) >= c for t in rows) or len(rows) != C(d + c - 1, d) * (c > 0):
                out.append((f"basis:{d}:{c}", "basis has duplicates / wrong length / vectors above cutoff",
                            {"d": d, "cutoff": c}))
                continue
            if int(fock.cutoff_fock_space_dim(cutoff=c, d=d)) != len(rows):
                out.append((f"dim:{d}:{c}", "cutoff_fock_space_dim != len(basis)", {"d": d, "cutoff": c}))
            for i, t in enumerate(rows):
                j = int(indices.get_index_in_fock_space(t))
                if j != i:
                    out.append((f"index:{t}", f"get_index_in_fock_space({t}) = {j}, position in basis = {i}",
                                {"d": d, "cutoff": c, "vector": t, "index": j, "position": i}))
                    break
            if len(rows):
                ia = indices.get_index_in_fock_space_array(np.asarray(rows, dtype=np.int32).reshape(len(rows), d))
                bad = [i for i in range(len(rows)) if int(ia[i]) != i]
                if bad:
                    out.append((f"indexarr:{rows[bad[0]]}", "get_index_in_fock_space_array disagrees with position",
                                {"vector": rows[bad[0]], "got": int(ia[bad[0]]), "position": bad[0]}))
                # sub-space index: position inside the sector
                off = {}
                for i, t in enumerate(rows):
                    off.setdefault(sum(t), i)
                for i, t in enumerate(rows):
                    if int(indices.get_index_in_fock_subspace(t)) != i - off[sum(t)]:
                        out.append((f"subindex:{t}", "get_index_in_fock_subspace != position in sector",
                                    {"vector": t}))
                        break
    for d in range(1, fdmax + 1):
        b = fu.get_fock_space_basis(d, d + 1)
        rows = [tuple(int(x) for x in r) for r in b]
        want = []
        for k in range(d + 1):
            for comb_ in itertools.combinations(range(d), k):
                want.append(tuple(1 if i in comb_ else 0 for i in range(d)))
        if rows != want:
            out.append((f"fbasis:{d}", "fermionic basis is not the ordered list of 0/1 occupations",
                        {"d": d, "got": rows[:40]}))
            continue
        for i, t in enumerate(rows):
            j = int(fu.get_fock_space_index(np.asarray(t, dtype=np.int64)))
            if j != i:
                out.append((f"findex:{t}", f"fermionic get_fock_space_index({t}) = {j}, position {i}",
                            {"vector": t, "index": j, "position": i}))
                break
    return out


BC_CODE = r"""
import sys, random, traceback
sys.path.insert(0, %r)
from pqv.props import c06
class Ctx: pass
ctx = Ctx(); ctx.rng = random.Random(%d); ctx.tier = "quick"
last = None; n = 0
try:
    for line, exp, tag, nt in c06.real_ops(ctx, %d, %d, %d, %d):
        last = (line[:120], tag); n += 1
    c06.direct_search(ctx, 4, 5, 5)
    print("BC-OK", n)
except IndexError as e:
    tb = [t for t in traceback.extract_tb(e.__traceback__) if "c06.py" in t.filename][-1]
    print("BC-OOB after", repr(last), "in:", tb.line)
"""


def bounds_checked(ctx, dmax, cmax, fdmax, nrand):
    """memory safety of the numba-compiled index functions: the same operations with NUMBA_BOUNDSCHECK=1 in a
    separate process (own cache directory): an out-of-bounds read/write is an IndexError instead of silent heap damage"""
    import subprocess, sys
    harness = os.path.abspath(os.path.join(os.path.dirname(__file__), "..", ".."))
    cache = os.path.join(os.environ.get("NUMBA_CACHE_DIR") or os.path.join(harness, "..", ".numba_cache", "adhoc"), "boundscheck")
    os.makedirs(cache, exist_ok=True)
    env = dict(os.environ, NUMBA_BOUNDSCHECK="1", NUMBA_CACHE_DIR=cache)
    p = subprocess.run([sys.executable, "-c", BC_CODE % (harness, ctx.seed + 6, dmax, cmax, fdmax, nrand)],
                       env=env, capture_output=True, text=True, cwd=os.environ.get("PQ_REPO", "/repo"))
    out = p.stdout.strip().splitlines()
    ctx.count("boundscheck", True)
    ctx.notes["boundscheck"] = (out[-1] if out else "")[:300]
    if out and out[-1].startswith("BC-OK"):
        return
    msg = out[-1] if out else f"bounds-checked process exited with {p.returncode}: {p.stderr.strip()[-200:]}"
    ctx.fail("oob:" + msg[:80], "numba bounds check: " + msg[:300], {"boundscheck": msg, "params": [dmax, cmax, fdmax, nrand]})


def run(ctx):
    quick = ctx.tier == "quick"
    dmax, cmax, fdmax, nrand = (5, 6, 7, 2000) if quick else (7, 9, 10, 10000)
    ctx.rule = ("exhaustive over d<=%d, cutoff<=%d bosonic / d<=%d fermionic of every basis, index, dimension "
                "function + %d random occupation vectors; non-trivial = >=2 modes and >=2 particles (or index "
                "of a vector with total > 3); distinct = distinct protocol line" % (dmax, cmax, fdmax, nrand))
    ctx.assumptions = ["numba int64/int32 arithmetic modelled as Nat with explicit int32 wrap",
                       "lru_cache on get_fock_space_basis ignored"]
    ctx.prove("PqVerif.Props.C06", THEOREMS, FILES)
    import subprocess, glob, sys
    for f in sorted(glob.glob(os.path.join(os.path.dirname(__file__), "..", "..", "..", "corpus", "repro", "c06_*.py"))):
        p = subprocess.run([sys.executable, f], capture_output=True, text=True, cwd=os.environ.get("PQ_REPO", "/repo"))
        ctx.count("repro:" + os.path.basename(f), True)
        if p.returncode != 0:
            ctx.fail("repro:" + os.path.basename(f), "pinned regression fails: " + p.stdout[-300:], {"script": f})
    bounds_checked(ctx, *((4, 5, 7, 300) if quick else (5, 7, 9, 3000)))
    ops = list(real_ops(ctx, dmax, cmax, fdmax, nrand))
    outs = ctx.lean_run([o[0] for o in ops])
    mism = []
    tags = {}
    for (line, exp, tag, nt), got in zip(ops, outs):
        ctx.count(line + "#" + tag, nt, sample={"op": line[:80], "real": exp[:80], "model": got[:80]} if nt and len(ctx.samples) < 6 and tag not in tags else None)
        tags[tag] = tags.get(tag, 0) + 1
        if exp != got:
            mism.append((line, exp, got, tag))
    ctx.notes["input_distribution"] = tags
    ctx.notes["exhaustive"] = True
    ctx.notes["correspondence_mismatches"] = len(mism)
    found = []
    if mism or ctx.broken:
        if mism:
            ctx.broken.append("correspondence:Model/Comb vs " + ",".join(sorted({m[3] for m in mism})))
            ctx.notes["first_mismatches"] = [dict(op=m[0][:200], real=m[1][:200], model=m[2][:200]) for m in mism[:5]]
        found = direct_search(ctx, min(dmax + 1, 7), min(cmax + 1, 9), fdmax)
    else:
        # the direct statement is cheap: always evaluate it on a smaller box as a cross-check of the harness
        found = direct_search(ctx, 4, 5, 5)
    for key, msg, inp in found[:5]:
        ctx.fail(key, msg, inp)
    if mism and not found:
        # model and code differ but the bijection still holds on everything searched
        m = mism[0]
        ctx.fail("correspondence:" + m[3], f"model/implementation differ on `{m[0][:120]}`: real {m[1][:120]} model {m[2][:120]}", None)
