"""C08: every reachable state is a physical quantum state (partial).
proof: PqVerif.Props.C08 — congruence by any matrix keeps the ladder covariance positive semidefinite, hence every
(proved-symplectic) linear gate and their sequences keep Gaussian states physical; Kraus maps keep density
matrices PSD and do not increase the trace for contractions; unitary blocks preserve norms; the repaired
purity is hbar-free (C14).  Not proved: physicality of the concrete channel / measurement updates (Schur
complements, hafnian-based quantities) — monitored on the real simulators.
tie/search: a per-instruction monitor: every prefix of random valid programs (gates, channels, mid-circuit
measurements, post-selection; all hbar, cutoffs 1..6) is executed on the real simulators and the invariants
of the statement are evaluated on every branch state."""
import math
import numpy as np
from pqv.props.c07 import haar

THEOREMS = ["Pq.C08.congruence_psd", "Pq.C08.gaussian_gate_keeps_physical", "Pq.C08.kraus_psd", "Pq.C08.unitary_preserves_norm",
            "Pq.C08.contraction_norm_le", "Pq.C08.attenuator_kraus_form", "Pq.C08.attenuator_kraus_complete",
            "Pq.C08.attenuator_keeps_physical", "Pq.C08.gaussian_channel_keeps_uncertainty", "Pq.C08.gaussian_channel_code_condition_wrong"]
FILES = ["PqVerif/Props/C08.lean", "PqVerif/Lemmas/GaussCongr.lean", "PqVerif/Lemmas/Attenuator.lean", "PqVerif/Lemmas/GaussChannel.lean", "PqVerif/Model/Gauss.lean"]
HBARS = [0.5, 1.0, 2.0, 3.7]
TOL = 1e-8


def omega(d):  # xpxp symplectic form
    return np.kron(np.eye(d), np.array([[0, 1], [-1, 0]]))


def check_state(pq, st, kind, where, desc, fails, pure_expected=None):
    key = lambda k: f"{kind}:{k}"
    if type(st).__name__ == "FockState" and kind in ("PureFock", "Passive"):
        # a pure simulator handed back a mixed state (imperfect post-selection): the density-matrix invariants apply
        return check_state(pq, st, "Fock", where + f" [{kind} simulator]", desc, fails, pure_expected)
    try:
        if kind == "Gaussian":
            cov = np.asarray(st.xpxp_covariance_matrix); mean = np.asarray(st.xpxp_mean_vector)
            hbar = st._config.hbar
            if np.abs(cov.imag).max() > TOL or np.abs(np.asarray(mean).imag).max() > TOL:
                fails.append((key("complex-moments"), f"Gaussian moments are not real after {where}", desc))
            if np.abs(cov - cov.T).max() > TOL * (1 + np.abs(cov).max()):
                fails.append((key("cov-not-symmetric"), f"covariance not symmetric after {where}", desc))
            ev = np.linalg.eigvalsh((cov + cov.T) / 2 / hbar + 1j * omega(st.d))
            if ev.min() < -1e-7 * (1 + np.abs(cov).max()):
                fails.append((key("uncertainty"), f"uncertainty relation violated after {where}: min eigenvalue of cov/hbar + i Omega = {ev.min():.3e}", desc))
            pu = float(np.real(st.get_purity()))
            if not (0 < pu <= 1 + 1e-7):
                fails.append((key("purity-range"), f"purity {pu} outside (0, 1] after {where}", desc))
            if pure_expected and abs(pu - 1) > 1e-7:
                fails.append((key("purity-pure"), f"purity of a pure state is {pu} after {where}", desc))
            vac = float(np.real(st.get_particle_detection_probability((0,) * st.d)))
            if not (-1e-9 <= vac <= 1 + 1e-9):
                fails.append((key("probability-range"), f"vacuum probability {vac} outside [0,1] after {where}", desc))
        elif kind == "PureFock":
            nrm = float(np.real(st.norm))
            if nrm > 1 + 1e-9:
                fails.append((key("norm>1"), f"norm {nrm} exceeds one after {where}", desc))
            p = np.asarray(st.fock_probabilities, dtype=float)
            if p.min() < -1e-12 or p.max() > 1 + 1e-9:
                fails.append((key("probability-range"), f"a Fock probability lies outside [0,1] after {where}: [{p.min()}, {p.max()}]", desc))
        elif kind == "Fock":
            dm = np.asarray(st.density_matrix)
            if np.abs(dm - dm.conj().T).max() > TOL:
                fails.append((key("not-hermitian"), f"density matrix not Hermitian after {where}", desc))
            ev = np.linalg.eigvalsh((dm + dm.conj().T) / 2)
            if ev.min() < -1e-8:
                fails.append((key("not-psd"), f"density matrix has eigenvalue {ev.min():.3e} after {where}", desc))
            tr = float(np.real(np.trace(dm)))
            if tr > 1 + 1e-8:
                fails.append((key("trace>1"), f"trace {tr} exceeds one after {where}", desc))
            p = np.asarray(st.fock_probabilities, dtype=float)
            if p.min() < -1e-10 or p.max() > 1 + 1e-9:
                fails.append((key("probability-range"), f"a Fock probability lies outside [0,1] after {where}", desc))
        elif kind == "Passive":
            nrm = float(np.real(st.norm))
            if nrm > 1 + 1e-8 or nrm < -1e-12:
                fails.append((key("norm"), f"norm {nrm} outside [0,1] after {where}", desc))
            sv = np.linalg.svd(np.asarray(st.interferometer), compute_uv=False)
            if sv.max() > 1 + 1e-8:
                fails.append((key("gain"), f"transmission matrix has singular value {sv.max()} > 1 after {where}", desc))
        elif kind == "FermionicGaussian":
            cm = np.asarray(st.correlation_matrix)
            ev = np.linalg.eigvalsh((cm + cm.conj().T) / 2)
            if ev.min() < -1e-8 or ev.max() > 1 + 1e-8:
                fails.append((key("spectrum"), f"correlation matrix spectrum [{ev.min():.3e}, {ev.max():.6f}] outside [0,1] after {where}", desc))
        elif kind == "FermionicPureFock":
            nrm = float(np.real(np.sum(np.abs(np.asarray(st.state_vector)) ** 2)))
            if abs(nrm - 1) > 1e-8:
                fails.append((key("norm"), f"norm {nrm} != 1 after {where}", desc))
    except Exception as e:
        if type(e).__name__ not in ("NotImplementedCalculation",):
            fails.append((key(f"observable-raise:{type(e).__name__}"), f"evaluating the invariants after {where} raised {type(e).__name__}: {str(e)[:100]}", desc))


def gen_program(pq, rng, kind, d, cutoff):
    u = lambda a, b: float(rng.uniform(a, b))
    ins = []
    conserving = True
    pure = True
    if kind == "Gaussian":
        if rng.random() < 0.3:
            ins.append((lambda: pq.Thermal([u(0, 0.5) for _ in range(d)]), ())); pure = False
        else:
            ins.append((lambda: pq.Vacuum(), ()))
    elif kind == "Fock":
        ins.append((lambda: pq.Vacuum(), ()))
    elif kind in ("PureFock", "Passive"):
        occ = [0] * d
        for _ in range(int(rng.integers(0, min(cutoff, 3)))):
            occ[int(rng.integers(0, d))] += 1
        ins.append((lambda occ=tuple(occ): pq.StateVector(occ), tuple(range(d))))
    elif kind.startswith("Fermionic"):
        occ = tuple(int(x) for x in rng.integers(0, 2, size=d))
        ins.append((lambda occ=occ: pq.fermionic.NumberState(occ) if hasattr(pq.fermionic, "NumberState") else pq.StateVector(occ), tuple(range(d))))
    n = int(rng.integers(1, 7))
    for _ in range(n):
        r = rng.random()
        m1 = (int(rng.integers(0, d)),)
        m2 = tuple(int(x) for x in rng.choice(d, size=2, replace=False)) if d >= 2 else None
        adj = (lambda a: (a, a + 1))(int(rng.integers(0, d - 1))) if d >= 2 else None
        if kind == "Gaussian":
            opts = [(lambda: pq.Squeezing(r=u(-0.6, 0.6), phi=u(0, 3)), m1), (lambda: pq.Displacement(r=u(0, 1), phi=u(0, 3)), m1),
                    (lambda: pq.Phaseshifter(phi=u(0, 3)), m1), (lambda: pq.QuadraticPhase(s=u(-0.5, 0.5)), m1)]
            if m2:
                opts += [(lambda: pq.Beamsplitter(theta=u(0, 1.5), phi=u(0, 3)), m2), (lambda: pq.Squeezing2(r=u(-0.4, 0.4), phi=u(0, 3)), m2),
                         (lambda: pq.ControlledX(s=u(-0.5, 0.5)), m2), (lambda: pq.ControlledZ(s=u(-0.5, 0.5)), m2)]
            if rng.random() < 0.25:
                th = u(0.1, 1.2)
                opts = [(lambda: pq.Attenuator(theta=th, mean_thermal_excitation=float(rng.choice([0.0, 0.3]))), m1)];
            if rng.random() < 0.15 and d >= 2:
                opts = [(lambda: pq.HomodyneMeasurement(phi=u(0, 3)), m1), (lambda: pq.HeterodyneMeasurement(), m1)]
                if d >= 3:
                    # several modes measured at once, one mode left: the conditional state must stay physical
                    sq = u(0.3, 3.0)
                    opts += [(lambda: pq.HomodyneMeasurement(phi=u(0, 3)), m2), (lambda: pq.HeterodyneMeasurement(), m2),
                             (lambda: pq.GeneraldyneMeasurement(detection_covariance=np.diag([sq, 1 / sq])), m2),
                             (lambda: pq.HomodyneMeasurement(phi=u(0, 3)), m2), (lambda: pq.GeneraldyneMeasurement(detection_covariance=np.diag([sq, 1 / sq])), m2)]
        elif kind in ("PureFock", "Fock"):
            opts = [(lambda: pq.Phaseshifter(phi=u(0, 3)), m1), (lambda: pq.Kerr(xi=u(0, 2)), m1)]
            if m2:
                opts += [(lambda: pq.Beamsplitter(theta=u(0, 1.5), phi=u(0, 3)), m2), (lambda: pq.CrossKerr(xi=u(0, 2)), m2),
                         (lambda: pq.Interferometer(haar(rng, 2)), m2)]
            if rng.random() < 0.3:
                opts = [(lambda: pq.Squeezing(r=u(-0.4, 0.4), phi=u(0, 3)), m1), (lambda: pq.Displacement(r=u(0, 0.6), phi=u(0, 3)), m1),
                        (lambda: pq.CubicPhase(gamma=u(-0.1, 0.1)), m1)]
                conserving = False
            if kind == "Fock" and rng.random() < 0.2:
                opts = [(lambda: pq.Attenuator(theta=u(0.1, 1.2)), m1)]; conserving = False
            if kind == "PureFock" and rng.random() < 0.15 and d >= 2:
                opts = [(lambda: pq.ParticleNumberMeasurement(), m1), (lambda: pq.PostSelectPhotons(photon_counts=(int(rng.integers(0, 2)),)), m1)]
        elif kind == "Passive":
            opts = [(lambda: pq.Phaseshifter(phi=u(0, 3)), m1), (lambda: pq.Loss(transmissivity=u(0.2, 1.0)), m1)]
            if m2:
                opts += [(lambda: pq.Beamsplitter(theta=u(0, 1.5), phi=u(0, 3)), m2), (lambda: pq.Interferometer(haar(rng, 2)), m2)]
            if rng.random() < 0.15 and d >= 2:
                opts = [(lambda: pq.ParticleNumberMeasurement(), m1), (lambda: pq.PostSelectPhotons(photon_counts=(int(rng.integers(0, 2)),)), m1)]
        else:
            opts = [(lambda: pq.Phaseshifter(phi=u(0, 3)), m1)]
            if adj:
                opts += [(lambda: pq.Beamsplitter(theta=u(0, 1.5), phi=u(0, 3)), adj), (lambda: pq.Squeezing2(r=u(-0.5, 0.5), phi=u(0, 3)), adj),
                         (lambda: pq.fermionic.IsingXX(phi=u(0, 3)), adj) if hasattr(pq.fermionic, "IsingXX") else (lambda: pq.Phaseshifter(phi=0.1), m1)]
        f, modes = opts[int(rng.integers(0, len(opts)))]
        ins.append((f, modes))
    if kind in ("PureFock", "Passive") and d >= 2 and rng.random() < 0.3:
        # an imperfect post-selection as the LAST instruction: the remaining modes are left in a mixed state, which must be a
        # Hermitian positive semidefinite matrix also when the amplitudes are complex
        M = np.triu(rng.uniform(0.05, 1.0, size=(3, 3))); M = M / M.sum(axis=0)
        mm = (int(rng.integers(0, d)),)
        cnt = int(rng.integers(0, 2))
        ins.append((lambda M=M, cnt=cnt: pq.ImperfectPostSelectPhotons(photon_counts=(cnt,), detector_efficiency_matrix=M), mm))
    return ins, pure


def monitor(ctx, n_programs):
    import piquasso as pq
    from piquasso.api.instruction import Measurement
    rng = np.random.default_rng(ctx.seed + 8)
    fails = []
    sims = {"Gaussian": pq.GaussianSimulator, "PureFock": pq.PureFockSimulator, "Fock": pq.FockSimulator, "Passive": pq.PassiveSimulator,
            "FermionicGaussian": pq.fermionic.GaussianSimulator, "FermionicPureFock": pq.fermionic.PureFockSimulator}
    dist = {}
    for it in range(n_programs):
        kind = list(sims)[it % len(sims)]
        d = int(rng.integers(1, 4)) if not kind.startswith("Fermionic") else int(rng.integers(2, 5))
        if kind == "Gaussian":
            d = int(rng.choice([1, 2, 3, 3]))
        cutoff = int(rng.integers(1, 7))
        if kind == "FermionicPureFock":
            cutoff = d + 1      # the full fermionic Fock space (particle-number changing gates need it)
        hbar = float(rng.choice(HBARS))
        prog, pure0 = gen_program(pq, rng, kind, d, cutoff)
        built = []
        for f, modes in prog:
            try:
                i = f()
                built.append((i.on_modes(*modes) if modes else i))
            except Exception:
                built = None; break
        if not built:
            continue
        desc = {"sim": kind, "d": d, "cutoff": cutoff, "hbar": hbar, "program": [(type(i).__name__, tuple(i.modes), {k: (repr(v)[:40]) for k, v in i.params.items()}) for i in built]}
        active = d
        measured_mid = False
        for k in range(1, len(built) + 1):
            prefix = [type(i)(**i.params).on_modes(*i.modes) if i.modes else type(i)(**i.params) for i in built[:k]]
            last = built[k - 1]
            is_meas = isinstance(last, Measurement)
            shots = None if (is_meas and kind in ("PureFock", "Passive")) or not any(isinstance(x, Measurement) for x in built[:k]) else 2
            if kind == "Gaussian" and any(isinstance(x, Measurement) for x in built[:k]):
                shots = 2
            if any(type(x).__name__ == "ImperfectPostSelectPhotons" for x in built[:k]):
                shots = 2       # not available with shots=None
            try:
                res = sims[kind](d=d, config=pq.Config(cutoff=cutoff, hbar=hbar, seed_sequence=int(rng.integers(1, 10 ** 6)))).execute(pq.Program(instructions=prefix), shots=shots)
            except Exception as e:
                nm = type(e).__name__
                if nm == "InvalidState" and k >= 2 and kind == "Gaussian":
                    # every generated gate, channel and measurement is valid: the simulator itself found its state unphysical
                    fails.append((f"{kind}:unphysical-state-raised:{type(last).__name__}", f"{kind}: {type(last).__name__} on modes {tuple(last.modes)} made the state unphysical (InvalidState: {str(e)[:80]})", desc)); break
                if nm in ("InvalidSimulation", "InvalidParameter", "InvalidState", "InvalidModes", "NotImplementedCalculation", "InvalidInstruction") or (nm == "ValueError" and "not active" in str(e)):
                    break   # the generator produced a program outside the simulator's support: not this property's business
                fails.append((f"{kind}:raise:{nm}", f"{kind}: prefix of length {k} raised {nm}: {str(e)[:100]}", desc)); break
            ctx.count(("prefix", it, k), nontrivial=k >= 2)
            dist[kind] = dist.get(kind, 0) + 1
            where = f"instruction {k} ({type(last).__name__}{tuple(last.modes)})"
            pure_now = pure0 and not any(type(x).__name__ in ("Attenuator", "Loss", "HeterodyneMeasurement", "HomodyneMeasurement", "Thermal", "ImperfectPostSelectPhotons") for x in built[:k])
            wsum = 0.0
            for b in res.branches:
                wsum += float(b.frequency)
                if b.state is not None:
                    check_state(pq, b.state, kind, where, desc, fails, pure_expected=pure_now if kind == "Gaussian" else None)
            if shots is None and any(isinstance(x, Measurement) for x in built[:k]) and wsum > 1 + 1e-8:
                fails.append((f"{kind}:branch-weights>1", f"{kind}: branch weights sum to {wsum} after {where}", desc))
            if is_meas:
                measured_mid = True
            if type(last).__name__ == "PostSelectPhotons":
                # post-selection on an outcome of probability zero leaves no state at all: nothing further to require
                try:
                    if all(b.state is None or abs(float(np.real(b.state.norm))) < 1e-12 for b in res.branches):
                        break
                except Exception:
                    pass
        # number-conserving programs preserve the norm exactly on PureFock (no measurement, no active gate)
        if kind == "PureFock" and not any(isinstance(x, Measurement) or type(x).__name__ in ("Squeezing", "Displacement", "CubicPhase") for x in built):
            try:
                st = pq.PureFockSimulator(d=d, config=pq.Config(cutoff=cutoff)).execute(pq.Program(instructions=[type(i)(**i.params).on_modes(*i.modes) for i in built])).state
                if abs(float(np.real(st.norm)) - 1.0) > 1e-9:
                    fails.append(("PureFock:norm-not-preserved", f"number-conserving program changed the norm to {float(np.real(st.norm))}", desc))
            except Exception:
                pass
    ctx.notes["prefix_executions"] = dist
    return fails


def dyne_physicality(ctx, n):
    """several modes of an entangled Gaussian state measured at once (homodyne / heterodyne / general-dyne): the
    conditional state of the remaining modes must be a physical Gaussian state, for every hbar"""
    import piquasso as pq
    rng = np.random.default_rng(ctx.seed + 88)
    fails = []
    for it in range(n):
        d = int(rng.integers(3, 5))
        hbar = float(rng.choice(HBARS))
        u = lambda a, b: float(rng.uniform(a, b))
        ins = [pq.Vacuum()]
        for _ in range(int(rng.integers(2, 5))):
            a, b = (int(x) for x in rng.choice(d, size=2, replace=False))
            ins.append([lambda: pq.Squeezing2(r=u(0.2, 0.7), phi=u(0, 6)).on_modes(a, b), lambda: pq.Squeezing(r=u(0.2, 0.7), phi=u(0, 6)).on_modes(a),
                        lambda: pq.Beamsplitter(theta=u(0.3, 1.3), phi=u(0, 6)).on_modes(a, b)][int(rng.integers(0, 3))]())
        k = int(rng.integers(2, d))
        modes = tuple(int(x) for x in rng.permutation(d)[:k])
        sq = u(0.3, 3.0)
        meas = [lambda: pq.HomodyneMeasurement(phi=u(0, 3)), lambda: pq.HeterodyneMeasurement(),
                lambda: pq.GeneraldyneMeasurement(detection_covariance=np.diag([sq, 1 / sq]))][it % 3]().on_modes(*modes)
        desc = {"d": d, "hbar": hbar, "program": [(type(i).__name__, tuple(i.modes), {k_: repr(v)[:40] for k_, v in i.params.items()}) for i in ins + [meas]]}
        ctx.count(("dyne", it), nontrivial=True)
        try:
            res = pq.GaussianSimulator(d=d, config=pq.Config(hbar=hbar, seed_sequence=int(rng.integers(1, 10 ** 6)))).execute(pq.Program(instructions=ins + [meas]), shots=1)
        except Exception as e:
            if type(e).__name__ == "InvalidState":
                fails.append((f"Gaussian:unphysical-state-raised:{type(meas).__name__}", f"Gaussian: {type(meas).__name__} on modes {modes} made the state unphysical (InvalidState: {str(e)[:80]})", desc))
            else:
                fails.append((f"Gaussian:dyne-raise:{type(e).__name__}", f"{type(e).__name__}: {str(e)[:120]}", desc))
            continue
        for b in res.branches:
            if b.state is not None:
                check_state(pq, b.state, "Gaussian", f"{type(meas).__name__}{modes}", desc, fails, pure_expected=None)
    return fails


def attenuator_model(ctx, n):
    """tie of Lemmas/Attenuator.lean to the real code: the density matrix returned by the Fock `attenuator` step equals
    `Pq.Attenuator.attenuate` (the update per target entry; spectator label = occupation of the other modes, the density
    matrix zero-padded outside the truncated basis) on random mixed states, any mode, d <= 3"""
    import piquasso as pq
    from piquasso._math.fock import get_fock_space_basis
    rng = np.random.default_rng(ctx.seed + 808)
    mism = []
    for it in range(n):
        d = int(rng.integers(1, 4)); cutoff = int(rng.integers(2, 6 if d < 3 else 5)); mode = int(rng.integers(0, d))
        th = float(rng.uniform(0.05, 1.5))
        basis = [tuple(int(x) for x in b) for b in get_fock_space_basis(d=d, cutoff=cutoff)]
        pos = {b: i for i, b in enumerate(basis)}
        N = len(basis)
        B = rng.normal(size=(N, N)) + 1j * rng.normal(size=(N, N))
        rho = B @ B.conj().T
        rho /= np.trace(rho).real
        sim = pq.FockSimulator(d=d, config=pq.Config(cutoff=cutoff))
        st = sim.create_initial_state(d)
        st._density_matrix = rho.copy()
        out = np.asarray(sim.execute(pq.Program(instructions=[pq.Attenuator(theta=th).on_modes(mode)]), initial_state=st).state._density_matrix)
        exp = np.zeros((N, N), dtype=complex)
        up = lambda b, k: tuple(x + (k if i == mode else 0) for i, x in enumerate(b))
        for p, bi in enumerate(basis):
            for q, bj in enumerate(basis):
                i, j = bi[mode], bj[mode]
                for k in range(cutoff):
                    if up(bi, k) in pos and up(bj, k) in pos:
                        exp[p, q] += rho[pos[up(bi, k)], pos[up(bj, k)]] * math.cos(th) ** (i + k + j + k) * math.tan(th) ** (2 * k) * math.sqrt(math.comb(i + k, k) * math.comb(j + k, k))
        ctx.count(("attenuator-model", it), nontrivial=d >= 2 and cutoff >= 3)
        e = float(np.abs(out - exp).max())
        if e > 1e-10:
            mism.append((f"attenuator d={d} cutoff={cutoff} mode={mode} theta={th}", f"the real attenuator differs from the model `attenuate` by {e:.2e}"))
    return mism


KNOWN_CHANNEL = "gaussian-channel:validation-sign"


def pinned_channel_finding(ctx):
    """DeterministicGaussianChannel: a channel must either be rejected up front or keep the state physical.  The unchanged code
    evaluates `Y - iΩ - iXΩXᵀ` instead of the documented `Y + iΩ - iXΩXᵀ` (theorems channel_keeps_uncertainty /
    code_condition_insufficient): time reversal of one mode of a two-mode squeezed vacuum is accepted and the simulator ends
    in an unphysical state (InvalidState)."""
    import piquasso as pq
    ctx.count("pinned:gaussian-channel", True)
    prog = pq.Program(instructions=[pq.Vacuum(), pq.Squeezing2(r=0.8, phi=0.0).on_modes(0, 1),
                                    pq.DeterministicGaussianChannel(X=np.diag([1.0, -1.0]), Y=np.zeros((2, 2))).on_modes(1)])
    desc = {"program": "Vacuum; Squeezing2(r=0.8) on (0,1); DeterministicGaussianChannel(X=diag(1,-1), Y=0) on 1"}
    try:
        st = pq.GaussianSimulator(d=2).execute(prog).state
        cov = np.asarray(st.xpxp_covariance_matrix)
    except pq.api.exceptions.InvalidParameter:
        return                      # rejected up front: what the documentation promises
    except pq.api.exceptions.InvalidState as e:
        ctx.fail(KNOWN_CHANNEL, f"the channel passed validation and the execution ended with InvalidState: {str(e)[:100]}", desc); return
    except Exception as e:
        ctx.fail("gaussian-channel:raise:" + type(e).__name__, f"{type(e).__name__}: {str(e)[:120]}", desc); return
    m = float(np.linalg.eigvalsh(cov + 1j * st._config.hbar * omega(2)).min())
    if m < -1e-9:
        ctx.fail(KNOWN_CHANNEL, f"the channel passed validation and the state violates the uncertainty relation (min eigenvalue {m:.3g})", desc)


def run(ctx):
    quick = ctx.tier == "quick"
    n = 90 if quick else 3000
    ctx.rule = ("random valid programs (<=7 instructions: all gates, Attenuator/Loss channels, mid-circuit measurements, post-selection) on "
                "the six simulators, d<=3 (fermionic d<=4), cutoff 1..6, hbar in {0.5,1,2,3.7}; EVERY prefix is executed and every branch state is "
                "checked (symmetry, uncertainty relation, PSD, trace/norm <= 1, probabilities in [0,1], purity, spectrum); non-trivial = prefix of length >= 2")
    ctx.assumptions = ["eigenvalue tolerances 1e-8 relative", "programs the simulator refuses with a Piquasso exception are skipped (C13 covers them)"]
    from pqv import gengates
    gengates.regenerate(ctx)      # Props/C08 mentions the blocks of Gen/Gates.lean
    ctx.prove("PqVerif.Props.C08", THEOREMS, FILES)
    import glob, os, subprocess, sys
    for f in sorted(glob.glob(os.path.join(os.path.dirname(__file__), "..", "..", "..", "corpus", "repro", "c14_purity*.py"))):
        p = subprocess.run([sys.executable, f], capture_output=True, text=True, cwd=os.environ.get("PQ_REPO", "/repo"))
        ctx.count("repro:" + os.path.basename(f), True)
        if p.returncode != 0:
            ctx.fail("repro:" + os.path.basename(f), "pinned regression fails: " + p.stdout[-300:], {"script": f})
    # the tie of the model the theorems are about (Model/Gauss) to the real simulator, as in C07
    from pqv.props import c07
    mism, f07 = c07.run_sequences(ctx, 15 if quick else 200)
    ctx.notes["correspondence_mismatches"] = len(mism)
    if mism:
        ctx.broken.append("correspondence:Model/Gauss vs GaussianSimulator")
        ctx.notes["first_mismatches"] = [dict(sequence=repr(m[0])[:300], what=m[1]) for m in mism[:3]]
    pinned_channel_finding(ctx)
    m_att = attenuator_model(ctx, 12 if quick else 200)
    if m_att:
        ctx.broken.append("correspondence:Lemmas/Attenuator.attenuate vs fock/simulation_steps.attenuator")
        ctx.notes.setdefault("first_mismatches", []).extend(dict(op=m[0][:200], what=m[1][:200]) for m in m_att[:3])
        ctx.notes["correspondence_mismatches"] = ctx.notes.get("correspondence_mismatches", 0) + len(m_att)
    fails = monitor(ctx, n) + dyne_physicality(ctx, 15 if quick else 300) + f07
    seen = set()
    for key, msg, inp in fails:
        if key not in seen:
            seen.add(key)
            ctx.fail(key, msg, inp)
