"""Generators of scripted-engine requests (valid adaptive programs, single-fault mutations,
fault injections).  Every random choice comes from the rng passed in."""
import copy


def gen_outcomes(rng, k, r):
    outs = []
    seen = set()
    tries = 0
    while len(outs) < r and tries < 50:
        tries += 1
        o = tuple(rng.randint(0, 3) for _ in range(k))
        if o not in seen:
            seen.add(o)
            outs.append(o)
    return tuple(outs)


def gen_weights(rng, r, total_num=None):
    """r positive rationals summing to <= 1 (as (num, den) pairs), some possibly zero"""
    den = rng.choice([2, 3, 4, 6, 8, 12])
    cuts = sorted(rng.randint(0, den) for _ in range(r))
    nums = [cuts[0]] + [cuts[i] - cuts[i - 1] for i in range(1, r)]
    return tuple((n, den) for n in nums)


def gen_expr_over(rng, n_out, kind):
    """expression string over the outcome tuple with n_out entries"""
    if n_out == 0:
        return rng.choice(["1", "2 + 1", "True"]) if kind == "param" else rng.choice(["True", "1 == 1", "x == ()", "not x"])
    i = lambda: rng.randint(-n_out, n_out - 1)
    if kind == "cond":
        return rng.choice([
            f"x[{i()}] == {rng.randint(0, 3)}", f"x[{i()}] > {rng.randint(0, 2)}",
            f"x[{i()}] + x[{i()}] < {rng.randint(1, 5)}", f"x[{i()}] != x[{i()}]",
            f"not x[{i()}]", f"x[{i()}] == 1 and x[{i()}] >= 1", f"x[{i()}] == 0 or x[-1] == 2",
            f"0 < x[{i()}] <= 2", f"x[:1] == ({rng.randint(0, 3)},)", f"x[{i()}] % 2 == 0",
        ])
    return rng.choice([
        f"x[{i()}] * 2 + 1", f"x[{i()}] - x[{i()}]", f"x[{i()}] ** 2", f"(x[{i()}], 1)", f"x[{i()}] ^ 3",
        f"x[-1] + {rng.randint(0, 4)}", f"x[{i()}] % 3",
    ])


def gen_valid(rng, max_instr=8, allow_none=True):
    d = rng.randint(1, 5)
    simd = d if rng.random() < 0.85 else None
    shots = rng.choice([None, None, 1, 2, 3, 5, 7, 8, 12, 20, 33, 50]) if allow_none else rng.randint(1, 50)
    program = []
    if rng.random() < 0.5:
        program.append(dict(cls=0, modes=() if rng.random() < 0.6 else tuple(rng.sample(range(d), rng.randint(1, d))),
                            cond=None, params=[("k", "c", rng.randint(0, 3))]))
    active = list(range(d))
    n_out = 0
    n = rng.randint(1, max_instr)
    touched_max = -1
    for pos in range(n):
        last = pos == n - 1
        if not active:
            break
        r = rng.random()
        cond = gen_expr_over(rng, n_out, "cond") if rng.random() < 0.35 else None
        if r < 0.45:
            # measurement
            if cond is not None and rng.random() < 0.7:
                cond = None
            k = rng.randint(1, len(active)) if rng.random() < 0.3 else 1
            if rng.random() < 0.12:
                modes = ()
                k = len(active)
            else:
                modes = tuple(rng.sample(active, k))
            cls = 4 if (not last or rng.random() < 0.6) else rng.choice([5, 6]) if shots is not None else 4
            if shots is None:
                cls = 4
            # a conditioned measurement would make the outcome tuple length branch-dependent: allowed, but
            # keep later expressions within the guaranteed prefix
            rr = rng.randint(1, 4)
            outs = gen_outcomes(rng, k, rr)
            params = [("outs", "c", outs)]
            if shots is None:
                params.append(("weights", "c", gen_weights(rng, len(outs))))
            program.append(dict(cls=cls, modes=modes, cond=cond, params=params))
            if cond is None:
                n_out += k
            mm = modes if modes else tuple(active)
            active = [m for m in active if m not in mm]
            if cond is not None:
                # modes are removed from the active list whether or not the condition fired
                pass
        else:
            two = rng.random() < 0.25 and len(active) >= 2
            if two:
                modes = tuple(rng.sample(active, 2))
                cls = 3
            else:
                cls = rng.choice([1, 2])
                if rng.random() < 0.15:
                    modes = ()
                else:
                    modes = tuple(rng.sample(active, rng.randint(1, len(active))))
            params = []
            if rng.random() < 0.7:
                params.append(("a", "c", rng.choice([0, 1, 2, 5, -3, 2.5, True])))
            if rng.random() < 0.4:
                params.append(("b", "e", gen_expr_over(rng, n_out, "param")))
            program.append(dict(cls=cls, modes=modes, cond=cond, params=params))
        for m in program[-1]["modes"]:
            touched_max = max(touched_max, m)
    if simd is None and touched_max < 0:
        simd = d
    if simd is None:
        # d is inferred from the instructions
        pass
    return dict(simd=simd, shots=shots, shots_tag="none" if shots is None else str(shots),
                init_tag="absent", init_d=None, program=program, d=d)


MUTATIONS = ["bad_parameter", "mode_out_of_range", "mode_repeated", "prep_late", "unsupported_instruction", "midcircuit_not_allowed",
             "shots_zero", "shots_negative", "shots_float", "shots_none_unsupported", "initial_state_wrong_d",
             "initial_state_wrong_class", "d_not_inferable", "wrong_arity"]


def mutate_request(rng, req, kind):
    """one violated rule at a random position; returns the mutated request or None if not applicable"""
    q = copy.deepcopy(req)
    prog = q["program"]
    d = q["d"]
    if kind == "bad_parameter":
        c = [i for i in prog if all(p[1] == "c" for p in i["params"])]
        if not c:
            return None
        i = rng.choice(c)
        i["params"] = i["params"] + [("invalid", "c", 1)]
    elif kind == "mode_out_of_range":
        c = [i for i in prog if i["modes"]]
        if not c or q["simd"] is None:
            return None
        i = rng.choice(c)
        j = rng.randrange(len(i["modes"]))
        m = list(i["modes"]); m[j] = d + rng.randint(0, 2); i["modes"] = tuple(m)
    elif kind == "mode_repeated":
        c = [i for i in prog if len(i["modes"]) >= 2 or (i["modes"] and i["cls"] != 3)]
        if not c:
            return None
        i = rng.choice(c)
        m = list(i["modes"])
        if len(m) >= 2:
            m[rng.randrange(1, len(m))] = m[0]
        else:
            m = m + [m[0]]
        i["modes"] = tuple(m)
    elif kind == "prep_late":
        nonprep = [k for k, i in enumerate(prog) if i["cls"] != 0]
        if not nonprep:
            return None
        pos = rng.randint(nonprep[0] + 1, len(prog))
        prog.insert(pos, dict(cls=0, modes=(), cond=None, params=[("k", "c", 1)]))
    elif kind == "unsupported_instruction":
        pos = rng.randint(0, len(prog))
        prog.insert(pos, dict(cls=7, modes=(0,), cond=None, params=[]))
    elif kind == "midcircuit_not_allowed":
        c = [k for k, i in enumerate(prog) if i["cls"] == 4 and k != len(prog) - 1]
        if not c or q["shots"] is None:
            return None
        prog[rng.choice(c)]["cls"] = 5
    elif kind == "shots_zero":
        q["shots"] = 0; q["shots_tag"] = "0"
    elif kind == "shots_negative":
        q["shots"] = -rng.randint(1, 5); q["shots_tag"] = "bad"
    elif kind == "shots_float":
        q["shots"] = rng.choice([1.0, 2.5, "3"]); q["shots_tag"] = "bad"
    elif kind == "shots_none_unsupported":
        c = [i for i in prog if i["cls"] == 4]
        if not c:
            return None
        q["shots"] = None; q["shots_tag"] = "none"
        for i in prog:
            if i["cls"] in (4, 5, 6):
                if not any(p[0] == "weights" for p in i["params"]):
                    i["params"].append(("weights", "c", tuple((1, len(i["params"][0][2])) for _ in i["params"][0][2])))
        rng.choice(c)["cls"] = 6
    elif kind == "initial_state_wrong_d":
        eff = q["simd"]
        if eff is None:
            return None
        q["init_tag"] = str(eff + rng.choice([-1, 1, 2]) if eff > 1 else eff + 1)
    elif kind == "initial_state_wrong_class":
        q["init_tag"] = "wrong"; q["init_d"] = q["simd"] or d
    elif kind == "d_not_inferable":
        q["simd"] = None
        for i in prog:
            i["modes"] = ()
        # two-mode gates need explicit modes: drop them
        q["program"] = [i for i in prog if i["cls"] != 3]
        if not q["program"]:
            return None
    elif kind == "wrong_arity":
        # NUMBER_OF_MODES is enforced by Instruction.modes setter (InvalidProgram at construction)
        return None
    q["mutation"] = kind
    return q


def inject_fault(rng, req):
    """make one step (or one parameter resolution / condition) fail at a random position"""
    q = copy.deepcopy(req)
    prog = q["program"]
    if not prog:
        return None
    i = rng.choice(prog)
    kind = rng.choice(["step", "step", "resolve", "cond", "validate"])
    if kind == "step":
        i["params"] = [p for p in i["params"] if p[0] != "fault"] + [("fault", "c", rng.randint(1, 9))]
    elif kind == "validate":
        # _validate of an instruction with outcome-dependent parameters fails when it is reached
        i["params"] = i["params"] + [("invalid", "e", "1"), ]
    elif kind == "resolve":
        i["params"] = i["params"] + [("z", "e", rng.choice(["x[99]", "1 / 0", "x[0] + (1,)", "x['a']" if False else "x[0][0][0]"]))]
    else:
        if i["cond"] is not None:
            return None
        i["cond"] = rng.choice(["x[99] == 1", "1 / 0", "x < 1"])
    q["fault"] = kind
    return q
