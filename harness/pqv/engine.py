"""Scripted engine: fake instructions whose simulation steps are scripted drive the REAL
`Simulator.execute` (validation chain, remap, branch loop, resolve/unresolve, Result).
The same script, serialised as one protocol line, is executed by the Lean model
(Model/Engine.lean + Driver/Engine.lean: `scriptedOracle` mirrors `_step` line for line)."""
import ast
import warnings
from fractions import Fraction

warnings.filterwarnings("ignore")

from piquasso.api.simulator import Simulator
from piquasso.api.state import State
from piquasso.api.branch import Branch
from piquasso.api.instruction import Gate, Measurement, Preparation
from piquasso.api.program import Program
from piquasso.api.config import Config
from piquasso.api import exceptions as pqe
from piquasso._simulators.connectors import NumpyConnector

from pqv.props.c20 import ser, ser_val


class FakeState(State):
    def __init__(self, d, connector, config=None, log=()):
        super().__init__(connector=connector, config=config)
        self._d = d
        self.log = list(log)

    @property
    def d(self):
        return self._d

    @property
    def fock_probabilities(self):
        return []

    def validate(self):
        pass

    def get_particle_detection_probability(self, occupation_number):
        return 0.0


class OtherState(FakeState):
    pass


def _mk(base, name, nmodes=None):
    def __init__(self, **params):
        base.__init__(self, params=dict(params))

    def _validate(self, connector):
        # mirror of Driver/Engine.lean `scriptedPval`
        v = self.params.get("invalid", 0)
        if isinstance(v, int) and not isinstance(v, bool) and v != 0:
            raise pqe.InvalidParameter("scripted invalid parameter")
    return type(name, (base,), {"__init__": __init__, "NUMBER_OF_MODES": nmodes, "_validate": _validate})


# class ids are positions in CLASSES
FPrep0 = _mk(Preparation, "FPrep0")
FGate0 = _mk(Gate, "FGate0")
FGate1 = _mk(Gate, "FGate1")
FGate2 = _mk(Gate, "FGate2", 2)
FMeas0 = _mk(Measurement, "FMeas0")      # allowed mid-circuit and with shots=None
FMeas1 = _mk(Measurement, "FMeas1")      # terminal only, no shots=None
FMeas2 = _mk(Measurement, "FMeas2")      # mid-circuit, no shots=None
FGateX = _mk(Gate, "FGateX")             # not in the instruction map
CLASSES = [FPrep0, FGate0, FGate1, FGate2, FMeas0, FMeas1, FMeas2, FGateX]
BASE = {FPrep0: "prep", FGate0: "gate", FGate1: "gate", FGate2: "gate", FMeas0: "meas", FMeas1: "meas",
        FMeas2: "meas", FGateX: "gate"}
SUPPORTED = [0, 1, 2, 3, 4, 5, 6]
MID = [4, 6]
SHOTS_NONE = [4]


def show_params(params):
    return "{" + ",".join(f"{k}={ser_val(_plain(v))}" for k, v in params.items()) + "}"


def _plain(v):
    import numpy as np
    if isinstance(v, (np.integer,)):
        return int(v)
    if isinstance(v, (np.floating,)):
        return float(v)
    if isinstance(v, tuple):
        return tuple(_plain(e) for e in v)
    if isinstance(v, list):
        return [_plain(e) for e in v]
    return v


CALLS = []


_LAST = {}


def _step(state, instruction, shots):
    """mirror of Driver/Engine.lean `scriptedOracle`"""
    params = dict(instruction.params)
    CALLS.append(type(instruction).__name__)
    f = params.get("fault", 0)
    if isinstance(f, int) and not isinstance(f, bool) and f != 0:
        raise RuntimeError(f"fault{f}")
    d = state.d if state is not None else 0
    log = state.log if state is not None else []
    # a step applied after every mode has been measured receives `None` (Lean: `req.state.getD {d := 0, log := []}`)
    conn = state._connector if state is not None else _LAST["connector"]
    conf = state._config if state is not None else _LAST["config"]
    cls = CLASSES.index(type(instruction))
    modes = ",".join(str(int(m)) for m in instruction.modes) or "-"
    entry = f"{cls}[{modes}]{show_params(params)}@{shots if shots is not None else 'none'}"
    if "outs" not in params:
        st = FakeState(d, conn, conf, log + [entry])
        return [Branch(state=st)]
    outs = params["outs"]
    if not isinstance(outs, tuple):
        raise RuntimeError("fault997")
    d2 = d - len(instruction.modes)
    st2 = FakeState(d2, conn, conf, log + [entry]) if d2 > 0 else None
    oc = lambda o: tuple(o) if isinstance(o, tuple) else (o,)
    res = []
    if shots is not None:
        r = len(outs)
        if r == 0:
            raise RuntimeError("fault999")
        q, rem = divmod(shots, r)
        cnts = [q + (1 if j < rem else 0) for j in range(r)]
        ex = params.get("counts")
        if (isinstance(ex, tuple) and len(ex) == r and all(isinstance(c, int) and not isinstance(c, bool) and c >= 0 for c in ex)
                and sum(ex) == shots):
            cnts = list(ex)
        for o, cnt in zip(outs, cnts):
            if cnt:
                res.append(Branch(state=st2, outcome=oc(o), frequency=Fraction(cnt, shots)))
    else:
        ws = params.get("weights")
        if not isinstance(ws, tuple):
            raise RuntimeError("fault998")
        for o, w in zip(outs, ws):
            fr = Fraction(w[0], w[1])
            if fr != 0:
                res.append(Branch(state=st2, outcome=oc(o), frequency=fr))
    return res


class FakeSim(Simulator):
    _state_class = FakeState
    _default_connector_class = NumpyConnector
    _measurement_classes_allowed_mid_circuit = (FMeas0, FMeas2)
    _measurement_classes_allowed_with_shots_none = (FMeas0,)
    _instruction_map = {c: _step for c in CLASSES[:7]}

    def create_initial_state(self, d=None):
        return FakeState(d or self.d, self._connector, self.config)


# ------------------------------------------------------------------ program descriptions
# An instruction description is a dict: cls (int), modes (tuple), cond (str|None),
# params: list of (name, kind, value) with kind 'c' (plain value) or 'e' (expression string)

def build_instruction(desc, use_callables=False):
    kwargs = {}
    for name, kind, value in desc["params"]:
        if kind == "e" and use_callables:
            from piquasso.core._expressions import Expression
            expr = Expression(value)
            kwargs[name] = (lambda e: (lambda x: e(x)))(expr)
        else:
            kwargs[name] = value
    ins = CLASSES[desc["cls"]](**kwargs)
    if desc["modes"]:
        ins = ins.on_modes(*desc["modes"])
    if desc["cond"] is not None:
        ins = ins.when(desc["cond"])
    return ins


def ser_instr(desc):
    cond = "_" if desc["cond"] is None else ser(ast.parse(desc["cond"].strip(), mode="eval"))
    ps = []
    for name, kind, value in desc["params"]:
        if kind == "c":
            ps.append(f"( {name} c {ser_val(value)} )")
        else:
            ps.append(f"( {name} e {ser(ast.parse(value.strip(), mode='eval'))} )")
    modes = " ".join(str(m) for m in desc["modes"])
    return f"( {desc['cls']} {BASE[CLASSES[desc['cls']]]} ( {modes} ) {cond} ( {' '.join(ps)} ) )"


def ser_request(req):
    simd = "-" if req["simd"] is None else str(req["simd"])
    shots = req["shots_tag"]
    init = req["init_tag"]
    spec = "( " + " ".join(map(str, SUPPORTED)) + " ) ( " + " ".join(map(str, MID)) + " ) ( " + " ".join(map(str, SHOTS_NONE)) + " )"
    return f"engine {simd} {shots} {init} {spec} " + " ".join(ser_instr(d) for d in req["program"])


def canon_exc(e):
    if isinstance(e, RuntimeError) and str(e).startswith("fault"):
        return "StepFault" + str(e)[5:]
    for cls, name in ((pqe.InvalidModes, "InvalidModes"), (pqe.InvalidSimulation, "InvalidSimulation"),
                      (pqe.InvalidParameter, "InvalidParameter"), (pqe.InvalidState, "InvalidState"),
                      (pqe.InvalidProgram, "InvalidProgram"), (pqe.PiquassoException, "OtherPiquasso")):
        if isinstance(e, cls):
            return name
    return "NonPiquasso:" + type(e).__name__


def show_branch(b):
    st = "None" if b.state is None else f"d{b.state.d}:" + "+".join(b.state.log)
    oc = "( t" + "".join(" " + ser_val(_plain(v)) for v in b.outcome) + " )"
    fr = Fraction(b.frequency)
    return f"{oc} {fr.numerator}/{fr.denominator} {st}"


def snapshot(instructions, originals):
    """caller-visible heap: modes + per-parameter 'is it still the object the user passed'"""
    cells = []
    for ins, orig in zip(instructions, originals):
        modes = ",".join(str(int(m)) for m in ins.modes) or "-"
        slots = []
        for name, val in ins.params.items():
            o = orig["params"].get(name, None)
            same = (val is o) or (type(val) is type(o) and not callable(val) and val == o)
            slots.append(f"{name}=U" if same else f"{name}=R{ser_val(_plain(val))}")
        cells.append(f"[{modes}]{{{','.join(slots)}}}")
    return " ".join(cells)


def run_real(req, use_callables=False, program_obj=None):
    """Executes the request on the real engine; returns the canonical line + extras."""
    instrs = [build_instruction(d, use_callables) for d in req["program"]]
    originals = [{"modes": i.modes, "params": dict(i.params)} for i in instrs]
    program = Program(instructions=instrs)
    sim = FakeSim(d=req["simd"], config=Config(seed_sequence=123))
    _LAST["connector"], _LAST["config"] = sim._connector, sim.config
    init = None
    if req["init_tag"] == "wrong":
        init = OtherState(req["init_d"], sim._connector, sim.config)
        init.__class__ = type("Unrelated", (State,), dict(d=property(lambda s: 1), fock_probabilities=None,
                                                       validate=lambda s: None,
                                                       get_particle_detection_probability=lambda s, o: 0))
    elif req["init_tag"] != "absent":
        init = FakeState(int(req["init_tag"]), sim._connector, sim.config)
    del CALLS[:]
    try:
        result = sim.execute(program, shots=req["shots"], initial_state=init)
        head = "ok " + " ; ".join(show_branch(b) for b in result.branches)
        tail = ""
        if isinstance(req["shots"], int) and not isinstance(req["shots"], bool):
            ns = len(result.samples)
            try:
                cs = sum(result.get_counts().values())
            except NotImplementedError:
                cs = None
            tail = f" | samples {ns} counts {cs}"
        extra = {"result": result}
    except Exception as e:  # noqa
        head = "err " + canon_exc(e)
        tail = ""
        extra = {"exception": e}
    line = head + f" | heap {snapshot(program.instructions, originals)} | calls {len(CALLS)}" + tail
    extra["program"] = program
    extra["originals"] = originals
    return line, extra
