"""Shared machinery of every check: Lean build + axiom audit, line-protocol driver,
evidence, replays, known findings.  Runs under /venv/bin/python (the repo's deps)."""
import fcntl
import hashlib
import json
import os
import random
import re
import subprocess
import sys
import time

VERIF = os.path.dirname(os.path.dirname(os.path.dirname(os.path.abspath(__file__))))
LEAN = os.path.join(VERIF, "lean")
REPO = os.environ.get("PQ_REPO", "/repo")
ALLOWED_AXIOMS = {"propext", "Classical.choice", "Quot.sound"}
FORBIDDEN = re.compile(
    r"\bsorry\b|\badmit\b|^axiom\s|native_decide|bv_decide|implemented_by|\bunsafe\s|maxHeartbeats\s+0\b"
)
TRUSTED_BASE = [
    "Lean 4.33.0 kernel",
    "axioms propext, Classical.choice, Quot.sound only (audited with #print axioms on every run)",
    "Mathlib v4.33.0 definitions used in statements",
    "the Lean interpreter for driver runs (correspondence evidence only)",
    "the Python harness: generators, canonicalisation, tolerances",
]


class CheckError(Exception):
    """machinery failure (not a property violation): exit 2"""


def _strip_comments(src):
    # remove block comments (nested) and line comments; strings are rare in proofs
    out = []
    depth = 0
    i = 0
    n = len(src)
    while i < n:
        if src.startswith("/-", i):
            depth += 1
            i += 2
        elif depth and src.startswith("-/", i):
            depth -= 1
            i += 2
        elif depth:
            if src[i] == "\n":
                out.append("\n")
            i += 1
        elif src.startswith("--", i):
            while i < n and src[i] != "\n":
                i += 1
        else:
            out.append(src[i])
            i += 1
    return "".join(out)


class Ctx:
    def __init__(self, prop, tier, seed, replay=None):
        self.prop = prop
        self.tier = tier
        self.seed = seed
        self.rng = random.Random(seed * 1000003 + int(prop[1:]))
        self.t0 = time.time()
        self.violations = []  # (key, message, replay_path, found_input)
        self.known_hits = []
        self.obligations = []
        self.discharged = 0
        self.evaluations = 0
        self.nontrivial = set()
        self.samples = []
        self.notes = {}
        self.rule = ""
        self.level = "proof"
        self.assumptions = []
        self.replay = replay
        self.broken = []  # names of proof obligations / correspondences that no longer check
        self._findings = None

    # ---------------------------------------------------------------- lean
    def lake(self, *args, timeout=3600):
        lock = open(os.path.join(LEAN, ".build.lock"), "w")
        fcntl.flock(lock, fcntl.LOCK_EX)
        try:
            p = subprocess.run(
                ["lake", *args], cwd=LEAN, capture_output=True, text=True, timeout=timeout
            )
        finally:
            fcntl.flock(lock, fcntl.LOCK_UN)
            lock.close()
        return p

    def lean_build(self, *modules):
        """Build modules; returns (ok, log)."""
        p = self.lake("build", *modules)
        return p.returncode == 0, (p.stdout + p.stderr)

    def grep_forbidden(self, files):
        hits = []
        for f in files:
            path = os.path.join(LEAN, f)
            if not os.path.exists(path):
                hits.append((f, 0, "missing file"))
                continue
            src = _strip_comments(open(path).read())
            for ln, line in enumerate(src.split("\n"), 1):
                if FORBIDDEN.search(line):
                    hits.append((f, ln, line.strip()))
        return hits

    def audit(self, module, theorems):
        """#print axioms for each theorem of `module`; returns dict name -> axioms or None."""
        os.makedirs(os.path.join(LEAN, "PqVerif", "Audit"), exist_ok=True)
        path = os.path.join(LEAN, "PqVerif", "Audit", f"{self.prop}.lean")
        body = f"import {module}\n" + "".join(f"#print axioms {t}\n" for t in theorems)
        if not os.path.exists(path) or open(path).read() != body:
            open(path, "w").write(body)
        p = subprocess.run(
            ["lake", "env", "lean", path], cwd=LEAN, capture_output=True, text=True, timeout=1800
        )
        out = p.stdout + p.stderr
        res = {t: None for t in theorems}
        flat = re.sub(r"\s+", " ", out)
        for t in theorems:
            m = re.search(r"'" + re.escape(t) + r"' depends on axioms: \[([^\]]*)\]", flat)
            if m:
                res[t] = {a.strip() for a in m.group(1).split(",") if a.strip()}
            elif re.search(r"'" + re.escape(t) + r"' does not depend on any axioms", flat):
                res[t] = set()
        return res, out

    def prove(self, module, theorems, files):
        """The proof half of a check.  Builds `module`, audits `theorems`.
        Records obligations; returns list of broken obligation names."""
        self.obligations = list(theorems)
        ok, log = self.lean_build(module)
        broken = []
        if not ok:
            self.notes["lake_build_log"] = log[-4000:]
            # find which theorems are affected: all, conservatively
            broken = [f"build:{module}"]
            self.discharged = 0
            self.broken += broken
            return broken
        hits = self.grep_forbidden(files)
        if hits:
            self.notes["forbidden_tokens"] = hits[:20]
            broken.append("forbidden-token:" + hits[0][0])
        res, out = self.audit(module, theorems)
        n = 0
        for t, ax in res.items():
            if ax is None:
                broken.append(f"missing:{t}")
            elif not ax <= ALLOWED_AXIOMS:
                broken.append(f"axioms:{t}:{sorted(ax - ALLOWED_AXIOMS)}")
            else:
                n += 1
        self.discharged = n
        self.notes["axioms"] = {t: (sorted(a) if a is not None else None) for t, a in res.items()}
        self.broken += broken
        return broken

    def lean_run(self, lines, timeout=1800):
        """Pipe lines to the model driver; one output line per input line."""
        ok, log = self.lean_build("PqVerif.Driver.All")
        if not ok:
            raise CheckError("driver does not build:\n" + log[-3000:])
        inp = "\n".join(lines) + "\n"
        p = subprocess.run(
            ["lake", "env", "lean", "--run", "Main.lean"],
            cwd=LEAN, input=inp, capture_output=True, text=True, timeout=timeout,
        )
        if p.returncode != 0:
            raise CheckError("driver failed: " + p.stderr[-3000:])
        out = p.stdout.split("\n")
        if out and out[-1] == "":
            out.pop()
        if len(out) != len(lines):
            raise CheckError(f"driver returned {len(out)} lines for {len(lines)} inputs")
        return out

    # ---------------------------------------------------------------- bookkeeping
    def count(self, case_key=None, nontrivial=False, sample=None):
        self.evaluations += 1
        if nontrivial and case_key is not None:
            self.nontrivial.add(case_key if isinstance(case_key, str) else repr(case_key))
        if sample is not None and len(self.samples) < 8:
            self.samples.append(sample)

    def findings(self):
        if self._findings is None:
            path = os.path.join(VERIF, "known_findings.json")
            data = json.load(open(path)) if os.path.exists(path) else {"findings": []}
            self._findings = [f for f in data["findings"] if f["property"] == self.prop]
        return self._findings

    def fail(self, key, message, found_input=None):
        """Report a property failure.  `key` identifies the failing input / call site;
        a `known` entry with the same key in known_findings.json turns it into a
        KNOWN-FINDING line, anything else is a violation.  `fixed` entries suppress nothing."""
        for f in self.findings():
            if f.get("status") == "known" and f["key"] == key:
                if key not in [k for k, _ in self.known_hits]:
                    self.known_hits.append((key, f.get("what", message)))
                return "known"
        if key in [v[0] for v in self.violations]:
            return "dup"
        os.makedirs(os.path.join(VERIF, "replays"), exist_ok=True)
        h = hashlib.sha1(key.encode()).hexdigest()[:10]
        rp = os.path.join("replays", f"{self.prop}_{h}.json")
        body = {
            "property": self.prop, "key": key, "message": message,
            "seed": self.seed, "tier": self.tier,
            "failing_input": found_input,
            "broken_obligations": self.broken,
        }
        json.dump(body, open(os.path.join(VERIF, rp), "w"), indent=1, default=str)
        self.violations.append((key, message, rp, found_input))
        return "violation"

    def finish(self):
        """Writes evidence, prints lines, returns exit code."""
        # a broken proof obligation / correspondence with no failing input is still a violation
        if self.broken and not self.violations:
            key = "broken:" + ";".join(self.broken)
            self.fail(key, "proof obligation or correspondence no longer checks", None)
        wall = time.time() - self.t0
        cov = {
            "obligations": len(self.obligations),
            "discharged": self.discharged,
            "checker_cmd": f"cd lean && lake build PqVerif.Props.{self.prop} && lake env lean PqVerif/Audit/{self.prop}.lean",
            "trusted_base": TRUSTED_BASE,
            "evaluations": self.evaluations,
            "distinct_nontrivial": len(self.nontrivial),
            "rule": self.rule,
            "samples": self.samples or ["(none)"],
            "obligation_names": self.obligations,
            "known_findings_hit": [k for k, _ in self.known_hits],
        }
        cov.update(self.notes)
        ev = {
            "property_id": self.prop, "tier": self.tier, "seed": self.seed,
            "level": self.level, "coverage": cov, "assumptions": self.assumptions,
            "wall_s": round(wall, 2), "violations": len(self.violations),
        }
        os.makedirs(os.path.join(VERIF, "evidence"), exist_ok=True)
        json.dump(ev, open(os.path.join(VERIF, "evidence", f"{self.prop}.json"), "w"),
                  indent=1, default=str)
        for key, what in self.known_hits:
            print(f"KNOWN-FINDING: property={self.prop} {what} [{key}]")
        for key, msg, rp, found in self.violations:
            tail = "" if found is not None else " no-failing-input-found"
            print(f"VIOLATION property={self.prop} replay={rp}{tail}")
            print(f"  {msg}", file=sys.stderr)
        print(f"{self.prop} {self.tier}: obligations {self.discharged}/{len(self.obligations)}, "
              f"evaluations {self.evaluations}, nontrivial {len(self.nontrivial)}, "
              f"violations {len(self.violations)}, known {len(self.known_hits)}, {wall:.1f}s")
        return 1 if self.violations else 0


def fmt_list(v):
    v = list(v)
    return ",".join(str(int(x)) for x in v) if v else "-"


def fmt_rows(rows):
    rows = [list(r) for r in rows]
    return ";".join(fmt_list(r) for r in rows) if rows else "empty"
