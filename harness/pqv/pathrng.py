"""Exact law of a sampler by enumerating every random-choice path.

`PathRng` stands in for a numpy Generator: `choice(a, p)` is an n-ary branch point; `random()` /
`uniform()` return a lazy uniform number that only becomes a (binary) branch point when it is compared
with a threshold, keeping track of the interval it is known to lie in, so repeated comparisons of the same
draw stay consistent.  `exact_law(run)` replays prefixes depth-first and returns {outcome: probability}."""
import numpy as np


class Abort(Exception):
    pass


class LazyUniform:
    def __init__(self, rng):
        self.rng = rng
        self.lo, self.hi = 0.0, 1.0

    def _decide_lt(self, p):
        """is U < p ? branching with the exact conditional probability"""
        p = float(p)
        if p <= self.lo:
            return False
        if p >= self.hi:
            return True
        q = (p - self.lo) / (self.hi - self.lo)
        k = self.rng._branch(2, [q, 1 - q])
        if k == 0:
            self.hi = p
            return True
        self.lo = p
        return False

    def __lt__(self, p): return self._decide_lt(p)
    def __le__(self, p): return self._decide_lt(p)
    def __gt__(self, p): return not self._decide_lt(p)
    def __ge__(self, p): return not self._decide_lt(p)
    __array_priority__ = 10000


class PathRng:
    def __init__(self, prefix, max_depth=64):
        self.prefix = list(prefix)
        self.pos = 0
        self.trace = []   # (probs, chosen)
        self.max_depth = max_depth

    def _branch(self, n, probs):
        probs = [float(x) for x in probs]
        if self.pos < len(self.prefix):
            k = self.prefix[self.pos]
        else:
            k = next((i for i, x in enumerate(probs) if x > 0), 0)
        self.pos += 1
        self.trace.append((probs, k))
        if len(self.trace) > self.max_depth:
            raise Abort()
        return k

    def choice(self, a, p=None, size=None):
        n = int(a) if isinstance(a, (int, np.integer)) else len(a)
        probs = np.full(n, 1.0 / n) if p is None else np.asarray(p, dtype=float)
        if size is not None:
            # `size` independent draws, each its own branch point
            ks = [self._branch(n, probs) for _ in range(int(np.prod(size)))]
            vals = np.array(ks if isinstance(a, (int, np.integer)) else [a[k] for k in ks])
            return vals.reshape(size) if not isinstance(size, (int, np.integer)) else vals
        k = self._branch(n, probs)
        return k if isinstance(a, (int, np.integer)) else a[k]

    def random(self):
        return LazyUniform(self)

    def uniform(self, low=0.0, high=1.0):
        assert low == 0.0 and high == 1.0
        return LazyUniform(self)


def exact_law(run, max_paths=200000):
    """run(rng) -> hashable outcome (or raises); returns (law, total probability explored)"""
    law = {}
    stack = [[]]
    paths = 0
    while stack:
        prefix = stack.pop()
        r = PathRng(prefix)
        try:
            out = run(r)
        except Abort:
            out = ("__aborted__",)
        paths += 1
        if paths > max_paths:
            raise RuntimeError("too many paths")
        for pos in range(len(prefix), len(r.trace)):
            probs, k = r.trace[pos]
            for alt in range(len(probs)):
                if alt != k and probs[alt] > 0:
                    stack.append([t[1] for t in r.trace[:pos]] + [alt])
        w = 1.0
        for probs, k in r.trace:
            w *= probs[k]
        if w > 0:
            law[out] = law.get(out, 0.0) + w
    return law
