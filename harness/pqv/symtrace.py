"""Symbolic tracing of the real gate-matrix methods.

`trace_blocks(cls, param_names)` runs the REAL `_get_passive_block` / `_get_active_block` of a gate
class on symbolic parameters through a small numpy shim and returns nested lists of expression trees.
`to_lean` prints a tree as a Lean term of type ℂ (real sub-terms as casts of real terms), `evaluate`
evaluates it with cmath so the translator can check itself against the real numpy result."""
import cmath
import math
from fractions import Fraction


class S:
    """expression tree node"""
    __array_priority__ = 1000

    def __init__(self, op, *a):
        self.op = op
        self.a = a

    def __repr__(self):
        return self.op if not self.a else f"{self.op}({', '.join(map(repr, self.a))})"

    def _b(self, op, o, rev=False):
        o = lift(o)
        return S(op, o, self) if rev else S(op, self, o)

    def __add__(self, o): return self._b("add", o)
    def __radd__(self, o): return self._b("add", o, True)
    def __sub__(self, o): return self._b("sub", o)
    def __rsub__(self, o): return self._b("sub", o, True)
    def __mul__(self, o):
        if isinstance(o, Arr):
            return o.__rmul__(self)
        return self._b("mul", o)
    def __rmul__(self, o): return self._b("mul", o, True)
    def __truediv__(self, o): return self._b("div", o)
    def __rtruediv__(self, o): return self._b("div", o, True)
    def __neg__(self): return S("neg", self)
    def __pos__(self): return self


def lift(x):
    if isinstance(x, S):
        return x
    if isinstance(x, bool):
        x = int(x)
    if isinstance(x, (int, float, complex)):
        return S("const", x)
    try:
        import numpy as np
        if isinstance(x, np.generic):
            return S("const", x.item())
    except Exception:
        pass
    raise TypeError(f"cannot lift {x!r}")


def mapn(d, f):
    return [mapn(x, f) for x in d] if isinstance(d, list) else f(d)


class Arr:
    __array_priority__ = 2000

    def __init__(self, data):
        self.data = data

    def __truediv__(self, o): return Arr(mapn(self.data, lambda e: lift(e) / o))
    def __rmul__(self, o): return Arr(mapn(self.data, lambda e: lift(o) * lift(e)))
    def __mul__(self, o): return Arr(mapn(self.data, lambda e: lift(e) * lift(o)))
    def __neg__(self): return Arr(mapn(self.data, lambda e: -lift(e)))
    def __iter__(self):
        return iter(self.data if not isinstance(self.data[0], list) else [Arr(r) for r in self.data])
    def __len__(self): return len(self.data)
    def __repr__(self): return repr(self.data)
    def astype(self, _): return self


class NP:
    pi = math.pi

    def __getattr__(self, name):
        if name in ("cos", "sin", "cosh", "sinh", "exp", "conj", "sqrt", "tanh", "conjugate"):
            nm = "conj" if name == "conjugate" else name
            def f(x):
                if isinstance(x, Arr):
                    return Arr(mapn(x.data, lambda e: S(nm, lift(e))))
                return S(nm, lift(x))
            return f
        raise AttributeError(name)

    def array(self, data, dtype=None):
        def norm(r):
            if isinstance(r, Arr):
                return norm(r.data)
            if isinstance(r, (list, tuple)):
                return [norm(x) for x in r]
            return lift(r)
        return Arr(norm(data))


class Conn:
    np = NP()
    fallback_np = np
    forward_pass_np = np

    def is_abstract(self, x):
        return False


class Cfg:
    complex_dtype = complex
    dtype = float
    hbar = S("param", "hbar")


def sym(name):
    return S("param", name)


def trace_blocks(instance):
    out = {}
    out["P"] = instance._get_passive_block(Conn(), Cfg())
    if hasattr(instance, "_get_active_block"):
        a = instance._get_active_block(Conn(), Cfg())
        if a is not None:
            out["A"] = a
    return {k: (v.data if isinstance(v, Arr) else v) for k, v in out.items()}


# ------------------------------------------------------------------ evaluation (self-check)
def evaluate(e, env):
    op = e.op
    if op == "const":
        return complex(e.a[0])
    if op == "param":
        return complex(env[e.a[0]])
    v = [evaluate(x, env) for x in e.a]
    if op == "add": return v[0] + v[1]
    if op == "sub": return v[0] - v[1]
    if op == "mul": return v[0] * v[1]
    if op == "div": return v[0] / v[1]
    if op == "neg": return -v[0]
    if op == "conj": return v[0].conjugate()
    return getattr(cmath, op)(v[0])


# ------------------------------------------------------------------ Lean printing
def is_real(e):
    if e.op == "const":
        return not isinstance(e.a[0], complex) or e.a[0].imag == 0
    if e.op == "param":
        return True
    if e.op == "conj":
        return is_real(e.a[0])
    return all(is_real(x) for x in e.a)


def const_lean_real(c):
    """exact rational, or k*pi/n when the float is exactly that"""
    c = float(c.real) if isinstance(c, complex) else c
    if isinstance(c, int) or float(c).is_integer():
        n = int(c)
        return f"({n} : ℝ)" if n >= 0 else f"(-{-n} : ℝ)"
    for n in range(1, 9):
        for k in range(-16, 17):
            if k and k * math.pi / n == c:
                return f"(({k} : ℝ) * Real.pi / {n})" if k > 0 else f"(-({-k} : ℝ) * Real.pi / {n})"
    q = Fraction(c)
    s = f"(({abs(q.numerator)} : ℝ) / {q.denominator})"
    return s if q >= 0 else f"(-{s})"


REALFN = {"cos": "Real.cos", "sin": "Real.sin", "cosh": "Real.cosh", "sinh": "Real.sinh", "exp": "Real.exp",
          "sqrt": "Real.sqrt", "tanh": "Real.tanh"}
CFN = {"cos": "Complex.cos", "sin": "Complex.sin", "cosh": "Complex.cosh", "sinh": "Complex.sinh",
       "exp": "Complex.exp", "tanh": "Complex.tanh"}


def real_lean(e):
    op = e.op
    if op == "const":
        return const_lean_real(e.a[0])
    if op == "param":
        return e.a[0]
    if op == "conj":
        return real_lean(e.a[0])
    if op == "neg":
        return f"(-{real_lean(e.a[0])})"
    if op in ("add", "sub", "mul", "div"):
        sym_ = {"add": "+", "sub": "-", "mul": "*", "div": "/"}[op]
        return f"({real_lean(e.a[0])} {sym_} {real_lean(e.a[1])})"
    return f"({REALFN[op]} {real_lean(e.a[0])})"


def to_lean(e):
    """Lean term of type ℂ"""
    if is_real(e):
        return f"(({real_lean(e)} : ℝ) : ℂ)"
    op = e.op
    if op == "const":
        c = e.a[0]
        if c.real == 0:
            if c.imag == 1:
                return "Complex.I"
            return f"(({const_lean_real(c.imag)} : ℝ) * Complex.I)"
        return f"((({const_lean_real(c.real)} : ℝ) : ℂ) + (({const_lean_real(c.imag)} : ℝ) : ℂ) * Complex.I)"
    if op == "neg":
        return f"(-{to_lean(e.a[0])})"
    if op == "conj":
        return f"((starRingEnd ℂ) {to_lean(e.a[0])})"
    if op in ("add", "sub", "mul", "div"):
        sym_ = {"add": "+", "sub": "-", "mul": "*", "div": "/"}[op]
        return f"({to_lean(e.a[0])} {sym_} {to_lean(e.a[1])})"
    if op == "sqrt":
        raise ValueError("complex sqrt not supported by the translator")
    return f"({CFN[op]} {to_lean(e.a[0])})"


def matrix_lean(rows):
    return "!![" + ";\n      ".join(", ".join(to_lean(lift(x)) for x in r) for r in rows) + "]"
