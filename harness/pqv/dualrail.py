"""Independent qubit-circuit oracle and generators for C19 (dual-rail encoding).

A circuit is a list of ops:
  ("g", name, params, qubits)            gate
  ("m", qubit, clbit)                    measurement
  ("if", clbit, value, body, else_body)  classically conditioned block (bodies: lists of "g" ops)
`exact_records(n, ops)` returns {record: probability} where record is the tuple of measured bits in
measurement order, together with the final (unnormalised) state of each record."""
import cmath
import math
import numpy as np

I2 = np.eye(2, dtype=complex)


def gate_matrix(name, params=()):
    c = lambda t: math.cos(t / 2)
    s = lambda t: math.sin(t / 2)
    if name == "h":
        return np.array([[1, 1], [1, -1]], dtype=complex) / math.sqrt(2)
    if name == "x":
        return np.array([[0, 1], [1, 0]], dtype=complex)
    if name == "y":
        return np.array([[0, -1j], [1j, 0]], dtype=complex)
    if name == "z":
        return np.array([[1, 0], [0, -1]], dtype=complex)
    if name == "rx":
        t, = params
        return np.array([[c(t), -1j * s(t)], [-1j * s(t), c(t)]], dtype=complex)
    if name == "ry":
        t, = params
        return np.array([[c(t), -s(t)], [s(t), c(t)]], dtype=complex)
    if name == "rz":
        t, = params
        return np.array([[cmath.exp(-1j * t / 2), 0], [0, cmath.exp(1j * t / 2)]], dtype=complex)
    if name == "u":
        t, p, l = params
        return np.array([[c(t), -cmath.exp(1j * l) * s(t)], [cmath.exp(1j * p) * s(t), cmath.exp(1j * (p + l)) * c(t)]], dtype=complex)
    if name == "p":
        l, = params
        return np.array([[1, 0], [0, cmath.exp(1j * l)]], dtype=complex)
    raise KeyError(name)


def apply_gate(psi, n, name, params, qubits):
    """psi indexed by bit string b_0 b_1 ... b_{n-1} as a tensor of shape (2,)*n (axis q = qubit q)"""
    psi = psi.reshape((2,) * n)
    if name in ("cz", "cx"):
        a, b = qubits
        out = psi.copy()
        idx = [slice(None)] * n
        idx[a] = 1
        if name == "cz":
            idx[b] = 1
            out[tuple(idx)] = -psi[tuple(idx)]
        else:
            i0, i1 = list(idx), list(idx)
            i0[b], i1[b] = 0, 1
            out[tuple(i0)], out[tuple(i1)] = psi[tuple(i1)], psi[tuple(i0)]
        return out.reshape(-1)
    M = gate_matrix(name, params)
    q, = qubits
    out = np.moveaxis(np.tensordot(M, psi, axes=([1], [q])), 0, q)
    return out.reshape(-1)


def exact_records(n, ops):
    """branches: list of (record, clbits dict, state); returns {record: (prob, state)}"""
    branches = [((), {}, np.eye(1, 2 ** n, 0, dtype=complex).reshape(-1))]
    for op in ops:
        new = []
        for rec, cl, psi in branches:
            if op[0] == "g":
                new.append((rec, cl, apply_gate(psi, n, op[1], op[2], op[3])))
            elif op[0] == "m":
                q, c = op[1], op[2]
                t = psi.reshape((2,) * n)
                for v in (0, 1):
                    idx = [slice(None)] * n
                    idx[q] = v
                    proj = np.zeros_like(t)
                    proj[tuple(idx)] = t[tuple(idx)]
                    if np.linalg.norm(proj) > 1e-12:
                        new.append((rec + (v,), {**cl, c: v}, proj.reshape(-1)))
            else:
                _, c, val, body, else_body = op
                chosen = body if cl.get(c, 0) == val else else_body
                for g in chosen:
                    psi = apply_gate(psi, n, g[1], g[2], g[3])
                new.append((rec, cl, psi))
        branches = new
    out = {}
    for rec, cl, psi in branches:
        p = float(np.vdot(psi, psi).real)
        out[rec] = (out.get(rec, (0.0, None))[0] + p, psi)
    return out


def to_qiskit(n, ops, nclbits=None):
    from qiskit import QuantumCircuit
    qc = QuantumCircuit(n, nclbits if nclbits is not None else n)

    def add(g):
        _, name, params, qubits = g
        getattr(qc, name)(*params, *qubits)
    for op in ops:
        if op[0] == "g":
            add(op)
        elif op[0] == "m":
            qc.measure(op[1], op[2])
        else:
            _, c, val, body, else_body = op
            if else_body:
                with qc.if_test((qc.clbits[c], val)) as else_:
                    for g in body:
                        add(g)
                with else_:
                    for g in else_body:
                        add(g)
            else:
                with qc.if_test((qc.clbits[c], val)):
                    for g in body:
                        add(g)
    return qc


def count_two_qubit(ops):
    k = 0
    for op in ops:
        if op[0] == "g" and op[1] in ("cz", "cx"):
            k += 1
    return k


ONE = ["h", "x", "y", "z", "rx", "ry", "rz", "u", "p"]
NPAR = {"h": 0, "x": 0, "y": 0, "z": 0, "rx": 1, "ry": 1, "rz": 1, "u": 3, "p": 1}


def random_gate(rng, n, alive, allow_two=True):
    if allow_two and len(alive) >= 2 and rng.random() < 0.3:
        a, b = (int(x) for x in rng.choice(alive, size=2, replace=False))
        return ("g", "cz" if rng.random() < 0.5 else "cx", (), (a, b))
    name = ONE[int(rng.integers(0, len(ONE)))]
    special = [0.0, math.pi, math.pi / 2, -math.pi / 2, 2 * math.pi]
    params = tuple(float(rng.uniform(-4, 4)) if rng.random() < 0.8 else special[int(rng.integers(0, len(special)))] for _ in range(NPAR[name]))
    return ("g", name, params, (int(rng.choice(alive)),))


def random_circuit(rng, n, max_gates=8, with_conditionals=True, shuffle_clbits=True):
    """measured qubits are not touched again (the photonic program removes measured modes)"""
    alive = list(range(n))
    clperm = [int(x) for x in rng.permutation(n)] if shuffle_clbits and rng.random() < 0.5 else list(range(n))
    written = []
    ops = []
    ngates = 0
    budget = int(rng.integers(1, max_gates + 1))
    while ngates < budget and alive:
        r = rng.random()
        if r < 0.15 and len(alive) > 1 and with_conditionals:
            q = int(rng.choice(alive))
            alive.remove(q)
            ops.append(("m", q, clperm[q]))
            written.append(clperm[q])
        elif r < 0.35 and with_conditionals and (written or rng.random() < 0.1):
            c = int(rng.choice(written)) if written else int(rng.integers(0, n))
            body = [random_gate(rng, n, alive, allow_two=False) for _ in range(int(rng.integers(1, 3)))]
            else_body = [random_gate(rng, n, alive, allow_two=False)] if rng.random() < 0.3 else []
            ops.append(("if", c, int(rng.integers(0, 2)), body, else_body))
            ngates += len(body) + len(else_body)
        else:
            ops.append(random_gate(rng, n, alive))
            ngates += 1
    if rng.random() < 0.7:
        order = [int(x) for x in rng.permutation(alive)]
        for q in order:
            ops.append(("m", q, clperm[q]))
    return ops
