// Standalone driver for the native kernels of /repo/src (pybind11 is not available in this sandbox,
// so the extension modules cannot be rebuilt; this harness #includes the kernel sources directly).
// std::thread::hardware_concurrency() is redirected to the VERIF_HC environment variable for the
// permanent kernels so that every job partition can be forced.
#include <thread>
#include <vector>
#include <complex>
#include <cstdio>
#include <cstdlib>
#include <string>
#include <cmath>
#include <cstdint>
#include <numeric>
#include <memory>
#include <iostream>
#include <sstream>
namespace std { struct verif_thread { static unsigned hardware_concurrency() { const char* e = getenv("VERIF_HC"); return e ? (unsigned)atoi(e) : 1u; } }; }
#include "matrix.hpp"
#include "utils.hpp"
#include "n_aryGrayCodeCounter.hpp"
#define thread verif_thread
#include "permanent.cpp"
#include "permanent_laplace.cpp"
#undef thread
#include "torontonian_common.cpp"
#include "torontonian.cpp"
#include "loop_torontonian.cpp"
#include "pfaffian.cpp"

template <typename T>
static void run_perm(std::istringstream& in, bool laplace) {
  int n, m; in >> n >> m;
  Matrix<std::complex<T>> A(n, m);
  for (int i = 0; i < n; i++) for (int j = 0; j < m; j++) { double re, im; in >> re >> im; A(i, j) = std::complex<T>((T)re, (T)im); }
  Vector<int> rows(n), cols(m);
  for (int i = 0; i < n; i++) in >> rows[i];
  for (int j = 0; j < m; j++) in >> cols[j];
  try {
    if (!laplace) {
      auto p = permanent_cpp<T>(A, rows, cols);
      printf("%.17g %.17g\n", (double)p.real(), (double)p.imag());
    } else {
      auto v = permanent_laplace_cpp<T>(A, rows, cols);
      for (size_t i = 0; i < v.size(); i++) printf("%.17g %.17g ", (double)v[i].real(), (double)v[i].imag());
      printf("\n");
    }
  } catch (std::string& e) { printf("error %s\n", e.c_str()); }
}

// gperm n m <A entries re im ...> <rows> <cols>: grad_perm(A, rows, cols), printed as "r c  re im ..."
static void run_gperm(std::istringstream& in) {
  int n, m; in >> n >> m;
  Matrix<std::complex<double>> A(n, m);
  for (int i = 0; i < n; i++) for (int j = 0; j < m; j++) { double re, im; in >> re >> im; A(i, j) = std::complex<double>(re, im); }
  Vector<int> rows(n), cols(m);
  for (int i = 0; i < n; i++) in >> rows[i];
  for (int j = 0; j < m; j++) in >> cols[j];
  try {
    auto g = grad_perm(A, rows, cols);
    printf("%zu %zu", (size_t)g.rows, (size_t)g.cols);
    for (size_t i = 0; i < g.rows; i++) for (size_t j = 0; j < g.cols; j++) printf(" %.17g %.17g", g(i, j).real(), g(i, j).imag());
    printf("\n");
  } catch (std::string& e) { printf("error %s\n", e.c_str()); }
}

int main() {
  std::string line;
  while (std::getline(std::cin, line)) {
    std::istringstream in(line);
    std::string op; in >> op;
    if (op == "perm64") run_perm<double>(in, false);
    else if (op == "perm32") run_perm<float>(in, false);
    else if (op == "gperm") run_gperm(in);
    else if (op == "lap64") run_perm<double>(in, true);
    else if (op == "lap32") run_perm<float>(in, true);
    else if (op == "gray") {
      // gray <k> limits... lo hi : codes via initialize(lo) then next() up to hi
      int k; in >> k; std::vector<int> lim(k); for (auto& x : lim) in >> x;
      long lo, hi; in >> lo >> hi;
      n_aryGrayCodeCounter c(lim.data(), (size_t)k, (int64_t)lo);
      c.set_offset_max(hi);
      int* g = c.get();
      for (int i = 0; i < k; i++) printf(i ? ",%d" : "%d", g[i]);
      for (long o = lo + 1; o <= hi; o++) {
        int ci = 0, pv = 0, v = 0;
        if (c.next(ci, pv, v)) break;
        printf(" %d:%d:%d:", ci, pv, v);
        for (int i = 0; i < k; i++) printf(i ? ",%d" : "%d", g[i]);
      }
      printf("\n");
    } else if (op == "binom") { int n, k; in >> n >> k; printf("%d\n", binomialCoeff<int>(n, k)); }
    else if (op == "tor" || op == "ltor") {
      int n; in >> n; Matrix<double> A(n, n);
      for (int i = 0; i < n; i++) for (int j = 0; j < n; j++) in >> A(i, j);
      if (op == "tor") printf("%.17g\n", torontonian_cpp<double>(A));
      else { Vector<double> g(n); for (int i = 0; i < n; i++) in >> g[i]; printf("%.17g\n", loop_torontonian_cpp<double>(A, g)); }
    } else if (op == "pf") {
      int n; in >> n; Matrix<double> A(n, n);
      for (int i = 0; i < n; i++) for (int j = 0; j < n; j++) in >> A(i, j);
      printf("%.17g\n", pfaffian_cpp<double>(A));
    } else printf("bad-op\n");
    fflush(stdout);
  }
  return 0;
}
