"""C13: an Interferometer whose matrix does not fit the number of its modes is a wrong number of modes for the gate: a Piquasso
exception before any evolution, on every simulator (before the fix: numpy ValueError after the earlier instructions ran)."""
import sys, warnings
import numpy as np
import piquasso as pq
from piquasso.api.exceptions import PiquassoException

bad = []
for name, cls in (("gaussian", pq.GaussianSimulator), ("purefock", pq.PureFockSimulator), ("fock", pq.FockSimulator), ("passive", pq.PassiveSimulator)):
    for size, modes in ((3, (0, 1)), (2, (0, 1, 2)), (1, (2, 0))):
        calls = []
        orig = dict(cls._instruction_map)
        cls._instruction_map = {k: (lambda f: (lambda *a, **k2: (calls.append(1), f(*a, **k2))[1]))(v) for k, v in orig.items()}
        try:
            with warnings.catch_warnings():
                warnings.simplefilter("ignore")
                prep = pq.Vacuum() if name != "passive" else pq.StateVector([1, 0, 0])
                cls(d=3).execute(pq.Program(instructions=[prep, pq.Interferometer(np.eye(size)).on_modes(*modes)]))
            bad.append((name, size, modes, "returned"))
        except PiquassoException:
            if calls:
                bad.append((name, size, modes, f"rejected after {len(calls)} steps"))
        except Exception as e:
            bad.append((name, size, modes, type(e).__name__))
        finally:
            cls._instruction_map = orig
print("BAD", bad[:6]) if bad else print("OK")
sys.exit(1 if bad else 0)
