"""C10 regression (fixed by 4bde278): grad_perm (src/permanent.cpp, compiled from the working tree through the native
harness; the pre-built JAX extension module cannot be rebuilt here) must return the gradient of a non-square
permanent with the shape of the matrix.  exit 0 = property holds."""
import os, sys
VERIF = os.path.dirname(os.path.dirname(os.path.dirname(os.path.abspath(__file__))))
sys.path.insert(0, os.path.join(VERIF, "harness"))
import numpy as np
from pqv.props.c11 import build_native, native_run
from pqv.props.c10 import perm_rule

b, err = build_native(sanitize=False)
if b is None:
    print("cannot build native harness", err); sys.exit(2)
A = np.array([[1 + 1j, 2, 3 - 1j], [0.5j, -1, 2]])
rows, cols = [2, 1], [1, 1, 1]
line = "gperm 2 3 " + " ".join(f"{float(z.real)!r} {float(z.imag)!r}" for z in A.reshape(-1)) + " 2 1 1 1 1"
out, _ = native_run(b, [line])
t = out[0].split()
ok = len(t) >= 2 and t[0] == "2" and t[1] == "3"
if ok:
    G = np.array([complex(float(t[2 + 2 * k]), float(t[3 + 2 * k])) for k in range(6)]).reshape(2, 3)
    ok = np.abs(G - perm_rule(A, np.array(rows), np.array(cols))).max() < 1e-9
if not ok:
    print("FAIL grad_perm of a 2 x 3 matrix with rows (2,1), cols (1,1,1):", out[0][:200])
sys.exit(0 if ok else 1)
