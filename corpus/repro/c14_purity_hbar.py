"""C14/C08: purity does not depend on hbar and is 1 for pure states."""
import warnings; warnings.filterwarnings("ignore")
import piquasso as pq
ok = True
for hbar in (0.5, 1.0, 2.0, 3.7):
    with pq.Program() as p:
        pq.Q(0) | pq.Squeezing(r=0.4, phi=0.3)
        pq.Q(0, 1) | pq.Beamsplitter(theta=0.7, phi=0.2)
        pq.Q(1) | pq.Displacement(r=0.5, phi=1.0)
    st = pq.GaussianSimulator(d=2, config=pq.Config(hbar=hbar)).execute(p).state
    pu = float(st.get_purity())
    if abs(pu - 1.0) > 1e-9 or not st.is_pure():
        ok = False; print("FAIL hbar", hbar, "purity", pu, "is_pure", st.is_pure())
print("PASS" if ok else "FAILED")
raise SystemExit(0 if ok else 1)
