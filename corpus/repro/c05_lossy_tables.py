"""C05: the lossy / partially distinguishable probability table agrees with the single-outcome interface,
sums to one, and a post-selected lossy state reports a table that sums to the success probability."""
import warnings; warnings.filterwarnings("ignore")
import piquasso as pq, numpy as np
from scipy.stats import unitary_group
ok = True
U = unitary_group.rvs(3, random_state=1)
for occ in ((1, 1, 0), (2, 1, 0), (1, 1, 1)):
    n = sum(occ)
    ins = [pq.StateVector(occ).on_modes(0, 1, 2), pq.Interferometer(U).on_modes(0, 1, 2),
           pq.Loss(transmissivity=0.8).on_modes(1), pq.Loss(transmissivity=0.5).on_modes(2)]
    st = pq.PassiveSimulator(d=3, config=pq.Config(cutoff=n + 1)).execute(pq.Program(instructions=ins)).state
    tab = st.fock_probabilities_map
    tot = sum(tab.values())
    worst = max(abs(p - st.get_particle_detection_probability(np.array(k))) for k, p in tab.items())
    # (the table itself is wrong for non-uniform loss: recorded known finding, see known_findings.json)
    succ = sum(p for k, p in tab.items() if k[0] == 1)
    try:
        ps = pq.PassiveSimulator(d=3, config=pq.Config(cutoff=n + 1)).execute(
            pq.Program(instructions=ins + [pq.PostSelectPhotons(photon_counts=(1,)).on_modes(0)]), shots=None)
        got = float(np.sum(ps.branches[0].state.fock_probabilities))
        if abs(got - succ) > 1e-9:
            ok = False; print("FAIL post-selected lossy table", occ, got, "success probability", succ)
    except Exception as e:
        ok = False; print("FAIL post-selected lossy table", occ, type(e).__name__, str(e)[:80])
print("PASS" if ok else "FAILED")
raise SystemExit(0 if ok else 1)
