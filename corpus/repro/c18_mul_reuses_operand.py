"""C18: a linear combination denotes the same superposition whether or not an operand object is reused:
2*s + 3*s = 5*s.  Before d4c1046 `*` scaled the operand in place (coefficient 12)."""
import sys
from fractions import Fraction
import piquasso as pq

bad = []
s = pq.NumberState([1]); t = 2 * s + 3 * s
if t.params["coefficient"] != 5 or s.params["coefficient"] != 1:
    bad.append(("2*s + 3*s", t.params, s.params))
a = pq.NumberState([0, 1]); b = pq.NumberState([1, 0])
u = (a + b) / 2 + a * Fraction(1, 2) - 0 * b if hasattr(a, "__sub__") else (a + b) / 2 + a * Fraction(1, 2)
amp = dict(u.params.get("fock_amplitude_map", {})) if "fock_amplitude_map" in u.params else None
if a.params["coefficient"] != 1 or b.params["coefficient"] != 1:
    bad.append(("operands changed", a.params, b.params))
print("BAD", bad) if bad else print("OK")
sys.exit(1 if bad else 0)
