"""C15 regression: Takagi of a matrix whose unitary factor Z = V^T W has a cluster of (numerically) equal
eigenvalues at phase 0 — e.g. a multiple of the identity plus complex symmetric rounding noise, or O O^T for a
real orthogonal O — must still reconstruct the input.  exit 0 = property holds on these inputs."""
import sys, warnings
warnings.simplefilter("ignore")
import numpy as np
import piquasso as pq
from piquasso._math.decompositions import takagi, euler

conn = pq.NumpyConnector()
rng = np.random.default_rng(7)
bad = []
for trial in range(60):
    d = int(rng.integers(2, 6))
    A = 2.0 * np.eye(d) + 1e-13 * (rng.normal(size=(d, d)) + 1j * rng.normal(size=(d, d)))
    A = (A + A.T) / 2
    sv, T = takagi(A.copy(), conn)
    e = float(np.abs(T @ np.diag(sv) @ T.T - A).max())
    if e > 1e-8:
        bad.append(("2*I + 1e-13 noise", d, e)); break
for trial in range(60):
    d = int(rng.integers(2, 6))
    O = np.linalg.qr(rng.normal(size=(d, d)))[0]
    A = (O @ O.T).astype(complex)          # the identity up to rounding
    A = A + 1e-16j * rng.normal(size=(d, d)); A = (A + A.T) / 2
    sv, T = takagi(A.copy(), conn)
    e = float(np.abs(T @ np.diag(sv) @ T.T - A).max())
    if e > 1e-8:
        bad.append(("O O^T", d, e)); break
# a cluster at phase pi must keep working too (the previous convention handled this one)
for trial in range(60):
    d = int(rng.integers(2, 6))
    A = -2.0 * np.eye(d) + 1e-13 * (rng.normal(size=(d, d)) + 1j * rng.normal(size=(d, d)))
    A = (A + A.T) / 2
    sv, T = takagi(A.copy(), conn)
    e = float(np.abs(T @ np.diag(sv) @ T.T - A).max())
    if e > 1e-8:
        bad.append(("-2*I + 1e-13 noise", d, e)); break
# Euler decomposition with equal squeezings on permuted modes
cf = lambda U: np.block([[U, np.zeros_like(U)], [np.zeros_like(U), U.conj()]])
sq = lambda r: np.block([[np.diag(np.cosh(r)), -np.diag(np.sinh(r))], [-np.diag(np.sinh(r)), np.diag(np.cosh(r))]])
for trial in range(60):
    d = 4
    P1, P2 = np.eye(d)[rng.permutation(d)].astype(complex), np.eye(d)[rng.permutation(d)].astype(complex)
    r = np.array([0.03, 0.03, 0.03, 0.9]) + 0.0
    S = cf(P1) @ sq(r) @ cf(P2)
    Ul, D, Uf = euler(S.copy(), conn)
    e = float(np.abs(cf(Ul) @ sq(np.real(D)) @ cf(Uf) - S).max())
    if e > 1e-8:
        bad.append(("euler, equal squeezings", d, e)); break
for b in bad:
    print("FAIL", b)
sys.exit(1 if bad else 0)
