"""C19 regression (fixed by 88b0c9e): a translated if_test block must read the outcome of the measurement
that wrote its classical bit, act on its own qubits, and keep its else-branch.
exit 0 = property holds on these inputs."""
import sys, warnings
warnings.simplefilter("ignore")
import piquasso as pq
from qiskit import QuantumCircuit
from piquasso.dual_rail_encoding import dual_rail_encode_from_qiskit


def outcomes(qc, d):
    res = pq.PureFockSimulator(d=d, config=pq.Config(cutoff=d // 2 + 2)).execute(dual_rail_encode_from_qiskit(qc), shots=None)
    return {tuple(int(x) for x in b.outcome): float(b.frequency) for b in res.branches if float(b.frequency) > 1e-9}


bad = []
# 1. qubit 0 -> bit 1, qubit 1 -> bit 0; the block is conditioned on bit 0 (qubit 1's result, which is 1)
qc = QuantumCircuit(3, 3)
qc.x(1)
qc.measure(0, 1); qc.measure(1, 0)
with qc.if_test((0, 1)):
    qc.x(2)
qc.measure(2, 2)
got = outcomes(qc, 6)
if got.keys() != {(1, 0, 0, 1, 0, 1)}:
    bad.append(("swapped classical bits", got))
# 2. qubit 1 measured first (used to raise IndexError)
qc = QuantumCircuit(2, 2)
qc.x(1); qc.measure(1, 1)
with qc.if_test((1, 1)):
    qc.x(0)
qc.measure(0, 0)
try:
    got = outcomes(qc, 4)
    if got.keys() != {(0, 1, 0, 1)}:
        bad.append(("qubit 1 measured first", got))
except Exception as e:
    bad.append(("qubit 1 measured first", repr(e)[:200]))
# 3. block on two qubits and an else-branch
qc = QuantumCircuit(3, 3)
qc.measure(0, 0)
with qc.if_test((0, 1)) as else_:
    qc.x(1)
with else_:
    qc.x(2)
qc.measure(1, 1); qc.measure(2, 2)
got = outcomes(qc, 6)
if got.keys() != {(1, 0, 1, 0, 0, 1)}:
    bad.append(("else branch", got))
qc = QuantumCircuit(3, 3)
qc.x(0); qc.measure(0, 0)
with qc.if_test((0, 1)):
    qc.x(1); qc.x(2)
qc.measure(1, 1); qc.measure(2, 2)
got = outcomes(qc, 6)
if got.keys() != {(0, 1, 0, 1, 0, 1)}:
    bad.append(("two-qubit block", got))
for b in bad:
    print("FAIL", b)
sys.exit(1 if bad else 0)
