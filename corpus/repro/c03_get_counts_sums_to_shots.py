"""C03: counts sum to the number of shots (Gaussian PNM makes one branch per shot)."""
import warnings; warnings.filterwarnings("ignore")
import piquasso as pq
with pq.Program() as p:
    pq.Q(0) | pq.Squeezing(r=0.3)
    pq.Q(0, 1) | pq.Beamsplitter(theta=0.4)
    pq.Q() | pq.ParticleNumberMeasurement()
r = pq.GaussianSimulator(d=2, config=pq.Config(seed_sequence=7)).execute(p, shots=20)
c = r.get_counts()
tot = sum(c.values())
print("counts", c, "sum", tot, "samples", len(r.samples))
from collections import Counter
ok = tot == 20 and dict(Counter(tuple(s) for s in r.samples)) == {tuple(k): v for k, v in c.items()}
print("PASS" if ok else "FAILED")
raise SystemExit(0 if ok else 1)
