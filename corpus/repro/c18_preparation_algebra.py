"""C18: + * / over number states denote the same superposition whatever the order/grouping."""
import warnings; warnings.filterwarnings("ignore")
import piquasso as pq
N = pq.NumberState
def amp(p):
    if isinstance(p, pq.NumberState):
        return {tuple(p.params["occupation_numbers"]): p.params["coefficient"]}
    c = p.params["coefficient"]
    return {tuple(k): v * c for k, v in p.params["fock_amplitude_map"].items()}
ok = True
a = amp(N([1, 0]) + 2 * (N([0, 1]) + N([2, 0])))
b = amp(2 * (N([0, 1]) + N([2, 0])) + N([1, 0]))
want = {(1, 0): 1.0, (0, 1): 2.0, (2, 0): 2.0}
for got, name in ((a, "N + 2*(N+N)"), (b, "2*(N+N) + N")):
    if set(got) != set(want) or any(abs(got[k] - want[k]) > 1e-12 for k in want):
        ok = False; print("FAIL", name, got, "expected", want)
c = amp(N([1, 0]) + (N([0, 1]) + N([1, 0])) / 2)
want = {(1, 0): 1.5, (0, 1): 0.5}
if set(c) != set(want) or any(abs(c[k] - want[k]) > 1e-12 for k in want):
    ok = False; print("FAIL N + (N+N)/2", c, "expected", want)
print("PASS" if ok else "FAILED")
raise SystemExit(0 if ok else 1)
