"""C15: takagi of a REAL symmetric matrix with a kernel of dimension >= 2 (e.g. the adjacency matrix of K_{2,2}) must
return a unitary U.  Before the fix the kernel block was a real rotation, scipy returned its real Schur form, and U was
not unitary (max |UU^† - 1| = 0.126) although U diag(s) U^T still reproduced the input."""
import sys
import numpy as np
import piquasso as pq
from piquasso._math.decompositions import takagi, decompose_adjacency_matrix_into_circuit

conn = pq.NumpyConnector()
A = np.array([[0, 0, 1, 1], [0, 0, 1, 1], [1, 1, 0, 0], [1, 1, 0, 0]])
worst = 0.0
rng = np.random.default_rng(0)
cases = [A.astype(int), A.astype(float)]
for _ in range(6):
    B = rng.normal(size=(5, 2))
    cases.append(B @ np.diag(rng.normal(size=2)) @ B.T)
for M in cases:
    s, U = takagi(M, conn)
    n = len(M)
    worst = max(worst, abs(U @ U.conj().T - np.eye(n)).max(), abs(U @ np.diag(s) @ U.T - M).max())
_, U = decompose_adjacency_matrix_into_circuit(A.astype(float), 1.0, conn)
worst = max(worst, abs(U @ U.conj().T - np.eye(4)).max())
print(f"worst unitarity / reconstruction error: {worst:.3e}")
sys.exit(1 if worst > 1e-9 else 0)
