"""C16/C01: a number-state preparation given on a permuted mode tuple prepares the permuted state on the
PassiveSimulator as it does on the PureFockSimulator."""
import warnings; warnings.filterwarnings("ignore")
import piquasso as pq, numpy as np
ok = True
for modes, occ in (((2, 0, 1), (1, 1, 0)), ((1, 2, 0), (2, 0, 1)), ((0, 1, 2), (1, 0, 1))):
    res = {}
    for simc in (pq.PassiveSimulator, pq.PureFockSimulator):
        with pq.Program() as p:
            pq.Q(*modes) | pq.StateVector(occ)
            pq.Q(0, 1) | pq.Beamsplitter(theta=0.4, phi=0.3)
        st = simc(d=3, config=pq.Config(cutoff=4)).execute(p).state
        res[simc.__name__] = {tuple(int(x) for x in k): float(v) for k, v in st.fock_probabilities_map.items() if v > 1e-12}
    a, b = res["PassiveSimulator"], res["PureFockSimulator"]
    if set(a) != set(b) or any(abs(a[k] - b[k]) > 1e-9 for k in a):
        ok = False; print("FAIL", modes, occ, "passive", a, "purefock", b)
print("PASS" if ok else "FAILED")
raise SystemExit(0 if ok else 1)
