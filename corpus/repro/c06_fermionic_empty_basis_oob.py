"""C06: fermionic get_fock_space_basis(d, cutoff=0) must return the empty basis without touching memory it does not own.
Before the fix it wrote row 0 of a 0-row array (8*d bytes past a zero-size allocation: sporadic `free(): invalid pointer`);
numba's bounds checking makes the write observable deterministically."""
import os, subprocess, sys, tempfile

CODE = r"""
import numpy as np
from piquasso.fermionic import _utils as fu
bad = []
for d in range(1, 7):
    try:
        b = fu.get_fock_space_basis(d, 0)
    except IndexError as e:
        bad.append((d, str(e)))
        continue
    if b.shape != (0, d):
        bad.append((d, b.shape))
print("BAD", bad) if bad else print("OK")
raise SystemExit(1 if bad else 0)
"""
with tempfile.TemporaryDirectory() as t:
    env = dict(os.environ, NUMBA_BOUNDSCHECK="1", NUMBA_CACHE_DIR=t, NUMBA_NUM_THREADS="1")
    p = subprocess.run([sys.executable, "-c", CODE], env=env, capture_output=True, text=True)
print(p.stdout.strip()[-400:] or p.stderr.strip()[-400:])
sys.exit(p.returncode)
