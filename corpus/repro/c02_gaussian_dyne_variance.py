"""C02: Gaussian homodyne / heterodyne / general-dyne samples have covariance (sigma + sigma_m) / 2;
e.g. a homodyne measurement of the vacuum has variance hbar/2, as on the PureFockSimulator."""
import warnings; warnings.filterwarnings("ignore")
import piquasso as pq, numpy as np
ok = True
for hbar in (1.0, 2.0):
    with pq.Program() as p:
        pq.Q() | pq.Vacuum()
        pq.Q(0) | pq.HomodyneMeasurement()
    r = pq.GaussianSimulator(d=1, config=pq.Config(hbar=hbar, seed_sequence=3)).execute(p, shots=20000)
    v = np.var([s[0] for s in r.samples])
    if abs(v - hbar / 2) > 0.05 * hbar:
        ok = False; print("FAIL homodyne vacuum variance", v, "expected", hbar / 2)
    with pq.Program() as q:
        pq.Q() | pq.Vacuum()
        pq.Q(0) | pq.HeterodyneMeasurement()
    r = pq.GaussianSimulator(d=1, config=pq.Config(hbar=hbar, seed_sequence=3)).execute(q, shots=20000)
    v = np.var([s[0] for s in r.samples])
    if abs(v - hbar) > 0.06 * hbar:   # (hbar + hbar) / 2
        ok = False; print("FAIL heterodyne vacuum variance", v, "expected", hbar)
print("PASS" if ok else "FAILED")
raise SystemExit(0 if ok else 1)
