"""C13: structurally invalid requests raise a Piquasso exception before any evolution."""
import warnings; warnings.filterwarnings("ignore")
import piquasso as pq
from piquasso.api.exceptions import PiquassoException

def ran_steps(sim_cls, program, **kw):
    """executes and reports (exception or None, number of simulation steps that ran)"""
    sim = sim_cls(**kw.pop("sim", {}))
    calls = []
    orig = dict(sim._instruction_map)
    wrapped = {k: (lambda f: (lambda *a, **k2: (calls.append(f.__name__), f(*a, **k2))[1]))(v) for k, v in orig.items()}
    type(sim)._instruction_map = wrapped
    try:
        try:
            sim.execute(program, **kw)
            return None, len(calls)
        except Exception as e:
            return e, len(calls)
    finally:
        type(sim)._instruction_map = orig

ok = True
# (a) repeated modes given through on_modes / Program(instructions=...)
prog = pq.Program(instructions=[pq.Vacuum(), pq.Beamsplitter(theta=0.3).on_modes(0, 0)])
e, n = ran_steps(pq.GaussianSimulator, prog, sim=dict(d=2))
if not isinstance(e, PiquassoException) or n != 0:
    ok = False; print("FAIL (a) repeated modes:", type(e).__name__ if e else None, "steps run:", n)
# (b) shots=None with a measurement that does not support it: rejected before evolution
with pq.Program() as p:
    pq.Q(0) | pq.Squeezing(r=0.2)
    pq.Q(0) | pq.HomodyneMeasurement()
e, n = ran_steps(pq.GaussianSimulator, p, sim=dict(d=2), shots=None)
if not isinstance(e, PiquassoException) or n != 0:
    ok = False; print("FAIL (b) shots=None unsupported:", type(e).__name__ if e else None, "steps run:", n)
# (c) a parameter value the documentation promises an error for: rejected before evolution
import numpy as np
with pq.Program() as p:
    pq.Q(0) | pq.Squeezing(r=0.2)
    pq.Q(0, 1) | pq.Interferometer(np.ones((2, 3)))
e, n = ran_steps(pq.GaussianSimulator, p, sim=dict(d=2))
if not isinstance(e, PiquassoException) or n != 0:
    ok = False; print("FAIL (c) non-square interferometer:", type(e).__name__ if e else None, "steps run:", n)
print("PASS" if ok else "FAILED")
raise SystemExit(0 if ok else 1)
