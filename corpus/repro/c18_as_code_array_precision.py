"""C18: as_code + exec reproduces matrix parameters exactly (before 16b45b2 arrays were written with 8 significant digits)."""
import sys
import numpy as np
import piquasso as pq

rng = np.random.default_rng(1)
A = rng.normal(size=(3, 3)) + 1j * rng.normal(size=(3, 3))
U, _ = np.linalg.qr(A)
big = np.eye(40) * 0.123456789012345       # more than 1000 elements: must not be summarised with '...'
with pq.Program() as p:
    pq.Q(0, 1, 2) | pq.Interferometer(U)
code = pq.as_code(p, pq.GaussianSimulator(d=3)).split("result = simulator.execute")[0]
ns = {}
exec(code, ns)
M = np.asarray(ns["program"].instructions[0].params["matrix"])
err = float(np.abs(M - U).max())
txt = pq.Instruction._param_repr(big)
ok_big = "..." not in txt and np.array_equal(eval(txt, {"np": np}), big)
print(f"round-trip error {err:.3e}; 1600-element array reproduced: {ok_big}")
sys.exit(0 if err == 0.0 and ok_big else 1)
