"""C02: post-selection combined with uniform loss.  The exact law of the real sampler (all random-choice paths) must be the
lossy Born distribution restricted to the post-selected count; before 4243661 a lost photon skipped the 'enough photons
left' check, so trials were accepted although the post-selected mode had too few photons."""
import os, sys
sys.path.insert(0, os.path.join(os.path.dirname(os.path.abspath(__file__)), "..", "..", "harness"))
import numpy as np
from pqv.pathrng import exact_law
from pqv.props.c02 import born_table
from pqv.props.c07 import haar
from piquasso._simulators.passive import sampling
from piquasso._math.permanent import permanent_laplace
from piquasso._math.indices import to_first_quantized
from piquasso.api.exceptions import InvalidSimulation

rng = np.random.default_rng(5)
worst = 0.0
for case in range(6):
    d = 3; occ = np.array([[1, 1, 0], [1, 0, 1], [2, 0, 0]][case % 3]); n = 2
    U = haar(rng, d); t = float(rng.uniform(0.3, 0.8)); pm = int(rng.integers(0, d)); pc = 1 + case % 2
    fq = to_first_quantized(occ)
    def run(r):
        try:
            out = sampling._generate_sample_with_postselect(d, n, permanent_laplace, U, fq, rng=r, reject_condition=lambda: r.random() > t,
                                                            postselect_data=((pm,), (pc,), 1))
            return tuple(int(x) for x in out)
        except InvalidSimulation:
            return ("rej",)
    law = exact_law(run)
    full = born_table(np.sqrt(t) * U, occ.tolist())
    ref = {}
    for k, v in full.items():
        if k[pm] == pc:
            kk = tuple(x for i, x in enumerate(k) if i != pm)
            ref[kk] = ref.get(kk, 0.0) + v
    ref[("rej",)] = 1.0 - sum(ref.values())
    worst = max(worst, *[abs(law.get(k, 0.0) - ref.get(k, 0.0)) for k in set(law) | set(ref)])
print(f"worst deviation of the sampler law from the lossy Born rule: {worst:.3e}")
sys.exit(1 if worst > 1e-9 else 0)
