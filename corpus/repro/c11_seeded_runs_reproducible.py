"""C11: two freshly created simulators with the same seed give identical samples, whatever else the
process did in between (creating other Config objects, using the global `random` module)."""
import warnings; warnings.filterwarnings("ignore")
import random
import numpy as np
import piquasso as pq

def program():
    with pq.Program() as p:
        pq.Q(0, 1, 2) | pq.StateVector([1, 1, 0])
        pq.Q(0, 1) | pq.Beamsplitter(theta=0.6, phi=0.2)
        pq.Q(1, 2) | pq.Beamsplitter(theta=0.9, phi=0.1)
        pq.Q() | pq.ParticleNumberMeasurement()
    return p

def run(seed, interfere):
    sim = pq.PureFockSimulator(d=3, config=pq.Config(cutoff=3, seed_sequence=seed))
    if interfere:
        pq.Config(seed_sequence=999)        # an unrelated Config
        random.random(); random.seed(5)     # unrelated use of the global module
        np.random.seed(1)
    return sim.execute(program(), shots=40).samples

ok = True
for seed in (0, 7):
    a, b, c = run(seed, False), run(seed, True), run(seed, False)
    if a != c:
        ok = False; print("FAIL seed", seed, "not reproducible without interference")
    if a != b:
        ok = False; print("FAIL seed", seed, "samples changed by unrelated Config/random use")
if run(1, False) == run(2, False):
    ok = False; print("FAIL different seeds give identical 40-shot sample sequences")
print("PASS" if ok else "FAILED")
raise SystemExit(0 if ok else 1)
