"""C10 regression (fixed by 0abb41a, needs b959af8): gradients through active linear gates with complex blocks on the
PureFockSimulator with the TensorFlow connector (polar -> sqrtm of a complex matrix).  exit 0 = property holds."""
import os, sys, warnings
os.environ.setdefault("TF_CPP_MIN_LOG_LEVEL", "3")
warnings.simplefilter("ignore")
import numpy as np
import piquasso as pq
import tensorflow as tf


def loss_np(s, cutoff=6):
    with pq.Program() as p:
        pq.Q() | pq.StateVector([1])
        pq.Q(0) | pq.QuadraticPhase(s=s)
        pq.Q(0) | pq.Displacement(r=0.3, phi=0.4)
    st = pq.PureFockSimulator(d=1, config=pq.Config(cutoff=cutoff)).execute(p).state
    return float(np.asarray(st.fock_probabilities)[1])


s0 = -0.415
h = 1e-5
fd = (loss_np(s0 + h) - loss_np(s0 - h)) / (2 * h)
v = tf.Variable(s0, dtype=tf.float64)
with tf.GradientTape() as tape:
    with pq.Program() as p:
        pq.Q() | pq.StateVector([1])
        pq.Q(0) | pq.QuadraticPhase(s=v)
        pq.Q(0) | pq.Displacement(r=0.3, phi=0.4)
    st = pq.PureFockSimulator(d=1, config=pq.Config(cutoff=6, dtype=np.float64), connector=pq.TensorflowConnector()).execute(p).state
    out = tf.math.real(st.fock_probabilities[1])
g = float(tape.gradient(out, v))
ok = abs(g - fd) < 1e-6 * (1 + abs(fd))
if not ok:
    print(f"FAIL d P(1)/ds through QuadraticPhase: TensorFlow {g:.8g}, finite differences {fd:.8g}")
sys.exit(0 if ok else 1)
