"""C03/C16: PassiveSimulator — sequential partial measurements give the joint distribution (shots=None),
and outcomes follow the order of the measured modes, as on PureFockSimulator."""
import warnings; warnings.filterwarnings("ignore")
import piquasso as pq, numpy as np
def prog(meas):
    with pq.Program() as p:
        pq.Q(0, 1, 2) | pq.StateVector([1, 1, 0])
        pq.Q(0, 1) | pq.Beamsplitter(theta=0.5)
        pq.Q(1, 2) | pq.Beamsplitter(theta=0.7)
        for m in meas:
            pq.Q(*m) | pq.ParticleNumberMeasurement()
    return p
def dist(simc, meas):
    r = simc(d=3, config=pq.Config(cutoff=3)).execute(prog(meas), shots=None)
    return {tuple(int(x) for x in b.outcome): float(b.frequency) for b in r.branches if float(b.frequency) > 1e-14}
ok = True
for meas in ([(0,), (2,)], [(2,), (0,)], [(0,), (1,)], [(0,), (1,), (2,)], [(1,), (2, 0)], [(2, 0, 1)], [(1,), (0, 2)]):
    try:
        a = dist(pq.PassiveSimulator, meas); b = dist(pq.PureFockSimulator, meas)
    except Exception as e:
        ok = False; print("FAIL", meas, type(e).__name__, e); continue
    if set(a) != set(b) or any(abs(a[k] - b[k]) > 1e-9 for k in a) or abs(sum(a.values()) - 1) > 1e-9:
        ok = False; print("FAIL", meas, "passive", a, "purefock", b)
print("PASS" if ok else "FAILED")
raise SystemExit(0 if ok else 1)
