"""C19: a circuit with a two-qubit gate, a measurement of one of its qubits and a block conditioned on the result must be
simulable exactly (shots=None).  The rounded KLM angles leave ~3e-9 of probability on measurement outcomes outside the
dual-rail code space; before dd2abde the condition function raised on those branches, so the whole execution failed."""
import sys, warnings
import numpy as np
from qiskit import QuantumCircuit
import piquasso as pq
from piquasso.dual_rail_encoding import dual_rail_encode_from_qiskit

qc = QuantumCircuit(2, 2)
qc.h(0); qc.h(1)
qc.cx(0, 1)
qc.measure(0, 0)
with qc.if_test((qc.clbits[0], 1)):
    qc.x(1)
qc.h(1)
prog = dual_rail_encode_from_qiskit(qc)
sim = pq.PureFockSimulator(d=6, config=pq.Config(cutoff=5))
try:
    with warnings.catch_warnings():
        warnings.simplefilter("ignore")
        res = sim.execute(prog, shots=None)
except Exception as e:
    print("raised", type(e).__name__, str(e)[:200])
    sys.exit(1)
# after CX and the correction X^{m}, qubit 1 is |0>; H gives |+>:  P(m=0) = P(m=1) = 1/2 on the code space
w = {}
for b in res.branches:
    oc = tuple(int(x) for x in b.outcome)
    if oc in ((1, 0), (0, 1)):
        amp = b.state.fock_amplitudes_map
        code = {k: a for k, a in amp.items() if tuple(k)[:2] in ((1, 0), (0, 1)) and sum(k) == 1}
        w[oc] = float(b.frequency) * sum(abs(a) ** 2 for a in code.values())
tot = sum(w.values())
p0 = w.get((1, 0), 0.0) / tot if tot else -1
print(f"weight on the code space {tot:.6f} (2/27 = {2/27:.6f}); P(m=0 | code space) = {p0:.6f}")
sys.exit(0 if tot > 0 and abs(p0 - 0.5) < 2e-3 else 1)
