"""C09 regression (fixed by b959af8): TensorflowConnector.polar of a complex matrix, and the state of an active linear
gate with complex blocks on the PureFockSimulator, must agree with the NumPy connector.  exit 0 = property holds."""
import os, sys, warnings
os.environ.setdefault("TF_CPP_MIN_LOG_LEVEL", "3")
warnings.simplefilter("ignore")
import numpy as np
import piquasso as pq
import tensorflow as tf

bad = []
rng = np.random.default_rng(3)
A = rng.normal(size=(3, 3)) + 1j * rng.normal(size=(3, 3))
npc, tfc = pq.NumpyConnector(), pq.TensorflowConnector()
for side in ("right", "left"):
    Un, Pn = npc.polar(A, side=side)
    U, P = tfc.polar(tf.constant(A), side=side)
    e = max(float(np.abs(np.asarray(U) - Un).max()), float(np.abs(np.asarray(P) - Pn).max()))
    if e > 1e-9:
        bad.append((f"polar side={side}", e))


def state(conn):
    with pq.Program() as p:
        pq.Q() | pq.Vacuum()
        pq.Q(0, 1) | pq.Squeezing2(r=0.3, phi=0.9)
    return np.asarray(pq.PureFockSimulator(d=2, config=pq.Config(cutoff=5), connector=conn).execute(p).state.state_vector)


e = float(np.abs(state(npc) - state(tfc)).max())
if e > 1e-9:
    bad.append(("Squeezing2(r=0.3, phi=0.9) on the vacuum, state vector", e))
for b in bad:
    print("FAIL", b)
sys.exit(1 if bad else 0)
