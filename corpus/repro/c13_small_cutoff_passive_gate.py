"""C13/C01: passive gates run on the Fock simulators for every cutoff >= 1, also when a mid-circuit
measurement has lowered the cutoff of a branch to 1 or 2."""
import warnings; warnings.filterwarnings("ignore")
import piquasso as pq, numpy as np
ok = True
for cutoff in (1, 2, 3):
    for simc in (pq.PureFockSimulator, pq.FockSimulator):
        with pq.Program() as p:
            pq.Q() | pq.Vacuum()
            pq.Q(0, 1) | pq.Beamsplitter(theta=0.3)
        try:
            r = simc(d=2, config=pq.Config(cutoff=cutoff)).execute(p)
            if abs(r.state.fock_probabilities[0] - 1) > 1e-12:
                ok = False; print("FAIL wrong state", cutoff, simc.__name__)
        except Exception as e:
            ok = False; print("FAIL", cutoff, simc.__name__, type(e).__name__, str(e)[:80])
with pq.Program() as p:
    pq.Q(0, 1) | pq.StateVector([1, 1])
    pq.Q(0, 1) | pq.Beamsplitter(theta=0.3)
    pq.Q(0) | pq.ParticleNumberMeasurement()
    pq.Q(1) | pq.Phaseshifter(phi=0.4)
try:
    r = pq.PureFockSimulator(d=2, config=pq.Config(cutoff=3)).execute(p, shots=None)
    if abs(sum(float(b.frequency) for b in r.branches) - 1) > 1e-9:
        ok = False; print("FAIL weights")
except Exception as e:
    ok = False; print("FAIL adaptive", type(e).__name__, str(e)[:80])
print("PASS" if ok else "FAILED")
raise SystemExit(0 if ok else 1)
