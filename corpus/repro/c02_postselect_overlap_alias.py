"""C02: postselection with partially distinguishable photons.  The exact law of the real sampler (every random-choice path
enumerated) must be the Born distribution conditioned on the postselected count.  Before 24c86ca the acceptance probability
of the distinguishable part was computed by multiplying a polynomial in place (input aliasing output), so trials were
accepted with the wrong weights: P(1,0 | mode 1 has 1 photon) = 0.93485 instead of 0.94220 for this input."""
import os, sys
sys.path.insert(0, os.path.join(os.path.dirname(os.path.abspath(__file__)), "..", "..", "harness"))
import numpy as np, scipy.linalg
from pqv.pathrng import exact_law
from pqv.props.c02 import born_table
from piquasso._simulators.passive import sampling
from piquasso._math.permanent import permanent_laplace
from piquasso._math.indices import to_first_quantized
from piquasso.api.exceptions import InvalidSimulation

U = np.array([[(-0.097565-0.062339j), (0.65555-0.062862j), (-0.731189-0.13513j)],
              [(-0.016286+0.154788j), (0.333452+0.673275j), (0.113399+0.63121j)],
              [(0.546556+0.814645j), (-0.035193-0.023949j), (-0.150724-0.114455j)]])
U, _ = scipy.linalg.polar(U)
d, occ, n = 3, np.array([0, 1, 1]), 2
fq = to_first_quantized(occ)
worst = 0.0
for x in (0.0, 0.5):
    for pm in range(3):
        for pc in (1, 2):
            def run(r):
                try:
                    out = sampling._generate_sample_with_postselect_and_uniform_overlap(
                        d, n, permanent_laplace, U, fq, rng=r, reject_condition=lambda: False,
                        postselect_data=((pm,), (pc,), 1), uniform_particle_overlap=x)
                    return tuple(int(v) for v in out)
                except InvalidSimulation:
                    return ("rej",)
            law = exact_law(run)
            law.pop(("rej",), None)
            G = (1 - x) * np.eye(n) + x * np.ones((n, n)) + 0j
            full = born_table(U, occ.tolist(), G)
            acc = {tuple(v for i, v in enumerate(k) if i != pm): p for k, p in full.items() if k[pm] == pc}
            s, t = sum(law.values()), sum(acc.values())
            # one trial accepts with exactly the Born probability of the postselected event, and the accepted law is conditional
            worst = max(worst, abs(s - t), *[abs(law.get(k, 0) / s - acc.get(k, 0) / t) for k in set(law) | set(acc)])
print(f"worst deviation of the sampler law from the Born rule: {worst:.3e}")
sys.exit(1 if worst > 1e-9 else 0)
