"""C12: after execute (normal or raising) instruction modes/params are what the caller passed."""
import warnings; warnings.filterwarnings("ignore")
import piquasso as pq

def snapshot(p):
    return [(i.modes, {k: (type(v).__name__, repr(v)) for k, v in i.params.items()}) for i in p.instructions]

ok = True
# (a) string parameter stays a string after a normal run
with pq.Program() as p:
    pq.Q(0, 1) | pq.StateVector([1, 0])
    pq.Q(1) | pq.ParticleNumberMeasurement()
    pq.Q(0) | pq.Phaseshifter(phi="x[0] * 0.5")
before = snapshot(p)
pq.PureFockSimulator(d=2, config=pq.Config(cutoff=3)).execute(p, shots=3)
after = snapshot(p)
if before != after:
    ok = False; print("FAIL string param changed:", before[2], "->", after[2])
# (b) exception in a step: modes restored, params unresolved
with pq.Program() as q:
    pq.Q(0, 1, 2) | pq.StateVector([1, 0, 1])
    pq.Q(0) | pq.ParticleNumberMeasurement()
    pq.Q(2) | pq.Phaseshifter(phi=lambda x: (0.1, 0.2)[x[0] + 5])   # raises IndexError -> InvalidParameter
before = snapshot(q)
try:
    pq.PureFockSimulator(d=3, config=pq.Config(cutoff=4)).execute(q, shots=2)
    print("no exception?!")
except pq.api.exceptions.PiquassoException as e:
    pass
after = snapshot(q)
if before != after:
    ok = False; print("FAIL after exception:", before, "->", after)
# (c) inactive mode error leaves modes untouched
with pq.Program() as r:
    pq.Q(0, 1, 2) | pq.StateVector([1, 0, 1])
    pq.Q(0) | pq.ParticleNumberMeasurement()
    pq.Q(2, 0) | pq.Beamsplitter(theta=0.3)
before = snapshot(r)
try:
    pq.PureFockSimulator(d=3, config=pq.Config(cutoff=4)).execute(r, shots=2)
except Exception as e:
    pass
after = snapshot(r)
if before != after:
    ok = False; print("FAIL after inactive-mode error:", before, "->", after)
print("PASS" if ok else "FAILED")
raise SystemExit(0 if ok else 1)
