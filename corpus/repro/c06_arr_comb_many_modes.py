"""C06: the vectorised Fock index must agree with the scalar one and with the enumeration also for many modes.
Before the fix `arr_comb` ran all k steps of the multiplicative formula without the symmetric shortcut of `comb`, so the
intermediate products overflowed int64 for n above 60: two photons on 61 modes got index -8 instead of 92."""
import sys
from math import comb
import numpy as np
from piquasso._math.indices import get_index_in_fock_space, get_index_in_fock_space_array, get_index_in_fock_subspace_array
from piquasso._math.combinatorics import arr_comb

bad = []
for d in (40, 58, 61, 62, 64, 70, 90):
    v = np.zeros(d, dtype=np.int64); v[0] = 1; v[d // 2] = 1
    t = tuple(int(x) for x in v)
    # exact reference: rank by particle number, then anti-lexicographic (sum over suffix sums)
    s, ref = 0, 0
    for i in range(d):
        s += t[-1 - i]
        ref += comb(s + i, i + 1)
    a = int(get_index_in_fock_space_array(v[None, :].astype(np.int32))[0])
    b = int(get_index_in_fock_space(t))
    if not (a == b == ref):
        bad.append((d, ref, b, a))
for n in (10, 61, 63, 80):
    for k in (0, 1, 2, n - 2, n - 1, n):
        got = int(arr_comb(np.array([n], dtype=np.int32), k)[0])
        if got != comb(n, k):
            bad.append(("arr_comb", n, k, got, comb(n, k)))
print("BAD", bad[:6]) if bad else print("OK")
sys.exit(1 if bad else 0)
