import PqVerif.Model.Comb
