-- root of the library: everything `lake build` (MANIFEST.setup_cmd) must compile
import PqVerif.Driver.All
import PqVerif.Props.C03
import PqVerif.Props.C06
import PqVerif.Props.C12
import PqVerif.Props.C13
import PqVerif.Props.C20
import PqVerif.Props.C18
import PqVerif.Props.C07
import PqVerif.Props.C14
import PqVerif.Props.C11
import PqVerif.Props.C04
import PqVerif.Props.C16
import PqVerif.Props.C01
import PqVerif.Props.C05
import PqVerif.Props.C02
import PqVerif.Props.C08
import PqVerif.Props.C17
