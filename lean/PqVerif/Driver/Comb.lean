import PqVerif.Model.Comb
import PqVerif.Driver.Util
namespace Pq.Driver
open Pq.Comb

def combHandler : Handler
  | ["comb", n, k] => do let n ← parseInt? n; let k ← parseInt? k; pure (toString (combInt n k))
  | ["arrcomb", n, k] => do let n ← parseNat? n; let k ← parseNat? k; pure (toString (arrComb n k))
  | ["cutoffdim", c, d] => do let c ← parseNat? c; let d ← parseNat? d; pure (toString (cutoffDim c d))
  | ["subcard", d, n] => do let d ← parseNat? d; let n ← parseNat? n; pure (toString (subspaceCard d n))
  | ["basis", d, c] => do let d ← parseNat? d; let c ← parseNat? c; pure (showRows (fockBasis d c))
  | ["partitions", b, p] => do let b ← parseNat? b; let p ← parseNat? p; pure (showRows (partitions b p))
  | ["index", v] => do let v ← parseNatList? v; pure (toString (indexInFockSpace v))
  | ["subindex", v] => do let v ← parseNatList? v; pure (toString (indexInFockSubspace v))
  | ["indexarr", v] => do let v ← parseNatList? v; pure (toString (wrap32 (indexInFockSpaceArr v)))
  | ["subindexarr", v] => do let v ← parseNatList? v; pure (toString (wrap32 (indexInFockSubspaceArr v)))
  | ["basisindex", d, c] => do
      let d ← parseNat? d; let c ← parseNat? c
      pure (showNatList ((fockBasis d c).map indexInFockSpace))
  | ["fdim", d, c] => do let d ← parseNat? d; let c ← parseNat? c; pure (toString (fermiCutoffDim d c))
  | ["fbasis", d, c] => do let d ← parseNat? d; let c ← parseNat? c; pure (showRows (fermiBasis d c))
  | ["findex", v] => do let v ← parseNatList? v; pure (toString (fermiIndex v))
  | ["fsubindex", v] => do let v ← parseNatList? v; pure (toString (fermiSubIndex v))
  | ["nextfirst", fq, d] => do let fq ← parseNatList? fq; let d ← parseNat? d; pure (showNatList (nextFirst fq d))
  | ["b2f", d] => do let d ← parseNat? d; pure (showNatList (binaryToFock d))
  | ["tofirst", v] => do let v ← parseNatList? v; pure (showNatList (toFirst v))
  | _ => none

end Pq.Driver
