import PqVerif.Model.FockRep
import PqVerif.Model.Comb
import PqVerif.Driver.Gauss
namespace Pq.Driver
open Pq.FockRep Pq.Comb

/-- `fockrep d n <U entries>`: the `n`-particle block `P[m, v]` in basis order (rows m, columns v) -/
def fockRepHandler : Handler
  | ["fockrep", d, n, u] => do
      let d ← d.toNat?
      let n ← n.toNat?
      let es ← (u.splitOn ",").mapM parseQI?
      let U : List (List QI) := (List.range d).map (fun i => (List.range d).map (fun j => es.getD (i * d + j) 0))
      let sector := partitions d n
      pure (" ".intercalate (sector.map (fun m => ",".intercalate (sector.map (fun v => showQI (fockRepP U m v))))))
  | _ => none
end Pq.Driver
