import PqVerif.Model.PyPrims
import PqVerif.Driver.Util
namespace Pq.Driver
open Pq.Expr

/-- generic s-expression over space-separated tokens `(`, `)`, atoms -/
inductive SExp | atom (s : String) | node (l : List SExp)

partial def parseSExps : List String → List SExp → Option (List SExp × List String)
  | [], acc => some (acc.reverse, [])
  | ")" :: rest, acc => some (acc.reverse, ")" :: rest)
  | "(" :: rest, acc => do
      let (inner, rest') ← parseSExps rest []
      match rest' with
      | ")" :: rest'' => parseSExps rest'' (SExp.node inner :: acc)
      | _ => none
  | a :: rest, acc => parseSExps rest (SExp.atom a :: acc)

def floatOfBits (s : String) : Option Float := do
  let n ← s.toNat?
  pure (Float.ofBits (UInt64.ofNat n))

def parseBinOp : String → BinOp
  | "Add" => .add | "Sub" => .sub | "Mult" => .mult | "Div" => .div | "Mod" => .mod
  | "Pow" => .pow | "BitXor" => .bitxor | s => .other s
def parseUnOp : String → UnOp
  | "UAdd" => .uadd | "USub" => .usub | "Not" => .not | s => .other s
def parseCmpOp : String → CmpOp
  | "Eq" => .eq | "NotEq" => .ne | "Lt" => .lt | "LtE" => .le | "Gt" => .gt | "GtE" => .ge
  | s => .other s

partial def toAst : SExp → Option Ast
  | .node [.atom "c", .atom "i", .atom v] => do pure (.const (.int (← v.toInt?)))
  | .node [.atom "c", .atom "f", .atom v] => do pure (.const (.float (← floatOfBits v)))
  | .node [.atom "c", .atom "b", .atom v] => pure (.const (.bool (v == "1")))
  | .node [.atom "c", .atom "o", .atom k] => pure (.const (.other k))
  | .node [.atom "n", .atom id] => pure (.name id)
  | .node (.atom "t" :: es) => do pure (.tuple (← es.mapM toAst))
  | .node (.atom "l" :: es) => do pure (.list (← es.mapM toAst))
  | .node [.atom "u", .atom op, e] => do pure (.unary (parseUnOp op) (← toAst e))
  | .node [.atom "b", .atom op, l, r] => do pure (.bin (parseBinOp op) (← toAst l) (← toAst r))
  | .node (.atom "bo" :: .atom "And" :: es) => do pure (.boolop .and (← es.mapM toAst))
  | .node (.atom "bo" :: .atom "Or" :: es) => do pure (.boolop .or (← es.mapM toAst))
  | .node (.atom "cmp" :: l :: .node ops :: rs) => do
      let ops ← ops.mapM (fun o => match o with | .atom s => some (parseCmpOp s) | _ => none)
      pure (.compare (← toAst l) ops (← rs.mapM toAst))
  | .node [.atom "sub", v, sl] => do pure (.subscript (← toAst v) (← toAst sl))
  | .node [.atom "sl", a, b, c] => do
      let opt (s : SExp) : Option (Option Ast) :=
        match s with
        | .atom "_" => some none
        | s => (toAst s).map some
      pure (.slice (← opt a) (← opt b) (← opt c))
  | .node (.atom "f" :: .atom k :: es) => do pure (.forbidden k (← es.mapM toAst))
  | _ => none

partial def toVal : SExp → Option Val
  | .node [.atom "i", .atom v] => do pure (.int (← v.toInt?))
  | .node [.atom "b", .atom v] => pure (.bool (v == "1"))
  | .node [.atom "f", .atom v] => do pure (.flt (← floatOfBits v))
  | .node (.atom "t" :: es) => do pure (.tup (← es.mapM toVal))
  | .node (.atom "l" :: es) => do pure (.lst (← es.mapM toVal))
  | .atom "none" => pure .none
  | _ => none

partial def showVal : Val → String
  | .int i => s!"( i {i} )"
  | .bool b => if b then "( b 1 )" else "( b 0 )"
  | .flt f => if f.isNaN then "( f nan )" else s!"( f {f.toBits.toNat} )"
  | .tup l => "( t" ++ String.join (l.map (fun v => " " ++ showVal v)) ++ " )"
  | .lst l => "( l" ++ String.join (l.map (fun v => " " ++ showVal v)) ++ " )"
  | .none => "none"
  | .slice a b c => s!"( slice {showVal a} {showVal b} {showVal c} )"
  | .other k => s!"( other {k} )"

def showErr : Err → String
  | .invalidExpression => "InvalidExpression" | .typeError => "TypeError"
  | .indexError => "IndexError" | .zeroDivision => "ZeroDivisionError"
  | .valueError => "ValueError" | .overflow => "OverflowError" | .unmodelled => "unmodelled"

def showRes : Except Err Val → String
  | .ok v => "ok " ++ showVal v
  | .error e => "err " ++ showErr e

def splitAt2 (toks : List String) : List String × List String :=
  let a := toks.takeWhile (· ≠ "::")
  (a, (toks.drop (a.length + 1)))

def exprHandler : Handler
  | "exprconstruct" :: rest => do
      let (es, _) ← parseSExps rest []
      match es with
      | [e] => do
        let a ← toAst e
        pure (match construct a with | .ok _ => "accept" | .error _ => "reject")
      | _ => none
  | "expreval" :: rest => do
      let (ta, tv) := splitAt2 rest
      let (es, _) ← parseSExps ta []
      let (vs, _) ← parseSExps tv []
      match es, vs with
      | [e], [v] => do
        let a ← toAst e
        let x ← toVal v
        pure (match construct a with
          | .ok a => showRes (eval pyPrims x a)
          | .error _ => "reject")
      | _, _ => none
  | "exprpy" :: rest => do
      let (ta, tv) := splitAt2 rest
      let (es, _) ← parseSExps ta []
      let (vs, _) ← parseSExps tv []
      match es, vs with
      | [e], [v] => do
        let a ← toAst e
        let x ← toVal v
        pure (showRes (pyEval pyPrims x a))
      | _, _ => none
  | _ => none

end Pq.Driver
