import PqVerif.Model.GaussRep
import PqVerif.Driver.Gauss
namespace Pq.Driver
open Pq.GaussRep

def matQ (r c : Nat) (a : Array ℚ) : Matrix (Fin r) (Fin c) ℚ := fun i j => a.getD (i.val * c + j.val) 0
def vecQ (d : Nat) (a : Array ℚ) : Fin d → ℚ := fun i => a.getD i.val 0
def parseQs (s : String) : Option (Array ℚ) := ((s.splitOn ",").mapM parseQ?).map List.toArray

def sumIdx (d : Nat) : List (Fin d ⊕ Fin d) := (List.finRange d).map Sum.inl ++ (List.finRange d).map Sum.inr

def showBlockMat {d : Nat} (M : Matrix (Fin d ⊕ Fin d) (Fin d ⊕ Fin d) ℚ) : String :=
  ",".intercalate ((sumIdx d).flatMap (fun i => (sumIdx d).map (fun j => showQ (M i j))))

def blockOfArr (d : Nat) (a : Array ℚ) : Matrix (Fin d ⊕ Fin d) (Fin d ⊕ Fin d) ℚ :=
  fun i j =>
    let ii := match i with | .inl x => x.val | .inr x => d + x.val
    let jj := match j with | .inl x => x.val | .inr x => d + x.val
    a.getD (ii * (2 * d) + jj) 0

def showMatQ {d : Nat} (M : Matrix (Fin d) (Fin d) ℚ) : String :=
  ",".intercalate ((List.finRange d).flatMap (fun i => (List.finRange d).map (fun j => showQ (M i j))))

def mkRep (d : Nat) (mr mi cr ci gr gi : Array ℚ) : Rep ℚ d :=
  { mr := vecQ d mr, mi := vecQ d mi, Cr := matQ d d cr, Ci := matQ d d ci, Gr := matQ d d gr, Gi := matQ d d gi }

def gaussRepHandler : Handler
  | ["grepget", d, hbar, r, mr, mi, cr, ci, gr, gi] => do
      let d ← d.toNat?
      let s := mkRep d (← parseQs mr) (← parseQs mi) (← parseQs cr) (← parseQs ci) (← parseQs gr) (← parseQs gi)
      let cov := xxppCov (← parseQ? hbar) s
      let mean := xxppMean (← parseQ? r) s
      pure ("cov " ++ showBlockMat cov ++ " mean " ++ ",".intercalate ((sumIdx d).map (fun i => showQ (mean i)))
        ++ " ccre " ++ showBlockMat (complexCovRe s) ++ " ccim " ++ showBlockMat (complexCovIm s))
  | ["grepset", d, hbar, r, cov, mean] => do
      let d ← d.toNat?
      let z : Array ℚ := #[]
      let s0 := mkRep d z z z z z z
      let s := setXxppCov (← parseQ? hbar) (blockOfArr d (← parseQs cov)) s0
      let mv ← parseQs mean
      let s := setXxppMean (← parseQ? r) (fun i => match i with | .inl x => mv.getD x.val 0 | .inr x => mv.getD (d + x.val) 0) s
      pure ("mr " ++ ",".intercalate ((List.finRange d).map (fun i => showQ (s.mr i)))
        ++ " mi " ++ ",".intercalate ((List.finRange d).map (fun i => showQ (s.mi i)))
        ++ " Cr " ++ showMatQ s.Cr ++ " Ci " ++ showMatQ s.Ci ++ " Gr " ++ showMatQ s.Gr ++ " Gi " ++ showMatQ s.Gi)
  | ["grepidx", d] => do
      let d ← d.toNat?
      pure (showNatList ((List.range (2 * d)).map (xxppToXpxp d)) ++ " " ++ showNatList ((List.range (2 * d)).map (xpxpToXxpp d)))
  | _ => none

end Pq.Driver
