import PqVerif.Model.Gauss
import PqVerif.Driver.Util
import Mathlib.Algebra.QuadraticAlgebra.Basic
import Mathlib.Data.Rat.Defs
namespace Pq.Driver
open Pq.Gauss

abbrev QI := QuadraticAlgebra ℚ (-1) 0

def parseQ? (s : String) : Option ℚ :=
  match s.splitOn "/" with
  | [a] => a.toInt?.map (fun i => (i : ℚ))
  | [a, b] => do
      let n ← a.toInt?
      let d ← b.toNat?
      if d = 0 then none else some (mkRat n d)
  | _ => none

/-- `re;im` -/
def parseQI? (s : String) : Option QI :=
  match s.splitOn ";" with
  | [a, b] => do pure ⟨← parseQ? a, ← parseQ? b⟩
  | _ => none

def showQ (q : ℚ) : String := if q.den = 1 then s!"{q.num}" else s!"{q.num}/{q.den}"
def showQI (z : QI) : String := showQ z.re ++ ";" ++ showQ z.im

def vecOf (d : Nat) (a : Array QI) : Fin d → QI := fun i => a.getD i.val 0
def matOf (r c : Nat) (a : Array QI) : Matrix (Fin r) (Fin c) QI := fun i j => a.getD (i.val * c + j.val) 0

def materialize {d : Nat} (s : State QI d) : State QI d :=
  let m := Array.ofFn s.m
  let c := Array.ofFn (n := d * d) (fun t => s.C ⟨t.val / d, by
    have := t.isLt; exact Nat.div_lt_of_lt_mul (by simpa [Nat.mul_comm] using this)⟩ ⟨t.val % d, Nat.mod_lt _ (by
    rcases d with _ | d
    · exact absurd t.isLt (by simp)
    · exact Nat.succ_pos _)⟩)
  let g := Array.ofFn (n := d * d) (fun t => s.G ⟨t.val / d, by
    have := t.isLt; exact Nat.div_lt_of_lt_mul (by simpa [Nat.mul_comm] using this)⟩ ⟨t.val % d, Nat.mod_lt _ (by
    rcases d with _ | d
    · exact absurd t.isLt (by simp)
    · exact Nat.succ_pos _)⟩)
  { m := vecOf d m, C := matOf d d c, G := matOf d d g }

def showState {d : Nat} (s : State QI d) : String :=
  let l := List.finRange d
  "m " ++ " ".intercalate (l.map (fun i => showQI (s.m i)))
  ++ " C " ++ " ".intercalate (l.flatMap (fun i => l.map (fun j => showQI (s.C i j))))
  ++ " G " ++ " ".intercalate (l.flatMap (fun i => l.map (fun j => showQI (s.G i j))))

def modesFn (d : Nat) (ms : List Nat) : Fin ms.length → Fin (d + 1) :=
  fun a => ⟨(ms.getD a.val 0) % (d + 1), Nat.mod_lt _ (Nat.succ_pos _)⟩

/-- ops: `L <modes> <P entries,> <A entries,>` | `P <modes> <T entries,>` | `D <modes> <alpha>` -/
def runOps {d : Nat} : State QI (d + 1) → List String → Option (State QI (d + 1))
  | s, [] => some s
  | s, "L" :: ms :: p :: a :: rest => do
      let ms ← parseNatList? ms
      let k := ms.length
      let P ← (p.splitOn ",").mapM parseQI?
      let A ← (a.splitOn ",").mapM parseQI?
      let s' := materialize (applyLinear (matOf k k P.toArray) (matOf k k A.toArray) (modesFn d ms) s)
      runOps s' rest
  | s, "P" :: ms :: p :: rest => do
      let ms ← parseNatList? ms
      let k := ms.length
      let P ← (p.splitOn ",").mapM parseQI?
      let s' := materialize (applyPassive (matOf k k P.toArray) (modesFn d ms) s)
      runOps s' rest
  | s, "D" :: ms :: al :: rest => do
      let ms ← parseNatList? ms
      let alpha ← parseQI? al
      runOps (materialize (displace alpha (modesFn d ms) s)) rest
  | _, _ => none

def gaussHandler : Handler
  | "gauss" :: d :: m :: c :: g :: ops => do
      let d ← d.toNat?
      match d with
      | 0 => none
      | d' + 1 => do
        let m ← (m.splitOn ",").mapM parseQI?
        let c ← (c.splitOn ",").mapM parseQI?
        let g ← (g.splitOn ",").mapM parseQI?
        let s : State QI (d' + 1) :=
          { m := vecOf _ m.toArray, C := matOf _ _ c.toArray, G := matOf _ _ g.toArray }
        let s' ← runOps s ops
        pure (showState s')
  | _ => none

end Pq.Driver
