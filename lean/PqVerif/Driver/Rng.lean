import PqVerif.Model.Rng
import PqVerif.Driver.Util
namespace Pq.Driver
open Pq.Rng

def parseOp : String → Option Op
  | s => match s.splitOn ":" with
    | ["cfg", "none"] => some (.newConfig none)
    | ["cfg", n] => n.toNat?.map (fun k => .newConfig (some k))
    | ["copy", c] => c.toNat?.map .copyConfig
    | ["sim", c] => c.toNat?.map .newSim
    | ["exec", s, k, py] => do pure (.exec (← s.toNat?) (← k.toNat?) (py == "1"))
    | ["frand", n] => n.toNat?.map .foreignRandom
    | ["fseed", n] => n.toNat?.map .foreignSeed
    | ["reseed", c, n] => do pure (.reseed (← c.toNat?) (← n.toNat?))
    | _ => none

/-- after every op: which configs share a generator (np, py index per config), generator
positions, the global generator's (seed, pos) -/
def showWorld (w : World) : String :=
  "cfgs " ++ (if w.cfgs.isEmpty then "-" else " ".intercalate (w.cfgs.map (fun c => s!"{c.npGen},{c.pyGen}")))
  ++ " gens " ++ (if w.gens.isEmpty then "-" else " ".intercalate (w.gens.map (fun g => s!"{g.seed}@{g.pos}")))
  ++ s!" glob {w.glob.seed}@{w.glob.pos} sims " ++ showNatList w.sims

def rngHandler : Handler
  | "rng" :: ops => do
      let ops ← ops.mapM parseOp
      let (w, outs) := run init ops
      pure (showWorld w ++ " out " ++ " | ".intercalate (outs.map (fun o =>
        if o.isEmpty then "-" else " ".intercalate (o.map (fun (s, p) => s!"{s}@{p}")))))
  | _ => none
end Pq.Driver
