import PqVerif.Model.FermiRep
import PqVerif.Model.FermiGates
import PqVerif.Model.FermiGauss
import PqVerif.Model.Comb
import PqVerif.Driver.GaussRep
namespace Pq.Driver
open Pq.FermiRep Pq.FermiGates Pq.FermiGauss Pq.Comb

/-- the `comb d n` first-quantised index lists in the code's order (`next_first_quantized` from `arange n`) -/
def fqList (d n : Nat) : List (List Nat) :=
  (List.range (comb d n)).foldl (fun (acc : List (List Nat) × List Nat) _ => (acc.1 ++ [acc.2], nextFirst acc.2 d))
    ([], List.range n) |>.1

def xpxpIdx (d : Nat) : List (Fin d ⊕ Fin d) :=
  (List.finRange d).flatMap (fun i => [Sum.inl i, Sum.inr i])

def showXpxp {d : Nat} (M : Matrix (Fin d ⊕ Fin d) (Fin d ⊕ Fin d) ℚ) : String :=
  ",".intercalate ((xpxpIdx d).flatMap (fun i => (xpxpIdx d).map (fun j => showQ (M i j))))

def xpxpOfArr (d : Nat) (a : Array ℚ) : Matrix (Fin d ⊕ Fin d) (Fin d ⊕ Fin d) ℚ :=
  fun i j =>
    let ii := match i with | .inl x => 2 * x.val | .inr x => 2 * x.val + 1
    let jj := match j with | .inl x => 2 * x.val | .inr x => 2 * x.val + 1
    a.getD (ii * (2 * d) + jj) 0

def showFRep {d : Nat} (s : FRep ℚ d) : String :=
  "Dr " ++ showMatQ s.Dr ++ " Di " ++ showMatQ s.Di ++ " Er " ++ showMatQ s.Er ++ " Ei " ++ showMatQ s.Ei

def mkFRep (d : Nat) (a b c e : Array ℚ) : FRep ℚ d :=
  { Dr := matQ d d a, Di := matQ d d b, Er := matQ d d c, Ei := matQ d d e }

def materializeF {d : Nat} (s : FRep ℚ d) : FRep ℚ d :=
  let m (M : Matrix (Fin d) (Fin d) ℚ) : Matrix (Fin d) (Fin d) ℚ :=
    let a := ((List.finRange d).flatMap (fun i => (List.finRange d).map (fun j => M i j))).toArray
    matQ d d a
  { Dr := m s.Dr, Di := m s.Di, Er := m s.Er, Ei := m s.Ei }

def fermiHandler : Handler
  | ["fermirep", d, n, u] => do
      let d ← d.toNat?
      let n ← n.toNat?
      let es ← (u.splitOn ",").mapM parseQI?
      let U : List (List QI) := (List.range d).map (fun i => (List.range d).map (fun j => es.getD (i * d + j) 0))
      let sector := fqList d n
      pure (" ".intercalate (sector.map (fun r => ",".intercalate (sector.map (fun c => showQI (fermiRep U r c))))))
  | ["fermitargets", g, s, modes] => do
      let s ← parseNatList? s
      let ms ← parseNatList? modes
      match g with
      | "ising" => pure (showRows (isingTargets s (ms.getD 0 0) (ms.getD 1 0)))
      | "sq2" => pure (showRows (sq2Targets s (ms.getD 0 0) (ms.getD 1 0)))
      | "cphase" => pure (showRows (cphaseTargets s))
      | "passive" => pure (showRows (passiveTargets s ms))
      | _ => none
  | ["fgget", d, a, b, c, e] => do
      let d ← d.toNat?
      pure (showXpxp (xxppCov (mkFRep d (← parseQs a) (← parseQs b) (← parseQs c) (← parseQs e))))
  | ["fgset", d, cov] => do
      let d ← d.toNat?
      pure (showFRep (setXxppCov (xpxpOfArr d (← parseQs cov))))
  | ["fgpassive", d, x, y, a, b, c, e] => do
      let d ← d.toNat?
      let s := mkFRep d (← parseQs a) (← parseQs b) (← parseQs c) (← parseQs e)
      pure (showFRep (passive (matQ d d (← parseQs x)) (matQ d d (← parseQs y)) s))
  | ["fgso", d, o, a, b, c, e] => do
      let d ← d.toNat?
      let s := mkFRep d (← parseQs a) (← parseQs b) (← parseQs c) (← parseQs e)
      pure (showFRep (applySO (xpxpOfArr d (← parseQs o)) s))
  | ["fgocc", d, n] => do
      let d ← d.toNat?
      let n ← parseQs n
      pure (showFRep (occState (d := d) (fun i => n.getD i.val 0)))
  | _ => none
end Pq.Driver
