import PqVerif.Model.HafEdges
import PqVerif.Driver.Util
namespace Pq.Driver
open Pq.HafEdges

private def mkEdges : List Nat → List Nat → List Nat → List Edge
  | r :: rs, a :: as, b :: bs => ⟨r, a, b⟩ :: mkEdges rs as bs
  | _, _, _ => []

/-- `hafmatch nvec reps as bs`: replay the real function's run; `hafmodel nvec`: the model's own run;
`hafkept reps idx`: get_kept_edges; `hafpattern reps idx`: delta | sign | weight | complement pattern -/
def hafEdgesHandler : Handler
  | ["hafmatch", nvec, reps, as, bs] => do
      let nvec ← parseNatList? nvec; let reps ← parseNatList? reps
      let as ← parseNatList? as; let bs ← parseNatList? bs
      if reps.length ≠ as.length ∨ reps.length ≠ bs.length then some "invalid shape" else
      let es := mkEdges reps as bs
      match nvec with
      | [_] => pure (if es = matchOcc nvec then "ok single" else "invalid single")
      | _ =>
        match replay nvec es with
        | some fin => pure s!"ok fin={showNatList fin} deg={showNatList ((List.range nvec.length).map (degree es))}"
        | none => pure "invalid"
  | ["hafmodel", nvec] => do
      let nvec ← parseNatList? nvec
      let es := matchOcc nvec
      pure s!"{showNatList (es.map (·.rep))} {showNatList (es.map (·.a))} {showNatList (es.map (·.b))}"
  | ["hafkept", reps, idx] => do
      let reps ← parseNatList? reps; let idx ← parseNat? idx
      pure (showNatList (keptEdges reps idx))
  | ["hafpattern", reps, idx] => do
      let reps ← parseNatList? reps; let idx ← parseNat? idx
      let k := keptEdges reps idx
      pure s!"{showIntList (delta reps k)} {if signOdd reps k then 1 else 0} {weight reps k} {patterns reps}"
  | _ => none

end Pq.Driver
