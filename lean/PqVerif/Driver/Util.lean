/-
Line-protocol helpers shared by all drivers.  A line is `op arg arg …`; integers are
decimal, lists are comma separated (`-` is the empty list), nested lists use `;`.
-/
namespace Pq.Driver

def parseNat? (s : String) : Option Nat := s.toNat?
def parseInt? (s : String) : Option Int := s.toInt?

def parseNatList? (s : String) : Option (List Nat) :=
  if s == "-" then some [] else (s.splitOn ",").mapM (·.toNat?)

def parseIntList? (s : String) : Option (List Int) :=
  if s == "-" then some [] else (s.splitOn ",").mapM (·.toInt?)

def showNatList (l : List Nat) : String :=
  if l.isEmpty then "-" else ",".intercalate (l.map toString)

def showIntList (l : List Int) : String :=
  if l.isEmpty then "-" else ",".intercalate (l.map toString)

def showRows (l : List (List Nat)) : String :=
  if l.isEmpty then "empty" else ";".intercalate (l.map showNatList)

abbrev Handler := List String → Option String

end Pq.Driver
