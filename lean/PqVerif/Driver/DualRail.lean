import PqVerif.Model.DualRailEnc
import PqVerif.Driver.Util
namespace Pq.Driver
open Pq.DualRailEnc

def parseBlock (s : String) : Option (List (String × Nat)) :=
  if s == "-" then some [] else
  (s.splitOn ";").mapM (fun t => match t.splitOn "." with
    | [nm, k] => k.toNat?.map (fun k => (nm, k))
    | _ => none)

def parseQOp (s : String) : Option QOp :=
  match s.splitOn ":" with
  | ["g1", nm, q] => q.toNat?.map (QOp.g1 nm)
  | ["g2", nm, a, b] => do pure (QOp.g2 nm (← a.toNat?) (← b.toNat?))
  | ["m", q, c] => do pure (QOp.measure (← q.toNat?) (← c.toNat?))
  | ["if", c, v, qs, body, els] => do
      pure (QOp.ifElse (← c.toNat?) (← v.toNat?) (← parseNatList? qs) (← parseBlock body) (← parseBlock els))
  | _ => none

def showCond : Option Cond → String
  | none => "-"
  | some c => (match c.pos with | none => "n" | some p => toString p) ++ "." ++ toString c.val ++ "." ++ (if c.neg then "1" else "0")

def showPI (p : PI) : String := p.name ++ ":" ++ showNatList p.modes ++ ":" ++ showCond p.cond

/-- `drenc n op|op|...` → emitted instruction list; `drcond pos val neg outcomes` → condition value -/
def dualRailHandler : Handler
  | ["drenc", n, ops] => do
      let n ← n.toNat?
      let ops ← if ops == "-" then some [] else (ops.splitOn "|").mapM parseQOp
      pure (" ".intercalate ((encode n ops).map showPI))
  | ["drcond", pos, val, neg, outs] => do
      let c : Cond := ⟨if pos == "n" then none else pos.toNat?, ← val.toNat?, neg == "1"⟩
      let o ← parseNatList? outs
      pure (match c.eval o with | none => "error" | some true => "true" | some false => "false")
  | _ => none
end Pq.Driver
