import PqVerif.Model.ClementsSched
import PqVerif.Driver.Gauss
namespace Pq.Driver
open Pq.ClementsSched

def showStep (s : Step) : String :=
  (match s.side with | .row => "row" | .col => "col") ++ ":" ++ toString s.m0 ++ ":" ++ toString s.ti ++ ":" ++ toString s.tj

def parseBSq (s : String) : Option BSq :=
  match s.splitOn ":" with
  | [m, t, p] => do pure ⟨← m.toNat?, ← parseQ? t, ← parseQ? p⟩
  | _ => none

/-- `clsched d` → steps in execution order; `clok d` → schedOk; `clcommute phases bs|bs|…` (angles in units of π) -/
def clementsHandler : Handler
  | ["clsched", d] => do
      let d ← d.toNat?
      pure (if (schedule d).isEmpty then "-" else " ".intercalate ((schedule d).map showStep))
  | ["clok", d] => do
      let d ← d.toNat?
      pure (toString (schedOk d))
  | ["clcommute", ph, bss] => do
      let ph ← (ph.splitOn ",").mapM parseQ?
      let bss ← if bss == "-" then some [] else (bss.splitOn "|").mapM parseBSq
      let r := commute ph bss
      pure ((if r.1.isEmpty then "-" else "|".intercalate (r.1.map (fun b => toString b.m0 ++ ":" ++ showQ b.theta ++ ":" ++ showQ b.phi)))
        ++ " " ++ ",".intercalate (r.2.map showQ))
  | _ => none
end Pq.Driver
