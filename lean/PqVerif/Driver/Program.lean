import PqVerif.Model.Program
import PqVerif.Driver.Expr
namespace Pq.Driver
open Pq.Program

def parseRat? (s : String) : Option Rat :=
  match s.splitOn "/" with
  | [a] => a.toInt?.map (fun i => (i : Rat))
  | [a, b] => do
      let n ← a.toInt?
      let d ← b.toNat?
      if d = 0 then none else some (mkRat n d)
  | _ => none

def showRat' (q : Rat) : String := if q.den = 1 then s!"{q.num}" else s!"{q.num}/{q.den}"

/-- preparation expression trees: `( N occ coeff )`, `( V coeff ( occ val ) … )`,
`( add a b )`, `( mul a c )`, `( div a c )` -/
partial def toPrep : SExp → Option (Prep Rat)
  | .node [.atom "N", .atom occ, .atom c] => do
      pure (.number (← parseNatList? occ) (← parseRat? c))
  | .node (.atom "V" :: .atom c :: entries) => do
      let es ← entries.mapM (fun e => match e with
        | .node [.atom occ, .atom v] => do pure ((← parseNatList? occ), (← parseRat? v))
        | _ => none)
      pure (.vector es (← parseRat? c))
  | .node [.atom "add", a, b] => do pure ((← toPrep a).add (← toPrep b))
  | .node [.atom "mul", a, .atom c] => do pure ((← toPrep a).smul (← parseRat? c))
  | .node [.atom "div", a, .atom c] => do
      let c ← parseRat? c
      if c == 0 then none else pure ((← toPrep a).sdiv c)
  | _ => none

/-- canonical dump: the object as Python holds it (type, key order, raw values, coefficient) -/
def showPrep : Prep Rat → String
  | .number o c => s!"N {showNatList o} {showRat' c}"
  | .vector m c => s!"V {showRat' c} " ++ " ".intercalate (m.map (fun (k, v) => s!"{showNatList k}:{showRat' v}"))

def programHandler : Handler
  | ["mapmodes", r, m] => do
      pure (showNatList (mapModes (← parseNatList? r) (← parseNatList? m)))
  | "prepalg" :: rest => do
      let (es, _) ← parseSExps rest []
      match es with
      | [e] => do pure (showPrep (← toPrep e))
      | _ => none
  | _ => none

end Pq.Driver
