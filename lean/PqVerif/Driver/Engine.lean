import PqVerif.Model.Engine
import PqVerif.Driver.Expr
namespace Pq.Driver
open Pq.Expr Pq.Engine

/-- scripted state: number of modes left and the log of steps applied -/
structure ScriptState where
  d : Nat
  log : List String

def showParams (ps : List (String × Val)) : String :=
  "{" ++ ",".intercalate (ps.map (fun (n, v) => n ++ "=" ++ showVal v)) ++ "}"

def showShots : Option Nat → String
  | some n => toString n
  | none => "none"

def lookupParam (ps : List (String × Val)) (n : String) : Option Val :=
  (ps.find? (fun p => p.1 == n)).map (·.2)

def ratOfVal : Val → Option Rat
  | .tup [.int a, .int b] => some (mkRat a b.toNat)
  | _ => none

/-- the scripted simulation step shared (line for line) with harness/pqv/engine.py -/
def scriptedOracle : Oracle ScriptState := fun req =>
  match lookupParam req.params "fault" with
  | some (.int t) => if t != 0 then .error (.stepFault t.toNat) else go req
  | _ => go req
where
  go (req : StepReq ScriptState) : Except Engine.Err (List (Engine.Branch ScriptState)) :=
    let st := req.state.getD { d := 0, log := [] }
    let entry := s!"{req.cls}[{showNatList req.modes}]{showParams req.params}@{showShots req.shots}"
    match lookupParam req.params "outs" with
    | none =>
      -- `Branch.__init__` drops a state without modes (`state if state is not None and state.d != 0 else None`)
      .ok [{ state := if st.d = 0 then none else some { st with log := st.log ++ [entry] }, outcome := [], freq := 1 }]
    | some (.tup outs) =>
      let d' := st.d - req.modes.length
      let st' : Option ScriptState := if d' = 0 then none else some { d := d', log := st.log ++ [entry] }
      let outcomeOf (o : Val) : List Val := match o with | .tup l => l | v => [v]
      match req.shots with
      | some k =>
        let r := outs.length
        if r = 0 then .error (.stepFault 999) else
        let q := k / r
        let rem := k % r
        let even : List Nat := (List.range r).map (fun j => q + (if j < rem then 1 else 0))
        -- an explicit split of the shots over the outcomes (`counts`), used when it is a split of exactly `k` shots
        let explicit : Option (List Nat) := match lookupParam req.params "counts" with
          | some (.tup cs) => cs.mapM (fun v => match v with
              | .int i => if i ≥ 0 then some i.toNat else none
              | _ => none)
          | _ => none
        let cnts : List Nat := match explicit with
          | some cs => if cs.length = r ∧ cs.sum = k then cs else even
          | none => even
        .ok (((outs.zip cnts).filterMap (fun (o, cnt) =>
          if cnt = 0 then none
          else some { state := st', outcome := outcomeOf o, freq := mkRat cnt k })))
      | none =>
        match lookupParam req.params "weights" with
        | some (.tup ws) =>
          .ok ((outs.zip ws).filterMap (fun (o, w) =>
            match ratOfVal w with
            | some f => if f == 0 then none else some { state := st', outcome := outcomeOf o, freq := f }
            | none => none))
        | _ => .error (.stepFault 998)
    | some _ => .error (.stepFault 997)

/-- scripted `_validate`: a parameter `invalid = 1` makes it raise InvalidParameter -/
def scriptedPval : ParamCheck := fun _ ps =>
  match lookupParam ps "invalid" with
  | some (.int t) => if t != 0 then .error .invalidParameter else .ok ()
  | _ => .ok ()

def parseBase : String → Option Base
  | "prep" => some .prep | "gate" => some .gate | "meas" => some .meas | _ => none

def sexpNatList : SExp → Option (List Nat)
  | .node l => l.mapM (fun s => match s with | .atom a => a.toNat? | _ => none)
  | _ => none

def toParam : SExp → Option (String × Param)
  | .node [.atom n, .atom "c", v] => do pure (n, .const (← toVal v))
  | .node [.atom n, .atom "e", a] => do pure (n, .expr (← toAst a))
  | _ => none

def toInstr : SExp → Option Instr
  | .node [.atom cls, .atom base, modes, cond, .node params] => do
      let c ← match cond with
        | .atom "_" => some none
        | s => (toAst s).map some
      pure { cls := ← cls.toNat?, base := ← parseBase base, modes := ← sexpNatList modes,
             cond := c, params := ← params.mapM toParam }
  | _ => none

def showErrE : Engine.Err → String
  | .invalidModes => "InvalidModes" | .invalidSimulation => "InvalidSimulation"
  | .invalidParameter => "InvalidParameter" | .invalidState => "InvalidState"
  | .invalidProgram => "InvalidProgram" | .otherPiquasso => "OtherPiquasso"
  | .valueError => "NonPiquasso:ValueError" | .stepFault t => s!"StepFault{t}"

def showRat (q : Rat) : String := s!"{q.num}/{q.den}"

def showBranch (b : Engine.Branch ScriptState) : String :=
  let st := match b.state with
    | none => "None"
    | some s => s!"d{s.d}:" ++ "+".intercalate s.log
  "( t" ++ String.join (b.outcome.map (fun v => " " ++ showVal v)) ++ " ) " ++ showRat b.freq ++ " " ++ st

def showSlot : String × Slot → String
  | (n, .user _) => n ++ "=U"
  | (n, .resolved v) => n ++ "=R" ++ showVal v

def showCell (c : Cell) : String :=
  "[" ++ showNatList c.modes ++ "]{" ++ ",".intercalate (c.params.map showSlot) ++ "}"

def parseShots : String → Option ShotsArg
  | "none" => some .none
  | "bad" => some .bad
  | s => s.toNat?.map .pos

def parseInit : String → Option InitArg
  | "absent" => some .absent
  | "wrong" => some .wrongClass
  | s => (s.toNat?).map .ok

def engineHandler : Handler
  | "engine" :: simD :: shots :: init :: rest => do
      let (es, _) ← parseSExps rest []
      match es with
      | sup :: mid :: sn :: instrs => do
        let spec : SimSpec := { supported := ← sexpNatList sup, midCircuit := ← sexpNatList mid,
                                shotsNone := ← sexpNatList sn }
        let is ← instrs.mapM toInstr
        let simD' := if simD == "-" then none else simD.toNat?
        let sh ← parseShots shots
        let ini ← parseInit init
        let d0 := match validateRequest spec simD' is sh ini with | .ok d => d | .error _ => 0
        let (res, w) := ((execute spec scriptedOracle scriptedPval simD' is sh ini
            { d := d0, log := [] }).run.run (initWorld is))
        let heap := " ".intercalate (w.heap.map showCell)
        let head := match res with
          | .ok bs => "ok " ++ " ; ".intercalate (bs.map showBranch)
          | .error e => "err " ++ showErrE e
        let tail := match res with
          | .ok bs =>
            (match sh with
             | .pos n => s!" | samples {(samples n bs).length} counts {((getCounts (fun o => String.join (o.map showVal)) n bs).map (·.2)).sum}"
             | _ => "")
          | .error _ => ""
        pure (head ++ s!" | heap {heap} | calls {w.calls.length}" ++ tail)
      | _ => none
  | _ => none

end Pq.Driver
