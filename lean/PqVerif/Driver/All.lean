import PqVerif.Driver.Comb
import PqVerif.Driver.Expr
import PqVerif.Driver.Engine
import PqVerif.Driver.Program
import PqVerif.Driver.Gauss
import PqVerif.Driver.GaussRep
import PqVerif.Driver.Kernel
import PqVerif.Driver.Rng
