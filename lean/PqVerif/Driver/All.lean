import PqVerif.Driver.Comb
import PqVerif.Driver.Expr
import PqVerif.Driver.Engine
import PqVerif.Driver.Program
