import PqVerif.Driver.Comb
import PqVerif.Driver.Expr
