import PqVerif.Driver.Comb
