import PqVerif.Model.Index
import PqVerif.Driver.Gauss
namespace Pq.Driver
open Pq.Index

def showTable (t : List (List (List Nat))) : String :=
  if t.isEmpty then "none" else " | ".intercalate (t.map showRows)

def indexHandler : Handler
  | ["indexlist", modes, d, c] => do
      pure (showTable (indexList (← parseNatList? modes) (← d.toNat?) (← c.toNat?)))
  | ["stateindex", d, c, mode] => do
      pure (showTable (stateIndexMatrixList (← d.toNat?) (← c.toNat?) (← mode.toNat?)))
  | ["projidx", d, c, modes, bv] => do
      pure (showNatList (projectionIndices (← d.toNat?) (← c.toNat?) (← parseNatList? modes) (← parseNatList? bv)))
  | ["auxmodes", d, modes] => do pure (showNatList (auxModes (← d.toNat?) (← parseNatList? modes)))
  | "applyindexed" :: modes :: d :: c :: state :: blocks => do
      -- blocks: one token per particle number: rows separated by `:`, entries by `,`
      let st ← (state.splitOn ",").mapM parseQI?
      let bl ← blocks.mapM (fun b => if b == "-" then some [] else (b.splitOn ":").mapM (fun r => (r.splitOn ",").mapM parseQI?))
      let out := applyIndexed (K := QI) (fun n => bl.getD n []) (← parseNatList? modes) (← d.toNat?) (← c.toNat?) st
      pure (",".intercalate (out.map showQI))
  | _ => none

end Pq.Driver
