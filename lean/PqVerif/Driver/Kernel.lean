import PqVerif.Model.Kernel
import PqVerif.Driver.Gauss
namespace Pq.Driver
open Pq.Kernel

instance : OfNat QI 2 := ⟨⟨2, 0⟩⟩

/-- executable definition of the permanent with multiplicities: expand rows and columns, then
Laplace expansion along the first row (the defining sum over permutations, grouped) -/
partial def permDef : List (List QI) → QI
  | [] => 1
  | row :: rest =>
    (row.zipIdx.foldl (fun acc (a, j) =>
      if a == 0 then acc else acc + a * permDef (rest.map (fun r => r.eraseIdx j))) 0)

def expand (A : List (List QI)) (rows cols : List Nat) : List (List QI) :=
  let expCols (r : List QI) : List QI := (r.zip cols).flatMap (fun (a, m) => List.replicate m a)
  (A.zip rows).flatMap (fun (r, m) => List.replicate m (expCols r))

def parseMat (n m : Nat) (s : String) : Option (List (List QI)) := do
  let es ← (if s == "-" then some [] else (s.splitOn ",").mapM parseQI?)
  if es.length != n * m then none
  else pure ((List.range n).map (fun i => (List.range m).map (fun j => es.getD (i * m + j) 0)))

def kernelHandler : Handler
  | ["graycodes", limits] => do
      let l ← parseNatList? limits
      let n := l.foldl (· * ·) 1
      pure (showRows ((List.range n).map (grayOf l)))
  | ["graynext", limits, lo, hi] => do
      let l ← parseNatList? limits
      let lo ← lo.toNat?
      let hi ← hi.toNat?
      let (_, out) := (List.range (hi - lo)).foldl (fun (st : Counter × List String) _ =>
        let (c', i, p, v) := st.1.next
        (c', st.2 ++ [s!"{i}:{p}:{v}:{showNatList c'.gray}"])) (Counter.init l lo, [])
      pure (if out.isEmpty then "empty" else " ".intercalate out)
  | ["jobranges", idxMax, threads] => do
      let r := jobRanges (← idxMax.toNat?) (← threads.toNat?)
      pure (if r.isEmpty then "empty" else " ".intercalate (r.map (fun (a, b) => s!"{a}-{b}")))
  | ["binom", n, k] => do pure (toString (binomialCoeff (← n.toNat?) (← k.toNat?)))
  | ["perm", wrap, threads, n, m, a, rows, cols] => do
      let n ← n.toNat?
      let m ← m.toNat?
      let A ← parseMat n m a
      let r ← parseNatList? rows
      let c ← parseNatList? cols
      match permanent (K := QI) (wrap == "1") (← threads.toNat?) A r c with
      | some z => pure (showQI z)
      | none => pure "none"
  | ["permmaxint", rows] => do
      -- rows as given by the caller; the kernel splits the smallest non-zero row first
      let r ← parseNatList? rows
      let (_, r') := splitRow (K := QI) (r.map (fun _ => [])) r
      let mults := r'.drop 1
      pure (toString (maxIntermediate mults (mults.map (· + 1))))
  | ["permdef", n, m, a, rows, cols] => do
      let n ← n.toNat?
      let m ← m.toNat?
      let A ← parseMat n m a
      let r ← parseNatList? rows
      let c ← parseNatList? cols
      if r.sum != c.sum then pure "none" else pure (showQI (permDef (expand A r c)))
  | _ => none

end Pq.Driver
