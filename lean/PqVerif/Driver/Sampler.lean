import PqVerif.Model.Sampler
import PqVerif.Driver.Program
namespace Pq.Driver
open Pq.Sampler

/-- `chainlaw <alphabet size> <k> <prefix>=<w0>,<w1>,… …` (prefix `-` = empty, digits separated by `.`):
law of the chain-rule sampler with the given conditional weight tables; `abort` variant takes a final
token `bad:<prefix>;<prefix>…` -/
def samplerHandler : Handler
  | "chainlaw" :: na :: k :: rest => do
      let na ← na.toNat?
      let k ← k.toNat?
      let parsePre (s : String) : Option (List Nat) := if s == "-" then some [] else (s.splitOn ".").mapM (·.toNat?)
      let tbl ← rest.mapM (fun tok => match tok.splitOn "=" with
        | [p, ws] => do pure ((← parsePre p), (← (ws.splitOn ",").mapM parseRat?))
        | _ => none)
      let w : List Nat → Nat → Rat := fun pre a =>
        match tbl.find? (fun e => e.1 == pre) with
        | some e => e.2.getD a 0
        | none => 0
      let law := chain (List.range na) w k
      -- merge equal outcomes, drop zero weights
      let outs := (law.map (·.1)).eraseDups
      let items := outs.filterMap (fun o => let p := prob law o; if p == 0 then none else some (".".intercalate (o.map toString) ++ "=" ++ showRat' p))
      pure (" ".intercalate items)
  | _ => none
end Pq.Driver
