import PqVerif.Props.C09
#print axioms Pq.C09.polar_right
#print axioms Pq.C09.polar_left
#print axioms Pq.C09.conj_sqrt_is_not_polar
#print axioms Pq.C09.svd_reorder
#print axioms Pq.C09.funm_exp_log
#print axioms Pq.C09.funm_pow
#print axioms Pq.C09.lazy_schur
#print axioms Pq.C09.bosonic_representation_spec
#print axioms Pq.C09.fermionic_representation_spec
