import PqVerif.Props.C18
#print axioms Pq.C18.mapModes_comp
#print axioms Pq.C18.register_comp
#print axioms Pq.C18.register_spec
#print axioms Pq.C18.bb_roundtrip
#print axioms Pq.C18.bb_table_ok
#print axioms Pq.C18.bb_roundtrip_generated
#print axioms Pq.C18.amp_add
#print axioms Pq.C18.amp_smul
#print axioms Pq.C18.amp_sdiv
#print axioms Pq.C18.add_comm_amp
#print axioms Pq.C18.add_assoc_amp
#print axioms Pq.C18.smul_add_amp
