import PqVerif.Props.C03
#print axioms Pq.C03.shots_invariant
#print axioms Pq.C03.int_frequency_times_shots_exact
#print axioms Pq.C03.samples_length
#print axioms Pq.C03.frequencies_sum_to_one
#print axioms Pq.C03.counts_sum
#print axioms Pq.C03Chain.weights_sum
#print axioms Pq.C03Chain.post_normalised
#print axioms Pq.C03Chain.sequential_eq_joint
#print axioms Pq.C03Chain.joint_zero_of_first_zero
#print axioms Pq.C03Chain.final_branch_state
