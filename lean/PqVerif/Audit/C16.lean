import PqVerif.Props.C16
#print axioms Pq.C16.indexList_perm
#print axioms Pq.C16.projectionIndices_spec
#print axioms Pq.C16.applyIndexed_eq_labelled
#print axioms Pq.C16.applyLabelled_equivariant
#print axioms Pq.C16.applyLabelled_comm
#print axioms Pq.C16.gauss_equivariant
#print axioms Pq.C16.gauss_comm_of_disjoint
#print axioms Pq.C16.remap_inverse
