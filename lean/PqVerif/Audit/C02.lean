import PqVerif.Props.C02
#print axioms Pq.C02.pick_law
#print axioms Pq.C02.chain_sampler_law
#print axioms Pq.C02.chain_total
#print axioms Pq.C02.early_abort_sound
#print axioms Pq.C02.early_abort_never_bad
#print axioms Pq.C02.cc_pmf_numerator
#print axioms Pq.C02.cc_pmf_normalisation
