import PqVerif.Props.C20
#print axioms Pq.C20.validate_iff_inGrammar
#print axioms Pq.C20.construct_accepts
#print axioms Pq.C20.construct_rejects
#print axioms Pq.C20.run_rejects_without_evaluating
#print axioms Pq.C20.eval_eq_pyEval
#print axioms Pq.C20.run_eq_python
#print axioms Pq.C20.pyPrims_cmpBool
#print axioms Pq.C20.tables_match_source
