import PqVerif.Props.C12
#print axioms Pq.C12.execute_frame
#print axioms Pq.C12.execute_idempotent
#print axioms Pq.C12.rejected_request_frame
