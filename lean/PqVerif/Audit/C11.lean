import PqVerif.Props.C11
#print axioms Pq.C11.fresh_simulator_draws
#print axioms Pq.C11.same_seed_same_samples
#print axioms Pq.C11.different_seed_different_stream
#print axioms Pq.C11.reseed_replays
#print axioms Pq.C11.reseed_same_seed_same_samples
#print axioms Pq.C11.jobRanges_partition
#print axioms Pq.C11.jobRanges_zero_threads
#print axioms Pq.C11.grayOf_injective
#print axioms Pq.C11.gray_adjacent
#print axioms Pq.C11.next_eq_init
#print axioms Pq.C11.runJob_eq_sum
#print axioms Pq.C11.permanent_threads_independent
#print axioms Pq.C11.permanent_zero_threads
