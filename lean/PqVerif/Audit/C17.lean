import PqVerif.Props.C17
#print axioms Pq.C17.fermiRep_eq_det
#print axioms Pq.C17.fermiRep_eq_compound
#print axioms Pq.C17.number_conserved
#print axioms Pq.C17.exclusion
#print axioms Pq.C17.cauchy_binet
#print axioms Pq.C17.blocks_multiplicative
#print axioms Pq.C17.blocks_unitary
#print axioms Pq.C17.ising_parity
#print axioms Pq.C17.sq2_parity
#print axioms Pq.C17.passive_number
#print axioms Pq.C17.isingPair_norm
#print axioms Pq.C17.sq2Pair_norm
#print axioms Pq.C17.representation_roundtrip
#print axioms Pq.C17.passive_is_congruence
#print axioms Pq.C17.gate_keeps_valid
#print axioms Pq.C17.number_state
