import PqVerif.Props.C05
#print axioms Pq.C05.dilation_isometry
#print axioms Pq.C05.expanded_not_unitary_witness
#print axioms Pq.C05.indistinguishable_limit
#print axioms Pq.C05.classical_limit
#print axioms Pq.C05.gramProb_real
