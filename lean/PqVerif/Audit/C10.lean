import PqVerif.Props.C10
#print axioms Pq.C10.perm_grad
#print axioms Pq.C10.disp_grad_r
#print axioms Pq.C10.disp_grad_phi
#print axioms Pq.C10.sqrtm_vjp
