import PqVerif.Props.C10
#print axioms Pq.C10.perm_grad
#print axioms Pq.C10.disp_grad_r
#print axioms Pq.C10.disp_grad_phi
#print axioms Pq.C10.disp_loop_closed_form
#print axioms Pq.C10.sq_loop_closed_form
#print axioms Pq.C10.sq_grad_r
#print axioms Pq.C10.sq_grad_phi
#print axioms Pq.C10.sqrtm_vjp
