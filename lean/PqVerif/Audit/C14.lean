import PqVerif.Props.C14
#print axioms Pq.C14.get_set_cov
#print axioms Pq.C14.set_get_cov
#print axioms Pq.C14.get_set_mean
#print axioms Pq.C14.set_get_mean
#print axioms Pq.C14.cov_scaling
#print axioms Pq.C14.mean_scaling
#print axioms Pq.C14.normalised_cov_hbar_free
#print axioms Pq.C14.reduced_cov
#print axioms Pq.C14.reduced_mean
#print axioms Pq.C14.rotated_cov
#print axioms Pq.C14.rotated_mean
#print axioms Pq.C14.complexCov_injective
#print axioms Pq.C14.xpxp_xxpp_inverse
#print axioms Pq.C14.purity_hbar_free
