import PqVerif.Props.C04
#print axioms Pq.C04.binomialCoeff_eq_choose
#print axioms Pq.C04.binomUpdate_exact
#print axioms Pq.C04.runJob_eq_sum
#print axioms Pq.C04.permanent_one_thread_sum
#print axioms Pq.C04.permanent_threads_independent
#print axioms Pq.C04.wrap32_of_small
#print axioms Pq.C04.int32_overflow_witness
#print axioms Pq.C04.permanent_eq_permSpec
#print axioms Pq.C04.permanent_none_of_ne
#print axioms Pq.C04.match_edges_cover
#print axioms Pq.C04.match_edges_cover_odd
#print axioms Pq.C04.match_round_decreases
#print axioms Pq.C04.match_single_vertex
#print axioms Pq.C04.kept_edges_bounded
#print axioms Pq.C04.kept_edges_injective
#print axioms Pq.C04.kept_edges_complement
#print axioms Pq.C04.pattern_weights_total
