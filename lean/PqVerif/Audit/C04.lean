import PqVerif.Props.C04
#print axioms Pq.C04.binomialCoeff_eq_choose
#print axioms Pq.C04.binomUpdate_exact
#print axioms Pq.C04.runJob_eq_sum
#print axioms Pq.C04.permanent_one_thread_sum
#print axioms Pq.C04.permanent_threads_independent
#print axioms Pq.C04.wrap32_of_small
#print axioms Pq.C04.int32_overflow_witness
#print axioms Pq.C04.permanent_eq_permSpec
#print axioms Pq.C04.permanent_none_of_ne
