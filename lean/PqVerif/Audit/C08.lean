import PqVerif.Props.C08
#print axioms Pq.C08.congruence_psd
#print axioms Pq.C08.gaussian_gate_keeps_physical
#print axioms Pq.C08.kraus_psd
#print axioms Pq.C08.unitary_preserves_norm
#print axioms Pq.C08.contraction_norm_le
#print axioms Pq.C08.attenuator_kraus_form
#print axioms Pq.C08.attenuator_kraus_complete
#print axioms Pq.C08.attenuator_keeps_physical
#print axioms Pq.C08.gaussian_channel_keeps_uncertainty
#print axioms Pq.C08.gaussian_channel_code_condition_wrong
