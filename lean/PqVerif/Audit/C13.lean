import PqVerif.Props.C13
#print axioms Pq.C13.validate_ok_iff_wellFormed
#print axioms Pq.C13.validateAll_ok_iff
#print axioms Pq.C13.reject_before_step
#print axioms Pq.C13.accepted_runs_reach_steps
#print axioms Pq.C13.tables_sane
