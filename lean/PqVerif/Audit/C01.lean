import PqVerif.Props.C01
#print axioms Pq.C01.fockRep_eq_permSpec
#print axioms Pq.C01.passive_amplitude_formula
#print axioms Pq.C01.gauss_passive_is_congruence
#print axioms Pq.C01.number_conserving_block_structure
#print axioms Pq.C01.displacement_loop
#print axioms Pq.C01.squeezing_loop
#print axioms Pq.C01.displacement_heisenberg
#print axioms Pq.C01.squeezing_heisenberg
