import PqVerif.Props.C15
#print axioms Pq.C15.schedule_sound
#print axioms Pq.C15.elimination
#print axioms Pq.C15.bs_unitary
#print axioms Pq.C15.nulling_row
#print axioms Pq.C15.nulling_col
#print axioms Pq.C15.commute_cast
#print axioms Pq.C15.commute_identity
#print axioms Pq.C15.commute_correct
#print axioms Pq.C15.clements_roundtrip
#print axioms Pq.C15.unitary_lower_zero_diagonal
#print axioms Pq.C15.takagi_Z_commutes
#print axioms Pq.C15.takagi_reconstructs
#print axioms Pq.C15.williamson_reconstructs
#print axioms Pq.C15.euler_reconstructs
#print axioms Pq.C15.graph_mean_photon
