/-
L3 `Expr`: model of piquasso/core/_expressions.py (`Expression._validate`, `Expression._eval`)
and, separately, of Python's own evaluation rules for the same syntax (`pyEval`).
Core Lean only.
-/
namespace Pq.Expr

inductive BinOp | add | sub | mult | div | mod | pow | bitxor | other (name : String)
  deriving Repr, DecidableEq
inductive UnOp | uadd | usub | not | other (name : String)
  deriving Repr, DecidableEq
inductive BoolOp | and | or
  deriving Repr, DecidableEq
inductive CmpOp | eq | ne | lt | le | gt | ge | other (name : String)
  deriving Repr, DecidableEq

/-- `ast.Constant.value`: int / float / bool, or anything else (str, bytes, None, Ellipsis, complex) -/
inductive Const
  | int (i : Int) | float (f : Float) | bool (b : Bool) | other (kind : String)

/-- every node kind `ast.parse(mode="eval")` can produce; the ones `_expressions.py` has no
case for are `forbidden kind children` -/
inductive Ast
  | const (c : Const)
  | name (id : String)
  | tuple (elts : List Ast)
  | list (elts : List Ast)
  | unary (op : UnOp) (e : Ast)
  | bin (op : BinOp) (l r : Ast)
  | boolop (op : BoolOp) (vs : List Ast)
  | compare (l : Ast) (ops : List CmpOp) (rs : List Ast)
  | subscript (v : Ast) (sl : Ast)
  | slice (lo hi st : Option Ast)
  | forbidden (kind : String) (children : List Ast)

inductive Val
  | int (i : Int) | bool (b : Bool) | flt (f : Float)
  | tup (l : List Val) | lst (l : List Val)
  | none
  | slice (a b c : Val)
  | other (kind : String)

inductive Err
  | invalidExpression | typeError | indexError | zeroDivision | valueError | overflow
  | unmodelled
  deriving Repr, DecidableEq

/-- Python's `operator` module as far as `_eval` uses it -/
structure Prims where
  binop : BinOp → Val → Val → Except Err Val
  unop : UnOp → Val → Except Err Val
  cmp : CmpOp → Val → Val → Except Err Val
  truthy : Val → Bool
  getitem : Val → Val → Except Err Val

/-! ### the tables of `_expressions.py` (checked against the module by `Gen/ExprTables.lean`) -/

def binopAllowed : BinOp → Bool
  | .other _ => false
  | _ => true
def unopAllowed : UnOp → Bool
  | .other _ => false
  | _ => true
def cmpAllowed : CmpOp → Bool
  | .other _ => false
  | _ => true
def constAllowed : Const → Bool
  | .other _ => false
  | _ => true

/-! ### `Expression._validate`: every node reached by `ast.walk` is in `ALLOWED`, names are `x`,
constants are int/float/bool.  (Operator and context nodes are visited by the walk too: they are
folded into the check of their parent.) -/
mutual
def validate : Ast → Bool
  | .const c => constAllowed c
  | .name id => id == "x"
  | .tuple es => validateList es
  | .list es => validateList es
  | .unary op e => unopAllowed op && validate e
  | .bin op l r => binopAllowed op && validate l && validate r
  | .boolop _ vs => validateList vs
  | .compare l ops rs => ops.all cmpAllowed && validate l && validateList rs
  | .subscript v sl => validate v && validate sl
  | .slice lo hi st => validateOpt lo && validateOpt hi && validateOpt st
  | .forbidden _ _ => false
def validateList : List Ast → Bool
  | [] => true
  | e :: es => validate e && validateList es
def validateOpt : Option Ast → Bool
  | none => true
  | some e => validate e
end

def constVal : Const → Val
  | .int i => .int i
  | .float f => .flt f
  | .bool b => .bool b
  | .other k => .other k

/-! ### `Expression._eval` as written -/
mutual
def eval (P : Prims) (x : Val) : Ast → Except Err Val
  | .const c => pure (constVal c)
  | .name _ => pure x
  | .tuple es => do pure (.tup (← evalList P x es))
  | .list es => do pure (.lst (← evalList P x es))
  | .unary op e =>
      if unopAllowed op then do P.unop op (← eval P x e) else throw .invalidExpression
  | .bin op l r =>
      if binopAllowed op then do
        let a ← eval P x l
        let b ← eval P x r
        P.binop op a b
      else throw .invalidExpression
  | .boolop .and vs => evalAnd P x (.bool true) vs
  | .boolop .or vs => evalOr P x (.bool false) vs
  | .compare l ops rs => do
      let left ← eval P x l
      evalCmp P x left ops rs
  | .subscript v sl => do
      let seq ← eval P x v
      match sl with
      | .slice lo hi st =>
        let a ← evalOpt P x lo
        let b ← evalOpt P x hi
        let c ← evalOpt P x st
        P.getitem seq (.slice a b c)
      | other =>
        let i ← eval P x other
        P.getitem seq i
  | .slice _ _ _ => throw .invalidExpression
  | .forbidden _ _ => throw .invalidExpression
def evalList (P : Prims) (x : Val) : List Ast → Except Err (List Val)
  | [] => pure []
  | e :: es => do
      let v ← eval P x e
      let vs ← evalList P x es
      pure (v :: vs)
def evalOpt (P : Prims) (x : Val) : Option Ast → Except Err Val
  | none => pure .none
  | some e => eval P x e
/-- `result = True; for v in values: result = eval(v); if not result: return result; return result` -/
def evalAnd (P : Prims) (x : Val) (result : Val) : List Ast → Except Err Val
  | [] => pure result
  | v :: vs => do
      let r ← eval P x v
      if P.truthy r then evalAnd P x r vs else pure r
def evalOr (P : Prims) (x : Val) (result : Val) : List Ast → Except Err Val
  | [] => pure result
  | v :: vs => do
      let r ← eval P x v
      if P.truthy r then pure r else evalOr P x r vs
/-- the `for op_node, right_expr in zip(node.ops, node.comparators)` loop -/
def evalCmp (P : Prims) (x : Val) (left : Val) : List CmpOp → List Ast → Except Err Val
  | op :: ops, r :: rs => do
      let right ← eval P x r
      if cmpAllowed op then do
        let c ← P.cmp op left right
        if P.truthy c then evalCmp P x right ops rs else pure (.bool false)
      else throw .invalidExpression
  | _, _ => pure (.bool true)
end

/-- `Expression(src)` then `expr(x)`: construction validates first and never evaluates -/
def construct (e : Ast) : Except Err Ast :=
  if validate e then pure e else throw .invalidExpression

def run (P : Prims) (e : Ast) (x : Val) : Except Err Val := do
  let e ← construct e
  eval P x e

/-! ### Python's reference semantics for the same syntax (language reference §6):
`a and b` evaluates `a`; if it is false its value is returned, otherwise `b` is evaluated and
returned; `a op1 b op2 c` is `a op1 b and b op2 c` with `b` evaluated once; the value of a
comparison chain is the first false comparison result, else the last one. -/
mutual
def pyEval (P : Prims) (x : Val) : Ast → Except Err Val
  | .const c => pure (constVal c)
  | .name _ => pure x
  | .tuple es => do pure (.tup (← pyEvalList P x es))
  | .list es => do pure (.lst (← pyEvalList P x es))
  | .unary op e => do
      let v ← pyEval P x e
      if unopAllowed op then P.unop op v else throw .invalidExpression
  | .bin op l r => do
      let a ← pyEval P x l
      let b ← pyEval P x r
      if binopAllowed op then P.binop op a b else throw .invalidExpression
  | .boolop .and vs => pyAnd P x vs
  | .boolop .or vs => pyOr P x vs
  | .compare l ops rs => do
      let left ← pyEval P x l
      pyCmp P x left ops rs
  | .subscript v sl => do
      let seq ← pyEval P x v
      match sl with
      | .slice lo hi st =>
        let a ← pyEvalOpt P x lo
        let b ← pyEvalOpt P x hi
        let c ← pyEvalOpt P x st
        P.getitem seq (.slice a b c)
      | other =>
        let i ← pyEval P x other
        P.getitem seq i
  | .slice _ _ _ => throw .invalidExpression
  | .forbidden _ _ => throw .invalidExpression
def pyEvalList (P : Prims) (x : Val) : List Ast → Except Err (List Val)
  | [] => pure []
  | e :: es => do
      let v ← pyEval P x e
      let vs ← pyEvalList P x es
      pure (v :: vs)
def pyEvalOpt (P : Prims) (x : Val) : Option Ast → Except Err Val
  | none => pure .none
  | some e => pyEval P x e
def pyAnd (P : Prims) (x : Val) : List Ast → Except Err Val
  | [] => pure (.bool true)
  | [v] => pyEval P x v
  | v :: vs => do
      let r ← pyEval P x v
      if P.truthy r then pyAnd P x vs else pure r
def pyOr (P : Prims) (x : Val) : List Ast → Except Err Val
  | [] => pure (.bool false)
  | [v] => pyEval P x v
  | v :: vs => do
      let r ← pyEval P x v
      if P.truthy r then pure r else pyOr P x vs
def pyCmp (P : Prims) (x : Val) (left : Val) : List CmpOp → List Ast → Except Err Val
  | [op], [r] => do
      let right ← pyEval P x r
      if cmpAllowed op then P.cmp op left right else throw .invalidExpression
  | op :: ops, r :: rs => do
      let right ← pyEval P x r
      if cmpAllowed op then do
        let c ← P.cmp op left right
        if P.truthy c then pyCmp P x right ops rs else pure c
      else throw .invalidExpression
  | _, _ => pure (.bool true)
end

end Pq.Expr
