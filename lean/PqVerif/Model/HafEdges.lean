import PqVerif.Model.Kernel
/-
L4 `HafEdges`: model of the repeated-edge compression of the power-trace hafnian
(piquasso/_math/hafnian/utils.py `match_occupation_numbers`, `get_kept_edges`, and the sign-pattern
bookkeeping of plain_hafnian.py `hafnian_with_reduction`: `kept_edges`, `delta`, `fact`, `combinatorial_factor`,
`size = prod(all_edges + 1) // 2`).  Core Lean only.

`match_occupation_numbers` pairs the vertices (modes) of the repeated graph into edge classes: in each round it
takes a vertex `i` of largest remaining multiplicity `n0` and a vertex `j ≠ i` of second-largest multiplicity `n1`;
if `n0 / 2 > n1` it emits the loop-class `(i, i)` with `n0 / 2` repetitions, otherwise the class `(i, j)` with `n1`
repetitions.  WHICH of several equal maxima is taken depends on `np.argsort` (an unstable sort), so the model is a
relation: `top2 nvec i j` says that `(i, j)` is an admissible choice, `stepEdge` is the deterministic effect of a
choice, and `replay` replays a recorded run of the real function.  `matchOcc` is one executable resolution of the
choice (first maximum, first second-maximum) used for non-vacuity and by the driver.
-/
namespace Pq.HafEdges
open Pq.Kernel

/-- an edge class: `rep` parallel copies of the edge `{a, b}` (`a = b` is a loop-class, i.e. pairs of copies of one vertex) -/
structure Edge where
  rep : Nat
  a : Nat
  b : Nat
deriving Repr, DecidableEq

def get (l : List Nat) (i : Nat) : Nat := l.getD i 0

/-- `(i, j)` is an admissible pick of `sorter[-1], sorter[-2]`: distinct valid positions, `i` holds a maximum and
`j` a maximum of the rest -/
def top2 (nvec : List Nat) (i j : Nat) : Bool :=
  i < nvec.length && j < nvec.length && i != j &&
    (List.range nvec.length).all (fun k => get nvec k ≤ get nvec i && (k == i || get nvec k ≤ get nvec j))

/-- the body of the `while` loop for the pick `(i, j)` -/
def stepEdge (nvec : List Nat) (i j : Nat) : List Nat × Edge :=
  let n0 := get nvec i
  let n1 := get nvec j
  if n0 / 2 > n1 then (nvec.set i (n0 - 2 * (n0 / 2)), ⟨n0 / 2, i, i⟩)
  else ((nvec.set i (n0 - n1)).set j 0, ⟨n1, i, j⟩)

/-- first position holding a maximum of the positions other than `skip` (`skip = length` skips nothing);
`length` when there is no such position -/
def argmaxSkip (nvec : List Nat) (skip : Nat) : Nat :=
  ((List.range nvec.length).filter (· != skip)).foldl
    (fun best k => if best = nvec.length ∨ get nvec best < get nvec k then k else best) nvec.length

/-- replay of a recorded run: every recorded edge must be the effect of an admissible pick on the current vector
(for a recorded loop-class the second pick is not part of the output — any maximum of the rest gives the same
value `n1`), and the loop must stop exactly when `sum nvec ≤ 1`; returns the final vector -/
def second (nvec : List Nat) (e : Edge) : Nat := if e.a = e.b then argmaxSkip nvec e.a else e.b

def replay : List Nat → List Edge → Option (List Nat)
  | nvec, [] => if nvec.sum ≤ 1 then some nvec else none
  | nvec, e :: es =>
    if nvec.sum ≤ 1 then none
    else if top2 nvec e.a (second nvec e) = false then none
    else if (stepEdge nvec e.a (second nvec e)).2 = e then replay (stepEdge nvec e.a (second nvec e)).1 es else none

/-- executable resolution of the choice, with fuel (the theorems show `sum nvec` rounds suffice) -/
def matchOccFuel : Nat → List Nat → List Edge → List Nat × List Edge
  | 0, nvec, acc => (nvec, acc.reverse)
  | fuel + 1, nvec, acc =>
    if nvec.sum ≤ 1 then (nvec, acc.reverse)
    else
      let i := argmaxSkip nvec nvec.length
      let j := argmaxSkip nvec i
      let (nvec', e) := stepEdge nvec i j
      matchOccFuel fuel nvec' (e :: acc)

/-- `match_occupation_numbers` (the single-vertex special case included) -/
def matchOcc (nvec : List Nat) : List Edge :=
  match nvec with
  | [n] => [⟨n / 2, 0, 0⟩]
  | _ => (matchOccFuel nvec.sum nvec []).2

/-- how many copies of vertex `v` the edge classes use -/
def degree (es : List Edge) (v : Nat) : Nat :=
  (es.map (fun e => e.rep * ((if e.a = v then 1 else 0) + (if e.b = v then 1 else 0)))).sum

/-- `get_kept_edges(edge_reps, index)`: mixed-radix digits of `index` in the radices `rep + 1` -/
def keptEdges (reps : List Nat) (index : Nat) : List Nat := chainOf (reps.map (· + 1)) index

/-- `delta[i] = 2 * kept - rep` (as an integer), the compressed Glynn sign pattern -/
def delta (reps kept : List Nat) : List Int := List.zipWith (fun (r k : Nat) => 2 * (k : Int) - (r : Int)) reps kept

/-- `fact`: parity of the number of minus signs -/
def signOdd (reps kept : List Nat) : Bool := (List.zipWith (fun r k => r - k) reps kept).sum % 2 == 1

/-- `combinatorial_factor`: how many sign vectors in `{±1}^(sum reps)` a compressed pattern stands for -/
def weight : List Nat → List Nat → Nat
  | r :: rs, k :: ks => binomialCoeff r k * weight rs ks
  | _, _ => 1

/-- number of compressed patterns `prod(all_edges + 1)`; the code sweeps the first `// 2` of them -/
def patterns : List Nat → Nat
  | [] => 1
  | r :: rs => (r + 1) * patterns rs

end Pq.HafEdges
