import Mathlib.Data.Matrix.Basic
import Mathlib.Data.Matrix.Block
import Mathlib.Algebra.Star.Basic
import Mathlib.LinearAlgebra.Matrix.ConjTranspose

/-
L2 `Gauss`: model of the linear-gate update of the Gaussian simulator
(piquasso/_simulators/gaussian/simulation_steps.py: `_apply_linear`, `_apply_linear_to_C_and_G`,
`_apply_linear_to_auxiliary_modes`, `_apply_passive_linear*`, `displacement`) on the ladder-operator
moments `m`, `C = ⟨a†ᵢ aⱼ⟩ − …`, `G = ⟨aᵢ aⱼ⟩ − …`, over an arbitrary commutative star ring `K`
(ℂ in the theorems, ℚ[i] in the driver).  `modes : Fin k → Fin d` is the instruction's mode tuple
in the order given.
-/
namespace Pq.Gauss
open Matrix

variable {K : Type} [CommRing K] [StarRing K] {d k : Nat}

structure State (K : Type) (d : Nat) where
  m : Fin d → K
  C : Matrix (Fin d) (Fin d) K
  G : Matrix (Fin d) (Fin d) K

/-- entry-wise conjugate (`ndarray.conjugate()`) -/
def conj (M : Matrix (Fin k) (Fin d) K) : Matrix (Fin k) (Fin d) K := M.map star

/-- position of a mode in the instruction's tuple, if it is addressed -/
def pos? (modes : Fin k → Fin d) (i : Fin d) : Option (Fin k) :=
  (List.finRange k).find? (fun a => modes a = i)

/-- `connector.assign(M, get_operator_index(modes), B)`: `M[modes[a], modes[b]] = B[a, b]` -/
def assignBlock (modes : Fin k → Fin d) (M : Matrix (Fin d) (Fin d) K)
    (B : Matrix (Fin k) (Fin k) K) : Matrix (Fin d) (Fin d) K :=
  fun i j => match pos? modes i, pos? modes j with
    | some a, some b => B a b
    | _, _ => M i j

/-- `connector.assign(M, get_auxiliary_operator_index(modes, aux), R)`: rows `modes`, columns
not in `modes` -/
def assignAuxRows (modes : Fin k → Fin d) (M : Matrix (Fin d) (Fin d) K)
    (R : Matrix (Fin k) (Fin d) K) : Matrix (Fin d) (Fin d) K :=
  fun i j => match pos? modes i, pos? modes j with
    | some a, none => R a j
    | _, _ => M i j

/-- `M[np.ix_(arange(d), modes)] = X` where `X[i, b]` is given: all rows, columns `modes` -/
def assignCols (modes : Fin k → Fin d) (M : Matrix (Fin d) (Fin d) K)
    (X : Matrix (Fin d) (Fin k) K) : Matrix (Fin d) (Fin d) K :=
  fun i j => match pos? modes j with
    | some b => X i b
    | none => M i j

/-- rows `modes` of a matrix (`M[modes, :]`) -/
def rowsOf (modes : Fin k → Fin d) (M : Matrix (Fin d) (Fin d) K) : Matrix (Fin k) (Fin d) K :=
  fun a j => M (modes a) j

/-- `M[get_operator_index(modes)]` -/
def blockOf (modes : Fin k → Fin d) (M : Matrix (Fin d) (Fin d) K) : Matrix (Fin k) (Fin k) K :=
  fun a b => M (modes a) (modes b)

/-- `_apply_linear(state, P, A, modes)` exactly in the order of the code -/
def applyLinear (P A : Matrix (Fin k) (Fin k) K) (modes : Fin k → Fin d) (s : State K d) :
    State K d :=
  -- mean: m[modes] = P @ m[modes] + A @ conj(m[modes])
  let mm : Fin k → K := fun a => s.m (modes a)
  let newm : Fin k → K := fun a => (P.mulVec mm) a + (A.mulVec (fun b => star (mm b))) a
  let m' : Fin d → K := fun i => match pos? modes i with
    | some a => newm a
    | none => s.m i
  -- _apply_linear_to_C_and_G
  let C0 := blockOf modes s.C
  let G0 := blockOf modes s.G
  let G1 := assignBlock modes s.G
    (P * G0 * Pᵀ + A * (conj G0)ᵀ * Aᵀ + P * (C0ᵀ + 1) * Aᵀ + A * C0 * Pᵀ)
  let C1 := assignBlock modes s.C
    (conj P * C0 * Pᵀ + conj A * (C0ᵀ + 1) * Aᵀ + conj P * (conj G0)ᵀ * Aᵀ + conj A * G0 * Pᵀ)
  -- _apply_linear_to_auxiliary_modes (reads C1, G1; only the auxiliary columns are written)
  let auxC := rowsOf modes C1
  let auxG := rowsOf modes G1
  let C2 := assignAuxRows modes C1 (conj P * auxC + conj A * auxG)
  let G2 := assignAuxRows modes G1 (P * auxG + A * auxC)
  -- columns `modes` := (conjugate) transpose of rows `modes`
  let C3 := assignCols modes C2 (fun i b => star (C2 (modes b) i))
  let G3 := assignCols modes G2 (fun i b => G2 (modes b) i)
  { m := m', C := C3, G := G3 }

/-- `_apply_passive_linear(state, T, modes)` -/
def applyPassive (T : Matrix (Fin k) (Fin k) K) (modes : Fin k → Fin d) (s : State K d) :
    State K d :=
  let mm : Fin k → K := fun a => s.m (modes a)
  let newm := T.mulVec mm
  let m' : Fin d → K := fun i => match pos? modes i with
    | some a => newm a
    | none => s.m i
  let C0 := blockOf modes s.C
  let G0 := blockOf modes s.G
  let C1 := assignBlock modes s.C (conj T * C0 * Tᵀ)
  let G1 := assignBlock modes s.G (T * G0 * Tᵀ)
  let C2 := assignAuxRows modes C1 (conj T * rowsOf modes C1)
  let G2 := assignAuxRows modes G1 (T * rowsOf modes G1)
  let C3 := assignCols modes C2 (fun i b => star (C2 (modes b) i))
  let G3 := assignCols modes G2 (fun i b => G2 (modes b) i)
  { m := m', C := C3, G := G3 }

/-- `displacement`: `m[modes] += alpha` -/
def displace (alpha : K) (modes : Fin k → Fin d) (s : State K d) : State K d :=
  { s with m := fun i => match pos? modes i with
      | some _ => s.m i + alpha
      | none => s.m i }

/-- embedding of a block on `modes` into the identity on `d` modes (`zero` off the diagonal
for the active block) -/
def embed (one : Bool) (modes : Fin k → Fin d) (B : Matrix (Fin k) (Fin k) K) :
    Matrix (Fin d) (Fin d) K :=
  fun i j => match pos? modes i, pos? modes j with
    | some a, some b => B a b
    | _, _ => if one ∧ i = j then 1 else 0

end Pq.Gauss
