import Mathlib.Data.Matrix.Basic
import Mathlib.Data.Matrix.Block
import Mathlib.Algebra.Field.Basic

/-
L2 `FermiGauss`: the fermionic Gaussian state of piquasso/fermionic/gaussian/state.py, stored as the
correlation blocks `D = Γ^{f†f}`, `E = Γ^{f†f†}` (real and imaginary parts over a field `F`), its Majorana
covariance matrix getter/setter (in the `xxpp` order `Fin d ⊕ Fin d`; the code permutes to `xpxp` with
`xxpp_to_xpxp_indices`, modelled in `GaussRep`), the passive gate of
fermionic/gaussian/simulation_steps.py `passive_linear_gate`, the `SO(2d)` action
`_do_apply_gaussian_hamiltonian`, and number-state preparation `_set_occupation_numbers`.
-/
namespace Pq.FermiGauss
open Matrix

variable {F : Type} [Field F] {d : Nat}

structure FRep (F : Type) (d : Nat) where
  Dr : Matrix (Fin d) (Fin d) F
  Di : Matrix (Fin d) (Fin d) F
  Er : Matrix (Fin d) (Fin d) F
  Ei : Matrix (Fin d) (Fin d) F

/-- `covariance_matrix` getter before the `xpxp` permutation:
`[[Im 2(D+E), -Re 2(D-E) + 1], [Re 2(D+E) - 1, Im 2(D-E)]]` -/
def xxppCov (s : FRep F d) : Matrix (Fin d ⊕ Fin d) (Fin d ⊕ Fin d) F :=
  Matrix.fromBlocks ((2 : F) • (s.Di + s.Ei)) (-((2 : F) • (s.Dr - s.Er)) + 1)
    ((2 : F) • (s.Dr + s.Er) - 1) ((2 : F) • (s.Di - s.Ei))

/-- `covariance_matrix` setter on an `xxpp` matrix -/
def setXxppCov (cov : Matrix (Fin d ⊕ Fin d) (Fin d ⊕ Fin d) F) : FRep F d :=
  let pr := cov.toBlocks₂₁ + 1
  let pi := cov.toBlocks₁₁
  let mr := -cov.toBlocks₁₂ + 1
  let mi := cov.toBlocks₂₂
  { Dr := (4 : F)⁻¹ • pr + (4 : F)⁻¹ • mr, Di := (4 : F)⁻¹ • pi + (4 : F)⁻¹ • mi,
    Er := (4 : F)⁻¹ • pr - (4 : F)⁻¹ • mr, Ei := (4 : F)⁻¹ • pi - (4 : F)⁻¹ • mi }

/-- product of complex matrices given by real and imaginary parts -/
def cmul (A B : Matrix (Fin d) (Fin d) F × Matrix (Fin d) (Fin d) F) :
    Matrix (Fin d) (Fin d) F × Matrix (Fin d) (Fin d) F :=
  (A.1 * B.1 - A.2 * B.2, A.1 * B.2 + A.2 * B.1)

/-- `passive_linear_gate` with the (mode-embedded) unitary `U = X + iY`:
`D ↦ conj(U) D Uᵀ`, `E ↦ conj(U) E U†` -/
def passive (X Y : Matrix (Fin d) (Fin d) F) (s : FRep F d) : FRep F d :=
  let D' := cmul (cmul (X, -Y) (s.Dr, s.Di)) (Xᵀ, Yᵀ)
  let E' := cmul (cmul (X, -Y) (s.Er, s.Ei)) (Xᵀ, -Yᵀ)
  { Dr := D'.1, Di := D'.2, Er := E'.1, Ei := E'.2 }

/-- the orthogonal matrix on Majorana operators that corresponds to `U = X + iY` -/
def passiveO (X Y : Matrix (Fin d) (Fin d) F) : Matrix (Fin d ⊕ Fin d) (Fin d ⊕ Fin d) F :=
  Matrix.fromBlocks X (-Y) Y X

/-- `_do_apply_gaussian_hamiltonian`: `Γ ↦ SO Γ SOᵀ` through getter and setter -/
def applySO (O : Matrix (Fin d ⊕ Fin d) (Fin d ⊕ Fin d) F) (s : FRep F d) : FRep F d :=
  setXxppCov (O * xxppCov s * Oᵀ)

/-- `_set_occupation_numbers`: `Γ = [[0, P], [-P, 0]]`, `P = diag(1 - 2 n)` -/
def occCov (n : Fin d → F) : Matrix (Fin d ⊕ Fin d) (Fin d ⊕ Fin d) F :=
  Matrix.fromBlocks 0 (Matrix.diagonal fun i => 1 - 2 * n i) (-(Matrix.diagonal fun i => 1 - 2 * n i)) 0

def occState (n : Fin d → F) : FRep F d := setXxppCov (occCov n)

/-- `reduced(modes)` -/
def reduced {k : Nat} (modes : Fin k → Fin d) (s : FRep F d) : FRep F k :=
  { Dr := s.Dr.submatrix modes modes, Di := s.Di.submatrix modes modes,
    Er := s.Er.submatrix modes modes, Ei := s.Ei.submatrix modes modes }

/-- `mean_particle_numbers` -/
def meanNumber (s : FRep F d) (i : Fin d) : F := s.Dr i i

end Pq.FermiGauss
