import PqVerif.Model.Expr
/-
Concrete Python semantics of the operators `_eval` dispatches to, on the value universe
int / bool / float / tuple / list / None / slice.  Anything whose exact IEEE/C-library result
is not reproduced here (float `%`, `**`, huge-int true division, int/float mixed exact
comparison beyond 2^53) returns `Err.unmodelled`; the harness skips and counts those.
-/
namespace Pq.Expr

def two53 : Int := 9007199254740992

/-- numeric view: bools are ints -/
inductive Num | i (v : Int) | f (v : Float)

def toNum : Val → Option Num
  | .int i => some (.i i)
  | .bool b => some (.i (if b then 1 else 0))
  | .flt f => some (.f f)
  | _ => none

def intToFloat (i : Int) : Except Err Float :=
  if i.natAbs < two53.natAbs then
    pure (if i < 0 then -(Float.ofNat i.natAbs) else Float.ofNat i.natAbs)
  else throw .unmodelled

def isInt : Val → Option Int
  | .int i => some i
  | .bool b => some (if b then 1 else 0)
  | _ => none

def pyTruthy : Val → Bool
  | .int i => i != 0
  | .bool b => b
  | .flt f => f != 0.0
  | .tup l => !l.isEmpty
  | .lst l => !l.isEmpty
  | .none => false
  | .slice _ _ _ => true
  | .other _ => true

def repeatList (l : List Val) (n : Int) : List Val :=
  if n ≤ 0 then [] else (List.replicate n.toNat l).flatten

def arith (fi : Int → Int → Except Err Val) (ff : Float → Float → Except Err Val)
    (a b : Val) : Except Err Val :=
  match toNum a, toNum b with
  | some (.i x), some (.i y) => fi x y
  | some (.i x), some (.f y) => do ff (← intToFloat x) y
  | some (.f x), some (.i y) => do ff x (← intToFloat y)
  | some (.f x), some (.f y) => ff x y
  | _, _ => throw .typeError

/-- two's-complement xor on unbounded ints (`negSucc n = ~n`) -/
def intXor : Int → Int → Int
  | .ofNat m, .ofNat n => .ofNat (m ^^^ n)
  | .ofNat m, .negSucc n => .negSucc (m ^^^ n)
  | .negSucc m, .ofNat n => .negSucc (m ^^^ n)
  | .negSucc m, .negSucc n => .ofNat (m ^^^ n)

def pyBinop : BinOp → Val → Val → Except Err Val
  | .add, .tup a, .tup b => pure (.tup (a ++ b))
  | .add, .lst a, .lst b => pure (.lst (a ++ b))
  | .add, a, b => arith (fun x y => pure (.int (x + y))) (fun x y => pure (.flt (x + y))) a b
  | .sub, a, b => arith (fun x y => pure (.int (x - y))) (fun x y => pure (.flt (x - y))) a b
  | .mult, .tup a, b => match isInt b with
      | some n => if n > 64 then throw .unmodelled else pure (.tup (repeatList a n))
      | none => throw .typeError
  | .mult, .lst a, b => match isInt b with
      | some n => if n > 64 then throw .unmodelled else pure (.lst (repeatList a n))
      | none => throw .typeError
  | .mult, a, .tup b => match isInt a with
      | some n => if n > 64 then throw .unmodelled else pure (.tup (repeatList b n))
      | none => throw .typeError
  | .mult, a, .lst b => match isInt a with
      | some n => if n > 64 then throw .unmodelled else pure (.lst (repeatList b n))
      | none => throw .typeError
  | .mult, a, b => arith (fun x y => pure (.int (x * y))) (fun x y => pure (.flt (x * y))) a b
  | .div, a, b =>
      arith
        (fun x y => if y == 0 then throw .zeroDivision else do
            pure (.flt ((← intToFloat x) / (← intToFloat y))))
        (fun x y => if y == 0.0 then throw .zeroDivision else pure (.flt (x / y))) a b
  | .mod, a, b =>
      arith (fun x y => if y == 0 then throw .zeroDivision else pure (.int (Int.fmod x y)))
        (fun _ y => if y == 0.0 then throw .zeroDivision else throw .unmodelled) a b
  | .pow, a, b =>
      arith
        (fun x y =>
          if y < 0 then (if x == 0 then throw .zeroDivision else throw .unmodelled)
          else if y > 64 then throw .unmodelled
          else pure (.int (x ^ y.toNat)))
        (fun _ _ => throw .unmodelled) a b
  | .bitxor, .bool a, .bool b => pure (.bool (a != b))
  | .bitxor, a, b => match isInt a, isInt b with
      | some x, some y => pure (.int (intXor x y))
      | _, _ => throw .typeError
  | .other _, _, _ => throw .invalidExpression

def pyUnop : UnOp → Val → Except Err Val
  | .not, v => pure (.bool (!pyTruthy v))
  | .uadd, v => match toNum v with
      | some (.i x) => pure (.int x)
      | some (.f x) => pure (.flt x)
      | none => throw .typeError
  | .usub, v => match toNum v with
      | some (.i x) => pure (.int (-x))
      | some (.f x) => pure (.flt (-x))
      | none => throw .typeError
  | .other _, _ => throw .invalidExpression

/-- three-way numeric comparison: `none` = unordered (NaN) -/
def numCmp (a b : Num) : Except Err (Option Ordering) :=
  let ff (x y : Float) : Option Ordering :=
    if x < y then some .lt else if x > y then some .gt else if x == y then some .eq else none
  match a, b with
  | .i x, .i y => pure (some (compare x y))
  | .f x, .f y => pure (ff x y)
  | .i x, .f y => do pure (ff (← intToFloat x) y)
  | .f x, .i y => do pure (ff x (← intToFloat y))

mutual
/-- Python `==` -/
def pyEq : Val → Val → Except Err Bool
  | .tup a, .tup b => pyEqList a b
  | .lst a, .lst b => pyEqList a b
  | .none, .none => pure true
  | a, b => match toNum a, toNum b with
      | some x, some y => do pure ((← numCmp x y) == some .eq)
      | _, _ => pure false
def pyEqList : List Val → List Val → Except Err Bool
  | [], [] => pure true
  | a :: as, b :: bs => do
      if (← pyEq a b) then pyEqList as bs else pure false
  | _, _ => pure false
end

mutual
/-- Python `<` / `<=`/`>`/`>=` as an ordering; sequences compare lexicographically after
finding the first pair that is not `==` -/
def pyOrd (op : CmpOp) : Val → Val → Except Err Bool
  | .tup a, .tup b => pyOrdList op a b
  | .lst a, .lst b => pyOrdList op a b
  | a, b => match toNum a, toNum b with
      | some x, some y => do
          let o ← numCmp x y
          pure (match op, o with
            | .lt, some .lt => true
            | .le, some .lt => true
            | .le, some .eq => true
            | .gt, some .gt => true
            | .ge, some .gt => true
            | .ge, some .eq => true
            | _, _ => false)
      | _, _ => throw .typeError
def pyOrdList (op : CmpOp) : List Val → List Val → Except Err Bool
  | a :: as, b :: bs => do
      if (← pyEq a b) then pyOrdList op as bs else pyOrd op a b
  | [], [] => pure (match op with | .le => true | .ge => true | _ => false)
  | [], _ :: _ => pure (match op with | .lt => true | .le => true | _ => false)
  | _ :: _, [] => pure (match op with | .gt => true | .ge => true | _ => false)
end

def pyCmpOp : CmpOp → Val → Val → Except Err Val
  | .eq, a, b => do pure (.bool (← pyEq a b))
  | .ne, a, b => do pure (.bool (!(← pyEq a b)))
  | .other _, _, _ => throw .invalidExpression
  | op, a, b => do pure (.bool (← pyOrd op a b))

def sliceIdx : Val → Except Err (Option Int)
  | .none => pure none
  | v => match isInt v with
      | some i => pure (some i)
      | none => throw .typeError

/-- CPython `PySlice_AdjustIndices` + iteration -/
def pySlice (l : List Val) (a b c : Val) : Except Err (List Val) := do
  let n : Int := l.length
  let step := (← sliceIdx c).getD 1
  if step == 0 then throw .valueError
  let clamp (v : Option Int) (dflt : Int) : Int :=
    match v with
    | none => dflt
    | some i =>
      if i < 0 then
        let j := i + n
        if j < 0 then (if step < 0 then -1 else 0) else j
      else if i ≥ n then (if step < 0 then n - 1 else n) else i
  let start := clamp (← sliceIdx a) (if step < 0 then n - 1 else 0)
  let stop := clamp (← sliceIdx b) (if step < 0 then -1 else n)
  let len : Int :=
    if step < 0 then (if stop < start then (start - stop - 1) / (-step) + 1 else 0)
    else (if start < stop then (stop - start - 1) / step + 1 else 0)
  pure ((List.range len.toNat).map (fun (k : Nat) => l.getD (start + (k : Int) * step).toNat .none))

def pyGetitem : Val → Val → Except Err Val
  | seq, idx =>
    let go (l : List Val) (wrap : List Val → Val) : Except Err Val :=
      match idx with
      | .slice a b c => do pure (wrap (← pySlice l a b c))
      | _ => match isInt idx with
        | some i =>
          let n : Int := l.length
          let j := if i < 0 then i + n else i
          if j < 0 ∨ j ≥ n then throw .indexError else pure (l.getD j.toNat .none)
        | none => throw .typeError
    match seq with
    | .tup l => go l .tup
    | .lst l => go l .lst
    | _ => throw .typeError

def pyPrims : Prims :=
  { binop := pyBinop, unop := pyUnop, cmp := pyCmpOp, truthy := pyTruthy, getitem := pyGetitem }

end Pq.Expr
