import Mathlib.Analysis.SpecialFunctions.Trigonometric.Basic
import Mathlib.Analysis.SpecialFunctions.Complex.Circle
import Mathlib.LinearAlgebra.Matrix.Notation
import Mathlib.LinearAlgebra.UnitaryGroup
import PqVerif.Model.ClementsSched

/-
L2 `ClementsMat`: matrix meaning of piquasso/decompositions/clements.py: the `BS(θ, φ)` block
`[[e^{iφ} cos θ, -sin θ], [e^{iφ} sin θ, cos θ]]`, its embedding on adjacent modes, row / column mixing steps of
the elimination, `inverse_clements`, and the angle bookkeeping of `_commute` (angles in units of π).
-/
namespace Pq.ClementsMat
open Matrix Pq.ClementsSched

/-- `BS(θ, φ)` of clements.py -/
noncomputable def bsMat (theta phi : ℝ) : Matrix (Fin 2) (Fin 2) ℂ :=
  !![Complex.exp (Complex.I * phi) * Real.cos theta, -(Real.sin theta : ℂ);
     Complex.exp (Complex.I * phi) * Real.sin theta, (Real.cos theta : ℂ)]

/-- embedding of a 2×2 block on modes `m0, m0+1` (`_get_embedded_beamsplitter_matrix`) -/
def emb {d : Nat} (m0 : Nat) (G : Matrix (Fin 2) (Fin 2) ℂ) : Matrix (Fin d) (Fin d) ℂ := fun a b =>
  if a.val = m0 ∧ b.val = m0 then G 0 0
  else if a.val = m0 ∧ b.val = m0 + 1 then G 0 1
  else if a.val = m0 + 1 ∧ b.val = m0 then G 1 0
  else if a.val = m0 + 1 ∧ b.val = m0 + 1 then G 1 1
  else if a = b then 1 else 0

/-- one elimination step with an arbitrary 2×2 mixing matrix: `U ↦ emb G * U` (row step) or
`U ↦ U * emb G` (column step; the code uses `G = BS†`) -/
def applyStep {d : Nat} (s : Step) (G : Matrix (Fin 2) (Fin 2) ℂ) (U : Matrix (Fin d) (Fin d) ℂ) :
    Matrix (Fin d) (Fin d) ℂ :=
  match s.side with
  | .row => emb s.m0 G * U
  | .col => U * emb s.m0 G

def runSteps {d : Nat} : List Step → List (Matrix (Fin 2) (Fin 2) ℂ) → Matrix (Fin d) (Fin d) ℂ → Matrix (Fin d) (Fin d) ℂ
  | s :: ss, G :: Gs, U => runSteps ss Gs (applyStep s G U)
  | _, _, U => U

/-- entry with natural-number indices (0 outside the matrix) -/
def entry {d : Nat} (U : Matrix (Fin d) (Fin d) ℂ) (i j : Nat) : ℂ :=
  if h : i < d ∧ j < d then U ⟨i, h.1⟩ ⟨j, h.2⟩ else 0

/-! real-angle versions of the `_commute` bookkeeping (angles in units of π); the executable model
`ClementsSched.commute` over `Rat` is the restriction to rational multiples of π (`commute_cast`) -/

structure BSr where
  m0 : Nat
  theta : ℝ
  phi : ℝ

noncomputable def mod2R (x : ℝ) : ℝ := x - 2 * (⌊x / 2⌋ : ℝ)

noncomputable def commuteAnglesR (theta phi phi1 phi2 : ℝ) : ℝ × ℝ × ℝ × ℝ :=
  (theta, mod2R (phi1 - phi2 + 1), mod2R (phi2 - phi + 1), phi2)

noncomputable def commuteR (phases : List ℝ) (bss : List BSr) : List BSr × List ℝ :=
  bss.foldl (fun (acc : List BSr × List ℝ) bs =>
    let ph := acc.2
    let r := commuteAnglesR bs.theta bs.phi (ph.getD bs.m0 0) (ph.getD (bs.m0 + 1) 0)
    (acc.1 ++ [⟨bs.m0, r.1, r.2.1⟩], (ph.set bs.m0 r.2.2.1).set (bs.m0 + 1) r.2.2.2)) ([], phases)

def BSq.toR (b : BSq) : BSr := ⟨b.m0, (b.theta : ℝ), (b.phi : ℝ)⟩

/-- phases `e^{iπ x}` on the diagonal -/
noncomputable def phaseDiag {d : Nat} (ph : List ℝ) : Matrix (Fin d) (Fin d) ℂ :=
  Matrix.diagonal (fun i => Complex.exp (Complex.I * (Real.pi * ph.getD i.val 0)))

noncomputable def bsOf {d : Nat} (b : BSr) : Matrix (Fin d) (Fin d) ℂ :=
  emb b.m0 (bsMat (Real.pi * b.theta) (Real.pi * b.phi))

/-- `inverse_clements`: beamsplitters in list order (later ones multiply from the left), then the phases -/
noncomputable def inverseClements {d : Nat} (bss : List BSr) (ph : List ℝ) : Matrix (Fin d) (Fin d) ℂ :=
  phaseDiag ph * bss.foldl (fun acc b => bsOf b * acc) 1

end Pq.ClementsMat
