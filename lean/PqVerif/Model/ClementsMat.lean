import Mathlib.Analysis.SpecialFunctions.Trigonometric.Basic
import Mathlib.Analysis.SpecialFunctions.Complex.Circle
import Mathlib.LinearAlgebra.Matrix.Notation
import Mathlib.LinearAlgebra.UnitaryGroup
import PqVerif.Model.ClementsSched

/-
L2 `ClementsMat`: matrix meaning of piquasso/decompositions/clements.py: the `BS(θ, φ)` block
`[[e^{iφ} cos θ, -sin θ], [e^{iφ} sin θ, cos θ]]`, its embedding on adjacent modes, row / column mixing steps of
the elimination, `inverse_clements`, and the angle bookkeeping of `_commute` (angles in units of π).
-/
namespace Pq.ClementsMat
open Matrix Pq.ClementsSched

/-- `BS(θ, φ)` of clements.py -/
noncomputable def bsMat (theta phi : ℝ) : Matrix (Fin 2) (Fin 2) ℂ :=
  !![Complex.exp (Complex.I * phi) * Real.cos theta, -(Real.sin theta : ℂ);
     Complex.exp (Complex.I * phi) * Real.sin theta, (Real.cos theta : ℂ)]

/-- embedding of a 2×2 block on modes `m0, m0+1` (`_get_embedded_beamsplitter_matrix`) -/
def emb {d : Nat} (m0 : Nat) (G : Matrix (Fin 2) (Fin 2) ℂ) : Matrix (Fin d) (Fin d) ℂ := fun a b =>
  if a.val = m0 ∧ b.val = m0 then G 0 0
  else if a.val = m0 ∧ b.val = m0 + 1 then G 0 1
  else if a.val = m0 + 1 ∧ b.val = m0 then G 1 0
  else if a.val = m0 + 1 ∧ b.val = m0 + 1 then G 1 1
  else if a = b then 1 else 0

/-- one elimination step with an arbitrary 2×2 mixing matrix: `U ↦ emb G * U` (row step) or
`U ↦ U * emb G` (column step; the code uses `G = BS†`) -/
def applyStep {d : Nat} (s : Step) (G : Matrix (Fin 2) (Fin 2) ℂ) (U : Matrix (Fin d) (Fin d) ℂ) :
    Matrix (Fin d) (Fin d) ℂ :=
  match s.side with
  | .row => emb s.m0 G * U
  | .col => U * emb s.m0 G

def runSteps {d : Nat} : List Step → List (Matrix (Fin 2) (Fin 2) ℂ) → Matrix (Fin d) (Fin d) ℂ → Matrix (Fin d) (Fin d) ℂ
  | s :: ss, G :: Gs, U => runSteps ss Gs (applyStep s G U)
  | _, _, U => U

/-- entry with natural-number indices (0 outside the matrix) -/
def entry {d : Nat} (U : Matrix (Fin d) (Fin d) ℂ) (i j : Nat) : ℂ :=
  if h : i < d ∧ j < d then U ⟨i, h.1⟩ ⟨j, h.2⟩ else 0

/-- phases `e^{iπ q}` on the diagonal -/
noncomputable def phaseDiag {d : Nat} (ph : List Rat) : Matrix (Fin d) (Fin d) ℂ :=
  Matrix.diagonal (fun i => Complex.exp (Complex.I * (Real.pi * ((ph.getD i.val 0 : Rat) : ℝ))))

noncomputable def bsOf {d : Nat} (b : BSq) : Matrix (Fin d) (Fin d) ℂ :=
  emb b.m0 (bsMat (Real.pi * (b.theta : ℝ)) (Real.pi * (b.phi : ℝ)))

/-- `inverse_clements`: beamsplitters in list order (later ones multiply from the left), then the phases -/
noncomputable def inverseClements {d : Nat} (bss : List BSq) (ph : List Rat) : Matrix (Fin d) (Fin d) ℂ :=
  phaseDiag ph * bss.foldl (fun acc b => bsOf b * acc) 1

end Pq.ClementsMat
