/-
L3 `Program`: models of program construction (piquasso/api/program.py `_map_modes`,
`_apply_to_program_on_register`; core/_blackbird.py export / import at the operation-dict level;
instructions/preparations.py `NumberState.__add__`, `FockStateVector.__add__`,
core/_mixins.py `WeightMixin.__mul__ / __truediv__`).  Core Lean only; scalars are an arbitrary
type with `+ * /` (instantiated with `Rat` by the driver, with any field in the theorems).
-/
namespace Pq.Program

/-! ### registers -/

/-- `Program._map_modes(register, instruction)` -/
def mapModes (register : List Nat) (modes : List Nat) : List Nat :=
  if register.isEmpty then modes
  else if modes.isEmpty then register
  else modes.map (fun m => register.getD m 0)

/-- an instruction as far as registration is concerned: an opaque payload and its modes -/
structure RInstr (α : Type) where
  payload : α
  modes : List Nat
  deriving Repr, DecidableEq

/-- `Q(register) | program` inside another program: every instruction is copied and appended
with its modes mapped through the register; the inner program is not touched -/
def register {α} (reg : List Nat) (inner : List (RInstr α)) (outer : List (RInstr α)) :
    List (RInstr α) :=
  outer ++ inner.map (fun i => { i with modes := mapModes reg i.modes })

/-! ### Blackbird operation dicts -/

structure BBOp (β : Type) where
  op : String
  args : List β
  modes : List Nat
  deriving Repr, DecidableEq

/-- per exportable class: Piquasso name, Blackbird name, constructor parameter names with
defaults (from `inspect.signature`), and the key order of `instruction.params` -/
structure ClsInfo (β : Type) where
  pq : String
  bb : String
  sig : List (String × β)
  paramKeys : List String

structure BInstr (β : Type) where
  cls : String
  params : List (String × β)
  modes : List Nat
  deriving Repr, DecidableEq

def findPq {β} (tbl : List (ClsInfo β)) (name : String) : Option (ClsInfo β) :=
  tbl.find? (fun c => c.pq == name)
def findBb {β} (tbl : List (ClsInfo β)) (name : String) : Option (ClsInfo β) :=
  tbl.find? (fun c => c.bb == name)

/-- `_piquasso_instruction_to_blackbird_operation` -/
def toBB {β} (tbl : List (ClsInfo β)) (i : BInstr β) : Option (BBOp β) :=
  (findPq tbl i.cls).map (fun c => { op := c.bb, args := i.params.map (·.2), modes := i.modes })

/-- `zip(instruction_params.keys(), bb_params)` overriding the defaults positionally -/
def fillParams {β} : List (String × β) → List β → List (String × β)
  | [], _ => []
  | (n, d) :: rest, [] => (n, d) :: fillParams rest []
  | (n, _) :: rest, a :: as => (n, a) :: fillParams rest as

/-- `_blackbird_operation_to_instruction` -/
def fromBB {β} (tbl : List (ClsInfo β)) (o : BBOp β) : Option (BInstr β) :=
  (findBb tbl o.op).map (fun c => { cls := c.pq, params := fillParams c.sig o.args, modes := o.modes })

/-- `blackbird_program._modes` -/
def bbModes {β} (is : List (BInstr β)) : Nat :=
  match (is.flatMap (·.modes)).max? with
  | some m => m + 1
  | none => 0

/-! ### preparation algebra -/

abbrev Occ := List Nat

/-- a Python dict with occupation-number keys, in insertion order -/
abbrev AMap (K : Type) := List (Occ × K)

def AMap.get? {K} (m : AMap K) (k : Occ) : Option K := (m.find? (fun p => p.1 == k)).map (·.2)

/-- `d[k] = v` (update in place or append) -/
def AMap.set {K} : AMap K → Occ → K → AMap K
  | [], k, v => [(k, v)]
  | (k', v') :: rest, k, v => if k' == k then (k', v) :: rest else (k', v') :: AMap.set rest k v

/-- `{**m, k: v}` is `set`; `{k: v, **m}` puts `k` first and lets `m` override it -/
def AMap.prepend {K} (k : Occ) (v : K) (m : AMap K) : AMap K :=
  match m.get? k with
  | some v' => (k, v') :: m.filter (fun p => !(p.1 == k))
  | none => (k, v) :: m

inductive Prep (K : Type)
  | number (occ : Occ) (coeff : K)
  | vector (m : AMap K) (coeff : K)

variable {K : Type} [Add K] [Mul K] [Div K] [OfNat K 1]

def scaleMap (m : AMap K) (c : K) : AMap K := m.map (fun (k, v) => (k, v * c))

/-- `__add__` of `NumberState` / `FockStateVector`, all four operand-type combinations -/
def Prep.add : Prep K → Prep K → Prep K
  | .number o1 c1, .number o2 c2 =>
      if o1 == o2 then .number o1 (c1 + c2) else .vector [(o1, c1), (o2, c2)] 1
  | .number o c, .vector m cm =>
      let m' := scaleMap m cm
      match m'.get? o with
      | some v => .vector (m'.set o (c + v)) 1
      | none => .vector (AMap.prepend o c m') 1
  | .vector m cm, .number o c =>
      let m' := scaleMap m cm
      match m.get? o with
      | some _ => .vector (m'.set o ((m'.get? o).getD c + c)) 1
      | none => .vector (m'.set o c) 1
  | .vector m1 c1, .vector m2 c2 =>
      .vector (m2.foldl (fun acc (k, v) =>
        let v' := v * c2
        match acc.get? k with
        | some a => acc.set k (a + v')
        | none => acc.set k v') (scaleMap m1 c1)) 1

/-- `WeightMixin.__mul__`: `params["coefficient"] *= c` -/
def Prep.smul (c : K) : Prep K → Prep K
  | .number o x => .number o (x * c)
  | .vector m x => .vector m (x * c)

/-- `WeightMixin.__truediv__`: `__mul__(1 / c)` -/
def Prep.sdiv (p : Prep K) (c : K) : Prep K := p.smul (1 / c)

/-- the amplitude the prepared (unnormalised) superposition gives to an occupation vector -/
def Prep.amp [OfNat K 0] : Prep K → Occ → K
  | .number o c, k => if o == k then c else 0
  | .vector m c, k => match m.get? k with
      | some v => v * c
      | none => 0

end Pq.Program
