import Mathlib.Data.Matrix.Basic
import Mathlib.Data.Matrix.Block
import Mathlib.LinearAlgebra.Matrix.ConjTranspose
import Mathlib.GroupTheory.Perm.Basic
import Mathlib.Data.Fintype.Perm
import Mathlib.Algebra.Star.BigOperators
import Mathlib.Algebra.BigOperators.Group.Finset.Basic

/-
L1/L4 `PassiveProb`: specification-level formulas behind the probability interfaces of PassiveState
(piquasso/_simulators/passive/probabilities.py, sampling.py):
* the lossy sampler's expanded matrix `_prepare_interferometer_matrix_in_expanded_space`
  `diag(V, 1) · [[Σ, C],[C, Σ]] · diag(U, 1)`, `C = sqrt(1 - Σ²)`;
* the detection probability of partially distinguishable photons with Gram matrix `G`
  (`G[a, b] = ⟨φ_a|φ_b⟩`): the double sum over permutations that the coefficient-extraction formula of
  `get_lossy_partially_distinguishable_detection_probabilities` evaluates.
-/
namespace Pq.PassiveProb
open Matrix BigOperators

variable {K : Type} [CommRing K] [StarRing K] {d n : Nat}

/-- the first `d` columns (the physical input modes) of the expanded matrix, as a `(d ⊕ d) × d` matrix:
`[[V Σ U], [C U]]` with `Σ = diagonal s`, `C = diagonal c` -/
def expandedLeft (V U : Matrix (Fin d) (Fin d) K) (s c : Fin d → K) :
    Matrix (Fin d ⊕ Fin d) (Fin d) K :=
  Matrix.fromBlocks (V * Matrix.diagonal s * U) (0 : Matrix (Fin d) (Fin 0) K)
      (Matrix.diagonal c * U) (0 : Matrix (Fin d) (Fin 0) K) |>.submatrix id Sum.inl

/-- unnormalised probability that photons `0 … n-1`, photon `k` entering with single-photon amplitudes
`M j k` towards the detected output slot `j`, with internal-state Gram matrix `G`, are detected in the
slots `0 … n-1`: `Σ_{σ, ρ} Π_j M j (σ j) · conj (M j (ρ j)) · G (ρ j) (σ j)` -/
def gramProb (M G : Matrix (Fin n) (Fin n) K) : K :=
  ∑ σ : Equiv.Perm (Fin n), ∑ ρ : Equiv.Perm (Fin n),
    ∏ j, M j (σ j) * star (M j (ρ j)) * G (ρ j) (σ j)

end Pq.PassiveProb
