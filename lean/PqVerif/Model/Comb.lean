/-
L0 `Comb`: executable models of piquasso/_math/combinatorics.py, _math/indices.py,
_math/fock.py (basis/dimension part) and fermionic/_utils.py (basis/index part).
Core Lean only (no Mathlib) so that the driver loads fast.  Every definition follows the
control flow of the Python function named in its docstring; the specification-style
definitions (`parts`, `index`, …) live in `Lemmas/Comb*.lean` next to the proofs that
the two agree.
-/
namespace Pq.Comb

/-- body of the `for i in range(k): prod *= n - i; prod //= i + 1` loop -/
def combLoop (n k : Nat) : Nat :=
  (List.range k).foldl (fun prod i => prod * (n - i) / (i + 1)) 1

/-- `combinatorics.comb(n, k)` for non-negative arguments (`k = min(k, n-k)` first). -/
def comb (n k : Nat) : Nat :=
  if n < k then 0 else combLoop n (min k (n - k))

/-- `combinatorics.comb` with Python ints: negative arguments give 0. -/
def combInt (n k : Int) : Nat :=
  if n < 0 ∨ k < 0 ∨ n < k then 0 else comb n.toNat k.toNat

/-- `combinatorics.arr_comb` element-wise (`n := 0` when `n < k`, no symmetry step). -/
def arrComb (n k : Nat) : Nat :=
  combLoop (if n < k then 0 else n) k

/-- `fock.cutoff_fock_space_dim(cutoff, d) = comb(d + cutoff - 1, d)`; Python ints, so
`cutoff = 0` gives `comb(d-1, d) = 0`. -/
def cutoffDim (cutoff d : Nat) : Nat :=
  combInt ((d : Int) + cutoff - 1) d

/-- `fock.symmetric_subspace_cardinality(d, n) = comb(d + n - 1, n)` -/
def subspaceCard (d n : Nat) : Nat :=
  combInt ((d : Int) + n - 1) n

/-- loop state of `get_index_in_fock_space`: `(i, sum_, accumulator)` -/
def indexStep (st : Nat × Nat × Nat) (x : Nat) : Nat × Nat × Nat :=
  let s' := st.2.1 + x
  (st.1 + 1, s', st.2.2 + comb (s' + st.1) (st.1 + 1))

/-- `indices.get_index_in_fock_space(element)`: walks the element from the right. -/
def indexInFockSpace (v : List Nat) : Nat :=
  (v.reverse.foldl indexStep (0, 0, 0)).2.2

/-- `indices.get_index_in_fock_subspace(element)`: same loop over `len - 1` entries. -/
def indexInFockSubspace (v : List Nat) : Nat :=
  ((v.reverse.take (v.length - 1)).foldl indexStep (0, 0, 0)).2.2

def indexStepArr (st : Nat × Nat × Nat) (x : Nat) : Nat × Nat × Nat :=
  let s' := st.2.1 + x
  (st.1 + 1, s', st.2.2 + arrComb (s' + st.1) (st.1 + 1))

/-- `indices.get_index_in_fock_space_array` on one row, before the int32 store. -/
def indexInFockSpaceArr (v : List Nat) : Nat :=
  (v.reverse.foldl indexStepArr (0, 0, 0)).2.2

def indexInFockSubspaceArr (v : List Nat) : Nat :=
  ((v.reverse.take (v.length - 1)).foldl indexStepArr (0, 0, 0)).2.2

/-- two's-complement wrap of an `int32` store -/
def wrap32 (n : Nat) : Int :=
  let m := n % 4294967296
  if m < 2147483648 then (m : Int) else (m : Int) - 4294967296

/-! ### `combinatorics.partitions`: the separator-successor loop -/

/-- row written for the current separators: `result[index, i] = separators[i] - prev - 1`,
last entry `positions - prev - 1`.  `p` stands for `prev + 1`. -/
def rowOfSeps (positions : Nat) : Nat → List Nat → List Nat
  | p, [] => [positions - p]
  | p, s :: rest => (s - p) :: rowOfSeps positions (s + 1) rest

/-- `i = boxes - 2; while separators[i] == positions - (boxes - 1 - i): i -= 1`,
returning `none` when the scan would run past the front (Python would wrap to index −1;
the loop has already exited through `index < 0` in that situation). -/
def scanSep (positions boxes : Nat) (seps : List Nat) : Nat → Option Nat
  | 0 => if seps.getD 0 0 == positions - (boxes - 1) then none else some 0
  | i + 1 =>
    if seps.getD (i + 1) 0 == positions - (boxes - 1 - (i + 1)) then
      scanSep positions boxes seps i
    else some (i + 1)

/-- `separators[i] += 1; for j in range(i+1, boxes-1): separators[j] = separators[j-1] + 1` -/
def bumpSeps (seps : List Nat) (i : Nat) : List Nat :=
  let v := seps.getD i 0 + 1
  seps.take i ++ (List.range (seps.length - i)).map (fun t => v + t)

def nextSeps (positions boxes : Nat) (seps : List Nat) : List Nat :=
  match scanSep positions boxes seps (boxes - 2) with
  | none => seps
  | some i => bumpSeps seps i

/-- rows in the order the loop produces them (index size-1, size-2, …, 0) -/
def partitionsGen (positions boxes : Nat) : Nat → List Nat → List (List Nat)
  | 0, _ => []
  | fuel + 1, seps =>
    rowOfSeps positions 0 seps :: partitionsGen positions boxes fuel (nextSeps positions boxes seps)

/-- `combinatorics.partitions(boxes, particles)` as the list of rows of the result. -/
def partitions (boxes particles : Nat) : List (List Nat) :=
  if boxes = 0 then [[]]
  else
    let positions := particles + boxes - 1
    let size := comb positions (boxes - 1)
    (partitionsGen positions boxes size (List.range (boxes - 1))).reverse

/-- `fock.nb_get_fock_space_basis(d, cutoff)`: sector `n` occupies
`symmetric_subspace_cardinality(d, n)` rows filled by `partitions`.  (For `d = 0` the
code writes a `(1,0)` block into a `(size,0)` array; rows are empty lists.) -/
def fockBasis (d cutoff : Nat) : List (List Nat) :=
  (List.range cutoff).flatMap (fun n => (partitions d n).take (subspaceCard d n))

/-! ### fermionic/_utils.py -/

/-- `_to_first_quantized`: positions of the entries equal to 1 -/
def toFirst (occ : List Nat) : List Nat :=
  (List.range occ.length).filter (fun i => occ.getD i 0 == 1)

/-- `_to_second_quantized(first_quantized, d)` -/
def toSecond (fq : List Nat) (d : Nat) : List Nat :=
  (List.range d).map (fun i => if fq.contains i then 1 else 0)

/-- the `for i in range(l)` scan of `next_first_quantized`: first `i` with
`fq[l-i-1] < d-i-1` -/
def nfqScan (fq : List Nat) (d : Nat) : Nat → Nat → Option Nat
  | 0, _ => none
  | fuel + 1, i =>
    let l := fq.length
    if fq.getD (l - i - 1) 0 + i + 1 < d then some i else nfqScan fq d fuel (i + 1)

/-- `next_first_quantized(first_quantized, d)` -/
def nextFirst (fq : List Nat) (d : Nat) : List Nat :=
  let l := fq.length
  match nfqScan fq d l 0 with
  | some i =>
    let pos := l - i - 1
    let v := fq.getD pos 0 + 1
    fq.take pos ++ (List.range (i + 1)).map (fun t => v + t)
  | none => List.range (l + 1)

def fermiSubDim (d k : Nat) : Nat := comb d k

/-- `get_cutoff_fock_space_dimension(d, cutoff) = Σ_{k<cutoff} comb(d, k)` -/
def fermiCutoffDim (d cutoff : Nat) : Nat :=
  ((List.range cutoff).map (fermiSubDim d)).sum

/-- `get_fock_subspace_index_first_quantized` (Python ints: the running value can dip
below zero only transiently, so it is kept in `Int`). -/
def fermiSubIndexFQ (fq : List Nat) (d : Nat) : Int :=
  let n := fq.length
  if n = 0 then 0
  else
    (List.range n).foldl
      (fun (s : Int) i => s - (combInt ((d : Int) - (fq.getD i 0 : Int) - 1) ((n : Int) - i) : Int))
      ((comb d n : Int) - 1)

def fermiIndexFQ (fq : List Nat) (d : Nat) : Int :=
  (fermiCutoffDim d fq.length : Int) + fermiSubIndexFQ fq d

/-- `fermionic get_fock_space_index(occupation_numbers)` -/
def fermiIndex (occ : List Nat) : Int := fermiIndexFQ (toFirst occ) occ.length

def fermiSubIndex (occ : List Nat) : Int := fermiSubIndexFQ (toFirst occ) occ.length

/-- `next_second_quantized(second_quantized)` -/
def nextSecond (occ : List Nat) : List Nat :=
  toSecond (nextFirst (toFirst occ) occ.length) occ.length

def fermiBasisGen : Nat → List Nat → List (List Nat)
  | 0, _ => []
  | fuel + 1, occ => occ :: fermiBasisGen fuel (nextSecond occ)

/-- `fermionic get_fock_space_basis(d, cutoff)`: start from the vacuum and iterate
`next_second_quantized` -/
def fermiBasis (d cutoff : Nat) : List (List Nat) :=
  fermiBasisGen (fermiCutoffDim d cutoff) (List.replicate d 0)

/-- `binary_to_fock_indices(d)` -/
def binaryToFock (d : Nat) : List Nat :=
  (fermiBasis d (d + 1)).map (fun occ =>
    ((List.range d).map (fun i => occ.getD i 0 * 2 ^ (d - 1 - i))).sum)

end Pq.Comb
