/-
L1 `FockRep`: the particle-number-block representation of an interferometer on Fock space
(piquasso/_simulators/connectors/numpy_/interferometer.py `calculate_interferometer_on_fock_space`,
connector.py (generic version), with the helper indices of
fock/simulation_steps.py `calculate_interferometer_helper_indices`).
The code computes `rep_n[m, v] = Σ_j U[f, j] / sqrt(m_f) * sqrt(v_j) * rep_{n-1}[m - e_f, v - e_j]`
with `f` the first occupied mode of the output vector `m`.  This model is the same recurrence in the
square-root-free normalisation `P[m, v] = rep[m, v] * sqrt(m! v!)`:
`P[m, v] = Σ_j U[f, j] * v_j * P[m - e_f, v - e_j]`, `P[0, 0] = 1`.  Core Lean only.
-/
namespace Pq.FockRep

variable {K : Type} [Add K] [Mul K] [OfNat K 0] [OfNat K 1] [NatCast K]

/-- first occupied mode (`first_nonzero_space_index`) -/
def firstNonzero : List Nat → Option Nat
  | [] => none
  | x :: rest => if x ≠ 0 then some 0 else (firstNonzero rest).map (· + 1)

/-- `v - e_j` -/
def dec (v : List Nat) (j : Nat) : List Nat := v.set j (v.getD j 0 - 1)

/-- the recurrence, with fuel = number of particles -/
def repP (U : List (List K)) : Nat → List Nat → List Nat → K
  | 0, m, v => if m.all (· == 0) && v.all (· == 0) then 1 else 0
  | n + 1, m, v =>
    match firstNonzero m with
    | none => if v.all (· == 0) then 1 else 0
    | some f =>
      let row := U.getD f []
      (List.range v.length).foldl (fun acc j =>
        let vj := v.getD j 0
        if vj = 0 then acc
        else acc + row.getD j 0 * (vj : K) * repP U n (dec m f) (dec v j)) 0

/-- `P[m, v]` for vectors with the same particle number -/
def fockRepP (U : List (List K)) (m v : List Nat) : K :=
  if m.sum ≠ v.sum then 0 else repP U m.sum m v

end Pq.FockRep
