import Mathlib.Data.Matrix.Basic
import Mathlib.Data.Matrix.Block
import Mathlib.Algebra.Field.Basic

/-
L2 `GaussRep`: the representations of a Gaussian state in piquasso/_simulators/gaussian/state.py:
ladder moments `(m, C, G)` (stored as real and imaginary parts over a field `F`),
`xxpp_mean_vector` / `xxpp_covariance_matrix` getters, the `xpxp_*` setters (through which the
`xxpp` setters go), `complex_covariance`, `reduced`, `rotated`, and the index permutations of
_math/transformations.py.  The `xxpp` order is `Fin d ⊕ Fin d` (`inl i = x_i`, `inr i = p_i`);
`hbar` is `ħ`, and `r` stands for `sqrt(2 ħ)`.
-/
namespace Pq.GaussRep
open Matrix

variable {F : Type} [Field F] {d k : Nat}

structure Rep (F : Type) (d : Nat) where
  mr : Fin d → F
  mi : Fin d → F
  Cr : Matrix (Fin d) (Fin d) F
  Ci : Matrix (Fin d) (Fin d) F
  Gr : Matrix (Fin d) (Fin d) F
  Gi : Matrix (Fin d) (Fin d) F

/-- `xxpp_covariance_matrix` getter -/
def xxppCov (ħ : F) (s : Rep F d) : Matrix (Fin d ⊕ Fin d) (Fin d ⊕ Fin d) F :=
  ħ • ((2 : F) • Matrix.fromBlocks (s.Gr + s.Cr) (s.Gi + s.Ci) (s.Gi - s.Ci) (-s.Gr + s.Cr) + 1)

/-- the `xpxp_covariance_matrix` setter after its index permutation, i.e. on an `xxpp` matrix:
`blocks = (cov / hbar - 1) / 4`, `C_real = b11 + b22`, `G_real = b11 - b22`,
`C_imag = b12 - b21`, `G_imag = b12 + b21` -/
def setXxppCov (ħ : F) (cov : Matrix (Fin d ⊕ Fin d) (Fin d ⊕ Fin d) F) (s : Rep F d) : Rep F d :=
  let b := (4 : F)⁻¹ • (ħ⁻¹ • cov - 1)
  { s with
    Cr := b.toBlocks₁₁ + b.toBlocks₂₂, Gr := b.toBlocks₁₁ - b.toBlocks₂₂,
    Ci := b.toBlocks₁₂ - b.toBlocks₂₁, Gi := b.toBlocks₁₂ + b.toBlocks₂₁ }

/-- `xxpp_mean_vector` getter: `sqrt(2) * sqrt(hbar) * [Re m, Im m]` -/
def xxppMean (r : F) (s : Rep F d) : Fin d ⊕ Fin d → F :=
  fun i => r * Sum.elim s.mr s.mi i

/-- mean setter: `m = (x + i p) / sqrt(2 hbar)` -/
def setXxppMean (r : F) (v : Fin d ⊕ Fin d → F) (s : Rep F d) : Rep F d :=
  { s with mr := fun i => v (Sum.inl i) / r, mi := fun i => v (Sum.inr i) / r }

/-- `complex_covariance`: `2 [[conj C, G],[conj G, C]] + 1`, as (real part, imaginary part) -/
def complexCovRe (s : Rep F d) : Matrix (Fin d ⊕ Fin d) (Fin d ⊕ Fin d) F :=
  (2 : F) • Matrix.fromBlocks s.Cr s.Gr s.Gr s.Cr + 1
def complexCovIm (s : Rep F d) : Matrix (Fin d ⊕ Fin d) (Fin d ⊕ Fin d) F :=
  (2 : F) • Matrix.fromBlocks (-s.Ci) s.Gi (-s.Gi) s.Ci

/-- `reduced(modes)` -/
def reduced (modes : Fin k → Fin d) (s : Rep F d) : Rep F k :=
  { mr := s.mr ∘ modes, mi := s.mi ∘ modes,
    Cr := s.Cr.submatrix modes modes, Ci := s.Ci.submatrix modes modes,
    Gr := s.Gr.submatrix modes modes, Gi := s.Gi.submatrix modes modes }

/-- `rotated(phi)` with `c = cos phi`, `sn = sin phi`: `m e^{-iφ}`, `G e^{-2iφ}`, `C` unchanged -/
def rotated (c sn : F) (s : Rep F d) : Rep F d :=
  let c2 := c * c - sn * sn      -- cos 2φ
  let s2 := 2 * sn * c           -- sin 2φ
  { mr := fun i => s.mr i * c + s.mi i * sn,
    mi := fun i => s.mi i * c - s.mr i * sn,
    Cr := s.Cr, Ci := s.Ci,
    Gr := c2 • s.Gr + s2 • s.Gi,
    Gi := c2 • s.Gi - s2 • s.Gr }

/-- phase-space rotation by `φ` on every mode, in the `xxpp` order -/
def rotMat (c sn : F) : Matrix (Fin d ⊕ Fin d) (Fin d ⊕ Fin d) F :=
  Matrix.fromBlocks (c • 1) (sn • 1) (-sn • 1) (c • 1)

/-! ### index permutations of `_math/transformations.py` (as functions on positions) -/

/-- `xxpp_to_xpxp_indices(d)[t]`: `indices[2i] = i`, `indices[2i+1] = d + i` -/
def xxppToXpxp (d t : Nat) : Nat := if t % 2 = 0 then t / 2 else d + t / 2

/-- `xpxp_to_xxpp_indices(d)[t]`: `indices[i] = 2i`, `indices[d+i] = 2i+1` -/
def xpxpToXxpp (d t : Nat) : Nat := if t < d then 2 * t else 2 * (t - d) + 1

end Pq.GaussRep
