/-
L1 `FermiRep`: the representation of an interferometer on the fermionic Fock space
(piquasso/_simulators/connectors/numpy_/connections.py `calculate_interferometer_on_fermionic_fock_space`
with `_utils.precalculate_fermionic_passive_linear_indices`): for first-quantised (increasing) index lists
`R` (output) and `C` (input) of equal length `n`,
`rep_n[R, C] = Σ_k (-1)^k U[R₀, C_k] · rep_{n-1}[R ∖ R₀, C ∖ C_k]`, `rep_0 = 1`.  Core Lean only.
-/
namespace Pq.FermiRep

variable {K : Type} [Add K] [Mul K] [Neg K] [OfNat K 0] [OfNat K 1]

def entry (U : List (List K)) (i j : Nat) : K := (U.getD i []).getD j 0

/-- Laplace recursion along the first row of the selected submatrix -/
def fermiRep (U : List (List K)) : List Nat → List Nat → K
  | [], [] => 1
  | [], _ :: _ => 0
  | r0 :: R, C =>
    (List.range C.length).foldl (fun acc k =>
      let t := entry U r0 (C.getD k 0) * fermiRep U R (C.eraseIdx k)
      if k % 2 = 0 then acc + t else acc + (-t)) 0

end Pq.FermiRep
