import PqVerif.Model.PyPrims
/-
L3 `Engine`: model of piquasso/api/simulator.py (`execute_instructions`, the validation
chain, `_do_execute_instructions`, `_apply_instruction_to_branches`), of the parameter
resolve/unresolve cycle of api/instruction.py, of api/branch.py and of api/result.py
(`samples`, `get_counts`).  Simulation steps are a parameter (`Oracle`): any function, possibly
failing, of the request the engine hands to a step.  The caller-visible heap (the modes and
parameter dicts of the program's instructions) is explicit state that survives exceptions.
Core Lean only.
-/
namespace Pq.Engine
open Pq.Expr

inductive Err
  | invalidModes | invalidSimulation | invalidParameter | invalidState | invalidProgram
  | otherPiquasso          -- PiquassoException raised by `_is_condition_met`
  | valueError             -- the non-Piquasso `ValueError` for inactive modes
  | stepFault (tag : Nat)  -- anything a simulation step / `_validate` raises
  deriving Repr, DecidableEq

inductive Base | prep | gate | meas
  deriving Repr, DecidableEq

/-- a parameter as the user wrote it: a plain value, or an outcome-dependent expression
(string or callable; both are applied to the outcome tuple) -/
inductive Param
  | const (v : Val)
  | expr (src : Ast)

/-- the caller-visible part of an instruction object -/
structure Instr where
  cls : Nat
  base : Base
  modes : List Nat
  params : List (String × Param)
  cond : Option Ast

/-- what `_resolve_params` leaves in `instruction._params` while a step runs -/
inductive Slot
  | user (p : Param)
  | resolved (v : Val)

/-- heap cell of one instruction: the fields execution writes to -/
structure Cell where
  modes : List Nat
  params : List (String × Slot)

def Instr.cell (i : Instr) : Cell :=
  { modes := i.modes, params := i.params.map (fun (n, p) => (n, Slot.user p)) }

/-- per-simulator tables (`_instruction_map` keys, `_measurement_classes_allowed_*`) -/
structure SimSpec where
  supported : List Nat
  midCircuit : List Nat
  shotsNone : List Nat

structure Branch (σ : Type) where
  state : Option σ        -- `None` once every mode is measured
  outcome : List Val
  freq : Rat

/-- the request a simulation step sees -/
structure StepReq (σ : Type) where
  state : Option σ
  cls : Nat
  modes : List Nat                 -- remapped to the active modes
  params : List (String × Val)     -- resolved
  shots : Option Nat

abbrev Oracle (σ : Type) := StepReq σ → Except Err (List (Branch σ))

/-- `instruction._validate(connector)`: a function of the instruction class and the current
(resolved) parameter values; `config.validate = False` is `fun _ _ => pure ()` -/
abbrev ParamCheck := Nat → List (String × Val) → Except Err Unit

/-- world = caller-visible heap + log of step calls (to state "no evolution happened") -/
structure World (σ : Type) where
  heap : List Cell
  calls : List (StepReq σ)

abbrev M (σ : Type) := ExceptT Err (StateM (World σ))

def getCell {σ} (i : Nat) : M σ Cell := do
  let w ← getThe (World σ)
  pure (w.heap.getD i { modes := [], params := [] })

def setCell {σ} (i : Nat) (c : Cell) : M σ Unit :=
  modifyThe (World σ) (fun w => { w with heap := w.heap.set i c })

def logCall {σ} (r : StepReq σ) : M σ Unit :=
  modifyThe (World σ) (fun w => { w with calls := w.calls ++ [r] })

/-- `try: body finally: fin` for a heap that survives exceptions -/
def tryFinally' {σ α} (body : M σ α) (fin : M σ Unit) : M σ α :=
  ExceptT.mk do
    let r ← body.run
    let f ← fin.run
    match r, f with
    | .ok a, .ok _ => pure (.ok a)
    | .ok _, .error e => pure (.error e)
    | .error e, _ => pure (.error e)

/-! ### validation chain of `execute_instructions` -/

def isMeas (i : Instr) : Bool := i.base == .meas
def isPrep (i : Instr) : Bool := i.base == .prep

/-- `_infer_number_of_modes_from_instructions` -/
def inferD (is : List Instr) : Option Nat :=
  is.foldl (fun acc i =>
    match i.modes.max? with
    | none => acc
    | some mx =>
      match acc with
      | none => some (mx + 1)
      | some n => if n = 0 ∨ mx ≥ n then some (mx + 1) else some n) none

/-- `shots` as the caller passes it: a positive int, `None`, or something else -/
inductive ShotsArg | pos (n : Nat) | none | bad

def shotsOK : ShotsArg → Bool
  | .pos n => n > 0
  | .none => true
  | .bad => false

def ShotsArg.toOpt : ShotsArg → Option Nat
  | .pos n => some n
  | _ => Option.none

/-- position-aware `_validate_preparations_at_beginning` -/
def prepsAtBeginning : List Instr → Bool
  | [] => true
  | i :: rest => if isPrep i then prepsAtBeginning rest else rest.all (fun j => !isPrep j)

/-- `_validate_measurements_at_end` -/
def measAtEnd (spec : SimSpec) : List Instr → Bool
  | [] => true
  | [_] => true
  | i :: rest => (!isMeas i || spec.midCircuit.contains i.cls) && measAtEnd spec rest

def modesOK (d : Nat) (i : Instr) : Except Err Unit :=
  if i.modes.isEmpty then pure ()
  else if i.modes.eraseDups.length != i.modes.length then throw .invalidModes
  else if i.modes.any (fun m => m ≥ d) then throw .invalidModes
  else pure ()

/-- initial-state argument: absent, right class with `d'` modes, or wrong class -/
inductive InitArg | absent | ok (d' : Nat) | wrongClass

/-- the whole up-front validation of `execute_instructions`, in the order of the code.
Returns the number of modes.  No oracle appears: validation cannot evolve anything. -/
def validateRequest (spec : SimSpec) (simD : Option Nat) (is : List Instr) (shots : ShotsArg)
    (init : InitArg) : Except Err Nat := do
  if !shotsOK shots then throw .invalidParameter
  let d ← match (match simD with | some 0 => none | x => x) with
    | some d => pure d
    | none => match inferD is with
      | some d => pure d
      | none => throw .invalidSimulation
  if !is.all (fun i => spec.supported.contains i.cls) then throw .invalidSimulation
  is.forM (modesOK d)
  if !prepsAtBeginning is then throw .invalidSimulation
  if !measAtEnd spec is then throw .invalidSimulation
  match shots with
  | .none =>
    if !is.all (fun i => !isMeas i || spec.shotsNone.contains i.cls) then throw .invalidParameter
  | _ => pure ()
  match init with
  | .absent => pure ()
  | .wrongClass => throw .invalidState
  | .ok d' => if d' != d then throw .invalidState
  pure d

/-! ### execution -/

def remap (active : List Nat) (modes : List Nat) : List Nat :=
  modes.map (fun m => active.idxOf m)

def remapInverse (active : List Nat) (modes : List Nat) : List Nat :=
  modes.map (fun m => active.getD m 0)

/-- `_delete_modes_from_active(active_modes, modes)` with `modes` already remapped -/
def deleteModes (active : List Nat) (modes : List Nat) : List Nat :=
  active.filter (fun m => !(remapInverse active modes).contains m)

/-- `_is_condition_met`: truthiness of the condition; any error becomes PiquassoException -/
def condMet (c : Option Ast) (outcome : List Val) : Except Err Bool :=
  match c with
  | none => pure true
  | some a =>
    match Pq.Expr.run pyPrims a (.tup outcome) with
    | .ok v => pure (pyTruthy v)
    | .error _ => throw .otherPiquasso

/-- `_resolve_params`: every unresolved parameter applied to the outcomes; any error becomes
`InvalidParameter`; nothing is written if one of them fails -/
def resolveAll (ps : List (String × Param)) (outcome : List Val) :
    Except Err (List (String × Val)) :=
  ps.mapM (fun (n, p) =>
    match p with
    | .const v => pure (n, v)
    | .expr a =>
      match Pq.Expr.run pyPrims a (.tup outcome) with
      | .ok v => pure (n, v)
      | .error _ => throw .invalidParameter)

def isResolved (i : Instr) : Bool :=
  i.params.all (fun (_, p) => match p with | .const _ => true | .expr _ => false)

/-- one branch of the `for branch in branches` loop -/
def applyToBranch {σ} (oracle : Oracle σ) (pval : ParamCheck) (idx : Nat) (ins : Instr) (shots : Option Nat)
    (b : Branch σ) : M σ (List (Branch σ)) := do
  let met ← (match condMet ins.cond b.outcome with
    | .ok m => pure m
    | .error e => throw e : M σ Bool)
  if !met then return [b]
  let cell ← getCell idx
  let subs ← tryFinally' (do
      let resolved ← (match resolveAll ins.params b.outcome with
        | .ok r => pure r
        | .error e => throw e : M σ _)
      if !isResolved ins then
        setCell idx { cell with params := resolved.map (fun (n, v) => (n, Slot.resolved v)) }
      (match pval ins.cls resolved with
        | .ok _ => pure ()
        | .error e => throw e : M σ Unit)
      let currentShots := shots.map (fun n => (b.freq * (n : Rat)).floor.toNat)
      let req : StepReq σ :=
        { state := b.state, cls := ins.cls, modes := cell.modes, params := resolved,
          shots := currentShots }
      logCall req
      match oracle req with
      | .ok subs => pure subs
      | .error e => throw e)
    (do
      if !isResolved ins then
        let c ← getCell idx
        setCell idx { c with params := ins.params.map (fun (n, p) => (n, Slot.user p)) })
  pure (subs.map (fun sb =>
    { state := sb.state, outcome := b.outcome ++ sb.outcome, freq := sb.freq * b.freq }))

def applyToBranches {σ} (oracle : Oracle σ) (pval : ParamCheck) (idx : Nat) (ins : Instr)
    (shots : Option Nat) : List (Branch σ) → M σ (List (Branch σ))
  | [] => pure []
  | b :: bs => do
    let r ← applyToBranch oracle pval idx ins shots b
    let rs ← applyToBranches oracle pval idx ins shots bs
    pure (r ++ rs)

/-- the `for instruction in instructions` loop of `_do_execute_instructions` -/
def execLoop {σ} (oracle : Oracle σ) (pval : ParamCheck) (shots : Option Nat) :
    Nat → List Instr → List Nat → List (Branch σ) → M σ (List (Branch σ))
  | _, [], _, bs => pure bs
  | idx, ins :: rest, active, bs => do
    let original := ins.modes
    let modes := if original.isEmpty then active else original
    if modes.any (fun m => !active.contains m) then throw .valueError
    let (bs', active') ← tryFinally' (do
        let cell ← getCell idx
        setCell idx { cell with modes := remap active modes }
        let bs' ← applyToBranches oracle pval idx ins shots bs
        let active' := if isMeas ins then deleteModes active (remap active modes) else active
        pure (bs', active'))
      (do
        let cell ← getCell idx
        setCell idx { cell with modes := original })
    execLoop oracle pval shots (idx + 1) rest active' bs'

/-- the plain values of an instruction whose parameters do not depend on outcomes -/
def constParams (i : Instr) : List (String × Val) :=
  i.params.filterMap (fun (n, p) => match p with | .const v => some (n, v) | .expr _ => none)

/-- `_validate_resolved_instruction_parameters`: `_validate` of every instruction without
outcome-dependent parameters, before the execution starts -/
def validateParams (pval : ParamCheck) (is : List Instr) : Except Err Unit :=
  is.forM (fun i => if isResolved i then pval i.cls (constParams i) else pure ())

/-- everything `execute_instructions` checks before creating the state -/
def validateAll (spec : SimSpec) (pval : ParamCheck) (simD : Option Nat) (is : List Instr)
    (shots : ShotsArg) (init : InitArg) : Except Err Nat := do
  let d ← validateRequest spec simD is shots .absent
  validateParams pval is
  let _ ← validateRequest spec simD is shots init
  pure d

/-- `execute_instructions`: validate, then run on `Branch(state, frequency=1)` -/
def execute {σ} (spec : SimSpec) (oracle : Oracle σ) (pval : ParamCheck) (simD : Option Nat)
    (is : List Instr) (shots : ShotsArg) (init : InitArg) (st0 : σ) : M σ (List (Branch σ)) := do
  let d ← (match validateAll spec pval simD is shots init with
    | .ok d => pure d
    | .error e => throw e : M σ Nat)
  execLoop oracle pval shots.toOpt 0 is (List.range d)
    [{ state := if d = 0 then none else some st0, outcome := [], freq := 1 }]

def initWorld {σ} (is : List Instr) : World σ := { heap := is.map Instr.cell, calls := [] }

/-! ### api/result.py -/

/-- number of copies of a branch's outcome in `Result.samples` -/
def copies {σ} (shots : Nat) (b : Branch σ) : Nat := (b.freq * (shots : Rat)).floor.toNat

/-- `Result.samples` before the seeded shuffle -/
def samples {σ} (shots : Nat) (bs : List (Branch σ)) : List (List Val) :=
  bs.flatMap (fun b => List.replicate (copies shots b) b.outcome)

/-- `ret[outcome] = ret.get(outcome, 0) + n` on an association list (dict insertion order) -/
def addCount {κ} [BEq κ] : List (κ × Nat) → κ → Nat → List (κ × Nat)
  | [], k, n => [(k, n)]
  | (k', m) :: rest, k, n =>
    if k' == k then (k', m + n) :: rest else (k', m) :: addCount rest k n

/-- `Result.get_counts()`; `key` turns an outcome into a hashable dict key -/
def getCounts {σ κ} [BEq κ] (key : List Val → κ) (shots : Nat) (bs : List (Branch σ)) :
    List (κ × Nat) :=
  bs.foldl (fun acc b => addCount acc (key b.outcome) (copies shots b)) []

end Pq.Engine
