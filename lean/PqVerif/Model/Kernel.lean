/-
L4 `Kernel`: model of the native permanent kernel (src/permanent.cpp `permanent_cpp`,
src/n_aryGrayCodeCounter.hpp, src/utils.hpp `binomialCoeff`): row splitting, n-ary reflected
Gray-code counter (`initialize`, `next`), partition of the Gray-code range into jobs,
incremental column sums and binomial weights (in exact integers or in wrapping `int`),
final scaling.  Scalars are any type with ring operations (ℚ[i] in the driver).  Core Lean only.
-/
namespace Pq.Kernel

/-! ### n_aryGrayCodeCounter -/

/-- `counter_chain[i] = temp % limits[i]; temp /= limits[i]` -/
def chainOf : List Nat → Nat → List Nat
  | [], _ => []
  | n :: rest, t => (t % n) :: chainOf rest (t / n)

/-- gray digits from the chain, scanning from the last digit down with a running parity:
`code = parity ? limit - 1 - chain : chain; parity ^= code & 1`.
Returns the digits and the parity after the first digit. -/
def grayOfChain : List Nat → List Nat → List Nat × Bool
  | n :: ns, c :: cs =>
    let (rest, parity) := grayOfChain ns cs
    let code := if parity then n - 1 - c else c
    (code :: rest, parity != (code % 2 == 1))
  | _, _ => ([], false)

/-- `initialize(offset)` -/
def grayOf (limits : List Nat) (offset : Nat) : List Nat :=
  (grayOfChain limits (chainOf limits offset)).1

/-- the carry loop of `next`: increment the mixed-radix counter -/
def incChain : List Nat → List Nat → List Nat
  | n :: ns, c :: cs => if c + 1 < n then (c + 1) :: cs else 0 :: incChain ns cs
  | _, _ => []

/-- highest index at which two digit lists differ -/
def lastDiff : List Nat → List Nat → Option Nat
  | a :: as, b :: bs =>
    match lastDiff as bs with
    | some i => some (i + 1)
    | none => if a != b then some 0 else none
  | _, _ => none

structure Counter where
  limits : List Nat
  chain : List Nat
  gray : List Nat
  deriving Repr, DecidableEq

def Counter.init (limits : List Nat) (offset : Nat) : Counter :=
  { limits := limits, chain := chainOf limits offset, gray := grayOf limits offset }

/-- `next(changed_index, value_prev, value)`: only the highest differing digit is written -/
def Counter.next (c : Counter) : Counter × Nat × Nat × Nat :=
  let chain' := incChain c.limits c.chain
  let g' := (grayOfChain c.limits chain').1
  match lastDiff c.gray g' with
  | some i => ({ c with chain := chain', gray := c.gray.set i (g'.getD i 0) }, i, c.gray.getD i 0, g'.getD i 0)
  | none => ({ c with chain := chain' }, 0, 0, 0)

/-! ### job partition -/

/-- `(initial_offset, offset_max)` of every job, for `n_threads = hardware_concurrency()` -/
def jobRanges (idxMax threads : Nat) : List (Nat × Nat) :=
  let conc := min (4 * threads) idxMax
  (List.range conc).map (fun j =>
    let wb := idxMax / conc
    (j * wb, if j = conc - 1 then idxMax - 1 else (j + 1) * wb - 1))

/-! ### binomial weights -/

/-- `utils.hpp binomialCoeff<int>(n, k)` on small non-negative arguments -/
def binomialCoeff (n k : Nat) : Nat :=
  if k > n then 0
  else if k = 0 ∨ k = n then 1
  else
    let k := if k > n - k then n - k else k
    (List.range k).foldl (fun result i0 =>
      let i := i0 + 1
      (result / i) * (n - k + i) + (result % i) * (n - k + i) / i) 1

/-- two's-complement wrap of C `int` arithmetic (what the hardware does on overflow) -/
def wrap32 (z : Int) : Int :=
  let m := z % 4294967296
  if m < 2147483648 then m else m - 4294967296

/-- C `int` division truncates toward zero -/
def cdiv (a b : Int) : Int := Int.tdiv a b

/-- the incremental update `value < prev ? coeff * prev / (mult - value) : coeff * (mult - prev) / value`
in exact integers (`wrap = false`) or in wrapping `int` (`wrap = true`) -/
def binomUpdate (wrap : Bool) (coeff : Int) (mult prev value : Nat) : Int :=
  let w := fun z => if wrap then wrap32 z else z
  if value < prev then cdiv (w (coeff * prev)) ((mult : Int) - value)
  else cdiv (w (coeff * ((mult : Int) - prev))) value

/-- initial weight `Π binomialCoeff(rows[i+1], gcode[i])` with `int` multiplication -/
def binomInit (wrap : Bool) (mults gray : List Nat) : Int :=
  let w := fun z => if wrap then wrap32 z else z
  (mults.zip gray).foldl (fun acc (m, g) => w (acc * (binomialCoeff m g : Int))) 1

/-- largest absolute value a C `int` holds while the weights are computed exactly: the initial
product and, at every step, the product formed before the division.  When it stays below `2^31` the
`int` arithmetic of the kernel is exact; beyond that the C++ code has undefined behaviour. -/
def maxIntermediate (mults limits : List Nat) : Nat :=
  let idxMax := limits.foldl (· * ·) 1
  let g0 := grayOf limits 0
  let init : Int := binomInit false mults g0
  let initMax := (mults.zip g0).foldl (fun (st : Int × Nat) (m, g) =>
    let v := st.1 * (binomialCoeff m g : Int)
    (v, max st.2 v.natAbs)) (1, 1)
  let step := fun (st : List Nat × Int × Nat) (o : Nat) =>
    let (g, coeff, mx) := st
    let g' := grayOf limits (o + 1)
    match lastDiff g g' with
    | none => (g', coeff, mx)
    | some i =>
      let prev := g.getD i 0
      let value := g'.getD i 0
      let m := mults.getD i 0
      let prod : Int := if value < prev then coeff * prev else coeff * ((m : Int) - prev)
      (g', binomUpdate false coeff m prev value, max mx prod.natAbs)
  ((List.range (idxMax - 1)).foldl step (g0, init, initMax.2)).2.2

/-! ### the permanent algorithm -/

variable {K : Type} [Add K] [Mul K] [Sub K] [Neg K] [Div K] [OfNat K 0] [OfNat K 1] [OfNat K 2]
  [IntCast K]

def rowAt (A : List (List K)) (i : Nat) : List K := A.getD i []

/-- the preprocessing loop choosing `min_idx` -/
def minIdx (rows : List Nat) : Nat × Nat :=
  (rows.zipIdx.foldl (fun (st : Nat × Nat) (r, i) =>
    if st.2 = 0 ∨ (r < st.2 ∧ r ≠ 0) then (i, r) else st) (0, 0))

/-- splitting one copy of the row with the smallest non-zero multiplicity off as row 0 -/
def splitRow (A : List (List K)) (rows : List Nat) : List (List K) × List Nat :=
  let (mi, me) := minIdx rows
  if rows.length > 0 ∧ me ≠ 0 then
    (rowAt A mi :: A, 1 :: rows.set mi (rows.getD mi 0 - 1))
  else (A, rows)

def powK (x : K) : Nat → K
  | 0 => 1
  | n + 1 => powK x n * x

/-- `parity * Π_j colsum[j]^{cols[j]}` -/
def colsumProd (parity : Int) (colsum : List K) (cols : List Nat) : K :=
  (colsum.zip cols).foldl (fun acc (c, m) => acc * powK c m) ((parity : Int) : K)

/-- the direct (non-incremental) column sums for a gray code:
`colsum[j] = A(0,j) + Σ_i A(i+1,j) * (rows[i+1] - 2 g_i)` -/
def colsumOf (A : List (List K)) (mults gray : List Nat) : List K :=
  ((mults.zip gray).zipIdx).foldl (fun cs ((m, g), i) =>
    (cs.zip (rowAt A (i + 1))).map (fun (c, a) => c + a * (((m : Int) - 2 * (g : Int) : Int) : K)))
    (rowAt A 0)

/-- one job: gray codes `initial_offset … offset_max`, incrementally -/
def runJob (wrap : Bool) (A : List (List K)) (mults cols : List Nat) (limits : List Nat)
    (lo hi : Nat) : K :=
  let c0 := Counter.init limits lo
  let colsum0 := colsumOf A mults c0.gray
  let coeff0 := binomInit wrap mults c0.gray
  let parity0 : Int := if c0.gray.sum % 2 = 0 then 1 else -1
  let acc0 : K := colsumProd parity0 colsum0 cols * ((coeff0 : Int) : K)
  let step := fun (st : Counter × List K × Int × Int × K) (_ : Nat) =>
    let (c, colsum, coeff, parity, acc) := st
    let (c', idx, prev, value) := c.next
    let parity' := -parity
    let colsum' := (colsum.zip (rowAt A (idx + 1))).map
      (fun (s, a) => s + (2 : K) * a * ((((prev : Int) - (value : Int)) : Int) : K))
    let coeff' := binomUpdate wrap coeff (mults.getD idx 0) prev value
    (c', colsum', coeff', parity', acc + colsumProd parity' colsum' cols * ((coeff' : Int) : K))
  ((List.range (hi - lo)).foldl step (c0, colsum0, coeff0, parity0, acc0)).2.2.2.2

/-- `permanent_cpp(A, rows, cols)` with `hardware_concurrency() = threads`; `none` = the
"Number of input and output states should be equal" error -/
def permanent (wrap : Bool) (threads : Nat) (A : List (List K)) (rows cols : List Nat) : Option K :=
  let (A, rows) := splitRow A rows
  if rows.sum ≠ cols.sum then none
  else if A.length = 0 ∨ cols.length = 0 ∨ rows.sum = 0 then some 1
  else if A.length = 1 then
    some (colsumProd 1 (rowAt A 0) cols)
  else
    let mults := rows.drop 1
    let limits := mults.map (· + 1)
    let idxMax := limits.foldl (· * ·) 1
    let total := (jobRanges idxMax threads).foldl
      (fun acc (lo, hi) => acc + runJob wrap A mults cols limits lo hi) (0 : K)
    some (total / powK (2 : K) (rows.sum - 1))

end Pq.Kernel
