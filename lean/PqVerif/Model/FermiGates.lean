/-
L1 `FermiGates`: label-level action of the fermionic Fock-space gates
(piquasso/fermionic/fock/simulation_steps.py, fock/_utils.py index tables): which occupation labels can
receive amplitude from a basis label `s` under each gate.  Core Lean only.
-/
namespace Pq.FermiGates

def parity (s : List Nat) : Nat := s.sum % 2

def isBits (s : List Nat) : Bool := s.all (fun x => x == 0 || x == 1)

/-- `ising_XX`: index rows `[00, 01, 10, 11]` on `modes`, `final = cos·initial + i sin·flip(initial)`:
label `s` mixes with the label in which both modes are flipped -/
def flip2 (s : List Nat) (a b : Nat) : List Nat :=
  (s.set a (1 - s.getD a 0)).set b (1 - s.getD b 0)

def isingTargets (s : List Nat) (a b : Nat) : List (List Nat) := [s, flip2 s a b]

/-- `squeezing2`: only `00 ↔ 11` on the two modes are mixed; `01`, `10` are left alone -/
def sq2Targets (s : List Nat) (a b : Nat) : List (List Nat) :=
  if s.getD a 0 = s.getD b 0 then [s, flip2 s a b] else [s]

/-- `controlled_phase`: diagonal -/
def cphaseTargets (s : List Nat) : List (List Nat) := [s]

/-- all bit strings of length `d` -/
def bits : Nat → List (List Nat)
  | 0 => [[]]
  | d + 1 => (bits d).flatMap (fun t => [0 :: t, 1 :: t])

/-- `passive_linear` on `modes`: labels that agree with `s` off `modes` and carry the same number of
particles on `modes` -/
def passiveTargets (s : List Nat) (modes : List Nat) : List (List Nat) :=
  (bits s.length).filter (fun t =>
    (List.range s.length).all (fun i => modes.contains i || t.getD i 0 == s.getD i 0) &&
    (modes.map (fun m => t.getD m 0)).sum == (modes.map (fun m => s.getD m 0)).sum)

/-! amplitude-level pair updates (exact, over any commutative ring with `i`) -/

variable {K : Type} [Add K] [Mul K]

/-- `ising_XX` on a pair of mixed amplitudes: `(c·x + is·y, c·y + is·x)` -/
def isingPair (c is x y : K) : K × K := (c * x + is * y, c * y + is * x)

/-- `squeezing2` on the `(00, 11)` pair with the 2×2 block `U` -/
def sq2Pair (u00 u01 u10 u11 x y : K) : K × K := (u00 * x + u01 * y, u10 * x + u11 * y)

end Pq.FermiGates
