/-
L3 `Rng`: ownership of random-number generators (piquasso/api/config.py `Config.__init__`,
`seed_sequence` setter, `copy`; api/simulator.py `Simulator.__init__`; api/state.py
`State.__init__`; `_utils.sample_from_probability_map`; samplers drawing from `config.rng`).
A generator is a stream identified by its seed; drawing advances its position.  The process-global
`random` module is one more generator that foreign code may reseed or consume at any time.
Core Lean only.
-/
namespace Pq.Rng

structure Gen where
  seed : Nat
  pos : Nat
  deriving Repr, DecidableEq

/-- a `Config` owns (shares by reference) a NumPy generator and a Python generator -/
structure Cfg where
  npGen : Nat      -- index into `World.gens`
  pyGen : Nat
  deriving Repr, DecidableEq

structure World where
  glob : Gen                 -- the global `random` module
  gens : List Gen
  cfgs : List Cfg
  sims : List Nat            -- simulator ↦ index of its (copied) config
  entropy : Nat              -- how many `os.urandom` seeds were handed out
  deriving Repr, DecidableEq

inductive Op
  | newConfig (seed : Option Nat)        -- `Config(seed_sequence=seed)`
  | copyConfig (c : Nat)                 -- `config.copy()`: a new object sharing both generators
  | newSim (c : Nat)                     -- `Simulator(config=c)`: stores `c.copy()`
  | exec (sim : Nat) (draws : Nat) (py : Bool)   -- a sampling execution drawing `draws` numbers
  | foreignRandom (n : Nat)              -- user code calls `random.random()` n times
  | foreignSeed (s : Nat)                -- user code calls `random.seed(s)`
  | reseed (c : Nat) (seed : Nat)        -- `config.seed_sequence = seed`: the setter builds two NEW generators
  deriving Repr, DecidableEq

def init : World := { glob := ⟨0, 0⟩, gens := [], cfgs := [], sims := [], entropy := 0 }

/-- the value drawn from stream `seed` at position `pos` is a function of those two only;
a draw is recorded as that pair -/
abbrev Draw := Nat × Nat

def drawN (g : Gen) (n : Nat) : Gen × List Draw :=
  ({ g with pos := g.pos + n }, (List.range n).map (fun i => (g.seed, g.pos + i)))

/-- `os.urandom` seeds are modelled as fresh numbers above any user seed -/
def urandomSeed (k : Nat) : Nat := 1000000007 + k

def step (w : World) : Op → World × List Draw
  | .newConfig seed =>
    let (s, e) := match seed with
      | some s => (s, w.entropy)               -- `seed_sequence if seed_sequence is not None`
      | none => (urandomSeed w.entropy, w.entropy + 1)
    let i := w.gens.length
    -- two generators are created from the seed; the global module is NOT reseeded
    ({ w with gens := w.gens ++ [⟨s, 0⟩, ⟨s, 0⟩], cfgs := w.cfgs ++ [⟨i, i + 1⟩], entropy := e }, [])
  | .copyConfig c =>
    match w.cfgs[c]? with
    | some cfg => ({ w with cfgs := w.cfgs ++ [cfg] }, [])
    | none => (w, [])
  | .newSim c =>
    match w.cfgs[c]? with
    | some cfg => ({ w with cfgs := w.cfgs ++ [cfg], sims := w.sims ++ [w.cfgs.length] }, [])
    | none => (w, [])
  | .exec sim draws py =>
    match w.sims[sim]? with
    | none => (w, [])
    | some c =>
      match w.cfgs[c]? with
      | none => (w, [])
      | some cfg =>
        let gi := if py then cfg.pyGen else cfg.npGen
        match w.gens[gi]? with
        | none => (w, [])
        | some g =>
          let (g', out) := drawN g draws
          ({ w with gens := w.gens.set gi g' }, out)
  | .foreignRandom n => ({ w with glob := (drawN w.glob n).1 }, [])
  | .foreignSeed s => ({ w with glob := ⟨s, 0⟩ }, [])
  | .reseed c seed =>
    -- only THIS config object is rebound to the new generators; copies keep the old ones
    if c < w.cfgs.length then
      let i := w.gens.length
      ({ w with gens := w.gens ++ [⟨seed, 0⟩, ⟨seed, 0⟩], cfgs := w.cfgs.set c ⟨i, i + 1⟩ }, [])
    else (w, [])

def run (w : World) : List Op → World × List (List Draw)
  | [] => (w, [])
  | op :: ops =>
    let (w', out) := step w op
    let (w'', outs) := run w' ops
    (w'', out :: outs)

end Pq.Rng
