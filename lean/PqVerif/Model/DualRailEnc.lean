import PqVerif.Gen.DualRailShapes

/-
L1 `DualRailEnc`: the structure of piquasso/dual_rail_encoding.py `_encode_dual_rail_from_qiskit` —
mode allocation (qubit `q` ↦ modes `2q, 2q+1`; the `k`-th two-qubit gate gets the fresh auxiliary modes
`2n+2k, 2n+2k+1`), the per-gate primitive lists (GENERATED table `Gen/DualRailShapes`), and the
conditions of `if_test` blocks: position in the outcome tuple of the measurement that last wrote the
classical bit.  Core Lean only.
-/
namespace Pq.DualRailEnc
open Pq.Gen.DualRailShapes

inductive QOp
  | g1 (name : String) (q : Nat)
  | g2 (name : String) (a b : Nat)                 -- "cz" | "cx"
  | measure (q c : Nat)
  /-- `qs`: the qubits of the `if_else` instruction; block entries: gate name, position of its qubit in `qs` -/
  | ifElse (c val : Nat) (qs : List Nat) (body elseBody : List (String × Nat))
  deriving Repr

/-- a condition: position in the outcome tuple (`none`: bit never written, value 0), compared value, negated -/
structure Cond where
  pos : Option Nat
  val : Nat
  neg : Bool
  deriving Repr, DecidableEq

structure PI where
  name : String
  modes : List Nat
  cond : Option Cond
  deriving Repr, DecidableEq

def shapeOf (name : String) : List (String × List Nat) := (shapes.lookup name).getD []

def emit (name : String) (modes : List Nat) (cond : Option Cond) : List PI :=
  (shapeOf name).map (fun (prim, loc) => ⟨prim, loc.map (fun i => modes.getD i 0), cond⟩)

def isTwo : QOp → Bool
  | .g2 _ _ _ => true
  | _ => false

structure St where
  czIdx : Nat := 0
  written : List (Nat × Nat) := []      -- classical bit ↦ outcome position, latest first
  nMeasured : Nat := 0
  out : List PI := []

def lookupBit (w : List (Nat × Nat)) (c : Nat) : Option Nat := w.lookup c

def stepOp (n : Nat) (s : St) : QOp → St
  | .g1 name q => { s with out := s.out ++ emit name [2 * q, 2 * q + 1] none }
  | .g2 name a b =>
      let aux := [2 * n + 2 * s.czIdx, 2 * n + 2 * s.czIdx + 1]
      let modes := if name == "cz" then [2 * a + 1, 2 * b + 1] else [2 * a, 2 * a + 1, 2 * b, 2 * b + 1]
      { s with czIdx := s.czIdx + 1, out := s.out ++ emit name (modes ++ aux) none }
  | .measure q c =>
      { s with out := s.out ++ emit "measure" [2 * q, 2 * q + 1] none,
               written := (c, 2 * s.nMeasured) :: s.written, nMeasured := s.nMeasured + 1 }
  | .ifElse c val qs body elseBody =>
      let pos := lookupBit s.written c
      let blk (neg : Bool) (l : List (String × Nat)) : List PI :=
        l.flatMap (fun (name, k) => let q := qs.getD k 0; emit name [2 * q, 2 * q + 1] (some ⟨pos, val, neg⟩))
      { s with out := s.out ++ blk false body ++ blk true elseBody }

def prep (n numCz : Nat) : List PI :=
  let all := List.range (2 * n + 2 * numCz)
  let ones := (List.range n).map (2 * ·) ++ (List.range (2 * numCz)).map (2 * n + ·)
  (if all.isEmpty then [] else [⟨"Vacuum", all, none⟩]) ++ (if ones.isEmpty then [] else [⟨"Create", ones, none⟩])

def encode (n : Nat) (ops : List QOp) : List PI :=
  prep n (ops.countP isTwo) ++ (ops.foldl (stepOp n) {}).out

/-- the truth value of a condition on a tuple of measurement outcomes (two modes per measured qubit):
`(1,0) ↦ 0`, `(0,1) ↦ 1`; anything else is an error (`none`) -/
def Cond.eval (c : Cond) (outcomes : List Nat) : Option Bool :=
  match c.pos with
  | none => some ((0 == c.val) != c.neg)
  | some p =>
    match outcomes[p]?, outcomes[p + 1]? with
    | some 1, some 0 => some ((0 == c.val) != c.neg)
    | some 0, some 1 => some ((1 == c.val) != c.neg)
    | _, _ => none

end Pq.DualRailEnc
