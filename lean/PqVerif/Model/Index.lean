import PqVerif.Model.Comb
/-
L0 `Index`: index tables through which gates and measurements address a subset of modes
(piquasso/_simulators/fock/simulation_steps.py `nb_calculate_index_list_for_appling_interferometer`,
`nb_calculate_state_index_matrix_list`, `get_projection_operator_indices`; `_math/indices.py`
`get_auxiliary_modes`).  Core Lean only.
-/
namespace Pq.Index
open Pq.Comb

/-- `get_auxiliary_modes(d, modes) = np.delete(np.arange(d), modes)` -/
def auxModes (d : Nat) (modes : List Nat) : List Nat :=
  (List.range d).filter (fun m => !modes.contains m)

/-- the basis of `d` modes as the code sees it; for `d = 0` the array has `comb(cutoff-1, 0)` rows of
length 0 -/
def basis' (d cutoff : Nat) : List (List Nat) :=
  if d = 0 then List.replicate (cutoffDim cutoff 0) [] else fockBasis d cutoff

/-- `all_occupation_numbers`: entries `modes[i] := sub[i]`, `aux[i] := auxv[i]` on a zero vector -/
def merge (d : Nat) (modes aux sub auxv : List Nat) : List Nat :=
  (List.range d).map (fun m =>
    match modes.idxOf? m with
    | some i => sub.getD i 0
    | none =>
      match aux.idxOf? m with
      | some j => auxv.getD j 0
      | none => 0)

/-- `nb_calculate_index_list_for_appling_interferometer(modes, d, cutoff)`: for every particle number
`n` on the addressed modes, the matrix `[idx2, idx1] ↦ index of the merged occupation vector`
(rows: the `n`-particle vectors on `modes`; columns: the auxiliary vectors with fewer than
`cutoff - n` particles) -/
def indexList (modes : List Nat) (d cutoff : Nat) : List (List (List Nat)) :=
  let k := modes.length
  let aux := auxModes d modes
  (List.range cutoff).map (fun n =>
    let sub := partitions k n
    let auxSize := cutoffDim (cutoff - n) (d - k)
    let auxs := (basis' (d - k) cutoff).take auxSize
    sub.map (fun s => auxs.map (fun a => indexInFockSpace (merge d modes aux s a))))

/-- `nb_calculate_state_index_matrix_list(d, cutoff, mode)`: for every particle number `n` on the other
modes, `[j, i] ↦ index` of the vector with `mode := j` and the `i`-th `n`-particle auxiliary vector -/
def stateIndexMatrixList (d cutoff mode : Nat) : List (List (List Nat)) :=
  let aux := auxModes d [mode]
  (List.range cutoff).map (fun n =>
    let auxs := if d - 1 = 0 then (if n = 0 then [[]] else []) else partitions (d - 1) n
    (List.range (cutoff - n)).map (fun j =>
      auxs.map (fun a => indexInFockSpace (merge d [mode] aux [j] a))))

/-- `get_projection_operator_indices(d, cutoff, modes, basis_vector)`: indices of the basis vectors
whose entries on `modes` are `basis_vector`, in the order of the remaining basis -/
def projectionIndices (d cutoff : Nat) (modes basisVector : List Nat) : List Nat :=
  let newCutoff := cutoff - basisVector.sum
  let boxes := d - modes.length
  let aux := auxModes d modes
  (basis' boxes newCutoff).map (fun a => indexInFockSpace (merge d modes aux basisVector a))

end Pq.Index

namespace Pq.Index
open Pq.Comb

/-! ### applying a number-conserving gate through the index tables -/

variable {K : Type} [Add K] [Mul K] [OfNat K 0]

def dot (r : List K) (v : List K) : K := (r.zip v).foldl (fun acc (a, b) => acc + a * b) 0

/-- `_calculate_state_vector_after_interferometer`:
`new[indices] = einsum("ij,jk->ik", T[n], state[indices])` for every block `n`;
`T n` is the `n`-particle representation (a square matrix over the `n`-particle vectors on `modes`).
The state is a list of amplitudes in basis order. -/
def applyIndexed (T : Nat → List (List K)) (modes : List Nat) (d cutoff : Nat) (state : List K) :
    List K :=
  let blocks := indexList modes d cutoff
  -- (target index, value) pairs, then scatter (later assignments win, as with numpy fancy assignment)
  let writes : List (Nat × K) := (blocks.zipIdx).flatMap (fun (block, n) =>
    let nAux := (block.headD []).length
    (block.zipIdx).flatMap (fun (rowIdx, i2) =>
      (rowIdx.zipIdx).map (fun (target, i1) =>
        let col : List K := block.map (fun r => state.getD (r.getD i1 0) 0)
        let _ := nAux
        (target, dot ((T n).getD i2 []) col))))
  writes.foldl (fun st (t, v) => st.set t v) state

end Pq.Index
