/-
L1 `ClementsSched`: the elimination schedule of piquasso/decompositions/clements.py `clements`:
`for column in reversed(range(d-1))`: even columns → `_apply_direct_beamsplitters` (row mixing from the
left, `j` ascending, rows `(column+j, column+j+1)`, nulling entry `(column+j+1, j)`), odd columns →
`_apply_inverse_beamsplitters` (column mixing from the right, `j` descending, columns `(j, j+1)`, nulling
entry `(column+j+1, j)`); and the bookkeeping of `_commute` on angles measured in units of π.  Core Lean only.
-/
namespace Pq.ClementsSched

inductive Side | row | col
  deriving DecidableEq, Repr

structure Step where
  side : Side
  m0 : Nat          -- the two mixed rows (side = row) or columns (side = col): m0, m0 + 1
  ti : Nat          -- nulled entry (ti, tj)
  tj : Nat
  deriving DecidableEq, Repr

def directSteps (d column : Nat) : List Step :=
  (List.range (d - 1 - column)).map (fun j => ⟨.row, column + j, column + j + 1, j⟩)

def inverseSteps (d column : Nat) : List Step :=
  (List.range (d - 1 - column)).reverse.map (fun j => ⟨.col, j, column + j + 1, j⟩)

/-- all steps in execution order -/
def schedule (d : Nat) : List Step :=
  (List.range (d - 1)).reverse.flatMap (fun column =>
    if column % 2 = 0 then directSteps d column else inverseSteps d column)

/-- positions a step may change: the two mixed rows / columns -/
def touches (s : Step) (i j : Nat) : Bool :=
  match s.side with
  | .row => i == s.m0 || i == s.m0 + 1
  | .col => j == s.m0 || j == s.m0 + 1

/-- partner of a touched position under the mixing -/
def partner (s : Step) (i j : Nat) : Nat × Nat :=
  match s.side with
  | .row => (if i == s.m0 then s.m0 + 1 else s.m0, j)
  | .col => (i, if j == s.m0 then s.m0 + 1 else s.m0)

/-- a step is safe w.r.t. the already nulled positions `Z`: the nulled entry is touched, its partner is
inside the matrix, and every nulled position it touches has its partner nulled too (so zeros survive) -/
def stepOk (d : Nat) (Z : List (Nat × Nat)) (s : Step) : Bool :=
  s.m0 + 1 < d && s.ti < d && s.tj < d && touches s s.ti s.tj &&
  Z.all (fun p => !touches s p.1 p.2 || Z.contains (partner s p.1 p.2))

def schedOkAux (d : Nat) : List (Nat × Nat) → List Step → Bool
  | _, [] => true
  | Z, s :: rest => stepOk d Z s && schedOkAux d ((s.ti, s.tj) :: Z) rest

/-- the whole schedule keeps its zeros, and nulls exactly the strict lower triangle -/
def schedOk (d : Nat) : Bool :=
  schedOkAux d [] (schedule d) &&
  (List.range d).all (fun i => (List.range i).all (fun j => (schedule d).any (fun s => s.ti == i && s.tj == j))) &&
  (schedule d).length == d * (d - 1) / 2

/-! `_commute`: angles in units of π (a value `q` stands for the angle `q·π`), `np.mod(x, 2π)` is `q mod 2` -/

structure BSq where
  m0 : Nat
  theta : Rat
  phi : Rat
  deriving Repr, DecidableEq

def mod2 (q : Rat) : Rat := q - 2 * ((q / 2).floor : Rat)

/-- `_get_commute_angles` -/
def commuteAngles (theta phi phi1 phi2 : Rat) : Rat × Rat × Rat × Rat :=
  (theta, mod2 (phi1 - phi2 + 1), mod2 (phi2 - phi + 1), phi2)

/-- `_commute(middle_phaseshifters, last_beamsplitters)` -/
def commute (phases : List Rat) (bss : List BSq) : List BSq × List Rat :=
  bss.foldl (fun (acc : List BSq × List Rat) bs =>
    let ph := acc.2
    let (t, p, p1, p2) := commuteAngles bs.theta bs.phi (ph.getD bs.m0 0) (ph.getD (bs.m0 + 1) 0)
    (acc.1 ++ [⟨bs.m0, t, p⟩], (ph.set bs.m0 p1).set (bs.m0 + 1) p2)) ([], phases)

end Pq.ClementsSched
