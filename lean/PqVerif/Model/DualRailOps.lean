import PqVerif.Gen.Gates

/-
L2 `DualRailOps`: the meaning of the instruction lists emitted by piquasso/dual_rail_encoding.py as
interferometers on the local modes of a gate: phase shifters and beamsplitters (their 1×1 / 2×2 blocks are
the GENERATED `Pq.Gen.Gates.Phaseshifter_passive` / `Beamsplitter_passive`) embedded in the identity, and
composed in program order (later instructions multiply from the left).
-/
namespace Pq.DualRailOps
open Matrix Pq.Gen.Gates

inductive Op (n : Nat)
  | ps (m : Fin n) (phi : ℝ)
  | bs (i j : Fin n) (theta phi : ℝ)

/-- the embedded matrix of one instruction (piquasso embeds the block on `modes` into the identity) -/
noncomputable def Op.mat {n : Nat} : Op n → Matrix (Fin n) (Fin n) ℂ
  | .ps m phi => Matrix.diagonal (fun k => if k = m then Phaseshifter_passive phi 0 0 else 1)
  | .bs i j theta phi => fun a b =>
      let B := Beamsplitter_passive theta phi
      if a = i ∧ b = i then B 0 0
      else if a = i ∧ b = j then B 0 1
      else if a = j ∧ b = i then B 1 0
      else if a = j ∧ b = j then B 1 1
      else if a = b then 1 else 0

/-- the interferometer of an instruction list -/
noncomputable def seq {n : Nat} (l : List (Op n)) : Matrix (Fin n) (Fin n) ℂ :=
  l.foldl (fun acc o => o.mat * acc) 1

/-! target qubit gates (Qiskit conventions) -/
noncomputable def qH : Matrix (Fin 2) (Fin 2) ℂ :=
  !![(1 / Real.sqrt 2 : ℝ), (1 / Real.sqrt 2 : ℝ); (1 / Real.sqrt 2 : ℝ), (-(1 / Real.sqrt 2) : ℝ)]
def qX : Matrix (Fin 2) (Fin 2) ℂ := !![0, 1; 1, 0]
def qY : Matrix (Fin 2) (Fin 2) ℂ := !![0, -Complex.I; Complex.I, 0]
def qZ : Matrix (Fin 2) (Fin 2) ℂ := !![1, 0; 0, -1]
noncomputable def qRx (t : ℝ) : Matrix (Fin 2) (Fin 2) ℂ :=
  !![(Real.cos (t / 2) : ℝ), -Complex.I * (Real.sin (t / 2) : ℝ); -Complex.I * (Real.sin (t / 2) : ℝ), (Real.cos (t / 2) : ℝ)]
noncomputable def qRy (t : ℝ) : Matrix (Fin 2) (Fin 2) ℂ :=
  !![(Real.cos (t / 2) : ℝ), (-(Real.sin (t / 2)) : ℝ); (Real.sin (t / 2) : ℝ), (Real.cos (t / 2) : ℝ)]
noncomputable def qRz (t : ℝ) : Matrix (Fin 2) (Fin 2) ℂ :=
  !![Complex.exp (-(Complex.I * (t / 2 : ℝ))), 0; 0, Complex.exp (Complex.I * (t / 2 : ℝ))]
noncomputable def qU (t p l : ℝ) : Matrix (Fin 2) (Fin 2) ℂ :=
  !![(Real.cos (t / 2) : ℝ), -(Complex.exp (Complex.I * l) * (Real.sin (t / 2) : ℝ));
     Complex.exp (Complex.I * p) * (Real.sin (t / 2) : ℝ), Complex.exp (Complex.I * (p + l : ℝ)) * (Real.cos (t / 2) : ℝ)]
noncomputable def qP (l : ℝ) : Matrix (Fin 2) (Fin 2) ℂ := !![1, 0; 0, Complex.exp (Complex.I * l)]

/-- the real 4×4 interferometer of the KLM CZ block on local modes `[control, target, aux1, aux2]` with
`c1 = cos θ₁`, `s1 = sin θ₁`, `c2 = cos θ₂`, `s2 = sin θ₂`: phases `π` on modes 0, 1, then beamsplitters
`θ₁` on (0,2), `θ₁` on (1,3), `-θ₁` on (0,1), `θ₂` on (2,3) -/
def rot {K : Type} [Ring K] (i j : Fin 4) (c s : K) : Matrix (Fin 4) (Fin 4) K := fun a b =>
  if a = i ∧ b = i then c else if a = i ∧ b = j then -s else if a = j ∧ b = i then s
  else if a = j ∧ b = j then c else if a = b then 1 else 0

def czMat {K : Type} [Ring K] (c1 s1 c2 s2 : K) : Matrix (Fin 4) (Fin 4) K :=
  rot 2 3 c2 s2 * (rot 0 1 c1 (-s1) * (rot 1 3 c1 s1 * (rot 0 2 c1 s1 *
    (Matrix.diagonal (fun k : Fin 4 => if k = 0 ∨ k = 1 then (-1 : K) else 1)))))

end Pq.DualRailOps
