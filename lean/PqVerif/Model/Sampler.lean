/-
L5 `Sampler`: finite distributions over ℚ and the sampling schemes used by the measurement steps
(piquasso/_simulators/passive/sampling.py `_sample_from_pmf`, `generate_marginal_samples`,
`_generate_sample_with_postselect`; gaussian/simulation_steps.py `_generate_sample`,
threshold sampling; `_utils.sample_from_probability_map`): draw the next symbol from a table of
conditional weights, optionally aborting a trial as soon as it can no longer be accepted.
Core Lean only.
-/
namespace Pq.Sampler

/-- a finite (sub-)distribution: outcomes with rational weights -/
abbrev Dist (α : Type) := List (α × Rat)

def Dist.pure {α} (a : α) : Dist α := [(a, 1)]

def Dist.bind {α β} (d : Dist α) (f : α → Dist β) : Dist β :=
  d.flatMap (fun (a, p) => (f a).map (fun (b, q) => (b, p * q)))

/-- total weight of an outcome -/
def prob {α} [DecidableEq α] (d : Dist α) (a : α) : Rat :=
  ((d.filter (fun e => e.1 = a)).map (·.2)).sum

/-- one inverse-CDF draw from unnormalised weights `w` over the alphabet `A`
(`rng.choice(A, p = w / sum(w))`) -/
def draw {α} (A : List α) (w : α → Rat) : Dist α :=
  let z := (A.map w).sum
  A.map (fun a => (a, w a / z))

/-- chain-rule sampler: `k` symbols, the next one drawn with weights `w prefix` -/
def chain {α} (A : List α) (w : List α → α → Rat) : Nat → Dist (List α)
  | 0 => Dist.pure []
  | k + 1 => (chain A w k).bind (fun l => (draw A (w l)).map (fun (a, p) => (l ++ [a], p)))

/-- the same sampler with early abort: a trial stops (outcome `none`) as soon as its prefix is `bad` -/
def chainAbort {α} (A : List α) (w : List α → α → Rat) (bad : List α → Bool) : Nat → Dist (Option (List α))
  | 0 => Dist.pure (some [])
  | k + 1 => (chainAbort A w bad k).bind (fun o =>
      match o with
      | none => Dist.pure none
      | some l =>
        (draw A (w l)).map (fun (a, p) => (if bad (l ++ [a]) then none else some (l ++ [a]), p)))

end Pq.Sampler
