import Mathlib.Tactic
import Mathlib.Analysis.SpecialFunctions.Sqrt
import Mathlib.Analysis.Complex.Basic

/-!
C03 (shots = None): the chain rule of projective measurement on a pure state with amplitudes `ψ (a, b, c)`
(`a` = outcome of the modes measured first, `b` = outcome of the modes measured second, `c` = the remaining modes),
as the simulators implement it: branch weight = outcome probability of the (normalised) state handed to the
measurement, branch state = projection divided by the square root of that probability, weights multiply.
-/
namespace Pq.MeasureChain
open BigOperators

set_option linter.unusedSectionVars false

variable {A B C : Type} [Fintype A] [Fintype B] [Fintype C]

/-- probability of the first outcome `a` -/
def pA (ψ : A × B × C → ℂ) (a : A) : ℝ := ∑ b, ∑ c, Complex.normSq (ψ (a, b, c))

/-- the branch state after outcome `a`: projection divided by `√pA` (`project_to_subspace` with
`normalization = sqrt(1 / probability)`) -/
noncomputable def post (ψ : A × B × C → ℂ) (a : A) : B × C → ℂ :=
  fun bc => ψ (a, bc.1, bc.2) / (Real.sqrt (pA ψ a) : ℂ)

/-- probability of outcome `b` in a state on `B × C` -/
def pB (φ : B × C → ℂ) (b : B) : ℝ := ∑ c, Complex.normSq (φ (b, c))

/-- joint probability when both groups of modes are measured together -/
def pAB (ψ : A × B × C → ℂ) (a : A) (b : B) : ℝ := ∑ c, Complex.normSq (ψ (a, b, c))

theorem pA_nonneg (ψ : A × B × C → ℂ) (a : A) : 0 ≤ pA ψ a :=
  Finset.sum_nonneg fun _ _ => Finset.sum_nonneg fun _ _ => Complex.normSq_nonneg _

theorem pAB_nonneg (ψ : A × B × C → ℂ) (a : A) (b : B) : 0 ≤ pAB ψ a b :=
  Finset.sum_nonneg fun _ _ => Complex.normSq_nonneg _

theorem normSq_post (ψ : A × B × C → ℂ) (a : A) (bc : B × C) :
    Complex.normSq (post ψ a bc) = Complex.normSq (ψ (a, bc.1, bc.2)) / pA ψ a := by
  unfold post
  rw [Complex.normSq_div, Complex.normSq_ofReal, Real.mul_self_sqrt (pA_nonneg ψ a)]

theorem pB_post (ψ : A × B × C → ℂ) (a : A) (b : B) :
    pB (post ψ a) b = pAB ψ a b / pA ψ a := by
  unfold pB pAB
  rw [Finset.sum_div]
  exact Finset.sum_congr rfl fun c _ => normSq_post ψ a (b, c)

/-- the branch weights sum to the squared norm of the measured state -/
theorem weights_sum (ψ : A × B × C → ℂ) : ∑ a, pA ψ a = ∑ x, Complex.normSq (ψ x) := by
  unfold pA
  rw [Fintype.sum_prod_type]
  refine Finset.sum_congr rfl fun a _ => ?_
  rw [Fintype.sum_prod_type]

/-- every branch state is normalised -/
theorem post_normalised (ψ : A × B × C → ℂ) (a : A) (h : pA ψ a ≠ 0) :
    ∑ bc, Complex.normSq (post ψ a bc) = 1 := by
  simp_rw [normSq_post]
  rw [← Finset.sum_div, Fintype.sum_prod_type]
  exact div_self h

/-- measuring one group after the other gives the joint distribution: weight of the first branch times the
probability of the second outcome in the branch state -/
theorem sequential_eq_joint (ψ : A × B × C → ℂ) (a : A) (b : B) (h : pA ψ a ≠ 0) :
    pA ψ a * pB (post ψ a) b = pAB ψ a b := by
  rw [pB_post, mul_div_cancel₀ _ h]

/-- outcomes of probability zero never appear as branches with positive joint weight -/
theorem joint_zero_of_first_zero (ψ : A × B × C → ℂ) (a : A) (b : B) (h : pA ψ a = 0) : pAB ψ a b = 0 := by
  unfold pA at h
  rw [Finset.sum_eq_zero_iff_of_nonneg
    (fun _ _ => Finset.sum_nonneg fun _ _ => Complex.normSq_nonneg _)] at h
  exact h b (Finset.mem_univ b)

/-- the state after both measurements does not depend on the order of projection and normalisation:
projecting the branch state on `b` and normalising equals projecting `ψ` on `(a, b)` and normalising -/
theorem final_branch_state (ψ : A × B × C → ℂ) (a : A) (b : B) (h : pA ψ a ≠ 0) (hb : pAB ψ a b ≠ 0) (c : C) :
    post ψ a (b, c) / (Real.sqrt (pB (post ψ a) b) : ℂ) = ψ (a, b, c) / (Real.sqrt (pAB ψ a b) : ℂ) := by
  have hA : 0 < pA ψ a := lt_of_le_of_ne (pA_nonneg ψ a) (Ne.symm h)
  have hAB : 0 < pAB ψ a b := lt_of_le_of_ne (pAB_nonneg ψ a b) (Ne.symm hb)
  have h1 : (Real.sqrt (pA ψ a) : ℂ) ≠ 0 := Complex.ofReal_ne_zero.mpr (Real.sqrt_pos.mpr hA).ne'
  have h2 : (Real.sqrt (pAB ψ a b) : ℂ) ≠ 0 := Complex.ofReal_ne_zero.mpr (Real.sqrt_pos.mpr hAB).ne'
  rw [pB_post, Real.sqrt_div hAB.le, Complex.ofReal_div]
  unfold post
  field_simp

end Pq.MeasureChain
