import Mathlib.Tactic
import Mathlib.LinearAlgebra.Matrix.Determinant.Basic
import Mathlib.Data.Finset.Sort
import Mathlib.Data.Fintype.Powerset
import Mathlib.LinearAlgebra.UnitaryGroup

/-!
Cauchy–Binet, and its consequence for the fermionic representation of an interferometer:
the matrix of `k × k` minors of a product is the product of the matrices of minors, so the
`k`-particle block of a unitary is unitary (probabilities of a fermionic Fock state sum to one after
any passive gate, for every input state).
-/
namespace Pq.CauchyBinet
open Matrix BigOperators

variable {K : Type} [CommRing K]

/-- increasing enumeration of a `k`-subset of `Fin n` -/
noncomputable def enum {n k : Nat} (S : {S : Finset (Fin n) // S.card = k}) : Fin k → Fin n :=
  fun i => (S.1.orderEmbOfFin S.2) i

/-- the `k`-th compound matrix: all `k × k` minors, indexed by `k`-subsets -/
noncomputable def compound {m n : Nat} (k : Nat) (A : Matrix (Fin m) (Fin n) K) :
    Matrix {S : Finset (Fin m) // S.card = k} {S : Finset (Fin n) // S.card = k} K :=
  Matrix.of fun R C => (A.submatrix (enum R) (enum C)).det

theorem enum_mem {n k : Nat} (S : {S : Finset (Fin n) // S.card = k}) (i : Fin k) :
    enum S i ∈ S.1 :=
  Finset.orderEmbOfFin_mem S.1 S.2 i

theorem enum_injective {n k : Nat} (S : {S : Finset (Fin n) // S.card = k}) :
    Function.Injective (enum S) :=
  (S.1.orderEmbOfFin S.2).injective

theorem range_enum {n k : Nat} (S : {S : Finset (Fin n) // S.card = k}) :
    Set.range (enum S) = (S.1 : Set (Fin n)) :=
  Finset.range_orderEmbOfFin S.1 S.2

/-- the parametrisation of injective maps by (image, permutation) -/
noncomputable def param {n m : Nat} (x : {S : Finset (Fin n) // S.card = m} × Equiv.Perm (Fin m)) :
    Fin m → Fin n :=
  enum x.1 ∘ x.2

theorem param_injective {n m : Nat} : Function.Injective (param (n := n) (m := m)) := by
  rintro ⟨S, σ⟩ ⟨T, τ⟩ h
  simp only [param] at h
  have hST : S = T := by
    apply Subtype.ext
    apply Finset.coe_injective
    rw [← range_enum S, ← range_enum T]
    have h1 : Set.range (enum S ∘ σ) = Set.range (enum S) := σ.surjective.range_comp _
    have h2 : Set.range (enum T ∘ τ) = Set.range (enum T) := τ.surjective.range_comp _
    rw [← h1, ← h2, h]
  subst hST
  have : σ = τ := by
    ext i
    have := congrFun h i
    simp only [Function.comp_apply] at this
    exact congrArg _ (enum_injective S this)
  rw [this]

theorem mem_range_param {n m : Nat} (f : Fin m → Fin n) (hf : Function.Injective f) :
    f ∈ Set.range (param (n := n) (m := m)) := by
  classical
  have hcard : (Finset.univ.image f).card = m := by
    rw [Finset.card_image_of_injective _ hf]; simp
  let S : {S : Finset (Fin n) // S.card = m} := ⟨Finset.univ.image f, hcard⟩
  have hmem : ∀ i, f i ∈ S.1 := fun i => Finset.mem_image_of_mem f (Finset.mem_univ i)
  let t : Fin m → Fin m := fun i => (S.1.orderIsoOfFin S.2).symm ⟨f i, hmem i⟩
  have ht : ∀ i, enum S (t i) = f i := by
    intro i
    have : ((S.1.orderIsoOfFin S.2) (t i) : Fin n) = f i := by
      simp [t]
    simpa [enum, Finset.coe_orderIsoOfFin_apply] using this
  have tinj : Function.Injective t := by
    intro i j hij
    apply hf
    rw [← ht i, ← ht j, hij]
  have tbij : Function.Bijective t := Finite.injective_iff_bijective.mp tinj
  refine ⟨(S, Equiv.ofBijective t tbij), ?_⟩
  funext i
  simp [param, ht]

theorem det_mul_expand {m n : Nat} (A : Matrix (Fin m) (Fin n) K) (B : Matrix (Fin n) (Fin m) K) :
    (A * B).det = ∑ f : Fin m → Fin n, (∏ i, A i (f i)) * (B.submatrix f id).det := by
  rw [← det_transpose (A * B)]
  simp only [det_apply' (A * B)ᵀ, transpose_apply, mul_apply, Finset.prod_univ_sum,
    Fintype.piFinset_univ, Finset.mul_sum]
  rw [Finset.sum_comm]
  refine Finset.sum_congr rfl fun f _ => ?_
  rw [← det_transpose (B.submatrix f id), det_apply', Finset.mul_sum]
  refine Finset.sum_congr rfl fun σ _ => ?_
  simp only [transpose_apply, submatrix_apply, id_eq, Finset.prod_mul_distrib]
  ring

theorem det_submatrix_not_injective {m n : Nat} (B : Matrix (Fin n) (Fin m) K) (f : Fin m → Fin n)
    (hf : ¬ Function.Injective f) : (B.submatrix f id).det = 0 := by
  simp only [Function.Injective, not_forall] at hf
  obtain ⟨i, j, hij, hne⟩ := hf
  refine det_zero_of_row_eq hne ?_
  funext c
  simp [submatrix_apply, hij]

theorem cauchy_binet {m n : Nat} (A : Matrix (Fin m) (Fin n) K) (B : Matrix (Fin n) (Fin m) K) :
    (A * B).det = ∑ S : {S : Finset (Fin n) // S.card = m},
      (A.submatrix id (enum S)).det * (B.submatrix (enum S) id).det := by
  rw [det_mul_expand]
  rw [← Fintype.sum_of_injective param param_injective
    (fun x : {S : Finset (Fin n) // S.card = m} × Equiv.Perm (Fin m) =>
      (∏ i, A i (param x i)) * (B.submatrix (param x) id).det)
    (fun f => (∏ i, A i (f i)) * (B.submatrix f id).det)
    (fun f hf => by
      rw [det_submatrix_not_injective B f (fun h => hf (mem_range_param f h)), mul_zero])
    (fun _ => rfl)]
  rw [Fintype.sum_prod_type]
  refine Finset.sum_congr rfl fun S _ => ?_
  rw [← det_transpose (A.submatrix id (enum S)), det_apply', Finset.sum_mul]
  refine Finset.sum_congr rfl fun τ _ => ?_
  have h : B.submatrix (param (S, τ)) id = (B.submatrix (enum S) id).submatrix τ id := rfl
  rw [h, det_permute]
  simp only [param, transpose_apply, submatrix_apply, id_eq, Function.comp_apply]
  ring

theorem compound_mul {l m n : Nat} (k : Nat) (A : Matrix (Fin l) (Fin m) K) (B : Matrix (Fin m) (Fin n) K) :
    compound k (A * B) = compound k A * compound k B := by
  ext R C
  have h : (A * B).submatrix (enum R) (enum C)
      = A.submatrix (enum R) id * B.submatrix id (enum C) := by
    ext i j
    simp [mul_apply]
  simp only [compound, of_apply, mul_apply, h, cauchy_binet]
  rfl

theorem compound_one {n : Nat} (k : Nat) : compound k (1 : Matrix (Fin n) (Fin n) K) = 1 := by
  ext R C
  simp only [compound, of_apply]
  by_cases hRC : R = C
  · subst hRC
    rw [submatrix_one _ (enum_injective R), det_one, one_apply_eq]
  · rw [one_apply_ne hRC]
    have : ∃ x ∈ R.1, x ∉ C.1 := by
      by_contra hcon
      push Not at hcon
      apply hRC
      apply Subtype.ext
      exact Finset.eq_of_subset_of_card_le hcon (by rw [R.2, C.2])
    obtain ⟨x, hxR, hxC⟩ := this
    have : x ∈ Set.range (enum R) := by rw [range_enum]; exact hxR
    obtain ⟨i, rfl⟩ := this
    refine det_eq_zero_of_row_eq_zero i fun j => ?_
    rw [submatrix_apply, one_apply_ne]
    intro h
    exact hxC (h ▸ enum_mem C j)

theorem compound_conjTranspose {m n : Nat} (k : Nat) (A : Matrix (Fin m) (Fin n) ℂ) :
    compound k Aᴴ = (compound k A)ᴴ := by
  ext R C
  simp only [compound, of_apply, conjTranspose_apply]
  rw [← det_conjTranspose]
  rfl

/-- every particle-number block of the fermionic representation of a unitary is unitary -/
theorem compound_unitary {n : Nat} (k : Nat) (U : Matrix (Fin n) (Fin n) ℂ) (hU : U ∈ Matrix.unitaryGroup (Fin n) ℂ) :
    compound k U ∈ Matrix.unitaryGroup _ ℂ := by
  rw [Matrix.mem_unitaryGroup_iff] at hU ⊢
  rw [star_eq_conjTranspose] at hU ⊢
  rw [← compound_conjTranspose, ← compound_mul, hU, compound_one]

end Pq.CauchyBinet
