import Mathlib.Tactic
import Mathlib.LinearAlgebra.Matrix.Permanent
import Mathlib.Data.Matrix.Block
import PqVerif.Gen.DualRail
import PqVerif.Model.FockRep
import PqVerif.Lemmas.PermSpec

/-!
C19: the instruction lists that `dual_rail_encoding.py` emits (GENERATED `Gen/DualRail.lean`) are, as
interferometers on the two rails, exactly the qubit gates — for every angle, with no residual phase; the
KLM block realises CZ on the heralded subspace for Knill's angles; a layer of single-qubit gates acts on
dual-rail basis states as the tensor product.
-/
namespace Pq.DualRailLaws
open Matrix Pq.DualRailOps Pq.Gen.DualRail Pq.FockRep Pq.Kernel Pq.Gen.Gates

/-! embedded matrices of the instructions on two rails -/
theorem ps1_mat (φ : ℝ) : (Op.ps 1 φ : Op 2).mat = !![1, 0; 0, Complex.exp (Complex.I * φ)] := by
  ext i j; fin_cases i <;> fin_cases j <;> simp [Op.mat, Phaseshifter_passive, Matrix.diagonal]

theorem ps0_mat (φ : ℝ) : (Op.ps 0 φ : Op 2).mat = !![Complex.exp (Complex.I * φ), 0; 0, 1] := by
  ext i j; fin_cases i <;> fin_cases j <;> simp [Op.mat, Phaseshifter_passive, Matrix.diagonal]

theorem bs01_mat (θ φ : ℝ) : (Op.bs 0 1 θ φ : Op 2).mat =
    !![(Real.cos θ : ℂ), -(Complex.exp (-(Complex.I * φ)) * Real.sin θ);
       Complex.exp (Complex.I * φ) * Real.sin θ, (Real.cos θ : ℂ)] := by
  ext i j; fin_cases i <;> fin_cases j <;>
    simp [Op.mat, Beamsplitter_passive, ← Complex.exp_conj, Complex.conj_ofReal,
      -Complex.ofReal_sin, -Complex.ofReal_cos]

/-- success probability of the heralded CZ -/
theorem klm_success_probability {K : Type} [Field K] [CharZero K] (s1 : K) (h2 : 3 * s1 ^ 2 = 2) :
    (s1 / 3) ^ 2 = 2 / 27 := by
  field_simp
  linear_combination 9 * h2

/-- a layer of single-qubit gates `V k` on the rails of qubit `k` (block-diagonal interferometer; mode
`(rail, qubit)`): the amplitude between dual-rail basis states `b → b'` (the permanent of the submatrix on the
occupied modes) is the product of the qubit-gate matrix elements, i.e. the matrix element of `⊗ₖ V k` -/
theorem dualrail_layer {K : Type} [CommRing K] {n : Nat} (V : Fin n → Matrix (Fin 2) (Fin 2) K) (b b' : Fin n → Fin 2) :
    Matrix.permanent (Matrix.of fun k l : Fin n => Matrix.blockDiagonal V (b' k, k) (b l, l)) = ∏ k, V k (b' k) (b k) := by
  have : (Matrix.of fun k l : Fin n => Matrix.blockDiagonal V (b' k, k) (b l, l)) =
      Matrix.diagonal (fun k => V k (b' k) (b k)) := by
    ext k l
    by_cases h : k = l
    · subst h; simp [Matrix.blockDiagonal_apply]
    · simp [Matrix.blockDiagonal_apply, h]
  rw [this, Matrix.permanent_diagonal]

/-- Knill's angles: `3 cos² θ₁ = 1`, `θ₂ = π/4 - θ₁/2` satisfy the polynomial conditions of `klm_cz` -/
theorem knill_angles (t1 : ℝ) (h : 3 * Real.cos t1 ^ 2 = 1) :
    3 * Real.sin t1 ^ 2 = 2 ∧
    Real.cos (Real.pi / 4 - t1 / 2) ^ 2 - Real.sin (Real.pi / 4 - t1 / 2) ^ 2 = Real.sin t1 ∧
    2 * Real.cos (Real.pi / 4 - t1 / 2) * Real.sin (Real.pi / 4 - t1 / 2) = Real.cos t1 := by
  have e : 2 * (Real.pi / 4 - t1 / 2) = Real.pi / 2 - t1 := by ring
  refine ⟨?_, ?_, ?_⟩
  · have := Real.sin_sq_add_cos_sq t1
    linarith
  · have h1 := Real.cos_two_mul (Real.pi / 4 - t1 / 2)
    have h2 := Real.sin_sq_add_cos_sq (Real.pi / 4 - t1 / 2)
    rw [e, Real.cos_pi_div_two_sub] at h1
    linarith
  · have h1 := Real.sin_two_mul (Real.pi / 4 - t1 / 2)
    rw [e, Real.sin_pi_div_two_sub] at h1
    linarith


theorem e_pi : ((1:ℝ) * Real.pi / 1) = Real.pi := by ring
theorem e_pi2 : ((1:ℝ) * Real.pi / 2) = Real.pi / 2 := by ring
theorem e_pi4 : ((1:ℝ) * Real.pi / 4) = Real.pi / 4 := by ring
theorem e_npi2 : (-(1:ℝ) * Real.pi / 2) = -(Real.pi / 2) := by ring

theorem exp_I_pi : Complex.exp (Complex.I * (Real.pi : ℝ)) = -1 := by
  rw [mul_comm]; exact Complex.exp_pi_mul_I

theorem dr_z_eq : seq dr_z = qZ := by
  simp only [seq, dr_z, List.foldl, ps1_mat, e_pi, exp_I_pi, qZ, mul_one]

theorem dr_p_eq (l : ℝ) : seq (dr_p l) = qP l := by
  simp only [seq, dr_p, List.foldl, ps1_mat, qP, mul_one]

theorem dr_x_eq : seq dr_x = qX := by
  simp only [seq, dr_x, List.foldl, ps1_mat, bs01_mat, e_pi, e_pi2, exp_I_pi, qX, mul_one]
  ext i j; fin_cases i <;> fin_cases j <;> simp [Matrix.mul_apply, Fin.sum_univ_two]


theorem exp_I_real (x : ℝ) : Complex.exp (Complex.I * (x : ℝ)) = (Real.cos x : ℂ) + (Real.sin x : ℂ) * Complex.I := by
  rw [mul_comm, Complex.exp_mul_I, Complex.ofReal_cos, Complex.ofReal_sin]

theorem exp_nI_real (x : ℝ) : Complex.exp (-(Complex.I * (x : ℝ))) = (Real.cos x : ℂ) - (Real.sin x : ℂ) * Complex.I := by
  have : -(Complex.I * (x : ℂ)) = Complex.I * ((-x : ℝ) : ℂ) := by push_cast; ring
  rw [this, exp_I_real, Real.cos_neg, Real.sin_neg]; push_cast; ring

theorem sqrt_half : (Real.sqrt 2 / 2 : ℝ) = 1 / Real.sqrt 2 := Real.sqrt_div_self'

theorem dr_h_eq : seq dr_h = qH := by
  simp only [seq, dr_h, List.foldl, ps1_mat, bs01_mat, e_pi, e_pi4, exp_I_pi, qH, mul_one,
    Real.cos_pi_div_four, Real.sin_pi_div_four, sqrt_half]
  ext i j; fin_cases i <;> fin_cases j <;> simp [Matrix.mul_apply, Fin.sum_univ_two]

theorem dr_y_eq : seq dr_y = qY := by
  simp only [seq, dr_y, List.foldl, ps1_mat, bs01_mat, e_pi, e_npi2, e_pi2, qY, mul_one,
    exp_I_real, exp_nI_real, Real.cos_neg, Real.sin_neg, Real.cos_pi_div_two, Real.sin_pi_div_two]
  ext i j; fin_cases i <;> fin_cases j <;> simp [Matrix.mul_apply, Fin.sum_univ_two]

theorem dr_rx_eq (t : ℝ) : seq (dr_rx t) = qRx t := by
  simp only [seq, dr_rx, List.foldl, bs01_mat, e_npi2, qRx, mul_one,
    exp_I_real, exp_nI_real, Real.cos_neg, Real.sin_neg, Real.cos_pi_div_two, Real.sin_pi_div_two]
  ext i j; fin_cases i <;> fin_cases j <;> simp

theorem dr_ry_eq (t : ℝ) : seq (dr_ry t) = qRy t := by
  simp only [seq, dr_ry, List.foldl, bs01_mat, qRy, mul_one]
  ext i j; fin_cases i <;> fin_cases j <;> simp

theorem dr_rz_eq (t : ℝ) : seq (dr_rz t) = qRz t := by
  have e1 : ((-((1 : ℝ) / 2)) * t) = -(t / 2) := by ring
  have e2 : (((1 : ℝ) / 2) * t) = t / 2 := by ring
  simp only [seq, dr_rz, List.foldl, ps1_mat, ps0_mat, qRz, mul_one, e1, e2]
  ext i j; fin_cases i <;> fin_cases j <;> simp [Matrix.mul_apply, Fin.sum_univ_two]

theorem dr_u_eq (t p l : ℝ) : seq (dr_u t p l) = qU t p l := by
  simp only [seq, dr_u, List.foldl, ps1_mat, bs01_mat, qU, mul_one]
  ext i j; fin_cases i <;> fin_cases j <;>
    simp [Matrix.mul_apply, Fin.sum_univ_two, mul_add, Complex.exp_add]
  all_goals ring

theorem bs_mat4 (i j : Fin 4) (θ : ℝ) : (Op.bs i j θ 0 : Op 4).mat =
    (rot i j (Real.cos θ) (Real.sin θ)).map ((↑) : ℝ → ℂ) := by
  ext a b
  simp only [Op.mat, rot, Beamsplitter_passive, Matrix.map_apply]
  split_ifs <;> simp [-Complex.ofReal_sin, -Complex.ofReal_cos, Complex.conj_ofReal]

theorem ps_mat4 (m : Fin 4) : (Op.ps m Real.pi : Op 4).mat =
    (Matrix.diagonal (fun k : Fin 4 => if k = m then (-1 : ℝ) else 1)).map ((↑) : ℝ → ℂ) := by
  ext a b
  simp only [Op.mat, Phaseshifter_passive, exp_I_pi, Matrix.map_apply, Matrix.diagonal_apply]
  split_ifs <;> simp

theorem map_mul_ofReal (A B : Matrix (Fin 4) (Fin 4) ℝ) :
    (A * B).map ((↑) : ℝ → ℂ) = A.map ((↑) : ℝ → ℂ) * B.map ((↑) : ℝ → ℂ) :=
  Matrix.map_mul (f := Complex.ofRealHom)

/-- the KLM block is the real interferometer `czMat` of its beamsplitter angles -/
theorem dr_cz_eq (t1 t2 : ℝ) :
    seq (dr_cz t1 t2) = (czMat (Real.cos t1) (Real.sin t1) (Real.cos t2) (Real.sin t2)).map ((↑) : ℝ → ℂ) := by
  have hd : (Matrix.diagonal (fun k : Fin 4 => if k = 0 ∨ k = 1 then (-1 : ℝ) else 1)) =
      Matrix.diagonal (fun k : Fin 4 => if k = 1 then (-1 : ℝ) else 1) *
      Matrix.diagonal (fun k : Fin 4 => if k = 0 then (-1 : ℝ) else 1) := by
    rw [Matrix.diagonal_mul_diagonal]
    congr 1; ext k; fin_cases k <;> simp
  simp only [seq, dr_cz, List.foldl, e_pi, bs_mat4, ps_mat4, mul_one, czMat, hd]
  simp only [Real.cos_neg, Real.sin_neg, map_mul_ofReal]

/-! the 16 entries of `czMat`, and the cofactors (sympy `reduced`) of the 8 heralded amplitudes w.r.t. `h1..h4` -/
theorem czMat_eq {K : Type} [CommRing K] (c1 s1 c2 s2 : K) : czMat c1 s1 c2 s2 =
    !![-c1^2, -c1*s1, -c1*s1, -s1^2;
       c1*s1, -c1^2, s1^2, -c1*s1;
       -c2*s1, s1*s2, c1*c2, -c1*s2;
       -s1*s2, -c2*s1, c1*s2, c1*c2] := by
  ext i j
  fin_cases i <;> fin_cases j <;>
    simp [czMat, rot, Matrix.mul_apply, Fin.sum_univ_four, Matrix.diagonal] <;> ring

theorem czList_eq {K : Type} [Field K] (c1 s1 c2 s2 : K) :
    matList (fun i j => czMat c1 s1 c2 s2 i j) =
    [[-c1^2, -c1*s1, -c1*s1, -s1^2],
       [c1*s1, -c1^2, s1^2, -c1*s1],
       [-c2*s1, s1*s2, c1*c2, -c1*s2],
       [-s1*s2, -c2*s1, c1*s2, c1*c2]] := by
  rw [czMat_eq]
  simp [matList, List.finRange_succ]

theorem klm_cz_1 {K : Type} [Field K] [CharZero K] (c1 s1 c2 s2 : K) (h1 : 3 * c1 ^ 2 = 1) (h2 : 3 * s1 ^ 2 = 2)
    (h3 : c2 ^ 2 - s2 ^ 2 = s1) (h4 : 2 * c2 * s2 = c1) :
    fockRepP (matList (fun i j => czMat c1 s1 c2 s2 i j)) [0, 0, 1, 1] [0, 0, 1, 1] = s1 / 3 := by
  rw [czList_eq]
  conv_lhs => simp [fockRepP, repP, firstNonzero, dec, List.range, List.range.loop]
  linear_combination (c2^2/3 - s2^2/3) * h1 + (0) * h2 + (1/3) * h3 + (0) * h4

theorem klm_cz_2 {K : Type} [Field K] [CharZero K] (c1 s1 c2 s2 : K) (h1 : 3 * c1 ^ 2 = 1) (h2 : 3 * s1 ^ 2 = 2)
    (h3 : c2 ^ 2 - s2 ^ 2 = s1) (h4 : 2 * c2 * s2 = c1) :
    fockRepP (matList (fun i j => czMat c1 s1 c2 s2 i j)) [1, 0, 1, 1] [1, 0, 1, 1] = s1 / 3 := by
  rw [czList_eq]
  conv_lhs => simp [fockRepP, repP, firstNonzero, dec, List.range, List.range.loop]
  linear_combination (-c1^2*c2^2/3 + c1^2*s2^2/3 + c2^2*s1^2/3 - c2^2/9 - s1^2*s2^2/3 + 2*s1/9 + s2^2/9) * h1 + (2*c1*c2*s1*s2/3 + c2^2/9 - s2^2/9) * h2 + (1/9) * h3 + (2*c1*s1/3) * h4

theorem klm_cz_3 {K : Type} [Field K] [CharZero K] (c1 s1 c2 s2 : K) (h1 : 3 * c1 ^ 2 = 1) (h2 : 3 * s1 ^ 2 = 2)
    (h3 : c2 ^ 2 - s2 ^ 2 = s1) (h4 : 2 * c2 * s2 = c1) :
    fockRepP (matList (fun i j => czMat c1 s1 c2 s2 i j)) [0, 1, 1, 1] [0, 1, 1, 1] = s1 / 3 := by
  rw [czList_eq]
  conv_lhs => simp [fockRepP, repP, firstNonzero, dec, List.range, List.range.loop]
  linear_combination (-c1^2*c2^2/3 + c1^2*s2^2/3 + c2^2*s1^2/3 - c2^2/9 - s1^2*s2^2/3 + 2*s1/9 + s2^2/9) * h1 + (2*c1*c2*s1*s2/3 + c2^2/9 - s2^2/9) * h2 + (1/9) * h3 + (2*c1*s1/3) * h4

set_option maxHeartbeats 1000000 in
theorem klm_cz_4 {K : Type} [Field K] [CharZero K] (c1 s1 c2 s2 : K) (h1 : 3 * c1 ^ 2 = 1) (h2 : 3 * s1 ^ 2 = 2)
    (h3 : c2 ^ 2 - s2 ^ 2 = s1) (h4 : 2 * c2 * s2 = c1) :
    fockRepP (matList (fun i j => czMat c1 s1 c2 s2 i j)) [1, 1, 1, 1] [1, 1, 1, 1] = -(s1 / 3) := by
  rw [czList_eq]
  conv_lhs => simp [fockRepP, repP, firstNonzero, dec, List.range, List.range.loop]
  linear_combination (c1^4*c2^2/3 - c1^4*s2^2/3 - c1^2*c2^2*s1^2 + c1^2*c2^2/9 + c1^2*s1^2*s2^2 - c1^2*s2^2/9 - 8*c1*c2*s1^3*s2/3 + c2^2*s1^4 - c2^2*s1^2/3 + c2^2/27 - s1^4*s2^2 + s1^2*s2^2/3 - 8*s1/27 - s2^2/27) * h1 + (-8*c1*c2*s1*s2/9 - c2^2*s1^4/3 + c2^2*s1^2/9 - c2^2/27 + s1^4*s2^2/3 - s1^2*s2^2/9 + s2^2/27) * h2 + (-1/27) * h3 + (-8*c1*s1/9) * h4

theorem klm_cz_5 {K : Type} [Field K] [CharZero K] (c1 s1 c2 s2 : K) (h1 : 3 * c1 ^ 2 = 1) (h2 : 3 * s1 ^ 2 = 2)
    (h3 : c2 ^ 2 - s2 ^ 2 = s1) (h4 : 2 * c2 * s2 = c1) :
    fockRepP (matList (fun i j => czMat c1 s1 c2 s2 i j)) [0, 1, 1, 1] [1, 0, 1, 1] = 0 := by
  rw [czList_eq]
  conv_lhs => simp [fockRepP, repP, firstNonzero, dec, List.range, List.range.loop]
  linear_combination (c1*c2^2*s1/3 - c1*s1*s2^2/3 + 2*c2*s1^2*s2/3) * h1 + (-c1*c2^2*s1/3 + c1*s1*s2^2/3 - c1/9 + 2*c2*s2/9) * h2 + (-c1*s1/3) * h3 + (2/9) * h4

theorem klm_cz_6 {K : Type} [Field K] [CharZero K] (c1 s1 c2 s2 : K) (h1 : 3 * c1 ^ 2 = 1) (h2 : 3 * s1 ^ 2 = 2)
    (h3 : c2 ^ 2 - s2 ^ 2 = s1) (h4 : 2 * c2 * s2 = c1) :
    fockRepP (matList (fun i j => czMat c1 s1 c2 s2 i j)) [1, 0, 1, 1] [0, 1, 1, 1] = 0 := by
  rw [czList_eq]
  conv_lhs => simp [fockRepP, repP, firstNonzero, dec, List.range, List.range.loop]
  linear_combination (-c1*c2^2*s1/3 + c1*s1*s2^2/3 - 2*c2*s1^2*s2/3) * h1 + (c1*c2^2*s1/3 - c1*s1*s2^2/3 + c1/9 - 2*c2*s2/9) * h2 + (c1*s1/3) * h3 + (-2/9) * h4

set_option maxHeartbeats 1000000 in
theorem klm_cz_7 {K : Type} [Field K] [CharZero K] (c1 s1 c2 s2 : K) (h1 : 3 * c1 ^ 2 = 1) (h2 : 3 * s1 ^ 2 = 2)
    (h3 : c2 ^ 2 - s2 ^ 2 = s1) (h4 : 2 * c2 * s2 = c1) :
    fockRepP (matList (fun i j => czMat c1 s1 c2 s2 i j)) [2, 0, 1, 1] [1, 1, 1, 1] = 0 := by
  rw [czList_eq]
  conv_lhs => simp [fockRepP, repP, firstNonzero, dec, List.range, List.range.loop]
  linear_combination (2*c1^3*c2^2*s1/3 - 2*c1^3*s1*s2^2/3 + 4*c1^2*c2*s1^2*s2/3 - 4*c1*c2^2*s1^3/3 + 2*c1*c2^2*s1/9 + 4*c1*s1^3*s2^2/3 - 2*c1*s1*s2^2/9 - 4*c2*s1^4*s2/3 + 4*c2*s1^2*s2/9) * h1 + (2*c1*c2^2*s1^3/3 - 2*c1*s1^3*s2^2/3 + 2*c1/27 - 4*c2*s1^2*s2/9 - 4*c2*s2/27) * h2 + (2*c1*s1/9) * h3 + (-4/27) * h4

set_option maxHeartbeats 1000000 in
theorem klm_cz_8 {K : Type} [Field K] [CharZero K] (c1 s1 c2 s2 : K) (h1 : 3 * c1 ^ 2 = 1) (h2 : 3 * s1 ^ 2 = 2)
    (h3 : c2 ^ 2 - s2 ^ 2 = s1) (h4 : 2 * c2 * s2 = c1) :
    fockRepP (matList (fun i j => czMat c1 s1 c2 s2 i j)) [0, 2, 1, 1] [1, 1, 1, 1] = 0 := by
  rw [czList_eq]
  conv_lhs => simp [fockRepP, repP, firstNonzero, dec, List.range, List.range.loop]
  linear_combination (-2*c1^3*c2^2*s1/3 + 2*c1^3*s1*s2^2/3 - 4*c1^2*c2*s1^2*s2/3 + 4*c1*c2^2*s1^3/3 - 2*c1*c2^2*s1/9 - 4*c1*s1^3*s2^2/3 + 2*c1*s1*s2^2/9 + 4*c2*s1^4*s2/3 - 4*c2*s1^2*s2/9) * h1 + (-2*c1*c2^2*s1^3/3 + 2*c1*s1^3*s2^2/3 - 2*c1/27 + 4*c2*s1^2*s2/9 + 4*c2*s2/27) * h2 + (-2*c1*s1/9) * h3 + (4/27) * h4

/-- heralded action of the KLM block (`P[out, in]`, the permanent of `U[out, in]` computed by the simulator's
recurrence, model `FockRep`): with one photon in each auxiliary mode before and after, the dual-rail basis
states `[control rail, target rail]` are mapped to themselves with amplitude `s1/3`, sign-flipped for `11`,
and nothing leaks to `01 ↔ 10`, `20`, `02`.  (`(s1/3)² = 2/27` is the success probability.) -/
theorem klm_cz {K : Type} [Field K] [CharZero K] (c1 s1 c2 s2 : K) (h1 : 3 * c1 ^ 2 = 1) (h2 : 3 * s1 ^ 2 = 2)
    (h3 : c2 ^ 2 - s2 ^ 2 = s1) (h4 : 2 * c2 * s2 = c1) :
    let U := matList (fun i j => czMat c1 s1 c2 s2 i j)
    fockRepP U [0, 0, 1, 1] [0, 0, 1, 1] = s1 / 3 ∧
    fockRepP U [1, 0, 1, 1] [1, 0, 1, 1] = s1 / 3 ∧
    fockRepP U [0, 1, 1, 1] [0, 1, 1, 1] = s1 / 3 ∧
    fockRepP U [1, 1, 1, 1] [1, 1, 1, 1] = -(s1 / 3) ∧
    fockRepP U [0, 1, 1, 1] [1, 0, 1, 1] = 0 ∧
    fockRepP U [1, 0, 1, 1] [0, 1, 1, 1] = 0 ∧
    fockRepP U [2, 0, 1, 1] [1, 1, 1, 1] = 0 ∧
    fockRepP U [0, 2, 1, 1] [1, 1, 1, 1] = 0 :=
  ⟨klm_cz_1 c1 s1 c2 s2 h1 h2 h3 h4, klm_cz_2 c1 s1 c2 s2 h1 h2 h3 h4, klm_cz_3 c1 s1 c2 s2 h1 h2 h3 h4,
   klm_cz_4 c1 s1 c2 s2 h1 h2 h3 h4, klm_cz_5 c1 s1 c2 s2 h1 h2 h3 h4, klm_cz_6 c1 s1 c2 s2 h1 h2 h3 h4,
   klm_cz_7 c1 s1 c2 s2 h1 h2 h3 h4, klm_cz_8 c1 s1 c2 s2 h1 h2 h3 h4⟩

end Pq.DualRailLaws
