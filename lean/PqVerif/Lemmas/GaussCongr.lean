import Mathlib.Tactic
import Mathlib.Data.Matrix.Block
import PqVerif.Model.Gauss

/-!
The block-wise update of the Gaussian simulator (`Pq.Gauss.applyLinear`, the code's
`_apply_linear*`) equals the congruence of the ladder-operator covariance by the embedded
symplectic matrix, for every number of modes, every mode tuple (any subset, any order).
-/
namespace Pq.Gauss
open Matrix

variable {K : Type} [CommRing K] [StarRing K] {d k : Nat}
set_option linter.unusedSectionVars false

/-! ### the position function of an injective mode tuple, the selection matrix `Q` -/

theorem pos?_some {modes : Fin k → Fin d} {i : Fin d} {a : Fin k}
    (h : pos? modes i = some a) : modes a = i := by
  have := List.find?_some h
  simpa using this

theorem pos?_none {modes : Fin k → Fin d} {i : Fin d}
    (h : pos? modes i = none) (a : Fin k) : modes a ≠ i := by
  unfold pos? at h
  rw [List.find?_eq_none] at h
  simpa using h a (List.mem_finRange a)

theorem pos?_modes {modes : Fin k → Fin d} (hinj : Function.Injective modes) (a : Fin k) :
    pos? modes (modes a) = some a := by
  cases h : pos? modes (modes a) with
  | none => exact absurd rfl (pos?_none h a)
  | some b => rw [hinj (pos?_some h)]

/-- selection matrix of the mode tuple -/
def Qm (K : Type) [CommRing K] (modes : Fin k → Fin d) : Matrix (Fin d) (Fin k) K :=
  fun i a => if modes a = i then 1 else 0

theorem Qm_mul_apply {n : Nat} {modes : Fin k → Fin d} (hinj : Function.Injective modes)
    (R : Matrix (Fin k) (Fin n) K) (i : Fin d) (j : Fin n) :
    (Qm K modes * R) i j = match pos? modes i with
      | some a => R a j
      | none => 0 := by
  cases h : pos? modes i with
  | none =>
    simp only [Matrix.mul_apply, Qm]
    apply Finset.sum_eq_zero
    intro a _
    rw [if_neg (pos?_none h a), zero_mul]
  | some a =>
    have ha := pos?_some h
    simp only [Matrix.mul_apply, Qm]
    rw [Finset.sum_eq_single a]
    · simp [ha]
    · intro b _ hb
      rw [if_neg, zero_mul]
      intro hb'
      exact hb (hinj (hb'.trans ha.symm))
    · simp

theorem mul_QmT_apply {n : Nat} {modes : Fin k → Fin d} (hinj : Function.Injective modes)
    (R : Matrix (Fin n) (Fin k) K) (i : Fin n) (j : Fin d) :
    (R * (Qm K modes)ᵀ) i j = match pos? modes j with
      | some b => R i b
      | none => 0 := by
  have := Qm_mul_apply hinj Rᵀ j i
  rw [← Matrix.transpose_apply (Qm K modes * Rᵀ), Matrix.transpose_mul, Matrix.transpose_transpose] at this
  exact this

theorem QmT_mul_apply {n : Nat} {modes : Fin k → Fin d}
    (M : Matrix (Fin d) (Fin n) K) (a : Fin k) (j : Fin n) :
    ((Qm K modes)ᵀ * M) a j = M (modes a) j := by
  simp [Matrix.mul_apply, Qm]

theorem mul_Qm_apply {n : Nat} {modes : Fin k → Fin d}
    (M : Matrix (Fin n) (Fin d) K) (i : Fin n) (b : Fin k) :
    (M * Qm K modes) i b = M i (modes b) := by
  simp [Matrix.mul_apply, Qm]

theorem QmT_mul_Qm {modes : Fin k → Fin d} (hinj : Function.Injective modes) :
    (Qm K modes)ᵀ * Qm K modes = 1 := by
  ext a b
  rw [QmT_mul_apply, Qm, Matrix.one_apply]
  simp [hinj.eq_iff, eq_comm]

/-- projection on the non-addressed modes -/
def Nm (K : Type) [CommRing K] (modes : Fin k → Fin d) : Matrix (Fin d) (Fin d) K :=
  1 - Qm K modes * (Qm K modes)ᵀ

theorem mul_Nm_apply {n : Nat} {modes : Fin k → Fin d} (hinj : Function.Injective modes)
    (M : Matrix (Fin n) (Fin d) K) (i : Fin n) (j : Fin d) :
    (M * Nm K modes) i j = match pos? modes j with
      | some _ => 0
      | none => M i j := by
  rw [Nm, Matrix.mul_sub, Matrix.mul_one, Matrix.sub_apply, ← Matrix.mul_assoc, mul_QmT_apply hinj]
  cases h : pos? modes j with
  | none => simp
  | some b => simp [mul_Qm_apply, pos?_some h]

theorem Nm_apply {modes : Fin k → Fin d} (hinj : Function.Injective modes) (i j : Fin d) :
    Nm K modes i j = match pos? modes j with
      | some _ => 0
      | none => if i = j then 1 else 0 := by
  have := mul_Nm_apply hinj (1 : Matrix (Fin d) (Fin d) K) i j
  rw [Matrix.one_mul] at this
  rw [this, Matrix.one_apply]

theorem embed_true_eq {modes : Fin k → Fin d} (hinj : Function.Injective modes)
    (P : Matrix (Fin k) (Fin k) K) :
    embed true modes P = Qm K modes * P * (Qm K modes)ᵀ + Nm K modes := by
  ext i j
  rw [Matrix.add_apply, Matrix.mul_assoc, Qm_mul_apply hinj, Nm_apply hinj, embed]
  cases hi : pos? modes i <;> cases hj : pos? modes j <;> simp [mul_QmT_apply hinj, hj]
  rename_i a
  rintro rfl
  simp [hi] at hj

theorem embed_false_eq {modes : Fin k → Fin d} (hinj : Function.Injective modes)
    (A : Matrix (Fin k) (Fin k) K) :
    embed false modes A = Qm K modes * A * (Qm K modes)ᵀ := by
  ext i j
  rw [Matrix.mul_assoc, Qm_mul_apply hinj, embed]
  cases hi : pos? modes i <;> cases hj : pos? modes j <;> simp [mul_QmT_apply hinj, hj]

theorem blockOf_eq (modes : Fin k → Fin d) (M : Matrix (Fin d) (Fin d) K) :
    blockOf modes M = (Qm K modes)ᵀ * M * Qm K modes := by
  ext a b
  rw [mul_Qm_apply, QmT_mul_apply, blockOf]

theorem rowsOf_eq (modes : Fin k → Fin d) (M : Matrix (Fin d) (Fin d) K) :
    rowsOf modes M = (Qm K modes)ᵀ * M := by
  ext a b
  rw [QmT_mul_apply, rowsOf]

theorem assignBlock_eq {modes : Fin k → Fin d} (hinj : Function.Injective modes)
    (M : Matrix (Fin d) (Fin d) K) (B : Matrix (Fin k) (Fin k) K) :
    assignBlock modes M B = Qm K modes * B * (Qm K modes)ᵀ
      + (M - Qm K modes * ((Qm K modes)ᵀ * M * Qm K modes) * (Qm K modes)ᵀ) := by
  ext i j
  rw [Matrix.add_apply, Matrix.sub_apply, Matrix.mul_assoc, Qm_mul_apply hinj, Matrix.mul_assoc,
    Qm_mul_apply hinj, assignBlock]
  cases hi : pos? modes i <;> cases hj : pos? modes j <;>
    simp [mul_QmT_apply hinj, hj, mul_Qm_apply, QmT_mul_apply]
  rw [pos?_some hi, pos?_some hj, sub_self]

theorem assignAuxRows_eq {modes : Fin k → Fin d} (hinj : Function.Injective modes)
    (M : Matrix (Fin d) (Fin d) K) (R : Matrix (Fin k) (Fin d) K) :
    assignAuxRows modes M R = M - Qm K modes * ((Qm K modes)ᵀ * M * Nm K modes)
      + Qm K modes * (R * Nm K modes) := by
  ext i j
  rw [Matrix.add_apply, Matrix.sub_apply, Qm_mul_apply hinj, Qm_mul_apply hinj, assignAuxRows]
  cases hi : pos? modes i <;> cases hj : pos? modes j <;>
    simp [mul_Nm_apply hinj, hj, QmT_mul_apply]
  rw [pos?_some hi, sub_self]

theorem assignCols_eq {modes : Fin k → Fin d} (hinj : Function.Injective modes)
    (M : Matrix (Fin d) (Fin d) K) (X : Matrix (Fin d) (Fin k) K) :
    assignCols modes M X = M * Nm K modes + X * (Qm K modes)ᵀ := by
  ext i j
  rw [Matrix.add_apply, mul_Nm_apply hinj, mul_QmT_apply hinj, assignCols]
  cases hj : pos? modes j <;> simp

theorem starCols_eq (modes : Fin k → Fin d) (M : Matrix (Fin d) (Fin d) K) :
    (fun i b => star (M (modes b) i) : Matrix (Fin d) (Fin k) K) = ((Qm K modes)ᵀ * M)ᴴ := by
  ext i b
  rw [Matrix.conjTranspose_apply, QmT_mul_apply]

theorem cols_eq (modes : Fin k → Fin d) (M : Matrix (Fin d) (Fin d) K) :
    (fun i b => M (modes b) i : Matrix (Fin d) (Fin k) K) = ((Qm K modes)ᵀ * M)ᵀ := by
  ext i b
  rw [Matrix.transpose_apply, QmT_mul_apply]


/-! ### conjugation lemmas -/

theorem conj_mul {l m n : Nat} (X : Matrix (Fin l) (Fin m) K) (Y : Matrix (Fin m) (Fin n) K) :
    conj (X * Y) = conj X * conj Y := by
  ext i j
  simp [conj, Matrix.mul_apply, star_sum]

theorem conj_add {m n : Nat} (X Y : Matrix (Fin m) (Fin n) K) : conj (X + Y) = conj X + conj Y := by
  ext i j; simp [conj]

theorem conj_sub {m n : Nat} (X Y : Matrix (Fin m) (Fin n) K) : conj (X - Y) = conj X - conj Y := by
  ext i j; simp [conj]

theorem conj_neg {m n : Nat} (X : Matrix (Fin m) (Fin n) K) : conj (-X) = -conj X := by
  ext i j; simp [conj]

theorem conj_zero {m n : Nat} : conj (0 : Matrix (Fin m) (Fin n) K) = 0 := by
  ext i j; simp [conj]

theorem conj_one {n : Nat} : conj (1 : Matrix (Fin n) (Fin n) K) = 1 := by
  ext i j; simp only [conj, Matrix.map_apply, Matrix.one_apply]; split_ifs <;> simp

theorem conj_conj {m n : Nat} (X : Matrix (Fin m) (Fin n) K) : conj (conj X) = X := by
  ext i j; simp [conj]

theorem conj_transpose {m n : Nat} (X : Matrix (Fin m) (Fin n) K) : conj Xᵀ = (conj X)ᵀ := rfl

theorem conjTranspose_eq {m n : Nat} (X : Matrix (Fin m) (Fin n) K) : Xᴴ = (conj X)ᵀ := rfl

theorem conj_Qm (modes : Fin k → Fin d) : conj (Qm K modes) = Qm K modes := by
  ext i j; simp only [conj, Matrix.map_apply, Qm]; split_ifs <;> simp

theorem conj_Nm (modes : Fin k → Fin d) : conj (Nm K modes) = Nm K modes := by
  rw [Nm, conj_sub, conj_one, conj_mul, conj_transpose, conj_Qm]

theorem Nm_transpose (modes : Fin k → Fin d) : (Nm K modes)ᵀ = Nm K modes := by
  rw [Nm, Matrix.transpose_sub, Matrix.transpose_one, Matrix.transpose_mul,
    Matrix.transpose_transpose]

/-! ### relations between `Q` and `N` -/

theorem QmT_mul_Qm_assoc {n : Nat} {modes : Fin k → Fin d} (hinj : Function.Injective modes)
    (X : Matrix (Fin k) (Fin n) K) : (Qm K modes)ᵀ * (Qm K modes * X) = X := by
  rw [← Matrix.mul_assoc, QmT_mul_Qm hinj, Matrix.one_mul]

theorem Qm_mul_QmT (modes : Fin k → Fin d) : Qm K modes * (Qm K modes)ᵀ = 1 - Nm K modes := by
  rw [Nm, sub_sub_cancel]

theorem Qm_mul_QmT_assoc {n : Nat} (modes : Fin k → Fin d) (X : Matrix (Fin d) (Fin n) K) :
    Qm K modes * ((Qm K modes)ᵀ * X) = X - Nm K modes * X := by
  rw [← Matrix.mul_assoc, Qm_mul_QmT, Matrix.sub_mul, Matrix.one_mul]

theorem QmT_mul_Nm {modes : Fin k → Fin d} (hinj : Function.Injective modes) :
    (Qm K modes)ᵀ * Nm K modes = 0 := by
  rw [Nm, Matrix.mul_sub, Matrix.mul_one, ← Matrix.mul_assoc, QmT_mul_Qm hinj, Matrix.one_mul,
    sub_self]

theorem QmT_mul_Nm_assoc {n : Nat} {modes : Fin k → Fin d} (hinj : Function.Injective modes)
    (X : Matrix (Fin d) (Fin n) K) : (Qm K modes)ᵀ * (Nm K modes * X) = 0 := by
  rw [← Matrix.mul_assoc, QmT_mul_Nm hinj, Matrix.zero_mul]

theorem Nm_mul_Qm {modes : Fin k → Fin d} (hinj : Function.Injective modes) :
    Nm K modes * Qm K modes = 0 := by
  rw [Nm, Matrix.sub_mul, Matrix.one_mul, Matrix.mul_assoc, QmT_mul_Qm hinj, Matrix.mul_one,
    sub_self]

theorem Nm_mul_Qm_assoc {n : Nat} {modes : Fin k → Fin d} (hinj : Function.Injective modes)
    (X : Matrix (Fin k) (Fin n) K) : Nm K modes * (Qm K modes * X) = 0 := by
  rw [← Matrix.mul_assoc, Nm_mul_Qm hinj, Matrix.zero_mul]

theorem Nm_mul_Nm {modes : Fin k → Fin d} (hinj : Function.Injective modes) :
    Nm K modes * Nm K modes = Nm K modes := by
  have h : ∀ X : Matrix (Fin d) (Fin d) K,
      (1 - Qm K modes * (Qm K modes)ᵀ) * X = X - Qm K modes * ((Qm K modes)ᵀ * X) := by
    intro X; rw [Matrix.sub_mul, Matrix.one_mul, Matrix.mul_assoc]
  have := h (Nm K modes)
  rw [QmT_mul_Nm hinj, Matrix.mul_zero, sub_zero] at this
  exact this

theorem Nm_mul_Nm_assoc {n : Nat} {modes : Fin k → Fin d} (hinj : Function.Injective modes)
    (X : Matrix (Fin d) (Fin n) K) : Nm K modes * (Nm K modes * X) = Nm K modes * X := by
  rw [← Matrix.mul_assoc, Nm_mul_Nm hinj]

/-- normalisation of matrix words in `Q`, `N`, the moments and the gate blocks -/
syntax "gnorm " ident " [" Lean.Parser.Tactic.simpLemma,* "]" : tactic
macro_rules
  | `(tactic| gnorm $h:ident [$extra,*]) => `(tactic|
    simp only [Matrix.mul_add, Matrix.add_mul, Matrix.mul_sub, Matrix.sub_mul, Matrix.mul_one,
      Matrix.one_mul, Matrix.mul_assoc, Matrix.mul_zero, Matrix.zero_mul, sub_zero, add_zero,
      zero_add, zero_sub, neg_zero, sub_self, Matrix.mul_neg, Matrix.neg_mul,
      Matrix.transpose_mul, Matrix.transpose_add, Matrix.transpose_sub, Matrix.transpose_one,
      Matrix.transpose_zero, Matrix.transpose_neg,
      Matrix.transpose_transpose, conjTranspose_eq, conj_mul, conj_add, conj_sub, conj_one,
      conj_zero, conj_neg, conj_transpose, conj_conj, conj_Qm, conj_Nm, Nm_transpose,
      QmT_mul_Qm $h, QmT_mul_Qm_assoc $h, Qm_mul_QmT, Qm_mul_QmT_assoc,
      QmT_mul_Nm $h, QmT_mul_Nm_assoc $h, Nm_mul_Qm $h, Nm_mul_Qm_assoc $h,
      Nm_mul_Nm $h, Nm_mul_Nm_assoc $h, $extra,*])

/-! ### action on vectors -/

theorem Qm_mulVec_apply {modes : Fin k → Fin d} (hinj : Function.Injective modes)
    (v : Fin k → K) (i : Fin d) :
    (Qm K modes).mulVec v i = match pos? modes i with
      | some a => v a
      | none => 0 := by
  have := Qm_mul_apply hinj (Matrix.of fun a (_ : Fin 1) => v a) i 0
  simp only [Matrix.of_apply] at this
  rw [← this]
  simp [Matrix.mul_apply, Matrix.mulVec, dotProduct]

theorem QmT_mulVec_apply (modes : Fin k → Fin d) (v : Fin d → K) (a : Fin k) :
    (Qm K modes)ᵀ.mulVec v a = v (modes a) := by
  simp [Matrix.mulVec, dotProduct, Qm]

theorem Nm_mulVec_apply {modes : Fin k → Fin d} (hinj : Function.Injective modes)
    (v : Fin d → K) (i : Fin d) :
    (Nm K modes).mulVec v i = match pos? modes i with
      | some _ => 0
      | none => v i := by
  rw [Nm, Matrix.sub_mulVec, Matrix.one_mulVec, ← Matrix.mulVec_mulVec, Pi.sub_apply,
    Qm_mulVec_apply hinj]
  cases h : pos? modes i with
  | none => simp
  | some a => simp [QmT_mulVec_apply, pos?_some h]

/-! ### the theorems -/

/-- full `d × d` passive / active blocks of the embedded transformation -/
abbrev Phat (modes : Fin k → Fin d) (P : Matrix (Fin k) (Fin k) K) := embed (K := K) true modes P
abbrev Ahat (modes : Fin k → Fin d) (A : Matrix (Fin k) (Fin k) K) := embed (K := K) false modes A

/-- the mean transforms as `m ↦ P̂ m + Â m̄` -/
theorem applyLinear_mean (P A : Matrix (Fin k) (Fin k) K) (modes : Fin k → Fin d)
    (hinj : Function.Injective modes) (s : State K d) :
    (applyLinear P A modes s).m =
      (Phat modes P).mulVec s.m + (Ahat modes A).mulVec (fun i => star (s.m i)) := by
  ext i
  simp only [applyLinear, embed_true_eq hinj, embed_false_eq hinj, Matrix.add_mulVec,
    ← Matrix.mulVec_mulVec, Pi.add_apply, Qm_mulVec_apply hinj, Nm_mulVec_apply hinj]
  have e1 : (Qm K modes)ᵀ.mulVec s.m = fun a => s.m (modes a) := by
    ext a; rw [QmT_mulVec_apply]
  have e2 : (Qm K modes)ᵀ.mulVec (fun i => star (s.m i)) = fun a => star (s.m (modes a)) := by
    ext a; rw [QmT_mulVec_apply]
  rw [e1, e2]
  cases h : pos? modes i with
  | none => simp
  | some a => simp

/-- `C' = (S Γ Sᴴ)₂₂` with `Γ = [[Cᵀ+1, G],[Ḡ, C]]`, `S = [[P̂, Â],[conj Â, conj P̂]]` -/
theorem applyLinear_C (P A : Matrix (Fin k) (Fin k) K) (modes : Fin k → Fin d)
    (hinj : Function.Injective modes) (s : State K d)
    (hC : s.Cᴴ = s.C) (hG : s.Gᵀ = s.G) :
    (applyLinear P A modes s).C =
      conj (Ahat modes A) * (s.Cᵀ + 1) * (Ahat modes A)ᵀ
      + conj (Ahat modes A) * s.G * (Phat modes P)ᵀ
      + conj (Phat modes P) * conj s.G * (Ahat modes A)ᵀ
      + conj (Phat modes P) * s.C * (Phat modes P)ᵀ := by
  have hCc : conj s.C = s.Cᵀ := by
    have := congrArg Matrix.transpose hC
    rwa [conjTranspose_eq, Matrix.transpose_transpose] at this
  have hGc : (conj s.G)ᵀ = conj s.G := by rw [← conj_transpose, hG]
  simp only [applyLinear, starCols_eq, cols_eq, assignCols_eq hinj, assignAuxRows_eq hinj,
    assignBlock_eq hinj, rowsOf_eq, blockOf_eq, embed_true_eq hinj, embed_false_eq hinj]
  gnorm hinj [hCc, hG, hGc]
  abel

/-- `G' = (S Γ Sᴴ)₁₂`; the code symmetrises `G` from its rows, which is the identity exactly
when `P Aᵀ = A Pᵀ` (second symplectic condition) -/
theorem applyLinear_G (P A : Matrix (Fin k) (Fin k) K) (modes : Fin k → Fin d)
    (hinj : Function.Injective modes) (s : State K d)
    (hC : s.Cᴴ = s.C) (hG : s.Gᵀ = s.G) (h2 : P * Aᵀ = A * Pᵀ) :
    (applyLinear P A modes s).G =
      (Phat modes P) * (s.Cᵀ + 1) * (Ahat modes A)ᵀ
      + (Phat modes P) * s.G * (Phat modes P)ᵀ
      + (Ahat modes A) * conj s.G * (Ahat modes A)ᵀ
      + (Ahat modes A) * s.C * (Phat modes P)ᵀ := by
  have hCc : conj s.C = s.Cᵀ := by
    have := congrArg Matrix.transpose hC
    rwa [conjTranspose_eq, Matrix.transpose_transpose] at this
  have hGc : (conj s.G)ᵀ = conj s.G := by rw [← conj_transpose, hG]
  have h2' : ∀ X : Matrix (Fin k) (Fin d) K, P * (Aᵀ * X) = A * (Pᵀ * X) := by
    intro X; rw [← Matrix.mul_assoc, h2, Matrix.mul_assoc]
  simp only [applyLinear, starCols_eq, cols_eq, assignCols_eq hinj, assignAuxRows_eq hinj,
    assignBlock_eq hinj, rowsOf_eq, blockOf_eq, embed_true_eq hinj, embed_false_eq hinj]
  gnorm hinj [hCc, hG, hGc, h2']
  abel

/-- the result is again a valid pair of moments, so gates can be sequenced -/
theorem applyLinear_hermitian (P A : Matrix (Fin k) (Fin k) K) (modes : Fin k → Fin d)
    (hinj : Function.Injective modes) (s : State K d)
    (hC : s.Cᴴ = s.C) (hG : s.Gᵀ = s.G) (h2 : P * Aᵀ = A * Pᵀ) :
    (applyLinear P A modes s).Cᴴ = (applyLinear P A modes s).C ∧
    (applyLinear P A modes s).Gᵀ = (applyLinear P A modes s).G := by
  have hCc : conj s.C = s.Cᵀ := by
    have := congrArg Matrix.transpose hC
    rwa [conjTranspose_eq, Matrix.transpose_transpose] at this
  have hGc : (conj s.G)ᵀ = conj s.G := by rw [← conj_transpose, hG]
  have h2' : ∀ X : Matrix (Fin k) (Fin d) K, P * (Aᵀ * X) = A * (Pᵀ * X) := by
    intro X; rw [← Matrix.mul_assoc, h2, Matrix.mul_assoc]
  rw [applyLinear_C P A modes hinj s hC hG, applyLinear_G P A modes hinj s hC hG h2]
  simp only [embed_true_eq hinj, embed_false_eq hinj]
  constructor
  · gnorm hinj [hCc, hG, hGc, h2']
    abel
  · gnorm hinj [hCc, hG, hGc, h2']
    abel

/-- the ladder covariance `Γ = ⟨ξ ξ†⟩`, `ξ = (a, a†)`, as a block matrix -/
def gamma (s : State K d) : Matrix (Fin d ⊕ Fin d) (Fin d ⊕ Fin d) K :=
  Matrix.fromBlocks (s.Cᵀ + 1) s.G (conj s.G) s.C

/-- the embedded complex-form symplectic matrix -/
def Smat (P A : Matrix (Fin k) (Fin k) K) (modes : Fin k → Fin d) :
    Matrix (Fin d ⊕ Fin d) (Fin d ⊕ Fin d) K :=
  Matrix.fromBlocks (Phat modes P) (Ahat modes A) (conj (Ahat modes A)) (conj (Phat modes P))

/-- **the Gaussian simulator's effect of a linear gate on any subset of modes equals the
congruence by the symplectic matrix**: `Γ' = S Γ Sᴴ`, whenever `(P, A)` satisfies the symplectic
conditions (which `Props/C07` proves for every built-in gate) -/
theorem applyLinear_eq_congr (P A : Matrix (Fin k) (Fin k) K) (modes : Fin k → Fin d)
    (hinj : Function.Injective modes) (s : State K d)
    (hC : s.Cᴴ = s.C) (hG : s.Gᵀ = s.G)
    (h1 : P * Pᴴ - A * Aᴴ = 1) (h2 : P * Aᵀ = A * Pᵀ) :
    gamma (applyLinear P A modes s) = Smat P A modes * gamma s * (Smat P A modes)ᴴ := by
  have hCc : conj s.C = s.Cᵀ := by
    have := congrArg Matrix.transpose hC
    rwa [conjTranspose_eq, Matrix.transpose_transpose] at this
  have hGc : (conj s.G)ᵀ = conj s.G := by rw [← conj_transpose, hG]
  have h2' : ∀ X : Matrix (Fin k) (Fin d) K, P * (Aᵀ * X) = A * (Pᵀ * X) := by
    intro X; rw [← Matrix.mul_assoc, h2, Matrix.mul_assoc]
  have h2c : conj P * (conj A)ᵀ = conj A * (conj P)ᵀ := by
    rw [← conj_transpose, ← conj_mul, h2, conj_mul, conj_transpose]
  have h2c' : ∀ X : Matrix (Fin k) (Fin d) K,
      conj P * ((conj A)ᵀ * X) = conj A * ((conj P)ᵀ * X) := by
    intro X; rw [← Matrix.mul_assoc, h2c, Matrix.mul_assoc]
  have h1a : P * (conj P)ᵀ = 1 + A * (conj A)ᵀ := by
    rw [← h1, conjTranspose_eq, conjTranspose_eq]; abel
  have h1a' : ∀ X : Matrix (Fin k) (Fin d) K,
      P * ((conj P)ᵀ * X) = X + A * ((conj A)ᵀ * X) := by
    intro X; rw [← Matrix.mul_assoc, h1a, Matrix.add_mul, Matrix.one_mul, Matrix.mul_assoc]
  unfold gamma Smat
  rw [Matrix.fromBlocks_conjTranspose, Matrix.fromBlocks_multiply, Matrix.fromBlocks_multiply,
    Matrix.fromBlocks_inj,
    applyLinear_C P A modes hinj s hC hG, applyLinear_G P A modes hinj s hC hG h2]
  simp only [embed_true_eq hinj, embed_false_eq hinj]
  refine ⟨?_, ?_, ?_, ?_⟩
  · gnorm hinj [hCc, hG, hGc, h2', h2c', h1a']
    abel
  · gnorm hinj [hCc, hG, hGc, h2', h2c', h1a']
    abel
  · gnorm hinj [hCc, hG, hGc, h2', h2c', h1a']
    abel
  · gnorm hinj [hCc, hG, hGc, h2', h2c', h1a']
    abel

set_option linter.unusedVariables false in
/-- the passive update is the linear update with no active part -/
theorem applyPassive_eq (T : Matrix (Fin k) (Fin k) K) (modes : Fin k → Fin d)
    (hinj : Function.Injective modes) (s : State K d) (hC : s.Cᴴ = s.C) (hG : s.Gᵀ = s.G) :
    applyPassive T modes s = applyLinear T 0 modes s := by
  simp only [applyPassive, applyLinear, conj_zero, Matrix.zero_mul, Matrix.mul_zero, add_zero,
    Matrix.transpose_zero, Matrix.zero_mulVec, Pi.zero_apply]

end Pq.Gauss
