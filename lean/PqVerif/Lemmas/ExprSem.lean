import PqVerif.Model.PyPrims

/-!
C20 lemmas: the whitelist walk accepts exactly the grammar of the property, and the
evaluator of `_expressions.py` computes what Python's evaluation rules prescribe.
-/
namespace Pq.Expr

/-- the grammar of the property statement: numbers, booleans, the outcome tuple `x`,
tuple / list displays, indexing and slicing, `+ - * / % ** ^`, unary `+ - not`, comparisons
`== != < <= > >=`, `and` / `or` -/
inductive InGrammar : Ast → Prop
  | int (i) : InGrammar (.const (.int i))
  | float (f) : InGrammar (.const (.float f))
  | bool (b) : InGrammar (.const (.bool b))
  | x : InGrammar (.name "x")
  | tuple (es) : (∀ e ∈ es, InGrammar e) → InGrammar (.tuple es)
  | list (es) : (∀ e ∈ es, InGrammar e) → InGrammar (.list es)
  | unary (op e) : unopAllowed op = true → InGrammar e → InGrammar (.unary op e)
  | bin (op l r) : binopAllowed op = true → InGrammar l → InGrammar r → InGrammar (.bin op l r)
  | boolop (op vs) : (∀ e ∈ vs, InGrammar e) → InGrammar (.boolop op vs)
  | compare (l ops rs) : (∀ o ∈ ops, cmpAllowed o = true) → InGrammar l →
      (∀ e ∈ rs, InGrammar e) → InGrammar (.compare l ops rs)
  | subscript (v sl) : InGrammar v → InGrammar sl → InGrammar (.subscript v sl)
  | slice (lo hi st) : (∀ e, lo = some e → InGrammar e) → (∀ e, hi = some e → InGrammar e) →
      (∀ e, st = some e → InGrammar e) → InGrammar (.slice lo hi st)

theorem validate_iff_inGrammar (e : Ast) : validate e = true ↔ InGrammar e := by
  sorry

/-- comparison primitives return booleans, and booleans are their own truth value -/
structure CmpBool (P : Prims) : Prop where
  cmp_bool : ∀ op a b v, P.cmp op a b = .ok v → ∃ t, v = .bool t
  truthy_bool : ∀ t, P.truthy (.bool t) = t

theorem eval_eq_pyEval (P : Prims) (hP : CmpBool P) (x : Val) (e : Ast) (h : InGrammar e) :
    eval P x e = pyEval P x e := by
  sorry

theorem pyPrims_cmpBool : CmpBool pyPrims := by
  sorry

end Pq.Expr
