import PqVerif.Model.PyPrims

/-!
C20 lemmas: the whitelist walk accepts exactly the grammar of the property, and the
evaluator of `_expressions.py` computes what Python's evaluation rules prescribe.
-/
namespace Pq.Expr

/-- the grammar of the property statement: numbers, booleans, the outcome tuple `x`,
tuple / list displays, indexing and slicing, `+ - * / % ** ^`, unary `+ - not`, comparisons
`== != < <= > >=`, `and` / `or` -/
inductive InGrammar : Ast → Prop
  | int (i) : InGrammar (.const (.int i))
  | float (f) : InGrammar (.const (.float f))
  | bool (b) : InGrammar (.const (.bool b))
  | x : InGrammar (.name "x")
  | tuple (es) : (∀ e ∈ es, InGrammar e) → InGrammar (.tuple es)
  | list (es) : (∀ e ∈ es, InGrammar e) → InGrammar (.list es)
  | unary (op e) : unopAllowed op = true → InGrammar e → InGrammar (.unary op e)
  | bin (op l r) : binopAllowed op = true → InGrammar l → InGrammar r → InGrammar (.bin op l r)
  | boolop (op vs) : (∀ e ∈ vs, InGrammar e) → InGrammar (.boolop op vs)
  | compare (l ops rs) : (∀ o ∈ ops, cmpAllowed o = true) → InGrammar l →
      (∀ e ∈ rs, InGrammar e) → InGrammar (.compare l ops rs)
  | subscript (v sl) : InGrammar v → InGrammar sl → InGrammar (.subscript v sl)
  | slice (lo hi st) : (∀ e, lo = some e → InGrammar e) → (∀ e, hi = some e → InGrammar e) →
      (∀ e, st = some e → InGrammar e) → InGrammar (.slice lo hi st)

/-- induction over `Ast` with membership-style hypotheses for the nested occurrences -/
theorem Ast.ind {M : Ast → Prop}
    (const : ∀ c, M (.const c))
    (name : ∀ id, M (.name id))
    (tuple : ∀ es, (∀ e ∈ es, M e) → M (.tuple es))
    (list : ∀ es, (∀ e ∈ es, M e) → M (.list es))
    (unary : ∀ op e, M e → M (.unary op e))
    (bin : ∀ op l r, M l → M r → M (.bin op l r))
    (boolop : ∀ op vs, (∀ e ∈ vs, M e) → M (.boolop op vs))
    (compare : ∀ l ops rs, M l → (∀ e ∈ rs, M e) → M (.compare l ops rs))
    (subscript : ∀ v sl, M v → M sl → M (.subscript v sl))
    (slice : ∀ lo hi st, (∀ e, lo = some e → M e) → (∀ e, hi = some e → M e) →
      (∀ e, st = some e → M e) → M (.slice lo hi st))
    (forbidden : ∀ k cs, (∀ e ∈ cs, M e) → M (.forbidden k cs)) : ∀ e, M e := by
  intro e
  refine Ast.rec (motive_1 := M) (motive_2 := fun es => ∀ e ∈ es, M e)
    (motive_3 := fun o => ∀ e, o = some e → M e)
    const name tuple list unary bin boolop (fun l ops rs hl hrs => compare l ops rs hl hrs)
    subscript slice forbidden ?_ ?_ ?_ ?_ e
  · intro e he; cases he
  · intro a as ha has e he
    cases he with
    | head => exact ha
    | tail _ h => exact has e h
  · intro e he; cases he
  · intro a ha e he; cases he; exact ha

theorem validateList_iff (es : List Ast) :
    validateList es = true ↔ ∀ e ∈ es, validate e = true := by
  induction es with
  | nil => simp [validateList]
  | cons a as ih => simp [validateList, ih]

theorem validateOpt_iff (o : Option Ast) :
    validateOpt o = true ↔ ∀ e, o = some e → validate e = true := by
  cases o <;> simp [validateOpt]

theorem validate_iff_inGrammar (e : Ast) : validate e = true ↔ InGrammar e := by
  induction e using Ast.ind with
  | const c =>
    cases c <;> simp [validate, constAllowed]
    · exact .int _
    · exact .float _
    · exact .bool _
    · intro h; cases h
  | name id =>
    simp only [validate, beq_iff_eq]
    constructor
    · rintro rfl; exact .x
    · intro h; cases h; rfl
  | tuple es ih =>
    simp only [validate, validateList_iff]
    constructor
    · intro h; exact .tuple _ fun e he => (ih e he).1 (h e he)
    · intro h; cases h with | tuple _ h => exact fun e he => (ih e he).2 (h e he)
  | list es ih =>
    simp only [validate, validateList_iff]
    constructor
    · intro h; exact .list _ fun e he => (ih e he).1 (h e he)
    · intro h; cases h with | list _ h => exact fun e he => (ih e he).2 (h e he)
  | unary op e ih =>
    simp only [validate, Bool.and_eq_true]
    constructor
    · rintro ⟨h1, h2⟩; exact .unary _ _ h1 (ih.1 h2)
    · intro h; cases h with | unary _ _ h1 h2 => exact ⟨h1, ih.2 h2⟩
  | bin op l r ihl ihr =>
    simp only [validate, Bool.and_eq_true]
    constructor
    · rintro ⟨⟨h1, h2⟩, h3⟩; exact .bin _ _ _ h1 (ihl.1 h2) (ihr.1 h3)
    · intro h; cases h with | bin _ _ _ h1 h2 h3 => exact ⟨⟨h1, ihl.2 h2⟩, ihr.2 h3⟩
  | boolop op vs ih =>
    simp only [validate, validateList_iff]
    constructor
    · intro h; exact .boolop _ _ fun e he => (ih e he).1 (h e he)
    · intro h; cases h with | boolop _ _ h => exact fun e he => (ih e he).2 (h e he)
  | compare l ops rs ihl ih =>
    simp only [validate, Bool.and_eq_true, validateList_iff, List.all_eq_true]
    constructor
    · rintro ⟨⟨h1, h2⟩, h3⟩
      exact .compare _ _ _ h1 (ihl.1 h2) fun e he => (ih e he).1 (h3 e he)
    · intro h
      cases h with
      | compare _ _ _ h1 h2 h3 => exact ⟨⟨h1, ihl.2 h2⟩, fun e he => (ih e he).2 (h3 e he)⟩
  | subscript v sl ihv ihs =>
    simp only [validate, Bool.and_eq_true]
    constructor
    · rintro ⟨h1, h2⟩; exact .subscript _ _ (ihv.1 h1) (ihs.1 h2)
    · intro h; cases h with | subscript _ _ h1 h2 => exact ⟨ihv.2 h1, ihs.2 h2⟩
  | slice lo hi st ih1 ih2 ih3 =>
    simp only [validate, Bool.and_eq_true, validateOpt_iff]
    constructor
    · rintro ⟨⟨h1, h2⟩, h3⟩
      exact .slice _ _ _ (fun e he => (ih1 e he).1 (h1 e he)) (fun e he => (ih2 e he).1 (h2 e he))
        (fun e he => (ih3 e he).1 (h3 e he))
    · intro h
      cases h with
      | slice _ _ _ h1 h2 h3 =>
        exact ⟨⟨fun e he => (ih1 e he).2 (h1 e he), fun e he => (ih2 e he).2 (h2 e he)⟩,
          fun e he => (ih3 e he).2 (h3 e he)⟩
  | forbidden k cs _ =>
    simp only [validate]
    constructor
    · intro h; cases h
    · intro h; cases h


/-- comparison primitives return booleans, and booleans are their own truth value -/
structure CmpBool (P : Prims) : Prop where
  cmp_bool : ∀ op a b v, P.cmp op a b = .ok v → ∃ t, v = .bool t
  truthy_bool : ∀ t, P.truthy (.bool t) = t

section
variable (P : Prims) (x : Val)

theorem evalList_eq (es : List Ast) (h : ∀ e ∈ es, eval P x e = pyEval P x e) :
    evalList P x es = pyEvalList P x es := by
  induction es with
  | nil => simp only [evalList, pyEvalList]
  | cons a as ih =>
    simp only [evalList, pyEvalList]
    rw [h a (List.mem_cons_self ..), ih fun e he => h e (List.mem_cons_of_mem _ he)]

theorem evalOpt_eq (o : Option Ast) (h : ∀ e, o = some e → eval P x e = pyEval P x e) :
    evalOpt P x o = pyEvalOpt P x o := by
  cases o with
  | none => simp only [evalOpt, pyEvalOpt]
  | some e => simp only [evalOpt, pyEvalOpt]; exact h e rfl

theorem evalAnd_eq (v : Ast) (vs : List Ast) (h : ∀ e ∈ v :: vs, eval P x e = pyEval P x e)
    (acc : Val) : evalAnd P x acc (v :: vs) = pyAnd P x (v :: vs) := by
  induction vs generalizing v acc with
  | nil =>
    simp only [evalAnd, pyAnd]
    rw [h v (List.mem_cons_self ..)]
    cases pyEval P x v with
    | error e => rfl
    | ok r => simp only [bind, Except.bind, ite_self]; rfl
  | cons w ws ih =>
    rw [evalAnd, pyAnd.eq_3 _ _ _ _ (by simp), h v (List.mem_cons_self ..)]
    cases pyEval P x v with
    | error e => rfl
    | ok r =>
      have := ih w (fun e he => h e (List.mem_cons_of_mem _ he)) r
      simp only [bind, Except.bind, this]

theorem evalOr_eq (v : Ast) (vs : List Ast) (h : ∀ e ∈ v :: vs, eval P x e = pyEval P x e)
    (acc : Val) : evalOr P x acc (v :: vs) = pyOr P x (v :: vs) := by
  induction vs generalizing v acc with
  | nil =>
    simp only [evalOr, pyOr]
    rw [h v (List.mem_cons_self ..)]
    cases pyEval P x v with
    | error e => rfl
    | ok r => simp only [bind, Except.bind, ite_self]; rfl
  | cons w ws ih =>
    rw [evalOr, pyOr.eq_3 _ _ _ _ (by simp), h v (List.mem_cons_self ..)]
    cases pyEval P x v with
    | error e => rfl
    | ok r =>
      have := ih w (fun e he => h e (List.mem_cons_of_mem _ he)) r
      simp only [bind, Except.bind, this]

variable {P} in
theorem cmp_step (hP : CmpBool P) (op : CmpOp) (a b : Val) (k : Except Err Val) :
    (do let c ← P.cmp op a b; if P.truthy c = true then k else pure (Val.bool false)) =
    (do let c ← P.cmp op a b; if P.truthy c = true then k else pure c) := by
  cases hc : P.cmp op a b with
  | error e => rfl
  | ok c =>
    obtain ⟨t, rfl⟩ := hP.cmp_bool _ _ _ _ hc
    cases t <;> simp [bind, Except.bind, hP.truthy_bool]

variable {P} in
theorem cmp_last (hP : CmpBool P) (op : CmpOp) (a b : Val) :
    (do let c ← P.cmp op a b; if P.truthy c = true then pure (Val.bool true) else pure c) =
    P.cmp op a b := by
  cases hc : P.cmp op a b with
  | error e => rfl
  | ok c =>
    obtain ⟨t, rfl⟩ := hP.cmp_bool _ _ _ _ hc
    cases t <;> simp [bind, Except.bind, hP.truthy_bool] <;> rfl

theorem evalCmp_eq (hP : CmpBool P) (ops : List CmpOp) (rs : List Ast)
    (hops : ∀ o ∈ ops, cmpAllowed o = true) (h : ∀ e ∈ rs, eval P x e = pyEval P x e)
    (left : Val) : evalCmp P x left ops rs = pyCmp P x left ops rs := by
  induction ops generalizing rs left with
  | nil => rw [evalCmp.eq_2 _ _ _ _ _ (by simp), pyCmp.eq_3 _ _ _ _ _ (by simp) (by simp)]
  | cons op ops ih =>
    cases rs with
    | nil => rw [evalCmp.eq_2 _ _ _ _ _ (by simp), pyCmp.eq_3 _ _ _ _ _ (by simp) (by simp)]
    | cons r rs =>
      have hop : cmpAllowed op = true := hops op (List.mem_cons_self ..)
      have ih' := fun l => ih rs (fun o ho => hops o (List.mem_cons_of_mem _ ho))
        (fun e he => h e (List.mem_cons_of_mem _ he)) l
      rw [evalCmp.eq_1, h r (List.mem_cons_self ..)]
      simp only [hop, if_true]
      by_cases hnil : ops = [] ∧ rs = []
      · obtain ⟨rfl, rfl⟩ := hnil
        rw [pyCmp.eq_1]
        simp only [hop, if_true]
        congr 1; funext right
        rw [evalCmp.eq_2 _ _ _ _ _ (by simp), cmp_step hP, cmp_last hP]
      · rw [pyCmp.eq_2 _ _ _ _ _ _ _ (fun h1 h2 => hnil ⟨h1, h2⟩)]
        simp only [hop, if_true]
        congr 1; funext right
        rw [cmp_step hP, ih']
end

theorem eval_eq_pyEval_aux (P : Prims) (hP : CmpBool P) (x : Val) (e : Ast) :
    InGrammar e → eval P x e = pyEval P x e ∧
      ∀ lo hi st, e = .slice lo hi st → evalOpt P x lo = pyEvalOpt P x lo ∧
        evalOpt P x hi = pyEvalOpt P x hi ∧ evalOpt P x st = pyEvalOpt P x st := by
  induction e using Ast.ind with
  | const c => intro _; exact ⟨by simp only [eval, pyEval], by intros; contradiction⟩
  | name id => intro _; exact ⟨by simp only [eval, pyEval], by intros; contradiction⟩
  | tuple es ih =>
    intro h; cases h with | tuple _ h => ?_
    refine ⟨?_, by intros; contradiction⟩
    simp only [eval, pyEval, evalList_eq P x es fun e he => (ih e he (h e he)).1]
  | list es ih =>
    intro h; cases h with | list _ h => ?_
    refine ⟨?_, by intros; contradiction⟩
    simp only [eval, pyEval, evalList_eq P x es fun e he => (ih e he (h e he)).1]
  | unary op e ih =>
    intro h; cases h with | unary _ _ h1 h2 => ?_
    refine ⟨?_, by intros; contradiction⟩
    simp only [eval, pyEval, h1, if_true, (ih h2).1]
  | bin op l r ihl ihr =>
    intro h; cases h with | bin _ _ _ h1 h2 h3 => ?_
    refine ⟨?_, by intros; contradiction⟩
    simp only [eval, pyEval, h1, if_true, (ihl h2).1, (ihr h3).1]
  | boolop op vs ih =>
    intro h; cases h with | boolop _ _ h => ?_
    refine ⟨?_, by intros; contradiction⟩
    have h' := fun e he => (ih e he (h e he)).1
    cases op <;> cases vs with
    | nil => simp only [eval, pyEval, evalAnd, evalOr, pyAnd, pyOr]
    | cons v vs => simp only [eval, pyEval, evalAnd_eq P x v vs h', evalOr_eq P x v vs h']
  | compare l ops rs ihl ih =>
    intro h; cases h with | compare _ _ _ h1 h2 h3 => ?_
    refine ⟨?_, by intros; contradiction⟩
    simp only [eval, pyEval, (ihl h2).1]
    congr 1; funext left
    exact evalCmp_eq P x hP ops rs h1 (fun e he => (ih e he (h3 e he)).1) left
  | subscript v sl ihv ihs =>
    intro h; cases h with | subscript _ _ h1 h2 => ?_
    refine ⟨?_, by intros; contradiction⟩
    rw [eval.eq_10, pyEval.eq_10, (ihv h1).1]
    congr 1; funext seq
    split
    · obtain ⟨e1, e2, e3⟩ := (ihs h2).2 _ _ _ rfl
      rw [e1, e2, e3]
    · rw [(ihs h2).1]
  | slice lo hi st ih1 ih2 ih3 =>
    intro h; cases h with | slice _ _ _ h1 h2 h3 => ?_
    refine ⟨by simp only [eval, pyEval], ?_⟩
    intro lo' hi' st' heq
    cases heq
    exact ⟨evalOpt_eq P x _ fun e he => (ih1 e he (h1 e he)).1,
      evalOpt_eq P x _ fun e he => (ih2 e he (h2 e he)).1,
      evalOpt_eq P x _ fun e he => (ih3 e he (h3 e he)).1⟩
  | forbidden k cs _ => intro h; cases h

theorem eval_eq_pyEval (P : Prims) (hP : CmpBool P) (x : Val) (e : Ast) (h : InGrammar e) :
    eval P x e = pyEval P x e :=
  (eval_eq_pyEval_aux P hP x e h).1

theorem pyPrims_cmpBool : CmpBool pyPrims where
  truthy_bool _ := rfl
  cmp_bool op a b v h := by
    have key : ∀ (m : Except Err Bool) (f : Bool → Bool),
        (do pure (Val.bool (f (← m))) : Except Err Val) = .ok v → ∃ t, v = .bool t := by
      intro m f hm
      cases m with
      | error e => cases hm
      | ok b => cases hm; exact ⟨_, rfl⟩
    change pyCmpOp op a b = .ok v at h
    cases op with
    | eq => exact key (pyEq a b) id h
    | ne => exact key (pyEq a b) (!·) h
    | other s => simp [pyCmpOp] at h
    | lt => exact key (pyOrd _ a b) id h
    | le => exact key (pyOrd _ a b) id h
    | gt => exact key (pyOrd _ a b) id h
    | ge => exact key (pyOrd _ a b) id h

end Pq.Expr
