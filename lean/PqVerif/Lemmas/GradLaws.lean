import Mathlib.Tactic
import Mathlib.Analysis.SpecialFunctions.ExpDeriv
import Mathlib.Analysis.SpecialFunctions.Sqrt
import Mathlib.Analysis.Calculus.Deriv.Pow
import Mathlib.Analysis.Calculus.Deriv.Mul
import Mathlib.Analysis.Complex.RealDeriv
import PqVerif.Lemmas.FockRepLaws

/-!
C10: the hand-written gradient rules are the true derivatives.
* permanent: `∂ perm(A; rows, cols) / ∂ A i j = rows i · cols j · perm(A; rows - e_i, cols - e_j)` — the rule
  of `grad_perm` (src/permanent.cpp) behind the JAX custom VJP;
* displacement matrix: the rules of `create_single_mode_displacement_gradient` (piquasso/_math/gradients.py).
-/
namespace Pq.GradLaws
open BigOperators Pq.Kernel Pq.FockRep

/-- the matrix `A` with `t` added to the entry `(i, j)` -/
def bump {n m : Nat} (A : Fin n → Fin m → ℂ) (i : Fin n) (j : Fin m) (t : ℂ) : Fin n → Fin m → ℂ :=
  fun a b => A a b + if a = i ∧ b = j then t else 0

theorem permSpec_congr_rows {n m : Nat} (A A' : Fin n → Fin m → ℂ) (rows : Fin n → Nat)
    (cols : Fin m → Nat) (h : ∀ a b, rows a ≠ 0 → A a b = A' a b) :
    permSpec A rows cols = permSpec A' rows cols := by
  unfold permSpec
  refine Finset.sum_congr rfl fun σ _ => Finset.prod_congr rfl fun c _ => ?_
  exact h _ _ (Nat.ne_of_gt (Fin.pos (σ c).2))

theorem bump_zero {n m : Nat} (A : Fin n → Fin m → ℂ) (i : Fin n) (j : Fin m) : bump A i j 0 = A := by
  funext a b; simp [bump]

theorem decRow_comm {ν : Type} [DecidableEq ν] (c : ν → Nat) (a b : ν) :
    decRow (decRow c a) b = decRow (decRow c b) a := by
  funext x
  unfold decRow
  by_cases h1 : x = a <;> by_cases h2 : x = b <;> by_cases h3 : a = b <;> simp_all

theorem decRow_mul {ν : Type} [DecidableEq ν] (c : ν → Nat) (a b : ν) :
    c a * decRow c a b = c b * decRow c b a := by
  unfold decRow
  by_cases h : a = b
  · subst h; simp
  · have h' : ¬ b = a := fun e => h e.symm
    simp [h, h', mul_comm]

theorem bump_entry_deriv {n m : Nat} (A : Fin n → Fin m → ℂ) (i : Fin n) (j j' : Fin m) (t₀ : ℂ) :
    HasDerivAt (fun t : ℂ => bump A i j t i j') (if j' = j then 1 else 0) t₀ := by
  unfold bump
  by_cases h : j' = j
  · simp only [h, and_self, if_true]
    exact (hasDerivAt_id t₀).const_add _
  · simp only [h, and_false, if_false]
    exact hasDerivAt_const _ _

theorem perm_grad_aux {n m : Nat} (i : Fin n) (j : Fin m) (k : ℕ) :
    ∀ (A : Fin n → Fin m → ℂ) (rows : Fin n → Nat) (cols : Fin m → Nat), rows i = k →
    HasDerivAt (fun t : ℂ => permSpec (bump A i j t) rows cols)
      ((k : ℂ) * (cols j : ℂ) * permSpec A (decRow rows i) (decRow cols j)) 0 := by
  induction k with
  | zero =>
    intro A rows cols hk
    have : (fun t : ℂ => permSpec (bump A i j t) rows cols) = fun _ => permSpec A rows cols := by
      funext t
      apply permSpec_congr_rows
      intro a b ha
      have : a ≠ i := fun e => ha (e ▸ hk)
      simp [bump, this]
    rw [this]
    simpa using hasDerivAt_const (0 : ℂ) (permSpec A rows cols)
  | succ k ih =>
    intro A rows cols hk
    have hne : rows i ≠ 0 := by omega
    have hdk : decRow rows i i = k := by simp [decRow, hk]
    have hfun : (fun t : ℂ => permSpec (bump A i j t) rows cols) = fun t =>
        ∑ j', (cols j' : ℂ) * (bump A i j t i j' *
          permSpec (bump A i j t) (decRow rows i) (decRow cols j')) := by
      funext t
      exact permSpec_expand _ rows cols i hne
    rw [hfun]
    have hd := HasDerivAt.fun_sum (u := Finset.univ) (fun j' _ =>
      ((bump_entry_deriv A i j j' 0).fun_mul (ih A (decRow rows i) (decRow cols j') hdk)).const_mul
        (cols j' : ℂ))
    refine hd.congr_deriv ?_
    simp only [bump_zero]
    simp only [mul_add, Finset.sum_add_distrib]
    have h1 : ∑ j', (cols j' : ℂ) * ((if j' = j then (1:ℂ) else 0) *
        permSpec A (decRow rows i) (decRow cols j')) =
        (cols j : ℂ) * permSpec A (decRow rows i) (decRow cols j) := by
      rw [Finset.sum_eq_single j]
      · simp
      · intro b _ hb; simp [hb]
      · simp
    rw [h1]
    by_cases hk0 : k = 0
    · subst hk0; simp
    · rw [permSpec_expand A (decRow rows i) (decRow cols j) i (by omega)]
      have h2 : ∀ j', (cols j' : ℂ) * (A i j' * ((k : ℂ) * (decRow cols j' j : ℂ) *
          permSpec A (decRow (decRow rows i) i) (decRow (decRow cols j') j))) =
          (k : ℂ) * (cols j : ℂ) * ((decRow cols j j' : ℂ) * (A i j' *
            permSpec A (decRow (decRow rows i) i) (decRow (decRow cols j) j'))) := by
        intro j'
        have e := decRow_mul cols j' j
        have e' : (cols j' : ℂ) * (decRow cols j' j : ℂ) = (cols j : ℂ) * (decRow cols j j' : ℂ) := by
          exact_mod_cast e
        rw [decRow_comm cols j' j]
        linear_combination (A i j' * (k : ℂ) *
          permSpec A (decRow (decRow rows i) i) (decRow (decRow cols j) j')) * e'
      rw [Finset.sum_congr rfl fun j' _ => h2 j', ← Finset.mul_sum]
      push_cast
      ring

/-- derivative of the permanent with multiplicities with respect to one matrix entry -/
theorem perm_grad {n m : Nat} (A : Fin n → Fin m → ℂ) (rows : Fin n → Nat) (cols : Fin m → Nat)
    (i : Fin n) (j : Fin m) :
    HasDerivAt (fun t : ℂ => permSpec (bump A i j t) rows cols)
      ((rows i : ℂ) * (cols j : ℂ) * permSpec A (decRow rows i) (decRow cols j)) 0 :=
  perm_grad_aux i j (rows i) A rows cols rfl

/-- closed form of the displacement matrix element `⟨m| D(r e^{iφ}) |n⟩` -/
noncomputable def dispEntry (m n : ℕ) (r φ : ℝ) : ℂ :=
  Complex.exp (-(r : ℂ) ^ 2 / 2) * (Real.sqrt (m.factorial * n.factorial) : ℂ) *
    ∑ k ∈ Finset.range (min m n + 1),
      ((-1 : ℂ) ^ (n - k) / ((k.factorial : ℂ) * ((m - k).factorial : ℂ) * ((n - k).factorial : ℂ))) *
        (r : ℂ) ^ (m + n - 2 * k) * Complex.exp (Complex.I * φ * ((m : ℂ) - (n : ℂ)))

noncomputable def cf (m n k : ℕ) : ℂ :=
  (-1 : ℂ) ^ (n - k) / ((k.factorial : ℂ) * ((m - k).factorial : ℂ) * ((n - k).factorial : ℂ))
noncomputable def nrm (m n : ℕ) : ℂ := (Real.sqrt (m.factorial * n.factorial) : ℂ)
noncomputable def ph (m n : ℕ) (φ : ℂ) : ℂ := Complex.exp (Complex.I * φ * ((m : ℂ) - (n : ℂ)))
noncomputable def T (m n : ℕ) (x : ℂ) : ℂ :=
  ∑ k ∈ Finset.range (min m n + 1), cf m n k * x ^ (m + n - 2 * k)
noncomputable def U1 (m n : ℕ) (x : ℂ) : ℂ :=
  ∑ k ∈ Finset.range (min m n + 1), cf m n k * ((m : ℂ) - k) * x ^ (m + n - 2 * k - 1)
noncomputable def U2 (m n : ℕ) (x : ℂ) : ℂ :=
  ∑ k ∈ Finset.range (min m n + 1), cf m n k * ((n : ℂ) - k) * x ^ (m + n - 2 * k - 1)

theorem dispEntry_eq (m n : ℕ) (r φ : ℝ) :
    dispEntry m n r φ = Complex.exp (-(r : ℂ) ^ 2 / 2) * nrm m n * (T m n r * ph m n φ) := by
  unfold dispEntry nrm T ph cf
  rw [Finset.sum_mul]

theorem shift1 (m n : ℕ) (x : ℂ) : T m n x = U1 (m + 1) n x := by
  unfold T U1
  have hsub : Finset.range (min m n + 1) ⊆ Finset.range (min (m + 1) n + 1) := by
    apply Finset.range_subset_range.mpr; omega
  rw [← Finset.sum_subset hsub]
  · refine Finset.sum_congr rfl fun k hk => ?_
    have hk' : k ≤ m ∧ k ≤ n := by have := Finset.mem_range.mp hk; omega
    have e1 : m + 1 + n - 2 * k - 1 = m + n - 2 * k := by omega
    have e2 : m + 1 - k = (m - k) + 1 := by omega
    rw [e1]
    unfold cf
    rw [e2, Nat.factorial_succ]
    have hc : ((m + 1 : ℕ) : ℂ) - (k : ℂ) = ((m - k + 1 : ℕ) : ℂ) := by
      push_cast [Nat.cast_sub hk'.1]; ring
    rw [hc]
    have h1 : ((m - k + 1 : ℕ) : ℂ) ≠ 0 := Nat.cast_ne_zero.mpr (Nat.succ_ne_zero _)
    have h2 : ((m - k).factorial : ℂ) ≠ 0 := by exact_mod_cast Nat.factorial_ne_zero _
    have h3 : ((n - k).factorial : ℂ) ≠ 0 := by exact_mod_cast Nat.factorial_ne_zero _
    have h4 : (k.factorial : ℂ) ≠ 0 := by exact_mod_cast Nat.factorial_ne_zero _
    push_cast at h1 ⊢
    field_simp
  · intro k hk hk'
    have hk1 := Finset.mem_range.mp hk
    have hk2 : ¬ k < min m n + 1 := fun h => hk' (Finset.mem_range.mpr h)
    have : k = m + 1 := by omega
    subst this
    simp

theorem shift2 (m n : ℕ) (x : ℂ) : T m n x = - U2 m (n + 1) x := by
  unfold T U2
  have hsub : Finset.range (min m n + 1) ⊆ Finset.range (min m (n + 1) + 1) := by
    apply Finset.range_subset_range.mpr; omega
  rw [← Finset.sum_subset hsub, ← Finset.sum_neg_distrib]
  · refine Finset.sum_congr rfl fun k hk => ?_
    have hk' : k ≤ m ∧ k ≤ n := by have := Finset.mem_range.mp hk; omega
    have e1 : m + (n + 1) - 2 * k - 1 = m + n - 2 * k := by omega
    have e2 : n + 1 - k = (n - k) + 1 := by omega
    rw [e1]
    unfold cf
    rw [e2, Nat.factorial_succ, pow_succ]
    have hc : ((n + 1 : ℕ) : ℂ) - (k : ℂ) = ((n - k + 1 : ℕ) : ℂ) := by
      push_cast [Nat.cast_sub hk'.2]; ring
    rw [hc]
    have h1 : ((n - k + 1 : ℕ) : ℂ) ≠ 0 := Nat.cast_ne_zero.mpr (Nat.succ_ne_zero _)
    have h2 : ((m - k).factorial : ℂ) ≠ 0 := by exact_mod_cast Nat.factorial_ne_zero _
    have h3 : ((n - k).factorial : ℂ) ≠ 0 := by exact_mod_cast Nat.factorial_ne_zero _
    have h4 : (k.factorial : ℂ) ≠ 0 := by exact_mod_cast Nat.factorial_ne_zero _
    push_cast at h1 ⊢
    field_simp
  · intro k hk hk'
    have hk1 := Finset.mem_range.mp hk
    have hk2 : ¬ k < min m n + 1 := fun h => hk' (Finset.mem_range.mpr h)
    have : k = n + 1 := by omega
    subst this
    simp

theorem nrm_succ_left (m n : ℕ) : (Real.sqrt ((m + 1 : ℕ) : ℝ) : ℂ) * nrm m n = nrm (m + 1) n := by
  unfold nrm
  rw [← Complex.ofReal_mul, ← Real.sqrt_mul (Nat.cast_nonneg _)]
  congr 2
  rw [Nat.factorial_succ]; push_cast; ring

theorem nrm_succ_right (m n : ℕ) : (Real.sqrt ((n + 1 : ℕ) : ℝ) : ℂ) * nrm m n = nrm m (n + 1) := by
  unfold nrm
  rw [← Complex.ofReal_mul, ← Real.sqrt_mul (Nat.cast_nonneg _)]
  congr 2
  rw [Nat.factorial_succ]; push_cast; ring

theorem ph_succ_left (m n : ℕ) (φ : ℂ) :
    Complex.exp (Complex.I * φ) * ph m n φ = ph (m + 1) n φ := by
  unfold ph
  rw [← Complex.exp_add]; congr 1; push_cast; ring

theorem ph_succ_right (m n : ℕ) (φ : ℂ) :
    Complex.exp (-(Complex.I * φ)) * ph m n φ = ph m (n + 1) φ := by
  unfold ph
  rw [← Complex.exp_add]; congr 1; push_cast; ring

theorem U1_zero (n : ℕ) (x : ℂ) : U1 0 n x = 0 := by
  unfold U1; simp

theorem U2_zero (m : ℕ) (x : ℂ) : U2 m 0 x = 0 := by
  unfold U2; simp

theorem lower_left (m n : ℕ) (r φ : ℝ) :
    Complex.exp (Complex.I * φ) * (Real.sqrt m : ℂ) * dispEntry (m - 1) n r φ =
      Complex.exp (-(r : ℂ) ^ 2 / 2) * nrm m n * ph m n φ * U1 m n r := by
  cases m with
  | zero => simp [U1_zero]
  | succ m =>
    rw [Nat.add_sub_cancel, dispEntry_eq, shift1, ← nrm_succ_left, ← ph_succ_left]
    ring

theorem lower_right (m n : ℕ) (r φ : ℝ) :
    Complex.exp (-(Complex.I * φ)) * (Real.sqrt n : ℂ) * dispEntry m (n - 1) r φ =
      -(Complex.exp (-(r : ℂ) ^ 2 / 2) * nrm m n * ph m n φ * U2 m n r) := by
  cases n with
  | zero => simp [U2_zero]
  | succ n =>
    rw [Nat.add_sub_cancel, dispEntry_eq, shift2, ← nrm_succ_right, ← ph_succ_right]
    ring

theorem T_hasDerivAt (m n : ℕ) (x : ℂ) : HasDerivAt (fun z => T m n z) (U1 m n x + U2 m n x) x := by
  unfold T
  have hd := HasDerivAt.fun_sum (u := Finset.range (min m n + 1)) (fun k _ =>
    (hasDerivAt_pow (m + n - 2 * k) x).const_mul (cf m n k))
  refine hd.congr_deriv ?_
  unfold U1 U2
  rw [← Finset.sum_add_distrib]
  refine Finset.sum_congr rfl fun k hk => ?_
  have hk' : 2 * k ≤ m + n := by have := Finset.mem_range.mp hk; omega
  push_cast [Nat.cast_sub hk']
  ring

theorem T_phase (m n : ℕ) (x : ℂ) : ((m : ℂ) - n) * T m n x = x * (U1 m n x - U2 m n x) := by
  unfold T U1 U2
  rw [← Finset.sum_sub_distrib, Finset.mul_sum, Finset.mul_sum]
  refine Finset.sum_congr rfl fun k hk => ?_
  have hk' : k ≤ m ∧ k ≤ n := by have := Finset.mem_range.mp hk; omega
  by_cases hp : m + n - 2 * k = 0
  · have h1 : m = n := by omega
    subst h1
    simp
  · obtain ⟨p, hp'⟩ := Nat.exists_eq_succ_of_ne_zero hp
    rw [hp', Nat.succ_sub_one, pow_succ]
    ring

theorem exp_sq_hasDerivAt (x : ℂ) :
    HasDerivAt (fun z : ℂ => Complex.exp (-z ^ 2 / 2)) (Complex.exp (-x ^ 2 / 2) * (-x)) x := by
  have h := (((hasDerivAt_pow 2 x).neg).div_const 2).cexp
  refine h.congr_deriv ?_
  simp
  ring

theorem ph_hasDerivAt (m n : ℕ) (x : ℂ) :
    HasDerivAt (fun z => ph m n z) (ph m n x * (Complex.I * ((m : ℂ) - n))) x := by
  unfold ph
  have h := (((hasDerivAt_id x).const_mul Complex.I).mul_const ((m : ℂ) - n)).cexp
  refine h.congr_deriv ?_
  simp

/-- `r_grad = -r D + e^{iφ} √m D[m-1, n] - e^{-iφ} √n D[m, n-1]` (rows / columns rolled by one; the rolled-in
last row / column is multiplied by `√0 = 0`) -/
theorem disp_grad_r (m n : ℕ) (r φ : ℝ) :
    HasDerivAt (fun x : ℝ => dispEntry m n x φ)
      (-(r : ℂ) * dispEntry m n r φ
        + Complex.exp (Complex.I * φ) * (Real.sqrt m : ℂ) * dispEntry (m - 1) n r φ
        - Complex.exp (-(Complex.I * φ)) * (Real.sqrt n : ℂ) * dispEntry m (n - 1) r φ) r := by
  have h := (((exp_sq_hasDerivAt (r : ℂ)).mul_const (nrm m n)).fun_mul
    ((T_hasDerivAt m n (r : ℂ)).mul_const (ph m n φ))).comp_ofReal
  have hfun : (fun x : ℝ => dispEntry m n x φ) = fun y : ℝ =>
      Complex.exp (-(y : ℂ) ^ 2 / 2) * nrm m n * (T m n y * ph m n φ) := by
    funext x; exact dispEntry_eq m n x φ
  rw [hfun]
  refine h.congr_deriv ?_
  rw [lower_left, lower_right, dispEntry_eq]
  ring

/-- `phi_grad = i r (e^{iφ} √m D[m-1, n] + e^{-iφ} √n D[m, n-1])` -/
theorem disp_grad_phi (m n : ℕ) (r φ : ℝ) :
    HasDerivAt (fun x : ℝ => dispEntry m n r x)
      (Complex.I * (r : ℂ) *
        (Complex.exp (Complex.I * φ) * (Real.sqrt m : ℂ) * dispEntry (m - 1) n r φ
          + Complex.exp (-(Complex.I * φ)) * (Real.sqrt n : ℂ) * dispEntry m (n - 1) r φ)) φ := by
  have h := (((ph_hasDerivAt m n (φ : ℂ)).const_mul (T m n r)).const_mul
    (Complex.exp (-(r : ℂ) ^ 2 / 2) * nrm m n)).comp_ofReal
  have hfun : (fun x : ℝ => dispEntry m n r x) = fun y : ℝ =>
      Complex.exp (-(r : ℂ) ^ 2 / 2) * nrm m n * (T m n r * ph m n y) := by
    funext x; exact dispEntry_eq m n r x
  rw [hfun]
  refine h.congr_deriv ?_
  rw [lower_left, lower_right]
  linear_combination (Complex.exp (-(r : ℂ) ^ 2 / 2) * nrm m n * ph m n φ * Complex.I) *
    T_phase m n (r : ℂ)

end Pq.GradLaws
