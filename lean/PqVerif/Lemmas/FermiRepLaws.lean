import Mathlib.Tactic
import Mathlib.LinearAlgebra.Matrix.Determinant.Basic
import PqVerif.Model.FermiRep

/-!
C17: the recursion by which the fermionic Fock simulator lifts an interferometer computes the
determinants of the submatrices (Slater determinants) — exclusion and antisymmetry are built in.
-/
namespace Pq.FermiRep
open Matrix

variable {K : Type} [CommRing K]

/-- list form of a matrix given on `Fin d` -/
def matList' {d : Nat} (U : Fin d → Fin d → K) : List (List K) :=
  (List.finRange d).map (fun i => (List.finRange d).map (fun j => U i j))

theorem foldl_sign_eq_sum (f : Nat → K) (n : Nat) :
    (List.range n).foldl (fun acc k => if k % 2 = 0 then acc + f k else acc + (-f k)) 0 =
      ∑ k ∈ Finset.range n, (-1) ^ k * f k := by
  induction n with
  | zero => simp
  | succ n ih =>
    rw [List.range_succ, List.foldl_append, ih, Finset.sum_range_succ]
    simp only [List.foldl_cons, List.foldl_nil]
    by_cases hk : n % 2 = 0
    · have : Even n := Nat.even_iff.mpr hk
      simp [hk, this.neg_one_pow]
    · have : Odd n := Nat.odd_iff.mpr (by omega)
      simp [hk, this.neg_one_pow]

theorem fermiRep_cons (U : List (List K)) (r0 : Nat) (R C : List Nat) :
    fermiRep U (r0 :: R) C =
      ∑ k ∈ Finset.range C.length,
        (-1) ^ k * (entry U r0 (C.getD k 0) * fermiRep U R (C.eraseIdx k)) := by
  rw [fermiRep]
  exact foldl_sign_eq_sum (fun k => entry U r0 (C.getD k 0) * fermiRep U R (C.eraseIdx k)) _

theorem entry_matList' {d : Nat} (U : Fin d → Fin d → K) (i j : Fin d) :
    entry (matList' U) i.val j.val = U i j := by
  simp [entry, matList']

theorem eraseIdx_map_finRange {d n : Nat} (C : Fin (n + 1) → Fin d) (k : Fin (n + 1)) :
    ((List.finRange (n + 1)).map (fun j => (C j).val)).eraseIdx k.val =
      (List.finRange n).map (fun j => (C (Fin.succAbove k j)).val) := by
  apply List.ext_getElem
  · have := k.isLt
    simp [List.length_eraseIdx]
    omega
  · intro i h1 h2
    simp only [List.length_map, List.length_finRange] at h2
    rw [List.getElem_eraseIdx]
    simp only [List.getElem_map, List.getElem_finRange]
    split_ifs with h
    · congr 2
      rw [Fin.succAbove_of_castSucc_lt]
      · rfl
      · exact Fin.lt_def.mpr (by simpa using h)
    · congr 2
      rw [Fin.succAbove_of_le_castSucc]
      · rfl
      · exact Fin.le_def.mpr (by simpa using h)

/-- `rep_n[R, C] = det U[R, C]` for all index tuples (in particular the increasing ones the code uses) -/
theorem fermiRep_eq_det {d n : Nat} (U : Fin d → Fin d → K) (R C : Fin n → Fin d) :
    fermiRep (matList' U) ((List.finRange n).map (fun i => (R i).val)) ((List.finRange n).map (fun j => (C j).val)) =
      (Matrix.of fun i j => U (R i) (C j)).det := by
  induction n with
  | zero => simp [fermiRep]
  | succ n ih =>
    have hR : (List.finRange (n + 1)).map (fun i => (R i).val) =
        (R 0).val :: (List.finRange n).map (fun i => (R i.succ).val) := by
      rw [List.finRange_succ]
      simp [Function.comp_def]
    rw [hR, fermiRep_cons, Matrix.det_succ_row_zero]
    simp only [List.length_map, List.length_finRange]
    rw [← Fin.sum_univ_eq_sum_range
      (fun k => (-1 : K) ^ k * (entry (matList' U) (R 0).val
        (((List.finRange (n + 1)).map (fun j => (C j).val)).getD k 0) *
        fermiRep (matList' U) ((List.finRange n).map (fun i => (R i.succ).val))
          (((List.finRange (n + 1)).map (fun j => (C j).val)).eraseIdx k))) (n + 1)]
    apply Finset.sum_congr rfl
    intro k _
    rw [eraseIdx_map_finRange, ih (fun i => R i.succ) (fun j => C (k.succAbove j))]
    have hget : ((List.finRange (n + 1)).map (fun j => (C j).val)).getD k.val 0 = (C k).val := by
      rw [List.getD_eq_getElem?_getD, List.getElem?_eq_getElem (by simpa using k.isLt)]
      simp
    rw [hget, entry_matList', mul_assoc]
    rfl

/-- blocks of different particle number do not exist: mismatching lengths give 0 -/
theorem fermiRep_length_mismatch {d : Nat} (U : Fin d → Fin d → K) (R C : List Nat)
    (h : R.length ≠ C.length) : fermiRep (matList' U) R C = 0 := by
  induction R generalizing C with
  | nil =>
    cases C with
    | nil => simp at h
    | cons c C => simp [fermiRep]
  | cons r0 R ih =>
    rw [fermiRep_cons]
    apply Finset.sum_eq_zero
    intro k hk
    rw [Finset.mem_range] at hk
    rw [ih]
    · simp
    · rw [List.length_eraseIdx, if_pos hk]
      simp only [List.length_cons] at h
      omega

/-- exclusion: a repeated output (or input) mode gives amplitude 0 -/
theorem fermiRep_repeated_row {d n : Nat} (U : Fin d → Fin d → K) (R C : Fin n → Fin d)
    (i j : Fin n) (hij : i ≠ j) (h : R i = R j) :
    fermiRep (matList' U) ((List.finRange n).map (fun i => (R i).val)) ((List.finRange n).map (fun j => (C j).val)) = 0 := by
  rw [fermiRep_eq_det]
  apply Matrix.det_zero_of_row_eq hij
  funext c
  simp [h]

end Pq.FermiRep
