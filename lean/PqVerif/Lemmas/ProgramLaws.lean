import Mathlib.Tactic
import Mathlib.Algebra.Field.Basic
import PqVerif.Model.Program

/-!
C18 lemmas: register composition, Blackbird operation round trip, preparation algebra.
-/
namespace Pq.Program

/-! ### registers -/

/-- registering through `R2` and then through `R1` is registering once through the composed
register; `h` is the condition under which the real code does not raise `IndexError`
(`h2` is not needed by the proof; `h` is: see the example below) -/
theorem mapModes_comp (R1 R2 modes : List Nat) (h : ∀ m ∈ modes, m < R2.length)
    (h2 : ∀ m ∈ R2, R1 = [] ∨ m < R1.length) :
    mapModes R1 (mapModes R2 modes) = mapModes (mapModes R1 R2) modes := by
  cases R2 with
  | nil =>
    cases R1 <;> simp [mapModes]
  | cons r2 R2' =>
    cases modes with
    | nil =>
      cases R1 <;> simp [mapModes]
    | cons m0 ms =>
      cases R1 with
      | nil => simp [mapModes]
      | cons r1 R1' =>
        simp only [mapModes, List.isEmpty_cons, List.map_cons, Bool.false_eq_true, if_false]
        have key : ∀ m, m < (r2 :: R2').length →
            (r1 :: R1').getD ((r2 :: R2').getD m 0) 0
              = (((r2 :: R2').map (fun m => (r1 :: R1').getD m 0))).getD m 0 := by
          intro m hm
          simp only [List.getD_eq_getElem?_getD, List.getElem?_map]
          rw [List.getElem?_eq_getElem hm]
          simp
        have h0 := key m0 (h m0 (by simp))
        simp only [List.map_cons] at h0 key
        rw [h0]
        congr 1
        simp only [List.map_map]
        apply List.map_congr_left
        intro m hm
        exact key m (h m (by simp [hm]))

/-- without `h` the law fails (the model's `getD` default stands in for Python's `IndexError`) -/
example : mapModes [5] (mapModes [0] [3]) ≠ mapModes (mapModes [5] [0]) [3] := by decide

theorem register_comp {α} (R1 R2 : List Nat) (p q : List (RInstr α))
    (h : ∀ i ∈ p, ∀ m ∈ i.modes, m < R2.length) (h2 : ∀ m ∈ R2, R1 = [] ∨ m < R1.length) :
    register R1 (register R2 p []) q = register (mapModes R1 R2) p q := by
  simp only [register, List.nil_append, List.map_map]
  congr 1
  apply List.map_congr_left
  intro i hi
  simp only [Function.comp]
  rw [mapModes_comp R1 R2 i.modes (h i hi) h2]

/-- every inner instruction appears exactly once, in order, with its modes mapped once -/
theorem register_spec {α} (R : List Nat) (p q : List (RInstr α)) :
    register R p q = q ++ p.map (fun i => { i with modes := mapModes R i.modes }) ∧
    (register R p q).length = q.length + p.length := by
  simp [register]

/-! ### Blackbird -/

/-- the table facts the round trip needs (discharged by `decide` on the generated table) -/
structure TableOK {β} (tbl : List (ClsInfo β)) : Prop where
  pq_unique : (tbl.map (·.pq)).Nodup
  bb_unique : (tbl.map (·.bb)).Nodup
  order : ∀ c ∈ tbl, c.sig.map (·.1) = c.paramKeys

theorem find?_of_nodup_map {γ : Type} (f : γ → String) :
    ∀ (l : List γ) (c : γ), c ∈ l → (l.map f).Nodup →
      l.find? (fun x => f x == f c) = some c
  | [], _, hc, _ => by simp at hc
  | x :: l, c, hc, hn => by
    rw [List.map_cons, List.nodup_cons] at hn
    rcases List.mem_cons.1 hc with rfl | hc'
    · simp
    · have hne : f x ≠ f c := by
        intro he
        exact hn.1 (he ▸ List.mem_map_of_mem hc')
      rw [List.find?_cons_of_neg (by simpa using hne)]
      exact find?_of_nodup_map f l c hc' hn.2

theorem fillParams_roundtrip {β} :
    ∀ (sig params : List (String × β)), sig.map (·.1) = params.map (·.1) →
      fillParams sig (params.map (·.2)) = params
  | [], [], _ => rfl
  | [], _ :: _, h => by simp at h
  | _ :: _, [], h => by simp at h
  | (n, d) :: sig, (n', a) :: params, h => by
    simp only [List.map_cons, List.cons.injEq] at h
    obtain ⟨rfl, h⟩ := h
    simp only [List.map_cons, fillParams]
    rw [fillParams_roundtrip sig params h]

theorem bb_roundtrip {β} (tbl : List (ClsInfo β)) (hT : TableOK tbl) (i : BInstr β)
    (c : ClsInfo β) (hc : c ∈ tbl) (hcls : i.cls = c.pq) (hkeys : i.params.map (·.1) = c.paramKeys) :
    (toBB tbl i).bind (fromBB tbl) = some i := by
  have h1 : findPq tbl i.cls = some c := by
    rw [hcls]; exact find?_of_nodup_map (fun x : ClsInfo β => x.pq) tbl c hc hT.pq_unique
  have h2 : findBb tbl c.bb = some c :=
    find?_of_nodup_map (fun x : ClsInfo β => x.bb) tbl c hc hT.bb_unique
  have h3 : fillParams c.sig (i.params.map (·.2)) = i.params :=
    fillParams_roundtrip c.sig i.params ((hT.order c hc).trans hkeys.symm)
  simp only [toBB, h1, Option.map_some, Option.bind_some, fromBB, h2, h3, ← hcls]

/-! ### preparation algebra over a field -/

/-! #### association-list helpers -/

namespace AMap
variable {K : Type}

/-- the keys of the dict, in insertion order -/
def keys (m : AMap K) : List Occ := m.map (·.1)

@[simp] theorem keys_nil : keys ([] : AMap K) = [] := rfl
@[simp] theorem keys_cons (p : Occ × K) (m : AMap K) : keys (p :: m) = p.1 :: keys m := rfl

@[simp] theorem get?_nil (k : Occ) : AMap.get? ([] : AMap K) k = none := rfl

theorem get?_cons (k' : Occ) (v : K) (m : AMap K) (k : Occ) :
    AMap.get? ((k', v) :: m) k = if k' = k then some v else AMap.get? m k := by
  unfold AMap.get?
  by_cases h : k' = k
  · simp [h]
  · rw [List.find?_cons_of_neg (by simpa using h)]
    simp [h]

theorem get?_eq_none_iff (m : AMap K) (k : Occ) : AMap.get? m k = none ↔ k ∉ keys m := by
  induction m with
  | nil => simp
  | cons p m ih =>
    obtain ⟨k', v⟩ := p
    rw [get?_cons]
    by_cases h : k' = k
    · simp [h]
    · simp [h, ih, Ne.symm h]

theorem get?_set_self (m : AMap K) (k : Occ) (v : K) :
    AMap.get? (AMap.set m k v) k = some v := by
  induction m with
  | nil => simp [AMap.set, get?_cons]
  | cons p m ih =>
    obtain ⟨k', v'⟩ := p
    by_cases h : k' = k
    · simp [AMap.set, h, get?_cons]
    · simp [AMap.set, h, get?_cons, ih]

theorem get?_set_ne (m : AMap K) (k : Occ) (v : K) (k₁ : Occ) (hne : k ≠ k₁) :
    AMap.get? (AMap.set m k v) k₁ = AMap.get? m k₁ := by
  induction m with
  | nil => simp [AMap.set, get?_cons, hne]
  | cons p m ih =>
    obtain ⟨k', v'⟩ := p
    by_cases h : k' = k
    · subst h
      simp [AMap.set, get?_cons, hne]
    · simp [AMap.set, h, get?_cons, ih]

theorem get?_set (m : AMap K) (k : Occ) (v : K) (k₁ : Occ) :
    AMap.get? (AMap.set m k v) k₁ = if k = k₁ then some v else AMap.get? m k₁ := by
  by_cases h : k = k₁
  · subst h; simp [get?_set_self]
  · simp [h, get?_set_ne m k v k₁ h]

theorem keys_set (m : AMap K) (k : Occ) (v : K) :
    keys (AMap.set m k v) = if k ∈ keys m then keys m else keys m ++ [k] := by
  induction m with
  | nil => simp [AMap.set]
  | cons p m ih =>
    obtain ⟨k', v'⟩ := p
    by_cases h : k' = k
    · simp [AMap.set, h]
    · simp only [AMap.set, beq_iff_eq, h, if_false, keys_cons, ih, List.mem_cons, Ne.symm h,
        false_or]
      split <;> simp

theorem nodup_keys_set (m : AMap K) (k : Occ) (v : K) (h : (keys m).Nodup) :
    (keys (AMap.set m k v)).Nodup := by
  rw [keys_set]
  split
  · exact h
  · rename_i hk
    rw [List.nodup_append]
    refine ⟨h, by simp, ?_⟩
    intro a ha b hb
    simp only [List.mem_singleton] at hb
    subst hb
    rintro rfl
    exact hk ha

end AMap

section scale
variable {K : Type} [Field K]

theorem keys_scaleMap (m : AMap K) (c : K) : AMap.keys (scaleMap m c) = AMap.keys m := by
  induction m with
  | nil => rfl
  | cons p m ih =>
    obtain ⟨k, v⟩ := p
    simp only [scaleMap, List.map_cons, AMap.keys_cons] at ih ⊢
    rw [ih]

theorem get?_scaleMap (m : AMap K) (c : K) (k : Occ) :
    AMap.get? (scaleMap m c) k = (AMap.get? m k).map (· * c) := by
  induction m with
  | nil => rfl
  | cons p m ih =>
    obtain ⟨k', v⟩ := p
    have : scaleMap ((k', v) :: m) c = (k', v * c) :: scaleMap m c := rfl
    rw [this, AMap.get?_cons, AMap.get?_cons, ih]
    split <;> simp

/-- total lookup: absent keys have amplitude `0` -/
def val (m : AMap K) (k : Occ) : K := (AMap.get? m k).getD 0

theorem amp_vector (m : AMap K) (c : K) (k : Occ) : (Prep.vector m c).amp k = val m k * c := by
  unfold Prep.amp val
  cases h : AMap.get? m k <;> simp [h]

theorem val_set (m : AMap K) (k : Occ) (v : K) (k₁ : Occ) :
    val (AMap.set m k v) k₁ = if k = k₁ then v else val m k₁ := by
  unfold val
  rw [AMap.get?_set]
  split <;> simp

theorem val_scaleMap (m : AMap K) (c : K) (k : Occ) : val (scaleMap m c) k = val m k * c := by
  unfold val
  rw [get?_scaleMap]
  cases AMap.get? m k <;> simp

theorem val_cons (k' : Occ) (v : K) (m : AMap K) (k : Occ) :
    val ((k', v) :: m) k = if k' = k then v else val m k := by
  unfold val
  rw [AMap.get?_cons]
  split <;> simp

theorem val_of_not_mem (m : AMap K) (k : Occ) (h : k ∉ AMap.keys m) : val m k = 0 := by
  unfold val
  rw [(AMap.get?_eq_none_iff m k).2 h]
  rfl

/-- the update performed by `FockStateVector.__add__` for one `(key, value)` of the right operand -/
def addStep (c2 : K) (acc : AMap K) (p : Occ × K) : AMap K :=
  match AMap.get? acc p.1 with
  | some a => AMap.set acc p.1 (a + p.2 * c2)
  | none => AMap.set acc p.1 (p.2 * c2)

theorem val_addStep (c2 : K) (acc : AMap K) (p : Occ × K) (k : Occ) :
    val (addStep c2 acc p) k = val acc k + if p.1 = k then p.2 * c2 else 0 := by
  unfold addStep
  cases hg : AMap.get? acc p.1 with
  | none =>
    simp only [val_set]
    by_cases h : p.1 = k
    · subst h; simp [val, hg]
    · simp [h]
  | some a =>
    simp only [val_set]
    by_cases h : p.1 = k
    · subst h; simp [val, hg]
    · simp [h]

theorem nodup_addStep (c2 : K) (acc : AMap K) (p : Occ × K) (h : (AMap.keys acc).Nodup) :
    (AMap.keys (addStep c2 acc p)).Nodup := by
  unfold addStep
  split <;> exact AMap.nodup_keys_set _ _ _ h

theorem val_foldl_addStep (c2 : K) (m2 : AMap K) :
    ∀ (acc : AMap K), (AMap.keys m2).Nodup → ∀ k,
      val (m2.foldl (addStep c2) acc) k = val acc k + val m2 k * c2 := by
  induction m2 with
  | nil => intro acc _ k; simp [val]
  | cons p m2 ih =>
    intro acc hn k
    obtain ⟨k', v⟩ := p
    simp only [AMap.keys_cons, List.nodup_cons] at hn
    rw [List.foldl_cons, ih _ hn.2, val_addStep, val_cons]
    by_cases h : k' = k
    · subst h
      simp [val_of_not_mem m2 k' hn.1]
    · simp [h]

theorem nodup_foldl_addStep (c2 : K) (m2 : AMap K) :
    ∀ (acc : AMap K), (AMap.keys acc).Nodup → (AMap.keys (m2.foldl (addStep c2) acc)).Nodup := by
  induction m2 with
  | nil => intro acc h; exact h
  | cons p m2 ih =>
    intro acc h
    exact ih _ (nodup_addStep c2 acc p h)

theorem add_vector_vector (m1 m2 : AMap K) (c1 c2 : K) :
    (Prep.vector m1 c1).add (Prep.vector m2 c2)
      = Prep.vector (m2.foldl (addStep c2) (scaleMap m1 c1)) 1 := by
  rfl

end scale

variable {K : Type} [Field K]

/-- Python dicts have distinct keys -/
def Prep.WF : Prep K → Prop
  | .number _ _ => True
  | .vector m _ => (m.map (·.1)).Nodup

theorem add_wf (a b : Prep K) (ha : a.WF) (hb : b.WF) : (a.add b).WF := by
  cases a with
  | number o1 c1 =>
    cases b with
    | number o2 c2 =>
      unfold Prep.add
      by_cases h : o1 = o2
      · simp [h, Prep.WF]
      · simp [h, Prep.WF]
    | vector m cm =>
      have hm : (AMap.keys (scaleMap m cm)).Nodup := by rw [keys_scaleMap]; exact hb
      unfold Prep.add
      simp only
      cases hg : AMap.get? (scaleMap m cm) o1 with
      | some v => exact AMap.nodup_keys_set _ _ _ hm
      | none =>
        simp only [AMap.prepend, hg]
        show (AMap.keys ((o1, c1) :: scaleMap m cm)).Nodup
        rw [AMap.keys_cons, List.nodup_cons]
        exact ⟨(AMap.get?_eq_none_iff _ _).1 hg, hm⟩
  | vector m1 cm1 =>
    have hm : (AMap.keys (scaleMap m1 cm1)).Nodup := by rw [keys_scaleMap]; exact ha
    cases b with
    | number o c =>
      unfold Prep.add
      simp only
      cases hg : AMap.get? m1 o with
      | some v => exact AMap.nodup_keys_set _ _ _ hm
      | none => exact AMap.nodup_keys_set _ _ _ hm
    | vector m2 cm2 =>
      rw [add_vector_vector]
      exact nodup_foldl_addStep cm2 m2 _ hm

/-- `+` denotes the sum of the superpositions, for every combination of operand types -/
theorem amp_add (a b : Prep K) (ha : a.WF) (hb : b.WF) (k : Occ) :
    (a.add b).amp k = a.amp k + b.amp k := by
  cases a with
  | number o1 c1 =>
    cases b with
    | number o2 c2 =>
      unfold Prep.add
      by_cases h : o1 = o2
      · subst h
        by_cases hk : o1 = k <;> simp [Prep.amp, hk]
      · simp only [beq_iff_eq, h, if_false, amp_vector, val_cons, mul_one]
        by_cases hk : o1 = k
        · subst hk
          have h' : ¬ o2 = o1 := fun e => h e.symm
          simp [Prep.amp, h']
        · by_cases hk2 : o2 = k <;> simp [Prep.amp, hk, hk2, val]
    | vector m cm =>
      have hnum : (Prep.number o1 c1).amp k = if o1 = k then c1 else 0 := by
        simp [Prep.amp]
      rw [amp_vector m cm, hnum]
      unfold Prep.add
      simp only
      cases hg : AMap.get? (scaleMap m cm) o1 with
      | some v =>
        simp only [amp_vector, val_set, mul_one]
        by_cases hk : o1 = k
        · subst hk
          have : val (scaleMap m cm) o1 = v := by simp [val, hg]
          rw [← val_scaleMap, this]; simp
        · simp [hk, val_scaleMap]
      | none =>
        simp only [AMap.prepend, hg, amp_vector, val_cons, mul_one]
        by_cases hk : o1 = k
        · subst hk
          have : val (scaleMap m cm) o1 = 0 := by simp [val, hg]
          rw [← val_scaleMap, this]; simp
        · simp [hk, val_scaleMap]
  | vector m1 cm1 =>
    cases b with
    | number o c =>
      have hnum : (Prep.number o c).amp k = if o = k then c else 0 := by
        simp [Prep.amp]
      rw [amp_vector m1 cm1, hnum]
      unfold Prep.add
      simp only
      cases hg : AMap.get? m1 o with
      | some v =>
        simp only [amp_vector, val_set, mul_one, get?_scaleMap, hg, Option.map_some,
          Option.getD_some]
        by_cases hk : o = k
        · subst hk; simp [val, hg]
        · simp [hk, val_scaleMap]
      | none =>
        simp only [amp_vector, val_set, mul_one]
        by_cases hk : o = k
        · subst hk; simp [val, hg]
        · simp [hk, val_scaleMap]
    | vector m2 cm2 =>
      rw [add_vector_vector]
      simp only [amp_vector, mul_one]
      rw [val_foldl_addStep cm2 m2 _ hb, val_scaleMap]

theorem amp_smul (c : K) (a : Prep K) (k : Occ) : (a.smul c).amp k = a.amp k * c := by
  cases a with
  | number o x => simp only [Prep.smul, Prep.amp]; split <;> simp
  | vector m x =>
    simp only [Prep.smul, amp_vector, mul_assoc]

theorem amp_sdiv (c : K) (a : Prep K) (k : Occ) : (a.sdiv c).amp k = a.amp k / c := by
  unfold Prep.sdiv
  rw [amp_smul, mul_one_div]

theorem smul_wf (c : K) (a : Prep K) (ha : a.WF) : (a.smul c).WF := by
  cases a with
  | number o x => trivial
  | vector m x => exact ha

end Pq.Program
