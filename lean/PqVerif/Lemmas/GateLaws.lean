import Mathlib.Tactic
import Mathlib.Analysis.SpecialFunctions.Trigonometric.Basic
import Mathlib.Analysis.SpecialFunctions.Trigonometric.DerivHyp
import Mathlib.Analysis.SpecialFunctions.Complex.Circle
import Mathlib.LinearAlgebra.Matrix.Notation
import PqVerif.Gen.Gates

/-!
C07 lemmas about the GENERATED gate matrices (`PqVerif/Gen/Gates.lean` is rewritten from
piquasso/instructions/gates.py on every run): every built-in linear gate is symplectic
(unitary when passive) for all real parameters, and the documented identities hold.
-/
set_option linter.unusedTactic false
set_option linter.unreachableTactic false

namespace Pq.GateLaws
open Matrix Pq.Gen.Gates

/-- complex-form symplectic conditions for `S = [[P, A],[Ā, P̄]]` -/
def Symplectic {k : Nat} (P A : Matrix (Fin k) (Fin k) ℂ) : Prop :=
  P * Pᴴ - A * Aᴴ = 1 ∧ P * Aᵀ = A * Pᵀ

/-- a passive gate is unitary -/
def Unitary' {k : Nat} (P : Matrix (Fin k) (Fin k) ℂ) : Prop := P * Pᴴ = 1

/-! ### scalar identities and the entrywise expansion tactic -/
theorem exp_mul_exp_neg (φ : ℝ) :
    Complex.exp (Complex.I * (φ : ℂ)) * Complex.exp (-(Complex.I * (φ : ℂ))) = 1 := by
  rw [← Complex.exp_add, add_neg_cancel, Complex.exp_zero]

theorem conj_exp_I (φ : ℝ) :
    (starRingEnd ℂ) (Complex.exp (Complex.I * (φ : ℂ))) = Complex.exp (-(Complex.I * (φ : ℂ))) := by
  rw [← Complex.exp_conj, map_mul, Complex.conj_I, Complex.conj_ofReal, neg_mul]

theorem conj_exp_neg_I (φ : ℝ) :
    (starRingEnd ℂ) (Complex.exp (-(Complex.I * (φ : ℂ)))) = Complex.exp (Complex.I * (φ : ℂ)) := by
  rw [← conj_exp_I, Complex.conj_conj]

theorem cos_sq_add_sin_sq_c (θ : ℝ) :
    ((Real.cos θ : ℝ) : ℂ) * ((Real.cos θ : ℝ) : ℂ) + ((Real.sin θ : ℝ) : ℂ) * ((Real.sin θ : ℝ) : ℂ) = 1 := by
  have := Real.cos_sq_add_sin_sq θ
  exact_mod_cast (by nlinarith : Real.cos θ * Real.cos θ + Real.sin θ * Real.sin θ = 1)

theorem cosh_sq_sub_sinh_sq_c (r : ℝ) :
    ((Real.cosh r : ℝ) : ℂ) * ((Real.cosh r : ℝ) : ℂ) - ((Real.sinh r : ℝ) : ℂ) * ((Real.sinh r : ℝ) : ℂ) = 1 := by
  have := Real.cosh_sq r
  exact_mod_cast (by nlinarith : Real.cosh r * Real.cosh r - Real.sinh r * Real.sinh r = 1)

theorem sqrt_two_mul_self_c : ((Real.sqrt 2 : ℝ) : ℂ) * ((Real.sqrt 2 : ℝ) : ℂ) = 2 := by
  exact_mod_cast Real.mul_self_sqrt (by norm_num : (0:ℝ) ≤ 2)

theorem sqrt_two_ne_zero_c : ((Real.sqrt 2 : ℝ) : ℂ) ≠ 0 := by
  have : Real.sqrt 2 ≠ 0 := Real.sqrt_ne_zero'.mpr (by norm_num)
  exact_mod_cast this

theorem exp_I_mul (φ : ℝ) :
    Complex.exp (Complex.I * (φ : ℂ)) = ((Real.cos φ : ℝ) : ℂ) + ((Real.sin φ : ℝ) : ℂ) * Complex.I := by
  rw [mul_comm, Complex.exp_mul_I, Complex.ofReal_cos, Complex.ofReal_sin]

theorem exp_I_pi_div_two : Complex.exp (Complex.I * ((Real.pi / 2 : ℝ) : ℂ)) = Complex.I := by
  rw [exp_I_mul, Real.cos_pi_div_two, Real.sin_pi_div_two]; simp

theorem exp_I_zero : Complex.exp (Complex.I * ((0 : ℝ) : ℂ)) = 1 := by simp

/-- expand a matrix identity on `Fin 1`/`Fin 2` into entrywise scalar goals -/
macro "mat_entries" : tactic => `(tactic|
  (ext i j
   fin_cases i <;> fin_cases j <;>
   simp only [Matrix.sub_apply, Matrix.mul_apply, Fin.sum_univ_two, Fin.sum_univ_one,
     Matrix.conjTranspose_apply, Matrix.transpose_apply, Matrix.map_apply] <;>
   simp [conj_exp_I, conj_exp_neg_I, Complex.conj_ofNat, -Complex.ofReal_cos, -Complex.ofReal_sin,
     -Complex.ofReal_cosh, -Complex.ofReal_sinh]))

/-! ### symplecticity / unitarity -/
theorem beamsplitter_unitary (theta phi : ℝ) : Unitary' (Beamsplitter_passive theta phi) := by
  have h1 := exp_mul_exp_neg phi
  have h2 := cos_sq_add_sin_sq_c theta
  unfold Unitary' Beamsplitter_passive
  mat_entries
  all_goals first
    | ring1
    | linear_combination h2 + ((Real.sin theta : ℝ) : ℂ) * ((Real.sin theta : ℝ) : ℂ) * h1

theorem beamsplitter5050_unitary : Unitary' Beamsplitter5050_passive := by
  have h := sqrt_two_mul_self_c
  have h0 := sqrt_two_ne_zero_c
  unfold Unitary' Beamsplitter5050_passive
  mat_entries
  all_goals field_simp
  all_goals first | ring1 | linear_combination h | linear_combination -h

theorem phaseshifter_unitary (phi : ℝ) : Unitary' (Phaseshifter_passive phi) := by
  have h1 := exp_mul_exp_neg phi
  unfold Unitary' Phaseshifter_passive
  mat_entries
  all_goals linear_combination h1

theorem machzehnder_unitary (int_ ext : ℝ) : Unitary' (MachZehnder_passive int_ ext) := by
  have h1 := exp_mul_exp_neg int_
  have h2 := exp_mul_exp_neg ext
  have hI := Complex.I_mul_I
  unfold Unitary' MachZehnder_passive
  mat_entries
  all_goals
    generalize Complex.exp (Complex.I * (int_ : ℂ)) = a at *
    generalize Complex.exp (-(Complex.I * (int_ : ℂ))) = a' at *
    generalize Complex.exp (Complex.I * (ext : ℂ)) = b at *
    generalize Complex.exp (-(Complex.I * (ext : ℂ))) = b' at *
  · linear_combination (1/4)*(a-1)*(a'-1) * h2 - (1/4)*(a+1)*(a'+1) * hI + (1/2) * h1
  · linear_combination -(1/4)*Complex.I*(a-1)*(a'+1) * h2 - (1/2)*Complex.I * h1
  · linear_combination (1/4)*Complex.I*(a+1)*(a'-1) * h2 + (1/2)*Complex.I * h1
  · linear_combination -(1/4)*b*b'*(a+1)*(a'+1)*hI + (1/4)*(a+1)*(a'+1)*h2 + (1/2)*h1

theorem fourier_unitary : Unitary' Fourier_passive := by
  unfold Unitary' Fourier_passive
  mat_entries

theorem squeezing_symplectic (r phi : ℝ) :
    Symplectic (Squeezing_passive r phi) (Squeezing_active r phi) := by
  have h1 := exp_mul_exp_neg phi
  have h2 := cosh_sq_sub_sinh_sq_c r
  unfold Symplectic Squeezing_passive Squeezing_active
  refine ⟨?_, ?_⟩ <;> mat_entries
  all_goals first
    | ring1
    | linear_combination h2 - ((Real.sinh r : ℝ) : ℂ) * ((Real.sinh r : ℝ) : ℂ) * h1

theorem quadraticphase_symplectic (s : ℝ) :
    Symplectic (QuadraticPhase_passive s) (QuadraticPhase_active s) := by
  unfold Symplectic QuadraticPhase_passive QuadraticPhase_active
  refine ⟨?_, ?_⟩ <;> mat_entries
  all_goals ring1

theorem squeezing2_symplectic (r phi : ℝ) :
    Symplectic (Squeezing2_passive r phi) (Squeezing2_active r phi) := by
  have h1 := exp_mul_exp_neg phi
  have h2 := cosh_sq_sub_sinh_sq_c r
  unfold Symplectic Squeezing2_passive Squeezing2_active
  refine ⟨?_, ?_⟩ <;> mat_entries
  all_goals first
    | ring1
    | linear_combination h2 - ((Real.sinh r : ℝ) : ℂ) * ((Real.sinh r : ℝ) : ℂ) * h1

theorem controlledx_symplectic (s : ℝ) :
    Symplectic (ControlledX_passive s) (ControlledX_active s) := by
  unfold Symplectic ControlledX_passive ControlledX_active
  refine ⟨?_, ?_⟩ <;> mat_entries
  all_goals ring1

theorem controlledz_symplectic (s : ℝ) :
    Symplectic (ControlledZ_passive s) (ControlledZ_active s) := by
  unfold Symplectic ControlledZ_passive ControlledZ_active
  refine ⟨?_, ?_⟩ <;> mat_entries
  all_goals ring1

/-! ### documented identities -/

/-- Fourier = phase shift by π/2 -/
theorem fourier_eq_phaseshifter : Fourier_passive = Phaseshifter_passive (Real.pi / 2) := by
  unfold Fourier_passive Phaseshifter_passive
  rw [exp_I_pi_div_two]

/-- 50:50 beamsplitter = Beamsplitter(θ = π/4, φ = 0) -/
theorem beamsplitter5050_eq : Beamsplitter5050_passive = Beamsplitter_passive (Real.pi / 4) 0 := by
  have h := sqrt_two_mul_self_c
  have h0 := sqrt_two_ne_zero_c
  unfold Beamsplitter5050_passive Beamsplitter_passive
  rw [exp_I_zero, Real.cos_pi_div_four, Real.sin_pi_div_four]
  mat_entries
  all_goals field_simp
  all_goals first | ring1 | linear_combination h | linear_combination -h

/-- documented Mach–Zehnder decomposition
`MZ(int, ext) = B(π/4, π/2) (R(int) ⊕ 1) B(π/4, π/2) (R(ext) ⊕ 1)` -/
theorem machzehnder_decomposition (int_ ext : ℝ) :
    MachZehnder_passive int_ ext =
      Beamsplitter_passive (Real.pi / 4) (Real.pi / 2) *
      Matrix.diagonal ![(Phaseshifter_passive int_) 0 0, 1] *
      Beamsplitter_passive (Real.pi / 4) (Real.pi / 2) *
      Matrix.diagonal ![(Phaseshifter_passive ext) 0 0, 1] := by
  have h := sqrt_two_mul_self_c
  have hI := Complex.I_mul_I
  unfold MachZehnder_passive Beamsplitter_passive Phaseshifter_passive
  rw [exp_I_pi_div_two, Real.cos_pi_div_four, Real.sin_pi_div_four]
  mat_entries
  all_goals
    generalize Complex.exp (Complex.I * (int_ : ℂ)) = a at *
    generalize Complex.exp (Complex.I * (ext : ℂ)) = b at *
    generalize ((Real.sqrt 2 : ℝ) : ℂ) = w at *
  · linear_combination -(1/4)*b*(a-1)*h - (1/4)*b*w*w*hI
  · linear_combination -(1/4)*Complex.I*(a+1)*h
  · linear_combination -(1/4)*Complex.I*b*(a+1)*h
  · linear_combination -(1/4)*(1-a)*h - (1/4)*w*w*a*hI

/-- documented two-mode squeezing decomposition
`S_ij(z) = B(π/4, 0) [S_i(−z) ⊗ S_j(z)] B(−π/4, 0)` at the level of the `(P, A)` blocks
(`S = [[P, A],[Ā, P̄]]` composes as `P = P₁P₂P₃`, `A = P₁A₂P̄₃` when the outer factors are passive) -/
theorem squeezing2_decomposition (r phi : ℝ) :
    Squeezing2_passive r phi =
      Beamsplitter_passive (Real.pi / 4) 0 *
        Matrix.diagonal ![(Squeezing_passive (-r) phi) 0 0, (Squeezing_passive r phi) 0 0] *
        Beamsplitter_passive (-(Real.pi / 4)) 0 ∧
    Squeezing2_active r phi =
      Beamsplitter_passive (Real.pi / 4) 0 *
        Matrix.diagonal ![(Squeezing_active (-r) phi) 0 0, (Squeezing_active r phi) 0 0] *
        ((Beamsplitter_passive (-(Real.pi / 4)) 0).map (starRingEnd ℂ)) := by
  have h := sqrt_two_mul_self_c
  unfold Squeezing2_passive Squeezing2_active Beamsplitter_passive Squeezing_passive Squeezing_active
  simp only [exp_I_zero, Real.cos_neg, Real.sin_neg, Real.cosh_neg, Real.sinh_neg,
    Real.cos_pi_div_four, Real.sin_pi_div_four]
  refine ⟨?_, ?_⟩ <;> mat_entries
  all_goals first
    | ring1
    | linear_combination -(1/2) * ((Real.cosh r : ℝ) : ℂ) * h
    | linear_combination
        -(1/2) * (((Real.sinh r : ℝ) : ℂ) * Complex.exp (Complex.I * (phi : ℂ))) * h

/-- position / momentum displacements are displacements by `x` resp. `i p` -/
theorem position_displacement (x : ℝ) :
    ((PositionDisplacement_r x : ℝ) : ℂ) * Complex.exp (Complex.I * (PositionDisplacement_phi x : ℝ)) = (x : ℂ) := by
  unfold PositionDisplacement_r PositionDisplacement_phi
  rw [exp_I_zero, mul_one]

theorem momentum_displacement (p : ℝ) :
    ((MomentumDisplacement_r p : ℝ) : ℂ) * Complex.exp (Complex.I * (MomentumDisplacement_phi p : ℝ)) = Complex.I * (p : ℂ) := by
  unfold MomentumDisplacement_r MomentumDisplacement_phi
  rw [show (1 : ℝ) * Real.pi / 2 = Real.pi / 2 by ring, exp_I_pi_div_two, mul_comm]

/-- a displacement by `α = r e^{iφ}` shifts the quadrature means `(x, p) = √(ħ/2)·(α + ᾱ, (α − ᾱ)/i)`
by `√(2ħ)·(Re α, Im α)` -/
theorem displacement_shift (hbar : ℝ) (h : 0 < hbar) (a alpha : ℂ) :
    let x (z : ℂ) : ℂ := (Real.sqrt (hbar / 2) : ℂ) * (z + (starRingEnd ℂ) z)
    let p (z : ℂ) : ℂ := (Real.sqrt (hbar / 2) : ℂ) * ((z - (starRingEnd ℂ) z) / Complex.I)
    x (a + alpha) - x a = ((Real.sqrt (2 * hbar) * alpha.re : ℝ) : ℂ) ∧
    p (a + alpha) - p a = ((Real.sqrt (2 * hbar) * alpha.im : ℝ) : ℂ) := by
  have _hpos : 0 < hbar := h -- (positivity of ħ is not actually needed for the algebra)
  have hs : Real.sqrt (2 * hbar) = 2 * Real.sqrt (hbar / 2) := by
    have : 2 * hbar = 2 ^ 2 * (hbar / 2) := by ring
    rw [this, Real.sqrt_mul (by norm_num), Real.sqrt_sq (by norm_num)]
  have hre : alpha + (starRingEnd ℂ) alpha = 2 * (alpha.re : ℂ) := by
    rw [Complex.add_conj]; push_cast; ring
  have him : alpha - (starRingEnd ℂ) alpha = 2 * (alpha.im : ℂ) * Complex.I := by
    rw [Complex.sub_conj]; push_cast; ring
  intro x p
  simp only [x, p, hs, map_add]
  push_cast
  constructor
  · linear_combination (Real.sqrt (hbar / 2) : ℂ) * hre
  · have hI : Complex.I ≠ 0 := Complex.I_ne_zero
    field_simp
    linear_combination (Real.sqrt (hbar / 2) : ℂ) * him

end Pq.GateLaws
