import Mathlib.Tactic
import Mathlib.LinearAlgebra.UnitaryGroup
import Mathlib.Data.Matrix.Block
import Mathlib.LinearAlgebra.Matrix.NonsingularInverse
import Mathlib.Analysis.SpecialFunctions.Trigonometric.DerivHyp

/-!
C15 (Takagi, Williamson, Euler): the glue code of piquasso/_math/decompositions.py is correct for EVERY output
of the numerical primitives that satisfies their contracts — whichever basis the SVD / Schur routine picks in a
degenerate subspace.  The contracts (hypotheses) are checked on the intermediates of the real run by the
harness; the conclusions are what the property states.
-/
namespace Pq.DecompAlgebra
open Matrix

private theorem conjT_eq {n : Type} (M : Matrix n n ℂ) : Mᴴ = (M.map (starRingEnd ℂ))ᵀ := by
  ext i j; simp [Matrix.conjTranspose_apply]

private theorem cj_cj {n : Type} (M : Matrix n n ℂ) : (M.map (starRingEnd ℂ)).map (starRingEnd ℂ) = M := by
  ext i j; simp

private theorem cj_mul {n : Type} [Fintype n] (M N : Matrix n n ℂ) :
    (M * N).map (starRingEnd ℂ) = M.map (starRingEnd ℂ) * N.map (starRingEnd ℂ) := Matrix.map_mul

private theorem cj_diag {n : Type} [DecidableEq n] (σ : n → ℝ) :
    (Matrix.diagonal (fun i => (σ i : ℂ))).map (starRingEnd ℂ) = Matrix.diagonal (fun i => (σ i : ℂ)) := by
  rw [Matrix.diagonal_map (map_zero _)]
  congr 1; ext i; simp

private theorem cj_one {n : Type} [DecidableEq n] : (1 : Matrix n n ℂ).map (starRingEnd ℂ) = 1 := by
  rw [Matrix.map_one] <;> simp

private theorem cj_transpose {n : Type} (M : Matrix n n ℂ) : (Mᵀ).map (starRingEnd ℂ) = Mᴴ := by
  ext i j; simp [Matrix.conjTranspose_apply]

private theorem cj_conjT {n : Type} (M : Matrix n n ℂ) : (Mᴴ).map (starRingEnd ℂ) = Mᵀ := by
  ext i j; simp [Matrix.conjTranspose_apply]

variable {n : Type} [Fintype n] [DecidableEq n]

/-- the core facts about `Z = Vᵀ W` -/
private theorem takagi_Z_facts (A V W : Matrix n n ℂ) (σ : n → ℝ)
    (hA : A = V * Matrix.diagonal (fun i => (σ i : ℂ)) * Wᴴ) (hsym : Aᵀ = A)
    (hV : Vᴴ * V = 1) (hW : Wᴴ * W = 1) :
    (Vᵀ * W)ᵀ * Matrix.diagonal (fun i => (σ i : ℂ)) = Matrix.diagonal (fun i => (σ i : ℂ)) * (Vᵀ * W) ∧
    (Vᵀ * W) * Matrix.diagonal (fun i => (σ i : ℂ)) = Matrix.diagonal (fun i => (σ i : ℂ)) * (Vᵀ * W)ᵀ := by
  set S := Matrix.diagonal (fun i => (σ i : ℂ)) with hS
  have hSc : S.map (starRingEnd ℂ) = S := cj_diag σ
  have hSt : Sᵀ = S := Matrix.diagonal_transpose _
  have hV' : V * Vᴴ = 1 := mul_eq_one_comm.mp hV
  set Z := Vᵀ * W with hZ
  -- A = conj W * S * Vᵀ
  have hA2 : A = W.map (starRingEnd ℂ) * S * Vᵀ := by
    rw [← hsym, hA, Matrix.transpose_mul, Matrix.transpose_mul, hSt, conjT_eq W,
      Matrix.transpose_transpose, Matrix.mul_assoc]
  have hcZ : Z.map (starRingEnd ℂ) = Vᴴ * W.map (starRingEnd ℂ) := by
    rw [hZ, cj_mul, cj_transpose]
  -- S = Vᴴ A W
  have h1 : Vᴴ * A * W = S := by
    rw [hA]
    calc Vᴴ * (V * S * Wᴴ) * W = (Vᴴ * V) * S * (Wᴴ * W) := by simp only [Matrix.mul_assoc]
      _ = S := by rw [hV, hW]; simp
  have h2 : S = Z.map (starRingEnd ℂ) * S * Z := by
    rw [hcZ, hZ, ← h1]
    conv_lhs => rw [hA2]
    rw [h1]
    simp only [Matrix.mul_assoc]
  -- Z unitary
  have hZu : Zᴴ * Z = 1 := by
    rw [hZ, Matrix.conjTranspose_mul]
    calc Wᴴ * Vᵀᴴ * (Vᵀ * W) = Wᴴ * (Vᵀᴴ * Vᵀ) * W := by simp only [Matrix.mul_assoc]
      _ = 1 := by
        have : Vᵀᴴ * Vᵀ = 1 := by
          rw [Matrix.conjTranspose_transpose_eq_transpose_conjTranspose, ← Matrix.transpose_mul, hV']; simp
        rw [this]; simp [hW]
  have hZu' : Z * Zᴴ = 1 := mul_eq_one_comm.mp hZu
  have hZt : Zᵀ * Z.map (starRingEnd ℂ) = 1 := by
    rw [← cj_conjT, ← cj_mul, hZu, cj_one]
  constructor
  · calc Zᵀ * S = Zᵀ * (Z.map (starRingEnd ℂ) * S * Z) := by rw [← h2]
      _ = (Zᵀ * Z.map (starRingEnd ℂ)) * S * Z := by simp only [Matrix.mul_assoc]
      _ = S * Z := by rw [hZt]; simp
  · have h3 : S = Zᴴ * S * Zᵀ := by
      have := congrArg (fun M => (M.map (starRingEnd ℂ))) h2
      simp only [cj_mul, cj_cj, hSc] at this
      have := congrArg Matrix.transpose this
      simp only [Matrix.transpose_mul, hSt] at this
      rw [conjT_eq Z, Matrix.mul_assoc]; exact this
    calc Z * S = Z * (Zᴴ * S * Zᵀ) := by rw [← h3]
      _ = (Z * Zᴴ) * S * Zᵀ := by simp only [Matrix.mul_assoc]
      _ = S * Zᵀ := by rw [hZu']; simp

/-- a symmetric matrix with SVD `A = V Σ W†`: `Z = Vᵀ W` commutes with `Σ` (so it is block diagonal over the
groups of equal singular values — the blocks the code takes square roots of) -/
theorem takagi_Z_commutes (A V W : Matrix n n ℂ) (σ : n → ℝ) (hσ : ∀ i, 0 ≤ σ i)
    (hA : A = V * Matrix.diagonal (fun i => (σ i : ℂ)) * Wᴴ) (hsym : Aᵀ = A)
    (hV : Vᴴ * V = 1) (hW : Wᴴ * W = 1) :
    (Vᵀ * W) * Matrix.diagonal (fun i => (σ i : ℂ)) = Matrix.diagonal (fun i => (σ i : ℂ)) * (Vᵀ * W) := by
  obtain ⟨f1, f2⟩ := takagi_Z_facts A V W σ hA hsym hV hW
  set S := Matrix.diagonal (fun i => (σ i : ℂ)) with hS
  set Z := Vᵀ * W with hZ
  have h : S * S * Z = Z * S * S := by
    rw [Matrix.mul_assoc, ← f1, ← Matrix.mul_assoc, ← f2]
  ext i j
  have hij := congrFun (congrFun h i) j
  rw [hS, Matrix.mul_assoc, Matrix.diagonal_mul, Matrix.diagonal_mul, Matrix.mul_diagonal,
    Matrix.mul_diagonal] at hij
  rw [Matrix.mul_diagonal, Matrix.diagonal_mul]
  by_cases hz : Z i j = 0
  · rw [hz]; ring
  · have e : ((σ i : ℂ)) ^ 2 = (σ j : ℂ) ^ 2 := by
      apply mul_right_cancel₀ hz
      linear_combination hij
    have e' : (σ i) ^ 2 = (σ j) ^ 2 := by exact_mod_cast e
    have : σ i = σ j := by
      have := abs_eq_abs.mpr (sq_eq_sq_iff_eq_or_eq_neg.mp e')
      rwa [abs_of_nonneg (hσ i), abs_of_nonneg (hσ j)] at this
    rw [this]; ring

/-- `takagi`: for ANY unitary `Q` that commutes with `Σ`, is symmetric where `Σ ≠ 0` and squares to `Vᵀ W`
where `Σ ≠ 0` (the code's block-wise unitary square root), `T = V conj(Q)` is unitary and `T Σ Tᵀ = A` -/
theorem takagi_reconstructs (A V W Q : Matrix n n ℂ) (σ : n → ℝ) (hσ : ∀ i, 0 ≤ σ i)
    (hA : A = V * Matrix.diagonal (fun i => (σ i : ℂ)) * Wᴴ) (hsym : Aᵀ = A)
    (hV : Vᴴ * V = 1) (hW : Wᴴ * W = 1) (hQ : Qᴴ * Q = 1)
    (hQc : Q * Matrix.diagonal (fun i => (σ i : ℂ)) = Matrix.diagonal (fun i => (σ i : ℂ)) * Q)
    (hQs : Matrix.diagonal (fun i => (σ i : ℂ)) * Qᵀ = Matrix.diagonal (fun i => (σ i : ℂ)) * Q)
    (hQ2 : Matrix.diagonal (fun i => (σ i : ℂ)) * (Q * Q) = Matrix.diagonal (fun i => (σ i : ℂ)) * (Vᵀ * W)) :
    let T := V * Q.map (starRingEnd ℂ)
    T * Matrix.diagonal (fun i => (σ i : ℂ)) * Tᵀ = A ∧ Tᴴ * T = 1 := by
  intro T
  have hZc := takagi_Z_commutes A V W σ hσ hA hsym hV hW
  set S := Matrix.diagonal (fun i => (σ i : ℂ)) with hS
  have hSc : S.map (starRingEnd ℂ) = S := cj_diag σ
  have hSt : Sᵀ = S := Matrix.diagonal_transpose _
  have hV' : V * Vᴴ = 1 := mul_eq_one_comm.mp hV
  have hA2 : A = W.map (starRingEnd ℂ) * S * Vᵀ := by
    rw [← hsym, hA, Matrix.transpose_mul, Matrix.transpose_mul, hSt, conjT_eq W,
      Matrix.transpose_transpose, Matrix.mul_assoc]
  set Qc := Q.map (starRingEnd ℂ) with hQc'
  have hT : T = V * Qc := rfl
  have c1 : S * Qcᵀ = S * Qc := by
    have := congrArg (fun M => (M.map (starRingEnd ℂ))) hQs
    simpa only [cj_mul, hSc, Matrix.transpose_map] using this
  have c2 : Qc * S = S * Qc := by
    have := congrArg (fun M => (M.map (starRingEnd ℂ))) hQc
    simpa only [cj_mul, hSc] using this
  have c3 : S * (Qc * Qc) = S * (Vᴴ * W.map (starRingEnd ℂ)) := by
    have := congrArg (fun M => (M.map (starRingEnd ℂ))) hQ2
    simpa only [cj_mul, hSc, cj_transpose] using this
  have c4 : (Vᴴ * W.map (starRingEnd ℂ)) * S = S * (Vᴴ * W.map (starRingEnd ℂ)) := by
    have := congrArg (fun M => (M.map (starRingEnd ℂ))) hZc
    simpa only [cj_mul, hSc, cj_transpose] using this
  constructor
  · have mid : Qc * S * Qcᵀ = Vᴴ * W.map (starRingEnd ℂ) * S := by
      rw [Matrix.mul_assoc, c1, ← Matrix.mul_assoc, c2, Matrix.mul_assoc, c3, c4]
    calc T * S * Tᵀ = V * (Qc * S * Qcᵀ) * Vᵀ := by
          simp only [hT, Matrix.transpose_mul, Matrix.mul_assoc]
      _ = (V * Vᴴ) * (W.map (starRingEnd ℂ) * S * Vᵀ) := by
          rw [mid]; simp only [Matrix.mul_assoc]
      _ = A := by rw [hV', ← hA2]; simp
  · have : Qcᴴ * Qc = 1 := by
      have h1 : Qcᴴ = Qᴴ.map (starRingEnd ℂ) := by
        ext i j; simp [Qc]
      rw [h1, ← cj_mul, hQ, cj_one]
    calc Tᴴ * T = Qcᴴ * (Vᴴ * V) * Qc := by
          simp only [hT, Matrix.conjTranspose_mul, Matrix.mul_assoc]
      _ = 1 := by rw [hV]; simpa using this

/-- `williamson`: with `R² = M`, `R` symmetric invertible, `K` orthogonal, `B` orthogonal and
`Bᵀ Kᵀ (R⁻¹ Ω R⁻¹) K B = [[0, Δ], [-Δ, 0]]` (`Δ` diagonal, positive; this is what the Schur form, the rotation to
positive super-diagonals and the `xpxp → xxpp` permutation deliver), `E² = diag(Δ, Δ)`:
`S = R K B E` is symplectic and `S D Sᵀ = M` for `D = diag(Δ, Δ)⁻¹` -/
theorem williamson_reconstructs {d : Type} [Fintype d] [DecidableEq d]
    (M R Rinv K B : Matrix (d ⊕ d) (d ⊕ d) ℝ) (δ ε : d → ℝ)
    (hR : R * R = M) (hRs : Rᵀ = R) (hRi : R * Rinv = 1)
    (hK : Kᵀ * K = 1) (hB : Bᵀ * B = 1) (hδ : ∀ i, 0 < δ i) (hε : ∀ i, ε i * ε i = δ i)
    (hschur : Bᵀ * Kᵀ * (Rinv * Matrix.fromBlocks 0 1 (-1) 0 * Rinv) * K * B =
      Matrix.fromBlocks 0 (Matrix.diagonal δ) (-Matrix.diagonal δ) 0) :
    let E : Matrix (d ⊕ d) (d ⊕ d) ℝ := Matrix.fromBlocks (Matrix.diagonal ε) 0 0 (Matrix.diagonal ε)
    let D : Matrix (d ⊕ d) (d ⊕ d) ℝ := Matrix.fromBlocks (Matrix.diagonal fun i => (δ i)⁻¹) 0 0 (Matrix.diagonal fun i => (δ i)⁻¹)
    let S := R * K * B * E
    S * D * Sᵀ = M ∧ Sᵀ * Matrix.fromBlocks 0 1 (-1) 0 * S = Matrix.fromBlocks 0 1 (-1) 0 := by
  intro E D S
  set Ω : Matrix (d ⊕ d) (d ⊕ d) ℝ := Matrix.fromBlocks 0 1 (-1) 0 with hΩ
  set O := K * B with hO
  have hOtO : Oᵀ * O = 1 := by
    rw [hO, Matrix.transpose_mul]
    calc Bᵀ * Kᵀ * (K * B) = Bᵀ * (Kᵀ * K) * B := by simp only [Matrix.mul_assoc]
      _ = 1 := by rw [hK]; simpa using hB
  have hOOt : O * Oᵀ = 1 := mul_eq_one_comm.mp hOtO
  have hRi' : Rinv * R = 1 := mul_eq_one_comm.mp hRi
  have hεδ : ∀ i, ε i * (δ i)⁻¹ * ε i = 1 := fun i => by
    have := (hδ i).ne'
    field_simp
    rw [← hε i]; ring
  have hEt : Eᵀ = E := by
    simp [E]
  have hEDE : E * D * E = 1 := by
    simp only [E, D, Matrix.fromBlocks_multiply, Matrix.diagonal_mul_diagonal]
    simp [hεδ]
  have hS : S = R * O * E := by simp only [S, hO, Matrix.mul_assoc]
  have hSt : Sᵀ = E * Oᵀ * R := by
    rw [hS, Matrix.transpose_mul, Matrix.transpose_mul, hEt, hRs, Matrix.mul_assoc]
  -- right-associated cancellation
  have cO : ∀ Y : Matrix (d ⊕ d) (d ⊕ d) ℝ, O * (Oᵀ * Y) = Y := fun Y => by
    rw [← Matrix.mul_assoc, hOOt, Matrix.one_mul]
  have cR : ∀ Y : Matrix (d ⊕ d) (d ⊕ d) ℝ, R * (Rinv * Y) = Y := fun Y => by
    rw [← Matrix.mul_assoc, hRi, Matrix.one_mul]
  have cE : ∀ Y : Matrix (d ⊕ d) (d ⊕ d) ℝ, E * (D * (E * Y)) = Y := fun Y => by
    rw [← Matrix.mul_assoc, ← Matrix.mul_assoc, hEDE, Matrix.one_mul]
  have hΩΩ : Ω * Ω = -1 := by
    simp only [hΩ, Matrix.fromBlocks_multiply]
    simp [Matrix.fromBlocks_neg, ← Matrix.fromBlocks_one]
  have cΩ : ∀ Y : Matrix (d ⊕ d) (d ⊕ d) ℝ, Ω * (Ω * Y) = -Y := fun Y => by
    rw [← Matrix.mul_assoc, hΩΩ]; simp
  constructor
  · rw [hSt, hS, ← hR]
    simp only [Matrix.mul_assoc, cE, cO]
  · set Jδ : Matrix (d ⊕ d) (d ⊕ d) ℝ := Matrix.fromBlocks 0 (Matrix.diagonal δ) (-Matrix.diagonal δ) 0 with hJ
    have hsch : Oᵀ * (Rinv * (Ω * (Rinv * O))) = Jδ := by
      rw [← hschur, hO, Matrix.transpose_mul]; simp only [Matrix.mul_assoc]
    set X := Oᵀ * (R * (Ω * (R * O))) with hX
    have hXJ : X * Jδ = -1 := by
      rw [← hsch, hX]
      simp only [Matrix.mul_assoc, cO, cR, cΩ, Matrix.mul_neg, hOtO]
    set Ji : Matrix (d ⊕ d) (d ⊕ d) ℝ :=
      Matrix.fromBlocks 0 (-Matrix.diagonal fun i => (δ i)⁻¹) (Matrix.diagonal fun i => (δ i)⁻¹) 0 with hJi
    have hJJ : Jδ * Ji = 1 := by
      simp only [hJ, hJi, Matrix.fromBlocks_multiply, Matrix.diagonal_mul_diagonal]
      have : ∀ i, δ i * (δ i)⁻¹ = 1 := fun i => mul_inv_cancel₀ (hδ i).ne'
      simp [this, ← Matrix.fromBlocks_one]
    have hXe : X = -Ji := by
      calc X = X * (Jδ * Ji) := by rw [hJJ, Matrix.mul_one]
        _ = -Ji := by rw [← Matrix.mul_assoc, hXJ]; simp
    have : Sᵀ * Ω * S = E * X * E := by
      rw [hSt, hS, hX]; simp only [Matrix.mul_assoc]
    rw [this, hXe]
    simp only [E, hJi, hΩ, Matrix.fromBlocks_neg, Matrix.fromBlocks_multiply]
    have hm1 : (Matrix.diagonal fun _ : d => (-1 : ℝ)) = -1 := by
      rw [← Matrix.diagonal_one, Matrix.diagonal_neg]
    simp [hεδ, hm1]

/-- `euler` (Bloch–Messiah): if the left polar factor `P` of `S = P · U₀` is `cf(U) · Sq(r) · cf(U)†`
(`cf(U) = U ⊕ conj U`, `Sq(r) = [[cosh r, -sinh r], [-sinh r, cosh r]]`: what `logm` + `takagi` deliver),
the returned triple `(U, r, U† U₀₁₁)` recomposes `S` -/
theorem euler_reconstructs {d : Type} [Fintype d] [DecidableEq d]
    (S P : Matrix (d ⊕ d) (d ⊕ d) ℂ) (U U0 : Matrix d d ℂ) (r : d → ℝ) (hU : U * Uᴴ = 1)
    (hpolar : S = P * Matrix.fromBlocks U0 0 0 (U0.map (starRingEnd ℂ)))
    (hP : P = Matrix.fromBlocks U 0 0 (U.map (starRingEnd ℂ)) *
      Matrix.fromBlocks (Matrix.diagonal fun i => ((Real.cosh (r i) : ℝ) : ℂ)) (Matrix.diagonal fun i => ((-Real.sinh (r i) : ℝ) : ℂ))
        (Matrix.diagonal fun i => ((-Real.sinh (r i) : ℝ) : ℂ)) (Matrix.diagonal fun i => ((Real.cosh (r i) : ℝ) : ℂ)) *
      (Matrix.fromBlocks U 0 0 (U.map (starRingEnd ℂ)))ᴴ) :
    S = Matrix.fromBlocks U 0 0 (U.map (starRingEnd ℂ)) *
      Matrix.fromBlocks (Matrix.diagonal fun i => ((Real.cosh (r i) : ℝ) : ℂ)) (Matrix.diagonal fun i => ((-Real.sinh (r i) : ℝ) : ℂ))
        (Matrix.diagonal fun i => ((-Real.sinh (r i) : ℝ) : ℂ)) (Matrix.diagonal fun i => ((Real.cosh (r i) : ℝ) : ℂ)) *
      Matrix.fromBlocks (Uᴴ * U0) 0 0 ((Uᴴ * U0).map (starRingEnd ℂ)) := by
  have _ := hU -- not needed: the recomposition is pure associativity
  have key : (Matrix.fromBlocks U 0 0 (U.map (starRingEnd ℂ)))ᴴ * Matrix.fromBlocks U0 0 0 (U0.map (starRingEnd ℂ))
      = Matrix.fromBlocks (Uᴴ * U0) 0 0 ((Uᴴ * U0).map (starRingEnd ℂ)) := by
    rw [Matrix.fromBlocks_conjTranspose, Matrix.fromBlocks_multiply, Matrix.map_mul]
    have : (U.map (starRingEnd ℂ))ᴴ = Uᴴ.map (starRingEnd ℂ) := by
      ext i j; simp
    simp [this]
  rw [hpolar, hP, Matrix.mul_assoc _ _ (Matrix.fromBlocks U0 0 0 _), key]

/-- graph embedding: the scaling `c` solves `Σ (c sᵢ)² / (1 - (c sᵢ)²) = d · n̄`, and with `rᵢ = artanh(c sᵢ)`
one has `sinh² rᵢ = (c sᵢ)² / (1 - (c sᵢ)²)`: the squeezed state has mean photon number `n̄` per mode -/
theorem sinh_sq_artanh (x : ℝ) (hx : |x| < 1) :
    Real.sinh (Real.log ((1 + x) / (1 - x)) / 2) ^ 2 = x ^ 2 / (1 - x ^ 2) := by
  obtain ⟨h1, h2⟩ := abs_lt.mp hx
  have hp : 0 < 1 + x := by linarith
  have hm : 0 < 1 - x := by linarith
  have hy : 0 < (1 + x) / (1 - x) := div_pos hp hm
  set t := Real.log ((1 + x) / (1 - x)) with ht
  have e2 : Real.cosh t = Real.cosh (t/2)^2 + Real.sinh (t/2)^2 := by
    rw [← Real.cosh_two_mul]; congr 1; ring
  have e3 := Real.cosh_sq (t/2)
  have e4 : Real.cosh t = ((1 + x) / (1 - x) + ((1 + x) / (1 - x))⁻¹)/2 := Real.cosh_log hy
  have e5 : Real.sinh (t/2)^2 = (Real.cosh t - 1)/2 := by linarith
  rw [e5, e4]
  have : 1 - x^2 ≠ 0 := by nlinarith
  have := hp.ne'
  have := hm.ne'
  field_simp
  ring

end Pq.DecompAlgebra
