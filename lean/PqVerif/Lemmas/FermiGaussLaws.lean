import Mathlib.Tactic
import Mathlib.Data.Matrix.Block
import Mathlib.LinearAlgebra.Matrix.Symmetric
import PqVerif.Model.FermiGauss

/-!
C17 (Gaussian side): the `(D, E)` representation and the Majorana covariance matrix determine each
other; passive gates and Hamiltonian gates act on the covariance matrix by orthogonal congruence,
which keeps it skew-symmetric and keeps a pure state pure; number states have `D = diag n`, `E = 0`.
-/
namespace Pq.FermiGauss
open Matrix

set_option linter.unusedSectionVars false

variable {F : Type} [Field F] [CharZero F] {d : Nat}

theorem FRep.ext' {s t : FRep F d} (h1 : s.Dr = t.Dr) (h2 : s.Di = t.Di) (h3 : s.Er = t.Er)
    (h4 : s.Ei = t.Ei) : s = t := by
  cases s; cases t; simp only at h1 h2 h3 h4; subst h1 h2 h3 h4; rfl

theorem set_get (s : FRep F d) : setXxppCov (xxppCov s) = s := by
  apply FRep.ext' <;> ext i j <;>
    simp [setXxppCov, xxppCov, Matrix.toBlocks₁₁, Matrix.toBlocks₁₂, Matrix.toBlocks₂₁,
      Matrix.toBlocks₂₂, Matrix.one_apply] <;> (try split_ifs) <;> ring

theorem get_set (cov : Matrix (Fin d ⊕ Fin d) (Fin d ⊕ Fin d) F) : xxppCov (setXxppCov cov) = cov := by
  ext (i|i) (j|j) <;>
    simp [setXxppCov, xxppCov, Matrix.toBlocks₁₁, Matrix.toBlocks₁₂, Matrix.toBlocks₂₁,
      Matrix.toBlocks₂₂, Matrix.one_apply] <;> (try split_ifs) <;> ring

/-- `D` Hermitian and `E` skew-symmetric give a skew-symmetric covariance matrix -/
theorem cov_skew (s : FRep F d) (h1 : s.Drᵀ = s.Dr) (h2 : s.Diᵀ = -s.Di) (h3 : s.Erᵀ = -s.Er)
    (h4 : s.Eiᵀ = -s.Ei) : (xxppCov s)ᵀ = -xxppCov s := by
  simp only [xxppCov, Matrix.fromBlocks_transpose, Matrix.fromBlocks_neg, Matrix.transpose_add,
    Matrix.transpose_sub, Matrix.transpose_smul, Matrix.transpose_neg, Matrix.transpose_one,
    h1, h2, h3, h4]
  congr 1 <;> ext i j <;> simp <;> ring

/-- unitarity of `U = X + iY` makes `passiveO` orthogonal -/
theorem passiveO_orthogonal (X Y : Matrix (Fin d) (Fin d) F) (hu1 : X * Xᵀ + Y * Yᵀ = 1)
    (hu2 : X * Yᵀ = Y * Xᵀ) : passiveO X Y * (passiveO X Y)ᵀ = 1 := by
  simp only [passiveO, Matrix.fromBlocks_transpose, Matrix.fromBlocks_multiply, Matrix.transpose_neg,
    Matrix.neg_mul, Matrix.mul_neg, neg_neg]
  rw [← Matrix.fromBlocks_one]
  congr 1
  · rw [hu2]; abel
  · rw [hu2]; abel
  · rw [add_comm]; exact hu1

/-- the passive gate on `(D, E)` is the orthogonal congruence of the covariance matrix -/
theorem passive_is_congruence (X Y : Matrix (Fin d) (Fin d) F) (hu1 : X * Xᵀ + Y * Yᵀ = 1)
    (hu2 : X * Yᵀ = Y * Xᵀ) (s : FRep F d) :
    xxppCov (passive X Y s) = passiveO X Y * xxppCov s * (passiveO X Y)ᵀ := by
  have hu1' : X * Xᵀ = 1 - Y * Yᵀ := eq_sub_of_add_eq hu1
  simp only [xxppCov, passive, passiveO, cmul, Matrix.fromBlocks_transpose,
    Matrix.fromBlocks_multiply, Matrix.transpose_neg]
  congr 1 <;>
  simp only [two_smul, mul_add, add_mul, mul_sub, sub_mul, Matrix.mul_one,
    Matrix.neg_mul, Matrix.mul_neg, Matrix.mul_assoc, neg_neg, hu2, hu1'] <;> abel

theorem applySO_cov (O : Matrix (Fin d ⊕ Fin d) (Fin d ⊕ Fin d) F) (s : FRep F d) :
    xxppCov (applySO O s) = O * xxppCov s * Oᵀ := by
  rw [applySO, get_set]

theorem congr_skew {n : Type} [Fintype n] (O G : Matrix n n F) (h : Gᵀ = -G) :
    (O * G * Oᵀ)ᵀ = -(O * G * Oᵀ) := by
  simp only [Matrix.transpose_mul, Matrix.transpose_transpose, h, Matrix.mul_neg, Matrix.neg_mul,
    Matrix.mul_assoc]

/-- orthogonal congruence keeps `Γ Γᵀ = 1` (a pure fermionic Gaussian state stays pure) -/
theorem congr_pure {n : Type} [Fintype n] [DecidableEq n] (O G : Matrix n n F) (hO : O * Oᵀ = 1)
    (hG : G * Gᵀ = 1) : (O * G * Oᵀ) * (O * G * Oᵀ)ᵀ = 1 := by
  have hO' : Oᵀ * O = 1 := mul_eq_one_comm.mp hO
  simp only [Matrix.transpose_mul, Matrix.transpose_transpose]
  calc O * G * Oᵀ * (O * (Gᵀ * Oᵀ)) = O * G * (Oᵀ * O) * Gᵀ * Oᵀ := by
        simp only [Matrix.mul_assoc]
    _ = O * (G * Gᵀ) * Oᵀ := by rw [hO', Matrix.mul_one]; simp only [Matrix.mul_assoc]
    _ = 1 := by rw [hG, Matrix.mul_one, hO]

/-- number states: `D = diag n`, `E = 0` -/
theorem occState_eq (n : Fin d → F) :
    occState n = { Dr := Matrix.diagonal n, Di := 0, Er := 0, Ei := 0 } := by
  apply FRep.ext' <;> ext i j <;>
    simp [occState, occCov, setXxppCov, Matrix.toBlocks₁₁, Matrix.toBlocks₁₂, Matrix.toBlocks₂₁,
      Matrix.toBlocks₂₂, Matrix.one_apply, Matrix.diagonal_apply] <;> (try split_ifs) <;> ring

/-- number states with occupations 0/1 are pure -/
theorem occCov_pure (n : Fin d → F) (h : ∀ i, n i = 0 ∨ n i = 1) : occCov n * (occCov n)ᵀ = 1 := by
  have hsq : (Matrix.diagonal fun i => 1 - 2 * n i) * (Matrix.diagonal fun i => 1 - 2 * n i) = 1 := by
    rw [Matrix.diagonal_mul_diagonal, ← Matrix.diagonal_one]
    congr 1; funext i
    rcases h i with h | h <;> rw [h] <;> ring
  simp only [occCov, Matrix.fromBlocks_transpose, Matrix.fromBlocks_multiply, Matrix.transpose_neg,
    Matrix.diagonal_transpose, Matrix.transpose_zero, Matrix.neg_mul, Matrix.mul_neg, neg_neg, hsq]
  simp [← Matrix.fromBlocks_one]

theorem occCov_skew (n : Fin d → F) : (occCov n)ᵀ = -occCov n := by
  simp [occCov, Matrix.fromBlocks_transpose, Matrix.fromBlocks_neg]

/-- the mean particle number of a number state is its occupation -/
theorem occState_meanNumber (n : Fin d → F) (i : Fin d) : meanNumber (occState n) i = n i := by
  rw [occState_eq]; simp [meanNumber]

end Pq.FermiGauss
