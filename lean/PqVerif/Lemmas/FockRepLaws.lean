import Mathlib.Tactic
import PqVerif.Lemmas.PermSpec
import PqVerif.Model.FockRep

/-!
C01: the recurrence by which the Fock simulators lift an interferometer to Fock space computes the
permanent with multiplicities (Laplace expansion along one copy of the first occupied output mode).
-/
namespace Pq.FockRep
open BigOperators Pq.Kernel

variable {K : Type} [Field K] [CharZero K]

/-- `P[m, v] = perm(U[m, v])`: rows of `U` repeated according to the output occupation `m`, columns
according to the input occupation `v` -/
theorem fockRepP_eq_permSpec {d : Nat} (U : Fin d → Fin d → K) (m v : Fin d → Nat)
    (h : ∑ i, m i = ∑ j, v j) :
    fockRepP (matList U) (vecList m) (vecList v) = permSpec U m v := by
  sorry

/-- different particle numbers are never mixed (block structure: a passive gate conserves the
particle number exactly, also in the truncated space) -/
theorem fockRepP_zero_of_ne {d : Nat} (U : Fin d → Fin d → K) (m v : Fin d → Nat)
    (h : ∑ i, m i ≠ ∑ j, v j) :
    fockRepP (matList U) (vecList m) (vecList v) = 0 := by
  sorry

end Pq.FockRep
