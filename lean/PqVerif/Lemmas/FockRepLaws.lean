import Mathlib.Tactic
import PqVerif.Lemmas.PermSpec
import PqVerif.Model.FockRep

/-!
C01: the recurrence by which the Fock simulators lift an interferometer to Fock space computes the
permanent with multiplicities (Laplace expansion along one copy of the first occupied output mode).

* `sum_fiber`, `sum_equiv_expand`: a sum over bijections `C ≃ R` splits according to the column matched
  to a fixed row, and the bijections with that match fixed are the bijections of the remainders;
* `permSpec_expand`: `perm(U[m, v]) = Σ_j v_j · U[f, j] · perm(U[m − e_f, v − e_j])` for `m_f ≥ 1`;
* `repP_eq_permSpec`, `fockRepP_eq_permSpec`: the executable recurrence equals `permSpec`.
-/
namespace Pq.FockRep
open BigOperators Pq.Kernel

variable {K : Type} [Field K] [CharZero K]

section Helpers
omit [CharZero K]

section Abstract
variable {C R C' R' : Type} [Fintype C] [Fintype R] [Fintype C'] [Fintype R']
  [DecidableEq C] [DecidableEq R] [DecidableEq C'] [DecidableEq R']

omit [Fintype C'] [Fintype R'] [DecidableEq C'] [DecidableEq R'] in
theorem optionCongr_removeNone (e : Option C' ≃ Option R') (h : e none = none) :
    (Equiv.removeNone e).optionCongr = e := by
  apply Equiv.ext
  intro x
  cases x with
  | none => simp [h]
  | some x =>
    have hx : ∃ x', e (some x) = some x' := by
      cases hx : e (some x) with
      | none => exact absurd (e.injective (hx.trans h.symm)) (by simp)
      | some y => exact ⟨y, rfl⟩
    simp [Equiv.removeNone_some e hx]

/-- the bijections matching a fixed column `eC none` to a fixed row `eR none` are the bijections between the
remaining columns and the remaining rows -/
theorem sum_fiber (eC : Option C' ≃ C) (eR : Option R' ≃ R) (w : R → C → K) :
    ∑ σ : C ≃ R with σ.symm (eR none) = eC none, ∏ c, w (σ c) c =
      w (eR none) (eC none) * ∑ τ : C' ≃ R', ∏ c', w (eR (some (τ c'))) (eC (some c')) := by
  rw [Finset.mul_sum]
  symm
  apply Finset.sum_bij (fun τ _ => (eC.symm.trans τ.optionCongr).trans eR)
  · intro τ _
    simp [Finset.mem_filter]
  · intro τ _ τ' _ h
    have : τ.optionCongr = τ'.optionCongr := by
      apply Equiv.ext
      intro x
      have := Equiv.congr_fun h (eC x)
      simpa using this
    exact Equiv.optionCongr_injective this
  · intro σ hσ
    have hσ' : σ (eC none) = eR none := by
      rw [← (Finset.mem_filter.mp hσ).2]; simp
    refine ⟨Equiv.removeNone ((eC.trans σ).trans eR.symm), Finset.mem_univ _, ?_⟩
    rw [optionCongr_removeNone _ (by simp [hσ'])]
    apply Equiv.ext
    intro x
    simp
  · intro τ _
    rw [← Fintype.prod_equiv eC (fun x => w (((eC.symm.trans τ.optionCongr).trans eR) (eC x)) (eC x)) _
      (fun _ => rfl), Fintype.prod_option]
    simp

/-- Laplace expansion of a sum over bijections along the row `eR none`; `eC c₀` is a way of removing the
column `c₀` -/
theorem sum_equiv_expand (r₀ : R) (w : R → C → K) :
    ∑ σ : C ≃ R, ∏ c, w (σ c) c = ∑ c₀ : C, ∑ σ : C ≃ R with σ.symm r₀ = c₀, ∏ c, w (σ c) c :=
  (Finset.sum_fiberwise _ _ _).symm

end Abstract

section Expand
variable {n k : Nat}

omit [Field K] in
theorem swap_fst {ι : Type} [DecidableEq ι] (r : ι → Nat) (a b x : Σ i, Fin (r i)) (h : a.1 = b.1) :
    (Equiv.swap a b x).1 = x.1 := by
  rw [Equiv.swap_apply_def]
  split_ifs with h1 h2
  · rw [h1, h]
  · rw [h2, h]
  · rfl

/-- removing the `l`-th copy of column `j` -/
noncomputable def colEquiv (v : Fin k → Nat) (j : Fin k) (l : Fin (v j)) :
    Option (Σ j', Fin (decRow v j j')) ≃ Σ j', Fin (v j') :=
  (Equiv.ofBijective _ (unsplit_bijective v j (Nat.ne_of_gt (Fin.pos l)))).trans
    (Equiv.swap (unsplit v j (Nat.ne_of_gt (Fin.pos l)) none) ⟨j, l⟩)

theorem colEquiv_none (v : Fin k → Nat) (j : Fin k) (l : Fin (v j)) : colEquiv v j l none = ⟨j, l⟩ := by
  simp [colEquiv]

theorem colEquiv_some_fst (v : Fin k → Nat) (j : Fin k) (l : Fin (v j)) (x : Σ j', Fin (decRow v j j')) :
    (colEquiv v j l (some x)).1 = x.1 := by
  simp only [colEquiv, Equiv.trans_apply, Equiv.ofBijective_apply]
  rw [swap_fst _ _ _ _ (by rfl)]
  rfl

/-- **Laplace expansion of the permanent with multiplicities** along one copy of the row `f` -/
theorem permSpec_expand (A : Fin n → Fin k → K) (rows : Fin n → Nat) (cols : Fin k → Nat) (f : Fin n)
    (hf : rows f ≠ 0) :
    permSpec A rows cols =
      ∑ j, (cols j : K) * (A f j * permSpec A (decRow rows f) (decRow cols j)) := by
  unfold permSpec
  refine (sum_equiv_expand (unsplit rows f hf none)
    (fun (r : Σ i, Fin (rows i)) (c : Σ j, Fin (cols j)) => A r.1 c.1)).trans ?_
  rw [Fintype.sum_sigma]
  refine Finset.sum_congr rfl fun j _ => ?_
  have key : ∀ l : Fin (cols j),
      ∑ σ : (Σ j, Fin (cols j)) ≃ (Σ i, Fin (rows i)) with σ.symm (unsplit rows f hf none) = ⟨j, l⟩,
        ∏ c, A (σ c).1 c.1 =
      A f j * ∑ τ : (Σ j', Fin (decRow cols j j')) ≃ (Σ i, Fin (decRow rows f i)), ∏ c, A (τ c).1 c.1 := by
    intro l
    have h := sum_fiber (colEquiv cols j l) (Equiv.ofBijective _ (unsplit_bijective rows f hf))
      (fun (r : Σ i, Fin (rows i)) (c : Σ j, Fin (cols j)) => A r.1 c.1)
    simp only [colEquiv_none, Equiv.ofBijective_apply, colEquiv_some_fst] at h
    rw [h]
    rfl
  rw [Finset.sum_congr rfl (fun l _ => key l), Finset.sum_const, Finset.card_univ, Fintype.card_fin,
    nsmul_eq_mul]

end Expand

section Code

omit [Field K] in
theorem firstNonzero_none (l : List Nat) (h : firstNonzero l = none) : ∀ x ∈ l, x = 0 := by
  induction l with
  | nil => simp
  | cons a l ih =>
    unfold firstNonzero at h
    split_ifs at h with ha
    rw [Option.map_eq_none_iff] at h
    intro x hx
    rcases List.mem_cons.mp hx with rfl | hx
    · simpa using ha
    · exact ih h x hx

omit [Field K] in
theorem firstNonzero_some (l : List Nat) (f : Nat) (h : firstNonzero l = some f) :
    f < l.length ∧ l.getD f 0 ≠ 0 := by
  induction l generalizing f with
  | nil => simp [firstNonzero] at h
  | cons a l ih =>
    unfold firstNonzero at h
    split_ifs at h with ha
    · obtain rfl : 0 = f := Option.some.inj h
      simpa using ha
    · obtain ⟨g, hg, rfl⟩ := Option.map_eq_some_iff.mp h
      obtain ⟨h1, h2⟩ := ih g hg
      exact ⟨by simp; omega, by simpa using h2⟩

omit [Field K] in
theorem all_zero_of_sum {d : Nat} (m : Fin d → Nat) (h : ∑ i, m i = 0) :
    (vecList m).all (· == 0) = true := by
  rw [List.all_eq_true]
  intro x hx
  have : x = 0 := List.sum_eq_zero_iff.mp ((vecList_sum m).trans h) x hx
  simp [this]

theorem foldl_range_eq (d : Nat) (c : Nat → Nat) (t : Nat → K) :
    (List.range d).foldl (fun acc j => if c j = 0 then acc else acc + t j) 0 =
      ∑ j : Fin d, if c j = 0 then 0 else t j := by
  induction d with
  | zero => simp
  | succ d ih =>
    rw [List.range_succ, List.foldl_append, ih, Fin.sum_univ_castSucc]
    simp only [List.foldl_cons, List.foldl_nil, Fin.val_castSucc, Fin.val_last]
    split_ifs <;> simp

theorem repP_eq_permSpec {d : Nat} (U : Fin d → Fin d → K) (n : Nat) (m v : Fin d → Nat)
    (hm : ∑ i, m i = n) (hv : ∑ j, v j = n) :
    repP (matList U) n (vecList m) (vecList v) = permSpec U m v := by
  induction n generalizing m v with
  | zero =>
    rw [repP, all_zero_of_sum m hm, all_zero_of_sum v hv, permSpec_of_sum_zero U m v hm hv]
    simp
  | succ n ih =>
    rw [repP]
    cases hfn : firstNonzero (vecList m) with
    | none =>
      exfalso
      have := List.sum_eq_zero (firstNonzero_none _ hfn)
      rw [vecList_sum, hm] at this
      omega
    | some f' =>
      obtain ⟨hlt, hne⟩ := firstNonzero_some _ _ hfn
      rw [vecList_length] at hlt
      obtain ⟨f, rfl⟩ : ∃ f : Fin d, f.val = f' := ⟨⟨f', hlt⟩, rfl⟩
      rw [vecList_getD] at hne
      simp only
      rw [vecList_length, foldl_range_eq d (fun j => (vecList v).getD j 0), permSpec_expand U m v f hne]
      refine Finset.sum_congr rfl fun j _ => ?_
      rw [vecList_getD]
      split_ifs with hj
      · simp [hj]
      · have h1 : dec (vecList m) f = vecList (decRow m f) := by
          unfold dec; rw [vecList_getD, vecList_set]; rfl
        have h2 : dec (vecList v) j = vecList (decRow v j) := by
          unfold dec; rw [vecList_getD, vecList_set]; rfl
        have h3 : ((matList U).getD f []).getD j 0 = U f j := by
          have := rowAt_matList U f
          unfold rowAt at this
          rw [this]
          simp [List.getD_eq_getElem?_getD]
        rw [h1, h2, h3, ih (decRow m f) (decRow v j)
          (by have := sum_decRow m f hne; omega) (by have := sum_decRow v j hj; omega)]
        ring

end Code

end Helpers

omit [CharZero K] in
/-- `P[m, v] = perm(U[m, v])`: rows of `U` repeated according to the output occupation `m`, columns
according to the input occupation `v` -/
theorem fockRepP_eq_permSpec {d : Nat} (U : Fin d → Fin d → K) (m v : Fin d → Nat)
    (h : ∑ i, m i = ∑ j, v j) :
    fockRepP (matList U) (vecList m) (vecList v) = permSpec U m v := by
  unfold fockRepP
  rw [vecList_sum, vecList_sum, if_neg (by simpa using h)]
  exact repP_eq_permSpec U _ m v rfl h.symm

omit [CharZero K] in
/-- different particle numbers are never mixed (block structure: a passive gate conserves the
particle number exactly, also in the truncated space) -/
theorem fockRepP_zero_of_ne {d : Nat} (U : Fin d → Fin d → K) (m v : Fin d → Nat)
    (h : ∑ i, m i ≠ ∑ j, v j) :
    fockRepP (matList U) (vecList m) (vecList v) = 0 := by
  unfold fockRepP
  rw [vecList_sum, vecList_sum, if_pos h]

end Pq.FockRep
