import PqVerif.Lemmas.FockRepLaws
import Mathlib.Analysis.Complex.Basic

/-!
C02: the conditional probabilities of the Clifford–Clifford chain-rule sampler (`_calculate_pmf` in
piquasso/_simulators/passive/sampling.py), for bunched inputs as well.

With `r` the multiplicities of the output modes drawn so far and `v` the multiplicities of the input columns taken so
far (one more than `r` in total), the code computes for every candidate output mode `i`
```
permanent_i = Σ_c v_c · U[i, c] · partial_permanents[c]          partial_permanents[c] = perm(U; r, v - e_c)
pmf_i       = |permanent_i|² / Σ_i |permanent_i|²
```
* `pmf_numerator`: `permanent_i` IS the permanent with multiplicities of the sample extended by `i`, `perm(U; r + e_i, v)`
  (Laplace expansion along the new row);
* `pmf_normalisation`: for an interferometer with orthonormal columns the normaliser is
  `Σ_i |perm(U; r + e_i, v)|² = Σ_c v_c² |perm(U; r, v - e_c)|²` — Lemma 2 of Clifford & Clifford generalised to repeated
  input columns (the cross terms between different columns vanish by orthogonality, repeated copies of one column add
  coherently).
-/
namespace Pq.CliffordClifford
open BigOperators Pq.Kernel Pq.FockRep

/-- one more photon in output mode `i` -/
def incRow {ν : Type} [DecidableEq ν] (r : ν → Nat) (i : ν) : ν → Nat := fun x => if x = i then r x + 1 else r x

/-- the number whose modulus the code squares is the permanent of the extended sample -/
theorem pmf_numerator {n k : Nat} (U : Fin n → Fin k → ℂ) (r : Fin n → Nat) (v : Fin k → Nat) (i : Fin n) :
    ∑ c, (v c : ℂ) * (U i c * permSpec U r (decRow v c)) = permSpec U (incRow r i) v := by
  rw [permSpec_expand U (incRow r i) v i (by simp [incRow])]
  have h : decRow (incRow r i) i = r := by
    funext x
    by_cases hx : x = i <;> simp [decRow, incRow, hx]
  rw [h]

/-- an isometry preserves the sum of squared moduli -/
theorem sum_normSq_isometry {n k : Nat} (U : Fin n → Fin k → ℂ)
    (hU : ∀ c c' : Fin k, ∑ i, (starRingEnd ℂ) (U i c) * U i c' = if c = c' then 1 else 0) (a : Fin k → ℂ) :
    ∑ i, Complex.normSq (∑ c, a c * U i c) = ∑ c, Complex.normSq (a c) := by
  apply Complex.ofReal_injective
  push_cast
  simp only [Complex.normSq_eq_conj_mul_self, map_sum, map_mul, Finset.sum_mul, Finset.mul_sum]
  calc ∑ i, ∑ c', ∑ c, (starRingEnd ℂ) (a c) * (starRingEnd ℂ) (U i c) * (a c' * U i c')
      = ∑ c', ∑ c, (starRingEnd ℂ) (a c) * a c' * ∑ i, (starRingEnd ℂ) (U i c) * U i c' := by
        rw [Finset.sum_comm]
        refine Finset.sum_congr rfl fun c' _ => ?_
        rw [Finset.sum_comm]
        refine Finset.sum_congr rfl fun c _ => ?_
        rw [Finset.mul_sum]
        refine Finset.sum_congr rfl fun i _ => ?_
        ring
    _ = ∑ c, (starRingEnd ℂ) (a c) * a c := by
        simp [hU]

/-- normaliser of the conditional pmf, orthonormal columns (`U† U = 1` on the columns), any multiplicities -/
theorem pmf_normalisation {n k : Nat} (U : Fin n → Fin k → ℂ) (r : Fin n → Nat) (v : Fin k → Nat)
    (hU : ∀ c c' : Fin k, ∑ i, (starRingEnd ℂ) (U i c) * U i c' = if c = c' then 1 else 0) :
    ∑ i, Complex.normSq (permSpec U (incRow r i) v)
      = ∑ c, ((v c : ℝ)) ^ 2 * Complex.normSq (permSpec U r (decRow v c)) := by
  have h := sum_normSq_isometry U hU (fun c => (v c : ℂ) * permSpec U r (decRow v c))
  simp only [Complex.normSq_mul, Complex.normSq_natCast] at h
  rw [← Finset.sum_congr rfl fun i _ => congrArg Complex.normSq (pmf_numerator U r v i)]
  simp only [pow_two]
  rw [← h]
  refine Finset.sum_congr rfl fun i _ => ?_
  congr 1
  refine Finset.sum_congr rfl fun c _ => ?_
  ring

end Pq.CliffordClifford
