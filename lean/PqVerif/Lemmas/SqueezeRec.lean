import PqVerif.Lemmas.GradLaws
import Mathlib.Analysis.SpecialFunctions.Trigonometric.DerivHyp

/-!
C01 / C10: the single-mode squeezing matrix.

* `sq_loop_closed_form`: the LOOP of `create_single_mode_squeezing_matrix` (piquasso/_math/gate_matrices.py) computes the
  closed form `sqEntry` of the matrix element `⟨m| S(r e^{iφ}) |n⟩`, for every cutoff, row and column;
* `sq_grad_r`, `sq_grad_phi`: the rules of `create_single_mode_squeezing_gradient` (piquasso/_math/gradients.py) are the
  true derivatives of every entry.

The code (`A = e^{iφ} tanh r`, `s = sech r`):
```
first_row[m]  = sqrt(dfact[m/2]) * (-A)^(m/2)   for even m, 0 for odd m       # dfact[i] = prod_{j=1..i} (2j-1)/(2j)
second_row[m] = s * sqrt(m) * first_row[m-1]                                    # roll_index = [-1, 0, …, cutoff-2]
for col in 2 .. cutoff-1:
    current[m] = (s * sqrt(m) * previous[m-1] + conj(A) * sqrt(col-1) * previous_previous[m]) / sqrt(col)
matrix[m][col] = sqrt(s) * row_col[m]
```
(row 0 of every rolled vector reads the LAST entry, times `sqrt 0`).

The gradient rules (`T = matrix`, rolled entries carry a zero weight):
```
phi_grad[m][n] = -i/2 tanh r ( e^{iφ} sqrt(m(m-1)) T[m-2][n] + e^{-iφ} sqrt(n(n-1)) T[m][n-2] )
r_grad[m][n]   = -tanh r/2 T[m][n] - sech r tanh r sqrt(m n) T[m-1][n-1]
                 - sech² r/2 ( e^{iφ} sqrt(m(m-1)) T[m-2][n] - e^{-iφ} sqrt(n(n-1)) T[m][n-2] )
```
-/
namespace Pq.SqueezeRec
open BigOperators Pq.GradLaws

/-- `_double_factorial_array`: `dfact i = ∏_{j=1..i} (2j-1)/(2j)` -/
noncomputable def dfact : ℕ → ℝ
  | 0 => 1
  | i + 1 => (2 * ((i : ℝ) + 1) - 1) / (2 * ((i : ℝ) + 1)) * dfact i

/-- the index read by `previous[roll_index]` in row `m` (cutoff `c`) -/
def roll (c m : ℕ) : ℕ := if m = 0 then c - 1 else m - 1

/-- accumulator entry `col` of the loop, as a function of the row index `m`; `c` is the cutoff (only used by the roll) -/
noncomputable def sqCol (c : ℕ) (s : ℝ) (A : ℂ) : ℕ → ℕ → ℂ
  | 0, m => if m % 2 = 0 then (Real.sqrt (dfact (m / 2)) : ℂ) * (-A) ^ (m / 2) else 0
  | 1, m => (s : ℂ) * (Real.sqrt (m : ℝ) : ℂ) * sqCol c s A 0 (roll c m)
  | col + 2, m =>
      ((s : ℂ) * (Real.sqrt (m : ℝ) : ℂ) * sqCol c s A (col + 1) (roll c m)
        + (starRingEnd ℂ) A * (Real.sqrt ((col + 1 : ℕ) : ℝ) : ℂ) * sqCol c s A col m)
        / (Real.sqrt ((col + 2 : ℕ) : ℝ) : ℂ)

/-- the entry `(m, n)` of the returned matrix -/
noncomputable def entry (c : ℕ) (r φ : ℝ) (m n : ℕ) : ℂ :=
  (Real.sqrt (1 / Real.cosh r) : ℂ) *
    sqCol c (1 / Real.cosh r) (Complex.exp (Complex.I * φ) * (Real.tanh r : ℂ)) n m

/-- closed form of the squeezing matrix element `⟨m| S |n⟩` (zero unless `m ≡ n mod 2`) -/
noncomputable def sqEntry (m n : ℕ) (r φ : ℝ) : ℂ :=
  (Real.sqrt (1 / Real.cosh r) : ℂ) * (Real.sqrt ((m.factorial : ℝ) * (n.factorial : ℝ)) : ℂ) *
    ∑ k ∈ Finset.range (min m n + 1),
      if (m - k) % 2 = 0 ∧ (n - k) % 2 = 0 then
        (-(Complex.exp (Complex.I * φ) * (Real.tanh r : ℂ)) / 2) ^ ((m - k) / 2)
          * ((Complex.exp (-(Complex.I * φ)) * (Real.tanh r : ℂ)) / 2) ^ ((n - k) / 2)
          * ((1 / Real.cosh r : ℝ) : ℂ) ^ k
          / ((k.factorial : ℂ) * (((m - k) / 2).factorial : ℂ) * (((n - k) / 2).factorial : ℂ))
      else 0


/-! ### the coefficient polynomial and its weighted variants -/

/-- the un-normalised polynomial in `x = -A/2`, `y = conj A/2`, `s` -/
noncomputable def Q (m n : ℕ) (x y s : ℂ) : ℂ :=
  ∑ k ∈ Finset.range (min m n + 1),
    if (m - k) % 2 = 0 ∧ (n - k) % 2 = 0 then
      x ^ ((m - k) / 2) * y ^ ((n - k) / 2) * s ^ k
        / ((k.factorial : ℂ) * (((m - k) / 2).factorial : ℂ) * (((n - k) / 2).factorial : ℂ))
    else 0

/-- `∂_x Q` -/
noncomputable def Ux (m n : ℕ) (x y s : ℂ) : ℂ :=
  ∑ k ∈ Finset.range (min m n + 1),
    if (m - k) % 2 = 0 ∧ (n - k) % 2 = 0 then
      (((m - k) / 2 : ℕ) : ℂ) * x ^ ((m - k) / 2 - 1) * y ^ ((n - k) / 2) * s ^ k
        / ((k.factorial : ℂ) * (((m - k) / 2).factorial : ℂ) * (((n - k) / 2).factorial : ℂ))
    else 0

/-- `∂_y Q` -/
noncomputable def Uy (m n : ℕ) (x y s : ℂ) : ℂ :=
  ∑ k ∈ Finset.range (min m n + 1),
    if (m - k) % 2 = 0 ∧ (n - k) % 2 = 0 then
      (((n - k) / 2 : ℕ) : ℂ) * x ^ ((m - k) / 2) * y ^ ((n - k) / 2 - 1) * s ^ k
        / ((k.factorial : ℂ) * (((m - k) / 2).factorial : ℂ) * (((n - k) / 2).factorial : ℂ))
    else 0

/-- `∂_s Q` -/
noncomputable def Us (m n : ℕ) (x y s : ℂ) : ℂ :=
  ∑ k ∈ Finset.range (min m n + 1),
    if (m - k) % 2 = 0 ∧ (n - k) % 2 = 0 then
      (k : ℂ) * x ^ ((m - k) / 2) * y ^ ((n - k) / 2) * s ^ (k - 1)
        / ((k.factorial : ℂ) * (((m - k) / 2).factorial : ℂ) * (((n - k) / 2).factorial : ℂ))
    else 0

theorem fact_ne (k : ℕ) : (k.factorial : ℂ) ≠ 0 := by exact_mod_cast Nat.factorial_ne_zero k

theorem Ux_shift (m n : ℕ) (x y s : ℂ) : Ux (m + 2) n x y s = Q m n x y s := by
  unfold Ux Q
  have hsub : Finset.range (min m n + 1) ⊆ Finset.range (min (m + 2) n + 1) := by
    apply Finset.range_subset_range.mpr; omega
  rw [← Finset.sum_subset hsub]
  · refine Finset.sum_congr rfl fun k hk => ?_
    have hk' : k ≤ m ∧ k ≤ n := by have := Finset.mem_range.mp hk; omega
    have e1 : m + 2 - k = (m - k) + 2 := by omega
    have e2 : (m - k + 2) % 2 = (m - k) % 2 := by omega
    have e3 : (m - k + 2) / 2 = (m - k) / 2 + 1 := by omega
    rw [e1, e2, e3, Nat.add_sub_cancel, Nat.factorial_succ]
    split_ifs with h
    · have h1 := fact_ne k
      have h2 := fact_ne ((m - k) / 2)
      have h3 := fact_ne ((n - k) / 2)
      have h4 : (((m - k) / 2 + 1 : ℕ) : ℂ) ≠ 0 := Nat.cast_ne_zero.mpr (Nat.succ_ne_zero _)
      push_cast at h4 ⊢
      field_simp
    · rfl
  · intro k hk hk'
    have hk1 := Finset.mem_range.mp hk
    have hk2 : ¬ k < min m n + 1 := fun h => hk' (Finset.mem_range.mpr h)
    have : k = m + 1 ∨ k = m + 2 := by omega
    rcases this with rfl | rfl
    · simp
    · simp

theorem Uy_shift (m n : ℕ) (x y s : ℂ) : Uy m (n + 2) x y s = Q m n x y s := by
  unfold Uy Q
  have hsub : Finset.range (min m n + 1) ⊆ Finset.range (min m (n + 2) + 1) := by
    apply Finset.range_subset_range.mpr; omega
  rw [← Finset.sum_subset hsub]
  · refine Finset.sum_congr rfl fun k hk => ?_
    have hk' : k ≤ m ∧ k ≤ n := by have := Finset.mem_range.mp hk; omega
    have e1 : n + 2 - k = (n - k) + 2 := by omega
    have e2 : (n - k + 2) % 2 = (n - k) % 2 := by omega
    have e3 : (n - k + 2) / 2 = (n - k) / 2 + 1 := by omega
    rw [e1, e2, e3, Nat.add_sub_cancel, Nat.factorial_succ]
    split_ifs with h
    · have h1 := fact_ne k
      have h2 := fact_ne ((m - k) / 2)
      have h3 := fact_ne ((n - k) / 2)
      have h4 : (((n - k) / 2 + 1 : ℕ) : ℂ) ≠ 0 := Nat.cast_ne_zero.mpr (Nat.succ_ne_zero _)
      push_cast at h4 ⊢
      field_simp
    · rfl
  · intro k hk hk'
    have hk1 := Finset.mem_range.mp hk
    have hk2 : ¬ k < min m n + 1 := fun h => hk' (Finset.mem_range.mpr h)
    have : k = n + 1 ∨ k = n + 2 := by omega
    rcases this with rfl | rfl
    · simp
    · simp

theorem Us_shift (m n : ℕ) (x y s : ℂ) : Us (m + 1) (n + 1) x y s = Q m n x y s := by
  unfold Us Q
  have hr : min (m + 1) (n + 1) + 1 = (min m n + 1) + 1 := by omega
  rw [hr, Finset.sum_range_succ']
  simp only [Nat.cast_zero, zero_mul, zero_div, ite_self, add_zero]
  refine Finset.sum_congr rfl fun k hk => ?_
  rw [Nat.add_sub_add_right, Nat.add_sub_add_right, Nat.add_sub_cancel, Nat.factorial_succ]
  split_ifs with h
  · have h1 := fact_ne k
    have h2 := fact_ne ((m - k) / 2)
    have h3 := fact_ne ((n - k) / 2)
    have h4 : ((k + 1 : ℕ) : ℂ) ≠ 0 := Nat.cast_ne_zero.mpr (Nat.succ_ne_zero _)
    push_cast at h4 ⊢
    field_simp
  · rfl

theorem Ux_zero (n : ℕ) (x y s : ℂ) : Ux 0 n x y s = 0 := by
  unfold Ux; simp

theorem Ux_one (n : ℕ) (x y s : ℂ) : Ux 1 n x y s = 0 := by
  unfold Ux
  refine Finset.sum_eq_zero fun k _ => ?_
  have : (1 - k) / 2 = 0 := by omega
  simp [this]

theorem Uy_zero (m : ℕ) (x y s : ℂ) : Uy m 0 x y s = 0 := by
  unfold Uy; simp

theorem Uy_one (m : ℕ) (x y s : ℂ) : Uy m 1 x y s = 0 := by
  unfold Uy
  refine Finset.sum_eq_zero fun k _ => ?_
  have : (1 - k) / 2 = 0 := by omega
  simp [this]

theorem Us_zero_left (n : ℕ) (x y s : ℂ) : Us 0 n x y s = 0 := by
  unfold Us; simp

theorem Us_zero_right (m : ℕ) (x y s : ℂ) : Us m 0 x y s = 0 := by
  unfold Us; simp

theorem cast_mul_pow_pred (k : ℕ) (z : ℂ) : (k : ℂ) * z ^ (k - 1) * z = (k : ℂ) * z ^ k := by
  cases k with
  | zero => simp
  | succ k => rw [Nat.add_sub_cancel, pow_succ]; ring

/-- Euler identity in `(s, y)`: `n Q = s ∂_s Q + 2 y ∂_y Q` -/
theorem euler_n (m n : ℕ) (x y s : ℂ) :
    (n : ℂ) * Q m n x y s = s * Us m n x y s + 2 * y * Uy m n x y s := by
  unfold Q Us Uy
  rw [Finset.mul_sum, Finset.mul_sum, Finset.mul_sum, ← Finset.sum_add_distrib]
  refine Finset.sum_congr rfl fun k hk => ?_
  have hk' : k ≤ m ∧ k ≤ n := by have := Finset.mem_range.mp hk; omega
  split_ifs with h
  · have hn : n = k + 2 * ((n - k) / 2) := by omega
    have hn' : (n : ℂ) = (k : ℂ) + 2 * (((n - k) / 2 : ℕ) : ℂ) := by exact_mod_cast hn
    have h1 := cast_mul_pow_pred k s
    have h2 := cast_mul_pow_pred ((n - k) / 2) y
    rw [hn']
    linear_combination
      (-(x ^ ((m - k) / 2) * y ^ ((n - k) / 2)
          / ((k.factorial : ℂ) * (((m - k) / 2).factorial : ℂ) * (((n - k) / 2).factorial : ℂ)))) * h1
      + (-2 * (x ^ ((m - k) / 2) * s ^ k
          / ((k.factorial : ℂ) * (((m - k) / 2).factorial : ℂ) * (((n - k) / 2).factorial : ℂ)))) * h2
  · simp

theorem Q_rec_succ (m n : ℕ) (x y s : ℂ) :
    ((n + 2 : ℕ) : ℂ) * Q (m + 1) (n + 2) x y s = s * Q m (n + 1) x y s + 2 * y * Q (m + 1) n x y s := by
  rw [euler_n, Us_shift, Uy_shift]

theorem Q_rec_zero (n : ℕ) (x y s : ℂ) :
    ((n + 2 : ℕ) : ℂ) * Q 0 (n + 2) x y s = 2 * y * Q 0 n x y s := by
  rw [euler_n, Us_zero_left, Uy_shift]; ring

theorem Q_succ_one (m : ℕ) (x y s : ℂ) : Q (m + 1) 1 x y s = s * Q m 0 x y s := by
  have h := euler_n (m + 1) 1 x y s
  rw [Us_shift, Uy_one] at h
  simpa using h

theorem Q_zero_one (x y s : ℂ) : Q 0 1 x y s = 0 := by
  unfold Q; simp


/-! ### the loop -/

theorem sqrtC_mul_self (a : ℝ) (h : 0 ≤ a) : (Real.sqrt a : ℂ) * (Real.sqrt a : ℂ) = (a : ℂ) := by
  rw [← Complex.ofReal_mul, Real.mul_self_sqrt h]

theorem dfact_nonneg : ∀ i : ℕ, 0 ≤ dfact i
  | 0 => by simp [dfact]
  | i + 1 => by
    rw [dfact]
    have := dfact_nonneg i
    have hi : (0 : ℝ) ≤ (i : ℝ) := Nat.cast_nonneg i
    apply mul_nonneg _ this
    apply div_nonneg <;> linarith

theorem dfact_mul (i : ℕ) : dfact i * ((2 : ℝ) ^ i * (i.factorial : ℝ)) ^ 2 = ((2 * i).factorial : ℝ) := by
  induction i with
  | zero => simp [dfact]
  | succ i ih =>
    have e : 2 * (i + 1) = 2 * i + 1 + 1 := by ring
    rw [dfact, e, Nat.factorial_succ (2 * i + 1), Nat.factorial_succ (2 * i), Nat.factorial_succ i]
    have hi : ((i : ℝ) + 1) ≠ 0 := by positivity
    push_cast
    rw [← ih]
    field_simp
    ring

theorem sqrt_dfact (i : ℕ) :
    (Real.sqrt (dfact i) : ℂ) * ((2 : ℂ) ^ i * (i.factorial : ℂ)) = (Real.sqrt ((2 * i).factorial : ℝ) : ℂ) := by
  have h : Real.sqrt (dfact i) * ((2 : ℝ) ^ i * (i.factorial : ℝ)) = Real.sqrt ((2 * i).factorial : ℝ) := by
    rw [← dfact_mul i, Real.sqrt_mul (dfact_nonneg i), Real.sqrt_sq (by positivity)]
  exact_mod_cast h

theorem sqCol_one_zero (c : ℕ) (s : ℝ) (A : ℂ) : sqCol c s A 1 0 = 0 := by
  rw [sqCol]; simp

theorem sqCol_one_succ (c : ℕ) (s : ℝ) (A : ℂ) (m : ℕ) :
    sqCol c s A 1 (m + 1) = (s : ℂ) * (Real.sqrt ((m + 1 : ℕ) : ℝ) : ℂ) * sqCol c s A 0 m := by
  conv_lhs => rw [sqCol]
  simp only [roll, if_neg (Nat.succ_ne_zero m), Nat.add_sub_cancel]

theorem sqCol_step_zero (c : ℕ) (s : ℝ) (A : ℂ) (j : ℕ) :
    sqCol c s A (j + 2) 0 =
      ((starRingEnd ℂ) A * (Real.sqrt ((j + 1 : ℕ) : ℝ) : ℂ) * sqCol c s A j 0)
        / (Real.sqrt ((j + 2 : ℕ) : ℝ) : ℂ) := by
  rw [sqCol]; simp

theorem sqCol_step_succ (c : ℕ) (s : ℝ) (A : ℂ) (j m : ℕ) :
    sqCol c s A (j + 2) (m + 1) =
      ((s : ℂ) * (Real.sqrt ((m + 1 : ℕ) : ℝ) : ℂ) * sqCol c s A (j + 1) m
        + (starRingEnd ℂ) A * (Real.sqrt ((j + 1 : ℕ) : ℝ) : ℂ) * sqCol c s A j (m + 1))
        / (Real.sqrt ((j + 2 : ℕ) : ℝ) : ℂ) := by
  rw [sqCol]; simp only [roll, if_neg (Nat.succ_ne_zero m), Nat.add_sub_cancel]

theorem Q_col_zero (m : ℕ) (x y s : ℂ) :
    Q m 0 x y s = if m % 2 = 0 then x ^ (m / 2) / ((m / 2).factorial : ℂ) else 0 := by
  unfold Q; simp

theorem col_zero_eq (c : ℕ) (s : ℝ) (A : ℂ) (m : ℕ) :
    sqCol c s A 0 m = nrm m 0 * Q m 0 (-A / 2) ((starRingEnd ℂ) A / 2) s := by
  rw [sqCol, Q_col_zero]
  split_ifs with h
  · have hm : m = 2 * (m / 2) := by omega
    have hs := sqrt_dfact (m / 2)
    rw [← hm] at hs
    unfold nrm
    simp only [Nat.factorial_zero, Nat.cast_one, mul_one]
    rw [← hs, div_pow]
    have h1 := fact_ne (m / 2)
    have h2 : (2 : ℂ) ^ (m / 2) ≠ 0 := pow_ne_zero _ two_ne_zero
    field_simp
  · simp

theorem col_one_eq (c : ℕ) (s : ℝ) (A : ℂ) (m : ℕ) :
    sqCol c s A 1 m = nrm m 1 * Q m 1 (-A / 2) ((starRingEnd ℂ) A / 2) s := by
  cases m with
  | zero => rw [sqCol_one_zero, Q_zero_one, mul_zero]
  | succ m =>
    rw [sqCol_one_succ, col_zero_eq, Q_succ_one, ← nrm_succ_left m 1]
    have e : nrm m 1 = nrm m 0 := by unfold nrm; simp
    rw [e]; ring

theorem sqrtC_ne_zero (n : ℕ) : (Real.sqrt ((n + 1 : ℕ) : ℝ) : ℂ) ≠ 0 := by
  have h : (0 : ℝ) < ((n + 1 : ℕ) : ℝ) := by exact_mod_cast Nat.succ_pos n
  exact Complex.ofReal_ne_zero.mpr (Real.sqrt_ne_zero'.mpr h)

theorem col_step (c : ℕ) (s : ℝ) (A : ℂ) (n : ℕ)
    (h0 : ∀ m, sqCol c s A n m = nrm m n * Q m n (-A / 2) ((starRingEnd ℂ) A / 2) s)
    (h1 : ∀ m, sqCol c s A (n + 1) m = nrm m (n + 1) * Q m (n + 1) (-A / 2) ((starRingEnd ℂ) A / 2) s)
    (m : ℕ) :
    sqCol c s A (n + 2) m = nrm m (n + 2) * Q m (n + 2) (-A / 2) ((starRingEnd ℂ) A / 2) s := by
  have hne := sqrtC_ne_zero (n + 1)
  have E4 := sqrtC_mul_self (((n + 1 + 1 : ℕ) : ℝ)) (Nat.cast_nonneg _)
  rw [Complex.ofReal_natCast] at E4
  cases m with
  | zero =>
    rw [sqCol_step_zero, h0 0, div_eq_iff hne]
    have E2 := nrm_succ_right 0 n
    have E3 := nrm_succ_right 0 (n + 1)
    have R := Q_rec_zero n (-A / 2) ((starRingEnd ℂ) A / 2) s
    linear_combination
      ((starRingEnd ℂ) A * Q 0 n (-A / 2) ((starRingEnd ℂ) A / 2) s) * E2
      + (Q 0 (n + 2) (-A / 2) ((starRingEnd ℂ) A / 2) s * (Real.sqrt ((n + 1 + 1 : ℕ) : ℝ) : ℂ)) * E3
      - nrm 0 (n + 1) * R
      - (nrm 0 (n + 1) * Q 0 (n + 2) (-A / 2) ((starRingEnd ℂ) A / 2) s) * E4
  | succ m =>
    rw [sqCol_step_succ, h0 (m + 1), h1 m, div_eq_iff hne]
    have E1 := nrm_succ_left m (n + 1)
    have E2 := nrm_succ_right (m + 1) n
    have E3 := nrm_succ_right (m + 1) (n + 1)
    have R := Q_rec_succ m n (-A / 2) ((starRingEnd ℂ) A / 2) s
    linear_combination
      ((s : ℂ) * Q m (n + 1) (-A / 2) ((starRingEnd ℂ) A / 2) s) * E1
      + ((starRingEnd ℂ) A * Q (m + 1) n (-A / 2) ((starRingEnd ℂ) A / 2) s) * E2
      + (Q (m + 1) (n + 2) (-A / 2) ((starRingEnd ℂ) A / 2) s * (Real.sqrt ((n + 1 + 1 : ℕ) : ℝ) : ℂ)) * E3
      - nrm (m + 1) (n + 1) * R
      - (nrm (m + 1) (n + 1) * Q (m + 1) (n + 2) (-A / 2) ((starRingEnd ℂ) A / 2) s) * E4

theorem col_closed (c : ℕ) (s : ℝ) (A : ℂ) : ∀ n : ℕ,
    (∀ m, sqCol c s A n m = nrm m n * Q m n (-A / 2) ((starRingEnd ℂ) A / 2) s) ∧
    (∀ m, sqCol c s A (n + 1) m = nrm m (n + 1) * Q m (n + 1) (-A / 2) ((starRingEnd ℂ) A / 2) s) := by
  intro n
  induction n with
  | zero => exact ⟨col_zero_eq c s A, col_one_eq c s A⟩
  | succ n ih => exact ⟨ih.2, col_step c s A n ih.1 ih.2⟩

theorem conj_A (r φ : ℝ) :
    (starRingEnd ℂ) (Complex.exp (Complex.I * φ) * (Real.tanh r : ℂ)) =
      Complex.exp (-(Complex.I * φ)) * (Real.tanh r : ℂ) := by
  rw [map_mul, Complex.conj_ofReal, ← Complex.exp_conj, map_mul, Complex.conj_I, Complex.conj_ofReal, neg_mul]

theorem sqEntry_eq (m n : ℕ) (r φ : ℝ) :
    sqEntry m n r φ = (Real.sqrt (1 / Real.cosh r) : ℂ) * nrm m n *
      Q m n (-(Complex.exp (Complex.I * φ) * (Real.tanh r : ℂ)) / 2)
        ((Complex.exp (-(Complex.I * φ)) * (Real.tanh r : ℂ)) / 2) ((1 / Real.cosh r : ℝ) : ℂ) := rfl

/-- the loop computes the closed form, for every cutoff and every entry -/
theorem sq_loop_closed_form (c : ℕ) (r φ : ℝ) (m n : ℕ) : entry c r φ m n = sqEntry m n r φ := by
  unfold entry
  rw [(col_closed c _ _ n).1 m, conj_A, sqEntry_eq, mul_assoc]

/-! ### derivatives -/

theorem lower_x (m n : ℕ) (x y s : ℂ) :
    (Real.sqrt ((m : ℝ) * ((m : ℝ) - 1)) : ℂ) * (nrm (m - 2) n * Q (m - 2) n x y s) =
      nrm m n * Ux m n x y s := by
  cases m with
  | zero => simp [Ux_zero]
  | succ m =>
    cases m with
    | zero => simp [Ux_one]
    | succ m =>
      have e : m + 1 + 1 - 2 = m := by omega
      have hc : ((m + 1 + 1 : ℕ) : ℝ) - 1 = ((m + 1 : ℕ) : ℝ) := by push_cast; ring
      rw [e, Ux_shift, hc, Real.sqrt_mul (Nat.cast_nonneg _), Complex.ofReal_mul,
        ← nrm_succ_left (m + 1) n, ← nrm_succ_left m n]
      ring

theorem lower_y (m n : ℕ) (x y s : ℂ) :
    (Real.sqrt ((n : ℝ) * ((n : ℝ) - 1)) : ℂ) * (nrm m (n - 2) * Q m (n - 2) x y s) =
      nrm m n * Uy m n x y s := by
  cases n with
  | zero => simp [Uy_zero]
  | succ n =>
    cases n with
    | zero => simp [Uy_one]
    | succ n =>
      have e : n + 1 + 1 - 2 = n := by omega
      have hc : ((n + 1 + 1 : ℕ) : ℝ) - 1 = ((n + 1 : ℕ) : ℝ) := by push_cast; ring
      rw [e, Uy_shift, hc, Real.sqrt_mul (Nat.cast_nonneg _), Complex.ofReal_mul,
        ← nrm_succ_right m (n + 1), ← nrm_succ_right m n]
      ring

theorem lower_s (m n : ℕ) (x y s : ℂ) :
    (Real.sqrt ((m : ℝ) * (n : ℝ)) : ℂ) * (nrm (m - 1) (n - 1) * Q (m - 1) (n - 1) x y s) =
      nrm m n * Us m n x y s := by
  cases m with
  | zero => simp [Us_zero_left]
  | succ m =>
    cases n with
    | zero => simp [Us_zero_right]
    | succ n =>
      rw [Nat.add_sub_cancel, Nat.add_sub_cancel, Us_shift, Real.sqrt_mul (Nat.cast_nonneg _),
        Complex.ofReal_mul, ← nrm_succ_left m (n + 1), ← nrm_succ_right m n]
      ring

theorem term_hasDerivAt (a b k : ℕ) (D : ℂ) (x y s : ℝ → ℂ) (x' y' s' : ℂ) (p : ℝ)
    (hx : HasDerivAt x x' p) (hy : HasDerivAt y y' p) (hs : HasDerivAt s s' p) :
    HasDerivAt (fun q => x q ^ a * y q ^ b * s q ^ k / D)
      (((a : ℂ) * x p ^ (a - 1) * y p ^ b * s p ^ k / D) * x'
        + ((b : ℂ) * x p ^ a * y p ^ (b - 1) * s p ^ k / D) * y'
        + ((k : ℂ) * x p ^ a * y p ^ b * s p ^ (k - 1) / D) * s') p := by
  have h := (((hx.fun_pow a).fun_mul (hy.fun_pow b)).fun_mul (hs.fun_pow k)).div_const D
  refine h.congr_deriv ?_
  ring

theorem Q_hasDerivAt (m n : ℕ) (x y s : ℝ → ℂ) (x' y' s' : ℂ) (p : ℝ)
    (hx : HasDerivAt x x' p) (hy : HasDerivAt y y' p) (hs : HasDerivAt s s' p) :
    HasDerivAt (fun q => Q m n (x q) (y q) (s q))
      (Ux m n (x p) (y p) (s p) * x' + Uy m n (x p) (y p) (s p) * y'
        + Us m n (x p) (y p) (s p) * s') p := by
  unfold Q
  have hd := HasDerivAt.fun_sum (u := Finset.range (min m n + 1))
    (A := fun k q => if (m - k) % 2 = 0 ∧ (n - k) % 2 = 0 then
      x q ^ ((m - k) / 2) * y q ^ ((n - k) / 2) * s q ^ k
        / ((k.factorial : ℂ) * (((m - k) / 2).factorial : ℂ) * (((n - k) / 2).factorial : ℂ))
      else 0)
    (A' := fun k => if (m - k) % 2 = 0 ∧ (n - k) % 2 = 0 then
      ((((m - k) / 2 : ℕ) : ℂ) * x p ^ ((m - k) / 2 - 1) * y p ^ ((n - k) / 2) * s p ^ k
          / ((k.factorial : ℂ) * (((m - k) / 2).factorial : ℂ) * (((n - k) / 2).factorial : ℂ))) * x'
        + ((((n - k) / 2 : ℕ) : ℂ) * x p ^ ((m - k) / 2) * y p ^ ((n - k) / 2 - 1) * s p ^ k
          / ((k.factorial : ℂ) * (((m - k) / 2).factorial : ℂ) * (((n - k) / 2).factorial : ℂ))) * y'
        + ((k : ℂ) * x p ^ ((m - k) / 2) * y p ^ ((n - k) / 2) * s p ^ (k - 1)
          / ((k.factorial : ℂ) * (((m - k) / 2).factorial : ℂ) * (((n - k) / 2).factorial : ℂ))) * s'
      else 0) (x := p)
    (fun k _ => by
      by_cases h : (m - k) % 2 = 0 ∧ (n - k) % 2 = 0
      · simp only [if_pos h]
        exact term_hasDerivAt _ _ _ _ x y s x' y' s' p hx hy hs
      · simp only [if_neg h]
        exact hasDerivAt_const _ _)
  refine hd.congr_deriv ?_
  unfold Ux Uy Us
  rw [Finset.sum_mul, Finset.sum_mul, Finset.sum_mul, ← Finset.sum_add_distrib, ← Finset.sum_add_distrib]
  refine Finset.sum_congr rfl fun k _ => ?_
  split_ifs <;> simp

theorem exp_I_hasDerivAt (φ : ℝ) :
    HasDerivAt (fun q : ℝ => Complex.exp (Complex.I * q)) (Complex.exp (Complex.I * φ) * Complex.I) φ := by
  have h := (((hasDerivAt_id (φ : ℂ)).const_mul Complex.I).cexp).comp_ofReal
  refine h.congr_deriv ?_
  simp

theorem exp_negI_hasDerivAt (φ : ℝ) :
    HasDerivAt (fun q : ℝ => Complex.exp (-(Complex.I * q)))
      (-(Complex.exp (-(Complex.I * φ)) * Complex.I)) φ := by
  have h := ((((hasDerivAt_id (φ : ℂ)).const_mul Complex.I).fun_neg).cexp).comp_ofReal
  refine h.congr_deriv ?_
  simp

theorem sech_hasDerivAt (r : ℝ) :
    HasDerivAt (fun y : ℝ => 1 / Real.cosh y) (-(1 / Real.cosh r) * Real.tanh r) r := by
  have hne : Real.cosh r ≠ 0 := ne_of_gt (Real.cosh_pos r)
  have h := (Real.hasDerivAt_cosh r).fun_inv hne
  simp only [one_div]
  refine h.congr_deriv ?_
  rw [Real.tanh_eq_sinh_div_cosh]
  field_simp

theorem tanh_hasDerivAt (r : ℝ) : HasDerivAt (fun y : ℝ => Real.tanh y) ((1 / Real.cosh r) ^ 2) r := by
  have hne : Real.cosh r ≠ 0 := ne_of_gt (Real.cosh_pos r)
  have h := (Real.hasDerivAt_sinh r).fun_div (Real.hasDerivAt_cosh r) hne
  have hf : (fun y : ℝ => Real.tanh y) = fun y => Real.sinh y / Real.cosh y :=
    funext Real.tanh_eq_sinh_div_cosh
  rw [hf]
  refine h.congr_deriv ?_
  have hcs : Real.cosh r * Real.cosh r - Real.sinh r * Real.sinh r = 1 := by
    linear_combination Real.cosh_sq r
  rw [hcs]
  field_simp

theorem sqrt_sech_hasDerivAt (r : ℝ) :
    HasDerivAt (fun y : ℝ => Real.sqrt (1 / Real.cosh y))
      (-(Real.tanh r / 2) * Real.sqrt (1 / Real.cosh r)) r := by
  have hpos : 0 < 1 / Real.cosh r := one_div_pos.mpr (Real.cosh_pos r)
  have h := (sech_hasDerivAt r).sqrt (ne_of_gt hpos)
  refine h.congr_deriv ?_
  have hq := Real.mul_self_sqrt hpos.le
  have hne : Real.sqrt (1 / Real.cosh r) ≠ 0 := Real.sqrt_ne_zero'.mpr hpos
  generalize 1 / Real.cosh r = S at *
  field_simp
  linear_combination (Real.tanh r) * hq

/-- the `phi` rule of `create_single_mode_squeezing_gradient` -/
theorem sq_grad_phi (m n : ℕ) (r φ : ℝ) :
    HasDerivAt (fun x : ℝ => sqEntry m n r x)
      (-(Complex.I / 2) * (Real.tanh r : ℂ) *
        (Complex.exp (Complex.I * φ) * (Real.sqrt ((m : ℝ) * ((m : ℝ) - 1)) : ℂ) * sqEntry (m - 2) n r φ
          + Complex.exp (-(Complex.I * φ)) * (Real.sqrt ((n : ℝ) * ((n : ℝ) - 1)) : ℂ) * sqEntry m (n - 2) r φ)) φ := by
  have hx := (((exp_I_hasDerivAt φ).mul_const (Real.tanh r : ℂ)).fun_neg).div_const 2
  have hy := ((exp_negI_hasDerivAt φ).mul_const (Real.tanh r : ℂ)).div_const 2
  have hs := hasDerivAt_const φ (((1 / Real.cosh r : ℝ)) : ℂ)
  have h := (Q_hasDerivAt m n _ _ _ _ _ _ φ hx hy hs).const_mul
    ((Real.sqrt (1 / Real.cosh r) : ℂ) * nrm m n)
  have hfun : (fun x : ℝ => sqEntry m n r x) = fun q : ℝ =>
      (Real.sqrt (1 / Real.cosh r) : ℂ) * nrm m n *
        Q m n (-(Complex.exp (Complex.I * q) * (Real.tanh r : ℂ)) / 2)
          ((Complex.exp (-(Complex.I * q)) * (Real.tanh r : ℂ)) / 2) ((1 / Real.cosh r : ℝ) : ℂ) := by
    funext q; exact sqEntry_eq m n r q
  rw [hfun]
  refine h.congr_deriv ?_
  have Lx := lower_x m n (-(Complex.exp (Complex.I * φ) * (Real.tanh r : ℂ)) / 2)
    ((Complex.exp (-(Complex.I * φ)) * (Real.tanh r : ℂ)) / 2) ((1 / Real.cosh r : ℝ) : ℂ)
  have Ly := lower_y m n (-(Complex.exp (Complex.I * φ) * (Real.tanh r : ℂ)) / 2)
    ((Complex.exp (-(Complex.I * φ)) * (Real.tanh r : ℂ)) / 2) ((1 / Real.cosh r : ℝ) : ℂ)
  rw [sqEntry_eq (m - 2) n, sqEntry_eq m (n - 2)]
  linear_combination
    (Complex.I / 2 * (Real.tanh r : ℂ) * (Real.sqrt (1 / Real.cosh r) : ℂ) * Complex.exp (Complex.I * φ)) * Lx
    + (Complex.I / 2 * (Real.tanh r : ℂ) * (Real.sqrt (1 / Real.cosh r) : ℂ)
        * Complex.exp (-(Complex.I * φ))) * Ly

/-- the `r` rule of `create_single_mode_squeezing_gradient` -/
theorem sq_grad_r (m n : ℕ) (r φ : ℝ) :
    HasDerivAt (fun x : ℝ => sqEntry m n x φ)
      (-((Real.tanh r : ℂ) / 2) * sqEntry m n r φ
        - ((1 / Real.cosh r : ℝ) : ℂ) * (Real.tanh r : ℂ) * (Real.sqrt ((m : ℝ) * (n : ℝ)) : ℂ)
            * sqEntry (m - 1) (n - 1) r φ
        - (((1 / Real.cosh r : ℝ) : ℂ) ^ 2 / 2) *
          (Complex.exp (Complex.I * φ) * (Real.sqrt ((m : ℝ) * ((m : ℝ) - 1)) : ℂ) * sqEntry (m - 2) n r φ
            - Complex.exp (-(Complex.I * φ)) * (Real.sqrt ((n : ℝ) * ((n : ℝ) - 1)) : ℂ) * sqEntry m (n - 2) r φ)) r := by
  have hx := (((tanh_hasDerivAt r).ofReal_comp.const_mul (Complex.exp (Complex.I * φ))).fun_neg).div_const 2
  have hy := ((tanh_hasDerivAt r).ofReal_comp.const_mul (Complex.exp (-(Complex.I * φ)))).div_const 2
  have hs := (sech_hasDerivAt r).ofReal_comp
  have hq := (sqrt_sech_hasDerivAt r).ofReal_comp
  have h := (hq.mul_const (nrm m n)).fun_mul (Q_hasDerivAt m n _ _ _ _ _ _ r hx hy hs)
  have hfun : (fun x : ℝ => sqEntry m n x φ) = fun q : ℝ =>
      (Real.sqrt (1 / Real.cosh q) : ℂ) * nrm m n *
        Q m n (-(Complex.exp (Complex.I * φ) * (Real.tanh q : ℂ)) / 2)
          ((Complex.exp (-(Complex.I * φ)) * (Real.tanh q : ℂ)) / 2) ((1 / Real.cosh q : ℝ) : ℂ) := by
    funext q; exact sqEntry_eq m n q φ
  rw [hfun]
  refine h.congr_deriv ?_
  have Lx := lower_x m n (-(Complex.exp (Complex.I * φ) * (Real.tanh r : ℂ)) / 2)
    ((Complex.exp (-(Complex.I * φ)) * (Real.tanh r : ℂ)) / 2) ((1 / Real.cosh r : ℝ) : ℂ)
  have Ly := lower_y m n (-(Complex.exp (Complex.I * φ) * (Real.tanh r : ℂ)) / 2)
    ((Complex.exp (-(Complex.I * φ)) * (Real.tanh r : ℂ)) / 2) ((1 / Real.cosh r : ℝ) : ℂ)
  have Ls := lower_s m n (-(Complex.exp (Complex.I * φ) * (Real.tanh r : ℂ)) / 2)
    ((Complex.exp (-(Complex.I * φ)) * (Real.tanh r : ℂ)) / 2) ((1 / Real.cosh r : ℝ) : ℂ)
  rw [sqEntry_eq m n, sqEntry_eq (m - 2) n, sqEntry_eq m (n - 2), sqEntry_eq (m - 1) (n - 1)]
  generalize 1 / Real.cosh r = S at *
  simp only [Complex.ofReal_mul, Complex.ofReal_neg, Complex.ofReal_pow, Complex.ofReal_div,
    Complex.ofReal_ofNat]
  linear_combination
    ((S : ℂ) * (Real.tanh r : ℂ) * (Real.sqrt S : ℂ)) * Ls
    + ((S : ℂ) ^ 2 / 2 * (Real.sqrt S : ℂ) * Complex.exp (Complex.I * φ)) * Lx
    - ((S : ℂ) ^ 2 / 2 * (Real.sqrt S : ℂ) * Complex.exp (-(Complex.I * φ))) * Ly

end Pq.SqueezeRec
