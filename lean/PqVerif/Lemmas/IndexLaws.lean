import Mathlib.Tactic
import Mathlib.Algebra.BigOperators.Group.List.Basic
import PqVerif.Lemmas.CombIndex
import PqVerif.Lemmas.CombLoop
import PqVerif.Model.Index
import PqVerif.Props.C06

/-!
C16 lemmas: the index tables of the Fock simulators (models in `Model/Index.lean`) enumerate the
basis exactly once for ANY valid mode tuple in ANY order; applying a number-conserving gate
through them is the action on labelled occupation vectors, which is equivariant under relabelling
and commutes for disjoint supports.
-/
namespace Pq.Index
open Pq.Comb

/-- a valid mode tuple: distinct modes below `d` (any order) -/
def ValidModes (d : Nat) (modes : List Nat) : Prop := modes.Nodup ∧ ∀ m ∈ modes, m < d

theorem idxOf?_eq (l : List Nat) (m : Nat) :
    l.idxOf? m = if m ∈ l then some (l.idxOf m) else none := by
  induction l with
  | nil => simp
  | cons a t ih =>
    rw [List.idxOf?_cons, ih]
    by_cases h : a = m
    · simp [h]
    · have h' : ¬ m = a := fun e => h e.symm
      rw [List.idxOf_cons_ne _ h]
      by_cases hm : m ∈ t <;> simp [h, h', hm]

/-- the entry function of `merge` -/
def mergeF (modes aux sub auxv : List Nat) (m : Nat) : Nat :=
  if m ∈ modes then sub.getD (modes.idxOf m) 0
  else if m ∈ aux then auxv.getD (aux.idxOf m) 0 else 0

theorem merge_eq (d : Nat) (modes aux sub auxv : List Nat) :
    merge d modes aux sub auxv = (List.range d).map (mergeF modes aux sub auxv) := by
  unfold merge
  apply List.map_congr_left
  intro m _
  unfold mergeF
  rw [idxOf?_eq, idxOf?_eq]
  by_cases h1 : m ∈ modes <;> by_cases h2 : m ∈ aux <;> simp [h1, h2]

/-- restriction of an occupation vector to a list of modes -/
def restr (l : List Nat) (v : List Nat) : List Nat := l.map (fun m => v.getD m 0)

@[simp] theorem length_restr (l v : List Nat) : (restr l v).length = l.length := by simp [restr]

@[simp] theorem length_merge (d : Nat) (modes aux s a : List Nat) :
    (merge d modes aux s a).length = d := by simp [merge]

theorem getD_merge {d : Nat} (modes aux s a : List Nat) {m : Nat} (h : m < d) :
    (merge d modes aux s a).getD m 0 = mergeF modes aux s a m := by
  rw [merge_eq]; simp [List.getD_eq_getElem?_getD, h]

theorem mem_auxModes {d : Nat} {modes : List Nat} {m : Nat} :
    m ∈ auxModes d modes ↔ m < d ∧ m ∉ modes := by
  simp [auxModes]

theorem nodup_auxModes (d : Nat) (modes : List Nat) : (auxModes d modes).Nodup :=
  List.Nodup.filter _ List.nodup_range

theorem perm_modes_aux {d : Nat} {modes : List Nat} (hm : ValidModes d modes) :
    (List.range d).Perm (modes ++ auxModes d modes) := by
  have h1 := (List.filter_append_perm (fun m => modes.contains m) (List.range d)).symm
  refine h1.trans (List.Perm.append ?_ ?_)
  · rw [List.perm_ext_iff_of_nodup (List.Nodup.filter _ List.nodup_range) hm.1]
    intro a
    simp only [List.mem_filter, List.mem_range, List.contains_iff_mem]
    exact ⟨fun h => h.2, fun h => ⟨hm.2 a h, h⟩⟩
  · unfold auxModes
    exact List.Perm.refl _

theorem length_auxModes {d : Nat} {modes : List Nat} (hm : ValidModes d modes) :
    (auxModes d modes).length = d - modes.length := by
  have := (perm_modes_aux hm).length_eq
  simp at this
  omega

theorem length_le_of_valid {d : Nat} {modes : List Nat} (hm : ValidModes d modes) :
    modes.length ≤ d := by
  have := (perm_modes_aux hm).length_eq
  simp at this
  omega

theorem restr_nodup_map (l : List Nat) (hl : l.Nodup) (s : List Nat) (hs : s.length = l.length)
    (f : Nat → Nat) (hf : ∀ m ∈ l, f m = s.getD (l.idxOf m) 0) : l.map f = s := by
  apply List.ext_getElem (by simp [hs])
  intro i h1 h2
  simp only [List.getElem_map]
  rw [hf _ (List.getElem_mem _), hl.idxOf_getElem]
  simp [List.getD_eq_getElem?_getD, h2]

theorem restr_modes_merge {d : Nat} {modes : List Nat} (hm : ValidModes d modes) (aux s a : List Nat)
    (hs : s.length = modes.length) : restr modes (merge d modes aux s a) = s := by
  apply restr_nodup_map modes hm.1 s hs
  intro m hmm
  rw [getD_merge _ _ _ _ (hm.2 m hmm)]
  simp [mergeF, hmm]

theorem restr_aux_merge {d : Nat} {modes : List Nat} (s a : List Nat)
    (ha : a.length = (auxModes d modes).length) :
    restr (auxModes d modes) (merge d modes (auxModes d modes) s a) = a := by
  apply restr_nodup_map _ (nodup_auxModes d modes) a ha
  intro m hmm
  have := mem_auxModes.1 hmm
  rw [getD_merge _ _ _ _ this.1]
  simp [mergeF, hmm, this.2]

theorem merge_restr {d : Nat} (modes : List Nat) (v : List Nat)
    (hv : v.length = d) :
    merge d modes (auxModes d modes) (restr modes v) (restr (auxModes d modes) v) = v := by
  apply List.ext_getElem (by simp [hv])
  intro i h1 h2
  simp only [merge_eq, List.getElem_map, List.getElem_range]
  unfold mergeF
  by_cases hi : i ∈ modes
  · simp only [hi, if_true, restr]
    have hlt := List.idxOf_lt_length_of_mem hi
    simp [List.getD_eq_getElem?_getD, hlt, h2]
  · have hd : i < d := by simpa using h1
    have hia : i ∈ auxModes d modes := mem_auxModes.2 ⟨hd, hi⟩
    simp only [hi, hia, if_true, if_false, restr]
    have hlt := List.idxOf_lt_length_of_mem hia
    simp [List.getD_eq_getElem?_getD, hlt, h2]

theorem sum_eq_restr {d : Nat} {modes : List Nat} (hm : ValidModes d modes) (v : List Nat)
    (hv : v.length = d) : v.sum = (restr modes v).sum + (restr (auxModes d modes) v).sum := by
  have hv' : v = (List.range d).map (fun m => v.getD m 0) := by
    apply List.ext_getElem (by simp [hv])
    intro i h1 h2
    simp [List.getD_eq_getElem?_getD, h1]
  conv_lhs => rw [hv']
  rw [((perm_modes_aux hm).map _).sum_eq, List.map_append, List.sum_append]
  rfl

theorem sum_merge {d : Nat} {modes : List Nat} (hm : ValidModes d modes) (s a : List Nat)
    (hs : s.length = modes.length) (ha : a.length = (auxModes d modes).length) :
    (merge d modes (auxModes d modes) s a).sum = s.sum + a.sum := by
  rw [sum_eq_restr hm _ (length_merge ..), restr_modes_merge hm _ _ _ hs, restr_aux_merge _ _ ha]

/-! ### the specification basis for every number of modes (including 0) -/

theorem basis_zero (c : Nat) : basis 0 c = if c = 0 then [] else [[]] := by
  unfold basis
  cases c with
  | zero => simp
  | succ c =>
    rw [List.range_succ_eq_map, List.flatMap_cons]
    have : (List.map Nat.succ (List.range c)).flatMap (parts 0) = [] := by
      rw [List.flatMap_eq_nil_iff]
      intro x hx
      obtain ⟨y, _, rfl⟩ := List.mem_map.1 hx
      rfl
    simp [this, parts]

theorem cutoffDim_zero_modes (c : Nat) : cutoffDim c 0 = if c = 0 then 0 else 1 := by
  cases c with
  | zero => simp [cutoffDim, combInt]
  | succ c => simp [cutoffDim_eq]

theorem basis'_eq_basis (d c : Nat) : basis' d c = basis d c := by
  unfold basis'
  cases d with
  | zero =>
    rw [basis_zero, cutoffDim_zero_modes]
    by_cases h : c = 0 <;> simp [h]
  | succ d => simp [Pq.C06.fockBasis_eq_basis]

theorem length_basis_all (d c : Nat) : (basis d c).length = cutoffDim c d := by
  cases d with
  | zero =>
    rw [basis_zero, cutoffDim_zero_modes]
    by_cases h : c = 0 <;> simp [h]
  | succ d => rw [Pq.C06.cutoffDim_eq_length, Pq.C06.fockBasis_eq_basis]

theorem nodup_basis_all (d c : Nat) : (basis d c).Nodup := by
  cases d with
  | zero => rw [basis_zero]; by_cases h : c = 0 <;> simp [h]
  | succ d => exact nodup_basis d c

theorem nodup_parts (d n : Nat) : (parts d n).Nodup := by
  cases d with
  | zero => cases n <;> simp [parts]
  | succ d =>
    have h : ((parts (d+1) n).map index).Nodup := by
      rw [map_index_parts]; exact List.nodup_range'
    exact List.Nodup.of_map _ h

theorem take_basis (d c c' : Nat) (h : c' ≤ c) : (basis d c).take (cutoffDim c' d) = basis d c' := by
  obtain ⟨e, rfl⟩ : ∃ e, c = c' + e := ⟨c - c', by omega⟩
  have : basis d (c' + e) = basis d c' ++ (List.range' c' e).flatMap (parts d) := by
    unfold basis
    rw [List.range_add, List.flatMap_append, List.range_eq_range' (n := e), List.map_add_range']
    simp
  rw [this, ← length_basis_all, List.take_left]

theorem index_inj {v w : List Nat} (hl : v.length = w.length) (h : index v = index w) : v = w := by
  cases hv : v.length with
  | zero =>
    rw [hv] at hl
    rw [List.length_eq_zero_iff.1 hv, List.length_eq_zero_iff.1 hl.symm]
  | succ d =>
    have h1 := getElem_index d (v.sum + w.sum + 1) v hv (by omega)
    have h2 := getElem_index d (v.sum + w.sum + 1) w (by omega) (by omega)
    rw [h] at h1
    rw [h1] at h2
    exact Option.some.inj h2

/-! ### normal forms of the tables -/

theorem nodup_flatMap_of_key {σ α : Type} {l : List σ} (hl : l.Nodup) (g : σ → List α) (key : α → σ)
    (hg : ∀ s ∈ l, (g s).Nodup) (hkey : ∀ s ∈ l, ∀ x ∈ g s, key x = s) : (l.flatMap g).Nodup := by
  rw [List.nodup_flatMap]
  refine ⟨hg, ?_⟩
  refine List.Pairwise.imp_of_mem ?_ hl
  intro a b ha hb hab
  simp only [Function.onFun, List.disjoint_left]
  intro x hxa hxb
  exact hab ((hkey a ha x hxa).symm.trans (hkey b hb x hxb))

theorem flatten_flatten_map_map {α β γ δ : Type} (l : List α) (f : α → List β) (g : α → β → List γ)
    (h : α → β → γ → δ) :
    ((l.map (fun n => (f n).map (fun s => (g n s).map (fun a => h n s a)))).flatten.flatten) =
      (l.flatMap (fun n => (f n).flatMap (fun s => (g n s).map (fun a => h n s a)))) := by
  induction l with
  | nil => rfl
  | cons x t ih =>
    simp only [List.map_cons, List.flatten_cons, List.flatten_append, List.flatMap_cons]
    rw [ih]
    rfl

theorem indexList_eq (modes : List Nat) (d cutoff : Nat) (hk : modes ≠ []) :
    indexList modes d cutoff = (List.range cutoff).map (fun n =>
      (parts modes.length n).map (fun s => (basis (d - modes.length) (cutoff - n)).map (fun a =>
        indexInFockSpace (merge d modes (auxModes d modes) s a)))) := by
  unfold indexList
  apply List.map_congr_left
  intro n hn
  have hn' : n < cutoff := List.mem_range.1 hn
  obtain ⟨k, hk'⟩ : ∃ k, modes.length = k + 1 :=
    ⟨modes.length - 1, by have := List.length_pos_iff.2 hk; omega⟩
  simp only [basis'_eq_basis]
  rw [take_basis _ _ _ (by omega), hk', partitions_eq_parts]

/-- the occupation vectors behind `indexList`, in table order -/
def vecsI (modes : List Nat) (d cutoff : Nat) : List (List Nat) :=
  (List.range cutoff).flatMap (fun n => (parts modes.length n).flatMap (fun s =>
    (basis (d - modes.length) (cutoff - n)).map (fun a => merge d modes (auxModes d modes) s a)))

theorem indexList_flat (modes : List Nat) (d cutoff : Nat) (hk : modes ≠ []) :
    (indexList modes d cutoff).flatten.flatten = (vecsI modes d cutoff).map indexInFockSpace := by
  rw [indexList_eq _ _ _ hk, flatten_flatten_map_map]
  unfold vecsI
  simp only [List.map_flatMap, List.map_map, Function.comp_def]

theorem mem_vecsI {modes : List Nat} {d cutoff : Nat} (hm : ValidModes d modes) (v : List Nat) :
    v ∈ vecsI modes d cutoff ↔ v.length = d ∧ v.sum < cutoff := by
  unfold vecsI
  simp only [List.mem_flatMap, List.mem_map, List.mem_range, mem_parts, mem_basis]
  constructor
  · rintro ⟨n, hn, s, ⟨hsl, hss⟩, a, ⟨hal, has⟩, rfl⟩
    refine ⟨length_merge .., ?_⟩
    rw [sum_merge hm s a hsl (by rw [hal, length_auxModes hm])]
    omega
  · rintro ⟨hl, hs⟩
    have hsum := sum_eq_restr hm v hl
    refine ⟨(restr modes v).sum, by omega, restr modes v, ⟨by simp, rfl⟩,
      restr (auxModes d modes) v, ⟨by simp [length_auxModes hm], by omega⟩, merge_restr modes v hl⟩

theorem merge_inj_aux {d : Nat} {modes : List Nat} (s a a' : List Nat)
    (ha : a.length = (auxModes d modes).length) (ha' : a'.length = (auxModes d modes).length)
    (h : merge d modes (auxModes d modes) s a = merge d modes (auxModes d modes) s a') : a = a' := by
  rw [← restr_aux_merge s a ha, h, restr_aux_merge s a' ha']

theorem nodup_vecsI {modes : List Nat} {d cutoff : Nat} (hm : ValidModes d modes) :
    (vecsI modes d cutoff).Nodup := by
  unfold vecsI
  have hauxl := length_auxModes hm
  refine nodup_flatMap_of_key List.nodup_range _ (fun v => (restr modes v).sum) ?_ ?_
  · intro n _
    refine nodup_flatMap_of_key (nodup_parts _ _) _ (fun v => restr modes v) ?_ ?_
    · intro s _
      refine List.Nodup.map_on ?_ (nodup_basis_all _ _)
      intro a ha a' ha' h
      exact merge_inj_aux s a a' (by rw [hauxl, ((mem_basis _ _ _).1 ha).1])
        (by rw [hauxl, ((mem_basis _ _ _).1 ha').1]) h
    · intro s hs x hx
      obtain ⟨a, _, rfl⟩ := List.mem_map.1 hx
      exact restr_modes_merge hm _ s a ((mem_parts _ _ _).1 hs).1
  · intro n _ x hx
    obtain ⟨s, hs, hx⟩ := List.mem_flatMap.1 hx
    obtain ⟨a, _, rfl⟩ := List.mem_map.1 hx
    rw [restr_modes_merge hm _ s a ((mem_parts _ _ _).1 hs).1]
    exact ((mem_parts _ _ _).1 hs).2

theorem map_index_perm_range {d cutoff : Nat} (hd : 0 < d) (L : List (List Nat)) (hn : L.Nodup)
    (hmem : ∀ v, v ∈ L ↔ v.length = d ∧ v.sum < cutoff) :
    (L.map indexInFockSpace).Perm (List.range (cutoffDim cutoff d)) := by
  obtain ⟨d', rfl⟩ : ∃ d', d = d' + 1 := ⟨d - 1, by omega⟩
  rw [← Pq.C06.map_index_fockBasis]
  apply List.Perm.map
  rw [List.perm_ext_iff_of_nodup hn (Pq.C06.fockBasis_nodup _ _)]
  intro v
  rw [hmem, Pq.C06.mem_fockBasis]

theorem pos_of_valid {d : Nat} {modes : List Nat} (hm : ValidModes d modes) (hk : modes ≠ []) :
    0 < d := by
  obtain ⟨m, hmm⟩ := List.exists_mem_of_ne_nil _ hk
  have := hm.2 m hmm
  omega

/-- every basis index appears exactly once in the tables of `indexList` -/
theorem indexList_perm (modes : List Nat) (d cutoff : Nat) (hm : ValidModes d modes)
    (hk : modes ≠ []) :
    ((indexList modes d cutoff).flatten.flatten).Perm (List.range (cutoffDim cutoff d)) := by
  rw [indexList_flat _ _ _ hk]
  exact map_index_perm_range (pos_of_valid hm hk) _ (nodup_vecsI hm) (mem_vecsI hm)

/-! ### `stateIndexMatrixList` -/

theorem valid_singleton {d mode : Nat} (h : mode < d) : ValidModes d [mode] :=
  ⟨List.nodup_singleton _, by simpa using h⟩

/-- the occupation vectors behind `stateIndexMatrixList`, in table order -/
def vecsS (d cutoff mode : Nat) : List (List Nat) :=
  (List.range cutoff).flatMap (fun n => (List.range (cutoff - n)).flatMap (fun j =>
    (parts (d - 1) n).map (fun a => merge d [mode] (auxModes d [mode]) [j] a)))

theorem stateIndexMatrixList_flat (d cutoff mode : Nat) :
    (stateIndexMatrixList d cutoff mode).flatten.flatten =
      (vecsS d cutoff mode).map indexInFockSpace := by
  have h : stateIndexMatrixList d cutoff mode = (List.range cutoff).map (fun n =>
      (List.range (cutoff - n)).map (fun j => (parts (d - 1) n).map (fun a =>
        indexInFockSpace (merge d [mode] (auxModes d [mode]) [j] a)))) := by
    unfold stateIndexMatrixList
    apply List.map_congr_left
    intro n _
    have : (if d - 1 = 0 then (if n = 0 then [[]] else []) else partitions (d - 1) n) =
        parts (d - 1) n := by
      cases hd : d - 1 with
      | zero => cases n <;> simp [parts]
      | succ e => simp [partitions_eq_parts]
    simp only [this]
  rw [h, flatten_flatten_map_map]
  unfold vecsS
  simp only [List.map_flatMap, List.map_map, Function.comp_def]

theorem mem_vecsS {d cutoff mode : Nat} (hmode : mode < d) (v : List Nat) :
    v ∈ vecsS d cutoff mode ↔ v.length = d ∧ v.sum < cutoff := by
  have hm := valid_singleton hmode
  have hauxl : (auxModes d [mode]).length = d - 1 := by simpa using length_auxModes hm
  unfold vecsS
  simp only [List.mem_flatMap, List.mem_map, List.mem_range, mem_parts]
  constructor
  · rintro ⟨n, hn, j, hj, a, ⟨hal, has⟩, rfl⟩
    refine ⟨length_merge .., ?_⟩
    rw [sum_merge hm [j] a rfl (by rw [hal, hauxl])]
    simp
    omega
  · rintro ⟨hl, hs⟩
    have hsum := sum_eq_restr hm v hl
    have h1 : restr [mode] v = [v.getD mode 0] := rfl
    rw [h1] at hsum
    simp only [List.sum_cons, List.sum_nil, Nat.add_zero] at hsum
    refine ⟨(restr (auxModes d [mode]) v).sum, by omega, v.getD mode 0, by omega,
      restr (auxModes d [mode]) v, ⟨by simp [hauxl], rfl⟩, ?_⟩
    rw [← h1]
    exact merge_restr [mode] v hl

theorem nodup_vecsS {d cutoff mode : Nat} (hmode : mode < d) : (vecsS d cutoff mode).Nodup := by
  have hm := valid_singleton hmode
  have hauxl : (auxModes d [mode]).length = d - 1 := by simpa using length_auxModes hm
  unfold vecsS
  refine nodup_flatMap_of_key List.nodup_range _ (fun v => (restr (auxModes d [mode]) v).sum) ?_ ?_
  · intro n _
    refine nodup_flatMap_of_key List.nodup_range _ (fun v => (restr [mode] v).sum) ?_ ?_
    · intro j _
      refine List.Nodup.map_on ?_ (nodup_parts _ _)
      intro a ha a' ha' h
      exact merge_inj_aux [j] a a' (by rw [hauxl, ((mem_parts _ _ _).1 ha).1])
        (by rw [hauxl, ((mem_parts _ _ _).1 ha').1]) h
    · intro j _ x hx
      obtain ⟨a, _, rfl⟩ := List.mem_map.1 hx
      rw [restr_modes_merge hm _ [j] a rfl]
      simp
  · intro n _ x hx
    obtain ⟨j, _, hx⟩ := List.mem_flatMap.1 hx
    obtain ⟨a, ha, rfl⟩ := List.mem_map.1 hx
    rw [restr_aux_merge [j] a (by rw [hauxl, ((mem_parts _ _ _).1 ha).1])]
    exact ((mem_parts _ _ _).1 ha).2

theorem stateIndexMatrixList_perm (d cutoff mode : Nat) (hm : mode < d) :
    ((stateIndexMatrixList d cutoff mode).flatten.flatten).Perm (List.range (cutoffDim cutoff d)) := by
  rw [stateIndexMatrixList_flat]
  exact map_index_perm_range (by omega) _ (nodup_vecsS hm) (mem_vecsS hm)

/-! ### `projectionIndices` -/

theorem restr_eq_iff (modes v bv : List Nat) (hl : bv.length = modes.length) :
    restr modes v = bv ↔ ∀ j, j < modes.length → v.getD (modes.getD j 0) 0 = bv.getD j 0 := by
  constructor
  · rintro rfl j hj
    simp [restr, List.getD_eq_getElem?_getD, hj]
  · intro h
    apply List.ext_getElem (by simp [hl])
    intro j h1 h2
    have hj : j < modes.length := by simpa using h1
    have := h j hj
    simp only [List.getD_eq_getElem?_getD, List.getElem?_eq_getElem hj, List.getElem?_eq_getElem h2,
      Option.getD_some] at this
    simp [restr, List.getD_eq_getElem?_getD, this]

theorem projectionIndices_spec (d cutoff : Nat) (modes bv : List Nat) (hm : ValidModes d modes)
    (hl : bv.length = modes.length) (hs : bv.sum < cutoff) :
    (projectionIndices d cutoff modes bv).Nodup ∧
    ∀ i, i ∈ projectionIndices d cutoff modes bv ↔
      ∃ v, v.length = d ∧ v.sum < cutoff ∧ indexInFockSpace v = i ∧
        ∀ j, j < modes.length → v.getD (modes.getD j 0) 0 = bv.getD j 0 := by
  have hauxl := length_auxModes hm
  unfold projectionIndices
  simp only [basis'_eq_basis]
  constructor
  · refine List.Nodup.map_on ?_ (nodup_basis_all _ _)
    intro a ha a' ha' h
    rw [indexInFockSpace_eq_index, indexInFockSpace_eq_index] at h
    have h' := index_inj (by simp) h
    exact merge_inj_aux bv a a' (by rw [hauxl, ((mem_basis _ _ _).1 ha).1])
      (by rw [hauxl, ((mem_basis _ _ _).1 ha').1]) h'
  · intro i
    simp only [List.mem_map, mem_basis]
    constructor
    · rintro ⟨a, ⟨hal, has⟩, rfl⟩
      refine ⟨_, length_merge .., ?_, rfl, ?_⟩
      · rw [sum_merge hm bv a hl (by rw [hal, hauxl])]; omega
      · exact (restr_eq_iff modes _ bv hl).1 (restr_modes_merge hm _ bv a hl)
    · rintro ⟨v, hvl, hvs, rfl, hj⟩
      have hr := (restr_eq_iff modes v bv hl).2 hj
      have hsum := sum_eq_restr hm v hvl
      rw [hr] at hsum
      refine ⟨restr (auxModes d modes) v, ⟨by simp [hauxl], by omega⟩, ?_⟩
      have := merge_restr modes v hvl
      rw [hr] at this
      rw [this]

/-! ### label-level action -/

variable {K : Type} [CommRing K]

/-- occupation vector `v` with the entries on `modes` replaced by `s` -/
def withModes (v : List Nat) (modes s : List Nat) : List Nat :=
  (List.range v.length).map (fun m =>
    match modes.idxOf? m with
    | some i => s.getD i 0
    | none => v.getD m 0)

/-- amplitude of `v` after a number-conserving gate with `n`-particle blocks `T n` on `modes`:
`Σ_{s'} T_n[rank s, rank s'] ψ(v[modes := s'])` with `s = v|modes`, `n = Σ s`, the sum over the
`n`-particle vectors `s'` on the addressed modes in basis order -/
def applyLabelled (T : Nat → List (List K)) (modes : List Nat) (ψ : List Nat → K) (v : List Nat) : K :=
  let s := modes.map (fun m => v.getD m 0)
  let n := s.sum
  let row := (T n).getD (indexInFockSubspace s) []
  (((partitions modes.length n).zip row).map (fun (s', t) => t * ψ (withModes v modes s'))).sum

/-- the entry function of `withModes` -/
def withF (v modes s : List Nat) (m : Nat) : Nat :=
  if m ∈ modes then s.getD (modes.idxOf m) 0 else v.getD m 0

theorem withModes_eq (v modes s : List Nat) :
    withModes v modes s = (List.range v.length).map (withF v modes s) := by
  unfold withModes
  apply List.map_congr_left
  intro m _
  unfold withF
  rw [idxOf?_eq]
  by_cases h1 : m ∈ modes <;> simp [h1]

@[simp] theorem length_withModes (v modes s : List Nat) : (withModes v modes s).length = v.length := by
  simp [withModes]

theorem getD_withModes (v modes s : List Nat) {m : Nat} (h : m < v.length) :
    (withModes v modes s).getD m 0 = withF v modes s m := by
  rw [withModes_eq]; simp [List.getD_eq_getElem?_getD, h]

theorem applyLabelled_eq (T : Nat → List (List K)) (modes : List Nat) (ψ : List Nat → K)
    (v : List Nat) :
    applyLabelled T modes ψ v =
      (((partitions modes.length (restr modes v).sum).zip
        ((T (restr modes v).sum).getD (indexInFockSubspace (restr modes v)) [])).map
          (fun p => p.2 * ψ (withModes v modes p.1))).sum := rfl

theorem restr_withModes_disjoint {d : Nat} (m₁ m₂ : List Nat) (h₁ : ∀ m ∈ m₁, m < d)
    (hdisj : ∀ x ∈ m₁, x ∉ m₂) (v s : List Nat) (hv : v.length = d) :
    restr m₁ (withModes v m₂ s) = restr m₁ v := by
  unfold restr
  apply List.map_congr_left
  intro m hm
  rw [getD_withModes _ _ _ (by rw [hv]; exact h₁ m hm)]
  simp [withF, hdisj m hm]

theorem withModes_comm (m₁ m₂ : List Nat) (hdisj : ∀ x ∈ m₁, x ∉ m₂) (v s₁ s₂ : List Nat) :
    withModes (withModes v m₂ s₂) m₁ s₁ = withModes (withModes v m₁ s₁) m₂ s₂ := by
  rw [withModes_eq, withModes_eq (withModes v m₁ s₁)]
  simp only [length_withModes]
  apply List.map_congr_left
  intro m hm
  have hm' : m < v.length := List.mem_range.1 hm
  unfold withF
  rw [getD_withModes _ _ _ hm', getD_withModes _ _ _ hm']
  unfold withF
  by_cases h1 : m ∈ m₁
  · simp [h1, hdisj m h1]
  · simp [h1]

theorem sum_sum_swap {α β : Type} (L₁ : List α) (L₂ : List β) (a : α → K) (b : β → K)
    (g : α → β → K) :
    (L₂.map (fun x => b x * (L₁.map (fun y => a y * g y x)).sum)).sum =
      (L₁.map (fun y => a y * (L₂.map (fun x => b x * g y x)).sum)).sum := by
  induction L₂ with
  | nil => simp
  | cons x t ih =>
    simp only [List.map_cons, List.sum_cons, ih, mul_add, List.sum_map_add]
    congr 1
    rw [← List.sum_map_mul_left]
    congr 1
    apply List.map_congr_left
    intro y _
    ring

/-- **disjoint gates commute** (exactly, also in the truncated space, because both are number conserving) -/
theorem applyLabelled_comm (T₁ T₂ : Nat → List (List K)) (m₁ m₂ : List Nat) (d : Nat)
    (h₁ : ValidModes d m₁) (h₂ : ValidModes d m₂) (hdisj : ∀ x ∈ m₁, x ∉ m₂)
    (ψ : List Nat → K) (v : List Nat) (hv : v.length = d) :
    applyLabelled T₂ m₂ (applyLabelled T₁ m₁ ψ) v = applyLabelled T₁ m₁ (applyLabelled T₂ m₂ ψ) v := by
  have hdisj' : ∀ x ∈ m₂, x ∉ m₁ := fun x hx hx' => hdisj x hx' hx
  rw [applyLabelled_eq, applyLabelled_eq T₁ m₁ _ v]
  simp only [applyLabelled_eq]
  simp only [restr_withModes_disjoint m₁ m₂ h₁.2 hdisj v _ hv,
    restr_withModes_disjoint m₂ m₁ h₂.2 hdisj' v _ hv]
  rw [sum_sum_swap]
  simp only [withModes_comm m₁ m₂ hdisj]

/-- relabelling: mode `m` is renamed `p[m]` (`p` a permutation of `0 … d-1` as a list) -/
def relabel (p : List Nat) (v : List Nat) : List Nat :=
  (List.range v.length).map (fun j => v.getD (p.idxOf j) 0)

@[simp] theorem length_relabel (p v : List Nat) : (relabel p v).length = v.length := by
  simp [relabel]

theorem getD_relabel (p v : List Nat) {j : Nat} (h : j < v.length) :
    (relabel p v).getD j 0 = v.getD (p.idxOf j) 0 := by
  simp [relabel, List.getD_eq_getElem?_getD, h]

theorem idxOf_map_of_injOn (l : List Nat) (f : Nat → Nat) (x : Nat)
    (hinj : ∀ y ∈ l, f y = f x → y = x) : (l.map f).idxOf (f x) = l.idxOf x := by
  induction l with
  | nil => rfl
  | cons a t ih =>
    by_cases h : a = x
    · subst h; simp
    · have h' : f a ≠ f x := fun e => h (hinj a (by simp) e)
      rw [List.map_cons, List.idxOf_cons_ne _ h', List.idxOf_cons_ne _ h,
        ih (fun y hy => hinj y (by simp [hy]))]

theorem mem_map_of_injOn (l : List Nat) (f : Nat → Nat) (x : Nat)
    (hinj : ∀ y ∈ l, f y = f x → y = x) : f x ∈ l.map f ↔ x ∈ l := by
  constructor
  · intro h
    obtain ⟨y, hy, e⟩ := List.mem_map.1 h
    exact hinj y hy e ▸ hy
  · exact List.mem_map_of_mem

theorem idxOf_range {d i : Nat} (h : i < d) : (List.range d).idxOf i = i := by
  have := (List.nodup_range (n := d)).idxOf_getElem i (by simpa using h)
  simpa using this

section perm
variable {d : Nat} {p : List Nat} (hp : p.Perm (List.range d))
include hp

theorem perm_length : p.length = d := by simpa using hp.length_eq
theorem perm_mem {j : Nat} : j ∈ p ↔ j < d := by rw [hp.mem_iff]; simp
theorem perm_getD_lt {m : Nat} (h : m < d) : p.getD m 0 < d := by
  rw [← perm_mem hp]
  have h' : m < p.length := by rw [perm_length hp]; exact h
  simp [List.getD_eq_getElem?_getD, h']
theorem perm_idxOf_getD {m : Nat} (h : m < d) : p.idxOf (p.getD m 0) = m := by
  have h' : m < p.length := by rw [perm_length hp]; exact h
  have := (hp.nodup_iff.2 List.nodup_range).idxOf_getElem m h'
  simpa [List.getD_eq_getElem?_getD, h'] using this
theorem perm_getD_idxOf {j : Nat} (h : j < d) : p.getD (p.idxOf j) 0 = j := by
  have hj : j ∈ p := (perm_mem hp).2 h
  simp [List.getD_eq_getElem?_getD, hj]
theorem perm_getD_inj {a b : Nat} (ha : a < d) (hb : b < d) (h : p.getD a 0 = p.getD b 0) :
    a = b := by
  rw [← perm_idxOf_getD hp ha, h, perm_idxOf_getD hp hb]
theorem perm_inv_idxOf {j : Nat} (h : j < d) :
    ((List.range d).map (fun j => p.idxOf j)).idxOf j = p.getD j 0 := by
  have hPj := perm_getD_lt hp h
  have := idxOf_map_of_injOn (List.range d) (fun j => p.idxOf j) (p.getD j 0) (by
    intro y hy e
    have hy' : y ∈ p := (perm_mem hp).2 (List.mem_range.1 hy)
    exact (List.idxOf_inj hy').1 e)
  simp only [perm_idxOf_getD hp h] at this
  rw [this, idxOf_range hPj]

end perm

/-- **equivariance**: relabelling the modes of the gate and of the state relabels the result -/
theorem applyLabelled_equivariant (T : Nat → List (List K)) (modes : List Nat) (d : Nat)
    (p : List Nat) (hp : p.Perm (List.range d)) (hm : ValidModes d modes)
    (ψ : List Nat → K) (v : List Nat) (hv : v.length = d) :
    applyLabelled T (modes.map (fun m => p.getD m 0)) (fun w => ψ (relabel (List.range d |>.map (fun j => p.idxOf j)) w)) (relabel p v) =
      applyLabelled T modes ψ v := by
  have hr : restr (modes.map (fun m => p.getD m 0)) (relabel p v) = restr modes v := by
    unfold restr
    rw [List.map_map]
    apply List.map_congr_left
    intro m hmm
    have hmd := hm.2 m hmm
    simp only [Function.comp]
    rw [getD_relabel _ _ (by rw [hv]; exact perm_getD_lt hp hmd), perm_idxOf_getD hp hmd]
  have hw : ∀ s', relabel (List.range d |>.map (fun j => p.idxOf j))
      (withModes (relabel p v) (modes.map (fun m => p.getD m 0)) s') = withModes v modes s' := by
    intro s'
    rw [withModes_eq v, relabel]
    simp only [length_withModes, length_relabel]
    apply List.map_congr_left
    intro j hj
    have hjd : j < d := by rw [← hv]; exact List.mem_range.1 hj
    have hPj := perm_getD_lt hp hjd
    rw [perm_inv_idxOf hp hjd, getD_withModes _ _ _ (by simpa [hv] using hPj)]
    have hinj : ∀ y ∈ modes, p.getD y 0 = p.getD j 0 → y = j :=
      fun y hy e => perm_getD_inj hp (hm.2 y hy) hjd e
    unfold withF
    have h1 := mem_map_of_injOn modes (fun m => p.getD m 0) j hinj
    have h2 := idxOf_map_of_injOn modes (fun m => p.getD m 0) j hinj
    simp only [h1, h2]
    rw [getD_relabel _ _ (by simpa [hv] using hPj), perm_idxOf_getD hp hjd]
  rw [applyLabelled_eq, applyLabelled_eq, hr, List.length_map]
  simp only [hw]

/-! ### the index-based application -/

/-- blocks of the right shape: `T n` is square over the `n`-particle sector of `k` modes -/
def BlocksOK (T : Nat → List (List K)) (k cutoff : Nat) : Prop :=
  ∀ n, n < cutoff → (T n).length = (partitions k n).length ∧ ∀ r ∈ T n, r.length = (partitions k n).length

/-- the `(target, value)` writes of `applyIndexed`, with projections instead of patterns -/
def writesOf (T : Nat → List (List K)) (blocks : List (List (List Nat))) (state : List K) :
    List (Nat × K) :=
  (blocks.zipIdx).flatMap (fun bn => (bn.1.zipIdx).flatMap (fun ri => (ri.1.zipIdx).map (fun ti =>
    (ti.1, dot ((T bn.2).getD ri.2 []) (bn.1.map (fun r => state.getD (r.getD ti.2 0) 0))))))

theorem applyIndexed_eq (T : Nat → List (List K)) (modes : List Nat) (d cutoff : Nat)
    (state : List K) :
    applyIndexed T modes d cutoff state =
      (writesOf T (indexList modes d cutoff) state).foldl (fun st p => st.set p.1 p.2) state := rfl

theorem getD_foldl_set_of_notMem {α : Type} (z : α) (ws : List (Nat × α)) (t : Nat)
    (hn : t ∉ ws.map Prod.fst) (st : List α) :
    (ws.foldl (fun st p => st.set p.1 p.2) st).getD t z = st.getD t z := by
  induction ws generalizing st with
  | nil => rfl
  | cons w rest ih =>
    simp only [List.map_cons, List.mem_cons, not_or] at hn
    rw [List.foldl_cons, ih hn.2]
    simp only [List.getD_eq_getElem?_getD]
    rw [List.getElem?_set_ne (fun e => hn.1 e.symm)]

theorem getD_foldl_set_of_nodup {α : Type} (z : α) (ws : List (Nat × α))
    (hn : (ws.map Prod.fst).Nodup) (st : List α) (t : Nat) (x : α) (hmem : (t, x) ∈ ws)
    (ht : t < st.length) :
    (ws.foldl (fun st p => st.set p.1 p.2) st).getD t z = x := by
  induction ws generalizing st with
  | nil => simp at hmem
  | cons w rest ih =>
    rw [List.map_cons, List.nodup_cons] at hn
    rw [List.foldl_cons]
    rcases List.mem_cons.1 hmem with h | h
    · subst h
      rw [getD_foldl_set_of_notMem z rest _ hn.1]
      simp [List.getD_eq_getElem?_getD, ht]
    · exact ih hn.2 _ h (by simpa using ht)

theorem foldl_dot_eq (l : List (K × K)) (z : K) :
    l.foldl (fun acc p => acc + p.1 * p.2) z = z + (l.map (fun p => p.1 * p.2)).sum := by
  induction l generalizing z with
  | nil => simp
  | cons a t ih => rw [List.foldl_cons, ih]; simp [add_assoc]

theorem dot_eq_sum (r col : List K) : dot r col = ((r.zip col).map (fun p => p.1 * p.2)).sum := by
  have := foldl_dot_eq (r.zip col) 0
  rw [zero_add] at this
  exact this

theorem sum_zip_map_swap {α : Type} (l : List α) (r : List K) (g : α → K) :
    ((r.zip (l.map g)).map (fun p => p.1 * p.2)).sum = ((l.zip r).map (fun p => p.2 * g p.1)).sum := by
  induction l generalizing r with
  | nil => simp
  | cons a t ih =>
    cases r with
    | nil => simp
    | cons b r => simp [ih]

theorem flatMap_zipIdx_fst {α β : Type} (l : List α) (f : α → List β) :
    (l.zipIdx).flatMap (fun x => f x.1) = l.flatMap f := by
  conv_rhs => rw [← List.zipIdx_map_fst 0 l, List.flatMap_map]

theorem map_fst_writesOf (T : Nat → List (List K)) (blocks : List (List (List Nat)))
    (state : List K) : (writesOf T blocks state).map Prod.fst = blocks.flatten.flatten := by
  unfold writesOf
  simp only [List.map_flatMap, List.map_map, Function.comp_def]
  have h1 : ∀ ri : List Nat × Nat, (ri.1.zipIdx).map (fun ti => ti.1) = ri.1 :=
    fun ri => List.zipIdx_map_fst 0 ri.1
  simp only [h1]
  simp only [flatMap_zipIdx_fst _ (fun r : List Nat => r)]
  rw [flatMap_zipIdx_fst blocks (fun b => b.flatMap (fun r => r))]
  induction blocks with
  | nil => rfl
  | cons b t ih =>
    rw [List.flatMap_cons, ih, List.flatten_cons, List.flatten_append]
    congr 1
    rw [List.flatMap_def, List.map_id']

theorem merge_eq_withModes {d : Nat} (modes : List Nat) (v s' : List Nat) (hv : v.length = d) :
    merge d modes (auxModes d modes) s' (restr (auxModes d modes) v) = withModes v modes s' := by
  rw [merge_eq, withModes_eq, hv]
  apply List.map_congr_left
  intro m hm
  have hmd : m < d := List.mem_range.1 hm
  unfold mergeF withF
  by_cases h1 : m ∈ modes
  · simp [h1]
  · have hma : m ∈ auxModes d modes := mem_auxModes.2 ⟨hmd, h1⟩
    have hlt := List.idxOf_lt_length_of_mem hma
    simp [h1, hma, restr, List.getD_eq_getElem?_getD, hlt]

theorem parts_getElem?_subindex (k n : Nat) (s : List Nat) (hs : s ∈ parts (k + 1) n) :
    (parts (k + 1) n)[indexInFockSubspace s]? = some s := by
  obtain ⟨i, hi⟩ := List.getElem?_of_mem hs
  have h1 : ((parts (k + 1) n).map index)[i]? = some (index s) := by
    rw [List.getElem?_map, hi]; rfl
  rw [map_index_parts] at h1
  obtain ⟨hl, hsum⟩ := (mem_parts _ _ _).1 hs
  match s, hl, hsum with
  | s0 :: r, hl, hsum =>
    rw [indexInFockSubspace_cons]
    simp only [List.length_cons, Nat.add_right_cancel_iff] at hl
    simp only [List.sum_cons] at hsum
    have hi' : i < Nat.choose (n + k) k := by
      by_contra hc
      rw [List.getElem?_eq_none (by simpa using Nat.le_of_not_lt hc)] at h1
      cases h1
    rw [List.getElem?_range' hi'] at h1
    have h2 := Option.some.inj h1
    simp only [index, hl, hsum] at h2
    have : index r = i := by omega
    rw [this]; exact hi

theorem mem_writesOf (T : Nat → List (List K)) (modes : List Nat) (d cutoff : Nat)
    (hm : ValidModes d modes) (hk : modes ≠ []) (state : List K)
    (v : List Nat) (hv : v.length = d) (hs : v.sum < cutoff) :
    (indexInFockSpace v,
      dot ((T (restr modes v).sum).getD (indexInFockSubspace (restr modes v)) [])
        ((parts modes.length (restr modes v).sum).map (fun s' =>
          state.getD (indexInFockSpace
            (merge d modes (auxModes d modes) s' (restr (auxModes d modes) v))) 0))) ∈
      writesOf T (indexList modes d cutoff) state := by
  obtain ⟨k, hk'⟩ : ∃ k, modes.length = k + 1 :=
    ⟨modes.length - 1, by have := List.length_pos_iff.2 hk; omega⟩
  have hsum := sum_eq_restr hm v hv
  set s := restr modes v with hsdef
  set a := restr (auxModes d modes) v with hadef
  set n := s.sum with hndef
  have hn : n < cutoff := by omega
  have hsp : s ∈ parts modes.length n := (mem_parts _ _ _).2 ⟨by simp [hsdef], rfl⟩
  have hab : a ∈ basis (d - modes.length) (cutoff - n) :=
    (mem_basis _ _ _).2 ⟨by simp [hadef, length_auxModes hm], by omega⟩
  obtain ⟨i1, hi1⟩ := List.getElem?_of_mem hab
  have hi2 : (parts modes.length n)[indexInFockSubspace s]? = some s := by
    rw [hk'] at hsp ⊢
    exact parts_getElem?_subindex k n s hsp
  rw [indexList_eq _ _ _ hk]
  unfold writesOf
  refine List.mem_flatMap.2 ⟨((parts modes.length n).map (fun s => (basis (d - modes.length) (cutoff - n)).map (fun a =>
        indexInFockSpace (merge d modes (auxModes d modes) s a))), n), ?_, ?_⟩
  · rw [List.mem_zipIdx_iff_getElem?]
    simp [hn]
  refine List.mem_flatMap.2 ⟨((basis (d - modes.length) (cutoff - n)).map (fun a =>
        indexInFockSpace (merge d modes (auxModes d modes) s a)), indexInFockSubspace s), ?_, ?_⟩
  · rw [List.mem_zipIdx_iff_getElem?]
    simp only [List.getElem?_map, hi2, Option.map_some]
  refine List.mem_map.2 ⟨(indexInFockSpace (merge d modes (auxModes d modes) s a), i1), ?_, ?_⟩
  · rw [List.mem_zipIdx_iff_getElem?]
    simp only [List.getElem?_map, hi1, Option.map_some]
  · refine Prod.ext ?_ ?_
    · simp only [hsdef, hadef, merge_restr modes v hv]
    · simp only [List.map_map]
      congr 1
      apply List.map_congr_left
      intro s' _
      simp only [Function.comp, List.getD_eq_getElem?_getD, List.getElem?_map, hi1, Option.map_some,
        Option.getD_some]

theorem index_lt_cutoffDim {d cutoff : Nat} (hd : 0 < d) (v : List Nat) (hv : v.length = d)
    (hs : v.sum < cutoff) : indexInFockSpace v < cutoffDim cutoff d := by
  obtain ⟨d', rfl⟩ : ∃ d', d = d' + 1 := ⟨d - 1, by omega⟩
  have h : indexInFockSpace v ∈ (fockBasis (d' + 1) cutoff).map indexInFockSpace :=
    List.mem_map_of_mem ((Pq.C06.mem_fockBasis _ _ _).2 ⟨hv, hs⟩)
  rw [Pq.C06.map_index_fockBasis] at h
  exact List.mem_range.1 h

/-- **the index-based application of the code is the label-level action** -/
theorem applyIndexed_eq_labelled (T : Nat → List (List K)) (modes : List Nat) (d cutoff : Nat)
    (hm : ValidModes d modes) (hk : modes ≠ []) (hT : BlocksOK T modes.length cutoff)
    (state : List K) (hlen : state.length = cutoffDim cutoff d)
    (v : List Nat) (hv : v.length = d) (hs : v.sum < cutoff) :
    (applyIndexed T modes d cutoff state).getD (indexInFockSpace v) 0 =
      applyLabelled T modes (fun w => state.getD (indexInFockSpace w) 0) v := by
  have _ := hT
  have hnd : ((writesOf T (indexList modes d cutoff) state).map Prod.fst).Nodup := by
    rw [map_fst_writesOf]
    exact (indexList_perm modes d cutoff hm hk).nodup_iff.2 List.nodup_range
  rw [applyIndexed_eq, getD_foldl_set_of_nodup 0 _ hnd state _ _
    (mem_writesOf T modes d cutoff hm hk state v hv hs)
    (by rw [hlen]; exact index_lt_cutoffDim (pos_of_valid hm hk) v hv hs)]
  obtain ⟨k, hk'⟩ : ∃ k, modes.length = k + 1 :=
    ⟨modes.length - 1, by have := List.length_pos_iff.2 hk; omega⟩
  rw [applyLabelled_eq, dot_eq_sum, sum_zip_map_swap, hk', partitions_eq_parts]
  congr 1
  apply List.map_congr_left
  intro p _
  rw [merge_eq_withModes modes v p.1 hv]

end Pq.Index
