import Mathlib.Tactic
import PqVerif.Model.DualRailEnc

/-!
C19 (structure of the translation): auxiliary modes are fresh, single-qubit gates stay on the rails of their
qubit, and the condition attached to the instructions of an `if_test` block evaluates, on the outcome tuple of
the photonic program, to the truth value the qubit circuit assigns to the same condition.
-/
namespace Pq.DualRailEnc
open Pq.Gen.DualRailShapes

/-- value of the classical bits after the measurements of `pre` produced the record `rec`
(`rec[k]` = result of the `k`-th measurement; bits start at 0): the Qiskit semantics -/
def runClassical (pre : List QOp) (rec : List Nat) : Nat → Nat :=
  (pre.foldl (fun (st : (Nat → Nat) × List Nat) op =>
    match op, st.2 with
    | .measure _ c, r :: rest => (fun c' => if c' = c then r else st.1 c', rest)
    | _, _ => st) (fun _ => 0, rec)).1

def nMeasures (ops : List QOp) : Nat := ops.countP (fun | .measure _ _ => true | _ => false)

/-- the photonic outcome tuple of a record: `0 ↦ (1,0)`, `1 ↦ (0,1)` -/
def encodeRecord (rec : List Nat) : List Nat := rec.flatMap (fun b => if b = 0 then [1, 0] else [0, 1])

theorem nMeasured_gen (n : Nat) (pre : List QOp) :
    ∀ s : St, (pre.foldl (stepOp n) s).nMeasured = s.nMeasured + nMeasures pre := by
  induction pre with
  | nil => intro s; simp [nMeasures]
  | cons op pre ih =>
    intro s
    rw [List.foldl_cons, ih]
    cases op <;> simp [stepOp, nMeasures]
    omega

theorem nMeasured_spec (n : Nat) (pre : List QOp) :
    (pre.foldl (stepOp n) {}).nMeasured = nMeasures pre := by
  rw [nMeasured_gen]; simp

theorem czIdx_gen (n : Nat) (pre : List QOp) :
    ∀ s : St, (pre.foldl (stepOp n) s).czIdx = s.czIdx + pre.countP isTwo := by
  induction pre with
  | nil => intro s; simp
  | cons op pre ih =>
    intro s
    rw [List.foldl_cons, ih]
    cases op <;> simp [stepOp, isTwo, List.countP_cons]
    omega

theorem czIdx_spec (n : Nat) (pre : List QOp) :
    (pre.foldl (stepOp n) {}).czIdx = pre.countP isTwo := by
  rw [czIdx_gen]; simp

/-- one step of the classical-register fold of `runClassical` -/
def cstep (st : (Nat → Nat) × List Nat) (op : QOp) : (Nat → Nat) × List Nat :=
  match op, st.2 with
  | .measure _ c, r :: rest => (fun c' => if c' = c then r else st.1 c', rest)
  | _, _ => st

theorem runClassical_eq (pre : List QOp) (rec : List Nat) :
    runClassical pre rec = (pre.foldl cstep (fun _ => 0, rec)).1 := rfl

/-- invariant: every written classical bit points at the (even) outcome position of a consumed record entry
holding its current value; unwritten bits are 0 -/
def Inv (s : St) (bits : Nat → Nat) (done : List Nat) : Prop :=
  s.nMeasured = done.length ∧
  ∀ c, match lookupBit s.written c with
    | none => bits c = 0
    | some p => ∃ i, p = 2 * i ∧ done[i]? = some (bits c)

theorem inv_fold (n : Nat) (pre : List QOp) :
    ∀ (s : St) (bits : Nat → Nat) (done rem : List Nat), Inv s bits done → rem.length = nMeasures pre →
      Inv (pre.foldl (stepOp n) s) (pre.foldl cstep (bits, rem)).1 (done ++ rem) := by
  induction pre with
  | nil =>
    intro s bits done rem h hl
    simp [nMeasures] at hl
    subst hl
    simpa using h
  | cons op pre ih =>
    intro s bits done rem h hl
    rw [List.foldl_cons, List.foldl_cons]
    cases op with
    | g1 name q =>
      have : cstep (bits, rem) (.g1 name q) = (bits, rem) := rfl
      rw [this]
      apply ih
      · exact h
      · simpa [nMeasures, List.countP_cons] using hl
    | g2 name a b =>
      have : cstep (bits, rem) (.g2 name a b) = (bits, rem) := rfl
      rw [this]
      apply ih
      · exact h
      · simpa [nMeasures, List.countP_cons] using hl
    | ifElse c val qs body els =>
      have : cstep (bits, rem) (.ifElse c val qs body els) = (bits, rem) := rfl
      rw [this]
      apply ih
      · exact h
      · simpa [nMeasures, List.countP_cons] using hl
    | measure q c =>
      cases rem with
      | nil => simp [nMeasures] at hl
      | cons r rest =>
        have : cstep (bits, r :: rest) (.measure q c) = (fun c' => if c' = c then r else bits c', rest) := rfl
        rw [this]
        have hh : done ++ r :: rest = (done ++ [r]) ++ rest := by simp
        rw [hh]
        apply ih
        · obtain ⟨h1, h2⟩ := h
          refine ⟨by simp [stepOp, h1], ?_⟩
          intro c'
          by_cases hc : c' = c
          · subst hc
            simp only [stepOp, lookupBit, List.lookup_cons, beq_self_eq_true, if_true]
            exact ⟨done.length, by rw [h1], by simp⟩
          · have h2' := h2 c'
            have hne : (c' == c) = false := by simpa using hc
            simp only [stepOp, lookupBit, List.lookup_cons, hne, if_neg hc] at h2' ⊢
            cases hl' : List.lookup c' s.written with
            | none => simpa [hl'] using h2'
            | some p =>
              rw [hl'] at h2'
              obtain ⟨i, hi, hd⟩ := h2'
              refine ⟨i, hi, ?_⟩
              have : i < done.length := by
                rcases Nat.lt_or_ge i done.length with h | h
                · exact h
                · simp [List.getElem?_eq_none h] at hd
              rw [List.getElem?_append_left this]; exact hd
        · simpa [nMeasures, List.countP_cons] using hl

theorem encodeRecord_cons (b : Nat) (rec : List Nat) :
    encodeRecord (b :: rec) = (if b = 0 then [1, 0] else [0, 1]) ++ encodeRecord rec := by
  simp [encodeRecord]

theorem encodeRecord_get (rec : List Nat) :
    ∀ (i b : Nat), rec[i]? = some b →
      (encodeRecord rec)[2 * i]? = some (if b = 0 then 1 else 0) ∧
      (encodeRecord rec)[2 * i + 1]? = some (if b = 0 then 0 else 1) := by
  induction rec with
  | nil => intro i b h; simp at h
  | cons a rec ih =>
    intro i b h
    rw [encodeRecord_cons]
    cases i with
    | zero =>
      simp at h
      subst h
      by_cases hb : a = 0 <;> simp [hb]
    | succ i =>
      simp at h
      obtain ⟨h1, h2⟩ := ih i b h
      have e1 : 2 * (i + 1) = 2 * i + 2 := by ring
      have e2 : 2 * i + 2 + 1 = 2 * i + 1 + 2 := by ring
      rw [e1, e2]
      by_cases ha : a = 0 <;> simp [ha, h1, h2]

/-- the condition the encoder attaches to an `if_test` block after the prefix `pre` evaluates, on the
outcome tuple of any record of the measurements of `pre`, to the qubit circuit's condition
`clbit c == val` (negated for the else-branch) -/
theorem condition_reads_clbit (n : Nat) (pre : List QOp) (c val : Nat) (neg : Bool) (rec : List Nat)
    (hlen : rec.length = nMeasures pre) (hbits : ∀ b ∈ rec, b ≤ 1) :
    (Cond.mk (lookupBit (pre.foldl (stepOp n) {}).written c) val neg).eval (encodeRecord rec) =
      some ((runClassical pre rec c == val) != neg) := by
  have hinv := inv_fold n pre {} (fun _ => 0) [] rec ⟨rfl, fun c => by simp [lookupBit]⟩ hlen
  rw [← runClassical_eq] at hinv
  obtain ⟨_, h2⟩ := hinv
  have h2 := h2 c
  cases hl : lookupBit (List.foldl (stepOp n) {} pre).written c with
  | none =>
    rw [hl] at h2
    simp only at h2
    simp [Cond.eval, h2]
  | some p =>
    rw [hl] at h2
    obtain ⟨i, hi, hd⟩ := h2
    simp only [List.nil_append] at hd
    obtain ⟨g1, g2⟩ := encodeRecord_get rec i _ hd
    have hb : runClassical pre rec c ≤ 1 := hbits _ (List.mem_of_getElem? hd)
    subst hi
    simp only [Cond.eval, g1, g2]
    rcases Nat.le_one_iff_eq_zero_or_eq_one.mp hb with h | h <;> simp [h]

/-- every instruction emitted for an `if_test` block carries exactly that condition, and sits on the rails
of the qubit the block's gate acts on -/
theorem ifElse_emits (n : Nat) (s : St) (c val : Nat) (qs : List Nat) (body els : List (String × Nat)) :
    (stepOp n s (.ifElse c val qs body els)).out = s.out ++
      body.flatMap (fun (name, k) => emit name [2 * qs.getD k 0, 2 * qs.getD k 0 + 1] (some ⟨lookupBit s.written c, val, false⟩)) ++
      els.flatMap (fun (name, k) => emit name [2 * qs.getD k 0, 2 * qs.getD k 0 + 1] (some ⟨lookupBit s.written c, val, true⟩)) := by
  rfl

/-- single-qubit gates of the generated table only touch local modes 0 and 1 -/
theorem shapes_one_qubit_local :
    ∀ name ∈ ["h", "x", "y", "z", "rx", "ry", "rz", "u", "p", "measure"],
      ∀ p ∈ shapeOf name, ∀ i ∈ p.2, i < 2 := by
  decide

theorem shapes_two_qubit_local :
    (∀ p ∈ shapeOf "cz", ∀ i ∈ p.2, i < 4) ∧ (∀ p ∈ shapeOf "cx", ∀ i ∈ p.2, i < 6) := by
  decide

/-- a single-qubit gate on qubit `q` only touches modes `2q`, `2q+1` -/
theorem g1_local (name : String) (q : Nat) (cond : Option Cond)
    (hname : name ∈ ["h", "x", "y", "z", "rx", "ry", "rz", "u", "p", "measure"]) :
    ∀ p ∈ emit name [2 * q, 2 * q + 1] cond, ∀ m ∈ p.modes, m = 2 * q ∨ m = 2 * q + 1 := by
  intro p hp m hm
  simp only [emit, List.mem_map] at hp
  obtain ⟨⟨prim, loc⟩, hmem, rfl⟩ := hp
  simp only [List.mem_map] at hm
  obtain ⟨i, hi, rfl⟩ := hm
  have := shapes_one_qubit_local name hname _ hmem i hi
  interval_cases i <;> simp

theorem emit_modes_mem (name : String) (modes : List Nat) (cond : Option Cond) (N : Nat)
    (hN : ∀ p ∈ shapeOf name, ∀ i ∈ p.2, i < N) :
    ∀ p ∈ emit name modes cond, ∀ m ∈ p.modes, ∃ i < N, m = modes.getD i 0 := by
  intro p hp m hm
  simp only [emit, List.mem_map] at hp
  obtain ⟨⟨prim, loc⟩, hmem, rfl⟩ := hp
  simp only [List.mem_map] at hm
  obtain ⟨i, hi, rfl⟩ := hm
  exact ⟨i, hN _ hmem i hi, rfl⟩

/-- the `k`-th two-qubit gate (`k` = number of two-qubit gates before it) touches only the rails of its two
qubits and its own fresh auxiliary modes `2n+2k`, `2n+2k+1` -/
theorem g2_modes (n : Nat) (pre : List QOp) (name : String) (a b : Nat) (hname : name = "cz" ∨ name = "cx") :
    let s := pre.foldl (stepOp n) {}
    let k := pre.countP isTwo
    ∃ emitted, (stepOp n s (.g2 name a b)).out = s.out ++ emitted ∧
      ∀ p ∈ emitted, ∀ m ∈ p.modes,
        m = 2 * a ∨ m = 2 * a + 1 ∨ m = 2 * b ∨ m = 2 * b + 1 ∨ m = 2 * n + 2 * k ∨ m = 2 * n + 2 * k + 1 := by
  intro s k
  refine ⟨_, rfl, ?_⟩
  have hk : s.czIdx = k := czIdx_spec n pre
  rw [hk]
  intro p hp m hm
  rcases hname with rfl | rfl
  · obtain ⟨i, hi, rfl⟩ := emit_modes_mem _ _ _ 4 shapes_two_qubit_local.1 p hp m hm
    interval_cases i <;> simp
  · obtain ⟨i, hi, rfl⟩ := emit_modes_mem _ _ _ 6 shapes_two_qubit_local.2 p hp m hm
    interval_cases i <;> simp

/-- auxiliary modes of different two-qubit gates are different and lie above the data modes -/
theorem aux_fresh (n k k' : Nat) (h : k ≠ k') :
    2 * n ≤ 2 * n + 2 * k ∧ 2 * n + 2 * k ≠ 2 * n + 2 * k' ∧ 2 * n + 2 * k ≠ 2 * n + 2 * k' + 1 ∧
      2 * n + 2 * k + 1 ≠ 2 * n + 2 * k' := by
  omega

end Pq.DualRailEnc
