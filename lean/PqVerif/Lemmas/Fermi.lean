import PqVerif.Lemmas.Comb

/-!
Fermionic basis / index of `piquasso/fermionic/_utils.py` (models in `Model/Comb.lean`).
-/
namespace Pq.Comb
open List

/-- specification: strictly increasing `k`-subsets of `{lo, …, d-1}` in lexicographic order -/
def subsetsFrom : Nat → Nat → Nat → List (List Nat)
  | _, _, 0 => [[]]
  | 0, _, _ + 1 => []
  | fuel + 1, lo, k + 1 =>
      (subsetsFrom fuel (lo + 1) k).map (lo :: ·) ++ subsetsFrom fuel (lo + 1) (k + 1)

/-- all `k`-subsets of `{0, …, d-1}` as increasing lists, lexicographic order -/
def subsets (d k : Nat) : List (List Nat) := subsetsFrom d 0 k

/-- the specification basis: sectors by particle number, each in lexicographic first-quantised order -/
def fermiBasisSpec (d cutoff : Nat) : List (List Nat) :=
  (List.range cutoff).flatMap (fun k => (subsets d k).map (fun fq => toSecond fq d))

theorem fermiBasis_eq_spec (d cutoff : Nat) (h : cutoff ≤ d + 1) :
    fermiBasis d cutoff = fermiBasisSpec d cutoff := by
  sorry

/-- the index function inverts the enumeration -/
theorem fermi_map_index_basis (d cutoff : Nat) (h : cutoff ≤ d + 1) :
    (fermiBasis d cutoff).map fermiIndex = (List.range (fermiCutoffDim d cutoff)).map Int.ofNat := by
  sorry

end Pq.Comb
