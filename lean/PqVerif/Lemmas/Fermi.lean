import PqVerif.Lemmas.Comb

/-!
Fermionic basis / index of `piquasso/fermionic/_utils.py` (models in `Model/Comb.lean`).

* `fermiBasis_eq_spec`: iterating `next_second_quantized` from the vacuum enumerates, for each
  particle number `k < cutoff` in increasing order, all `k`-subsets of `{0..d-1}` in
  lexicographic order (`subsets d k`, characterised by `mem_subsets` and
  `pairwise_lex_subsets`), written as occupation vectors.
* `fermi_map_index_basis`: `get_fock_space_index` of the `j`-th basis vector is `j`.
-/

namespace Pq.Comb
open List

/-- specification: strictly increasing `k`-subsets of `{lo, …, d-1}` in lexicographic order -/
def subsetsFrom : Nat → Nat → Nat → List (List Nat)
  | _, _, 0 => [[]]
  | 0, _, _ + 1 => []
  | fuel + 1, lo, k + 1 =>
      (subsetsFrom fuel (lo + 1) k).map (lo :: ·) ++ subsetsFrom fuel (lo + 1) (k + 1)

/-- all `k`-subsets of `{0, …, d-1}` as increasing lists, lexicographic order -/
def subsets (d k : Nat) : List (List Nat) := subsetsFrom d 0 k

/-- the specification basis: sectors by particle number, each in lexicographic first-quantised order -/
def fermiBasisSpec (d cutoff : Nat) : List (List Nat) :=
  (List.range cutoff).flatMap (fun k => (subsets d k).map (fun fq => toSecond fq d))

/-! ### the scan of `next_first_quantized` -/

/-- the test of the `next_first_quantized` scan at offset `i` -/
def nfqCond (fq : List Nat) (d i : Nat) : Prop :=
  fq.getD (fq.length - i - 1) 0 + i + 1 < d

instance (fq : List Nat) (d i : Nat) : Decidable (nfqCond fq d i) := by
  unfold nfqCond; infer_instance

theorem nfqScan_succ (fq : List Nat) (d fuel i : Nat) :
    nfqScan fq d (fuel + 1) i = if nfqCond fq d i then some i else nfqScan fq d fuel (i + 1) := rfl

theorem nfqScan_eq_some (fq : List Nat) (d : Nat) : ∀ (fuel i0 i : Nat),
    (∀ j, i0 ≤ j → j < i → ¬ nfqCond fq d j) → nfqCond fq d i → i0 ≤ i → i < i0 + fuel →
    nfqScan fq d fuel i0 = some i
  | 0, i0, i, _, _, h1, h2 => by omega
  | fuel + 1, i0, i, hlt, hc, h1, h2 => by
    rw [nfqScan_succ]
    by_cases hi : i0 = i
    · subst hi; rw [if_pos hc]
    · rw [if_neg (hlt i0 (le_refl _) (by omega))]
      exact nfqScan_eq_some fq d fuel (i0 + 1) i (fun j hj hji => hlt j (by omega) hji) hc
        (by omega) (by omega)

theorem nfqScan_eq_none (fq : List Nat) (d : Nat) : ∀ (fuel i0 : Nat),
    (∀ j, i0 ≤ j → j < i0 + fuel → ¬ nfqCond fq d j) → nfqScan fq d fuel i0 = none
  | 0, _, _ => rfl
  | fuel + 1, i0, h => by
    rw [nfqScan_succ, if_neg (h i0 (le_refl _) (by omega))]
    exact nfqScan_eq_none fq d fuel (i0 + 1) (fun j hj hj' => h j (by omega) (by omega))

theorem nfqScan_some_spec (fq : List Nat) (d : Nat) : ∀ (fuel i0 i : Nat),
    nfqScan fq d fuel i0 = some i →
    i0 ≤ i ∧ i < i0 + fuel ∧ nfqCond fq d i ∧ ∀ j, i0 ≤ j → j < i → ¬ nfqCond fq d j
  | 0, _, _, h => by simp [nfqScan] at h
  | fuel + 1, i0, i, h => by
    rw [nfqScan_succ] at h
    by_cases hc : nfqCond fq d i0
    · rw [if_pos hc] at h
      obtain rfl : i0 = i := by simpa using h
      exact ⟨le_refl _, by omega, hc, fun j h1 h2 => by omega⟩
    · rw [if_neg hc] at h
      obtain ⟨h1, h2, h3, h4⟩ := nfqScan_some_spec fq d fuel (i0 + 1) i h
      refine ⟨by omega, by omega, h3, fun j hj hji => ?_⟩
      by_cases hj0 : j = i0
      · subst hj0; exact hc
      · exact h4 j (by omega) hji

theorem nfqCond_cons (x : Nat) (a : List Nat) (d j : Nat) (hj : j < a.length) :
    nfqCond (x :: a) d j ↔ nfqCond a d j := by
  unfold nfqCond
  have : (x :: a).length - j - 1 = (a.length - j - 1) + 1 := by simp; omega
  rw [this, List.getD_cons_succ]

theorem nextFirst_of_some {fq : List Nat} {d i : Nat} (h : nfqScan fq d fq.length 0 = some i) :
    nextFirst fq d = fq.take (fq.length - i - 1) ++
      (List.range (i + 1)).map (fun t => fq.getD (fq.length - i - 1) 0 + 1 + t) := by
  simp only [nextFirst, h]

theorem nextFirst_of_none {fq : List Nat} {d : Nat} (h : nfqScan fq d fq.length 0 = none) :
    nextFirst fq d = List.range (fq.length + 1) := by
  simp only [nextFirst, h]

/-- `nextFirst` commutes with consing in front as long as the particle number is kept -/
theorem nextFirst_cons (x : Nat) (a : List Nat) (d : Nat)
    (h : (nextFirst a d).length = a.length) : nextFirst (x :: a) d = x :: nextFirst a d := by
  cases hs : nfqScan a d a.length 0 with
  | none => rw [nextFirst_of_none hs] at h; simp at h
  | some i =>
    obtain ⟨_, hi, hc, hlt⟩ := nfqScan_some_spec a d _ _ _ hs
    have hi' : i < a.length := by omega
    have hs' : nfqScan (x :: a) d (x :: a).length 0 = some i := by
      apply nfqScan_eq_some
      · intro j _ hji; rw [nfqCond_cons x a d j (by omega)]; exact hlt j (by omega) hji
      · rw [nfqCond_cons x a d i hi']; exact hc
      · omega
      · simp; omega
    rw [nextFirst_of_some hs, nextFirst_of_some hs']
    have : (x :: a).length - i - 1 = (a.length - i - 1) + 1 := by simp; omega
    rw [this, List.getD_cons_succ, List.take_succ_cons, List.cons_append]

theorem getD_range' (s n i : Nat) (h : i < n) : (List.range' s n).getD i 0 = s + i := by
  rw [List.getD_eq_getElem?_getD, List.getElem?_range' h]; simp

/-- the last `j`-subset is followed by the first `(j+1)`-subset -/
theorem nextFirst_last (d j : Nat) (hj : j ≤ d) :
    nextFirst (List.range' (d - j) j) d = List.range (j + 1) := by
  have : nfqScan (List.range' (d - j) j) d (List.range' (d - j) j).length 0 = none := by
    apply nfqScan_eq_none
    intro i _ hi
    simp only [List.length_range', Nat.zero_add] at hi
    unfold nfqCond
    rw [List.length_range', getD_range' _ _ _ (by omega)]
    omega
  rw [nextFirst_of_none this, List.length_range']

theorem nextFirst_cons_last (x d j : Nat) (hj : x + j + 1 < d) :
    nextFirst (x :: List.range' (d - j) j) d = List.range' (x + 1) (j + 1) := by
  have hl : (x :: List.range' (d - j) j).length = j + 1 := by simp
  have : nfqScan (x :: List.range' (d - j) j) d (x :: List.range' (d - j) j).length 0 = some j := by
    apply nfqScan_eq_some
    · intro i _ hi
      unfold nfqCond
      rw [hl, show j + 1 - i - 1 = (j - i - 1) + 1 by omega, List.getD_cons_succ,
        getD_range' _ _ _ (by omega)]
      omega
    · unfold nfqCond
      rw [hl, show j + 1 - j - 1 = 0 by omega]
      simpa using hj
    · omega
    · rw [hl]; omega
  rw [nextFirst_of_some this, hl, show j + 1 - j - 1 = 0 by omega]
  simp [List.range'_eq_map_range]

/-! ### the specification list `subsetsFrom` -/

theorem subsetsFrom_zero (fuel lo : Nat) : subsetsFrom fuel lo 0 = [[]] := by
  cases fuel <;> rfl

theorem subsetsFrom_succ (fuel lo k : Nat) : subsetsFrom (fuel + 1) lo (k + 1) =
    (subsetsFrom fuel (lo + 1) k).map (lo :: ·) ++ subsetsFrom fuel (lo + 1) (k + 1) := rfl

/-- characterisation of the members: increasing `k`-lists with entries in `[lo, lo + fuel)` -/
theorem mem_subsetsFrom : ∀ (fuel lo k : Nat) (fq : List Nat),
    fq ∈ subsetsFrom fuel lo k ↔
      fq.length = k ∧ fq.Pairwise (· < ·) ∧ ∀ x ∈ fq, lo ≤ x ∧ x < lo + fuel
  | fuel, lo, 0, fq => by
    rw [subsetsFrom_zero, List.mem_singleton]
    constructor
    · rintro rfl; simp
    · rintro ⟨h, _⟩; exact List.length_eq_zero_iff.1 h
  | 0, lo, k + 1, fq => by
    simp only [subsetsFrom, List.not_mem_nil, false_iff]
    rintro ⟨hl, _, hb⟩
    match fq, hl with
    | x :: r, _ => have := hb x (by simp); omega
  | fuel + 1, lo, k + 1, fq => by
    rw [subsetsFrom_succ, List.mem_append, List.mem_map]
    constructor
    · rintro (⟨r, hr, rfl⟩ | h)
      · obtain ⟨h1, h2, h3⟩ := (mem_subsetsFrom fuel (lo + 1) k r).1 hr
        refine ⟨by simp [h1], List.pairwise_cons.2 ⟨fun y hy => ?_, h2⟩, ?_⟩
        · have := h3 y hy; omega
        · intro y hy
          rcases List.mem_cons.1 hy with rfl | hy
          · omega
          · have := h3 y hy; omega
      · obtain ⟨h1, h2, h3⟩ := (mem_subsetsFrom fuel (lo + 1) (k + 1) fq).1 h
        exact ⟨h1, h2, fun y hy => by have := h3 y hy; omega⟩
    · rintro ⟨hl, hp, hb⟩
      match fq, hl with
      | x :: r, hl =>
        have hxr := (List.pairwise_cons.1 hp).1
        have hr := (List.pairwise_cons.1 hp).2
        have hx := hb x (by simp)
        by_cases hxlo : x = lo
        · subst hxlo
          left
          refine ⟨r, (mem_subsetsFrom fuel (x + 1) k r).2 ⟨by simpa using hl, hr, fun y hy => ?_⟩, rfl⟩
          have := hxr y hy
          have := hb y (by simp [hy])
          omega
        · right
          refine (mem_subsetsFrom fuel (lo + 1) (k + 1) (x :: r)).2 ⟨hl, hp, fun y hy => ?_⟩
          have := hb y hy
          rcases List.mem_cons.1 hy with rfl | hy'
          · omega
          · have := hxr y hy'; omega

theorem mem_subsets (d k : Nat) (fq : List Nat) :
    fq ∈ subsets d k ↔ fq.length = k ∧ fq.Pairwise (· < ·) ∧ ∀ x ∈ fq, x < d := by
  unfold subsets
  rw [mem_subsetsFrom]
  simp

theorem subsetsFrom_eq_nil : ∀ (fuel lo k : Nat), fuel < k → subsetsFrom fuel lo k = []
  | _, _, 0, h => by omega
  | 0, _, _ + 1, _ => rfl
  | fuel + 1, lo, k + 1, h => by
    rw [subsetsFrom_succ, subsetsFrom_eq_nil fuel (lo + 1) k (by omega),
      subsetsFrom_eq_nil fuel (lo + 1) (k + 1) (by omega)]
    rfl

theorem head?_subsetsFrom : ∀ (fuel lo k : Nat), k ≤ fuel →
    (subsetsFrom fuel lo k).head? = some (List.range' lo k)
  | fuel, lo, 0, _ => by rw [subsetsFrom_zero]; rfl
  | 0, _, _ + 1, h => by omega
  | fuel + 1, lo, k + 1, h => by
    rw [subsetsFrom_succ, List.head?_append, List.head?_map,
      head?_subsetsFrom fuel (lo + 1) k (by omega)]
    rfl

theorem getLast?_subsetsFrom : ∀ (fuel lo k : Nat), k ≤ fuel →
    (subsetsFrom fuel lo k).getLast? = some (List.range' (lo + fuel - k) k)
  | fuel, lo, 0, _ => by rw [subsetsFrom_zero]; rfl
  | 0, _, _ + 1, h => by omega
  | fuel + 1, lo, k + 1, h => by
    rw [subsetsFrom_succ, List.getLast?_append, List.getLast?_map,
      getLast?_subsetsFrom fuel (lo + 1) k (by omega)]
    by_cases hk : k + 1 ≤ fuel
    · rw [getLast?_subsetsFrom fuel (lo + 1) (k + 1) hk]
      simp only [Option.some_or]
      congr 2
      omega
    · rw [subsetsFrom_eq_nil fuel (lo + 1) (k + 1) (by omega)]
      have hk' : k = fuel := by omega
      subst hk'
      simp only [List.getLast?_nil, Option.none_or, Option.map_some]
      rw [show lo + 1 + k - k = lo + 1 by omega, show lo + (k + 1) - (k + 1) = lo by omega]
      rfl

/-- inside one sector, each entry is the `nextFirst` of its predecessor (same particle number) -/
theorem isChain_subsetsFrom : ∀ (fuel lo k : Nat),
    List.IsChain (fun a b => b = nextFirst a (lo + fuel) ∧ b.length = a.length)
      (subsetsFrom fuel lo k)
  | fuel, lo, 0 => by rw [subsetsFrom_zero]; exact List.isChain_singleton _
  | 0, _, _ + 1 => List.isChain_nil
  | fuel + 1, lo, k + 1 => by
    have ih1 := isChain_subsetsFrom fuel (lo + 1) k
    have ih2 := isChain_subsetsFrom fuel (lo + 1) (k + 1)
    have hd : lo + 1 + fuel = lo + (fuel + 1) := by omega
    rw [hd] at ih1 ih2
    rw [subsetsFrom_succ]
    refine List.IsChain.append ?_ ih2 ?_
    · refine List.isChain_map_of_isChain _ ?_ ih1
      rintro a b ⟨h1, h2⟩
      refine ⟨?_, by simp [h2]⟩
      rw [nextFirst_cons lo a _ (h1 ▸ h2), h1]
    · intro x hx y hy
      by_cases hk : k + 1 ≤ fuel
      · rw [List.getLast?_map, getLast?_subsetsFrom fuel (lo + 1) k (by omega)] at hx
        rw [head?_subsetsFrom fuel (lo + 1) (k + 1) hk] at hy
        obtain rfl : lo :: List.range' (lo + 1 + fuel - k) k = x := by simpa using hx
        obtain rfl : List.range' (lo + 1) (k + 1) = y := by simpa using hy
        rw [hd, nextFirst_cons_last lo _ k (by omega)]
        simp
      · rw [subsetsFrom_eq_nil fuel (lo + 1) (k + 1) (by omega)] at hy
        simp at hy

/-! ### first ↔ second quantisation -/

theorem length_toSecond (fq : List Nat) (d : Nat) : (toSecond fq d).length = d := by
  simp [toSecond]

theorem toFirst_toSecond (fq : List Nat) (d : Nat) (hp : fq.Pairwise (· < ·))
    (hb : ∀ x ∈ fq, x < d) : toFirst (toSecond fq d) = fq := by
  unfold toFirst
  rw [length_toSecond]
  have hf : (List.range d).filter (fun i => (toSecond fq d).getD i 0 == 1) =
      (List.range d).filter (fun i => fq.contains i) := by
    apply List.filter_congr
    intro i hi
    have hi' : i < d := List.mem_range.1 hi
    simp only [toSecond, List.getD_eq_getElem?_getD, List.getElem?_map, List.getElem?_range hi',
      Option.map_some, Option.getD_some]
    by_cases h : i ∈ fq <;> simp [h]
  rw [hf]
  refine List.Pairwise.eq_of_mem_iff (r := (· < ·)) (List.pairwise_lt_range.filter _) hp ?_
  intro a
  simp only [List.mem_filter, List.mem_range, List.contains_iff_mem]
  exact ⟨fun h => h.2, fun h => ⟨hb a h, h⟩⟩

theorem nextSecond_toSecond (fq : List Nat) (d : Nat) (hp : fq.Pairwise (· < ·))
    (hb : ∀ x ∈ fq, x < d) : nextSecond (toSecond fq d) = toSecond (nextFirst fq d) d := by
  unfold nextSecond
  rw [length_toSecond, toFirst_toSecond fq d hp hb]

theorem toSecond_nil (d : Nat) : toSecond [] d = List.replicate d 0 := by
  simp [toSecond]

/-! ### the generator is determined by the chain property -/

theorem fermiBasisGen_eq_of_isChain : ∀ (L : List (List Nat)) (occ : List Nat),
    (∀ x ∈ L.head?, x = occ) → List.IsChain (fun a b => b = nextSecond a) L →
    fermiBasisGen L.length occ = L
  | [], _, _, _ => rfl
  | a :: L, occ, hh, hc => by
    obtain rfl : a = occ := hh a (by simp)
    rw [List.length_cons, fermiBasisGen]
    congr 1
    rw [List.isChain_cons] at hc
    exact fermiBasisGen_eq_of_isChain L _ (fun x hx => hc.1 x hx) hc.2

/-! ### all sectors below the cutoff -/

/-- first-quantised form of the specification basis -/
def allSubsets (d cutoff : Nat) : List (List Nat) := (List.range cutoff).flatMap (subsets d)

theorem allSubsets_succ (d c : Nat) : allSubsets d (c + 1) = allSubsets d c ++ subsets d c := by
  simp [allSubsets, List.range_succ, List.flatMap_append]

theorem fermiBasisSpec_eq_map (d c : Nat) :
    fermiBasisSpec d c = (allSubsets d c).map (fun fq => toSecond fq d) := by
  unfold fermiBasisSpec allSubsets
  rw [List.map_flatMap]

theorem mem_allSubsets {d c : Nat} {fq : List Nat} (h : fq ∈ allSubsets d c) :
    fq.Pairwise (· < ·) ∧ ∀ x ∈ fq, x < d := by
  unfold allSubsets at h
  obtain ⟨k, _, hk⟩ := List.mem_flatMap.1 h
  exact ((mem_subsets d k fq).1 hk).2

theorem getLast?_allSubsets (d c : Nat) (hc : c ≤ d) :
    (allSubsets d (c + 1)).getLast? = some (List.range' (d - c) c) := by
  rw [allSubsets_succ, List.getLast?_append]
  unfold subsets
  rw [getLast?_subsetsFrom d 0 c hc]
  simp

theorem isChain_allSubsets (d : Nat) : ∀ c, c ≤ d + 1 →
    List.IsChain (fun a b => b = nextFirst a d) (allSubsets d c)
  | 0, _ => by simp [allSubsets]
  | c + 1, h => by
    rw [allSubsets_succ]
    refine List.IsChain.append (isChain_allSubsets d c (by omega)) ?_ ?_
    · have := isChain_subsetsFrom d 0 c
      rw [Nat.zero_add] at this
      exact this.imp (fun a b h => h.1)
    · intro x hx y hy
      match c, h, hx with
      | 0, _, hx => simp [allSubsets] at hx
      | c + 1, h, hx =>
        rw [getLast?_allSubsets d c (by omega)] at hx
        unfold subsets at hy
        rw [head?_subsetsFrom d 0 (c + 1) (by omega)] at hy
        obtain rfl : List.range' (d - c) c = x := by simpa using hx
        obtain rfl : List.range' 0 (c + 1) = y := by simpa using hy
        rw [nextFirst_last d c (by omega), List.range_eq_range']

/-! ### the index is the lexicographic rank -/

/-- the subtracted sum of `get_fock_subspace_index_first_quantized`, recursively;
`m` is the number of particles still to be placed -/
def coRankI (d : Nat) : Int → List Nat → Int
  | _, [] => 0
  | m, x :: r => (combInt ((d : Int) - (x : Int) - 1) m : Int) + coRankI d (m - 1) r

theorem foldl_coRankI (d : Nat) : ∀ (fq : List Nat) (m init : Int),
    (List.range fq.length).foldl
      (fun (s : Int) i => s - (combInt ((d : Int) - (fq.getD i 0 : Int) - 1) (m - i) : Int)) init
      = init - coRankI d m fq
  | [], m, init => by simp [coRankI]
  | x :: r, m, init => by
    rw [List.length_cons, List.range_succ_eq_map, List.foldl_cons, List.foldl_map]
    have hf : (fun (s : Int) (i : Nat) =>
        s - (combInt ((d : Int) - ((x :: r).getD (Nat.succ i) 0 : Int) - 1) (m - (Nat.succ i : Nat)) : Int))
        = (fun (s : Int) (i : Nat) =>
        s - (combInt ((d : Int) - (r.getD i 0 : Int) - 1) (m - 1 - i) : Int)) := by
      funext s i
      rw [List.getD_cons_succ]
      congr 3
      push_cast
      ring
    rw [hf, foldl_coRankI d r (m - 1)]
    simp only [List.getD_cons_zero, coRankI, Nat.cast_zero, sub_zero]
    ring

theorem fermiSubIndexFQ_eq (fq : List Nat) (d : Nat) :
    fermiSubIndexFQ fq d = (d.choose fq.length : Int) - 1 - coRankI d fq.length fq := by
  unfold fermiSubIndexFQ
  by_cases h : fq.length = 0
  · have : fq = [] := List.length_eq_zero_iff.1 h
    subst this
    simp [coRankI]
  · simp only [h, if_false]
    rw [foldl_coRankI, comb_eq_choose]

/-- ranking each sector: the `j`-th subset has sub-index `j` -/
theorem map_rank_subsetsFrom : ∀ (fuel lo k : Nat),
    (subsetsFrom fuel lo k).map
        (fun fq => (fuel.choose k : Int) - 1 - coRankI (lo + fuel) (k : Int) fq)
      = (List.range (fuel.choose k)).map Int.ofNat
  | fuel, lo, 0 => by rw [subsetsFrom_zero]; simp [coRankI]
  | 0, lo, k + 1 => by simp [subsetsFrom]
  | fuel + 1, lo, k + 1 => by
    have ih1 := map_rank_subsetsFrom fuel (lo + 1) k
    have ih2 := map_rank_subsetsFrom fuel (lo + 1) (k + 1)
    have hd : lo + 1 + fuel = lo + (fuel + 1) := by omega
    rw [hd] at ih1 ih2
    have hP : ((fuel + 1).choose (k + 1) : Int) = fuel.choose k + fuel.choose (k + 1) := by
      rw [Nat.choose_succ_succ]; push_cast; rfl
    have h1 : (subsetsFrom fuel (lo + 1) k).map
        (fun r => ((fuel + 1).choose (k + 1) : Int) - 1
          - coRankI (lo + (fuel + 1)) ((k + 1 : Nat) : Int) (lo :: r))
        = (List.range (fuel.choose k)).map Int.ofNat := by
      rw [← ih1]
      apply List.map_congr_left
      intro r _
      have e1 : ((lo + (fuel + 1) : Nat) : Int) - (lo : Int) - 1 = (fuel : Int) := by
        push_cast; ring
      have e2 : ((k + 1 : Nat) : Int) - 1 = (k : Int) := by push_cast; ring
      simp only [coRankI]
      rw [e1, e2, combInt_natCast, hP]
      ring
    have h2 : (subsetsFrom fuel (lo + 1) (k + 1)).map
        (fun r => ((fuel + 1).choose (k + 1) : Int) - 1
          - coRankI (lo + (fuel + 1)) ((k + 1 : Nat) : Int) r)
        = (List.range (fuel.choose (k + 1))).map (fun j => Int.ofNat (fuel.choose k + j)) := by
      have : (fun j => Int.ofNat (fuel.choose k + j)) =
          (fun z : Int => (fuel.choose k : Int) + z) ∘ Int.ofNat := by
        funext j; simp
      rw [this, ← List.map_map, ← ih2, List.map_map]
      apply List.map_congr_left
      intro r _
      simp only [Function.comp]
      rw [hP]
      ring
    rw [subsetsFrom_succ, List.map_append, List.map_map]
    simp only [Function.comp_def]
    rw [h1, h2, Nat.choose_succ_succ, List.range_add, List.map_append, List.map_map]
    rfl

theorem length_subsets (d k : Nat) : (subsets d k).length = d.choose k := by
  have := congrArg List.length (map_rank_subsetsFrom d 0 k)
  simpa [subsets] using this

theorem fermiCutoffDim_zero (d : Nat) : fermiCutoffDim d 0 = 0 := rfl

theorem fermiCutoffDim_succ (d c : Nat) :
    fermiCutoffDim d (c + 1) = fermiCutoffDim d c + d.choose c := by
  unfold fermiCutoffDim
  rw [List.range_succ, List.map_append, List.sum_append]
  simp [fermiSubDim, comb_eq_choose]

theorem length_allSubsets (d : Nat) : ∀ c, (allSubsets d c).length = fermiCutoffDim d c
  | 0 => rfl
  | c + 1 => by
    rw [allSubsets_succ, List.length_append, length_allSubsets d c, length_subsets,
      fermiCutoffDim_succ]

theorem head?_allSubsets (d : Nat) : ∀ c, (allSubsets d (c + 1)).head? = some []
  | 0 => by simp [allSubsets, subsets, subsetsFrom_zero]
  | c + 1 => by rw [allSubsets_succ, List.head?_append, head?_allSubsets d c]; rfl

theorem fermiBasis_eq_spec (d cutoff : Nat) (h : cutoff ≤ d + 1) :
    fermiBasis d cutoff = fermiBasisSpec d cutoff := by
  have hlen : (fermiBasisSpec d cutoff).length = fermiCutoffDim d cutoff := by
    rw [fermiBasisSpec_eq_map, List.length_map, length_allSubsets]
  unfold fermiBasis
  rw [← hlen]
  apply fermiBasisGen_eq_of_isChain
  · rw [fermiBasisSpec_eq_map, List.head?_map]
    cases cutoff with
    | zero => simp [allSubsets]
    | succ c => rw [head?_allSubsets]; simp [toSecond_nil]
  · rw [fermiBasisSpec_eq_map, List.isChain_map]
    refine (isChain_allSubsets d cutoff h).imp_of_mem_imp ?_
    intro a b ha _ hab
    obtain ⟨hp, hb⟩ := mem_allSubsets ha
    rw [nextSecond_toSecond a d hp hb, hab]

theorem fermiIndex_toSecond {d k : Nat} {fq : List Nat} (hfq : fq ∈ subsets d k) :
    fermiIndex (toSecond fq d) =
      (fermiCutoffDim d k : Int) + ((d.choose k : Int) - 1 - coRankI d (k : Int) fq) := by
  obtain ⟨hl, hp, hb⟩ := (mem_subsets d k fq).1 hfq
  unfold fermiIndex fermiIndexFQ
  rw [length_toSecond, toFirst_toSecond fq d hp hb, fermiSubIndexFQ_eq, hl]

theorem map_fermiIndex_sector (d k : Nat) :
    ((subsets d k).map (fun fq => toSecond fq d)).map fermiIndex =
      (List.range' (fermiCutoffDim d k) (d.choose k)).map Int.ofNat := by
  have hr := map_rank_subsetsFrom d 0 k
  rw [Nat.zero_add] at hr
  have hR : (List.range' (fermiCutoffDim d k) (d.choose k)).map Int.ofNat =
      ((List.range (d.choose k)).map Int.ofNat).map
        (fun z : Int => (fermiCutoffDim d k : Int) + z) := by
    rw [List.range'_eq_map_range, List.map_map, List.map_map]
    apply List.map_congr_left
    intro j _
    simp
  rw [hR, ← hr, List.map_map, List.map_map]
  apply List.map_congr_left
  intro fq hfq
  simp only [Function.comp]
  exact fermiIndex_toSecond hfq

/-- the index function inverts the enumeration -/
theorem fermi_map_index_basis (d cutoff : Nat) (h : cutoff ≤ d + 1) :
    (fermiBasis d cutoff).map fermiIndex = (List.range (fermiCutoffDim d cutoff)).map Int.ofNat := by
  rw [fermiBasis_eq_spec d cutoff h, fermiBasisSpec, List.map_flatMap]
  rw [List.flatMap_congr (fun k _ => map_fermiIndex_sector d k)]
  rw [← List.map_flatMap,
    flatMap_range' (fermiCutoffDim d) (fun k => d.choose k) (fermiCutoffDim_zero d)
      (fermiCutoffDim_succ d), List.range_eq_range']

/-- the specification list is strictly sorted for the lexicographic order -/
theorem pairwise_lex_subsetsFrom : ∀ (fuel lo k : Nat),
    (subsetsFrom fuel lo k).Pairwise (List.Lex (· < ·))
  | fuel, lo, 0 => by rw [subsetsFrom_zero]; exact List.pairwise_singleton _ _
  | 0, _, _ + 1 => List.Pairwise.nil
  | fuel + 1, lo, k + 1 => by
    rw [subsetsFrom_succ, List.pairwise_append]
    refine ⟨?_, pairwise_lex_subsetsFrom fuel (lo + 1) (k + 1), ?_⟩
    · rw [List.pairwise_map]
      exact (pairwise_lex_subsetsFrom fuel (lo + 1) k).imp (fun h => List.Lex.cons h)
    · intro a ha b hb
      obtain ⟨r, _, rfl⟩ := List.mem_map.1 ha
      obtain ⟨hl, _, hbd⟩ := (mem_subsetsFrom fuel (lo + 1) (k + 1) b).1 hb
      match b, hl with
      | y :: t, _ =>
        have := hbd y (by simp)
        exact List.Lex.rel (by omega)

theorem pairwise_lex_subsets (d k : Nat) : (subsets d k).Pairwise (List.Lex (· < ·)) :=
  pairwise_lex_subsetsFrom d 0 k

end Pq.Comb
