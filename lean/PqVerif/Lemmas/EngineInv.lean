import Mathlib.Tactic
import Mathlib.Data.Rat.Floor
import PqVerif.Model.Engine

/-!
Invariants of the engine model (C03 shot accounting, C12 frame, C13 up-front rejection).
-/
namespace Pq.Engine
open Pq.Expr

variable {σ : Type} {α β : Type}

/-- contract of a simulation step called with `shots = some k`, `k ≥ 1`: it returns
sub-branches whose frequencies are `j/k` with positive integers `j` summing to `k`
(a gate returns one branch with frequency `1 = k/k`; a sampling measurement returns the
distinct samples with their counts). -/
def StepOK (oracle : Oracle σ) : Prop :=
  ∀ req subs, oracle req = .ok subs → ∀ k, req.shots = some k → 0 < k →
    ∃ js : List Nat, (∀ j ∈ js, 0 < j) ∧ js.sum = k ∧
      subs.map (·.freq) = js.map (fun j => (j : Rat) / (k : Rat))

/-- every branch frequency is `k/N` with a positive integer `k`, and the `k` sum to `N` -/
def FreqInv (N : Nat) (bs : List (Branch σ)) : Prop :=
  ∃ ks : List Nat, (∀ k ∈ ks, 0 < k) ∧ ks.sum = N ∧
    bs.map (·.freq) = ks.map (fun k => (k : Rat) / (N : Rat))

/-! ### running the engine monad -/

def runM (x : M σ α) (w : World σ) : Except Err α × World σ := x.run.run w

@[simp] theorem runM_pure (a : α) (w : World σ) : runM (pure a : M σ α) w = (.ok a, w) := rfl
@[simp] theorem runM_throw (e : Err) (w : World σ) : runM (throw e : M σ α) w = (.error e, w) := rfl
theorem runM_bind (x : M σ α) (f : α → M σ β) (w : World σ) :
    runM (x >>= f) w = match runM x w with
      | (.ok a, w') => runM (f a) w'
      | (.error e, w') => (.error e, w') := by
  simp only [runM, bind, ExceptT.run, ExceptT.bind, ExceptT.mk, StateT.run, StateT.bind,
    ExceptT.bindCont]
  rcases h : x w with ⟨r, w'⟩
  cases r <;> rfl
@[simp] theorem runM_getCell (i : Nat) (w : World σ) :
    runM (getCell i : M σ Cell) w = (.ok (w.heap.getD i { modes := [], params := [] }), w) := rfl
@[simp] theorem runM_setCell (i : Nat) (c : Cell) (w : World σ) :
    runM (setCell i c : M σ Unit) w = (.ok (), { w with heap := w.heap.set i c }) := rfl
@[simp] theorem runM_logCall (r : StepReq σ) (w : World σ) :
    runM (logCall r : M σ Unit) w = (.ok (), { w with calls := w.calls ++ [r] }) := rfl
theorem runM_tryFinally (body : M σ α) (fin : M σ Unit) (w : World σ) :
    runM (tryFinally' body fin) w =
      ((match (runM body w).1, (runM fin (runM body w).2).1 with
            | .ok a, .ok _ => .ok a
            | .ok _, .error e => .error e
            | .error e, _ => .error e), (runM fin (runM body w).2).2) := by
  simp only [runM, tryFinally', ExceptT.run, ExceptT.mk, StateT.run, bind, StateT.bind]
  rcases h : body w with ⟨r, w1⟩
  simp only []
  rcases h2 : fin w1 with ⟨f, w2⟩
  cases r <;> cases f <;> rfl

theorem runM_bind_ok {x : M σ α} {f : α → M σ β} {w w' : World σ} {b : β}
    (h : runM (x >>= f) w = (.ok b, w')) :
    ∃ a w1, runM x w = (.ok a, w1) ∧ runM (f a) w1 = (.ok b, w') := by
  rw [runM_bind] at h
  rcases hx : runM x w with ⟨r, w1⟩
  rw [hx] at h
  cases r with
  | error e => simp at h
  | ok a => exact ⟨a, w1, rfl, h⟩

theorem runM_tryFinally_ok {body : M σ α} {fin : M σ Unit} {w w' : World σ} {a : α}
    (h : runM (tryFinally' body fin) w = (.ok a, w')) :
    ∃ w1, runM body w = (.ok a, w1) := by
  rw [runM_tryFinally] at h
  rcases hx : runM body w with ⟨r, w1⟩
  rw [hx] at h
  rcases hf : runM fin w1 with ⟨f, w2⟩
  simp only [hf] at h
  cases r <;> cases f <;> simp at h
  exact ⟨w1, by rw [h.1]⟩

theorem runM_tryFinally_snd (body : M σ α) (fin : M σ Unit) (w : World σ) :
    (runM (tryFinally' body fin) w).2 = (runM fin (runM body w).2).2 := by
  rw [runM_tryFinally]

/-! ### the two try/finally blocks, named -/

def abBody (oracle : Oracle σ) (pval : ParamCheck) (idx : Nat) (ins : Instr) (shots : Option Nat)
    (b : Branch σ)
    (cell : Cell) : M σ (List (Branch σ)) := do
  let resolved ← (match resolveAll ins.params b.outcome with
    | .ok r => pure r
    | .error e => throw e : M σ _)
  if !isResolved ins then
    setCell idx { cell with params := resolved.map (fun (n, v) => (n, Slot.resolved v)) }
  (match pval ins.cls resolved with
    | .ok _ => pure ()
    | .error e => throw e : M σ Unit)
  let currentShots := shots.map (fun n => (b.freq * (n : Rat)).floor.toNat)
  let req : StepReq σ :=
    { state := b.state, cls := ins.cls, modes := cell.modes, params := resolved,
      shots := currentShots }
  logCall req
  match oracle req with
  | .ok subs => pure subs
  | .error e => throw e

def abFin (idx : Nat) (ins : Instr) : M σ Unit := do
  if !isResolved ins then
    let c ← getCell idx
    setCell idx { c with params := ins.params.map (fun (n, p) => (n, Slot.user p)) }

theorem applyToBranch_eq (oracle : Oracle σ) (pval : ParamCheck) (idx : Nat) (ins : Instr)
    (shots : Option Nat)
    (b : Branch σ) : applyToBranch oracle pval idx ins shots b = (do
  let met ← (match condMet ins.cond b.outcome with
    | .ok m => pure m
    | .error e => throw e : M σ Bool)
  if !met then pure [b] else do
  let cell ← getCell idx
  let subs ← tryFinally' (abBody oracle pval idx ins shots b cell) (abFin idx ins)
  pure (subs.map (fun sb =>
    { state := sb.state, outcome := b.outcome ++ sb.outcome, freq := sb.freq * b.freq }))) := rfl

def stepBody (oracle : Oracle σ) (pval : ParamCheck) (shots : Option Nat) (idx : Nat) (ins : Instr)
    (active : List Nat) (bs : List (Branch σ)) (modes : List Nat) :
    M σ (List (Branch σ) × List Nat) := do
  let cell ← getCell idx
  setCell idx { cell with modes := remap active modes }
  let bs' ← applyToBranches oracle pval idx ins shots bs
  let active' := if isMeas ins then deleteModes active (remap active modes) else active
  pure (bs', active')

def stepFin (idx : Nat) (original : List Nat) : M σ Unit := do
  let cell ← getCell idx
  setCell idx { cell with modes := original }

theorem execLoop_cons (oracle : Oracle σ) (pval : ParamCheck) (shots : Option Nat) (idx : Nat)
    (ins : Instr)
    (rest : List Instr) (active : List Nat) (bs : List (Branch σ)) :
    execLoop oracle pval shots idx (ins :: rest) active bs =
      if (if ins.modes.isEmpty then active else ins.modes).any (fun m => !active.contains m)
      then throw .valueError
      else tryFinally' (stepBody oracle pval shots idx ins active bs
              (if ins.modes.isEmpty then active else ins.modes)) (stepFin idx ins.modes) >>=
            fun p => execLoop oracle pval shots (idx + 1) rest p.2 p.1 := rfl

/-! ### C03: shot accounting -/

theorem flatMap_single {α β} (f : α → β) (l : List α) :
    l.flatMap (fun a => [f a]) = l.map f := by
  induction l with
  | nil => rfl
  | cons a t ih => simp [List.flatMap_cons, ih]

/-- the statements write `ks.map (fun k => (k : Rat) / N)`, which Lean elaborates by coercing
`ks` to a `List Rat` through the list monad; this is the plain form -/
theorem mapDiv_eq (ks : List Nat) (N : Nat) :
    ks.map (fun k => (k : Rat) / (N : Rat)) = ks.map (fun k : Nat => (k : Rat) / (N : Rat)) := by
  have : (do let a ← ks; pure (a : Rat) : List Rat) = ks.map (fun k : Nat => (k : Rat)) := by
    simp [flatMap_single]
  rw [this, List.map_map]; rfl

theorem floor_div_mul (k N : Nat) (hN : 0 < N) :
    (((k : Rat) / (N : Rat)) * (N : Rat)).floor.toNat = k := by
  have hN' : (N : Rat) ≠ 0 := by exact_mod_cast hN.ne'
  rw [div_mul_cancel₀ _ hN']
  have : (k : Rat) = ((k : Int) : Rat) := by simp
  rw [this, Rat.floor_intCast]; simp

theorem abBody_ok {oracle : Oracle σ} {pval : ParamCheck} {idx : Nat} {ins : Instr} {N : Nat}
    {b : Branch σ}
    {cell : Cell} {w w' : World σ} {subs : List (Branch σ)}
    (h : runM (abBody oracle pval idx ins (some N) b cell) w = (.ok subs, w')) :
    ∃ req, oracle req = .ok subs ∧ req.shots = some (b.freq * (N : Rat)).floor.toNat := by
  unfold abBody at h
  obtain ⟨resolved, w1, -, h⟩ := runM_bind_ok h
  dsimp only at h
  have key : ∀ (pv : Except Err Unit) (req : StepReq σ) (w1 : World σ), runM (do
      (match pv with
        | .ok _ => pure ()
        | .error e => throw e : M σ Unit)
      logCall req
      match oracle req with
        | .ok subs => pure subs
        | .error e => throw e) w1 = (.ok subs, w') → oracle req = .ok subs := by
    intro pv req w1 h
    obtain ⟨_, w2, -, h⟩ := runM_bind_ok h
    obtain ⟨_, w3, -, h⟩ := runM_bind_ok h
    split at h
    · next s hs => simp at h; rw [hs, h.1]
    · simp at h
  split at h
  · obtain ⟨_, w2, -, h⟩ := runM_bind_ok h
    exact ⟨_, key _ _ _ h, rfl⟩
  · exact ⟨_, key _ _ _ h, rfl⟩

theorem applyToBranch_ok {oracle : Oracle σ} {pval : ParamCheck} {idx : Nat} {ins : Instr} {N : Nat}
    {b : Branch σ} {w w' : World σ} {r : List (Branch σ)}
    (h : runM (applyToBranch oracle pval idx ins (some N) b) w = (.ok r, w')) :
    r = [b] ∨ ∃ req subs, oracle req = .ok subs ∧
      req.shots = some (b.freq * (N : Rat)).floor.toNat ∧
      r = subs.map (fun sb =>
        { state := sb.state, outcome := b.outcome ++ sb.outcome, freq := sb.freq * b.freq }) := by
  rw [applyToBranch_eq] at h
  obtain ⟨met, w1, -, h⟩ := runM_bind_ok h
  cases met with
  | false => simp at h; exact Or.inl h.1.symm
  | true =>
    right
    simp only [Bool.not_true, Bool.false_eq_true, if_false] at h
    obtain ⟨cell, w2, -, h⟩ := runM_bind_ok h
    obtain ⟨subs, w3, h3, h⟩ := runM_bind_ok h
    obtain ⟨w4, h4⟩ := runM_tryFinally_ok h3
    obtain ⟨req, hreq, hshots⟩ := abBody_ok h4
    simp at h
    exact ⟨req, subs, hreq, hshots, h.1.symm⟩

/-- frequencies `k/N` for the listed positive `k` -/
def FL (N : Nat) (ks : List Nat) (bs : List (Branch σ)) : Prop :=
  (∀ k ∈ ks, 0 < k) ∧ bs.map (·.freq) = ks.map (fun k : Nat => (k : Rat) / (N : Rat))

theorem applyToBranch_freq {oracle : Oracle σ} (hO : StepOK oracle) {pval : ParamCheck}
    {idx : Nat} {ins : Instr}
    {N : Nat} (hN : 0 < N) {b : Branch σ} {k : Nat} (hk : 0 < k)
    (hb : b.freq = (k : Rat) / (N : Rat)) {w w' : World σ} {r : List (Branch σ)}
    (h : runM (applyToBranch oracle pval idx ins (some N) b) w = (.ok r, w')) :
    ∃ js, FL N js r ∧ js.sum = k := by
  rcases applyToBranch_ok h with rfl | ⟨req, subs, hreq, hshots, rfl⟩
  · exact ⟨[k], ⟨by simpa using hk, by simp [hb]⟩, by simp⟩
  · rw [hb, floor_div_mul k N hN] at hshots
    obtain ⟨js, hpos, hsum, hfreq⟩ := hO req subs hreq k hshots hk
    rw [mapDiv_eq] at hfreq
    refine ⟨js, ⟨hpos, ?_⟩, hsum⟩
    have hk' : (k : Rat) ≠ 0 := by exact_mod_cast hk.ne'
    have : List.map (fun x : Branch σ => x.freq)
        (List.map (fun sb : Branch σ =>
          ({ state := sb.state, outcome := b.outcome ++ sb.outcome, freq := sb.freq * b.freq } :
            Branch σ)) subs) = (subs.map (·.freq)).map (· * b.freq) := by
      simp [List.map_map, Function.comp_def]
    rw [this, hfreq, hb, List.map_map]
    apply List.map_congr_left
    intro j _
    simp only [Function.comp]
    field_simp

theorem applyToBranches_freq {oracle : Oracle σ} (hO : StepOK oracle) {pval : ParamCheck}
    {idx : Nat} {ins : Instr}
    {N : Nat} (hN : 0 < N) :
    ∀ (bs : List (Branch σ)) (ks : List Nat) (w w' : World σ) (r : List (Branch σ)),
      FL N ks bs → runM (applyToBranches oracle pval idx ins (some N) bs) w = (.ok r, w') →
      ∃ js, FL N js r ∧ js.sum = ks.sum := by
  intro bs
  induction bs with
  | nil =>
    intro ks w w' r hfl h
    simp [applyToBranches] at h
    obtain ⟨hpos, hmap⟩ := hfl
    have : ks = [] := by simpa using hmap.symm
    subst this
    exact ⟨[], ⟨by simp, by simp [← h.1]⟩, rfl⟩
  | cons b bs ih =>
    intro ks w w' r hfl h
    obtain ⟨hpos, hmap⟩ := hfl
    cases ks with
    | nil => simp at hmap
    | cons k ks =>
      simp only [List.map_cons, List.cons.injEq] at hmap
      simp only [applyToBranches] at h
      obtain ⟨r1, w1, h1, h⟩ := runM_bind_ok h
      obtain ⟨r2, w2, h2, h⟩ := runM_bind_ok h
      simp at h
      obtain ⟨js1, ⟨hp1, hm1⟩, hs1⟩ :=
        applyToBranch_freq hO hN (hpos k (by simp)) hmap.1 h1
      obtain ⟨js2, ⟨hp2, hm2⟩, hs2⟩ :=
        ih ks w1 w2 r2 ⟨fun k hk => hpos k (by simp [hk]), hmap.2⟩ h2
      refine ⟨js1 ++ js2, ⟨?_, ?_⟩, by simp [hs1, hs2]⟩
      · intro j hj
        rcases List.mem_append.1 hj with hj | hj
        · exact hp1 j hj
        · exact hp2 j hj
      · rw [← h.1, List.map_append, List.map_append, hm1, hm2]

theorem execLoop_freq {oracle : Oracle σ} (hO : StepOK oracle) {pval : ParamCheck} {N : Nat}
    (hN : 0 < N) :
    ∀ (is : List Instr) (idx : Nat) (active : List Nat) (bs : List (Branch σ))
      (w w' : World σ) (r : List (Branch σ)),
      FreqInv N bs → runM (execLoop oracle pval (some N) idx is active bs) w = (.ok r, w') →
      FreqInv N r := by
  intro is
  induction is with
  | nil =>
    intro idx active bs w w' r hinv h
    simp [execLoop] at h
    rw [← h.1]; exact hinv
  | cons ins rest ih =>
    intro idx active bs w w' r hinv h
    rw [execLoop_cons] at h
    generalize (if ins.modes.isEmpty then active else ins.modes) = modes at h
    split at h
    · simp at h
    · obtain ⟨p, w1, h1, h⟩ := runM_bind_ok h
      obtain ⟨w2, h2⟩ := runM_tryFinally_ok h1
      refine ih _ _ _ _ _ _ ?_ h
      unfold stepBody at h2
      obtain ⟨cell, w3, -, h2⟩ := runM_bind_ok h2
      obtain ⟨_, w4, -, h2⟩ := runM_bind_ok h2
      obtain ⟨bs', w5, h5, h2⟩ := runM_bind_ok h2
      simp at h2
      obtain ⟨ks, hpos, hsum, hmap⟩ := hinv
      rw [mapDiv_eq] at hmap
      obtain ⟨js, ⟨hp, hm⟩, hs⟩ := applyToBranches_freq hO hN bs ks _ _ _ ⟨hpos, hmap⟩ h5
      rw [← h2.1]
      exact ⟨js, hp, hs.trans hsum, by rw [mapDiv_eq]; exact hm⟩

/-- **C03** shot accounting: whatever the program (any conditions, any outcome-dependent
parameters, any placement of measurements), whatever the steps do within their contract,
a run with `shots = N ≥ 1` that returns, returns branches satisfying `FreqInv N`. -/
theorem execute_freqInv (spec : SimSpec) (oracle : Oracle σ) (pval : ParamCheck)
    (hO : StepOK oracle) (simD : Option Nat) (is : List Instr) (N : Nat) (hN : 0 < N)
    (init : InitArg) (st0 : σ)
    (w w' : World σ) (bs : List (Branch σ))
    (h : ((execute spec oracle pval simD is (.pos N) init st0).run.run w) = (.ok bs, w')) :
    FreqInv N bs := by
  change runM (execute spec oracle pval simD is (.pos N) init st0) w = (.ok bs, w') at h
  unfold execute at h
  obtain ⟨d, w1, -, h⟩ := runM_bind_ok h
  refine execLoop_freq hO hN _ _ _ _ _ _ _ ?_ h
  refine ⟨[N], by simpa using hN, by simp, ?_⟩
  have hN' : (N : Rat) ≠ 0 := by exact_mod_cast hN.ne'
  rw [mapDiv_eq]
  simp [div_self hN']

/-- `int(frequency * shots)` recovers the integer count exactly -/
theorem freqInv_copies (N : Nat) (hN : 0 < N) (bs : List (Branch σ)) (h : FreqInv N bs) :
    ∃ ks : List Nat, (∀ k ∈ ks, 0 < k) ∧ ks.sum = N ∧ bs.map (copies N) = ks := by
  obtain ⟨ks, hpos, hsum, hmap⟩ := h
  rw [mapDiv_eq] at hmap
  refine ⟨ks, hpos, hsum, ?_⟩
  have h1 : bs.map (copies N) =
      (bs.map (·.freq)).map (fun f : Rat => (f * (N : Rat)).floor.toNat) := by
    rw [List.map_map]; rfl
  rw [h1, hmap, List.map_map]
  conv_rhs => rw [← List.map_id ks]
  apply List.map_congr_left
  intro k _
  exact floor_div_mul k N hN

/-- `Result.samples` has exactly `N` entries -/
theorem samples_length (N : Nat) (hN : 0 < N) (bs : List (Branch σ)) (h : FreqInv N bs) :
    (samples N bs).length = N := by
  obtain ⟨ks, -, hsum, hmap⟩ := freqInv_copies N hN bs h
  have : (samples N bs).length = (bs.map (copies N)).sum := by
    unfold samples
    induction bs with
    | nil => rfl
    | cons b bs ih => simp [List.flatMap_cons]
  rw [this, hmap, hsum]

theorem sum_map_div (ks : List Nat) (N : Nat) :
    (ks.map (fun k : Nat => (k : Rat) / (N : Rat))).sum = ((ks.sum : Nat) : Rat) / (N : Rat) := by
  induction ks with
  | nil => simp
  | cons k ks ih => simp [ih, add_div]

/-- frequencies sum to one -/
theorem freq_sum_one (N : Nat) (hN : 0 < N) (bs : List (Branch σ)) (h : FreqInv N bs) :
    (bs.map (·.freq)).sum = 1 := by
  obtain ⟨ks, -, hsum, hmap⟩ := h
  have hN' : (N : Rat) ≠ 0 := by exact_mod_cast hN.ne'
  rw [hmap, mapDiv_eq, sum_map_div, hsum, div_self hN']

theorem addCount_sum {κ : Type} [BEq κ] (acc : List (κ × Nat)) (k : κ) (n : Nat) :
    ((addCount acc k n).map (·.2)).sum = (acc.map (·.2)).sum + n := by
  induction acc with
  | nil => simp [addCount]
  | cons p rest ih =>
    obtain ⟨k', m⟩ := p
    simp only [addCount]
    split
    · simp; omega
    · simp [ih]; omega

theorem foldl_addCount_sum {κ : Type} [BEq κ] (key : List Val → κ) (N : Nat)
    (bs : List (Branch σ)) (acc : List (κ × Nat)) :
    ((bs.foldl (fun acc b => addCount acc (key b.outcome) (copies N b)) acc).map (·.2)).sum
      = (acc.map (·.2)).sum + (bs.map (copies N)).sum := by
  induction bs generalizing acc with
  | nil => simp
  | cons b bs ih => simp [ih, addCount_sum]; omega

/-- `Result.get_counts()` sums to `N`, whatever the key function (equal outcomes in
different branches are accumulated, not overwritten) -/
theorem counts_sum {κ : Type} [BEq κ] (key : List Val → κ) (N : Nat) (hN : 0 < N)
    (bs : List (Branch σ)) (h : FreqInv N bs) :
    ((getCounts key N bs).map (·.2)).sum = N := by
  obtain ⟨ks, -, hsum, hmap⟩ := freqInv_copies N hN bs h
  unfold getCounts
  rw [foldl_addCount_sum, hmap, hsum]; simp

/-! ### C12: frame -/

theorem runM_map_snd (x : M σ α) (g : α → β) (w : World σ) :
    (runM (x >>= fun a => pure (g a)) w).2 = (runM x w).2 := by
  rw [runM_bind]
  rcases runM x w with ⟨r, w1⟩
  cases r <;> rfl

theorem set_eq_self_of {γ : Type} (h : List γ) (i : Nat) (c' : γ)
    (hc : ∀ c, h[i]? = some c → c' = c) : h.set i c' = h := by
  apply List.ext_getElem?
  intro j
  rw [List.getElem?_set]
  split
  · next hij =>
    subst hij
    split
    · next hlt => rw [hc _ (List.getElem?_eq_getElem hlt), List.getElem?_eq_getElem hlt]
    · next hge => simp at hge; simp [hge]
  · rfl

theorem getD_of_getElem? {γ : Type} {h : List γ} {i : Nat} {c d : γ} (hc : h[i]? = some c) :
    h.getD i d = c := by
  simp [List.getD_eq_getElem?_getD, hc]

theorem getD_set_of_getElem? {γ : Type} {h : List γ} {i : Nat} {c c1 d : γ} (hc : h[i]? = some c) :
    (h.set i c1).getD i d = c1 := by
  have hlt : i < h.length := by
    by_contra hge
    simp at hge
    simp [hge] at hc
  simp [List.getD_eq_getElem?_getD, hlt]

local macro "dflt" : term => `(({ modes := [], params := [] } : Cell))

theorem abFin_heap (idx : Nat) (ins : Instr) (w : World σ) :
    (runM (abFin idx ins) w).2.heap =
      if !isResolved ins then
        w.heap.set idx { modes := (w.heap.getD idx dflt).modes, params := (Instr.cell ins).params }
      else w.heap := by
  unfold abFin
  split <;> rfl

theorem abBody_heap (oracle : Oracle σ) (pval : ParamCheck) (idx : Nat) (ins : Instr)
    (shots : Option Nat)
    (b : Branch σ) (cell : Cell) (w : World σ) :
    (runM (abBody oracle pval idx ins shots b cell) w).2.heap = w.heap ∨
    ((!isResolved ins) = true ∧ ∃ X, (runM (abBody oracle pval idx ins shots b cell) w).2.heap =
      w.heap.set idx { modes := cell.modes, params := X }) := by
  have key : ∀ (pv : Except Err Unit) (req : StepReq σ) (w1 : World σ), (runM (do
      (match pv with
        | .ok _ => pure ()
        | .error e => throw e : M σ Unit)
      logCall req
      match oracle req with
        | .ok subs => pure subs
        | .error e => throw e) w1).2.heap = w1.heap := by
    intro pv req w1
    rw [runM_bind]
    cases pv with
    | error e => rfl
    | ok u =>
      simp only [runM_pure]
      rw [runM_bind]
      simp only [runM_logCall]
      cases oracle req <;> rfl
  unfold abBody
  rw [runM_bind]
  cases resolveAll ins.params b.outcome with
  | error e => left; rfl
  | ok resolved =>
    simp only [runM_pure]
    split
    · next hres =>
      right
      refine ⟨hres, resolved.map (fun (n, v) => (n, Slot.resolved v)), ?_⟩
      rw [runM_bind]
      simp only [runM_setCell]
      exact key _ _ _
    · left
      exact key _ _ _

theorem applyToBranch_heap (oracle : Oracle σ) (pval : ParamCheck) (idx : Nat) (ins : Instr)
    (shots : Option Nat)
    (b : Branch σ) (w : World σ)
    (hw : ∀ c, w.heap[idx]? = some c → c.params = (Instr.cell ins).params) :
    (runM (applyToBranch oracle pval idx ins shots b) w).2.heap = w.heap := by
  rw [applyToBranch_eq, runM_bind]
  cases condMet ins.cond b.outcome with
  | error e => rfl
  | ok met =>
    cases met with
    | false => rfl
    | true =>
      simp only [runM_pure, Bool.not_true, Bool.false_eq_true, if_false]
      rw [runM_bind]
      simp only [runM_getCell]
      rw [runM_map_snd, runM_tryFinally_snd, abFin_heap]
      rcases abBody_heap oracle pval idx ins shots b (w.heap.getD idx dflt) w with
        hb | ⟨hres, X, hb⟩
      · rw [hb]
        split
        · apply set_eq_self_of
          intro c hc
          rw [getD_of_getElem? hc, ← hw c hc]
        · rfl
      · rw [hb, if_pos hres, List.set_set]
        apply set_eq_self_of
        intro c hc
        rw [getD_set_of_getElem? hc, getD_of_getElem? hc, ← hw c hc]

theorem applyToBranches_heap (oracle : Oracle σ) (pval : ParamCheck) (idx : Nat) (ins : Instr)
    (shots : Option Nat) :
    ∀ (bs : List (Branch σ)) (w : World σ),
      (∀ c, w.heap[idx]? = some c → c.params = (Instr.cell ins).params) →
      (runM (applyToBranches oracle pval idx ins shots bs) w).2.heap = w.heap := by
  intro bs
  induction bs with
  | nil => intro w _; rfl
  | cons b bs ih =>
    intro w hw
    simp only [applyToBranches]
    rw [runM_bind]
    have h1 := applyToBranch_heap oracle pval idx ins shots b w hw
    rcases hx : runM (applyToBranch oracle pval idx ins shots b) w with ⟨r1, w1⟩
    rw [hx] at h1
    cases r1 with
    | error e => exact h1
    | ok r =>
      simp only at h1 ⊢
      rw [runM_map_snd, ih w1 (by rw [h1]; exact hw), h1]

theorem step_heap (oracle : Oracle σ) (pval : ParamCheck) (shots : Option Nat) (idx : Nat)
    (ins : Instr)
    (active : List Nat) (bs : List (Branch σ)) (modes : List Nat) (w : World σ)
    (hw : ∀ c, w.heap[idx]? = some c → c = Instr.cell ins) :
    (runM (tryFinally' (stepBody oracle pval shots idx ins active bs modes) (stepFin idx ins.modes))
      w).2.heap = w.heap := by
  rw [runM_tryFinally_snd]
  have hbody : (runM (stepBody oracle pval shots idx ins active bs modes) w).2.heap =
      w.heap.set idx { modes := remap active modes, params := (w.heap.getD idx dflt).params } := by
    unfold stepBody
    rw [runM_bind]
    simp only [runM_getCell]
    rw [runM_bind]
    simp only [runM_setCell]
    rw [runM_map_snd, applyToBranches_heap]
    intro c hc
    simp only at hc
    have hlt : idx < w.heap.length := by
      by_contra hge
      simp at hge
      simp [hge] at hc
    have hc0 := hw _ (List.getElem?_eq_getElem hlt)
    rw [List.getElem?_set_self hlt] at hc
    cases hc
    simp only
    rw [getD_of_getElem? (List.getElem?_eq_getElem hlt), hc0]
  have hfin : ∀ w1 : World σ, (runM (stepFin idx ins.modes) w1).2.heap =
      w1.heap.set idx { modes := ins.modes, params := (w1.heap.getD idx dflt).params } := by
    intro w1; rfl
  rw [hfin, hbody, List.set_set]
  apply set_eq_self_of
  intro c hc
  rw [getD_set_of_getElem? hc, getD_of_getElem? hc, hw c hc]
  rfl

theorem execLoop_heap (oracle : Oracle σ) (pval : ParamCheck) (shots : Option Nat) :
    ∀ (is : List Instr) (idx : Nat) (active : List Nat) (bs : List (Branch σ)) (w : World σ),
      w.heap.drop idx = is.map Instr.cell →
      (runM (execLoop oracle pval shots idx is active bs) w).2.heap = w.heap := by
  intro is
  induction is with
  | nil => intro idx active bs w _; rfl
  | cons ins rest ih =>
    intro idx active bs w hw
    rw [execLoop_cons]
    generalize (if ins.modes.isEmpty then active else ins.modes) = modes
    split
    · rfl
    · rw [runM_bind]
      have h0 : w.heap[idx]? = some (Instr.cell ins) := by
        have := congrArg (fun l => l[0]?) hw
        simpa [List.getElem?_drop] using this
      have hrest : w.heap.drop (idx + 1) = rest.map Instr.cell := by
        have := congrArg (List.drop 1) hw
        simpa [List.drop_drop, Nat.add_comm] using this
      have hstep := step_heap oracle pval shots idx ins active bs modes w
        (fun c hc => by rw [h0] at hc; cases hc; rfl)
      rcases hx : runM (tryFinally' (stepBody oracle pval shots idx ins active bs modes)
        (stepFin idx ins.modes)) w with ⟨r, w1⟩
      rw [hx] at hstep
      cases r with
      | error e => exact hstep
      | ok p =>
        simp only at hstep ⊢
        rw [ih _ _ _ w1 (by rw [hstep]; exact hrest), hstep]

/-- **C12** frame: for every program, every oracle (any step may fail at any call — this is
every fault schedule), every shots / d / initial-state argument, valid or not, the
caller-visible heap after `execute` — returned or raised — equals the heap before. -/
theorem execute_frame (spec : SimSpec) (oracle : Oracle σ) (pval : ParamCheck)
    (simD : Option Nat)
    (is : List Instr) (shots : ShotsArg) (init : InitArg) (st0 : σ) :
    ((execute spec oracle pval simD is shots init st0).run.run (initWorld is)).2.heap
      = (initWorld (σ := σ) is).heap := by
  change (runM (execute spec oracle pval simD is shots init st0) (initWorld is)).2.heap = _
  unfold execute
  rw [runM_bind]
  cases validateAll spec pval simD is shots init with
  | error e => rfl
  | ok d =>
    simp only [runM_pure]
    apply execLoop_heap
    simp [initWorld]

/-! ### C13: up-front rejection -/

/-- **C13** rejection happens before any evolution: if validation fails, the result is that
error, no step was called and nothing was written. -/
theorem reject_before_step (spec : SimSpec) (oracle : Oracle σ) (pval : ParamCheck)
    (simD : Option Nat)
    (is : List Instr) (shots : ShotsArg) (init : InitArg) (st0 : σ) (e : Err)
    (w : World σ) (h : validateAll spec pval simD is shots init = .error e) :
    (execute spec oracle pval simD is shots init st0).run.run w = (.error e, w) := by
  change runM (execute spec oracle pval simD is shots init st0) w = (.error e, w)
  unfold execute
  rw [runM_bind, h]
  rfl

/-- the documented structural rules, declaratively -/
structure WellFormed (spec : SimSpec) (simD : Option Nat) (is : List Instr) (shots : ShotsArg)
    (init : InitArg) (d : Nat) : Prop where
  shots_ok : shots = .none ∨ ∃ n, shots = .pos n ∧ 0 < n
  d_def : (∃ n, simD = some n ∧ 0 < n ∧ d = n) ∨
          ((simD = none ∨ simD = some 0) ∧ inferD is = some d)
  supported : ∀ i ∈ is, i.cls ∈ spec.supported
  modes_distinct : ∀ i ∈ is, i.modes.Nodup
  modes_range : ∀ i ∈ is, ∀ m ∈ i.modes, m < d
  preps_first : ∀ (pre : List Instr) (i : Instr) (post : List Instr), is = pre ++ i :: post →
      i.base = .prep → ∀ j ∈ pre, j.base = .prep
  meas_last : ∀ (pre : List Instr) (i : Instr) (post : List Instr), is = pre ++ i :: post →
      i.base = .meas → post ≠ [] → i.cls ∈ spec.midCircuit
  shots_none : shots = .none → ∀ i ∈ is, i.base = .meas → i.cls ∈ spec.shotsNone
  init_ok : init = .absent ∨ init = .ok d

/-! the validation chain, factored: choice of `d`, then the checks that depend on `d` -/

def chooseD (simD : Option Nat) (is : List Instr) : Option Nat :=
  match simD with
  | none => inferD is
  | some 0 => inferD is
  | some (n + 1) => some (n + 1)

def restCheck (spec : SimSpec) (is : List Instr) (shots : ShotsArg) (init : InitArg) (d : Nat) :
    Except Err Nat := do
  if !is.all (fun i => spec.supported.contains i.cls) then throw .invalidSimulation
  is.forM (modesOK d)
  if !prepsAtBeginning is then throw .invalidSimulation
  if !measAtEnd spec is then throw .invalidSimulation
  match shots with
  | .none =>
    if !is.all (fun i => !isMeas i || spec.shotsNone.contains i.cls) then throw .invalidParameter
  | _ => pure ()
  match init with
  | .absent => pure ()
  | .wrongClass => throw .invalidState
  | .ok d' => if d' != d then throw .invalidState
  pure d

theorem validateRequest_eq (spec : SimSpec) (simD : Option Nat) (is : List Instr)
    (shots : ShotsArg) (init : InitArg) :
    validateRequest spec simD is shots init =
      if !shotsOK shots then throw .invalidParameter
      else match chooseD simD is with
        | some d => restCheck spec is shots init d
        | none => throw .invalidSimulation := by
  rcases simD with _ | _ | n
  · unfold chooseD validateRequest; dsimp only; cases inferD is <;> rfl
  · unfold chooseD validateRequest; dsimp only; cases inferD is <;> rfl
  · rfl

theorem restCheck_ok_iff (spec : SimSpec) (is : List Instr)
    (shots : ShotsArg) (init : InitArg) (v d : Nat) :
    restCheck spec is shots init v = .ok d ↔
      v = d ∧
      is.all (fun i => spec.supported.contains i.cls) = true ∧
      is.forM (modesOK d) = .ok () ∧
      prepsAtBeginning is = true ∧ measAtEnd spec is = true ∧
      (shots = .none → is.all (fun i => !isMeas i || spec.shotsNone.contains i.cls) = true) ∧
      (init = .absent ∨ init = .ok d) := by
  unfold restCheck
  cases hsup : is.all (fun i => spec.supported.contains i.cls)
  · simp [Except.bind, bind, throw, throwThe, MonadExceptOf.throw]
  cases hf : is.forM (modesOK v) with
  | error e =>
    simp only [Except.bind, bind, throw, throwThe, MonadExceptOf.throw]
    constructor
    · intro h; simp at h
    · rintro ⟨rfl, -, h, -⟩; rw [hf] at h; cases h
  | ok u =>
    cases hp : prepsAtBeginning is
    · simp [Except.bind, bind, throw, throwThe, MonadExceptOf.throw]
    cases hm : measAtEnd spec is
    · simp [Except.bind, bind, throw, throwThe, MonadExceptOf.throw]
    have hu : ∀ d', d' = v → (is.forM (modesOK d') = .ok () ) := by
      rintro _ rfl; rw [hf]
    have fin : ∀ d' : Nat, ((if d' = v then Except.ok v else Except.error Err.invalidState :
        Except Err Nat) = Except.ok d ↔ v = d ∧ forM is (modesOK d) = Except.ok () ∧ d' = d) := by
      intro d'
      constructor
      · intro h
        split at h
        · next hd => cases h; exact ⟨rfl, hu _ rfl, hd⟩
        · cases h
      · rintro ⟨rfl, -, rfl⟩; simp
    cases shots with
    | none =>
      cases hsn : is.all (fun i => !isMeas i || spec.shotsNone.contains i.cls)
      · simp [Except.bind, bind, throw, throwThe, MonadExceptOf.throw]
      · cases init <;>
          simp [Except.bind, bind, throw, throwThe, MonadExceptOf.throw, pure, Except.pure]
        · intro h; exact hu _ h.symm
        · exact fin _
    | pos n =>
      cases init <;>
        simp [Except.bind, bind, throw, throwThe, MonadExceptOf.throw, pure, Except.pure]
      · intro h; exact hu _ h.symm
      · exact fin _
    | bad =>
      cases init <;>
        simp [Except.bind, bind, throw, throwThe, MonadExceptOf.throw, pure, Except.pure]
      · intro h; exact hu _ h.symm
      · exact fin _

theorem eraseDups_length_le : ∀ (n : Nat) (l : List Nat), l.length ≤ n →
    l.eraseDups.length ≤ l.length := by
  intro n
  induction n with
  | zero => intro l hl; have : l = [] := List.length_eq_zero_iff.1 (by omega); subst this; simp
  | succ n ih =>
    intro l hl
    cases l with
    | nil => simp
    | cons a as =>
      rw [List.eraseDups_cons]
      have h1 : (as.filter fun b => !b == a).length ≤ as.length := List.length_filter_le _ _
      have h2 := ih (as.filter fun b => !b == a) (by simp at hl; omega)
      simp only [List.length_cons]
      omega

theorem eraseDups_length_eq_iff (l : List Nat) : l.eraseDups.length = l.length ↔ l.Nodup := by
  induction l with
  | nil => simp
  | cons a as ih =>
    rw [List.eraseDups_cons, List.nodup_cons]
    have h1 : (as.filter fun b => !b == a).length ≤ as.length := List.length_filter_le _ _
    have h2 := eraseDups_length_le _ (as.filter fun b => !b == a) le_rfl
    simp only [List.length_cons]
    constructor
    · intro h
      have h3 : (as.filter fun b => !b == a).length = as.length := by omega
      have h4 : as.filter (fun b => !b == a) = as :=
        List.length_filter_eq_length_iff.1 h3 |> List.filter_eq_self.2
      rw [h4] at h
      refine ⟨?_, ih.1 (by omega)⟩
      intro hmem
      have := List.filter_eq_self.1 h4 a hmem
      simp at this
    · rintro ⟨hna, hnd⟩
      have h4 : as.filter (fun b => !b == a) = as := by
        apply List.filter_eq_self.2
        intro b hb
        have : b ≠ a := fun h => hna (h ▸ hb)
        simpa using this
      rw [h4, ih.2 hnd]

theorem modesOK_ok_iff (d : Nat) (i : Instr) :
    modesOK d i = .ok () ↔ i.modes.Nodup ∧ ∀ m ∈ i.modes, m < d := by
  unfold modesOK
  cases hm : i.modes with
  | nil => simp [pure, Except.pure]
  | cons a as =>
    rw [← hm]
    have hne : i.modes.isEmpty = false := by rw [hm]; rfl
    simp only [hne, Bool.false_eq_true, if_false]
    by_cases hnd : i.modes.Nodup
    · have := (eraseDups_length_eq_iff i.modes).2 hnd
      simp only [this, bne_self_eq_false, Bool.false_eq_true, if_false]
      by_cases hr : ∀ m ∈ i.modes, m < d
      · have : i.modes.any (fun m => m ≥ d) = false := by
          simp only [List.any_eq_false, decide_eq_true_eq]; intro m hm; have := hr m hm; omega
        simpa [this, hnd, pure, Except.pure] using hr
      · have : i.modes.any (fun m => m ≥ d) = true := by
          simp only [List.any_eq_true, decide_eq_true_eq]
          by_contra hcon
          exact hr fun m hm => by
            by_contra hlt
            exact hcon ⟨m, hm, by omega⟩
        simp [this, hnd, hr, throw, throwThe, MonadExceptOf.throw]
    · have : (i.modes.eraseDups.length != i.modes.length) = true := by
        simp only [bne_iff_ne]; exact fun h => hnd ((eraseDups_length_eq_iff _).1 h)
      simp [this, hnd, throw, throwThe, MonadExceptOf.throw]

theorem forM_modesOK_iff (d : Nat) (is : List Instr) :
    is.forM (modesOK d) = .ok () ↔
      (∀ i ∈ is, i.modes.Nodup) ∧ (∀ i ∈ is, ∀ m ∈ i.modes, m < d) := by
  induction is with
  | nil => simp [pure, Except.pure]
  | cons a as ih =>
    change (modesOK d a >>= fun _ => as.forM (modesOK d)) = .ok () ↔ _
    cases ha : modesOK d a with
    | error e =>
      have := (modesOK_ok_iff d a).not.1 (by rw [ha]; simp)
      simp only [bind, Except.bind]
      constructor
      · intro h; cases h
      · rintro ⟨h1, h2⟩; exact absurd ⟨h1 a (by simp), h2 a (by simp)⟩ this
    | ok u =>
      have := (modesOK_ok_iff d a).1 (by rw [ha])
      simp only [bind, Except.bind, ih, List.forall_mem_cons]
      tauto

theorem isPrep_iff (i : Instr) : isPrep i = true ↔ i.base = .prep := by simp [isPrep]
theorem isMeas_iff (i : Instr) : isMeas i = true ↔ i.base = .meas := by simp [isMeas]

theorem prepsAtBeginning_iff (is : List Instr) :
    prepsAtBeginning is = true ↔
      ∀ (pre : List Instr) (i : Instr) (post : List Instr), is = pre ++ i :: post →
        i.base = .prep → ∀ j ∈ pre, j.base = .prep := by
  induction is with
  | nil => simp [prepsAtBeginning]
  | cons a rest ih =>
    unfold prepsAtBeginning
    by_cases hp : isPrep a = true
    · rw [if_pos hp, ih]
      constructor
      · intro h pre i post heq hi j hj
        cases pre with
        | nil => simp at hj
        | cons p pre' =>
          simp only [List.cons_append, List.cons.injEq] at heq
          obtain ⟨rfl, heq⟩ := heq
          rcases List.mem_cons.1 hj with rfl | hj
          · exact (isPrep_iff _).1 hp
          · exact h pre' i post heq hi j hj
      · intro h pre i post heq hi j hj
        exact h (a :: pre) i post (by rw [heq]; rfl) hi j (by simp [hj])
    · rw [if_neg hp]
      constructor
      · intro h pre i post heq hi j hj
        cases pre with
        | nil => simp at hj
        | cons p pre' =>
          simp only [List.cons_append, List.cons.injEq] at heq
          obtain ⟨rfl, heq⟩ := heq
          have := List.all_eq_true.1 h i (by rw [heq]; simp)
          simp [(isPrep_iff i).2 hi] at this
      · intro h
        rw [List.all_eq_true]
        intro j hj
        obtain ⟨pre, post, heq⟩ := List.append_of_mem hj
        by_contra hcon
        simp only [Bool.not_eq_true', Bool.not_eq_false] at hcon
        have := h (a :: pre) j post (by rw [heq]; rfl) ((isPrep_iff j).1 hcon) a (by simp)
        exact hp ((isPrep_iff a).2 this)

theorem measAtEnd_iff (spec : SimSpec) (is : List Instr) :
    measAtEnd spec is = true ↔
      ∀ (pre : List Instr) (i : Instr) (post : List Instr), is = pre ++ i :: post →
        i.base = .meas → post ≠ [] → i.cls ∈ spec.midCircuit := by
  induction is with
  | nil => simp [measAtEnd]
  | cons a rest ih =>
    cases rest with
    | nil =>
      simp only [measAtEnd, true_iff]
      intro pre i post heq _ hpost
      have := congrArg List.length heq
      simp at this
      have : post.length = 0 := by omega
      exact absurd (List.length_eq_zero_iff.1 this) hpost
    | cons b rest' =>
      simp only [measAtEnd, Bool.and_eq_true, ih]
      constructor
      · rintro ⟨h1, h2⟩ pre i post heq hi hpost
        cases pre with
        | nil =>
          simp only [List.nil_append, List.cons.injEq] at heq
          obtain ⟨rfl, -⟩ := heq
          simpa [(isMeas_iff a).2 hi] using h1
        | cons p pre' =>
          simp only [List.cons_append, List.cons.injEq] at heq
          exact h2 pre' i post heq.2 hi hpost
      · intro h
        constructor
        · by_cases hm : isMeas a = true
          · have := h [] a (b :: rest') rfl ((isMeas_iff a).1 hm) (by simp)
            simp [hm, this]
          · simp [hm]
        · intro pre i post heq hi hpost
          exact h (a :: pre) i post (by rw [heq]; rfl) hi hpost

theorem validate_ok_iff_bool (spec : SimSpec) (simD : Option Nat) (is : List Instr)
    (shots : ShotsArg) (init : InitArg) (d : Nat) :
    validateRequest spec simD is shots init = .ok d ↔
      shotsOK shots = true ∧ ∃ v, chooseD simD is = some v ∧
        restCheck spec is shots init v = .ok d := by
  rw [validateRequest_eq]
  cases hs : shotsOK shots
  · simp [throw, throwThe, MonadExceptOf.throw]
  · cases hc : chooseD simD is <;> simp [throw, throwThe, MonadExceptOf.throw]

theorem shotsOK_iff (shots : ShotsArg) :
    shotsOK shots = true ↔ shots = .none ∨ ∃ n, shots = .pos n ∧ 0 < n := by
  cases shots <;> simp [shotsOK]

theorem chooseD_iff (simD : Option Nat) (is : List Instr) (d : Nat) :
    chooseD simD is = some d ↔
      (∃ n, simD = some n ∧ 0 < n ∧ d = n) ∨
        ((simD = none ∨ simD = some 0) ∧ inferD is = some d) := by
  rcases simD with _ | _ | n
  · simp [chooseD]
  · simp [chooseD]
    intro h1 h2; omega
  · simp only [chooseD, Option.some.injEq]
    constructor
    · intro h; exact Or.inl ⟨n + 1, rfl, by omega, h.symm⟩
    · rintro (⟨m, hm, -, rfl⟩ | ⟨h | h, -⟩)
      · exact hm
      · cases h
      · simp at h

/-- **C13** the validation chain accepts exactly the well-formed requests -/
theorem validate_ok_iff_wellFormed (spec : SimSpec) (simD : Option Nat) (is : List Instr)
    (shots : ShotsArg) (init : InitArg) (d : Nat) :
    validateRequest spec simD is shots init = .ok d ↔ WellFormed spec simD is shots init d := by
  rw [validate_ok_iff_bool]
  constructor
  · rintro ⟨hs, v, hv, hr⟩
    obtain ⟨rfl, hsup, hf, hp, hm, hsn, hinit⟩ := (restCheck_ok_iff ..).1 hr
    obtain ⟨hnd, hrg⟩ := (forM_modesOK_iff ..).1 hf
    exact
      { shots_ok := (shotsOK_iff _).1 hs
        d_def := (chooseD_iff ..).1 hv
        supported := fun i hi => by simpa using List.all_eq_true.1 hsup i hi
        modes_distinct := hnd
        modes_range := hrg
        preps_first := (prepsAtBeginning_iff _).1 hp
        meas_last := (measAtEnd_iff ..).1 hm
        shots_none := fun hsh i hi him => by
          have := List.all_eq_true.1 (hsn hsh) i hi
          simpa [(isMeas_iff i).2 him] using this
        init_ok := hinit }
  · intro h
    refine ⟨(shotsOK_iff _).2 h.shots_ok, d, (chooseD_iff ..).2 h.d_def,
      (restCheck_ok_iff ..).2 ⟨rfl, ?_, (forM_modesOK_iff ..).2 ⟨h.modes_distinct, h.modes_range⟩,
        (prepsAtBeginning_iff _).2 h.preps_first, (measAtEnd_iff ..).2 h.meas_last, ?_, h.init_ok⟩⟩
    · rw [List.all_eq_true]; intro i hi; simpa using h.supported i hi
    · intro hsh
      rw [List.all_eq_true]; intro i hi
      by_cases him : isMeas i = true
      · simpa [him] using h.shots_none hsh i hi ((isMeas_iff i).1 him)
      · simp [him]

/-! ### the full up-front validation (`validateAll`) -/

theorem validateParams_ok_iff (pval : ParamCheck) (is : List Instr) :
    validateParams pval is = .ok () ↔
      ∀ i ∈ is, isResolved i = true → pval i.cls (constParams i) = .ok () := by
  unfold validateParams
  induction is with
  | nil => simp [pure, Except.pure]
  | cons a as ih =>
    change ((if isResolved a then pval a.cls (constParams a) else pure ()) >>= fun _ =>
      as.forM (fun i => if isResolved i then pval i.cls (constParams i) else pure ())) = .ok () ↔ _
    simp only [List.forall_mem_cons]
    cases hr : isResolved a with
    | false =>
      simp only [Bool.false_eq_true, if_false, false_imp_iff, true_and]
      exact ih
    | true =>
      simp only [if_true, true_imp_iff]
      cases hp : pval a.cls (constParams a) with
      | error e =>
        simp only [bind, Except.bind]
        constructor
        · intro h; cases h
        · rintro ⟨h, -⟩; cases h
      | ok u =>
        simp only [bind, Except.bind, true_and]
        exact ih

/-- the chosen number of modes does not depend on the initial-state argument, and a request
accepted with an initial state is accepted without one -/
theorem validateRequest_absent_of {spec : SimSpec} {simD : Option Nat} {is : List Instr}
    {shots : ShotsArg} {init : InitArg} {d : Nat}
    (h : validateRequest spec simD is shots init = .ok d) :
    validateRequest spec simD is shots .absent = .ok d := by
  rw [validate_ok_iff_wellFormed] at h ⊢
  exact { h with init_ok := Or.inl rfl }

theorem validateRequest_d_unique {spec : SimSpec} {simD : Option Nat} {is : List Instr}
    {shots : ShotsArg} {init init' : InitArg} {d d' : Nat}
    (h : validateRequest spec simD is shots init = .ok d)
    (h' : validateRequest spec simD is shots init' = .ok d') : d = d' := by
  have h1 := (chooseD_iff ..).2 ((validate_ok_iff_wellFormed ..).1 h).d_def
  have h2 := (chooseD_iff ..).2 ((validate_ok_iff_wellFormed ..).1 h').d_def
  rw [h1] at h2
  exact Option.some.inj h2

/-- **C13** `validateAll` accepts exactly the well-formed requests whose instructions without
outcome-dependent parameters pass their own `_validate` -/
theorem validateAll_ok_iff (spec : SimSpec) (pval : ParamCheck) (simD : Option Nat)
    (is : List Instr) (shots : ShotsArg) (init : InitArg) (d : Nat) :
    validateAll spec pval simD is shots init = .ok d ↔
      (WellFormed spec simD is shots init d ∧
        ∀ i ∈ is, isResolved i = true → pval i.cls (constParams i) = .ok ()) := by
  rw [← validate_ok_iff_wellFormed, ← validateParams_ok_iff]
  unfold validateAll
  constructor
  · intro h
    cases h1 : validateRequest spec simD is shots .absent with
    | error e => rw [h1] at h; cases h
    | ok d1 =>
      cases h2 : validateParams pval is with
      | error e => rw [h1, h2] at h; cases h
      | ok u =>
        cases h3 : validateRequest spec simD is shots init with
        | error e => rw [h1, h2, h3] at h; cases h
        | ok d3 =>
          rw [h1, h2, h3] at h
          have hd : d1 = d := by
            simp only [bind, Except.bind, pure, Except.pure] at h
            exact Except.ok.inj h
          have hd3 : d3 = d1 := validateRequest_d_unique h3 h1
          exact ⟨by rw [hd3, hd], rfl⟩
  · rintro ⟨h3, h2⟩
    rw [validateRequest_absent_of h3, h2, h3]
    rfl

/-- **C13** an accepted request goes straight to the instruction loop on
`Branch(state, frequency=1)`: nothing else happens between validation and execution -/
theorem accepted_reaches_execution (spec : SimSpec) (oracle : Oracle σ) (pval : ParamCheck)
    (simD : Option Nat) (is : List Instr) (shots : ShotsArg) (init : InitArg) (st0 : σ) (d : Nat)
    (w : World σ) (h : validateAll spec pval simD is shots init = .ok d) :
    (execute spec oracle pval simD is shots init st0).run.run w =
      (execLoop oracle pval shots.toOpt 0 is (List.range d)
        [{ state := if d = 0 then none else some st0, outcome := [], freq := 1 }]).run.run w := by
  change runM (execute spec oracle pval simD is shots init st0) w = runM _ w
  unfold execute
  rw [runM_bind, h]
  rfl

end Pq.Engine
