import Mathlib.Tactic
import Mathlib.LinearAlgebra.Matrix.PosDef
import Mathlib.Analysis.SpecialFunctions.Trigonometric.Basic
import Mathlib.Analysis.SpecialFunctions.Sqrt
import Mathlib.Data.Complex.Basic

/-!
C08 (Fock side): the loss channel of the Fock simulators (`attenuator` in
piquasso/_simulators/fock/simulation_steps.py) is a completely positive trace preserving map on the truncated space.

The code, for the attenuated mode with occupation `n` (ket) and `m` (bra) and any occupation `a`, `b` of the other modes:
```
new[(n-k, a), (m-k, b)] += rho[(n, a), (m, b)] * cos(theta)^(n+m) * tan(theta)^(2k) * sqrt(C(n,k) C(m,k))     k = 0..min(n,m)
```
Model: the index set is `Fin c × α` (`c` = cutoff of the attenuated mode, `α` = any finite label set for the other modes;
the real truncated basis is the subset `n + |a| < cutoff`, which lowering `n` never leaves).  `attenuate` is the same
update written per target entry (`i = n-k`, `j = m-k`).
-/
namespace Pq.Attenuator
open BigOperators Matrix
open scoped ComplexOrder

variable {α : Type} [Fintype α] [DecidableEq α] (c : ℕ)

/-- Kraus operator `K_k`: `⟨(i,a)| K_k |(n,b)⟩ = [a = b][i + k = n] sqrt(C(n,k)) cos^(n-k) sin^k` -/
noncomputable def kraus (θ : ℝ) (k : ℕ) : Matrix (Fin c × α) (Fin c × α) ℂ :=
  fun ia nb =>
    if ia.2 = nb.2 ∧ ia.1.val + k = nb.1.val then
      ((Real.sqrt (nb.1.val.choose k : ℝ) * Real.cos θ ^ (nb.1.val - k) * Real.sin θ ^ k : ℝ) : ℂ)
    else 0

/-- the update of the code, per target entry: `new[(i,a),(j,b)] = Σ_k rho[(i+k,a),(j+k,b)] cos^(i+j+2k) tan^(2k) sqrt(C(i+k,k) C(j+k,k))` -/
noncomputable def attenuate (θ : ℝ) (ρ : Matrix (Fin c × α) (Fin c × α) ℂ) : Matrix (Fin c × α) (Fin c × α) ℂ :=
  fun ia jb =>
    ∑ k ∈ Finset.range c,
      if h : ia.1.val + k < c ∧ jb.1.val + k < c then
        ρ (⟨ia.1.val + k, h.1⟩, ia.2) (⟨jb.1.val + k, h.2⟩, jb.2)
          * ((Real.cos θ ^ (ia.1.val + k + (jb.1.val + k)) * Real.tan θ ^ (2 * k)
              * Real.sqrt (((ia.1.val + k).choose k : ℝ) * ((jb.1.val + k).choose k : ℝ)) : ℝ) : ℂ)
      else 0

/-- the nonzero entry of `K_k` in column `n` -/
noncomputable def coef (θ : ℝ) (n k : ℕ) : ℝ :=
  Real.sqrt (n.choose k : ℝ) * Real.cos θ ^ (n - k) * Real.sin θ ^ k

omit [Fintype α] in
lemma kraus_apply (θ : ℝ) (k : ℕ) (x y : Fin c × α) :
    kraus c θ k x y = if x.2 = y.2 ∧ x.1.val + k = y.1.val then ((coef θ y.1.val k : ℝ) : ℂ) else 0 := rfl

lemma kraus_mul_apply (θ : ℝ) (k : ℕ) (M : Matrix (Fin c × α) (Fin c × α) ℂ) (x y : Fin c × α) :
    (kraus (α := α) c θ k * M) x y =
      if h : x.1.val + k < c then ((coef θ (x.1.val + k) k : ℝ) : ℂ) * M (⟨x.1.val + k, h⟩, x.2) y else 0 := by
  rw [Matrix.mul_apply]
  split_ifs with h
  · rw [Finset.sum_eq_single (⟨x.1.val + k, h⟩, x.2)]
    · simp [kraus_apply]
    · intro z _ hz
      rw [kraus_apply, if_neg, zero_mul]
      rintro ⟨h1, h2⟩
      apply hz
      refine Prod.ext (Fin.ext ?_) h1.symm
      simp [h2]
    · simp
  · apply Finset.sum_eq_zero
    intro z _
    rw [kraus_apply, if_neg, zero_mul]
    rintro ⟨_, h2⟩
    exact h (h2 ▸ z.1.isLt)

lemma mul_kraus_conjTranspose_apply (θ : ℝ) (k : ℕ) (M : Matrix (Fin c × α) (Fin c × α) ℂ) (x y : Fin c × α) :
    (M * (kraus (α := α) c θ k)ᴴ) x y =
      if h : y.1.val + k < c then M x (⟨y.1.val + k, h⟩, y.2) * ((coef θ (y.1.val + k) k : ℝ) : ℂ) else 0 := by
  rw [Matrix.mul_apply]
  split_ifs with h
  · rw [Finset.sum_eq_single (⟨y.1.val + k, h⟩, y.2)]
    · simp [kraus_apply, Matrix.conjTranspose_apply]
    · intro z _ hz
      rw [Matrix.conjTranspose_apply, kraus_apply, if_neg, star_zero, mul_zero]
      rintro ⟨h1, h2⟩
      apply hz
      refine Prod.ext (Fin.ext ?_) h1.symm
      simp [h2]
    · simp
  · apply Finset.sum_eq_zero
    intro z _
    rw [Matrix.conjTranspose_apply, kraus_apply, if_neg, star_zero, mul_zero]
    rintro ⟨_, h2⟩
    exact h (h2 ▸ z.1.isLt)

lemma coef_mul (θ : ℝ) (hc : Real.cos θ ≠ 0) (i j k : ℕ) :
    Real.cos θ ^ (i + k + (j + k)) * Real.tan θ ^ (2 * k)
        * Real.sqrt (((i + k).choose k : ℝ) * ((j + k).choose k : ℝ))
      = coef θ (i + k) k * coef θ (j + k) k := by
  unfold coef
  rw [Nat.add_sub_cancel, Nat.add_sub_cancel, Real.sqrt_mul (Nat.cast_nonneg _), Real.tan_eq_sin_div_cos,
    div_pow]
  have h2 : Real.cos θ ^ (2 * k) ≠ 0 := pow_ne_zero _ hc
  have h : Real.cos θ ^ (i + k + (j + k)) * (Real.sin θ ^ (2 * k) / Real.cos θ ^ (2 * k))
      = Real.cos θ ^ i * Real.cos θ ^ j * Real.sin θ ^ (2 * k) := by
    rw [show i + k + (j + k) = i + j + 2 * k by ring, pow_add, pow_add, mul_assoc,
      mul_div_cancel₀ _ h2]
  rw [h]
  ring

lemma kraus_entry (θ : ℝ) (k : ℕ) (ρ : Matrix (Fin c × α) (Fin c × α) ℂ) (x y : Fin c × α) :
    (kraus (α := α) c θ k * ρ * (kraus (α := α) c θ k)ᴴ) x y =
      if h : x.1.val + k < c ∧ y.1.val + k < c then
        ρ (⟨x.1.val + k, h.1⟩, x.2) (⟨y.1.val + k, h.2⟩, y.2)
          * ((coef θ (x.1.val + k) k * coef θ (y.1.val + k) k : ℝ) : ℂ)
      else 0 := by
  rw [mul_kraus_conjTranspose_apply]
  by_cases hy : y.1.val + k < c
  · rw [dif_pos hy, kraus_mul_apply]
    by_cases hx : x.1.val + k < c
    · rw [dif_pos hx, dif_pos ⟨hx, hy⟩]
      push_cast
      ring
    · rw [dif_neg hx, dif_neg (fun h => hx h.1), zero_mul]
  · rw [dif_neg hy, dif_neg (fun h => hy h.2)]

lemma coef_sq (θ : ℝ) (n k : ℕ) :
    coef θ n k ^ 2 = (Real.sin θ ^ 2) ^ k * (Real.cos θ ^ 2) ^ (n - k) * (n.choose k : ℝ) := by
  unfold coef
  rw [mul_pow, mul_pow, Real.sq_sqrt (Nat.cast_nonneg _)]
  ring

lemma sum_coef_sq (θ : ℝ) (n : ℕ) (hn : n < c) :
    ∑ k ∈ Finset.range c, (if k ≤ n then coef θ n k ^ 2 else 0) = 1 := by
  rw [← Finset.sum_filter]
  have : (Finset.range c).filter (fun k => k ≤ n) = Finset.range (n + 1) := by
    ext k
    simp only [Finset.mem_filter, Finset.mem_range]
    omega
  rw [this]
  simp_rw [coef_sq]
  rw [← add_pow, Real.sin_sq_add_cos_sq, one_pow]

lemma kraus_conjTranspose_mul_apply (θ : ℝ) (k : ℕ) (x y : Fin c × α) :
    ((kraus (α := α) c θ k)ᴴ * kraus (α := α) c θ k) x y =
      if x = y then (((if k ≤ x.1.val then coef θ x.1.val k ^ 2 else 0 : ℝ)) : ℂ) else 0 := by
  rw [Matrix.mul_apply]
  by_cases hxy : x = y
  · subst hxy
    rw [if_pos rfl]
    by_cases hk : k ≤ x.1.val
    · rw [if_pos hk]
      have hlt : x.1.val - k < c := lt_of_le_of_lt (Nat.sub_le _ _) x.1.isLt
      rw [Finset.sum_eq_single (⟨x.1.val - k, hlt⟩, x.2)]
      · have : x.1.val - k + k = x.1.val := Nat.sub_add_cancel hk
        simp [kraus_apply, Matrix.conjTranspose_apply, this, sq]
      · intro z _ hz
        rw [Matrix.conjTranspose_apply, kraus_apply, if_neg, star_zero, zero_mul]
        rintro ⟨h1, h2⟩
        apply hz
        refine Prod.ext (Fin.ext ?_) h1
        simp only
        omega
      · simp
    · rw [if_neg hk]
      simp only [Complex.ofReal_zero]
      apply Finset.sum_eq_zero
      intro z _
      rw [Matrix.conjTranspose_apply, kraus_apply, if_neg, star_zero, zero_mul]
      rintro ⟨_, h2⟩
      omega
  · rw [if_neg hxy]
    apply Finset.sum_eq_zero
    intro z _
    rw [Matrix.conjTranspose_apply, kraus_apply, kraus_apply]
    split_ifs with h1 h2
    · exfalso
      apply hxy
      refine Prod.ext (Fin.ext ?_) (h1.1.symm.trans h2.1)
      omega
    all_goals simp

/-- the code's formula is the Kraus form (for `cos θ ≠ 0`; at `cos θ = 0` the code evaluates `0 * tan(π/2)^(2k)`) -/
theorem attenuate_eq_kraus (θ : ℝ) (hc : Real.cos θ ≠ 0) (ρ : Matrix (Fin c × α) (Fin c × α) ℂ) :
    attenuate c θ ρ = ∑ k ∈ Finset.range c, kraus c θ k * ρ * (kraus c θ k)ᴴ := by
  ext x y
  rw [Matrix.sum_apply]
  unfold attenuate
  refine Finset.sum_congr rfl fun k _ => ?_
  rw [kraus_entry]
  by_cases h : x.1.val + k < c ∧ y.1.val + k < c
  · rw [dif_pos h, dif_pos h, coef_mul θ hc]
  · rw [dif_neg h, dif_neg h]

/-- completeness of the Kraus operators on the truncated space (binomial theorem): `Σ_k K_k† K_k = 1` -/
theorem kraus_complete (θ : ℝ) :
    ∑ k ∈ Finset.range c, (kraus (α := α) c θ k)ᴴ * kraus c θ k = 1 := by
  ext x y
  rw [Matrix.sum_apply]
  simp_rw [kraus_conjTranspose_mul_apply]
  rw [Matrix.one_apply]
  by_cases hxy : x = y
  · simp only [if_pos hxy]
    rw [← Complex.ofReal_sum, sum_coef_sq c θ x.1.val x.1.isLt, Complex.ofReal_one]
  · simp only [if_neg hxy, Finset.sum_const_zero]

/-- the channel keeps positive semidefinite matrices positive semidefinite -/
theorem attenuate_posSemidef (θ : ℝ) (hc : Real.cos θ ≠ 0) (ρ : Matrix (Fin c × α) (Fin c × α) ℂ)
    (hρ : ρ.PosSemidef) : (attenuate c θ ρ).PosSemidef := by
  rw [attenuate_eq_kraus c θ hc]
  exact Matrix.posSemidef_sum _ fun k _ => hρ.mul_mul_conjTranspose_same _

/-- … Hermitian matrices Hermitian … -/
theorem attenuate_isHermitian (θ : ℝ) (hc : Real.cos θ ≠ 0) (ρ : Matrix (Fin c × α) (Fin c × α) ℂ)
    (hρ : ρ.IsHermitian) : (attenuate c θ ρ).IsHermitian := by
  rw [attenuate_eq_kraus c θ hc]
  exact isSelfAdjoint_sum _ fun k _ => Matrix.isHermitian_mul_mul_conjTranspose _ hρ

/-- … and the trace -/
theorem attenuate_trace (θ : ℝ) (hc : Real.cos θ ≠ 0) (ρ : Matrix (Fin c × α) (Fin c × α) ℂ) :
    Matrix.trace (attenuate c θ ρ) = Matrix.trace ρ := by
  rw [attenuate_eq_kraus c θ hc, Matrix.trace_sum]
  simp_rw [Matrix.trace_mul_cycle (kraus c θ _) ρ]
  rw [← Matrix.trace_sum, ← Finset.sum_mul, kraus_complete, one_mul]

end Pq.Attenuator
