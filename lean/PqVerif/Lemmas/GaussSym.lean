import Mathlib.Tactic
import Mathlib.Logic.Equiv.Fin.Basic
import PqVerif.Lemmas.GaussCongr

/-!
C16 lemmas for the Gaussian simulator: the block update of `_apply_linear*` is equivariant under
relabelling of the modes, and updates on disjoint mode sets commute (always — also for active gates).
-/
namespace Pq.Gauss
open Matrix

variable {K : Type} [CommRing K] [StarRing K] {d k k₁ k₂ : Nat}
set_option linter.unusedSectionVars false

/-- the state with mode `i` renamed `σ i` -/
def relabelState (σ : Equiv.Perm (Fin d)) (s : State K d) : State K d :=
  { m := s.m ∘ σ.symm, C := s.C.submatrix σ.symm σ.symm, G := s.G.submatrix σ.symm σ.symm }

/-! ### relabelling of the modes -/

theorem pos?_relabel (modes : Fin k → Fin d) (σ : Equiv.Perm (Fin d)) (i : Fin d) :
    pos? (σ ∘ modes) i = pos? modes (σ.symm i) := by
  unfold pos?
  congr 1
  funext a
  simp [Equiv.eq_symm_apply]

theorem blockOf_relabel (modes : Fin k → Fin d) (σ : Equiv.Perm (Fin d))
    (M : Matrix (Fin d) (Fin d) K) :
    blockOf (σ ∘ modes) (M.submatrix σ.symm σ.symm) = blockOf modes M := by
  ext a b; simp [blockOf]

theorem rowsOf_relabel (modes : Fin k → Fin d) (σ : Equiv.Perm (Fin d))
    (M : Matrix (Fin d) (Fin d) K) :
    rowsOf (σ ∘ modes) (M.submatrix σ.symm σ.symm) = (rowsOf modes M).submatrix id σ.symm := by
  ext a b; simp [rowsOf]

theorem assignBlock_relabel (modes : Fin k → Fin d) (σ : Equiv.Perm (Fin d))
    (M : Matrix (Fin d) (Fin d) K) (B : Matrix (Fin k) (Fin k) K) :
    assignBlock (σ ∘ modes) (M.submatrix σ.symm σ.symm) B
      = (assignBlock modes M B).submatrix σ.symm σ.symm := by
  ext i j; simp only [assignBlock, pos?_relabel, Matrix.submatrix_apply]

theorem assignAuxRows_relabel (modes : Fin k → Fin d) (σ : Equiv.Perm (Fin d))
    (M : Matrix (Fin d) (Fin d) K) (R : Matrix (Fin k) (Fin d) K) :
    assignAuxRows (σ ∘ modes) (M.submatrix σ.symm σ.symm) (R.submatrix id σ.symm)
      = (assignAuxRows modes M R).submatrix σ.symm σ.symm := by
  ext i j; simp only [assignAuxRows, pos?_relabel, Matrix.submatrix_apply, id]

theorem assignCols_relabel (modes : Fin k → Fin d) (σ : Equiv.Perm (Fin d))
    (M : Matrix (Fin d) (Fin d) K) (X : Matrix (Fin d) (Fin k) K) :
    assignCols (σ ∘ modes) (M.submatrix σ.symm σ.symm) (X.submatrix σ.symm id)
      = (assignCols modes M X).submatrix σ.symm σ.symm := by
  ext i j; simp only [assignCols, pos?_relabel, Matrix.submatrix_apply, id]

theorem starCols_relabel (modes : Fin k → Fin d) (σ : Equiv.Perm (Fin d))
    (M : Matrix (Fin d) (Fin d) K) :
    (fun i b => star ((M.submatrix σ.symm σ.symm) ((σ ∘ modes) b) i) : Matrix (Fin d) (Fin k) K)
      = Matrix.submatrix (fun i b => star (M (modes b) i) : Matrix (Fin d) (Fin k) K) σ.symm id := by
  ext i b; simp [Matrix.submatrix]

theorem cols_relabel (modes : Fin k → Fin d) (σ : Equiv.Perm (Fin d))
    (M : Matrix (Fin d) (Fin d) K) :
    (fun i b => (M.submatrix σ.symm σ.symm) ((σ ∘ modes) b) i : Matrix (Fin d) (Fin k) K)
      = Matrix.submatrix (fun i b => M (modes b) i : Matrix (Fin d) (Fin k) K) σ.symm id := by
  ext i b; simp [Matrix.submatrix]

theorem mul_submatrix_right {l m n o : Type} [Fintype m] (X : Matrix l m K) (R : Matrix m n K)
    (f : o → n) : X * R.submatrix id f = (X * R).submatrix id f := by
  ext a b; simp [Matrix.mul_apply]

theorem submatrix_add_submatrix {l m n o : Type} (X Y : Matrix l m K) (f : n → l) (g : o → m) :
    X.submatrix f g + Y.submatrix f g = (X + Y).submatrix f g := rfl

/-- renaming the modes of the gate and of the state renames the result -/
theorem applyLinear_equivariant (P A : Matrix (Fin k) (Fin k) K) (modes : Fin k → Fin d)
    (σ : Equiv.Perm (Fin d)) (s : State K d) :
    applyLinear P A (σ ∘ modes) (relabelState σ s) = relabelState σ (applyLinear P A modes s) := by
  simp only [applyLinear, relabelState, State.mk.injEq]
  refine ⟨?_, ?_, ?_⟩
  · funext i
    simp only [pos?_relabel, Function.comp_apply, Equiv.symm_apply_apply]
  · simp only [blockOf_relabel, assignBlock_relabel, rowsOf_relabel, mul_submatrix_right,
      submatrix_add_submatrix, assignAuxRows_relabel, starCols_relabel]
    exact assignCols_relabel _ _ _ _
  · simp only [blockOf_relabel, assignBlock_relabel, rowsOf_relabel, mul_submatrix_right,
      submatrix_add_submatrix, assignAuxRows_relabel, cols_relabel]
    exact assignCols_relabel _ _ _ _

theorem displace_equivariant (alpha : K) (modes : Fin k → Fin d) (σ : Equiv.Perm (Fin d))
    (s : State K d) :
    displace alpha (σ ∘ modes) (relabelState σ s) = relabelState σ (displace alpha modes s) := by
  simp only [displace, relabelState, State.mk.injEq]
  refine ⟨?_, trivial, trivial⟩
  funext i
  simp only [pos?_relabel, Function.comp_apply]

/-! ### disjoint tuples: the mean -/

theorem pos?_of_disjoint {m₁ : Fin k₁ → Fin d} {m₂ : Fin k₂ → Fin d}
    (hdisj : ∀ a b, m₁ a ≠ m₂ b) (b : Fin k₂) : pos? m₁ (m₂ b) = none := by
  cases h : pos? m₁ (m₂ b) with
  | none => rfl
  | some a => exact absurd (pos?_some h) (hdisj a b)

theorem pos?_disjoint_absurd {m₁ : Fin k₁ → Fin d} {m₂ : Fin k₂ → Fin d}
    (hdisj : ∀ a b, m₁ a ≠ m₂ b) {i : Fin d} {a : Fin k₁} {b : Fin k₂}
    (h1 : pos? m₁ i = some a) (h2 : pos? m₂ i = some b) : False :=
  hdisj a b ((pos?_some h1).trans (pos?_some h2).symm)

theorem applyLinear_m_comm (P₁ A₁ : Matrix (Fin k₁) (Fin k₁) K)
    (P₂ A₂ : Matrix (Fin k₂) (Fin k₂) K) (m₁ : Fin k₁ → Fin d) (m₂ : Fin k₂ → Fin d)
    (hdisj : ∀ a b, m₁ a ≠ m₂ b) (s : State K d) :
    (applyLinear P₂ A₂ m₂ (applyLinear P₁ A₁ m₁ s)).m
      = (applyLinear P₁ A₁ m₁ (applyLinear P₂ A₂ m₂ s)).m := by
  have hd' : ∀ b a, m₂ b ≠ m₁ a := fun b a h => hdisj a b h.symm
  funext i
  simp only [applyLinear, pos?_of_disjoint hdisj, pos?_of_disjoint hd']
  cases h1 : pos? m₁ i <;> cases h2 : pos? m₂ i <;> simp only []
  exact (pos?_disjoint_absurd hdisj h1 h2).elim


/-! ### closed form of the update without symplectic hypotheses -/

theorem applyLinear_C_closed (P A : Matrix (Fin k) (Fin k) K) (modes : Fin k → Fin d)
    (hinj : Function.Injective modes) (s : State K d) :
    (applyLinear P A modes s).C =
      Nm K modes * s.C * Nm K modes
      + Qm K modes * (conj P * (Qm K modes)ᵀ * s.C + conj A * (Qm K modes)ᵀ * s.G) * Nm K modes
      + Nm K modes * (conj (conj P * (Qm K modes)ᵀ * s.C + conj A * (Qm K modes)ᵀ * s.G))ᵀ
          * (Qm K modes)ᵀ
      + Qm K modes * (conj (conj P * ((Qm K modes)ᵀ * s.C * Qm K modes) * Pᵀ
          + conj A * (((Qm K modes)ᵀ * s.C * Qm K modes)ᵀ + 1) * Aᵀ
          + conj P * (conj ((Qm K modes)ᵀ * s.G * Qm K modes))ᵀ * Aᵀ
          + conj A * ((Qm K modes)ᵀ * s.G * Qm K modes) * Pᵀ))ᵀ * (Qm K modes)ᵀ := by
  simp only [applyLinear, starCols_eq, cols_eq, assignCols_eq hinj, assignAuxRows_eq hinj,
    assignBlock_eq hinj, rowsOf_eq, blockOf_eq]
  gnorm hinj []
  abel

theorem applyLinear_G_closed (P A : Matrix (Fin k) (Fin k) K) (modes : Fin k → Fin d)
    (hinj : Function.Injective modes) (s : State K d) :
    (applyLinear P A modes s).G =
      Nm K modes * s.G * Nm K modes
      + Qm K modes * (P * (Qm K modes)ᵀ * s.G + A * (Qm K modes)ᵀ * s.C) * Nm K modes
      + Nm K modes * (P * (Qm K modes)ᵀ * s.G + A * (Qm K modes)ᵀ * s.C)ᵀ * (Qm K modes)ᵀ
      + Qm K modes * (P * ((Qm K modes)ᵀ * s.G * Qm K modes) * Pᵀ
          + A * (conj ((Qm K modes)ᵀ * s.G * Qm K modes))ᵀ * Aᵀ
          + P * (((Qm K modes)ᵀ * s.C * Qm K modes)ᵀ + 1) * Aᵀ
          + A * ((Qm K modes)ᵀ * s.C * Qm K modes) * Pᵀ)ᵀ * (Qm K modes)ᵀ := by
  simp only [applyLinear, starCols_eq, cols_eq, assignCols_eq hinj, assignAuxRows_eq hinj,
    assignBlock_eq hinj, rowsOf_eq, blockOf_eq]
  gnorm hinj []
  abel

/-! ### two disjoint tuples -/

theorem QmT_mul_Qm_disj {m₁ : Fin k₁ → Fin d} {m₂ : Fin k₂ → Fin d}
    (hdisj : ∀ a b, m₁ a ≠ m₂ b) : (Qm K m₁)ᵀ * Qm K m₂ = 0 := by
  ext a b
  rw [QmT_mul_apply, Qm, Matrix.zero_apply, if_neg]
  exact fun h => hdisj a b h.symm

theorem QmT_mul_Qm_disj_assoc {n : Nat} {m₁ : Fin k₁ → Fin d} {m₂ : Fin k₂ → Fin d}
    (hdisj : ∀ a b, m₁ a ≠ m₂ b) (X : Matrix (Fin k₂) (Fin n) K) :
    (Qm K m₁)ᵀ * (Qm K m₂ * X) = 0 := by
  rw [← Matrix.mul_assoc, QmT_mul_Qm_disj hdisj, Matrix.zero_mul]

/-- projection on the modes addressed by neither tuple -/
def Rm (K : Type) [CommRing K] (m₁ : Fin k₁ → Fin d) (m₂ : Fin k₂ → Fin d) :
    Matrix (Fin d) (Fin d) K :=
  1 - Qm K m₁ * (Qm K m₁)ᵀ - Qm K m₂ * (Qm K m₂)ᵀ

theorem Nm_eq_left (m₁ : Fin k₁ → Fin d) (m₂ : Fin k₂ → Fin d) :
    Nm K m₁ = Rm K m₁ m₂ + Qm K m₂ * (Qm K m₂)ᵀ := by
  rw [Nm, Rm]; abel

theorem Nm_eq_right (m₁ : Fin k₁ → Fin d) (m₂ : Fin k₂ → Fin d) :
    Nm K m₂ = Rm K m₁ m₂ + Qm K m₁ * (Qm K m₁)ᵀ := by
  rw [Nm, Rm]; abel

section
variable {m₁ : Fin k₁ → Fin d} {m₂ : Fin k₂ → Fin d}
  (h₁ : Function.Injective m₁) (h₂ : Function.Injective m₂) (hdisj : ∀ a b, m₁ a ≠ m₂ b)
include h₁ h₂ hdisj

theorem QmT_mul_Rm_left : (Qm K m₁)ᵀ * Rm K m₁ m₂ = 0 := by
  rw [Rm, Matrix.mul_sub, Matrix.mul_sub, Matrix.mul_one, ← Matrix.mul_assoc, QmT_mul_Qm h₁,
    ← Matrix.mul_assoc, QmT_mul_Qm_disj hdisj, Matrix.one_mul, Matrix.zero_mul, sub_self, sub_zero]

theorem QmT_mul_Rm_right : (Qm K m₂)ᵀ * Rm K m₁ m₂ = 0 := by
  have hd' : ∀ b a, m₂ b ≠ m₁ a := fun b a h => hdisj a b h.symm
  rw [Rm, Matrix.mul_sub, Matrix.mul_sub, Matrix.mul_one, ← Matrix.mul_assoc,
    QmT_mul_Qm_disj hd', ← Matrix.mul_assoc, QmT_mul_Qm h₂, Matrix.one_mul, Matrix.zero_mul,
    sub_zero, sub_self]

theorem Rm_transpose : (Rm K m₁ m₂)ᵀ = Rm K m₁ m₂ := by
  simp only [Rm, Matrix.transpose_sub, Matrix.transpose_one, Matrix.transpose_mul,
    Matrix.transpose_transpose]

theorem conj_Rm : conj (Rm K m₁ m₂) = Rm K m₁ m₂ := by
  simp only [Rm, conj_sub, conj_one, conj_mul, conj_transpose, conj_Qm]

theorem Rm_mul_Qm_left : Rm K m₁ m₂ * Qm K m₁ = 0 := by
  have := congrArg Matrix.transpose (QmT_mul_Rm_left (K := K) h₁ h₂ hdisj)
  rwa [Matrix.transpose_mul, Matrix.transpose_transpose, Rm_transpose h₁ h₂ hdisj,
    Matrix.transpose_zero] at this

theorem Rm_mul_Qm_right : Rm K m₁ m₂ * Qm K m₂ = 0 := by
  have := congrArg Matrix.transpose (QmT_mul_Rm_right (K := K) h₁ h₂ hdisj)
  rwa [Matrix.transpose_mul, Matrix.transpose_transpose, Rm_transpose h₁ h₂ hdisj,
    Matrix.transpose_zero] at this

theorem Rm_mul_Rm : Rm K m₁ m₂ * Rm K m₁ m₂ = Rm K m₁ m₂ := by
  have h : ∀ X : Matrix (Fin d) (Fin d) K, Rm K m₁ m₂ * X
      = X - Qm K m₁ * ((Qm K m₁)ᵀ * X) - Qm K m₂ * ((Qm K m₂)ᵀ * X) := by
    intro X; rw [Rm, Matrix.sub_mul, Matrix.sub_mul, Matrix.one_mul, Matrix.mul_assoc,
      Matrix.mul_assoc]
  rw [h, QmT_mul_Rm_left h₁ h₂ hdisj, QmT_mul_Rm_right h₁ h₂ hdisj, Matrix.mul_zero,
    Matrix.mul_zero, sub_zero, sub_zero]

variable {n : Nat}

theorem QmT_mul_Rm_left_assoc (X : Matrix (Fin d) (Fin n) K) :
    (Qm K m₁)ᵀ * (Rm K m₁ m₂ * X) = 0 := by
  rw [← Matrix.mul_assoc, QmT_mul_Rm_left h₁ h₂ hdisj, Matrix.zero_mul]

theorem QmT_mul_Rm_right_assoc (X : Matrix (Fin d) (Fin n) K) :
    (Qm K m₂)ᵀ * (Rm K m₁ m₂ * X) = 0 := by
  rw [← Matrix.mul_assoc, QmT_mul_Rm_right h₁ h₂ hdisj, Matrix.zero_mul]

theorem Rm_mul_Qm_left_assoc (X : Matrix (Fin k₁) (Fin n) K) :
    Rm K m₁ m₂ * (Qm K m₁ * X) = 0 := by
  rw [← Matrix.mul_assoc, Rm_mul_Qm_left h₁ h₂ hdisj, Matrix.zero_mul]

theorem Rm_mul_Qm_right_assoc (X : Matrix (Fin k₂) (Fin n) K) :
    Rm K m₁ m₂ * (Qm K m₂ * X) = 0 := by
  rw [← Matrix.mul_assoc, Rm_mul_Qm_right h₁ h₂ hdisj, Matrix.zero_mul]

theorem Rm_mul_Rm_assoc (X : Matrix (Fin d) (Fin n) K) :
    Rm K m₁ m₂ * (Rm K m₁ m₂ * X) = Rm K m₁ m₂ * X := by
  rw [← Matrix.mul_assoc, Rm_mul_Rm h₁ h₂ hdisj]

end


syntax "gnorm2 " ident ident ident ident " [" Lean.Parser.Tactic.simpLemma,* "]" : tactic
macro_rules
  | `(tactic| gnorm2 $h₁:ident $h₂:ident $hd:ident $hd':ident [$extra,*]) => `(tactic|
    simp only [Matrix.mul_add, Matrix.add_mul, Matrix.mul_sub, Matrix.sub_mul, Matrix.mul_one,
      Matrix.one_mul, Matrix.mul_assoc, Matrix.mul_zero, Matrix.zero_mul, sub_zero, add_zero,
      zero_add, zero_sub, neg_zero, sub_self, Matrix.mul_neg, Matrix.neg_mul,
      Matrix.transpose_mul, Matrix.transpose_add, Matrix.transpose_sub, Matrix.transpose_one,
      Matrix.transpose_zero, Matrix.transpose_neg,
      Matrix.transpose_transpose, conjTranspose_eq, conj_mul, conj_add, conj_sub, conj_one,
      conj_zero, conj_neg, conj_transpose, conj_conj, conj_Qm,
      conj_Rm $h₁ $h₂ $hd, Rm_transpose $h₁ $h₂ $hd,
      QmT_mul_Qm $h₁, QmT_mul_Qm_assoc $h₁, QmT_mul_Qm $h₂, QmT_mul_Qm_assoc $h₂,
      QmT_mul_Qm_disj $hd, QmT_mul_Qm_disj_assoc $hd, QmT_mul_Qm_disj $hd',
      QmT_mul_Qm_disj_assoc $hd',
      QmT_mul_Rm_left $h₁ $h₂ $hd, QmT_mul_Rm_left_assoc $h₁ $h₂ $hd,
      QmT_mul_Rm_right $h₁ $h₂ $hd, QmT_mul_Rm_right_assoc $h₁ $h₂ $hd,
      Rm_mul_Qm_left $h₁ $h₂ $hd, Rm_mul_Qm_left_assoc $h₁ $h₂ $hd,
      Rm_mul_Qm_right $h₁ $h₂ $hd, Rm_mul_Qm_right_assoc $h₁ $h₂ $hd,
      Rm_mul_Rm $h₁ $h₂ $hd, Rm_mul_Rm_assoc $h₁ $h₂ $hd, $extra,*])

theorem applyLinear_C_comm (P₁ A₁ : Matrix (Fin k₁) (Fin k₁) K)
    (P₂ A₂ : Matrix (Fin k₂) (Fin k₂) K) (m₁ : Fin k₁ → Fin d) (m₂ : Fin k₂ → Fin d)
    (h₁ : Function.Injective m₁) (h₂ : Function.Injective m₂) (hdisj : ∀ a b, m₁ a ≠ m₂ b)
    (s : State K d) (hC : s.Cᴴ = s.C) (hG : s.Gᵀ = s.G) :
    (applyLinear P₂ A₂ m₂ (applyLinear P₁ A₁ m₁ s)).C
      = (applyLinear P₁ A₁ m₁ (applyLinear P₂ A₂ m₂ s)).C := by
  have hd' : ∀ b a, m₂ b ≠ m₁ a := fun b a h => hdisj a b h.symm
  have hCc : conj s.C = s.Cᵀ := by
    have := congrArg Matrix.transpose hC
    rwa [conjTranspose_eq, Matrix.transpose_transpose] at this
  have hGc : (conj s.G)ᵀ = conj s.G := by rw [← conj_transpose, hG]
  simp only [applyLinear_C_closed _ _ _ h₁, applyLinear_C_closed _ _ _ h₂,
    applyLinear_G_closed _ _ _ h₁, applyLinear_G_closed _ _ _ h₂]
  simp only [Nm_eq_left m₁ m₂, Nm_eq_right m₁ m₂]
  gnorm2 h₁ h₂ hdisj hd' [hCc, hG, hGc]
  abel

theorem applyLinear_G_comm (P₁ A₁ : Matrix (Fin k₁) (Fin k₁) K)
    (P₂ A₂ : Matrix (Fin k₂) (Fin k₂) K) (m₁ : Fin k₁ → Fin d) (m₂ : Fin k₂ → Fin d)
    (h₁ : Function.Injective m₁) (h₂ : Function.Injective m₂) (hdisj : ∀ a b, m₁ a ≠ m₂ b)
    (s : State K d) (hC : s.Cᴴ = s.C) (hG : s.Gᵀ = s.G) :
    (applyLinear P₂ A₂ m₂ (applyLinear P₁ A₁ m₁ s)).G
      = (applyLinear P₁ A₁ m₁ (applyLinear P₂ A₂ m₂ s)).G := by
  have hd' : ∀ b a, m₂ b ≠ m₁ a := fun b a h => hdisj a b h.symm
  have hCc : conj s.C = s.Cᵀ := by
    have := congrArg Matrix.transpose hC
    rwa [conjTranspose_eq, Matrix.transpose_transpose] at this
  have hGc : (conj s.G)ᵀ = conj s.G := by rw [← conj_transpose, hG]
  simp only [applyLinear_C_closed _ _ _ h₁, applyLinear_C_closed _ _ _ h₂,
    applyLinear_G_closed _ _ _ h₁, applyLinear_G_closed _ _ _ h₂]
  simp only [Nm_eq_left m₁ m₂, Nm_eq_right m₁ m₂]
  gnorm2 h₁ h₂ hdisj hd' [hCc, hG, hGc]
  abel

/-- a `State` is determined by its three fields -/
theorem State.ext' {s t : State K d} (hm : s.m = t.m) (hC : s.C = t.C) (hG : s.G = t.G) : s = t := by
  cases s; cases t; simp only [State.mk.injEq]; exact ⟨hm, hC, hG⟩

/-- two linear gates on disjoint sets of modes can be exchanged -/
theorem applyLinear_comm_of_disjoint (P₁ A₁ : Matrix (Fin k₁) (Fin k₁) K)
    (P₂ A₂ : Matrix (Fin k₂) (Fin k₂) K) (m₁ : Fin k₁ → Fin d) (m₂ : Fin k₂ → Fin d)
    (h₁ : Function.Injective m₁) (h₂ : Function.Injective m₂) (hdisj : ∀ a b, m₁ a ≠ m₂ b)
    (s : State K d) (hC : s.Cᴴ = s.C) (hG : s.Gᵀ = s.G) :
    applyLinear P₂ A₂ m₂ (applyLinear P₁ A₁ m₁ s) = applyLinear P₁ A₁ m₁ (applyLinear P₂ A₂ m₂ s) :=
  State.ext' (applyLinear_m_comm P₁ A₁ P₂ A₂ m₁ m₂ hdisj s)
    (applyLinear_C_comm P₁ A₁ P₂ A₂ m₁ m₂ h₁ h₂ hdisj s hC hG)
    (applyLinear_G_comm P₁ A₁ P₂ A₂ m₁ m₂ h₁ h₂ hdisj s hC hG)

/-- a displacement commutes with a linear gate on other modes -/
theorem displace_comm_of_disjoint (alpha : K) (P A : Matrix (Fin k₂) (Fin k₂) K)
    (m₁ : Fin k₁ → Fin d) (m₂ : Fin k₂ → Fin d) (hdisj : ∀ a b, m₁ a ≠ m₂ b) (s : State K d) :
    applyLinear P A m₂ (displace alpha m₁ s) = displace alpha m₁ (applyLinear P A m₂ s) := by
  simp only [applyLinear, displace, State.mk.injEq, pos?_of_disjoint hdisj]
  refine ⟨?_, trivial, trivial⟩
  funext i
  cases h1 : pos? m₁ i <;> cases h2 : pos? m₂ i <;> simp only []
  exact (pos?_disjoint_absurd hdisj h1 h2).elim

end Pq.Gauss
