import PqVerif.Lemmas.Comb
import Mathlib.Data.List.Chain
import Mathlib.Data.List.Iterate

/-!
The separator-successor loop of `combinatorics.partitions` (model: `Pq.Comb.partitions`)
produces exactly the recursive anti-lexicographic enumeration `parts`.

Route: `sepsList P m p` lists, lexicographically, the strictly increasing separator
suffixes of length `m` with values in `[p, P)`.  (1) its rows under `rowOfSeps` are the
reversed `parts`; (2) consecutive entries (behind any fixed prefix) are related by
`nextSeps`, so it is the orbit `iterate nextSeps` of `range (boxes-1)`; (3) `partitionsGen`
is the row map of that orbit.
-/
namespace Pq.Comb
open List

/-- separator suffixes: `m` strictly increasing values in `[p, P)`, in lexicographic order -/
def sepsList (P : Nat) : Nat → Nat → List (List Nat)
  | 0, _ => [[]]
  | m+1, p => (List.range' p (P - p - m)).flatMap (fun k => (sepsList P m (k+1)).map (k :: ·))

theorem partitionsGen_eq_iterate (P b : Nat) : ∀ fuel seps,
    partitionsGen P b fuel seps = (List.iterate (nextSeps P b) seps fuel).map (rowOfSeps P 0)
  | 0, _ => rfl
  | f+1, s => by simp [partitionsGen, List.iterate, partitionsGen_eq_iterate P b f]

theorem eq_iterate_of_isChain {α} (f : α → α) : ∀ (l : List α) (a : α),
    List.IsChain (fun x y => f x = y) (a :: l) → a :: l = List.iterate f a (l.length + 1)
  | [], a, _ => rfl
  | b :: l, a, h => by
    rw [List.isChain_cons_cons] at h
    obtain ⟨hab, h⟩ := h
    subst hab
    show a :: f a :: l = a :: List.iterate f (f a) (l.length + 1)
    rw [← eq_iterate_of_isChain f l (f a) h]

theorem sepsList_succ_nil (P m p : Nat) (h : P ≤ p + m) : sepsList P (m+1) p = [] := by
  have : P - p - m = 0 := by omega
  simp [sepsList, this]

theorem sepsList_succ_cons (P m p : Nat) (h : p + m + 1 ≤ P) :
    sepsList P (m+1) p = (sepsList P m (p+1)).map (p :: ·) ++ sepsList P (m+1) (p+1) := by
  have e1 : P - p - m = (P - (p+1) - m) + 1 := by omega
  rw [sepsList, sepsList, e1, List.range'_succ, List.flatMap_cons]

theorem map_rowOfSeps_sepsList (P : Nat) : ∀ m p, p + m ≤ P →
    (sepsList P m p).map (rowOfSeps P p) = (parts (m+1) (P - p - m)).reverse
  | 0, p, _ => by simp [sepsList, rowOfSeps, parts_one]
  | m+1, p, h => by
    have hN : P - p - m = (P - p - (m+1)) + 1 := by omega
    generalize hNdef : P - p - (m+1) = N at hN
    rw [parts, List.reverse_flatMap, List.reverse_reverse, sepsList, hN, List.map_flatMap,
      List.range'_eq_map_range, List.flatMap_map]
    apply List.flatMap_congr
    intro j hj
    have hj' : j < N + 1 := List.mem_range.1 hj
    have ih := map_rowOfSeps_sepsList P m (p + j + 1) (by omega)
    have e : P - (p + j + 1) - m = N - j := by omega
    rw [e] at ih
    simp only [Function.comp, List.map_map, ← List.map_reverse, ← ih]
    apply List.map_congr_left
    intro s _
    simp [rowOfSeps]

theorem head?_sepsList (P : Nat) : ∀ m p, p + m ≤ P →
    (sepsList P m p).head? = some (List.range' p m)
  | 0, p, _ => rfl
  | m+1, p, h => by
    rw [sepsList_succ_cons P m p (by omega), List.head?_append, List.head?_map,
      head?_sepsList P m (p+1) (by omega)]
    simp [List.range'_succ]

theorem getLast?_sepsList (P : Nat) : ∀ m c p, p + m + c = P →
    (sepsList P m p).getLast? = some (List.range' (P - m) m)
  | 0, _, p, _ => rfl
  | m+1, 0, p, h => by
    rw [sepsList_succ_cons P m p (by omega), sepsList_succ_nil P m (p+1) (by omega),
      List.append_nil, List.getLast?_map, getLast?_sepsList P m 0 (p+1) (by omega)]
    have e1 : P - (m+1) = p := by omega
    have e2 : P - m = p + 1 := by omega
    simp [List.range'_succ, e1, e2]
  | m+1, c+1, p, h => by
    rw [sepsList_succ_cons P m p (by omega), List.getLast?_append,
      getLast?_sepsList P (m+1) c (p+1) (by omega)]
    rfl

theorem scanSep_max (P d : Nat) (pre : List Nat) (k m a : Nat) (ha : pre.length = a)
    (hd : a + 1 + m = d) (hk : k + 1 + m < P) :
    ∀ j, j ≤ m → scanSep P (d+1) (pre ++ k :: List.range' (P-m) m) (a + j) = some a
  | 0, _ => by
    have hg : (pre ++ k :: List.range' (P-m) m).getD a 0 = k := by
      simp [List.getD_eq_getElem?_getD, ← ha]
    cases a with
    | zero =>
      have hne : (k == P - (d + 1 - 1)) = false := by
        rw [beq_eq_false_iff_ne]; omega
      simp only [scanSep, hg]
      rw [hne]; rfl
    | succ a =>
      have hne : (k == P - (d + 1 - 1 - (a + 1))) = false := by
        rw [beq_eq_false_iff_ne]; omega
      simp only [scanSep, hg]
      rw [hne]; rfl
  | j+1, hj => by
    have hg : (pre ++ k :: List.range' (P-m) m).getD (a + j + 1) 0 = P - m + j := by
      have hjm : j < (List.range' (P-m) m).length := by simp; omega
      simp [List.getD_eq_getElem?_getD, List.getElem?_append_right, ← ha, Nat.add_assoc,
        List.getElem?_eq_getElem hjm]
    have heq : (P - m + j == P - (d + 1 - 1 - (a + j + 1))) = true := by
      rw [beq_iff_eq]; omega
    show scanSep P (d+1) _ ((a + j) + 1) = some a
    simp only [scanSep, hg]
    rw [heq]
    exact scanSep_max P d pre k m a ha hd hk j (by omega)

theorem bumpSeps_append (pre : List Nat) (k : Nat) (rest : List Nat) :
    bumpSeps (pre ++ k :: rest) pre.length = pre ++ List.range' (k+1) (rest.length + 1) := by
  have e : (pre ++ k :: rest).length - pre.length = rest.length + 1 := by simp
  have hg : (pre ++ k :: rest).getD pre.length 0 = k := by
    simp [List.getD_eq_getElem?_getD]
  unfold bumpSeps
  simp only [e, hg, List.take_left', List.range'_eq_map_range]

theorem nextSeps_max (P d : Nat) (pre : List Nat) (k m : Nat)
    (hd : pre.length + 1 + m = d) (hk : k + 1 + m < P) :
    nextSeps P (d+1) (pre ++ k :: List.range' (P-m) m) = pre ++ List.range' (k+1) (m+1) := by
  have hs := scanSep_max P d pre k m pre.length rfl hd hk m (le_refl _)
  have e : d + 1 - 2 = pre.length + m := by omega
  unfold nextSeps
  rw [e, hs]
  simpa using bumpSeps_append pre k (List.range' (P-m) m)

theorem isChain_sepsList (P d : Nat) : ∀ m c p pre, pre.length + m = d → p + m + c = P →
    List.IsChain (fun x y => nextSeps P (d+1) x = y) ((sepsList P m p).map (pre ++ ·))
  | 0, _, p, pre, _, _ => by simp [sepsList]
  | m+1, c, p, pre, hd, hc => by
    have hblock : List.IsChain (fun x y => nextSeps P (d+1) x = y)
        (((sepsList P m (p+1)).map (p :: ·)).map (pre ++ ·)) := by
      have h := isChain_sepsList P d m c (p+1) (pre ++ [p]) (by simp; omega) (by omega)
      have e : ((fun x => pre ++ x) ∘ fun x => p :: x) = (fun x => (pre ++ [p]) ++ x) := by
        funext x; simp
      rw [List.map_map, e]; exact h
    cases c with
    | zero =>
      rw [sepsList_succ_cons P m p (by omega), sepsList_succ_nil P m (p+1) (by omega),
        List.append_nil]
      exact hblock
    | succ c =>
      rw [sepsList_succ_cons P m p (by omega), List.map_append]
      refine List.IsChain.append hblock (isChain_sepsList P d (m+1) c (p+1) pre hd (by omega)) ?_
      intro x hx y hy
      rw [List.getLast?_map, List.getLast?_map, getLast?_sepsList P m (c+1) (p+1) (by omega)] at hx
      rw [List.head?_map, head?_sepsList P (m+1) (p+1) (by omega)] at hy
      simp only [Option.map_some, Option.mem_def, Option.some.injEq] at hx hy
      subst hx hy
      exact nextSeps_max P d pre p m (by omega) (by omega)

/-- the loop of `combinatorics.partitions` enumerates the weak compositions of `n` into
`d+1` parts in anti-lexicographic order -/
theorem partitions_eq_parts (d n : Nat) : partitions (d + 1) n = parts (d + 1) n := by
  have hrows := map_rowOfSeps_sepsList (n+d) d 0 (by omega)
  have e0 : n + d - 0 - d = n := by omega
  rw [e0] at hrows
  have hlen : (sepsList (n+d) d 0).length = Nat.choose (n+d) d := by
    have h1 := congrArg List.length hrows
    have h2 := congrArg List.length (map_index_parts d n)
    simp only [List.length_map, List.length_reverse, List.length_range'] at h1 h2
    rw [h1, h2]
  have hchain := isChain_sepsList (n+d) d d n 0 [] (by simp) (by omega)
  have hhead := head?_sepsList (n+d) d 0 (by omega)
  simp only [List.nil_append, List.map_id'] at hchain
  obtain ⟨l, hl⟩ : ∃ l, sepsList (n+d) d 0 = List.range d :: l := by
    cases hs : sepsList (n+d) d 0 with
    | nil => simp [hs] at hhead
    | cons a l =>
      rw [hs] at hhead
      simp only [List.head?_cons, Option.some.injEq] at hhead
      exact ⟨l, by rw [hhead, List.range_eq_range']⟩
  rw [hl] at hchain
  have hit := eq_iterate_of_isChain _ l _ hchain
  have hl' : l.length + 1 = Nat.choose (n+d) d := by rw [← hlen, hl]; rfl
  rw [hl', ← hl] at hit
  have eP : n + (d + 1) - 1 = n + d := by omega
  unfold partitions
  simp only [Nat.add_one_ne_zero, if_false, Nat.add_sub_cancel, comb_eq_choose, eP]
  rw [partitionsGen_eq_iterate, ← hit, hrows, List.reverse_reverse]

end Pq.Comb
