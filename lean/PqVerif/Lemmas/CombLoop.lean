import PqVerif.Lemmas.Comb

/-!
The separator-successor loop of `combinatorics.partitions` (model: `Pq.Comb.partitions`)
produces exactly the recursive anti-lexicographic enumeration `parts`.
-/
namespace Pq.Comb
open List

/-- the loop of `combinatorics.partitions` enumerates the weak compositions of `n` into
`d+1` parts in anti-lexicographic order -/
theorem partitions_eq_parts (d n : Nat) : partitions (d + 1) n = parts (d + 1) n := by
  sorry

end Pq.Comb
