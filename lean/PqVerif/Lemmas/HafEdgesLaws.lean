import Mathlib.Tactic
import Mathlib.Data.Nat.Choose.Sum
import PqVerif.Model.HafEdges
import PqVerif.Lemmas.GrayLaws

/-!
C04 lemmas about the repeated-edge compression of the power-trace hafnian (`Model/HafEdges.lean`):
every admissible run of `match_occupation_numbers` terminates, its edge classes use every vertex exactly as
often as the occupation numbers say, and the compressed sign patterns swept by `hafnian_with_reduction`
(`get_kept_edges`) are a bijective, complement-symmetric encoding of the Glynn sign vectors.
-/
namespace Pq.HafEdges
open Pq.Kernel

/-! ### list plumbing -/

theorem get_set (l : List Nat) (i v x : Nat) :
    get (l.set i x) v = if v = i ∧ i < l.length then x else get l v := by
  unfold get
  rw [List.getD_eq_getElem?_getD, List.getD_eq_getElem?_getD, List.getElem?_set]
  by_cases h : i = v
  · subst h
    by_cases hl : i < l.length
    · simp [hl]
    · simp [hl]
  · have : ¬ (v = i ∧ i < l.length) := fun c => h c.1.symm
    simp [h, this]

theorem sum_set (l : List Nat) (i x : Nat) (hi : i < l.length) :
    (l.set i x).sum + get l i = l.sum + x := by
  induction l generalizing i with
  | nil => simp at hi
  | cons a l ih =>
    cases i with
    | zero => simp [get]; omega
    | succ i =>
      have := ih i (by simpa using hi)
      simp only [List.set_cons_succ, List.sum_cons]
      have hg : get (a :: l) (i + 1) = get l i := by simp [get]
      rw [hg]; omega

theorem sum_eq_get_of_others_zero (l : List Nat) (i : Nat) (hi : i < l.length)
    (h : ∀ k, k < l.length → k ≠ i → get l k = 0) : l.sum = get l i := by
  have hs := sum_set l i 0 hi
  have hz : (l.set i 0).sum = 0 := by
    apply List.sum_eq_zero
    intro x hx
    obtain ⟨k, hk, rfl⟩ := List.getElem_of_mem hx
    have hk' : k < l.length := by simpa using hk
    have hg : get (l.set i 0) k = (l.set i 0)[k] := by
      unfold get; rw [List.getD_eq_getElem?_getD, List.getElem?_eq_getElem hk]; rfl
    rw [← hg, get_set]
    by_cases hki : k = i
    · simp [hki, hi]
    · have : ¬ (k = i ∧ i < l.length) := fun c => hki c.1
      simp [this, h k hk' hki]
  omega

theorem get_le_sum (l : List Nat) (v : Nat) : get l v ≤ l.sum := by
  induction l generalizing v with
  | nil => simp [get]
  | cons a l ih =>
    cases v with
    | zero => simp [get]
    | succ v =>
      have := ih v
      have hg : get (a :: l) (v + 1) = get l v := by simp [get]
      rw [hg, List.sum_cons]; omega

/-- `top2` as a proposition -/
theorem top2_spec (nvec : List Nat) (i j : Nat) :
    top2 nvec i j = true ↔
      i < nvec.length ∧ j < nvec.length ∧ i ≠ j ∧
        ∀ k, k < nvec.length → get nvec k ≤ get nvec i ∧ (k ≠ i → get nvec k ≤ get nvec j) := by
  unfold top2
  simp only [Bool.and_eq_true, decide_eq_true_eq, bne_iff_ne, ne_eq, List.all_eq_true, List.mem_range,
    Bool.or_eq_true, beq_iff_eq]
  constructor
  · rintro ⟨⟨⟨h1, h2⟩, h3⟩, h4⟩
    refine ⟨h1, h2, h3, fun k hk => ⟨(h4 k hk).1, fun hne => ?_⟩⟩
    rcases (h4 k hk).2 with h | h
    · exact absurd h hne
    · exact h
  · rintro ⟨h1, h2, h3, h4⟩
    refine ⟨⟨⟨h1, h2⟩, h3⟩, fun k hk => ⟨(h4 k hk).1, ?_⟩⟩
    by_cases hki : k = i
    · exact Or.inl hki
    · exact Or.inr ((h4 k hk).2 hki)

/-! ### one round -/

theorem degree_nil (v : Nat) : degree [] v = 0 := rfl

theorem degree_cons (e : Edge) (es : List Edge) (v : Nat) :
    degree (e :: es) v =
      e.rep * ((if e.a = v then 1 else 0) + (if e.b = v then 1 else 0)) + degree es v := by
  simp [degree]

/-- what the emitted edge class uses is exactly what the round removes from the occupation numbers -/
theorem step_cover (nvec : List Nat) (i j : Nat) (h : top2 nvec i j = true) (v : Nat) :
    (stepEdge nvec i j).2.rep *
        ((if (stepEdge nvec i j).2.a = v then 1 else 0) + (if (stepEdge nvec i j).2.b = v then 1 else 0)) +
      get (stepEdge nvec i j).1 v = get nvec v := by
  obtain ⟨hi, hj, hij, hmax⟩ := (top2_spec nvec i j).1 h
  have hji := (hmax j hj).1
  unfold stepEdge
  by_cases hc : get nvec i / 2 > get nvec j
  · simp only [hc, if_true]
    rw [get_set]
    by_cases hv : v = i
    · subst hv; simp [hi]; omega
    · have h1 : ¬ (i = v) := fun c => hv c.symm
      have h2 : ¬ (v = i ∧ i < nvec.length) := fun c => hv c.1
      simp [h1, h2]
  · simp only [hc, if_false]
    rw [get_set, get_set, List.length_set]
    by_cases hv : v = i
    · subst hv
      have h1 : ¬ (j = v) := fun c => hij c.symm
      have h2 : ¬ (v = j ∧ j < nvec.length) := fun c => hij c.1
      simp [h1, h2, hi]; omega
    · by_cases hvj : v = j
      · subst hvj
        have h1 : ¬ (i = v) := fun c => hv c.symm
        simp [h1, hj]
      · have h1 : ¬ (i = v) := fun c => hv c.symm
        have h2 : ¬ (j = v) := fun c => hvj c.symm
        have h3 : ¬ (v = j ∧ j < nvec.length) := fun c => hvj c.1
        have h4 : ¬ (v = i ∧ i < nvec.length) := fun c => hv c.1
        simp [h1, h2, h3, h4]

/-- every round removes exactly two vertex copies per emitted edge -/
theorem step_sum (nvec : List Nat) (i j : Nat) (h : top2 nvec i j = true) :
    (stepEdge nvec i j).1.sum + 2 * (stepEdge nvec i j).2.rep = nvec.sum := by
  obtain ⟨hi, hj, hij, hmax⟩ := (top2_spec nvec i j).1 h
  have hji := (hmax j hj).1
  unfold stepEdge
  by_cases hc : get nvec i / 2 > get nvec j
  · simp only [hc, if_true]
    have := sum_set nvec i (get nvec i - 2 * (get nvec i / 2)) hi
    omega
  · simp only [hc, if_false]
    have h1 := sum_set nvec i (get nvec i - get nvec j) hi
    have h2 := sum_set (nvec.set i (get nvec i - get nvec j)) j 0 (by simpa using hj)
    rw [get_set] at h2
    have h3 : ¬ (j = i ∧ i < nvec.length) := fun c => hij c.1.symm
    simp only [h3, if_false] at h2
    omega

/-- while more than one vertex copy is left, the emitted class is non-empty -/
theorem step_rep_pos (nvec : List Nat) (i j : Nat) (h : top2 nvec i j = true) (hs : 1 < nvec.sum) :
    0 < (stepEdge nvec i j).2.rep := by
  obtain ⟨hi, hj, hij, hmax⟩ := (top2_spec nvec i j).1 h
  unfold stepEdge
  by_cases hc : get nvec i / 2 > get nvec j
  · simp only [hc, if_true]; omega
  · simp only [hc, if_false]
    by_contra h0
    have hj0 : get nvec j = 0 := by omega
    have hsum := sum_eq_get_of_others_zero nvec i hi (fun k hk hki => by
      have := (hmax k hk).2 hki
      omega)
    omega

/-- termination of the `while sum(nvec) > 1` loop: the remaining multiplicity strictly decreases -/
theorem step_decreases (nvec : List Nat) (i j : Nat) (h : top2 nvec i j = true) (hs : 1 < nvec.sum) :
    (stepEdge nvec i j).1.sum < nvec.sum := by
  have := step_sum nvec i j h
  have := step_rep_pos nvec i j h hs
  omega

/-! ### whole runs -/

theorem replay_spec (es : List Edge) : ∀ (nvec fin : List Nat), replay nvec es = some fin →
    fin.sum ≤ 1 ∧ (∀ v, degree es v + get fin v = get nvec v) ∧
      2 * (es.map (·.rep)).sum + fin.sum = nvec.sum ∧ ∀ e ∈ es, 0 < e.rep := by
  induction es with
  | nil =>
    intro nvec fin h
    simp only [replay] at h
    split at h
    · cases h
      exact ⟨by assumption, fun v => by simp [degree_nil], by simp, by simp⟩
    · cases h
  | cons e es ih =>
    intro nvec fin h
    simp only [replay] at h
    split at h
    · cases h
    · rename_i hs
      split at h
      · cases h
      · rename_i ht
        have ht' : top2 nvec e.a (second nvec e) = true := by
          cases hb : top2 nvec e.a (second nvec e) <;> simp_all
        split at h
        · rename_i he
          obtain ⟨h1, h2, h3, h4⟩ := ih _ _ h
          have hc := step_cover nvec e.a _ ht'
          have hsum := step_sum nvec e.a _ ht'
          have hpos := step_rep_pos nvec e.a _ ht' (by omega)
          rw [he] at hc hsum hpos
          refine ⟨h1, fun v => ?_, ?_, ?_⟩
          · rw [degree_cons]
            have := h2 v
            have := hc v
            omega
          · simp only [List.map_cons, List.sum_cons]
            omega
          · intro e' he'
            rcases List.mem_cons.1 he' with rfl | hm
            · exact hpos
            · exact h4 e' hm
        · cases h

/-! ### `get_kept_edges` -/

theorem total_map_succ (reps : List Nat) : total (reps.map (· + 1)) = patterns reps := by
  induction reps with
  | nil => rfl
  | cons r rs ih => simp [total_cons, patterns, ih]

theorem patterns_pos (reps : List Nat) : 0 < patterns reps := by
  induction reps with
  | nil => simp [patterns]
  | cons r rs ih => simp [patterns]; positivity

theorem keptEdges_cons (r : Nat) (rs : List Nat) (idx : Nat) :
    keptEdges (r :: rs) idx = (idx % (r + 1)) :: keptEdges rs (idx / (r + 1)) := rfl

theorem keptEdges_length (reps : List Nat) (idx : Nat) : (keptEdges reps idx).length = reps.length := by
  induction reps generalizing idx with
  | nil => rfl
  | cons r rs ih => simp [keptEdges_cons, ih]

/-- complement symmetry: the pattern at the mirrored index keeps exactly the edges the original drops -/
theorem keptEdges_complement (reps : List Nat) (idx : Nat) (h : idx < patterns reps) :
    keptEdges reps (patterns reps - 1 - idx) = List.zipWith (fun r k => r - k) reps (keptEdges reps idx) := by
  induction reps generalizing idx with
  | nil => rfl
  | cons r rs ih =>
    have hP := patterns_pos rs
    simp only [patterns] at h ⊢
    rw [keptEdges_cons, keptEdges_cons, List.zipWith_cons_cons]
    have hq : idx / (r + 1) < patterns rs := Nat.div_lt_of_lt_mul h
    have hm : idx % (r + 1) < r + 1 := Nat.mod_lt _ (by omega)
    have hdecomp : (r + 1) * patterns rs - 1 - idx =
        (r + 1) * (patterns rs - 1 - idx / (r + 1)) + (r - idx % (r + 1)) := by
      have := Nat.div_add_mod idx (r + 1)
      have hmul : (r + 1) * (patterns rs - 1 - idx / (r + 1)) =
          (r + 1) * patterns rs - (r + 1) - (r + 1) * (idx / (r + 1)) := by
        rw [Nat.mul_sub, Nat.mul_sub]; simp
      have hle : (r + 1) * (idx / (r + 1)) + (r + 1) ≤ (r + 1) * patterns rs := by
        have : idx / (r + 1) + 1 ≤ patterns rs := hq
        calc (r + 1) * (idx / (r + 1)) + (r + 1) = (r + 1) * (idx / (r + 1) + 1) := by ring
          _ ≤ (r + 1) * patterns rs := Nat.mul_le_mul_left _ this
      omega
    rw [hdecomp]
    have h1 : ((r + 1) * (patterns rs - 1 - idx / (r + 1)) + (r - idx % (r + 1))) % (r + 1) = r - idx % (r + 1) := by
      rw [Nat.mul_add_mod]; exact Nat.mod_eq_of_lt (by omega)
    have h2 : ((r + 1) * (patterns rs - 1 - idx / (r + 1)) + (r - idx % (r + 1))) / (r + 1) =
        patterns rs - 1 - idx / (r + 1) := by
      rw [Nat.mul_add_div (show 0 < r + 1 by omega), Nat.div_eq_of_lt (show r - idx % (r + 1) < r + 1 by omega)]; simp
    rw [h1, h2, ih _ hq]

/-! ### weights of the compressed patterns -/

theorem sum_flatMap' (l : List Nat) (F : Nat → List Nat) :
    (l.flatMap F).sum = (l.map (fun j => (F j).sum)).sum := by
  induction l with
  | nil => rfl
  | cons a l ih => simp [List.flatMap_cons, List.sum_append, ih]

theorem list_sum_range (n : Nat) (f : Nat → Nat) :
    ((List.range n).map f).sum = ∑ i ∈ Finset.range n, f i := by
  induction n with
  | zero => simp
  | succ n ih => rw [List.range_succ, List.map_append, List.sum_append, Finset.sum_range_succ, ih]; simp

theorem sum_range_mul_divmod (f g : Nat → Nat) (w c : Nat) (hw : 0 < w) :
    ((List.range (c * w)).map (fun idx => f (idx % w) * g (idx / w))).sum =
      ((List.range w).map f).sum * ((List.range c).map g).sum := by
  have hblock : ∀ j, ((List.range' (j * w) w).map (fun idx => f (idx % w) * g (idx / w))).sum =
      ((List.range w).map f).sum * g j := by
    intro j
    rw [List.range'_eq_map_range, List.map_map, ← List.sum_map_mul_right]
    congr 1
    apply List.map_congr_left
    intro t ht
    have ht' : t < w := List.mem_range.1 ht
    simp only [Function.comp]
    have h1 : (j * w + t) % w = t := by rw [Nat.mul_comm, Nat.mul_add_mod]; exact Nat.mod_eq_of_lt ht'
    have h2 : (j * w + t) / w = j := by
      rw [Nat.mul_comm, Nat.mul_add_div hw, Nat.div_eq_of_lt ht']; simp
    rw [h1, h2]
  rw [← flatMap_blocks w c, List.map_flatMap, sum_flatMap']
  rw [List.map_congr_left (fun j _ => hblock j)]
  exact List.sum_map_mul_left ..

/-- the compressed patterns together stand for all `2 ^ (number of edges)` Glynn sign vectors -/
theorem weight_total (reps : List Nat) :
    ((List.range (patterns reps)).map (fun idx => weight reps (keptEdges reps idx))).sum = 2 ^ reps.sum := by
  induction reps with
  | nil => simp [patterns, weight]
  | cons r rs ih =>
    simp only [patterns, keptEdges_cons, weight]
    rw [Nat.mul_comm (r + 1) (patterns rs)]
    rw [sum_range_mul_divmod (fun m => binomialCoeff r m) (fun q => weight rs (keptEdges rs q)) (r + 1)
      (patterns rs) (by omega), ih]
    have : ((List.range (r + 1)).map (fun m => binomialCoeff r m)).sum = 2 ^ r := by
      simp only [binomialCoeff_eq_choose]
      rw [list_sum_range, Nat.sum_range_choose]
    rw [this, List.sum_cons, pow_add]

end Pq.HafEdges
