import PqVerif.Lemmas.GradLaws

/-!
C01 / C10: the LOOP of `create_single_mode_displacement_matrix` (piquasso/_math/gate_matrices.py) computes the closed
form `dispEntry` of the displacement matrix element `⟨m| D(r e^{iφ}) |n⟩`, for every cutoff, row, column, `r`, `φ`.

The code:
```
previous_element = power(displacement, arange(cutoff)) / sqrt(factorial(arange(cutoff)))     # column 0
for i in 1 .. cutoff-1:
    previous_element = sqrt(arange(cutoff)) * previous_element[roll_index] - conj(displacement) * previous_element
matrix[m][i] = exp(-r²/2) * column_i[m] / sqrt(i!)
```
with `roll_index = [-1, 0, …, cutoff-2]` (so row 0 reads the LAST entry of the previous column, times `sqrt 0`).
-/
namespace Pq.DispRec
open BigOperators Pq.GradLaws

/-- column `i` of the accumulator, as a function of the row index `m`; `c` is the cutoff (only used by the roll) -/
noncomputable def col (c : ℕ) (α : ℂ) : ℕ → ℕ → ℂ
  | 0, m => α ^ m / (Real.sqrt (m.factorial : ℝ) : ℂ)
  | i + 1, m =>
      (Real.sqrt (m : ℝ) : ℂ) * col c α i (if m = 0 then c - 1 else m - 1)
        - (starRingEnd ℂ) α * col c α i m

/-- the entry `(m, n)` of the returned matrix -/
noncomputable def entry (c : ℕ) (r φ : ℝ) (m n : ℕ) : ℂ :=
  Complex.exp (-(r : ℂ) ^ 2 / 2) * col c ((r : ℂ) * Complex.exp (Complex.I * φ)) n m
    / (Real.sqrt (n.factorial : ℝ) : ℂ)

theorem sqrtC_mul_self (a : ℝ) (h : 0 ≤ a) : (Real.sqrt a : ℂ) * (Real.sqrt a : ℂ) = (a : ℂ) := by
  rw [← Complex.ofReal_mul, Real.mul_self_sqrt h]

theorem sqrtC_factorial_ne_zero (n : ℕ) : (Real.sqrt (n.factorial : ℝ) : ℂ) ≠ 0 := by
  have h : (0 : ℝ) < (n.factorial : ℝ) := by exact_mod_cast Nat.factorial_pos n
  exact Complex.ofReal_ne_zero.mpr (Real.sqrt_ne_zero'.mpr h)

theorem sqrtC_factorial_succ (n : ℕ) :
    (Real.sqrt ((n + 1).factorial : ℝ) : ℂ) =
      (Real.sqrt ((n + 1 : ℕ) : ℝ) : ℂ) * (Real.sqrt (n.factorial : ℝ) : ℂ) := by
  rw [← Complex.ofReal_mul, ← Real.sqrt_mul (Nat.cast_nonneg _), Nat.factorial_succ]
  push_cast
  rfl

theorem conj_alpha (r φ : ℝ) :
    (starRingEnd ℂ) ((r : ℂ) * Complex.exp (Complex.I * φ)) = (r : ℂ) * Complex.exp (-(Complex.I * φ)) := by
  rw [map_mul, Complex.conj_ofReal, ← Complex.exp_conj, map_mul, Complex.conj_I, Complex.conj_ofReal, neg_mul]

theorem ph_succ_succ (m n : ℕ) (φ : ℂ) : ph (m + 1) (n + 1) φ = ph m n φ := by
  unfold ph
  congr 1; push_cast; ring

/-- `k · cf (m+1) (n+1) k` summed is `T m n` -/
theorem T_eq_sum_succ (m n : ℕ) (x : ℂ) :
    T m n x = ∑ k ∈ Finset.range (min (m + 1) (n + 1) + 1),
      (k : ℂ) * cf (m + 1) (n + 1) k * x ^ (m + 1 + (n + 1) - 2 * k) := by
  have hr : min (m + 1) (n + 1) + 1 = (min m n + 1) + 1 := by omega
  rw [hr, Finset.sum_range_succ']
  simp only [Nat.cast_zero, zero_mul, add_zero]
  unfold T
  refine Finset.sum_congr rfl fun k hk => ?_
  have e1 : m + 1 + (n + 1) - 2 * (k + 1) = m + n - 2 * k := by omega
  rw [e1]
  unfold cf
  rw [Nat.add_sub_add_right, Nat.add_sub_add_right, Nat.factorial_succ]
  have h1 : ((k + 1 : ℕ) : ℂ) ≠ 0 := Nat.cast_ne_zero.mpr (Nat.succ_ne_zero _)
  have h2 : ((m - k).factorial : ℂ) ≠ 0 := by exact_mod_cast Nat.factorial_ne_zero _
  have h3 : ((n - k).factorial : ℂ) ≠ 0 := by exact_mod_cast Nat.factorial_ne_zero _
  have h4 : (k.factorial : ℂ) ≠ 0 := by exact_mod_cast Nat.factorial_ne_zero _
  push_cast at h1 ⊢
  field_simp

theorem x_mul_T (m n : ℕ) (x : ℂ) :
    x * T m n x = -∑ k ∈ Finset.range (min m (n + 1) + 1),
      cf m (n + 1) k * (((n + 1 : ℕ) : ℂ) - k) * x ^ (m + (n + 1) - 2 * k) := by
  rw [shift2]
  unfold U2
  rw [mul_neg, Finset.mul_sum]
  congr 1
  refine Finset.sum_congr rfl fun k hk => ?_
  have hk' : k ≤ m ∧ k ≤ n + 1 := by have := Finset.mem_range.mp hk; omega
  by_cases hp : m + (n + 1) - 2 * k = 0
  · have h1 : k = n + 1 := by omega
    subst h1
    simp
  · obtain ⟨p, hp'⟩ := Nat.exists_eq_succ_of_ne_zero hp
    rw [hp', Nat.succ_sub_one, pow_succ]
    ring

/-- three-term relation of the coefficient polynomials, rows `≥ 1` -/
theorem T_rec_succ (m n : ℕ) (x : ℂ) :
    ((n : ℂ) + 1) * T (m + 1) (n + 1) x = T m n x - x * T (m + 1) n x := by
  rw [T_eq_sum_succ m n, x_mul_T, sub_neg_eq_add, ← Finset.sum_add_distrib]
  unfold T
  rw [Finset.mul_sum]
  refine Finset.sum_congr rfl fun k _ => ?_
  push_cast
  ring

/-- three-term relation of the coefficient polynomials, row `0` -/
theorem T_rec_zero (n : ℕ) (x : ℂ) : ((n : ℂ) + 1) * T 0 (n + 1) x = -(x * T 0 n x) := by
  unfold T cf
  have h3 : (n.factorial : ℂ) ≠ 0 := by exact_mod_cast Nat.factorial_ne_zero _
  have h1 : ((n : ℂ) + 1) ≠ 0 := by exact_mod_cast Nat.succ_ne_zero n
  simp [Nat.factorial_succ]
  field_simp
  ring

theorem col_succ_zero (c : ℕ) (α : ℂ) (i : ℕ) :
    col c α (i + 1) 0 = -((starRingEnd ℂ) α * col c α i 0) := by
  rw [col]
  simp

theorem col_succ_succ (c : ℕ) (α : ℂ) (i m : ℕ) :
    col c α (i + 1) (m + 1) =
      (Real.sqrt ((m + 1 : ℕ) : ℝ) : ℂ) * col c α i m - (starRingEnd ℂ) α * col c α i (m + 1) := by
  rw [col]
  simp

theorem col_zero_eq (c : ℕ) (r φ : ℝ) (m : ℕ) :
    col c ((r : ℂ) * Complex.exp (Complex.I * φ)) 0 m =
      (Real.sqrt ((0 : ℕ).factorial : ℝ) : ℂ) * (nrm m 0 * (T m 0 r * ph m 0 φ)) := by
  have hs := sqrtC_mul_self (m.factorial : ℝ) (Nat.cast_nonneg _)
  have hne := sqrtC_factorial_ne_zero m
  have hexp : Complex.exp (Complex.I * φ) ^ m = Complex.exp (Complex.I * φ * (m : ℂ)) := by
    rw [← Complex.exp_nat_mul]; congr 1; ring
  rw [col, mul_pow, hexp]
  unfold nrm T ph cf
  simp only [Nat.factorial_zero, Nat.cast_one, Real.sqrt_one, Complex.ofReal_one, one_mul, mul_one,
    Nat.min_zero, zero_add, Finset.sum_range_one, Nat.sub_zero, pow_zero, Nat.cast_zero, sub_zero,
    add_zero, mul_zero]
  rw [div_eq_iff hne]
  push_cast at hs ⊢
  rw [← hs]
  field_simp

theorem col_closed (c : ℕ) (r φ : ℝ) : ∀ n m : ℕ,
    col c ((r : ℂ) * Complex.exp (Complex.I * φ)) n m =
      (Real.sqrt (n.factorial : ℝ) : ℂ) * (nrm m n * (T m n r * ph m n φ)) := by
  intro n
  induction n with
  | zero => intro m; exact col_zero_eq c r φ m
  | succ n ih =>
    intro m
    have hss : (Real.sqrt ((n + 1 : ℕ) : ℝ) : ℂ) * (Real.sqrt ((n + 1 : ℕ) : ℝ) : ℂ) = (n : ℂ) + 1 := by
      rw [sqrtC_mul_self _ (Nat.cast_nonneg _)]; push_cast; ring
    cases m with
    | zero =>
      rw [col_succ_zero, ih 0, conj_alpha, sqrtC_factorial_succ, ← nrm_succ_right, ← ph_succ_right]
      have hT := T_rec_zero n (r : ℂ)
      linear_combination
        (-(Real.sqrt (n.factorial : ℝ) : ℂ) * nrm 0 n * Complex.exp (-(Complex.I * φ)) * ph 0 n φ) * hT
        - ((Real.sqrt (n.factorial : ℝ) : ℂ) * nrm 0 n * Complex.exp (-(Complex.I * φ)) * ph 0 n φ
            * T 0 (n + 1) r) * hss
    | succ m =>
      rw [col_succ_succ, ih m, ih (m + 1), conj_alpha, sqrtC_factorial_succ, ← nrm_succ_right,
        ← ph_succ_succ m n, ← ph_succ_right (m + 1) n, ← nrm_succ_left m n]
      have hT := T_rec_succ m n (r : ℂ)
      linear_combination
        (-(Real.sqrt (n.factorial : ℝ) : ℂ) * (Real.sqrt ((m + 1 : ℕ) : ℝ) : ℂ) * nrm m n
            * Complex.exp (-(Complex.I * φ)) * ph (m + 1) n φ) * hT
        - ((Real.sqrt (n.factorial : ℝ) : ℂ) * (Real.sqrt ((m + 1 : ℕ) : ℝ) : ℂ) * nrm m n
            * Complex.exp (-(Complex.I * φ)) * ph (m + 1) n φ * T (m + 1) (n + 1) r) * hss

/-- the loop computes the closed form, for every cutoff and every entry (also outside the cutoff: the recurrence
never reads a wrapped-around entry with a non-zero weight) -/
theorem entry_eq_dispEntry (c : ℕ) (r φ : ℝ) (m n : ℕ) : entry c r φ m n = dispEntry m n r φ := by
  unfold entry
  rw [col_closed, dispEntry_eq]
  have hne := sqrtC_factorial_ne_zero n
  field_simp

end Pq.DispRec
