import Mathlib.Tactic
import Mathlib.Data.Nat.Choose.Basic
import PqVerif.Model.Kernel

/-!
C11 / C04 lemmas about the n-ary reflected Gray-code counter, the job partition and the binomial
weights of the native permanent kernel (models in `Model/Kernel.lean`).
-/
namespace Pq.Kernel

/-- number of gray codes -/
def total (limits : List Nat) : Nat := limits.foldl (· * ·) 1

/-! ### job partition -/

theorem flatMap_blocks (wb c : Nat) :
    (List.range c).flatMap (fun j => List.range' (j * wb) wb) = List.range (c * wb) := by
  induction c with
  | zero => simp
  | succ c ih =>
    rw [List.range_succ, List.flatMap_append, ih]
    simp only [List.flatMap_cons, List.flatMap_nil, List.append_nil]
    rw [List.range_eq_range', List.range_eq_range', Nat.succ_mul]
    have := List.range'_append (s := 0) (m := c * wb) (n := wb) (step := 1)
    simpa using this

/-- for every `hardware_concurrency() ≥ 1` the jobs are disjoint, ordered and cover `[0, idxMax)` -/
theorem jobRanges_partition (idxMax threads : Nat) (h1 : 0 < idxMax) (ht : 0 < threads) :
    (jobRanges idxMax threads).flatMap (fun r => List.range' r.1 (r.2 + 1 - r.1)) = List.range idxMax := by
  unfold jobRanges
  simp only []
  obtain ⟨c, hc⟩ : ∃ c, min (4 * threads) idxMax = c + 1 :=
    ⟨min (4 * threads) idxMax - 1, by have := ht; omega⟩
  rw [hc]
  set wb := idxMax / (c + 1) with hwb
  have hle : (c + 1) * wb ≤ idxMax := Nat.mul_div_le idxMax (c + 1)
  have hwpos : 0 < wb := Nat.div_pos (by omega) (Nat.succ_pos c)
  have hcw : c * wb ≤ idxMax := by
    have : c * wb ≤ (c + 1) * wb := Nat.mul_le_mul_right _ (Nat.le_succ c)
    omega
  rw [List.flatMap_map, List.range_succ, List.flatMap_append]
  have e1 : (List.range c).flatMap (fun j => List.range' (j * wb)
      ((if j = c + 1 - 1 then idxMax - 1 else (j + 1) * wb - 1) + 1 - j * wb)) =
      (List.range c).flatMap (fun j => List.range' (j * wb) wb) := by
    apply List.flatMap_congr
    intro j hj
    have hj' : j < c := List.mem_range.mp hj
    rw [if_neg (by omega)]
    congr 1
    rw [Nat.succ_mul]
    omega
  rw [e1, flatMap_blocks]
  simp only [List.flatMap_cons, List.flatMap_nil, List.append_nil, Nat.add_sub_cancel, if_true]
  rw [List.range_eq_range', List.range_eq_range']
  have e2 : idxMax - 1 + 1 - c * wb = idxMax - c * wb := by omega
  rw [e2]
  have := List.range'_append (s := 0) (m := c * wb) (n := idxMax - c * wb) (step := 1)
  simp only [Nat.one_mul, Nat.zero_add] at this
  rw [this]
  congr 1
  omega

theorem jobRanges_nonempty_ranges (idxMax threads : Nat) (h1 : 0 < idxMax) (ht : 0 < threads) :
    ∀ r ∈ jobRanges idxMax threads, r.1 ≤ r.2 ∧ r.2 < idxMax := by
  intro r hr
  unfold jobRanges at hr
  simp only [List.mem_map, List.mem_range] at hr
  obtain ⟨j, hj, rfl⟩ := hr
  obtain ⟨c, hc⟩ : ∃ c, min (4 * threads) idxMax = c + 1 :=
    ⟨min (4 * threads) idxMax - 1, by have := ht; omega⟩
  rw [hc] at hj ⊢
  set wb := idxMax / (c + 1) with hwb
  have hle : (c + 1) * wb ≤ idxMax := Nat.mul_div_le idxMax (c + 1)
  have hwpos : 0 < wb := Nat.div_pos (by omega) (Nat.succ_pos c)
  have hj1 : (j + 1) * wb ≤ (c + 1) * wb := Nat.mul_le_mul_right _ (by omega)
  have hj2 : (j + 1) * wb = j * wb + wb := Nat.succ_mul j wb
  simp only []
  split <;> constructor <;> omega

/-- latent defect: if the concurrency query returns 0 there are no jobs at all -/
theorem jobRanges_zero_threads (idxMax : Nat) : jobRanges idxMax 0 = [] := by
  simp [jobRanges]

/-! ### Gray code -/

theorem foldl_mul_init (l : List Nat) (a : Nat) :
    l.foldl (· * ·) a = a * l.foldl (· * ·) 1 := by
  induction l generalizing a with
  | nil => simp
  | cons x xs ih =>
    simp only [List.foldl_cons]
    rw [ih (a * x), ih (1 * x)]
    ring

theorem total_nil : total [] = 1 := rfl

theorem total_cons (n : Nat) (ns : List Nat) : total (n :: ns) = n * total ns := by
  unfold total
  rw [List.foldl_cons, foldl_mul_init]
  simp

theorem grayOfChain_cons (n c : Nat) (ns cs : List Nat) :
    grayOfChain (n :: ns) (c :: cs) =
      ((if (grayOfChain ns cs).2 then n - 1 - c else c) :: (grayOfChain ns cs).1,
       (grayOfChain ns cs).2 != ((if (grayOfChain ns cs).2 then n - 1 - c else c) % 2 == 1)) := rfl

/-- chain digits are below their limits -/
def Valid : List Nat → List Nat → Prop
  | n :: ns, c :: cs => c < n ∧ Valid ns cs
  | [], [] => True
  | _, _ => False

theorem valid_chainOf (ns : List Nat) (hpos : ∀ n ∈ ns, 0 < n) (o : Nat) : Valid ns (chainOf ns o) := by
  induction ns generalizing o with
  | nil => trivial
  | cons n ns ih =>
    refine ⟨Nat.mod_lt _ (hpos n (by simp)), ih (fun m hm => hpos m (by simp [hm])) _⟩

theorem gray_valid (ns cs : List Nat) (h : Valid ns cs) : Valid ns (grayOfChain ns cs).1 := by
  induction ns generalizing cs with
  | nil => cases cs <;> simp_all [Valid, grayOfChain]
  | cons n ns ih =>
    cases cs with
    | nil => exact h.elim
    | cons c cs =>
      rw [grayOfChain_cons]
      refine ⟨?_, ih cs h.2⟩
      have := h.1
      split <;> omega

theorem valid_getD (ns cs : List Nat) (h : Valid ns cs) :
    cs.length = ns.length ∧ ∀ i, i < ns.length → cs.getD i 0 < ns.getD i 0 := by
  induction ns generalizing cs with
  | nil => cases cs <;> simp_all [Valid]
  | cons n ns ih =>
    cases cs with
    | nil => exact h.elim
    | cons c cs =>
      obtain ⟨h1, h2⟩ := ih cs h.2
      refine ⟨by simp [h1], ?_⟩
      intro i hi
      cases i with
      | zero => simpa using h.1
      | succ i => simpa using h2 i (by simpa using hi)

set_option linter.unusedVariables false in
/-- every digit stays below its limit -/
theorem grayOf_lt (limits : List Nat) (hpos : ∀ n ∈ limits, 0 < n) (o : Nat) :
    (grayOf limits o).length = limits.length ∧
    ∀ i (h : i < limits.length), (grayOf limits o).getD i 0 < limits.getD i 0 := by
  have := valid_getD limits _ (gray_valid limits _ (valid_chainOf limits hpos o))
  exact this

theorem grayOfChain_inj (ns cs ds : List Nat) (hc : Valid ns cs) (hd : Valid ns ds)
    (h : (grayOfChain ns cs).1 = (grayOfChain ns ds).1) : cs = ds := by
  induction ns generalizing cs ds with
  | nil =>
    cases cs <;> cases ds <;> simp_all [Valid]
  | cons n ns ih =>
    cases cs with
    | nil => exact hc.elim
    | cons c cs =>
      cases ds with
      | nil => exact hd.elim
      | cons d ds =>
        rw [grayOfChain_cons, grayOfChain_cons] at h
        simp only [List.cons.injEq] at h
        have ht := ih cs ds hc.2 hd.2 h.2
        subst ht
        have h1 := h.1
        have := hc.1
        have := hd.1
        congr 1
        split at h1 <;> omega

theorem chainOf_inj (ns : List Nat) (hpos : ∀ n ∈ ns, 0 < n) (a b : Nat)
    (ha : a < total ns) (hb : b < total ns) (h : chainOf ns a = chainOf ns b) : a = b := by
  induction ns generalizing a b with
  | nil => rw [total_nil] at ha hb; omega
  | cons n ns ih =>
    have hn : 0 < n := hpos n (by simp)
    rw [total_cons] at ha hb
    simp only [chainOf, List.cons.injEq] at h
    have := ih (fun m hm => hpos m (by simp [hm])) (a / n) (b / n)
      (Nat.div_lt_of_lt_mul ha) (Nat.div_lt_of_lt_mul hb) h.2
    rw [← Nat.div_add_mod a n, ← Nat.div_add_mod b n, this, h.1]

/-- distinct offsets below `Π limits` give distinct codes (so each code is visited exactly once) -/
theorem grayOf_injective (limits : List Nat) (hpos : ∀ n ∈ limits, 0 < n) (a b : Nat)
    (ha : a < total limits) (hb : b < total limits) (h : grayOf limits a = grayOf limits b) : a = b :=
  chainOf_inj limits hpos a b ha hb
    (grayOfChain_inj limits _ _ (valid_chainOf limits hpos a) (valid_chainOf limits hpos b) h)

/-- `B` differs from `A` in exactly one digit, by exactly one -/
def Adj (A B : List Nat) (L : Nat) : Prop :=
  ∃ i, i < L ∧ (B.getD i 0 = A.getD i 0 + 1 ∨ B.getD i 0 + 1 = A.getD i 0) ∧
    ∀ j, j ≠ i → B.getD j 0 = A.getD j 0

theorem succ_divmod_nocarry (o n : Nat) (hn : 0 < n) (h : o % n + 1 < n) :
    (o + 1) % n = o % n + 1 ∧ (o + 1) / n = o / n := by
  have ho : o + 1 = n * (o / n) + (o % n + 1) := by
    have := Nat.div_add_mod o n
    omega
  constructor
  · rw [ho, Nat.mul_add_mod, Nat.mod_eq_of_lt h]
  · rw [ho, Nat.mul_add_div hn, Nat.div_eq_of_lt h, Nat.add_zero]

theorem succ_divmod_carry (o n : Nat) (hn : 0 < n) (h : o % n = n - 1) :
    (o + 1) % n = 0 ∧ (o + 1) / n = o / n + 1 := by
  have ho : o + 1 = n * (o / n + 1) := by
    have := Nat.div_add_mod o n
    rw [Nat.mul_succ]
    omega
  constructor
  · rw [ho, Nat.mul_mod_right]
  · rw [ho, Nat.mul_div_cancel_left _ hn]

theorem odd_flip (a b : Nat) (h : b = a + 1 ∨ b + 1 = a) : (b % 2 == 1) = !(a % 2 == 1) := by
  rcases Nat.mod_two_eq_zero_or_one a with ha | ha <;>
  rcases Nat.mod_two_eq_zero_or_one b with hb | hb <;> first | omega | simp [ha, hb]

theorem gray_step (ns : List Nat) (hpos : ∀ n ∈ ns, 0 < n) (o : Nat) (h : o + 1 < total ns) :
    (grayOfChain ns (chainOf ns (o + 1))).2 = !(grayOfChain ns (chainOf ns o)).2 ∧
    Adj (grayOfChain ns (chainOf ns o)).1 (grayOfChain ns (chainOf ns (o + 1))).1 ns.length := by
  induction ns generalizing o with
  | nil => rw [total_nil] at h; omega
  | cons n ns ih =>
    have hn : 0 < n := hpos n (by simp)
    rw [total_cons] at h
    simp only [chainOf]
    rw [grayOfChain_cons, grayOfChain_cons]
    by_cases hc : o % n + 1 < n
    · -- no carry
      obtain ⟨e1, e2⟩ := succ_divmod_nocarry o n hn hc
      rw [e1, e2]
      set p := (grayOfChain ns (chainOf ns (o / n))).2
      set c := o % n
      have hd : (if p = true then n - 1 - (c + 1) else c + 1) = (if p = true then n - 1 - c else c) + 1 ∨
          (if p = true then n - 1 - (c + 1) else c + 1) + 1 = (if p = true then n - 1 - c else c) := by
        cases p <;> (simp; try omega)
      constructor
      · rw [odd_flip _ _ hd]
        generalize ((if p = true then n - 1 - c else c) % 2 == 1) = q
        cases p <;> cases q <;> rfl
      · refine ⟨0, by simp, by simpa using hd, ?_⟩
        intro j hj
        cases j with
        | zero => exact (hj rfl).elim
        | succ j => simp
    · -- carry
      have hc' : o % n = n - 1 := by
        have := Nat.mod_lt o hn
        omega
      obtain ⟨e1, e2⟩ := succ_divmod_carry o n hn hc'
      have hlt : o / n + 1 < total ns := by
        have ho : o + 1 = n * (o / n + 1) := by
          have := Nat.div_add_mod o n
          rw [Nat.mul_succ]
          omega
        rw [ho] at h
        exact Nat.lt_of_mul_lt_mul_left h
      obtain ⟨ihp, i, hi, hd, hs⟩ := ih (fun m hm => hpos m (by simp [hm])) (o / n) hlt
      rw [e1, e2, hc', ihp]
      set p := (grayOfChain ns (chainOf ns (o / n))).2
      have hcode : (if (!p) = true then n - 1 - 0 else 0) = (if p = true then n - 1 - (n - 1) else n - 1) := by
        cases p <;> simp
      rw [hcode]
      constructor
      · cases p <;> simp
      · refine ⟨i + 1, by simpa using hi, by simpa using hd, ?_⟩
        intro j hj
        cases j with
        | zero => simp
        | succ j => simpa using hs j (by omega)

/-- consecutive codes differ in exactly one digit, by exactly one -/
theorem gray_adjacent (limits : List Nat) (hpos : ∀ n ∈ limits, 0 < n) (o : Nat)
    (h : o + 1 < total limits) :
    ∃ i, i < limits.length ∧
      ((grayOf limits (o + 1)).getD i 0 = (grayOf limits o).getD i 0 + 1 ∨
       (grayOf limits (o + 1)).getD i 0 + 1 = (grayOf limits o).getD i 0) ∧
      ∀ j, j ≠ i → (grayOf limits (o + 1)).getD j 0 = (grayOf limits o).getD j 0 :=
  (gray_step limits hpos o h).2

theorem incChain_chainOf (ns : List Nat) (hpos : ∀ n ∈ ns, 0 < n) (o : Nat) :
    incChain ns (chainOf ns o) = chainOf ns (o + 1) := by
  induction ns generalizing o with
  | nil => rfl
  | cons n ns ih =>
    have hn : 0 < n := hpos n (by simp)
    simp only [chainOf, incChain]
    split
    · rename_i hc
      obtain ⟨e1, e2⟩ := succ_divmod_nocarry o n hn hc
      rw [e1, e2]
    · rename_i hc
      have hc' : o % n = n - 1 := by
        have := Nat.mod_lt o hn
        omega
      obtain ⟨e1, e2⟩ := succ_divmod_carry o n hn hc'
      rw [e1, e2, ih (fun m hm => hpos m (by simp [hm]))]

theorem lastDiff_single (A B : List Nat) (hl : A.length = B.length) (i : Nat) (hi : i < A.length)
    (hne : A.getD i 0 ≠ B.getD i 0) (hs : ∀ j, j ≠ i → B.getD j 0 = A.getD j 0) :
    lastDiff A B = some i ∧ A.set i (B.getD i 0) = B := by
  induction A generalizing B i with
  | nil => simp at hi
  | cons a as ih =>
    cases B with
    | nil => simp at hl
    | cons b bs =>
      have hl' : as.length = bs.length := by simpa using hl
      cases i with
      | zero =>
        have hbs : as = bs := by
          apply List.ext_getElem hl'
          intro j h1 h2
          have := hs (j + 1) (by omega)
          simp only [List.getD_eq_getElem?_getD, List.getElem?_cons_succ, List.getElem?_eq_getElem h1,
            List.getElem?_eq_getElem h2, Option.getD_some] at this
          exact this.symm
        subst hbs
        have hn : lastDiff as as = none := by
          clear ih hs hl hl' hi hne
          induction as with
          | nil => rfl
          | cons x xs ihx => simp [lastDiff, ihx]
        simp only [List.getD_cons_zero] at hne
        simp [lastDiff, hn, hne]
      | succ i =>
        have hab : a = b := by
          have := hs 0 (by omega)
          simpa using this.symm
        subst hab
        obtain ⟨h1, h2⟩ := ih bs hl' i (by simpa using hi) (by simpa using hne)
          (fun j hj => by simpa using hs (j + 1) (by omega))
        refine ⟨by simp [lastDiff, h1], ?_⟩
        simp only [List.set_cons_succ, List.getD_cons_succ]
        rw [h2]

/-- the incremental `next()` reaches exactly the state `initialize(offset + 1)` builds, and reports
the digit that changed with its old and new value -/
theorem next_eq_init (limits : List Nat) (hpos : ∀ n ∈ limits, 0 < n) (o : Nat)
    (h : o + 1 < total limits) :
    let r := (Counter.init limits o).next
    r.1 = Counter.init limits (o + 1) ∧
    r.2.2.1 = (grayOf limits o).getD r.2.1 0 ∧
    r.2.2.2 = (grayOf limits (o + 1)).getD r.2.1 0 ∧
    (grayOf limits o).getD r.2.1 0 ≠ (grayOf limits (o + 1)).getD r.2.1 0 := by
  obtain ⟨i, hi, hd, hs⟩ := gray_adjacent limits hpos o h
  have hl : (grayOf limits o).length = (grayOf limits (o + 1)).length := by
    rw [(grayOf_lt limits hpos o).1, (grayOf_lt limits hpos (o + 1)).1]
  have hne : (grayOf limits o).getD i 0 ≠ (grayOf limits (o + 1)).getD i 0 := by omega
  obtain ⟨h1, h2⟩ := lastDiff_single _ _ hl i (by rw [(grayOf_lt limits hpos o).1]; exact hi) hne hs
  have hg : (grayOfChain limits (chainOf limits (o + 1))).1 = grayOf limits (o + 1) := rfl
  simp only [Counter.next, Counter.init, incChain_chainOf limits hpos o, hg, h1, h2]
  exact ⟨trivial, trivial, trivial, hne⟩

/-! ### binomial weights -/

theorem binom_loop (n k j : Nat) :
    (List.range j).foldl (fun result i0 =>
      let i := i0 + 1
      (result / i) * (n - k + i) + (result % i) * (n - k + i) / i) 1 = Nat.choose (n - k + j) j := by
  induction j with
  | zero => simp
  | succ j ih =>
    rw [List.range_succ, List.foldl_append, ih]
    simp only [List.foldl_cons, List.foldl_nil]
    set r := Nat.choose (n - k + j) j
    set x := n - k + (j + 1)
    have hx : (n - k + j) + 1 = x := by omega
    have h := Nat.add_one_mul_choose_eq (n - k + j) j
    rw [hx] at h
    have hr : r = (j + 1) * (r / (j + 1)) + r % (j + 1) := (Nat.div_add_mod r (j + 1)).symm
    have e1 : r / (j + 1) * x + r % (j + 1) * x / (j + 1) =
        ((j + 1) * (r / (j + 1) * x) + r % (j + 1) * x) / (j + 1) := by
      rw [Nat.mul_add_div (Nat.succ_pos j)]
    have e2 : (j + 1) * (r / (j + 1) * x) + r % (j + 1) * x = r * x := by
      conv_rhs => rw [hr]
      ring
    rw [e1, e2, mul_comm r x, h]
    exact Nat.mul_div_cancel _ (Nat.succ_pos j)

theorem binomialCoeff_eq_choose (n k : Nat) : binomialCoeff n k = Nat.choose n k := by
  unfold binomialCoeff
  split
  · rename_i h; exact (Nat.choose_eq_zero_of_lt h).symm
  · rename_i h
    split
    · rename_i h2
      rcases h2 with rfl | rfl <;> simp
    · simp only []
      split
      · rename_i h3
        rw [binom_loop n (n - k) (n - k)]
        rw [Nat.sub_add_cancel (by omega)]
        exact Nat.choose_symm (by omega)
      · rw [binom_loop n k k]
        rw [Nat.sub_add_cancel (by omega)]

/-- the incremental update is exact in unbounded integers when one digit moves by one -/
theorem binomUpdate_exact (rest : Int) (m prev value : Nat) (hp : prev ≤ m) (hv : value ≤ m)
    (hadj : value = prev + 1 ∨ value + 1 = prev) :
    binomUpdate false (rest * (Nat.choose m prev : Int)) m prev value = rest * (Nat.choose m value : Int) := by
  unfold binomUpdate cdiv
  simp only [Bool.false_eq_true, if_false]
  rcases hadj with rfl | rfl
  · rw [if_neg (by omega)]
    have h := Nat.choose_succ_right_eq m prev
    have hc : ((m : Int) - (prev : Int)) = ((m - prev : Nat) : Int) := by omega
    rw [hc, mul_assoc, ← Nat.cast_mul, ← h, Nat.cast_mul, ← mul_assoc]
    rw [Int.mul_tdiv_cancel]
    exact_mod_cast Nat.succ_ne_zero prev
  · rw [if_pos (by omega)]
    have h := Nat.choose_succ_right_eq m value
    have hc : ((m : Int) - (value : Int)) = ((m - value : Nat) : Int) := by omega
    rw [hc, mul_assoc, ← Nat.cast_mul, h, Nat.cast_mul, ← mul_assoc]
    rw [Int.mul_tdiv_cancel]
    have : 0 < m - value := by omega
    exact_mod_cast this.ne'

theorem wrap32_of_small (z : Int) (h1 : -2147483648 ≤ z) (h2 : z < 2147483648) : wrap32 z = z := by
  unfold wrap32
  simp only []
  split <;> omega

/-- `int` is too narrow from multiplicity 18 on two rows: the very first weight overflows -/
theorem int32_overflow_witness :
    binomInit true [18, 18] [9, 9] ≠ binomInit false [18, 18] [9, 9] ∧
    binomInit false [18, 18] [9, 9] = 2363904400 := by
  decide +kernel

end Pq.Kernel
